/-
C11 — driver for the sqlx BulkInserter harness (core/stores/sqlx).  The model of an inserter is the container
`SqlC` of Containers.lean over the slice heap (ONE heap per section, shared by all inserters, like Go's), the
statement assembly `sqlStmt`, and a table with what parseInsertStmt makes of the harness's statements.

cfg:  kind=sqlx max=<maxBulkRows> hook=0|1
ops:  new <k> <s> | ins <k> <n> | flush <k> | upd <k> | stmt <k> <s> | hand <k> | gate <k> | open <k> | insbg <k> <n>
      | wait <k>            (see the harness for their meaning)
obs:  ok [pre=… suf=… [fmt=…]] | err | skip |
      x=<hash of the statement>|<prefix>|<rows>|<suffix> …  res=<n> bad=<n>
-/
import GoZero.Base.Trace
import GoZero.C11.Model
import GoZero.C11.Containers
import GoZero.C11.SqlParse
namespace GoZero.C11

open GoZero

/-- the statements of the harness (the same strings as `c11sStmts` in the Go harness) -/
def sqlxStmts : List String :=
  ["insert into t(a) values (?)",
   "INSERT INTO t(a) VALUES (?) ON DUPLICATE KEY UPDATE a=VALUES(a)",
   "insert ignore into t values(?)",
   "insert into t(a) values (?)   on duplicate key update a = a + 1, b = 2  ",
   "insert into t(a) values",
   "select 1",
   "insert into t(a, b) values (?)",
   "insert into myvalues(a) values (?)",
   "INSERT INTO t ( a ) VALUES(?)",
   "insert into t(a) values (?) on duplicate key update a=values(a)",
   "values (?)",
   "insert into t(a,,b) values (?)",
   "insert\tinto t(a)\nvalues\t(?)\n ON DUPLICATE KEY UPDATE a = 1 \t\n"]

/-- what `parseInsertStmt` makes of statement #i: the Lean model of the parser (SqlParse.lean) applied to the string;
(prefix, suffix, value format), `none` = error -/
def sqlxParsed (i : Nat) : Option (String × String × String) := (sqlxStmts[i]?).bind parseInsert

structure SqlInst where
  live    : Bool := false
  c       : SqlC := {}
  pre     : String := ""
  suf     : String := ""
  out     : List (Slice × String × String) := []   -- batches handed out since the last wait, with their statement
  handler : Bool := false
  res     : Nat := 0
  rerr    : Nat := 0            -- result-handler calls that were given Exec's error
  mode    : Nat := 0            -- outcome of Exec: 0 ok, 1 returns an error, 2 panics (RunSafe recovers: no result-handler call)
  gate    : Bool := false
  hits    : Nat := 0            -- threshold hand-overs since the gate was closed
  helper  : Option (List Nat) := none   -- rows the parked helper goroutine still has to insert
  -- monitor state, from the implementation's observations only
  mpre    : String := ""
  msuf    : String := ""
  since   : List Nat := []      -- rows accepted by Insert since the last wait
  deriving Inhabited

structure SqlxSt where
  heap  : Heap String := {}
  insts : List (Nat × SqlInst) := []
  next  : Nat := 1
  dead  : Bool := false
  n     : Nat := 0          -- lines of this section seen so far

def SqlxSt.get (s : SqlxSt) (k : Nat) : SqlInst := ((s.insts.find? fun p => p.1 == k).map (·.2)).getD {}
def SqlxSt.set (s : SqlxSt) (k : Nat) (i : SqlInst) : SqlxSt :=
  { s with insts := (s.insts.filter fun p => p.1 != k) ++ [(k, i)] }

def us (s : String) : String := if s = "" then "-" else ((s.replace " " "_").replace "\t" "~").replace "\n" "^"

def sqlHash (s : String) : Nat := s.foldl (fun h c => (h * 31 + c.toNat) % 4294967296) 7

def rowStr (n : Nat) : String := s!"({n})"

def showRows : List Nat → List String
  | [] => []
  | a :: rest =>
    let run := (rest.zipIdx.takeWhile fun (x, i) => x == a + i + 1).length
    (if run > 0 then s!"{a}~{a + run}" else toString a) :: showRows (rest.drop run)
termination_by l => l.length
decreasing_by simp; omega

def parseRows (s : String) : List Nat :=
  if s = "-" then [] else
  (s.splitOn ",").flatMap fun t =>
    match t.splitOn "~" with
    | [a, b] => match a.toNat?, b.toNat? with
      | some a, some b => (List.range (b + 1 - a)).map (· + a)
      | _, _ => []
    | [a] => (a.toNat?).toList
    | _ => []

def sdrop (s : String) (n : Nat) : String := String.ofList (s.toList.drop n)

def tokAfter (toks : List String) (key : String) : Option String :=
  toks.findSome? fun t => if t.startsWith (key ++ "=") then some (sdrop t (key.length + 1)) else none

/-- take the pending rows out (Flush): a non-empty batch goes to Exec with the CURRENT statement -/
def SqlInst.flush (i : SqlInst) : SqlInst :=
  let r := SqlC.removeAll i.c
  if r.2.len > 0 then { i with c := r.1, out := i.out ++ [(r.2, i.pre, i.suf)],
                                res := if i.handler ∧ i.mode ≠ 2 then i.res + 1 else i.res,
                                rerr := if i.handler ∧ i.mode = 1 then i.rerr + 1 else i.rerr }
  else { i with c := r.1 }

/-- insert rows one by one; with `stopAtHit` the inserting goroutine parks at its first hand-over (the flusher is
busy): returns the rows not inserted yet -/
def insertRows (max : Int) (stopAtHit : Bool) : List Nat → Heap String × SqlInst → (Heap String × SqlInst) × List Nat
  | [], acc => (acc, [])
  | v :: rest, (h, i) =>
    let r := SqlC.addTask (fun n => n) h i.c (rowStr v)
    -- the model's threshold is the constant of Containers.lean; `max` (from the cfg) is only used for cover counters
    let i1 := { i with c := r.2.1 }
    if r.2.2 then
      let i2 := { i1.flush with hits := if i.gate then i.hits + 1 else i.hits }
      if stopAtHit then ((r.1, i2), rest) else insertRows max stopAtHit rest (r.1, i2)
    else insertRows max stopAtHit rest (r.1, i1)

def hitsOf (i : SqlInst) (n : Nat) : Nat := (i.c.values.len + n) / 1000

def sortExecs (l : List (Nat × String)) : List (Nat × String) :=
  l.foldr (fun x acc => let (lo, hi) := acc.span (fun y => y.1 < x.1); lo ++ [x] ++ hi) []

/-- the `wait` observation the model expects -/
def expectWait (h : Heap String) (i : SqlInst) : List String :=
  let execs := i.out.filterMap fun (b, pre, suf) =>
    let rows := h.read b
    match sqlStmt pre suf rows with
    | none => none
    | some q =>
      let ns := rows.filterMap fun r => (String.ofList ((r.toList.drop 1).dropLast)).toNat?
      some (ns.headD 0, s!"x={sqlHash q}|{us pre}|{",".intercalate (showRows ns)}|{us suf}")
  (sortExecs execs).map (·.2) ++ [s!"res={i.res}", s!"rerr={i.rerr}", "bad=0"]

def sqlxLine (max : Int) (hook : Bool) (sec : Nat) (acc : Report × SqlxSt) (l : Line) : Report × SqlxSt := Id.run do
  let (r0, s) := acc
  let mut r := { r0 with ops := r0.ops + 1 }
  let impl := joinSp l.obs
  r := r.addCover ("sqlx-op-" ++ l.op.headD "?")
  if s.dead then return (r, s)
  if impl = "stuck" then
    if s.n = 0 then return (r.addCover "sqlx-skipped-after-a-wedged-executor", { s with dead := true })
    return (r.violation sec l.idx s!"sqlx BulkInserter: {" ".intercalate l.op}: the call never returns (every goroutine is parked: the executor is wedged) — Insert / Flush / Wait must come back, Wait when every accepted row has been handed to Exec", { s with dead := true })
  let s := { s with n := s.n + 1 }
  let bad := (r.mismatch sec l.idx "a known op" impl, { s with dead := true })
  match l.op with
  | [op, ks] | [op, ks, _] =>
    let some k := ks.toNat? | return bad
    let arg := (l.op.getD 2 "").toNat?
    let i := s.get k
    -- what the model expects
    let skip (why : String) : Report × SqlxSt :=
      if impl = "skip" then (r.addCover ("sqlx-skip-" ++ why), s) else (r.mismatch sec l.idx "skip" impl, { s with dead := true })
    if op = "new" then
      let some si := arg | return bad
      if i.live ∧ (i.gate ∨ i.helper.isSome) then return skip "new-while-gated"
      match (sqlxParsed si) with
      | none =>
        r := r.addCover "sqlx-statement-rejected"
        if impl ≠ "err" then r := r.mismatch sec l.idx "err" impl
        return (r, s.set k {})
      | some (pre, suf, fmt) =>
        let want := s!"ok pre={us pre} suf={us suf} fmt={us fmt}"
        if suf ≠ "" then r := r.addCover "sqlx-statement-with-suffix"
        if s.insts.any (fun p => p.1 != k ∧ p.2.live) then r := r.addCover "sqlx-second-inserter-in-section"
        if i.live then r := r.addCover "sqlx-inserter-replaced-in-slot"
        if impl ≠ want then r := r.mismatch sec l.idx want impl
        let mp := (tokAfter l.obs "pre").getD "?"
        let ms := (tokAfter l.obs "suf").getD "?"
        let inew : SqlInst := { live := true, pre := pre, suf := suf, mpre := mp, msuf := ms }
        return (r, s.set k inew)
    if !i.live then return skip "no-inserter"
    match op with
    | "ins" =>
      let some n := arg | return bad
      let hits := hitsOf i n
      if i.gate ∧ !(hits = 0 ∨ (hits = 1 ∧ i.hits = 0)) then return skip "ins-would-park-behind-gate"
      let rows := (List.range n).map (· + s.next)
      let ((h', i'), _) := insertRows max false rows (s.heap, i)
      if hits > 0 then r := r.addCover "sqlx-insert-reaches-maxBulkRows"
      if (i'.c.values.len : Int) + 1 = max then r := r.addCover "sqlx-container-at-maxBulkRows-1"
      if i'.c.values.len = 0 ∧ n > 0 then r := r.addCover "sqlx-insert-ends-exactly-at-threshold"
      if i.helper.isSome then r := r.addCover "sqlx-insert-while-handed-over-batch-waits-for-the-flusher"
      if impl ≠ "ok" then
        r := r.mismatch sec l.idx "ok" impl
        return (r, { s with dead := true })
      let i2 : SqlInst := { i' with since := i'.since ++ rows }
      let s2 := s.set k i2
      return (r, { s2 with heap := h', next := s.next + n })
    | "insbg" =>
      let some n := arg | return bad
      if !(hook ∧ i.gate ∧ i.helper.isNone ∧ i.hits = 1) then return skip "insbg-needs-a-busy-flusher"
      let rows := (List.range n).map (· + s.next)
      let ((h', i'), rest) := insertRows max true rows (s.heap, i)
      if impl ≠ "ok" then
        r := r.mismatch sec l.idx "ok" impl
        return (r, { s with dead := true })
      if rest.length < n ∧ i'.hits = 2 then r := r.addCover "sqlx-helper-parked-with-handed-over-batch"
      let i2 : SqlInst := { i' with since := i'.since ++ rows, helper := some rest }
      let s2 := s.set k i2
      return (r, { s2 with heap := h', next := s.next + n })
    | "gate" =>
      if i.gate then return skip "gate-twice"
      if impl ≠ "ok" then r := r.mismatch sec l.idx "ok" impl
      return (r, s.set k { i with gate := true, hits := 0 })
    | "open" =>
      if !i.gate then return skip "open-without-gate"
      let ((h', i'), _) := insertRows max false (i.helper.getD []) (s.heap, { i with gate := false })
      if impl ≠ "ok" then r := r.mismatch sec l.idx "ok" impl
      let i2 : SqlInst := { i' with helper := none, hits := 0 }
      let s2 := s.set k i2
      return (r, { s2 with heap := h' })
    | _ =>
    if i.gate then return skip "behind-gate"
    match op with
    | "flush" | "upd" =>
      -- "on an explicit Flush": when Flush has returned (when the fn of UpdateOrDelete runs) nothing is pending
      let c := kvInt l.obs "c" 0
      if c > 0 then
        r := r.violation sec l.idx s!"sqlx BulkInserter: {c} rows are still pending in the inserter {if op = "flush" then "after Flush has returned" else "when the fn of UpdateOrDelete runs"}: an explicit Flush must hand every accepted row to Exec"
      if c < 0 then
        r := r.violation sec l.idx "sqlx BulkInserter: UpdateOrDelete did not run fn"
      if impl ≠ "ok c=0" then r := r.mismatch sec l.idx "ok c=0" impl
      if i.c.values.len > 0 then r := r.addCover "sqlx-flush-takes-partial-batch"
      return (r, s.set k i.flush)
    | "hand" | "handp" =>
      if impl ≠ "ok" then r := r.mismatch sec l.idx "ok" impl
      -- a handler that panics after counting: RunSafe recovers, the flusher / the caller go on
      return (r.addCover ("sqlx-result-handler-" ++ (if op = "handp" then "panicking" else "counting")), s.set k { i.flush with handler := true })
    | "unhand" =>
      if impl ≠ "ok" then r := r.mismatch sec l.idx "ok" impl
      return (r.addCover "sqlx-result-handler-nil", s.set k { i.flush with handler := false })
    | "mode" =>
      let some m := arg | return bad
      if m > 2 then return bad
      if impl ≠ "ok" then r := r.mismatch sec l.idx "ok" impl
      return (r.addCover s!"sqlx-exec-outcome-{if m = 0 then "ok" else if m = 1 then "error" else "panic"}-{if i.handler then "with" else "without"}-result-handler",
              s.set k { i.flush with mode := m })
    | "insx" =>
      -- `format` rejects the arguments: Insert returns the error BEFORE executor.Add — nothing is accepted
      if impl ≠ "err" then
        r := r.mismatch sec l.idx "err" impl
        return (r, { s with dead := true })
      return (r.addCover "sqlx-insert-rejected-by-format", s)
    | "stmt" =>
      let some si := arg | return bad
      let i1 := i.flush
      match (sqlxParsed si) with
      | none =>
        if impl ≠ "err" then r := r.mismatch sec l.idx "err" impl
        return (r.addCover "sqlx-UpdateStmt-rejected", s.set k i1)
      | some (pre, suf, _) =>
        let want := s!"ok pre={us pre} suf={us suf}"
        if impl ≠ want then r := r.mismatch sec l.idx want impl
        if pre ≠ i.pre ∨ suf ≠ i.suf then r := r.addCover "sqlx-UpdateStmt-changes-statement"
        let mp := (tokAfter l.obs "pre").getD i.mpre
        let ms := (tokAfter l.obs "suf").getD i.msuf
        let inew : SqlInst := { i1 with pre := pre, suf := suf, mpre := mp, msuf := ms }
        return (r, s.set k inew)
    | "wait" =>
      let i1 := i.flush
      -- (a) the property on the implementation's own observation
      let xs := l.obs.filter (·.startsWith "x=")
      let mut seen : List Nat := []
      for x in xs do
        match (sdrop x 2).splitOn "|" with
        | [_, pre, rows, suf] =>
          let ns := parseRows rows
          seen := seen ++ ns
          if (ns.length : Int) > max then
            r := r.violation sec l.idx s!"sqlx BulkInserter: a batch of {ns.length} rows reached Exec: the threshold maxBulkRows={max} was passed without the batch being taken out"
          -- the statement pieces the implementation itself reported when the statement was set (the last two)
          if !((pre = i.mpre ∧ suf = i.msuf) ∨ i1.out.any (fun o => us o.2.1 = pre ∧ us o.2.2 = suf)) then
            r := r.violation sec l.idx s!"sqlx BulkInserter: rows {rows} were executed with prefix '{pre}' suffix '{suf}', but the inserter's statement is prefix '{i.mpre}' suffix '{i.msuf}'"
          if suf ≠ "-" then r := r.addCover "sqlx-exec-with-suffix"
        | _ => r := r.mismatch sec l.idx "x=<hash>|<prefix>|<rows>|<suffix>" x
      let nbad := ((tokAfter l.obs "bad").getD "0").toNat?.getD 0
      if nbad > 0 then
        r := r.violation sec l.idx s!"sqlx BulkInserter: {nbad} statements handed to Exec are not '<prefix> (row), (row), … [suffix]': the rows in them were not executed as accepted"
      let seenS := sortNat seen
      let want := sortNat i1.since
      let dups := (seenS.zip (seenS.drop 1)).filterMap fun (a, b) => if a = b then some a else none
      if !dups.isEmpty then
        r := r.violation sec l.idx s!"sqlx BulkInserter: {dups.length} rows were handed to Exec twice (first: row {dups.headD 0})"
      let missing := want.filter fun x => !seenS.contains x
      if !missing.isEmpty then
        r := r.violation sec l.idx s!"sqlx BulkInserter: {missing.length} rows accepted by Insert were never executed although Wait has returned (first: row {missing.headD 0})"
      let foreign := seenS.filter fun x => !want.contains x
      if !foreign.isEmpty then
        r := r.violation sec l.idx s!"sqlx BulkInserter: {foreign.length} rows reached Exec on this inserter but were not inserted on it since its last Wait (first: row {foreign.headD 0})"
      -- (b) the model: same statements (hash of `sqlStmt`), same batches
      let wantToks := expectWait s.heap i1
      if wantToks ≠ l.obs then
        -- a real ticker tick (1 s) may have split a batch on a loaded machine: same rows in order, same statement pieces
        let pieces := fun (toks : List String) => (toks.filter (·.startsWith "x=")).flatMap fun x =>
          match (sdrop x 2).splitOn "|" with
          | [_, pre, rows, suf] => (parseRows rows).map fun n => s!"{pre}|{n}|{suf}"
          | _ => [x]
        if pieces wantToks = pieces l.obs ∧ xs.length > (wantToks.filter (·.startsWith "x=")).length then
          r := r.addCover "sqlx-batch-split-by-a-real-tick"
        else
          r := r.mismatch sec l.idx (joinSp wantToks) impl
          return (r, { s with dead := true })
      if i1.out.length > 1 then r := r.addCover "sqlx-several-batches-in-one-wait"
      if i1.out.length > 0 ∧ i1.mode = 1 then r := r.addCover "sqlx-batches-executed-while-Exec-returns-an-error"
      if i1.out.length > 0 ∧ i1.mode = 2 then r := r.addCover "sqlx-batches-executed-while-Exec-panics"
      return (r, s.set k { i1 with out := [], since := [] })
    | _ => return bad
  | _ => return bad

def driverSqlx (secs : List Section) : Report :=
  secs.foldl (fun r s => (s.lines.foldl (sqlxLine (kvInt s.cfg "max" 1000) (kvNat s.cfg "hook" 0 = 1) s.idx) (r, {})).1) {}

end GoZero.C11
