/-
C11 — executable small-step model of core/executors/periodicalexecutor.go (core Lean only).

One row per atomic action of the Go code; any number of goroutines (`thr : List Thread`, any length);
a schedule is a list of `(thread, action)` pairs, so "for all reachable states" = for all interleavings of
Add / Flush / Wait callers, background flushers (which quit when idle and are restarted by the next Add),
ticker ticks, clock advances and callback completions (normal or panicking).

Go code                                               model pc
------------------------------------------------------------------------------------------------
Add:        addAndCheck: pe.lock.Lock()                aLock x
              container.AddTask(task)                  aAdd x        (container, ghost `added`)
              atomic.AddInt32(&pe.inflight, 1)         aInc          (only when AddTask said "full")
              container.RemoveAll()                    aRemove
              deferred: if !guarded {guarded = true}   aGuard ok
                        pe.lock.Unlock()               aUnlock ok sp
                        (deferred) backgroundFlush()   aSpawn ok     (go func: a spawn token)
            pe.commander <- vals                       aSend         (buffer 1)
            <-pe.confirmChan                           aConfirm      (rendezvous with bConfirm)
Flush (c = who called it: ext | wait | tick | quit)
            enterExecution: barrier{ wg.Add(1) }       fEnter c
            pe.lock.Lock()                             fLock c
            container.RemoveAll()                      fRemove c
            pe.lock.Unlock()                           fUnlock c
            executeTasks: hasTasks                     fExec c
              RunSafe(container.Execute(tasks))        fCall c       (left by `cbEnd panic?`)
              deferred doneExecution: wg.Done()        fDone c ok
Wait        Flush(); [fixed: for inflight > 0 {…}]     wSpin
            wgBarrier.Guard( lock                      wBarrier
              waitGroup.Wait()                         wWait
            ) unlock                                   wUnbarrier
backgroundFlush goroutine
            select { case vals := <-commander | tick } bSelect commanded
            pinned order:  inflight-- ; enterExecution bDec ; bEnter
            fixed order:   enterExecution ; inflight-- bEnterF ; bDecF
            pe.confirmChan <- Placeholder              bConfirm
            executeTasks(vals)                         bExec ; bCall ; bDone      (then last = Now)
            tick: commanded ? commanded=false : Flush()  (fEnter tick … fDone tick ok)
            shallQuit(last): Since(last) <= 10*interval  bQuit
              lock; if inflight == 0 {guarded=false; stop}; unlock   qLock ; qCheck ; qUnlock stop
            return → deferred ticker.Stop, Flush()     fEnter quit … → idle
-/
namespace GoZero.C11

abbrev Task := Nat

inductive Ctx | ext | wait | tick | quit
  deriving DecidableEq, Repr, Hashable

inductive Pc
  | idle
  | aLock (x : Task) | aAdd (x : Task) | aInc | aRemove | aGuard (ok : Bool) | aUnlock (ok sp : Bool)
  | aSpawn (ok : Bool) | aSend | aConfirm
  | fEnter (c : Ctx) | fLock (c : Ctx) | fRemove (c : Ctx) | fUnlock (c : Ctx) | fExec (c : Ctx)
  | fCall (c : Ctx) | fDone (c : Ctx) (ok : Bool)
  | wSpin | wBarrier | wWait | wUnbarrier
  | bSelect (commanded : Bool) | bDec | bEnter | bEnterF | bDecF | bConfirm | bExec | bCall | bDone
  | bQuit | qLock | qCheck | qUnlock (stop : Bool)
  deriving DecidableEq, Repr, Hashable

structure Thread where
  pc   : Pc := .idle
  reg  : List Task := []      -- the batch this goroutine holds (vals / tasks)
  last : Nat := 0             -- flusher's `last`
  snap : List Task := []      -- ghost: `added` at the moment this goroutine called Wait
  deriving DecidableEq, Repr, Hashable

structure St where
  thr       : List Thread
  container : List Task := []
  lock      : Bool := false
  commander : Option (List Task) := none
  inflight  : Int := 0
  guarded   : Bool := false
  wg        : Nat := 0
  barrier   : Bool := false
  spawn     : Nat := 0          -- `go func` issued, goroutine not started yet
  now       : Nat := 0
  added     : List Task := []   -- ghost: tasks accepted by AddTask, in order
  finished  : List Task := []   -- ghost: tasks whose callback has returned (or panicked)
  lost      : List Task := []   -- ghost: tasks of batches whose callback panicked (⊆ finished)
  deriving DecidableEq, Repr, Hashable

structure Cfg where
  full     : List Task → Bool    -- AddTask's answer on the container *after* the append
  interval : Nat := 1
  fixed    : Bool := true        -- true: the code after fixes/C11-wait-misses-handover.patch; false: pinned order

def bulkFull (max : Int) (l : List Task) : Bool := decide ((l.length : Int) ≥ max)
/-- chunk: the declared sizes are Go ints — any sign, any magnitude -/
def chunkFull (size : Task → Int) (max : Int) (l : List Task) : Bool := decide ((l.map size).sum ≥ max)

inductive Act
  | add (x : Task) | flush | wait      -- an idle goroutine calls the API
  | start                               -- an idle goroutine slot becomes the spawned flusher
  | tau                                 -- the goroutine's next atomic action
  | tick                                -- the flusher's select takes the ticker case
  | confirm (u : Nat)                   -- the flusher's confirmChan send meets producer u's receive
  | cbEnd (panic : Bool)                -- the execute callback returns / panics (recovered by RunSafe)
  | advance (d : Nat)                   -- the clock moves (thread index ignored)
  deriving DecidableEq, Repr

def idleRound : Nat := 10

def St.upd (s : St) (t : Nat) (th : Thread) : St := { s with thr := s.thr.set t th }

/-- where a Flush returns to -/
def flushRet (cfg : Cfg) (c : Ctx) (ok : Bool) : Pc :=
  match c with
  | .ext => .idle
  | .wait => if cfg.fixed then .wSpin else .wBarrier
  | .tick => if ok then .bSelect false else .bQuit
  | .quit => .idle

def stepTh (cfg : Cfg) (s : St) (t : Nat) (th : Thread) (a : Act) : Option St :=
  match th.pc, a with
  | .idle, .add x => some (s.upd t { th with pc := .aLock x })
  | .idle, .flush => some (s.upd t { th with pc := .fEnter .ext })
  | .idle, .wait => some (s.upd t { th with pc := .fEnter .wait, snap := s.added })
  | .idle, .start =>
    if s.spawn = 0 then none
    else some ({ s with spawn := s.spawn - 1 }.upd t { th with pc := .bSelect false, last := s.now })
  -- Add
  | .aLock x, .tau => if s.lock then none else some ({ s with lock := true }.upd t { th with pc := .aAdd x })
  | .aAdd x, .tau =>
    let c' := s.container ++ [x]
    some ({ s with container := c', added := s.added ++ [x] }.upd t
      { th with pc := if cfg.full c' then .aInc else .aGuard false })
  | .aInc, .tau => some ({ s with inflight := s.inflight + 1 }.upd t { th with pc := .aRemove })
  | .aRemove, .tau => some ({ s with container := [] }.upd t { th with pc := .aGuard true, reg := s.container })
  | .aGuard ok, .tau =>
    if s.guarded then some (s.upd t { th with pc := .aUnlock ok false })
    else some ({ s with guarded := true }.upd t { th with pc := .aUnlock ok true })
  | .aUnlock ok sp, .tau =>
    some ({ s with lock := false }.upd t { th with pc := if sp then .aSpawn ok else if ok then .aSend else .idle })
  | .aSpawn ok, .tau => some ({ s with spawn := s.spawn + 1 }.upd t { th with pc := if ok then .aSend else .idle })
  | .aSend, .tau =>
    match s.commander with
    | some _ => none
    | none => some ({ s with commander := some th.reg }.upd t { th with pc := .aConfirm, reg := [] })
  -- Flush
  | .fEnter c, .tau => if s.barrier then none else some ({ s with wg := s.wg + 1 }.upd t { th with pc := .fLock c })
  | .fLock c, .tau => if s.lock then none else some ({ s with lock := true }.upd t { th with pc := .fRemove c })
  | .fRemove c, .tau => some ({ s with container := [] }.upd t { th with pc := .fUnlock c, reg := s.container })
  | .fUnlock c, .tau => some ({ s with lock := false }.upd t { th with pc := .fExec c })
  | .fExec c, .tau => some (s.upd t { th with pc := if th.reg = [] then .fDone c false else .fCall c })
  | .fCall c, .cbEnd p =>
    some ({ s with finished := s.finished ++ th.reg, lost := if p then s.lost ++ th.reg else s.lost }.upd t
      { th with pc := .fDone c true, reg := [] })
  | .fDone c ok, .tau =>
    if s.wg = 0 then none
    else some ({ s with wg := s.wg - 1 }.upd t
      { th with pc := flushRet cfg c ok, last := if c = Ctx.tick ∧ ok = true then s.now else th.last })
  -- Wait
  | .wSpin, .tau => if s.inflight > 0 then none else some (s.upd t { th with pc := .wBarrier })
  | .wBarrier, .tau => if s.barrier then none else some ({ s with barrier := true }.upd t { th with pc := .wWait })
  | .wWait, .tau => if s.wg = 0 then some (s.upd t { th with pc := .wUnbarrier }) else none
  | .wUnbarrier, .tau => some ({ s with barrier := false }.upd t { th with pc := .idle })
  -- background flusher
  | .bSelect _, .tau =>
    match s.commander with
    | none => none
    | some b => some ({ s with commander := none }.upd t
        { th with pc := if cfg.fixed then .bEnterF else .bDec, reg := b })
  | .bSelect cm, .tick => some (s.upd t { th with pc := if cm then .bSelect false else .fEnter .tick })
  | .bDec, .tau => some ({ s with inflight := s.inflight - 1 }.upd t { th with pc := .bEnter })
  | .bEnter, .tau => if s.barrier then none else some ({ s with wg := s.wg + 1 }.upd t { th with pc := .bConfirm })
  | .bEnterF, .tau => if s.barrier then none else some ({ s with wg := s.wg + 1 }.upd t { th with pc := .bDecF })
  | .bDecF, .tau => some ({ s with inflight := s.inflight - 1 }.upd t { th with pc := .bConfirm })
  | .bConfirm, .confirm u =>
    match s.thr[u]? with
    | some tu => if tu.pc = .aConfirm then some ((s.upd t { th with pc := .bExec }).upd u { tu with pc := .idle }) else none
    | none => none
  | .bExec, .tau => some (s.upd t { th with pc := if th.reg = [] then .bDone else .bCall })
  | .bCall, .cbEnd p =>
    some ({ s with finished := s.finished ++ th.reg, lost := if p then s.lost ++ th.reg else s.lost }.upd t
      { th with pc := .bDone, reg := [] })
  | .bDone, .tau =>
    if s.wg = 0 then none
    else some ({ s with wg := s.wg - 1 }.upd t { th with pc := .bSelect true, last := s.now })
  | .bQuit, .tau =>
    some (s.upd t { th with pc := if s.now - th.last ≤ cfg.interval * idleRound then .bSelect false else .qLock })
  | .qLock, .tau => if s.lock then none else some ({ s with lock := true }.upd t { th with pc := .qCheck })
  | .qCheck, .tau =>
    if s.inflight = 0 then some ({ s with guarded := false }.upd t { th with pc := .qUnlock true })
    else some (s.upd t { th with pc := .qUnlock false })
  | .qUnlock stop, .tau =>
    some ({ s with lock := false }.upd t { th with pc := if stop then .fEnter .quit else .bSelect false })
  | _, _ => none

def step (cfg : Cfg) (s : St) (t : Nat) (a : Act) : Option St :=
  match a with
  | .advance d => some { s with now := s.now + d }
  | _ =>
    match s.thr[t]? with
    | none => none
    | some th => stepTh cfg s t th a

/-- `n` goroutine slots, nothing added yet. -/
def init (n : Nat) : St := { thr := List.replicate n {} }

/-- run a schedule; `none` if some action was not enabled -/
def run (cfg : Cfg) (s : St) : List (Nat × Act) → Option St
  | [] => some s
  | (t, a) :: rest => match step cfg s t a with
    | none => none
    | some s' => run cfg s' rest

/-- every configuration some schedule can produce, for any number of goroutines -/
inductive Reachable (cfg : Cfg) : St → Prop
  | init (n : Nat) : Reachable cfg (init n)
  | step {s s' : St} (t : Nat) (a : Act) : Reachable cfg s → step cfg s t a = some s' → Reachable cfg s'

end GoZero.C11
