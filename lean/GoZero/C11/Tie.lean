/-
C11 — Tie: what the extractor read from core/executors/{periodical,bulk,chunk}executor.go *now* equals the
statement skeletons the step table of Model.lean was written against (see the table at the top of Model.lean).
A failing obligation here means the code moved away from the model.
-/
import GoZero.Extracted.C11
import GoZero.C11.Model
namespace GoZero.C11.Tie
open GoZero.Extracted.C11

theorem extraction_clean : extractionErrors = [] := by decide

/-- the property's literal number: the flusher may quit after more than 10 idle intervals -/
theorem tie_idleRound : idleRound = 10 ∧ GoZero.C11.idleRound = 10 := by decide

theorem tie_addShape : addShape =
    ["call pe.addAndCheck", "if ok {", "send pe.commander", "recv pe.confirmChan", "}"] := by decide

theorem tie_addAndCheckShape : addAndCheckShape =
    ["call pe.lock.Lock", "defer{", "func{", "if !pe.guarded {", "store pe.guarded", "defer{",
     "call pe.backgroundFlush", "}", "}", "call pe.lock.Unlock", "}", "call func", "}",
     "if pe.container.AddTask(task) {", "call atomic.AddInt32", "call pe.container.RemoveAll", "return", "}",
     "return"] := by decide

theorem tie_flushShape : flushShape =
    ["call pe.enterExecution", "func{", "call pe.lock.Lock", "defer{", "call pe.lock.Unlock", "}",
     "call pe.container.RemoveAll", "return", "}", "call func", "call pe.executeTasks", "return"] := by decide

theorem tie_waitShape : waitShape =
    ["call pe.Flush", "for atomic.LoadInt32(&pe.inflight) > 0 {", "}", "func{", "call pe.waitGroup.Wait", "}",
     "call pe.wgBarrier.Guard"] := by decide

theorem tie_backgroundFlushShape : backgroundFlushShape =
    ["go{", "func{", "defer{", "call pe.Flush", "}", "call pe.newTicker", "defer{", "call ticker.Stop", "}",
     "call timex.Now", "for {", "select{", "case recv pe.commander:", "call pe.enterExecution",
     "call atomic.AddInt32", "send pe.confirmChan", "call pe.executeTasks", "call timex.Now",
     "case recv ticker.Chan(); call ticker.Chan:", "if commanded {", "}", "else{", "if pe.Flush() {",
     "call timex.Now", "}", "else{", "if pe.shallQuit(last) {", "return", "}", "}", "}", "}", "}", "}",
     "call func", "}"] := by decide

theorem tie_enterExecutionShape : enterExecutionShape =
    ["func{", "call pe.waitGroup.Add", "}", "call pe.wgBarrier.Guard"] := by decide

theorem tie_doneExecutionShape : doneExecutionShape =
    ["call pe.waitGroup.Done"] := by decide

theorem tie_executeTasksShape : executeTasksShape =
    ["defer{", "call pe.doneExecution", "}", "call pe.hasTasks", "if ok {", "func{",
     "call pe.container.Execute", "}", "call threading.RunSafe", "}", "return"] := by decide

theorem tie_hasTasksShape : hasTasksShape =
    ["if tasks == nil {", "return", "}", "switch val.Kind() {",
     "case reflect.Array, reflect.Chan, reflect.Map, reflect.Slice:", "call val.Len", "return", "default:",
     "return", "}"] := by decide

theorem tie_shallQuitShape : shallQuitShape =
    ["if timex.Since(last) <= pe.interval*idleRound {", "return", "}", "call pe.lock.Lock",
     "if atomic.LoadInt32(&pe.inflight) == 0 {", "store pe.guarded", "}", "call pe.lock.Unlock", "return"] := by decide

theorem tie_newShape : newShape =
    ["func{", "call timex.NewTicker", "return", "}", "func{", "call executor.Flush", "}",
     "call proc.AddShutdownListener", "return"] := by decide

theorem tie_bulkAddTaskShape : bulkAddTaskShape =
    ["store bc.tasks", "return"] := by decide

theorem tie_bulkRemoveAllShape : bulkRemoveAllShape =
    ["store bc.tasks", "return"] := by decide

theorem tie_bulkExecuteShape : bulkExecuteShape =
    ["call bc.execute"] := by decide

theorem tie_bulkAddShape : bulkAddShape =
    ["call be.executor.Add", "return"] := by decide

theorem tie_bulkFlushShape : bulkFlushShape =
    ["call be.executor.Flush"] := by decide

theorem tie_bulkWaitShape : bulkWaitShape =
    ["call be.executor.Wait"] := by decide

theorem tie_chunkAddTaskShape : chunkAddTaskShape =
    ["store bc.tasks", "store bc.size", "return"] := by decide

theorem tie_chunkRemoveAllShape : chunkRemoveAllShape =
    ["store bc.tasks", "store bc.size", "return"] := by decide

theorem tie_chunkExecuteShape : chunkExecuteShape =
    ["call bc.execute"] := by decide

theorem tie_chunkAddShape : chunkAddShape =
    ["call ce.executor.Add", "return"] := by decide

theorem tie_chunkFlushShape : chunkFlushShape =
    ["call ce.executor.Flush"] := by decide

theorem tie_chunkWaitShape : chunkWaitShape =
    ["call ce.executor.Wait"] := by decide

end GoZero.C11.Tie
