/-
C11 — Tie: what the extractor read from core/executors/{periodical,bulk,chunk}executor.go *now* equals the
statement skeletons the step table of Model.lean was written against (see the table at the top of Model.lean).
A failing obligation here means the code moved away from the model.
-/
import GoZero.Extracted.C11
import GoZero.C11.Model
import GoZero.C11.Containers
import GoZero.C11.DriverSeq
import GoZero.C11.Api
import GoZero.C11.SqlParse
namespace GoZero.C11.Tie
open GoZero.Extracted.C11

theorem extraction_clean : extractionErrors = [] := by decide

/-- the property's literal number: the flusher may quit after more than 10 idle intervals -/
theorem tie_idleRound : idleRound = 10 ∧ GoZero.C11.idleRound = 10 := by decide

theorem tie_addShape : addShape =
    ["call pe.addAndCheck", "if ok {", "send pe.commander", "recv pe.confirmChan", "}"] := by decide

theorem tie_addAndCheckShape : addAndCheckShape =
    ["call pe.lock.Lock", "defer{", "func{", "if !pe.guarded {", "store pe.guarded", "defer{",
     "call pe.backgroundFlush", "}", "}", "call pe.lock.Unlock", "}", "call func", "}",
     "if pe.container.AddTask(task) {", "call atomic.AddInt32", "call pe.container.RemoveAll", "return", "}",
     "return"] := by decide

theorem tie_flushShape : flushShape =
    ["call pe.enterExecution", "func{", "call pe.lock.Lock", "defer{", "call pe.lock.Unlock", "}",
     "call pe.container.RemoveAll", "return", "}", "call func", "call pe.executeTasks", "return"] := by decide

theorem tie_waitShape : waitShape =
    ["call pe.Flush", "for atomic.LoadInt32(&pe.inflight) > 0 {", "}", "func{", "call pe.waitGroup.Wait", "}",
     "call pe.wgBarrier.Guard"] := by decide

theorem tie_backgroundFlushShape : backgroundFlushShape =
    ["go{", "func{", "defer{", "call pe.Flush", "}", "call pe.newTicker", "defer{", "call ticker.Stop", "}",
     "call timex.Now", "for {", "select{", "case recv pe.commander:", "call pe.enterExecution",
     "call atomic.AddInt32", "send pe.confirmChan", "call pe.executeTasks", "call timex.Now",
     "case recv ticker.Chan(); call ticker.Chan:", "if commanded {", "}", "else{", "if pe.Flush() {",
     "call timex.Now", "}", "else{", "if pe.shallQuit(last) {", "return", "}", "}", "}", "}", "}", "}",
     "call func", "}"] := by decide

theorem tie_enterExecutionShape : enterExecutionShape =
    ["func{", "call pe.waitGroup.Add", "}", "call pe.wgBarrier.Guard"] := by decide

theorem tie_doneExecutionShape : doneExecutionShape =
    ["call pe.waitGroup.Done"] := by decide

theorem tie_executeTasksShape : executeTasksShape =
    ["defer{", "call pe.doneExecution", "}", "call pe.hasTasks", "if ok {", "func{",
     "call pe.container.Execute", "}", "call threading.RunSafe", "}", "return"] := by decide

theorem tie_hasTasksShape : hasTasksShape =
    ["if tasks == nil {", "return", "}", "switch val.Kind() {",
     "case reflect.Array, reflect.Chan, reflect.Map, reflect.Slice:", "call val.Len", "return", "default:",
     "return", "}"] := by decide

theorem tie_shallQuitShape : shallQuitShape =
    ["if timex.Since(last) <= pe.interval*idleRound {", "return", "}", "call pe.lock.Lock",
     "if atomic.LoadInt32(&pe.inflight) == 0 {", "store pe.guarded", "}", "call pe.lock.Unlock", "return"] := by decide

theorem tie_newShape : newShape =
    ["func{", "call timex.NewTicker", "return", "}", "func{", "call executor.Flush", "}",
     "call proc.AddShutdownListener", "return"] := by decide

theorem tie_bulkAddTaskShape : bulkAddTaskShape =
    ["store bc.tasks", "return"] := by decide

theorem tie_bulkRemoveAllShape : bulkRemoveAllShape =
    ["store bc.tasks", "return"] := by decide

theorem tie_bulkExecuteShape : bulkExecuteShape =
    ["call bc.execute"] := by decide

theorem tie_bulkAddShape : bulkAddShape =
    ["call be.executor.Add", "return"] := by decide

theorem tie_bulkFlushShape : bulkFlushShape =
    ["call be.executor.Flush"] := by decide

theorem tie_bulkWaitShape : bulkWaitShape =
    ["call be.executor.Wait"] := by decide

theorem tie_chunkAddTaskShape : chunkAddTaskShape =
    ["store bc.tasks", "store bc.size", "return"] := by decide

theorem tie_chunkRemoveAllShape : chunkRemoveAllShape =
    ["store bc.tasks", "store bc.size", "return"] := by decide

theorem tie_chunkExecuteShape : chunkExecuteShape =
    ["call bc.execute"] := by decide

theorem tie_chunkAddShape : chunkAddShape =
    ["call ce.executor.Add", "return"] := by decide

theorem tie_chunkFlushShape : chunkFlushShape =
    ["call ce.executor.Flush"] := by decide

theorem tie_chunkWaitShape : chunkWaitShape =
    ["call ce.executor.Wait"] := by decide

/-! ### what the skeletons drop: comparison operators, atomic deltas, channel capacities, local flags -/

/-- meaning of a Go comparison operator on integers -/
def cmpEval (op : String) (a b : Int) : Bool :=
  match op with
  | ">=" => decide (a ≥ b) | ">" => decide (a > b) | "<=" => decide (a ≤ b) | "<" => decide (a < b)
  | "==" => decide (a = b) | "!=" => decide (a ≠ b) | _ => false

/-- bulk: `AddTask` appends and answers `len(bc.tasks) >= bc.maxTasks` — the model's `bulkFull`, for all inputs -/
theorem tie_bulkThreshold :
    bulkAddTaskStmts = ["bc.tasks = append(bc.tasks, task)", "return len(bc.tasks) >= bc.maxTasks"] ∧
    bulkThreshold.head? = some "len(bc.tasks)" ∧ bulkThreshold.getLast? = some "bc.maxTasks" ∧
    ∀ (l : List Task) (max : Int), bulkFull max l = cmpEval (bulkThreshold.getD 1 "") (l.length : Int) max := by
  refine ⟨by decide, by decide, by decide, ?_⟩
  intro l max
  have : bulkThreshold.getD 1 "" = ">=" := by decide
  rw [this]; rfl

/-- chunk: `AddTask` appends the value, adds the size and answers `bc.size >= bc.maxChunkSize` — `chunkFull` -/
theorem tie_chunkThreshold :
    chunkAddTaskStmts = ["ck := task.(chunk)", "bc.tasks = append(bc.tasks, ck.val)", "bc.size += ck.size",
      "return bc.size >= bc.maxChunkSize"] ∧
    chunkThreshold.head? = some "bc.size" ∧ chunkThreshold.getLast? = some "bc.maxChunkSize" ∧
    ∀ (size : Task → Int) (l : List Task) (max : Int),
      chunkFull size max l = cmpEval (chunkThreshold.getD 1 "") ((l.map size).sum) max := by
  refine ⟨by decide, by decide, by decide, ?_⟩
  intro size l max
  have : chunkThreshold.getD 1 "" = ">=" := by decide
  rw [this]; rfl

/-- `RemoveAll` hands out everything and empties the container (chunk: also resets the byte count) -/
theorem tie_removeAllStmts :
    bulkRemoveAllStmts = ["tasks := bc.tasks", "bc.tasks = nil", "return tasks"] ∧
    chunkRemoveAllStmts = ["tasks := bc.tasks", "bc.tasks = nil", "bc.size = 0", "return tasks"] := by decide

theorem tie_executeStmts :
    bulkExecuteStmts = ["vals := tasks.([]any)", "bc.execute(vals)"] ∧
    chunkExecuteStmts = ["vals := tasks.([]any)", "bc.execute(vals)"] := by decide

/-- the constructors pass the options' threshold to the container and the container to the executor;
`ChunkExecutor.Add` wraps value and size into one task -/
theorem tie_constructors :
    newBulkStmts.getD 2 "" = "container := &bulkContainer{ execute: execute, maxTasks: options.cachedTasks, }" ∧
    newBulkStmts.getD 3 "" = "executor := &BulkExecutor{ executor: NewPeriodicalExecutor(options.flushInterval, container), container: container, }" ∧
    newChunkStmts.getD 2 "" = "container := &chunkContainer{ execute: execute, maxChunkSize: options.chunkSize, }" ∧
    newChunkStmts.getD 3 "" = "executor := &ChunkExecutor{ executor: NewPeriodicalExecutor(options.flushInterval, container), container: container, }" ∧
    chunkAddStmts = ["ce.executor.Add(chunk{ val: task, size: size, })", "return nil"] := by decide

/-- the flusher's loop, statement by statement: the commander case sets `commanded`, enters the wait group BEFORE
it decrements `inflight` (the fixed order: rows bEnterF, bDecF), confirms, executes, stamps `last`; the ticker case
skips one flush after a commanded one, stamps `last` only after a non-empty flush, and asks `shallQuit(last)` only
after an empty one (rows bSelect/tick, fDone tick, bQuit) -/
theorem tie_backgroundFlushCases : backgroundFlushCases =
    ["case vals := <-pe.commander:", "commanded = true", "pe.enterExecution()", "atomic.AddInt32(&pe.inflight, -1)",
     "pe.confirmChan <- lang.Placeholder", "pe.executeTasks(vals)", "last = timex.Now()",
     "case <-ticker.Chan():",
     "if commanded { commanded = false } else if pe.Flush() { last = timex.Now() } else if pe.shallQuit(last) { return }"] := by
  decide

theorem tie_commandedAssigns : commandedAssigns = ["var commanded bool", "commanded = true", "commanded = false"] ∧
    lastAssigns = ["last := timex.Now()", "last = timex.Now()", "last = timex.Now()"] := by decide

/-- `inflight` goes up by one per handed-over batch (row aInc), down by one per received batch (row bDecF), and is
only read by `Wait` and `shallQuit` -/
theorem tie_inflightDeltas :
    addAndCheckAtomics = ["atomic.AddInt32(&pe.inflight, 1)"] ∧
    backgroundFlushAtomics = ["atomic.AddInt32(&pe.inflight, -1)"] ∧
    waitAtomics = ["atomic.LoadInt32(&pe.inflight)"] ∧
    shallQuitAtomics = ["atomic.LoadInt32(&pe.inflight)"] := by decide

/-- commander has a buffer of ONE batch (row aSend blocks on a full buffer), confirmChan is unbuffered
(row bConfirm is a rendezvous) -/
theorem tie_channelCapacities : newMakes = ["make(chan any, 1)", "make(chan lang.PlaceholderType)"] := by decide

/-- conditions with their operators and polarity -/
theorem tie_conditions :
    addAndCheckConds = ["if !pe.guarded", "if pe.container.AddTask(task)", "return pe.container.RemoveAll(), true",
      "return nil, false"] ∧
    addConds = ["if ok"] ∧
    executeTasksConds = ["if ok", "return ok"] ∧
    hasTasksConds = ["if tasks == nil", "return false", "return val.Len() > 0", "return true"] ∧
    shallQuitConds = ["if timex.Since(last) <= pe.interval*idleRound", "return",
      "if atomic.LoadInt32(&pe.inflight) == 0", "return"] ∧
    shallQuitStops = ["stop = true"] ∧
    waitConds = ["for atomic.LoadInt32(&pe.inflight) > 0"] ∧
    flushConds = ["return pe.executeTasks(func() any { pe.lock.Lock() defer pe.lock.Unlock() return pe.container.RemoveAll() }())",
      "return pe.container.RemoveAll()"] := by decide

/-- the model's reading of those conditions, as functions: row bQuit stays iff `now - last ≤ interval * idleRound`,
row qCheck stops iff `inflight = 0`, row wSpin passes iff `¬ inflight > 0`, rows fExec / bExec call iff the batch is
non-empty -/
theorem tie_condition_meaning (cfg : Cfg) (s : St) (t : Nat) (th : Thread) :
    (th.pc = .bQuit → stepTh cfg s t th .tau =
      some (s.upd t { th with pc := if cmpEval "<=" ((s.now - th.last : Nat) : Int) ((cfg.interval * GoZero.C11.idleRound : Nat) : Int) then .bSelect false else .qLock })) ∧
    (th.pc = .qCheck → stepTh cfg s t th .tau =
      if cmpEval "==" s.inflight 0 then some ({ s with guarded := false }.upd t { th with pc := .qUnlock true })
      else some (s.upd t { th with pc := .qUnlock false })) ∧
    (th.pc = .wSpin → stepTh cfg s t th .tau =
      if cmpEval ">" s.inflight 0 then none else some (s.upd t { th with pc := .wBarrier })) := by
  refine ⟨?_, ?_, ?_⟩ <;> intro hpc <;> unfold stepTh <;> simp [hpc, cmpEval]
  · by_cases h1 : s.now ≤ cfg.interval * GoZero.C11.idleRound + th.last
    · have h2 : (((s.now - th.last : Nat) : Int)) ≤ (cfg.interval : Int) * (GoZero.C11.idleRound : Int) := by
        simp only [GoZero.C11.idleRound] at h1 ⊢; omega
      simp [h1, h2]
    · have h2 : ¬ (((s.now - th.last : Nat) : Int)) ≤ (cfg.interval : Int) * (GoZero.C11.idleRound : Int) := by
        simp only [GoZero.C11.idleRound] at h1 ⊢; omega
      simp [h1, h2]

/-! ### users of the executor named by the property's anchors: core/stores/sqlx BulkInserter -/

/-- `dbInserter` is a bulk container with the fixed threshold `maxBulkRows = 1000`: the same `bulkFull`, so every
theorem of Props.lean (stated for an arbitrary `cfg.full`) covers the inserter -/
theorem tie_sqlxContainer :
    sqlxMaxBulkRows = 1000 ∧
    sqlxAddTaskStmts = ["in.values = append(in.values, task.(string))", "return len(in.values) >= maxBulkRows"] ∧
    sqlxRemoveAllStmts = ["values := in.values", "in.values = nil", "return values"] ∧
    sqlxThreshold = ["len(in.values)", ">=", "maxBulkRows"] ∧
    ∀ (l : List Task), bulkFull sqlxMaxBulkRows l = cmpEval (sqlxThreshold.getD 1 "") (l.length : Int) 1000 := by
  refine ⟨by decide, by decide, by decide, by decide, ?_⟩
  intro l
  have h1 : sqlxThreshold.getD 1 "" = ">=" := by decide
  have h2 : sqlxMaxBulkRows = 1000 := by decide
  rw [h1, h2]; rfl

/-- `Insert` = format + `executor.Add` under the read lock; `Flush`, `UpdateOrDelete`, `UpdateStmt` = `executor.Flush`
(+ `Sync` for the statement swap); `Execute` ignores an empty batch -/
theorem tie_sqlxCalls :
    sqlxInsertShape = ["call bi.lock.RLock", "defer{", "call bi.lock.RUnlock", "}", "call format", "if err != nil {",
      "return", "}", "call bi.executor.Add", "return"] ∧
    sqlxFlushShape = ["call bi.executor.Flush"] ∧
    sqlxUpdateOrDeleteShape = ["call bi.executor.Flush", "call fn"] ∧
    sqlxUpdateStmtShape = ["call parseInsertStmt", "if err != nil {", "return", "}", "call bi.lock.Lock", "defer{",
      "call bi.lock.Unlock", "}", "store bi.stmt", "call bi.executor.Flush", "func{", "store bi.inserter.stmt", "}",
      "call bi.executor.Sync", "return"] ∧
    sqlxSetResultHandlerShape = ["func{", "store bi.inserter.resultHandler", "}", "call bi.executor.Sync"] ∧
    sqlxNewShape = ["call parseInsertStmt", "if err != nil {", "return", "}", "call executors.NewPeriodicalExecutor",
      "return"] ∧
    sqlxExecuteConds.head? = some "if len(values) == 0" := by decide

theorem tie_syncShape : syncShape = ["call pe.lock.Lock", "defer{", "call pe.lock.Unlock", "}", "call fn"] := by decide

/-! ### SEMANTIC tie: the container methods and the executor's decisions, translated from the Go source into Lean
functions (extract/c11.go: c11Translated / c11CondFn) and proven equal to the model's definitions FOR ALL ARGUMENTS.
The primitives of Go the methods use are parameters of the translated functions; here they are instantiated with the
slice-heap model of Containers.lean (`append` in place / fresh array, `len`, `nil`, `s[:0]`). -/

section Containers
variable {α : Type} (grow : Nat → Nat)

def lenI (s : Slice) : Int := (s.len : Int)

/-- `bulkContainer.AddTask` = `BulkC.addTask`: same heap, same `tasks`, same answer; `maxTasks` is not assigned -/
theorem tie_bulkAddTask_sem (h : Heap α) (c : BulkC) (x : α) :
    bulkAddTaskFn (Heap.append grow) lenI ({} : Slice) Heap.slice0 h c.tasks c.maxTasks x
      = ((BulkC.addTask grow h c x).1, (BulkC.addTask grow h c x).2.1.tasks, (BulkC.addTask grow h c x).2.2) ∧
    (BulkC.addTask grow h c x).2.1.maxTasks = c.maxTasks := ⟨rfl, rfl⟩

/-- `bulkContainer.RemoveAll` = `BulkC.removeAll`: returns the slice, leaves `nil` -/
theorem tie_bulkRemoveAll_sem (c : BulkC) :
    bulkRemoveAllFn (Heap.append (α := α) grow) lenI ({} : Slice) Heap.slice0 c.tasks
      = ((BulkC.removeAll c).1.tasks, (BulkC.removeAll c).2) ∧
    (BulkC.removeAll c).1.maxTasks = c.maxTasks := ⟨rfl, rfl⟩

/-- `chunkContainer.AddTask` = `ChunkC.addTask` (the task is the pair value / declared size) -/
theorem tie_chunkAddTask_sem (size : α → Int) (h : Heap α) (c : ChunkC) (x : α) :
    chunkAddTaskFn (Heap.append grow) lenI ({} : Slice) Heap.slice0 (fun x => (x, size x)) Prod.fst Prod.snd
        h c.tasks c.size c.maxChunkSize x
      = ((ChunkC.addTask grow size h c x).1, (ChunkC.addTask grow size h c x).2.1.tasks,
         (ChunkC.addTask grow size h c x).2.1.size, (ChunkC.addTask grow size h c x).2.2) ∧
    (ChunkC.addTask grow size h c x).2.1.maxChunkSize = c.maxChunkSize := ⟨rfl, rfl⟩

/-- `chunkContainer.RemoveAll` = `ChunkC.removeAll`: returns the slice, leaves `nil` and size 0 -/
theorem tie_chunkRemoveAll_sem (c : ChunkC) :
    chunkRemoveAllFn (Heap.append (α := α) grow) lenI ({} : Slice) Heap.slice0 c.tasks c.size
      = ((ChunkC.removeAll c).1.tasks, (ChunkC.removeAll c).1.size, (ChunkC.removeAll c).2) ∧
    (ChunkC.removeAll c).1.maxChunkSize = c.maxChunkSize := ⟨rfl, rfl⟩

/-- `dbInserter.AddTask` / `RemoveAll` = `SqlC.addTask` / `SqlC.removeAll` (threshold: the constant `maxBulkRows`) -/
theorem tie_sqlxContainer_sem (h : Heap α) (c : SqlC) (x : α) :
    sqlxAddTaskFn (Heap.append grow) lenI ({} : Slice) Heap.slice0 id h c.values x
      = ((SqlC.addTask grow h c x).1, (SqlC.addTask grow h c x).2.1.values, (SqlC.addTask grow h c x).2.2) ∧
    sqlxRemoveAllFn (Heap.append (α := α) grow) lenI ({} : Slice) Heap.slice0 c.values
      = ((SqlC.removeAll c).1.values, (SqlC.removeAll c).2) := ⟨rfl, rfl⟩

/-- `dbInserter.Execute` up to the `Exec` call = `sqlStmt`: no statement for an empty batch, else
prefix ␣ rows joined by ", " [␣ suffix if the suffix is not empty] -/
theorem tie_sqlxExecute_sem (pre suffix : String) (values : List String) :
    sqlxExecuteFn id (fun l => (l.length : Int)) (fun s => (s.length : Int)) (fun l sep => sep.intercalate l)
      pre suffix values = sqlStmt pre suffix values := by
  unfold sqlxExecuteFn sqlStmt
  by_cases h1 : values.length = 0 <;> by_cases h2 : suffix.length > 0 <;> simp [h1, h2] <;> omega

end Containers

/-- the executor's decisions: every row of the step table that branches does so on the condition translated from the
source — bQuit (stay iff Since(last) <= interval*idleRound), qCheck (stop iff inflight == 0), wSpin (spin iff
inflight > 0), aGuard (start a flusher iff !guarded), aAdd (hand over iff AddTask said full), aUnlock (send iff ok),
fExec / bExec (call iff hasTasks: Len() > 0) -/
theorem tie_conditions_sem (cfg : Cfg) (s : St) (t : Nat) (th : Thread) :
    (th.pc = .bQuit → stepTh cfg s t th .tau =
      some (s.upd t { th with pc := if shallQuitStaysFn ((s.now - th.last : Nat) : Int) (cfg.interval : Int) then .bSelect false else .qLock })) ∧
    (th.pc = .qCheck → stepTh cfg s t th .tau =
      if shallQuitStopsFn s.inflight then some ({ s with guarded := false }.upd t { th with pc := .qUnlock true })
      else some (s.upd t { th with pc := .qUnlock false })) ∧
    (th.pc = .wSpin → stepTh cfg s t th .tau =
      if waitSpinsFn s.inflight then none else some (s.upd t { th with pc := .wBarrier })) ∧
    (∀ ok, th.pc = .aGuard ok → stepTh cfg s t th .tau =
      if startsFlusherFn s.guarded then some ({ s with guarded := true }.upd t { th with pc := .aUnlock ok true })
      else some (s.upd t { th with pc := .aUnlock ok false })) ∧
    (∀ x, th.pc = .aAdd x → stepTh cfg s t th .tau =
      some ({ s with container := s.container ++ [x], added := s.added ++ [x] }.upd t
        { th with pc := if handsOverFn (cfg.full (s.container ++ [x])) then .aInc else .aGuard false })) ∧
    (∀ ok sp, th.pc = .aUnlock ok sp → stepTh cfg s t th .tau =
      some ({ s with lock := false }.upd t { th with pc := if sp then .aSpawn ok else if addSendsFn ok then .aSend else .idle })) ∧
    (∀ c, th.pc = .fExec c → stepTh cfg s t th .tau =
      some (s.upd t { th with pc := if executesFn (hasTasksLenFn (th.reg.length : Int)) then .fCall c else .fDone c false })) ∧
    (th.pc = .bExec → stepTh cfg s t th .tau =
      some (s.upd t { th with pc := if executesFn (hasTasksLenFn (th.reg.length : Int)) then .bCall else .bDone })) := by
  refine ⟨?_, ?_, ?_, ?_, ?_, ?_, ?_, ?_⟩
  · intro hpc
    unfold stepTh; simp only [hpc, shallQuitStaysFn]
    by_cases h1 : s.now - th.last ≤ cfg.interval * GoZero.C11.idleRound
    · have h2 : (((s.now - th.last : Nat) : Int)) ≤ (cfg.interval : Int) * 10 := by
        simp only [GoZero.C11.idleRound] at h1; omega
      simp [h1, h2]
    · have h2 : ¬ (((s.now - th.last : Nat) : Int)) ≤ (cfg.interval : Int) * 10 := by
        simp only [GoZero.C11.idleRound] at h1; omega
      simp [h1, h2]
  · intro hpc; unfold stepTh; simp [hpc, shallQuitStopsFn]
  · intro hpc; unfold stepTh; simp [hpc, waitSpinsFn]
  · intro ok hpc; unfold stepTh; simp only [hpc, startsFlusherFn]; cases s.guarded <;> simp
  · intro x hpc; unfold stepTh; simp only [hpc, handsOverFn]
    by_cases hb : cfg.full (s.container ++ [x]) = true <;> simp [hb]
  · intro ok sp hpc; unfold stepTh; simp only [hpc, addSendsFn]
    cases ok <;> cases sp <;> simp
  · intro c hpc; unfold stepTh; simp only [hpc, executesFn, hasTasksLenFn]
    cases th.reg <;> simp <;> omega
  · intro hpc; unfold stepTh; simp only [hpc, executesFn, hasTasksLenFn]
    cases th.reg <;> simp <;> omega

/-- the package defaults that `newBulkOptions` / `newChunkOptions` start from and the sqlx inserter's interval and
threshold: the literals the sequential driver and `SqlC` use -/
theorem tie_defaults :
    defaultBulkTasks = 1000 ∧ GoZero.C11.defaultBulkTasks = defaultBulkTasks ∧
    defaultChunkSize = 1048576 ∧ GoZero.C11.defaultChunkSize = defaultChunkSize ∧
    defaultFlushInterval = 1000000000 ∧ GoZero.C11.defaultFlushInterval = defaultFlushInterval ∧
    sqlxFlushInterval = 1000000000 ∧ GoZero.C11.maxBulkRows = sqlxMaxBulkRows := by decide

/-- options: every `With*` stores its argument in the field the constructor forwards, the defaults are the package
constants, the options are applied to a fresh value (no state shared between executors) -/
theorem tie_options :
    newBulkOptionsStmts = ["return bulkOptions{ cachedTasks: defaultBulkTasks, flushInterval: defaultFlushInterval, }"] ∧
    newChunkOptionsStmts = ["return chunkOptions{ chunkSize: defaultChunkSize, flushInterval: defaultFlushInterval, }"] ∧
    withBulkTasksStmts = ["return func(options *bulkOptions) { options.cachedTasks = tasks }"] ∧
    withBulkIntervalStmts = ["return func(options *bulkOptions) { options.flushInterval = duration }"] ∧
    withChunkBytesStmts = ["return func(options *chunkOptions) { options.chunkSize = size }"] ∧
    withFlushIntervalStmts = ["return func(options *chunkOptions) { options.flushInterval = duration }"] := by decide

set_option maxRecDepth 8192 in
/-- constructors: the options start from the defaults and are applied to a local value; the executor literal forwards
interval and container; the flusher builds its ticker from `pe.interval`; the sqlx inserter hands ITS container and
the package's `flushInterval` to `NewPeriodicalExecutor` -/
theorem tie_constructors2 :
    newBulkStmts.take 2 = ["options := newBulkOptions()", "for _, opt := range opts { opt(&options) }"] ∧
    newChunkStmts.take 2 = ["options := newChunkOptions()", "for _, opt := range opts { opt(&options) }"] ∧
    newPeriodicalFields = ["commander: make(chan any, 1)", "interval: interval", "container: container",
      "confirmChan: make(chan lang.PlaceholderType)", "newTicker: func(d time.Duration) timex.Ticker { return timex.NewTicker(d) }"] ∧
    sqlxNewStmts.getD 2 "" = "inserter := &dbInserter{ sqlConn: sqlConn, stmt: bkStmt, }" ∧
    sqlxNewStmts.getD 3 "" = "return &BulkInserter{ executor: executors.NewPeriodicalExecutor(flushInterval, inserter), inserter: inserter, stmt: bkStmt, }, nil" ∧
    tickerCalls = ["pe.newTicker(pe.interval)"] := by decide

/-! ### SEMANTIC tie of the public constructors: option records, defaults, option closures and forwarded arguments,
translated from the source (extract/c11.go: c11RecordDef / c11RecordLit / c11OptionSetter / c11Forward), equal to
Api.lean FOR ALL option values and ALL option lists -/

def bulkX (o : BulkOptions) : BulkOptionsX := { cachedTasks := o.cachedTasks, flushInterval := o.flushInterval }
def chunkX (o : ChunkOptions) : ChunkOptionsX := { chunkSize := o.chunkSize, flushInterval := o.flushInterval }

/-- the extracted closure of an option -/
def bulkOptX (o : BulkOptionsX) : BulkOpt → BulkOptionsX
  | .tasks n => withBulkTasksFn o n
  | .interval d => withBulkIntervalFn o d
def chunkOptX (o : ChunkOptionsX) : ChunkOpt → ChunkOptionsX
  | .bytes n => withChunkBytesFn o n
  | .interval d => withFlushIntervalFn o d

/-- defaults and option closures: `newBulkOptions()` is the record of the package constants, every `With*` writes its
argument into its own field and leaves the other alone -/
theorem tie_options_sem (bo : BulkOptions) (co : ChunkOptions) (n : Int) :
    newBulkOptionsFn = bulkX newBulkOptions ∧ newChunkOptionsFn = chunkX newChunkOptions ∧
    withBulkTasksFn (bulkX bo) n = bulkX (BulkOpt.apply bo (.tasks n)) ∧
    withBulkIntervalFn (bulkX bo) n = bulkX (BulkOpt.apply bo (.interval n)) ∧
    withChunkBytesFn (chunkX co) n = chunkX (ChunkOpt.apply co (.bytes n)) ∧
    withFlushIntervalFn (chunkX co) n = chunkX (ChunkOpt.apply co (.interval n)) :=
  ⟨rfl, rfl, rfl, rfl, rfl, rfl⟩

theorem bulkX_foldl (opts : List BulkOpt) (o : BulkOptions) :
    opts.foldl bulkOptX (bulkX o) = bulkX (opts.foldl BulkOpt.apply o) := by
  induction opts generalizing o with
  | nil => rfl
  | cons a rest ih =>
    cases a with
    | tasks n => exact ih (BulkOpt.apply o (.tasks n))
    | interval d => exact ih (BulkOpt.apply o (.interval d))

theorem chunkX_foldl (opts : List ChunkOpt) (o : ChunkOptions) :
    opts.foldl chunkOptX (chunkX o) = chunkX (opts.foldl ChunkOpt.apply o) := by
  induction opts generalizing o with
  | nil => rfl
  | cons a rest ih =>
    cases a with
    | bytes n => exact ih (ChunkOpt.apply o (.bytes n))
    | interval d => exact ih (ChunkOpt.apply o (.interval d))

/-- **the constructors, end to end from the source**: start from the extracted defaults, apply the extracted option
closures in the order of the list (`for _, opt := range opts { opt(&options) }`), forward the extracted fields to the
container literal and to `NewPeriodicalExecutor`: that is `newBulkExecutor` / `newChunkExecutor` of Api.lean, for
every option list -/
theorem tie_constructors_sem (bo : List BulkOpt) (co : List ChunkOpt) :
    newBulkThresholdFn (bo.foldl bulkOptX newBulkOptionsFn) = (newBulkExecutor bo).threshold ∧
    newBulkIntervalFn (bo.foldl bulkOptX newBulkOptionsFn) = (newBulkExecutor bo).interval ∧
    newChunkThresholdFn (co.foldl chunkOptX newChunkOptionsFn) = (newChunkExecutor co).threshold ∧
    newChunkIntervalFn (co.foldl chunkOptX newChunkOptionsFn) = (newChunkExecutor co).interval ∧
    newBulkRanges = ["for _, opt := range opts { opt(&options) }"] ∧
    newChunkRanges = ["for _, opt := range opts { opt(&options) }"] := by
  have hb : bo.foldl bulkOptX newBulkOptionsFn = bulkX (bo.foldl BulkOpt.apply newBulkOptions) := bulkX_foldl bo newBulkOptions
  have hc : co.foldl chunkOptX newChunkOptionsFn = chunkX (co.foldl ChunkOpt.apply newChunkOptions) := chunkX_foldl co newChunkOptions
  refine ⟨?_, ?_, ?_, ?_, by decide, by decide⟩
  · rw [hb]; rfl
  · rw [hb]; rfl
  · rw [hc]; rfl
  · rw [hc]; rfl

/-- delegating entry points WITH their argument lists: the wrappers pass the task on unchanged (`ChunkExecutor.Add`
wraps task and declared size into one chunk), `Flush` / `Wait` call `Flush` / `Wait` (not each other), the sqlx
inserter adds the formatted value it was given, the shutdown listener flushes, `executeTasks` runs the container's
`Execute` on the SAME batch under `threading.RunSafe` -/
theorem tie_delegation_args :
    bulkAddCalls = ["be.executor.Add(task)"] ∧ bulkFlushCalls = ["be.executor.Flush()"] ∧
    bulkWaitCalls = ["be.executor.Wait()"] ∧
    chunkAddCalls = ["ce.executor.Add(chunk{ val: task, size: size, })"] ∧
    chunkFlushCalls = ["ce.executor.Flush()"] ∧ chunkWaitCalls = ["ce.executor.Wait()"] ∧
    sqlxInsertCalls = ["format(bi.stmt.valueFormat, args...)", "bi.executor.Add(value)"] ∧
    sqlxFlushCalls = ["bi.executor.Flush()"] ∧ sqlxUpdateOrDeleteCalls = ["bi.executor.Flush()", "fn()"] ∧
    newShutdownCalls = ["proc.AddShutdownListener(func() { executor.Flush() })", "executor.Flush()"] ∧
    executeTasksCalls = ["pe.doneExecution()", "pe.hasTasks(tasks)",
      "threading.RunSafe(func() { pe.container.Execute(tasks) })", "pe.container.Execute(tasks)"] := by decide

/-! ### parseInsertStmt: the Lean model SqlParse.lean against the source (decisions semantic, slices by text; the
model is also RUN against the real parser on the harness's statements by the sqlx driver) -/

/-- what Go's `strings.Index` / `IndexByte` / `LastIndexByte` return for the model's `Option Nat` -/
def goIdx : Option Nat → Int
  | none => -1
  | some n => (n : Int)

/-- the decisions of `parseInsertStmt`, translated from the source, are the model's: `pos0` (= found at a position
> 0) is the guard `pos <= 0` / `right > 0` / `left > 0`; the two rejection tests after the scan are `variables == 0` and
`columns > 0 && columns != variables`; the result is sliced as the model slices it; the keyword is `values` -/
theorem tie_parseInsertStmt_sem (o : Option Nat) (v c : Nat) :
    (pos0 o).isNone = parseBadSqlFn (goIdx o) ∧ (pos0 o).isSome = parseParenFoundFn (goIdx o) ∧
    decide (v = 0) = parseNoVariablesFn (v : Int) ∧
    decide (c > 0 ∧ c ≠ v) = parseMismatchFn (c : Int) (v : Int) ∧
    sqlxValuesKeyword = "values" ∧ GoZero.C11.valuesKeyword = sqlxValuesKeyword.toList ∧
    parseResultFields = ["prefix: stmt[:pos+len(valuesKeyword)]", "valueFormat: valueFormat", "suffix: suffix"] ∧
    parseValueFormatAssigns = ["var valueFormat string", "valueFormat = stmt[pos+left : pos+left+right+1]"] ∧
    parseSuffixAssigns = ["var suffix string", "suffix = strings.TrimSpace(stmt[pos+left+right+1:])"] ∧
    parseIndexCalls = ["strings.ToLower(stmt)", "strings.Index(lower, valuesKeyword)",
      "strings.LastIndexByte(lower[:pos], ')')", "strings.LastIndexByte(lower[:right], '(')",
      "strings.IndexByte(lower[pos:], '(')", "strings.IndexByte(lower[pos+left:], ')')",
      "strings.TrimSpace(stmt[pos+left+right+1:])"] := by
  refine ⟨?_, ?_, ?_, ?_, by decide, by decide, by decide, by decide, by decide, by decide⟩
  · cases o with
    | none => simp [pos0, goIdx, parseBadSqlFn]
    | some n =>
      cases n with
      | zero => simp [pos0, goIdx, parseBadSqlFn]
      | succ k =>
        have : ¬ ((k : Int) + 1 ≤ 0) := by omega
        simp [pos0, goIdx, parseBadSqlFn, this]
  · cases o with
    | none => simp [pos0, goIdx, parseParenFoundFn]
    | some n =>
      cases n with
      | zero => simp [pos0, goIdx, parseParenFoundFn]
      | succ k =>
        have : (0 : Int) < (k : Int) + 1 := by omega
        simp [pos0, goIdx, parseParenFoundFn, this]
  · simp [parseNoVariablesFn]
  · simp only [parseMismatchFn]
    by_cases h1 : c > 0 <;> by_cases h2 : c = v <;> simp [h1, h2] <;> omega

/-! ### round 5e: TYPED delegations and TYPED order of effects (not strings compared as a whole: values of the
extracted inductive types, read by Lean functions) -/

/-- the model action a delegated call stands for (`x` = the task the wrapper was given) -/
def delegAct (x : Task) : DelegX → Option Act
  | ⟨.add, [_]⟩ => some (Act.add x)
  | ⟨.flush, []⟩ => some Act.flush
  | ⟨.wait, []⟩ => some Act.wait
  | _ => none

/-- **every delegating entry point IS the model action of the same name** (seeded C11-9: `ChunkExecutor.Wait` calling
`Flush`): `Add` delegates to `Add` with one argument (bulk: the task itself; chunk: the task wrapped with its declared
size; sqlx `Insert`: the formatted value), `Flush` / `UpdateOrDelete` to `Flush`, `Wait` to `Wait`; `UpdateStmt` flushes
and then swaps under `Sync` -/
theorem tie_wrappers_sem (x : Task) :
    bulkAddDeleg.map (delegAct x) = [some (ApiCall.add x).act] ∧
    bulkFlushDeleg.map (delegAct x) = [some ApiCall.flush.act] ∧
    bulkWaitDeleg.map (delegAct x) = [some ApiCall.wait.act] ∧
    chunkAddDeleg.map (delegAct x) = [some (ApiCall.add x).act] ∧
    chunkFlushDeleg.map (delegAct x) = [some ApiCall.flush.act] ∧
    chunkWaitDeleg.map (delegAct x) = [some ApiCall.wait.act] ∧
    sqlxInsertDeleg.map (delegAct x) = [some (ApiCall.add x).act] ∧
    sqlxFlushDeleg.map (delegAct x) = [some ApiCall.flush.act] ∧
    sqlxUpdateOrDeleteDeleg.map (delegAct x) = [some ApiCall.flush.act] ∧
    bulkAddDeleg = [⟨.add, ["task"]⟩] ∧ chunkAddDeleg = [⟨.add, ["chunk{ val: task, size: size, }"]⟩] ∧
    sqlxInsertDeleg = [⟨.add, ["value"]⟩] ∧
    sqlxUpdateStmtDeleg = [⟨.flush, []⟩, ⟨.sync, ["func"]⟩] ∧ sqlxSetResultHandlerDeleg = [⟨.sync, ["func"]⟩] :=
  ⟨rfl, rfl, rfl, rfl, rfl, rfl, rfl, rfl, rfl, by decide, by decide, by decide, by decide, by decide⟩

/-- `waitGroup.Done` is released on EVERY path of `executeTasks`, also when the callback panics: `doneExecution` is
DEFERRED at the top level, first, and called nowhere else (seeded C11-8 moved it inside the RunSafe closure) -/
def releasesOnPanic (l : List EffX) : Bool :=
  l.head? == some ⟨0, .deferCall, "pe.doneExecution"⟩ && (l.filter (·.what == "pe.doneExecution")).length == 1

/-- the callback runs directly under `threading.RunSafe` -/
def callbackProtected (l : List EffX) : Bool :=
  (l.zip l.tail).any fun p => p.1.kind == .runSafe && p.2 == ⟨p.1.depth + 1, .call, "pe.container.Execute"⟩

/-- `Wait` polls `inflight` at the top level BEFORE it takes the barrier (seeded C11-7 polled inside the Guard) -/
def pollsBeforeBarrier (l : List EffX) : Bool :=
  match l.findIdx? (·.kind == .loop), l.findIdx? (·.kind == .guard) with
  | some i, some j => decide (i < j) && (l[i]?.map (·.depth)) == some 0 && (l[j]?.map (·.depth)) == some 0
  | _, _ => false

/-- **the order of effects, typed**: what the rows fCall/bCall → fDone/bDone for BOTH outcomes of the callback
(`panic_loses_own_batch_only`), the rows wSpin → wBarrier → wWait (`stuck_is_rest`), fEnter → fLock → fRemove → fUnlock →
fExec and aSend → aConfirm rest on -/
theorem tie_effects_sem :
    releasesOnPanic executeTasksEffs = true ∧ callbackProtected executeTasksEffs = true ∧
    pollsBeforeBarrier waitEffs = true ∧
    executeTasksEffs = [⟨0, .deferCall, "pe.doneExecution"⟩, ⟨0, .call, "pe.hasTasks"⟩, ⟨0, .ifc, "ok"⟩,
      ⟨1, .runSafe, "threading.RunSafe"⟩, ⟨2, .call, "pe.container.Execute"⟩, ⟨0, .ret, ""⟩] ∧
    waitEffs = [⟨0, .call, "pe.Flush"⟩, ⟨0, .loop, "atomic.LoadInt32(&pe.inflight) > 0"⟩, ⟨1, .call, "time.Sleep"⟩,
      ⟨0, .guard, "pe.wgBarrier.Guard"⟩, ⟨1, .call, "pe.waitGroup.Wait"⟩] ∧
    flushEffs = [⟨0, .call, "pe.enterExecution"⟩, ⟨0, .block, ""⟩, ⟨1, .call, "pe.lock.Lock"⟩,
      ⟨1, .deferCall, "pe.lock.Unlock"⟩, ⟨1, .call, "pe.container.RemoveAll"⟩, ⟨1, .ret, ""⟩,
      ⟨0, .call, "pe.executeTasks"⟩, ⟨0, .ret, ""⟩] ∧
    addEffs = [⟨0, .call, "pe.addAndCheck"⟩, ⟨0, .ifc, "ok"⟩, ⟨1, .send, "pe.commander"⟩, ⟨1, .recv, "pe.confirmChan"⟩] ∧
    enterExecutionEffs = [⟨0, .guard, "pe.wgBarrier.Guard"⟩, ⟨1, .call, "pe.waitGroup.Add"⟩] := by
  decide

/-- the predicates have teeth: the shapes of seeded C11-8 and C11-7 fail them -/
example : releasesOnPanic [⟨0, .ifc, "!pe.hasTasks(tasks)"⟩, ⟨1, .call, "pe.doneExecution"⟩, ⟨1, .ret, ""⟩,
    ⟨0, .runSafe, "threading.RunSafe"⟩, ⟨1, .call, "pe.container.Execute"⟩, ⟨1, .call, "pe.doneExecution"⟩, ⟨0, .ret, ""⟩] = false := by
  decide
example : pollsBeforeBarrier [⟨0, .call, "pe.Flush"⟩, ⟨0, .guard, "pe.wgBarrier.Guard"⟩,
    ⟨1, .loop, "atomic.LoadInt32(&pe.inflight) > 0"⟩, ⟨2, .call, "time.Sleep"⟩, ⟨1, .call, "pe.waitGroup.Wait"⟩] = false := by
  decide

end GoZero.C11.Tie
