/-
C11 — the sqlx BulkInserter's statement handling as theorems: what `parseInsertStmt` (Lean model: SqlParse.lean, run
by the sqlx driver against the real parser on every statement of the harness) makes of a statement, and that the
statement `dbInserter.Execute` hands to `Exec` is TEXTUALLY  `<prefix> (row), (row), … [ <suffix>]`  for exactly the
rows of the batch.
-/
import GoZero.C11.SqlParse
import GoZero.C11.DriverSqlx
import GoZero.C11.PropsContainers
namespace GoZero.C11

theorem indexOfL_spec (pat : List Char) (l : List Char) (n : Nat) (h : indexOfL pat l = some n) :
    isPrefixL pat (l.drop n) = true := by
  induction l generalizing n with
  | nil =>
    unfold indexOfL at h
    split at h
    · simp at h; subst h
      cases pat with
      | nil => rfl
      | cons a p => simp at *
    · simp at h
  | cons c l ih =>
    unfold indexOfL at h
    split at h
    · rename_i hp; simp at h; subst h; simpa using hp
    · cases hq : indexOfL pat l with
      | none => simp [hq] at h
      | some m => simp [hq] at h; subst h; simpa using ih m hq

theorem pos0_spec (o : Option Nat) (n : Nat) (h : pos0 o = some n) : o = some n ∧ 0 < n := by
  cases o with
  | none => simp [pos0] at h
  | some m => cases m with
    | zero => simp [pos0] at h
    | succ k => simp [pos0] at h; subst h; simp

/-- **what an accepted statement's prefix is**: `parseInsertStmt` accepts only if the keyword `values` (any case) occurs
at a position > 0; the prefix is the statement up to and INCLUDING the first such occurrence — everything the rows are
appended to -/
theorem parse_prefix (stmt : List Char) (b : BulkStmtL) (h : parseInsertL stmt = some b) :
    ∃ pos, 0 < pos ∧ indexOfL valuesKeyword (stmt.map lowerC) = some pos ∧
      isPrefixL valuesKeyword ((stmt.map lowerC).drop pos) = true ∧ b.pre = stmt.take (pos + 6) := by
  unfold parseInsertL at h
  simp only at h
  split at h
  · simp at h
  · rename_i pos hpos
    obtain ⟨h1, h2⟩ := pos0_spec _ _ hpos
    refine ⟨pos, h2, h1, indexOfL_spec _ _ _ h1, ?_⟩
    split at h
    · simp at h
    · split at h
      · simp at h
      · simp at h; rw [← h.2.2]; rfl

/-- the parser on the statements of the harness (the real `parseInsertStmt` is compared with this on every run):
accepted with / without suffix and column list, the keyword in the suffix again, tabs and newlines, a trimmed suffix;
rejected: no variables, no keyword, keyword at position 0, keyword inside the table name, columns ≠ variables -/
theorem parse_harness_statements :
    (List.range 13).map sqlxParsed =
      [some ("insert into t(a) values", "", "(?)"),
       some ("INSERT INTO t(a) VALUES", "ON DUPLICATE KEY UPDATE a=VALUES(a)", "(?)"),
       some ("insert ignore into t values", "", "(?)"),
       some ("insert into t(a) values", "on duplicate key update a = a + 1, b = 2", "(?)"),
       none, none, none, none,
       some ("INSERT INTO t ( a ) VALUES", "", "(?)"),
       some ("insert into t(a) values", "on duplicate key update a=values(a)", "(?)"),
       none, none,
       some ("insert\tinto t(a)\nvalues", "ON DUPLICATE KEY UPDATE a = 1", "(?)")] := by
  decide

/-! ### the text of the statement handed to Exec -/

def piecesText : List Piece → String
  | [] => ""
  | p :: ps => p.text ++ piecesText ps

theorem piecesText_append (a b : List Piece) : piecesText (a ++ b) = piecesText a ++ piecesText b := by
  induction a with
  | nil => simp [piecesText]
  | cons p ps ih => simp [piecesText, ih, String.append_assoc]

theorem rowPieces_text (v : String) (vs : List String) :
    piecesText (rowPieces (v :: vs)) = ", ".intercalate (v :: vs) := by
  induction vs generalizing v with
  | nil => simp [rowPieces, piecesText, Piece.text]
  | cons w rest ih =>
    rw [String.intercalate_cons_cons, ← ih w]
    simp [rowPieces, piecesText, Piece.text, String.append_assoc]

/-- **the statement handed to `Exec` is `<prefix> (row), (row), … [ <suffix>]`**: for a non-empty batch the string
`dbInserter.Execute` assembles (`sqlStmt`, tied to the source by `tie_sqlxExecute_sem`) is the concatenation of the
pieces prefix · " " · the rows of the batch separated by ", " · (" " · suffix, if there is one); `sql_rows_exactly_once`
says the row pieces are exactly the rows of the batch, in order, each once -/
theorem exec_statement_text (pre suffix : String) (v : String) (vs : List String) :
    sqlStmt pre suffix (v :: vs) = some (piecesText (sqlPieces pre suffix (v :: vs))) := by
  unfold sqlStmt sqlPieces
  simp only [List.length_cons, Nat.add_one_ne_zero, ↓reduceIte, Option.some.injEq, piecesText_append]
  by_cases hs : suffix.length > 0
  · simp [hs, piecesText, Piece.text, rowPieces_text, String.append_assoc]
  · simp [hs, piecesText, Piece.text, rowPieces_text, String.append_assoc]

example : piecesText (sqlPieces "insert into t(a) values" "on duplicate key update a=1" ["(1)", "(2)"])
    = "insert into t(a) values (1), (2) on duplicate key update a=1" := by decide

end GoZero.C11
