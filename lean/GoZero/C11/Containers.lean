/-
C11 — the three `TaskContainer` implementations the property's anchors name, as executable models over Go's
slice semantics (core Lean only):

  core/executors/bulkexecutor.go    bulkContainer   {tasks []any, maxTasks int}
  core/executors/chunkexecutor.go   chunkContainer  {tasks []any, size int, maxChunkSize int}
  core/stores/sqlx/bulkinserter.go  dbInserter      {values []string}  threshold maxBulkRows, + the SQL assembly

A Go slice is a header (backing array, len, cap) over a heap of backing arrays: `append` writes IN PLACE when
len < cap (every other slice over the same array sees the write) and allocates a fresh array otherwise; `nil`
has no backing array.  This is exactly what "the batch returned by RemoveAll is not aliased by later Adds"
depends on: `bc.tasks = nil` makes the next append allocate, `bc.tasks = bc.tasks[:0]` would not.
The growth policy of `append` is a parameter (`grow`, arbitrary): nothing proven depends on it.
-/
namespace GoZero.C11

/-- slice header; `cap = 0` is the nil slice (no backing array) -/
structure Slice where
  arr : Nat := 0
  len : Nat := 0
  cap : Nat := 0
  deriving DecidableEq, Repr, Hashable

/-- backing arrays, by allocation number; an array is the list of its cells written so far -/
structure Heap (α : Type) where
  arrs : List (List α) := []
  deriving Repr

namespace Heap
variable {α : Type}

/-- the elements a slice shows -/
def read (h : Heap α) (s : Slice) : List α :=
  if s.cap = 0 then [] else ((h.arrs[s.arr]?).getD []).take s.len

/-- Go's `append(s, x)`: in place when there is room, else a fresh array of capacity `len+1+grow (len+1)` -/
def append (grow : Nat → Nat) (h : Heap α) (s : Slice) (x : α) : Heap α × Slice :=
  if s.len < s.cap then
    let c := (h.arrs[s.arr]?).getD []
    ({ arrs := h.arrs.set s.arr (c.take s.len ++ [x] ++ c.drop (s.len + 1)) }, { s with len := s.len + 1 })
  else
    ({ arrs := h.arrs ++ [h.read s ++ [x]] },
     { arr := h.arrs.length, len := s.len + 1, cap := s.len + 1 + grow (s.len + 1) })

/-- `s[:0]` (not used by the real containers; the aliasing witness uses it) -/
def slice0 (s : Slice) : Slice := { s with len := 0 }

/-- a well-formed slice of this heap -/
def Wf (h : Heap α) (s : Slice) : Prop :=
  (s.cap = 0 ∧ s.len = 0) ∨
  (s.cap ≠ 0 ∧ s.arr < h.arrs.length ∧ s.len ≤ ((h.arrs[s.arr]?).getD []).length ∧ s.len ≤ s.cap)

/-- a slice handed out earlier: nil, or over an existing array -/
def Known (h : Heap α) (b : Slice) : Prop := b.cap = 0 ∨ b.arr < h.arrs.length

/-- `s` cannot write into the array of `b` -/
def Apart (s b : Slice) : Prop := s.cap = 0 ∨ b.cap = 0 ∨ s.arr ≠ b.arr

end Heap

/-! ### the containers (state = the Go struct's data fields; the heap is threaded through `append`) -/

structure BulkC where
  tasks    : Slice := {}
  maxTasks : Int
  deriving DecidableEq, Repr, Hashable

structure ChunkC where
  tasks        : Slice := {}
  size         : Int := 0
  maxChunkSize : Int
  deriving DecidableEq, Repr, Hashable

structure SqlC where
  values : Slice := {}
  deriving DecidableEq, Repr, Hashable

variable {α : Type}

/-- `bc.tasks = append(bc.tasks, task); return len(bc.tasks) >= bc.maxTasks` -/
def BulkC.addTask (grow : Nat → Nat) (h : Heap α) (c : BulkC) (x : α) : Heap α × BulkC × Bool :=
  let r := h.append grow c.tasks x
  (r.1, { c with tasks := r.2 }, decide ((r.2.len : Int) ≥ c.maxTasks))

/-- `tasks := bc.tasks; bc.tasks = nil; return tasks` -/
def BulkC.removeAll (c : BulkC) : BulkC × Slice := ({ c with tasks := {} }, c.tasks)

/-- `ck := task.(chunk); bc.tasks = append(bc.tasks, ck.val); bc.size += ck.size; return bc.size >= bc.maxChunkSize`
(`size x` = the `size` the caller of `ChunkExecutor.Add` declared for `x`: any Go int, also 0 or negative) -/
def ChunkC.addTask (grow : Nat → Nat) (size : α → Int) (h : Heap α) (c : ChunkC) (x : α) : Heap α × ChunkC × Bool :=
  let r := h.append grow c.tasks x
  let sz := c.size + size x
  (r.1, { c with tasks := r.2, size := sz }, decide (sz ≥ c.maxChunkSize))

/-- `tasks := bc.tasks; bc.tasks = nil; bc.size = 0; return tasks` -/
def ChunkC.removeAll (c : ChunkC) : ChunkC × Slice := ({ c with tasks := {}, size := 0 }, c.tasks)

def maxBulkRows : Int := 1000

/-- `in.values = append(in.values, task.(string)); return len(in.values) >= maxBulkRows` -/
def SqlC.addTask (grow : Nat → Nat) (h : Heap α) (c : SqlC) (x : α) : Heap α × SqlC × Bool :=
  let r := h.append grow c.values x
  (r.1, { values := r.2 }, decide ((r.2.len : Int) ≥ maxBulkRows))

/-- `values := in.values; in.values = nil; return values` -/
def SqlC.removeAll (c : SqlC) : SqlC × Slice := ({ values := {} }, c.values)

/-- `dbInserter.Execute`: nothing for an empty batch, else the statement handed to `sqlConn.Exec`:
`prefix + " " + strings.Join(values, ", ")` and, when the suffix is not empty (ON DUPLICATE KEY UPDATE …),
`+ " " + suffix` -/
def sqlStmt (pre suffix : String) (values : List String) : Option String :=
  if values.length = 0 then none
  else
    let stmt := " ".intercalate [pre, ", ".intercalate values]
    some (if suffix.length > 0 then " ".intercalate [stmt, suffix] else stmt)

/-- the statement as a list of pieces: prefix, the rows separated by ", ", the suffix -/
inductive Piece | pre (s : String) | row (s : String) | sep (s : String) | suffix (s : String)
  deriving DecidableEq, Repr

def Piece.text : Piece → String
  | .pre s => s | .row s => s | .sep s => s | .suffix s => s

def rowPieces : List String → List Piece
  | [] => []
  | [v] => [.row v]
  | v :: w :: rest => .row v :: .sep ", " :: rowPieces (w :: rest)

def sqlPieces (pre suffix : String) (values : List String) : List Piece :=
  [.pre pre, .sep " "] ++ rowPieces values ++ (if suffix.length > 0 then [.sep " ", .suffix suffix] else [])

def rowsOf (ps : List Piece) : List String := ps.filterMap fun p => match p with | .row v => some v | _ => none

/-! ### the interface: what `PeriodicalExecutor` assumes of its container -/

/-- a `TaskContainer` over the slice heap -/
structure TaskContainer (σ α : Type) where
  addTask   : Heap α → σ → α → Heap α × σ × Bool
  removeAll : σ → σ × Slice
  tasks     : σ → Slice                 -- the field that holds the pending tasks
  full      : σ → List α → Bool         -- the threshold, as a predicate on the pending tasks after the append
  inv       : Heap α → σ → Prop         -- representation invariant

def bulkTC (grow : Nat → Nat) : TaskContainer BulkC α where
  addTask := BulkC.addTask grow
  removeAll := BulkC.removeAll
  tasks := (·.tasks)
  full := fun c l => decide ((l.length : Int) ≥ c.maxTasks)
  inv := fun h c => h.Wf c.tasks

def chunkTC (grow : Nat → Nat) (size : α → Int) : TaskContainer ChunkC α where
  addTask := ChunkC.addTask grow size
  removeAll := ChunkC.removeAll
  tasks := (·.tasks)
  full := fun c l => decide ((l.map size).sum ≥ c.maxChunkSize)
  inv := fun h c => h.Wf c.tasks ∧ c.size = ((h.read c.tasks).map size).sum

def sqlTC (grow : Nat → Nat) : TaskContainer SqlC α where
  addTask := SqlC.addTask grow
  removeAll := SqlC.removeAll
  tasks := (·.values)
  full := fun _ l => decide ((l.length : Int) ≥ maxBulkRows)
  inv := fun h c => h.Wf c.values

/-- the container laws the PeriodicalExecutor model relies on (its `container : List Task`, `cfg.full`) -/
structure Lawful {σ α : Type} (C : TaskContainer σ α) : Prop where
  /-- AddTask appends the task to the pending ones … -/
  add_pending : ∀ h c x, C.inv h c → (C.addTask h c x).1.read (C.tasks (C.addTask h c x).2.1) = h.read (C.tasks c) ++ [x]
  /-- … and answers true iff the threshold is reached -/
  add_full : ∀ h c x, C.inv h c → (C.addTask h c x).2.2 = C.full c (h.read (C.tasks c) ++ [x])
  add_inv : ∀ h c x, C.inv h c → C.inv (C.addTask h c x).1 (C.addTask h c x).2.1
  /-- AddTask leaves every slice handed out earlier alone -/
  add_frame : ∀ h c x b, C.inv h c → h.Known b → Heap.Apart (C.tasks c) b →
    (C.addTask h c x).1.read b = h.read b ∧ (C.addTask h c x).1.Known b ∧ Heap.Apart (C.tasks (C.addTask h c x).2.1) b
  /-- RemoveAll returns the slice with the pending tasks and keeps NO reference to its backing array -/
  remove_batch : ∀ c, (C.removeAll c).2 = C.tasks c
  remove_nil : ∀ c, (C.tasks (C.removeAll c).1).cap = 0
  remove_inv : ∀ h c, C.inv h c → C.inv h (C.removeAll c).1
  remove_known : ∀ h c, C.inv h c → h.Known (C.tasks c)
  /-- the threshold is configuration: no operation changes it -/
  full_add : ∀ h c x, C.full (C.addTask h c x).2.1 = C.full c
  full_remove : ∀ c, C.full (C.removeAll c).1 = C.full c

/-! ### runs: the concrete container against the list container of Model.lean -/

inductive COp (α : Type) | add (x : α) | removeAll
  deriving Repr

inductive COut | full (b : Bool) | batch (s : Slice)
  deriving DecidableEq, Repr

inductive AOut (α : Type) | full (b : Bool) | batch (l : List α)
  deriving DecidableEq, Repr

/-- run operations on a concrete container: final heap, final state, outputs in order -/
def runC {σ : Type} (C : TaskContainer σ α) (h : Heap α) (c : σ) : List (COp α) → Heap α × σ × List COut
  | [] => (h, c, [])
  | .add x :: ops =>
    let r := C.addTask h c x
    let q := runC C r.1 r.2.1 ops
    (q.1, q.2.1, .full r.2.2 :: q.2.2)
  | .removeAll :: ops =>
    let r := C.removeAll c
    let q := runC C h r.1 ops
    (q.1, q.2.1, .batch r.2 :: q.2.2)

/-- the same operations on the abstract container of Model.lean (a list and a threshold predicate):
final pending list, outputs in order -/
def runA (full : List α → Bool) (l : List α) : List (COp α) → List α × List (AOut α)
  | [] => (l, [])
  | .add x :: ops =>
    let q := runA full (l ++ [x]) ops
    (q.1, .full (full (l ++ [x])) :: q.2)
  | .removeAll :: ops =>
    let q := runA full [] ops
    (q.1, .batch l :: q.2)

/-- read a concrete output in a heap (the FINAL heap of a run: what the callback sees however late it runs) -/
def COut.view (h : Heap α) : COut → AOut α
  | .full b => .full b
  | .batch s => .batch (h.read s)

end GoZero.C11
