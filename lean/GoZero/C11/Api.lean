/-
C11 — the PUBLIC API around the PeriodicalExecutor (core Lean only): the option records and option functions of
core/executors/{bulk,chunk}executor.go, the constructors `NewBulkExecutor(execute, opts...)` /
`NewChunkExecutor(execute, opts...)` as functions of the WHOLE option list, the model configuration (`Cfg`) of the
executor they build, and the wrappers `Add / Flush / Wait` as model actions.

  options := newBulkOptions()                    newBulkOptions
  for _, opt := range opts { opt(&options) }     opts.foldl BulkOpt.apply
  container := &bulkContainer{maxTasks: options.cachedTasks}; NewPeriodicalExecutor(options.flushInterval, container)
                                                 Executor.threshold / Executor.interval
-/
import GoZero.C11.Model
namespace GoZero.C11

/-- the package defaults (tied: tie_defaults) -/
def defaultBulkTasks : Int := 1000
def defaultChunkSize : Int := 1048576
def defaultFlushInterval : Int := 1000000000

structure BulkOptions where
  cachedTasks   : Int
  flushInterval : Int
  deriving DecidableEq, Repr

structure ChunkOptions where
  chunkSize     : Int
  flushInterval : Int
  deriving DecidableEq, Repr

/-- `WithBulkTasks(n)` / `WithBulkInterval(d)`: any Go int / duration, also 0 and negative -/
inductive BulkOpt | tasks (n : Int) | interval (d : Int)
  deriving DecidableEq, Repr

/-- `WithChunkBytes(n)` / `WithFlushInterval(d)` -/
inductive ChunkOpt | bytes (n : Int) | interval (d : Int)
  deriving DecidableEq, Repr

def newBulkOptions : BulkOptions := { cachedTasks := defaultBulkTasks, flushInterval := defaultFlushInterval }
def newChunkOptions : ChunkOptions := { chunkSize := defaultChunkSize, flushInterval := defaultFlushInterval }

def BulkOpt.apply (o : BulkOptions) : BulkOpt → BulkOptions
  | .tasks n => { o with cachedTasks := n }
  | .interval d => { o with flushInterval := d }

def ChunkOpt.apply (o : ChunkOptions) : ChunkOpt → ChunkOptions
  | .bytes n => { o with chunkSize := n }
  | .interval d => { o with flushInterval := d }

/-- what a public constructor builds: the threshold of the container and the interval of the PeriodicalExecutor -/
structure Executor where
  chunk     : Bool
  threshold : Int
  interval  : Int
  deriving DecidableEq, Repr

def newBulkExecutor (opts : List BulkOpt) : Executor :=
  let o := opts.foldl BulkOpt.apply newBulkOptions
  { chunk := false, threshold := o.cachedTasks, interval := o.flushInterval }

def newChunkExecutor (opts : List ChunkOpt) : Executor :=
  let o := opts.foldl ChunkOpt.apply newChunkOptions
  { chunk := true, threshold := o.chunkSize, interval := o.flushInterval }

/-- the model configuration of the executor (`size` = the byte size the callers of `ChunkExecutor.Add` declare) -/
def Executor.cfg (e : Executor) (size : Task → Int) : Cfg :=
  { full := if e.chunk then chunkFull size e.threshold else bulkFull e.threshold,
    interval := e.interval.toNat, fixed := true }

/-- "the last option of a kind wins, the package default otherwise" -/
def lastTasks (d : Int) : List BulkOpt → Int
  | [] => d
  | .tasks n :: rest => lastTasks n rest
  | .interval _ :: rest => lastTasks d rest

def lastBulkInterval (d : Int) : List BulkOpt → Int
  | [] => d
  | .interval n :: rest => lastBulkInterval n rest
  | .tasks _ :: rest => lastBulkInterval d rest

def lastBytes (d : Int) : List ChunkOpt → Int
  | [] => d
  | .bytes n :: rest => lastBytes n rest
  | .interval _ :: rest => lastBytes d rest

def lastChunkInterval (d : Int) : List ChunkOpt → Int
  | [] => d
  | .interval n :: rest => lastChunkInterval n rest
  | .bytes _ :: rest => lastChunkInterval d rest

/-- the public entry points of Bulk / Chunk executor; the wrappers delegate to the PeriodicalExecutor with the same
arguments (`ChunkExecutor.Add(task, size)` wraps both into ONE task: `size` is what `Executor.cfg`'s `size` reads) -/
inductive ApiCall | add (task : Task) | flush | wait
  deriving DecidableEq, Repr

def ApiCall.act : ApiCall → Act
  | .add x => .add x
  | .flush => .flush
  | .wait => .wait

end GoZero.C11
