import GoZero.C11.ProofsWaitRows
set_option linter.unusedSimpArgs false
set_option linter.unusedVariables false
/-
C11 — the Wait invariant `WInv` (ProofsWait.lean) is preserved by every row of the step table of the fixed
code: one lemma per pc (`winv_<pc>`), assembled in `winv_step`; hence it holds in every reachable configuration
(`winv_reachable`).
-/
namespace GoZero.C11

/-- the side conditions of `winv_upd` for a row that moves no task, with the default discharge -/
macro "wrow" hw:ident hth:ident hinv:ident hpc:ident : tactic => `(tactic| (
  refine winv_upd _ _ _ _ _ $hw rfl $hth $hinv ?m1 ?m2 ?m3 ?hwg ?hinf ?hnp ?hsnap ?hadd ?hown
  case m1 => intro x; simp [List.count_append]
  case m2 => intro x; simp [eterm, entered, List.count_append, $hpc:ident]
  case m3 => intro x; simp [List.count_append]
  case hwg => simp [e01, entered, $hpc:ident]
  case hinf => simp [l01, limbo, cmd01, $hpc:ident] <;> (first | omega | rfl | (split <;> simp) | (cases ‹Bool› <;> simp))
  case hnp => simp
  case hsnap => intro x; have := ($hw).snapLe _ _ $hth x; simpa using this
  case hadd => intro x; simp
  case hown => left; simp [phase, $hpc:ident]))

theorem winv_aLock (cfg : Cfg) (s s' : St) (t : Nat) (th : Thread) (a : Act) (x : Task) (hw : WInv s)
    (hth : s.thr[t]? = some th) (hpc : th.pc = .aLock x) (h : stepTh cfg s t th a = some s') (hinv : Inv s') : WInv s' := by
  have := row_aLock cfg s s' t th a x hpc h; subst this
  wrow hw hth hinv hpc

theorem winv_idle (cfg : Cfg) (s s' : St) (t : Nat) (th : Thread) (a : Act) (hw : WInv s)
    (hth : s.thr[t]? = some th) (hpc : th.pc = .idle) (h : stepTh cfg s t th a = some s') (hinv : Inv s') : WInv s' := by
  rcases row_idle cfg s s' t th a hpc h with ⟨x, _, rfl⟩ | ⟨_, rfl⟩ | ⟨_, rfl⟩ | ⟨_, _, rfl⟩
  · wrow hw hth hinv hpc
  · wrow hw hth hinv hpc
  · refine winv_upd _ _ _ _ _ hw rfl hth hinv ?m1 ?m2 ?m3 ?hwg ?hinf ?hnp ?hsnap ?hadd ?hown
    case m1 => intro x; simp
    case m2 => intro x; simp [eterm, entered, hpc]
    case m3 => intro x; simp
    case hwg => simp [e01, entered, hpc]
    case hinf => simp [l01, limbo, cmd01, hpc]
    case hnp => simp
    case hsnap => intro x; simp
    case hadd => intro x; simp
    case hown => right; intro x; simp [phase]
  · wrow hw hth hinv hpc

theorem winv_aInc (cfg : Cfg) (s s' : St) (t : Nat) (th : Thread) (a : Act) (hw : WInv s)
    (hth : s.thr[t]? = some th) (hpc : th.pc = .aInc) (h : stepTh cfg s t th a = some s') (hinv : Inv s') : WInv s' := by
  have := row_aInc cfg s s' t th a hpc h; subst this
  wrow hw hth hinv hpc

theorem winv_aGuard (cfg : Cfg) (s s' : St) (t : Nat) (th : Thread) (a : Act) (ok : Bool) (hw : WInv s)
    (hth : s.thr[t]? = some th) (hpc : th.pc = .aGuard ok) (h : stepTh cfg s t th a = some s') (hinv : Inv s') : WInv s' := by
  rcases row_aGuard cfg s s' t th a ok hpc h with rfl | rfl
  · wrow hw hth hinv hpc
  · wrow hw hth hinv hpc

theorem winv_aUnlock (cfg : Cfg) (s s' : St) (t : Nat) (th : Thread) (a : Act) (ok sp : Bool) (hw : WInv s)
    (hth : s.thr[t]? = some th) (hpc : th.pc = .aUnlock ok sp) (h : stepTh cfg s t th a = some s') (hinv : Inv s') : WInv s' := by
  have := row_aUnlock cfg s s' t th a ok sp hpc h; subst this
  cases ok <;> cases sp <;> wrow hw hth hinv hpc

theorem winv_aSpawn (cfg : Cfg) (s s' : St) (t : Nat) (th : Thread) (a : Act) (ok : Bool) (hw : WInv s)
    (hth : s.thr[t]? = some th) (hpc : th.pc = .aSpawn ok) (h : stepTh cfg s t th a = some s') (hinv : Inv s') : WInv s' := by
  have := row_aSpawn cfg s s' t th a ok hpc h; subst this
  cases ok <;> wrow hw hth hinv hpc

theorem winv_fEnter (cfg : Cfg) (s s' : St) (t : Nat) (th : Thread) (a : Act) (c : Ctx) (hw : WInv s)
    (hth : s.thr[t]? = some th) (hpc : th.pc = .fEnter c) (h : stepTh cfg s t th a = some s') (hinv : Inv s') : WInv s' := by
  have := row_fEnter cfg s s' t th a c hpc h; subst this
  wrow hw hth hinv hpc

theorem winv_fLock (cfg : Cfg) (s s' : St) (t : Nat) (th : Thread) (a : Act) (c : Ctx) (hw : WInv s)
    (hth : s.thr[t]? = some th) (hpc : th.pc = .fLock c) (h : stepTh cfg s t th a = some s') (hinv : Inv s') : WInv s' := by
  have := row_fLock cfg s s' t th a c hpc h; subst this
  wrow hw hth hinv hpc

theorem winv_fUnlock (cfg : Cfg) (s s' : St) (t : Nat) (th : Thread) (a : Act) (c : Ctx) (hw : WInv s)
    (hth : s.thr[t]? = some th) (hpc : th.pc = .fUnlock c) (h : stepTh cfg s t th a = some s') (hinv : Inv s') : WInv s' := by
  have := row_fUnlock cfg s s' t th a c hpc h; subst this
  wrow hw hth hinv hpc

theorem winv_wBarrier (cfg : Cfg) (s s' : St) (t : Nat) (th : Thread) (a : Act) (hw : WInv s)
    (hth : s.thr[t]? = some th) (hpc : th.pc = .wBarrier) (h : stepTh cfg s t th a = some s') (hinv : Inv s') : WInv s' := by
  have := row_wBarrier cfg s s' t th a hpc h; subst this
  wrow hw hth hinv hpc

theorem winv_bEnterF (cfg : Cfg) (s s' : St) (t : Nat) (th : Thread) (a : Act) (hw : WInv s)
    (hth : s.thr[t]? = some th) (hpc : th.pc = .bEnterF) (h : stepTh cfg s t th a = some s') (hinv : Inv s') : WInv s' := by
  have := row_bEnterF cfg s s' t th a hpc h; subst this
  wrow hw hth hinv hpc

theorem winv_bDecF (cfg : Cfg) (s s' : St) (t : Nat) (th : Thread) (a : Act) (hw : WInv s)
    (hth : s.thr[t]? = some th) (hpc : th.pc = .bDecF) (h : stepTh cfg s t th a = some s') (hinv : Inv s') : WInv s' := by
  have := row_bDecF cfg s s' t th a hpc h; subst this
  wrow hw hth hinv hpc

theorem winv_bQuit (cfg : Cfg) (s s' : St) (t : Nat) (th : Thread) (a : Act) (hw : WInv s)
    (hth : s.thr[t]? = some th) (hpc : th.pc = .bQuit) (h : stepTh cfg s t th a = some s') (hinv : Inv s') : WInv s' := by
  have := row_bQuit cfg s s' t th a hpc h; subst this
  by_cases hc : s.now - th.last ≤ cfg.interval * idleRound <;> simp only [hc, ↓reduceIte] at hinv ⊢ <;> wrow hw hth hinv hpc

theorem winv_qLock (cfg : Cfg) (s s' : St) (t : Nat) (th : Thread) (a : Act) (hw : WInv s)
    (hth : s.thr[t]? = some th) (hpc : th.pc = .qLock) (h : stepTh cfg s t th a = some s') (hinv : Inv s') : WInv s' := by
  have := row_qLock cfg s s' t th a hpc h; subst this
  wrow hw hth hinv hpc

theorem winv_qCheck (cfg : Cfg) (s s' : St) (t : Nat) (th : Thread) (a : Act) (hw : WInv s)
    (hth : s.thr[t]? = some th) (hpc : th.pc = .qCheck) (h : stepTh cfg s t th a = some s') (hinv : Inv s') : WInv s' := by
  rcases row_qCheck cfg s s' t th a hpc h with rfl | rfl
  · wrow hw hth hinv hpc
  · wrow hw hth hinv hpc

theorem winv_qUnlock (cfg : Cfg) (s s' : St) (t : Nat) (th : Thread) (a : Act) (stop : Bool) (hw : WInv s)
    (hth : s.thr[t]? = some th) (hpc : th.pc = .qUnlock stop) (h : stepTh cfg s t th a = some s') (hinv : Inv s') : WInv s' := by
  have := row_qUnlock cfg s s' t th a stop hpc h; subst this
  cases stop <;> wrow hw hth hinv hpc

theorem winv_wUnbarrier (cfg : Cfg) (s s' : St) (t : Nat) (th : Thread) (a : Act) (hw : WInv s)
    (hth : s.thr[t]? = some th) (hpc : th.pc = .wUnbarrier) (h : stepTh cfg s t th a = some s') (hinv : Inv s') : WInv s' := by
  have := row_wUnbarrier cfg s s' t th a hpc h; subst this
  refine winv_upd _ _ _ _ _ hw rfl hth hinv ?m1 ?m2 ?m3 ?hwg ?hinf ?hnp ?hsnap ?hadd ?hown
  case m1 => intro x; simp
  case m2 => intro x; simp [eterm, entered, hpc]
  case m3 => intro x; simp
  case hwg => simp [e01, entered, hpc]
  case hinf => simp [l01, limbo, cmd01, hpc]
  case hnp => simp
  case hsnap => intro x; have := hw.snapLe _ _ hth x; simpa using this
  case hadd => intro x; simp
  case hown => right; intro x; simp [phase]

theorem winv_aAdd (cfg : Cfg) (s s' : St) (t : Nat) (th : Thread) (a : Act) (y : Task) (hw : WInv s)
    (hth : s.thr[t]? = some th) (hpc : th.pc = .aAdd y) (h : stepTh cfg s t th a = some s') (hinv : Inv s') : WInv s' := by
  have := row_aAdd cfg s s' t th a y hpc h; subst this
  by_cases hc : cfg.full (s.container ++ [y]) = true <;> simp only [hc, ↓reduceIte] at hinv ⊢ <;> (
    refine winv_upd _ _ _ _ _ hw rfl hth hinv ?m1 ?m2 ?m3 ?hwg ?hinf ?hnp ?hsnap ?hadd ?hown
    case m1 => intro x; simp [List.count_append]; omega
    case m2 => intro x; simp [eterm, entered, hpc]
    case m3 => intro x; simp
    case hwg => simp [e01, entered, hpc]
    case hinf => simp [l01, limbo, cmd01, hpc]
    case hnp => simp
    case hsnap => intro x; have := hw.snapLe _ _ hth x; simp [List.count_append]; omega
    case hadd => intro x; simp [List.count_append]
    case hown => left; simp [phase, hpc])

theorem winv_aRemove (cfg : Cfg) (s s' : St) (t : Nat) (th : Thread) (a : Act) (hw : WInv s)
    (hth : s.thr[t]? = some th) (hpc : th.pc = .aRemove) (h : stepTh cfg s t th a = some s') (hinv : Inv s') : WInv s' := by
  have := row_aRemove cfg s s' t th a hpc h; subst this
  refine winv_upd _ _ _ _ _ hw rfl hth hinv ?m1 ?m2 ?m3 ?hwg ?hinf ?hnp ?hsnap ?hadd ?hown
  case m1 => intro x; simp
  case m2 => intro x; simp [eterm, entered, hpc]
  case m3 => intro x; simp
  case hwg => simp [e01, entered, hpc]
  case hinf => simp [l01, limbo, cmd01, hpc]
  case hnp => simp
  case hsnap => intro x; have := hw.snapLe _ _ hth x; simpa using this
  case hadd => intro x; simp
  case hown => left; simp [phase, hpc]

theorem winv_aSend (cfg : Cfg) (s s' : St) (t : Nat) (th : Thread) (a : Act) (hw : WInv s)
    (hth : s.thr[t]? = some th) (hpc : th.pc = .aSend) (h : stepTh cfg s t th a = some s') (hinv : Inv s') : WInv s' := by
  obtain ⟨hcm, rfl⟩ := row_aSend cfg s s' t th a hpc h
  refine winv_upd _ _ _ _ _ hw rfl hth hinv ?m1 ?m2 ?m3 ?hwg ?hinf ?hnp ?hsnap ?hadd ?hown
  case m1 => intro x; simp
  case m2 => intro x; simp [eterm, entered, hpc]
  case m3 => intro x; simp
  case hwg => simp [e01, entered, hpc]
  case hinf => simp [l01, limbo, cmd01, hpc, hcm]
  case hnp => simp
  case hsnap => intro x; have := hw.snapLe _ _ hth x; simpa using this
  case hadd => intro x; simp
  case hown => left; simp [phase, hpc]

theorem winv_fRemove (cfg : Cfg) (s s' : St) (t : Nat) (th : Thread) (a : Act) (c : Ctx) (hw : WInv s)
    (hth : s.thr[t]? = some th) (hpc : th.pc = .fRemove c) (h : stepTh cfg s t th a = some s') (hinv : Inv s') : WInv s' := by
  have := row_fRemove cfg s s' t th a c hpc h; subst this
  have hreg : th.reg = [] := hw.inv.empty t th hth (by simp [hpc, holds])
  refine winv_upd _ _ _ _ _ hw rfl hth hinv ?m1 ?m2 ?m3 ?hwg ?hinf ?hnp ?hsnap ?hadd ?hown
  case m1 => intro x; simp
  case m2 => intro x; simp [eterm, entered, hpc, hreg]
  case m3 => intro x; simp
  case hwg => simp [e01, entered, hpc]
  case hinf => simp [l01, limbo, cmd01, hpc]
  case hnp => simp
  case hsnap => intro x; have := hw.snapLe _ _ hth x; simpa using this
  case hadd => intro x; simp
  case hown =>
    right; intro x
    have := hw.snapLe t th hth x
    cases c <;> simp [phase, St.upd] <;> omega

theorem winv_fExec (cfg : Cfg) (s s' : St) (t : Nat) (th : Thread) (a : Act) (c : Ctx) (hw : WInv s)
    (hth : s.thr[t]? = some th) (hpc : th.pc = .fExec c) (h : stepTh cfg s t th a = some s') (hinv : Inv s') : WInv s' := by
  have := row_fExec cfg s s' t th a c hpc h; subst this
  by_cases hc : th.reg = [] <;> simp only [hc, ↓reduceIte] at hinv ⊢ <;> (
    refine winv_upd _ _ _ _ _ hw rfl hth hinv ?m1 ?m2 ?m3 ?hwg ?hinf ?hnp ?hsnap ?hadd ?hown
    case m1 => intro x; simp
    case m2 => intro x; simp [eterm, entered, hpc, hc]
    case m3 => intro x; simp
    case hwg => simp [e01, entered, hpc]
    case hinf => simp [l01, limbo, cmd01, hpc]
    case hnp => simp
    case hsnap => intro x; have := hw.snapLe _ _ hth x; simpa using this
    case hadd => intro x; simp
    case hown => left; simp [phase, hpc])

theorem winv_fCall (cfg : Cfg) (s s' : St) (t : Nat) (th : Thread) (a : Act) (c : Ctx) (hw : WInv s)
    (hth : s.thr[t]? = some th) (hpc : th.pc = .fCall c) (h : stepTh cfg s t th a = some s') (hinv : Inv s') : WInv s' := by
  obtain ⟨l, rfl⟩ := row_fCall cfg s s' t th a c hpc h
  refine winv_upd _ _ _ _ _ hw rfl hth hinv ?m1 ?m2 ?m3 ?hwg ?hinf ?hnp ?hsnap ?hadd ?hown
  case m1 => intro x; simp
  case m2 => intro x; simp [eterm, entered, hpc, List.count_append]
  case m3 => intro x; simp [List.count_append]
  case hwg => simp [e01, entered, hpc]
  case hinf => simp [l01, limbo, cmd01, hpc]
  case hnp => simp
  case hsnap => intro x; have := hw.snapLe _ _ hth x; simpa using this
  case hadd => intro x; simp
  case hown => left; simp [phase, hpc]

theorem winv_fDone (cfg : Cfg) (hfix : cfg.fixed = true) (s s' : St) (t : Nat) (th : Thread) (a : Act) (c : Ctx) (ok : Bool) (hw : WInv s)
    (hth : s.thr[t]? = some th) (hpc : th.pc = .fDone c ok) (h : stepTh cfg s t th a = some s') (hinv : Inv s') : WInv s' := by
  obtain ⟨hwg0, l, rfl⟩ := row_fDone cfg s s' t th a c ok hpc h
  have hreg : th.reg = [] := hw.inv.empty t th hth (by simp [hpc, holds])
  refine winv_upd _ _ _ _ _ hw rfl hth hinv ?m1 ?m2 ?m3 ?hwg ?hinf ?hnp ?hsnap ?hadd ?hown
  case m1 => intro x; simp
  case m2 => intro x; simp [eterm, hreg]
  case m3 => intro x; simp
  case hwg => cases c <;> cases ok <;> simp [e01, entered, hpc, flushRet, hfix] <;> omega
  case hinf => cases c <;> cases ok <;> simp [l01, limbo, cmd01, hpc, flushRet, hfix]
  case hnp => cases c <;> cases ok <;> simp [flushRet, hfix]
  case hsnap => intro x; have := hw.snapLe _ _ hth x; simpa using this
  case hadd => intro x; simp
  case hown => left; cases c <;> cases ok <;> simp [phase, hpc, flushRet, hfix]

theorem winv_wSpin (cfg : Cfg) (s s' : St) (t : Nat) (th : Thread) (a : Act) (hw : WInv s)
    (hth : s.thr[t]? = some th) (hpc : th.pc = .wSpin) (h : stepTh cfg s t th a = some s') (hinv : Inv s') : WInv s' := by
  obtain ⟨hin, rfl⟩ := row_wSpin cfg s s' t th a hpc h
  have hsp := spin_pass s hw hin t th hth hpc
  refine winv_upd _ _ _ _ _ hw rfl hth hinv ?m1 ?m2 ?m3 ?hwg ?hinf ?hnp ?hsnap ?hadd ?hown
  case m1 => intro x; simp
  case m2 => intro x; simp [eterm, entered, hpc]
  case m3 => intro x; simp
  case hwg => simp [e01, entered, hpc]
  case hinf => simp [l01, limbo, cmd01, hpc]
  case hnp => simp
  case hsnap => intro x; have := hw.snapLe _ _ hth x; simpa using this
  case hadd => intro x; simp
  case hown =>
    right; intro x
    have e := eHeld_upd s t th { th with pc := .wBarrier } hth x
    have := hsp x
    simp [phase, eterm, entered, hpc] at e ⊢
    simp only [St.upd] at e ⊢
    omega

theorem winv_wWait (cfg : Cfg) (s s' : St) (t : Nat) (th : Thread) (a : Act) (hw : WInv s)
    (hth : s.thr[t]? = some th) (hpc : th.pc = .wWait) (h : stepTh cfg s t th a = some s') (hinv : Inv s') : WInv s' := by
  obtain ⟨h0, rfl⟩ := row_wWait cfg s s' t th a hpc h
  refine winv_upd _ _ _ _ _ hw rfl hth hinv ?m1 ?m2 ?m3 ?hwg ?hinf ?hnp ?hsnap ?hadd ?hown
  case m1 => intro x; simp
  case m2 => intro x; simp [eterm, entered, hpc]
  case m3 => intro x; simp
  case hwg => simp [e01, entered, hpc]
  case hinf => simp [l01, limbo, cmd01, hpc]
  case hnp => simp
  case hsnap => intro x; have := hw.snapLe _ _ hth x; simpa using this
  case hadd => intro x; simp
  case hown =>
    right; intro x
    have := ((hw.ph t th hth) x).2.1 (by simp [hpc, phase])
    have := wg_pass s hw h0 x
    simp [phase, St.upd]
    omega

theorem winv_bSelect (cfg : Cfg) (hfix : cfg.fixed = true) (s s' : St) (t : Nat) (th : Thread) (a : Act) (cm : Bool) (hw : WInv s)
    (hth : s.thr[t]? = some th) (hpc : th.pc = .bSelect cm) (h : stepTh cfg s t th a = some s') (hinv : Inv s') : WInv s' := by
  rcases row_bSelect cfg hfix s s' t th a cm hpc h with ⟨b, hb, rfl⟩ | rfl
  · refine winv_upd _ _ _ _ _ hw rfl hth hinv ?m1 ?m2 ?m3 ?hwg ?hinf ?hnp ?hsnap ?hadd ?hown
    case m1 => intro x; simp
    case m2 => intro x; simp [eterm, entered, hpc]
    case m3 => intro x; simp
    case hwg => simp [e01, entered, hpc]
    case hinf => simp [l01, limbo, cmd01, hpc, hb]
    case hnp => simp
    case hsnap => intro x; have := hw.snapLe _ _ hth x; simpa using this
    case hadd => intro x; simp
    case hown => left; simp [phase, hpc]
  · cases cm <;> simp only [↓reduceIte, Bool.false_eq_true] at hinv ⊢ <;> wrow hw hth hinv hpc

theorem winv_bExec (cfg : Cfg) (s s' : St) (t : Nat) (th : Thread) (a : Act) (hw : WInv s)
    (hth : s.thr[t]? = some th) (hpc : th.pc = .bExec) (h : stepTh cfg s t th a = some s') (hinv : Inv s') : WInv s' := by
  have := row_bExec cfg s s' t th a hpc h; subst this
  by_cases hc : th.reg = []
  · simp only [hc, ↓reduceIte] at hinv ⊢
    refine winv_upd _ _ _ _ _ hw rfl hth hinv ?m1 ?m2 ?m3 ?hwg ?hinf ?hnp ?hsnap ?hadd ?hown
    case m1 => intro x; simp
    case m2 => intro x; simp [eterm, entered, hpc, hc]
    case m3 => intro x; simp
    case hwg => simp [e01, entered, hpc]
    case hinf => simp [l01, limbo, cmd01, hpc]
    case hnp => simp
    case hsnap => intro x; have := hw.snapLe _ _ hth x; simpa using this
    case hadd => intro x; simp
    case hown => left; simp [phase, hpc]
  · simp only [hc, ↓reduceIte] at hinv ⊢
    wrow hw hth hinv hpc

theorem winv_bCall (cfg : Cfg) (s s' : St) (t : Nat) (th : Thread) (a : Act) (hw : WInv s)
    (hth : s.thr[t]? = some th) (hpc : th.pc = .bCall) (h : stepTh cfg s t th a = some s') (hinv : Inv s') : WInv s' := by
  obtain ⟨l, rfl⟩ := row_bCall cfg s s' t th a hpc h
  refine winv_upd _ _ _ _ _ hw rfl hth hinv ?m1 ?m2 ?m3 ?hwg ?hinf ?hnp ?hsnap ?hadd ?hown
  case m1 => intro x; simp
  case m2 => intro x; simp [eterm, entered, hpc, List.count_append]
  case m3 => intro x; simp [List.count_append]
  case hwg => simp [e01, entered, hpc]
  case hinf => simp [l01, limbo, cmd01, hpc]
  case hnp => simp
  case hsnap => intro x; have := hw.snapLe _ _ hth x; simpa using this
  case hadd => intro x; simp
  case hown => left; simp [phase, hpc]

theorem winv_bDone (cfg : Cfg) (s s' : St) (t : Nat) (th : Thread) (a : Act) (hw : WInv s)
    (hth : s.thr[t]? = some th) (hpc : th.pc = .bDone) (h : stepTh cfg s t th a = some s') (hinv : Inv s') : WInv s' := by
  obtain ⟨hwg0, rfl⟩ := row_bDone cfg s s' t th a hpc h
  have hreg : th.reg = [] := hw.inv.empty t th hth (by simp [hpc, holds])
  refine winv_upd _ _ _ _ _ hw rfl hth hinv ?m1 ?m2 ?m3 ?hwg ?hinf ?hnp ?hsnap ?hadd ?hown
  case m1 => intro x; simp
  case m2 => intro x; simp [eterm, hreg]
  case m3 => intro x; simp
  case hwg => simp [e01, entered, hpc]; omega
  case hinf => simp [l01, limbo, cmd01, hpc]
  case hnp => simp
  case hsnap => intro x; have := hw.snapLe _ _ hth x; simpa using this
  case hadd => intro x; simp
  case hown => left; simp [phase, hpc]

theorem winv_bConfirm (cfg : Cfg) (s s' : St) (t : Nat) (th : Thread) (a : Act) (hw : WInv s)
    (hth : s.thr[t]? = some th) (hpc : th.pc = .bConfirm) (h : stepTh cfg s t th a = some s') (hinv : Inv s') : WInv s' := by
  obtain ⟨u, tu, hu, hpu, rfl⟩ := row_bConfirm cfg s s' t th a hpc h
  have hinv1 : Inv (s.upd t { th with pc := .bExec }) :=
    inv_upd s t th _ hth (by intro x; have := hw.inv.cons x; simp; omega) hw.inv.empty (by simp [holds])
  have hw1 : WInv (s.upd t { th with pc := .bExec }) := by
    wrow hw hth hinv1 hpc
  have hne : t ≠ u := by
    rintro rfl; rw [hth] at hu; cases hu; rw [hpc] at hpu; cases hpu
  have hu' : (s.upd t { th with pc := .bExec }).thr[u]? = some tu := by
    rw [getElem?_upd]; simp [hne, hu]
  wrow hw1 hu' hinv hpu

theorem winv_stepTh (cfg : Cfg) (hfix : cfg.fixed = true) (s s' : St) (t : Nat) (th : Thread) (a : Act) (hw : WInv s)
    (hth : s.thr[t]? = some th) (h : stepTh cfg s t th a = some s') (hinv : Inv s') : WInv s' := by
  cases hpc : th.pc with
  | idle => exact winv_idle cfg s s' t th a hw hth hpc h hinv
  | aLock x => exact winv_aLock cfg s s' t th a x hw hth hpc h hinv
  | aAdd x => exact winv_aAdd cfg s s' t th a x hw hth hpc h hinv
  | aInc => exact winv_aInc cfg s s' t th a hw hth hpc h hinv
  | aRemove => exact winv_aRemove cfg s s' t th a hw hth hpc h hinv
  | aGuard ok => exact winv_aGuard cfg s s' t th a ok hw hth hpc h hinv
  | aUnlock ok sp => exact winv_aUnlock cfg s s' t th a ok sp hw hth hpc h hinv
  | aSpawn ok => exact winv_aSpawn cfg s s' t th a ok hw hth hpc h hinv
  | aSend => exact winv_aSend cfg s s' t th a hw hth hpc h hinv
  | aConfirm => exact (row_aConfirm cfg s s' t th a hpc h).elim
  | fEnter c => exact winv_fEnter cfg s s' t th a c hw hth hpc h hinv
  | fLock c => exact winv_fLock cfg s s' t th a c hw hth hpc h hinv
  | fRemove c => exact winv_fRemove cfg s s' t th a c hw hth hpc h hinv
  | fUnlock c => exact winv_fUnlock cfg s s' t th a c hw hth hpc h hinv
  | fExec c => exact winv_fExec cfg s s' t th a c hw hth hpc h hinv
  | fCall c => exact winv_fCall cfg s s' t th a c hw hth hpc h hinv
  | fDone c ok => exact winv_fDone cfg hfix s s' t th a c ok hw hth hpc h hinv
  | wSpin => exact winv_wSpin cfg s s' t th a hw hth hpc h hinv
  | wBarrier => exact winv_wBarrier cfg s s' t th a hw hth hpc h hinv
  | wWait => exact winv_wWait cfg s s' t th a hw hth hpc h hinv
  | wUnbarrier => exact winv_wUnbarrier cfg s s' t th a hw hth hpc h hinv
  | bSelect cm => exact winv_bSelect cfg hfix s s' t th a cm hw hth hpc h hinv
  | bDec => exact absurd hpc (hw.nopinned t th hth).1
  | bEnter => exact absurd hpc (hw.nopinned t th hth).2
  | bEnterF => exact winv_bEnterF cfg s s' t th a hw hth hpc h hinv
  | bDecF => exact winv_bDecF cfg s s' t th a hw hth hpc h hinv
  | bConfirm => exact winv_bConfirm cfg s s' t th a hw hth hpc h hinv
  | bExec => exact winv_bExec cfg s s' t th a hw hth hpc h hinv
  | bCall => exact winv_bCall cfg s s' t th a hw hth hpc h hinv
  | bDone => exact winv_bDone cfg s s' t th a hw hth hpc h hinv
  | bQuit => exact winv_bQuit cfg s s' t th a hw hth hpc h hinv
  | qLock => exact winv_qLock cfg s s' t th a hw hth hpc h hinv
  | qCheck => exact winv_qCheck cfg s s' t th a hw hth hpc h hinv
  | qUnlock stop => exact winv_qUnlock cfg s s' t th a stop hw hth hpc h hinv

/-- **the Wait invariant is inductive**: every row of the step table of the fixed code preserves it -/
theorem winv_step (cfg : Cfg) (hfix : cfg.fixed = true) (s s' : St) (t : Nat) (a : Act) (hw : WInv s)
    (h : step cfg s t a = some s') : WInv s' := by
  have hinv' : Inv s' := inv_step cfg s s' t a hw.inv h
  unfold step at h
  split at h
  · simp at h; subst h
    exact ⟨hinv', hw.wg, hw.infl, hw.nopinned, hw.snapLe, hw.ph⟩
  · split at h
    · simp at h
    · rename_i th hth
      exact winv_stepTh cfg hfix s s' t th a hw hth h hinv'

theorem winv_reachable {cfg : Cfg} (hfix : cfg.fixed = true) {s : St} (h : Reachable cfg s) : WInv s := by
  induction h with
  | init n => exact winv_init n
  | step t a _ hs ih => exact winv_step cfg hfix _ _ t a ih hs

end GoZero.C11
