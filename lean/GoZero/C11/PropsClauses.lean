/-
C11 — the "when" clauses of the property, composed per trigger from call site to callback (property theorems):
the statement says every accepted task is executed "when the size threshold is reached, on the periodic flush,
on an explicit Flush, or at the latest by Wait".  Each trigger is a path  call site → Flush/addAndCheck → container
→ hands of the goroutine → callback;  the theorems below state, for every configuration (no reachability needed),
that the path takes the WHOLE container; together with `no_loss_no_dup` (Props.lean: what is in a goroutine's hands
is never lost or duplicated) and `wait_covers_prior_adds` this is the clause map of props/C11.json.
-/
import GoZero.C11.Proofs
namespace GoZero.C11

theorem step_tau_of {cfg : Cfg} {s : St} {t : Nat} {th : Thread} (ht : s.thr[t]? = some th) :
    step cfg s t .tau = stepTh cfg s t th .tau := by simp [step, ht]

theorem upd_get {s : St} {t : Nat} {th : Thread} (ht : s.thr[t]? = some th) (th' : Thread) :
    (s.upd t th').thr[t]? = some th' := by
  have hlen : t < s.thr.length := by
    rcases Nat.lt_or_ge t s.thr.length with h | h
    · exact h
    · simp [List.getElem?_eq_none h] at ht
  rw [getElem?_upd]; simp [hlen]

/-- **threshold clause, call site → container → hand-over**: when `AddTask` says the threshold is reached, the same
critical section takes the WHOLE container (old tasks and the new one) into the producer's hands and counts it in
`inflight`; the container is empty afterwards. -/
theorem threshold_add_takes_batch (cfg : Cfg) (s : St) (t : Nat) (th : Thread) (x : Task)
    (ht : s.thr[t]? = some th) (hpc : th.pc = .aAdd x) (hfull : cfg.full (s.container ++ [x]) = true) :
    ∃ s', run cfg s [(t, .tau), (t, .tau), (t, .tau)] = some s' ∧ s'.container = [] ∧
      s'.inflight = s.inflight + 1 ∧ s'.added = s.added ++ [x] ∧
      ∃ th', s'.thr[t]? = some th' ∧ th'.pc = .aGuard true ∧ th'.reg = s.container ++ [x] := by
  let s0 : St := { s with container := s.container ++ [x], added := s.added ++ [x] }
  let th1 : Thread := { th with pc := .aInc }
  have h1 : step cfg s t .tau = some (s0.upd t th1) := by
    rw [step_tau_of ht]; unfold stepTh; simp [hpc, hfull, s0, th1]
  have g1 : (s0.upd t th1).thr[t]? = some th1 := upd_get (s := s0) ht th1
  let s1 : St := { (s0.upd t th1) with inflight := s.inflight + 1 }
  let th2 : Thread := { th1 with pc := .aRemove }
  have h2 : step cfg (s0.upd t th1) t .tau = some (s1.upd t th2) := by
    rw [step_tau_of g1]; unfold stepTh; simp [th1, th2, s1, s0, St.upd]
  have g2 : (s1.upd t th2).thr[t]? = some th2 := upd_get (s := s1) g1 th2
  let s2 : St := { (s1.upd t th2) with container := [] }
  let th3 : Thread := { th2 with pc := .aGuard true, reg := s.container ++ [x] }
  have h3 : step cfg (s1.upd t th2) t .tau = some (s2.upd t th3) := by
    rw [step_tau_of g2]; unfold stepTh; simp [th1, th2, th3, s1, s2, s0, St.upd]
  have g3 : (s2.upd t th3).thr[t]? = some th3 := upd_get (s := s2) g2 th3
  refine ⟨s2.upd t th3, ?_, rfl, rfl, rfl, th3, g3, rfl, rfl⟩
  simp only [run, h1, h2, h3]

/-- **periodic flush / explicit Flush / Wait / quit-time flush, call site → container → callback**: a `Flush` in ANY
context (`c` = ext: a caller's Flush, tick: the flusher's periodic flush, wait: the Flush inside Wait, quit: the
deferred Flush of a quitting flusher) that has the lock takes the WHOLE container into its hands, leaves it empty,
and — when there is something — goes to the callback with exactly those tasks. -/
theorem flush_takes_all_pending (cfg : Cfg) (s : St) (t : Nat) (th : Thread) (c : Ctx)
    (ht : s.thr[t]? = some th) (hpc : th.pc = .fRemove c) :
    ∃ s', run cfg s [(t, .tau), (t, .tau), (t, .tau)] = some s' ∧ s'.container = [] ∧ s'.lock = false ∧
      ∃ th', s'.thr[t]? = some th' ∧ th'.reg = s.container ∧
        th'.pc = (if s.container = [] then .fDone c false else .fCall c) := by
  let th1 : Thread := { th with pc := .fUnlock c, reg := s.container }
  let s0 : St := { s with container := [] }
  have h1 : step cfg s t .tau = some (s0.upd t th1) := by
    rw [step_tau_of ht]; unfold stepTh; simp [hpc, s0, th1]
  have g1 : (s0.upd t th1).thr[t]? = some th1 := upd_get (s := s0) ht th1
  let s1 : St := { (s0.upd t th1) with lock := false }
  let th2 : Thread := { th1 with pc := .fExec c }
  have h2 : step cfg (s0.upd t th1) t .tau = some (s1.upd t th2) := by
    rw [step_tau_of g1]; unfold stepTh; simp [th1, th2, s1, s0, St.upd]
  have g2 : (s1.upd t th2).thr[t]? = some th2 := upd_get (s := s1) g1 th2
  let th3 : Thread := { th2 with pc := if s.container = [] then .fDone c false else .fCall c }
  have h3 : step cfg (s1.upd t th2) t .tau = some (s1.upd t th2 |>.upd t th3) := by
    rw [step_tau_of g2]; unfold stepTh; simp [th1, th2, th3]
  have g3 : ((s1.upd t th2).upd t th3).thr[t]? = some th3 := upd_get g2 th3
  refine ⟨(s1.upd t th2).upd t th3, ?_, rfl, rfl, th3, g3, rfl, rfl⟩
  simp only [run, h1, h2, h3]

/-- **every trigger is a Flush**: the ticker case of the flusher's select (unless the previous round was a commanded
batch: then it only clears the flag), a caller's `Flush`, `Wait` (which first remembers what was added before it),
and the quitting flusher all enter `Flush` (`fEnter c`), whose rows are the ones of `flush_takes_all_pending` -/
theorem every_trigger_calls_flush (cfg : Cfg) (s : St) (t : Nat) (th : Thread) (ht : s.thr[t]? = some th) :
    (th.pc = .bSelect false → step cfg s t .tick = some (s.upd t { th with pc := .fEnter .tick })) ∧
    (th.pc = .bSelect true → step cfg s t .tick = some (s.upd t { th with pc := .bSelect false })) ∧
    (th.pc = .idle → step cfg s t .flush = some (s.upd t { th with pc := .fEnter .ext })) ∧
    (th.pc = .idle → step cfg s t .wait = some (s.upd t { th with pc := .fEnter .wait, snap := s.added })) ∧
    (th.pc = .qUnlock true → step cfg s t .tau = some ({ s with lock := false }.upd t { th with pc := .fEnter .quit })) := by
  refine ⟨?_, ?_, ?_, ?_, ?_⟩ <;> intro hpc <;> simp [step, ht, stepTh, hpc]

/-- non-vacuity: bulk threshold 2, task 1 in the container, caller 0 inside `AddTask(2)` with the lock -/
example : ∃ s', run { full := bulkFull 2 } { thr := [{ pc := .aAdd 2 }], container := [1], lock := true, added := [1] }
    [(0, .tau), (0, .tau), (0, .tau)] = some s' ∧ s'.container = [] ∧ s'.inflight = 1 ∧
    s'.thr[0]?.map (·.reg) = some [1, 2] := by decide

/-- non-vacuity: a tick flush with two pending tasks goes to the callback with both -/
example : ∃ s', run { full := bulkFull 5 } { thr := [{ pc := .fRemove .tick }], container := [1, 2], lock := true, wg := 1 }
    [(0, .tau), (0, .tau), (0, .tau)] = some s' ∧ s'.container = [] ∧
    s'.thr[0]? = some { pc := .fCall .tick, reg := [1, 2] } := by decide

end GoZero.C11
