/-
C11 — the property read literally, as an executable monitor over the implementation's own history
(core Lean only).  The history is what the harness observed at every quiescent point: which caller has
returned, and which tasks' callbacks ended during the operation.

  * exactly once:  no task is handed to the callback twice; only added tasks are; at the end of a
    section (after a final Wait) every task ever passed to Add has been handed to the callback;
  * Wait covers prior adds:  when a `Wait` returns, every task whose `Add` had returned before that
    `Wait` was called has had its callback end;
  * nothing blocks for ever: at the end of a section (all callbacks and holds released, final Wait issued) every
    `Add` and every `Wait` has returned — a lost hand-over shows up as `Add`/`Wait` parked for good;
  * a panicking callback loses only its own batch: the tasks of every other batch still reach the
    callback (same final multiset equation; the harness records a batch before it panics).
-/
import GoZero.C11.Model
namespace GoZero.C11.Spec
open GoZero.C11

structure Mon where
  issued   : List Task := []              -- tasks passed to Add so far
  pending  : List (Nat × Task) := []      -- caller ↦ the task of its Add that has not returned yet
  returned : List Task := []              -- tasks whose Add has returned
  waits    : List (Nat × List Task) := [] -- caller ↦ `returned` when its Wait was called
  fin      : List Task := []              -- tasks whose callback has ended
  deriving Repr

inductive Call | add (w : Nat) (x : Task) | wait (w : Nat) | other
  deriving Repr

/-- one observed line: the call issued (if any), who is idle afterwards, which callbacks ended; `endsAt w` =
the callbacks of this line that had ended when the `Wait` of caller `w` returned (all of them if the harness
gave no order) -/
def Mon.step (m : Mon) (call : Call) (idle : Nat → Bool) (nf : List Task)
    (endsAt : Nat → List Task := fun _ => nf) : Mon × List String :=
  let dupMsgs := nf.filterMap fun x =>
    if m.fin.contains x || decide (nf.count x > 1) then some s!"task {x} handed to the callback twice"
    else if !(m.issued.contains x) && (match call with | .add _ y => y != x | _ => true) then
      some s!"task {x} reached the callback but was never added" else none
  let fin := m.fin ++ nf
  let m1 : Mon := match call with
    | .add w x => { m with issued := m.issued ++ [x], pending := m.pending ++ [(w, x)] }
    | .wait w => { m with waits := m.waits ++ [(w, m.returned)] }
    | .other => m
  let done := m1.pending.filter fun p => idle p.1
  let waitMsgs := (m1.waits.filter fun p => idle p.1).flatMap fun p =>
    (p.2.filter fun x => ¬ (m.fin ++ endsAt p.1).contains x).map fun x =>
      s!"Wait of caller {p.1} returned before the callback of task {x} ended (its Add had returned before the Wait)"
  ({ m1 with fin := fin, returned := m1.returned ++ done.map (·.2),
             pending := m1.pending.filter fun p => ¬ idle p.1,
             waits := m1.waits.filter fun p => ¬ idle p.1 }, dupMsgs ++ waitMsgs)

/-- the callback looked at its batch again when it ended (`firsts` = first tasks of the batches that showed other
tasks than when the callback began): a batch handed to the callback is the callback's — no later `Add` may write
into it (Props: `returned_batch_not_aliased`) -/
def Mon.mutated (firsts : List Task) : List String :=
  firsts.map fun x =>
    s!"the batch starting with task {x} was changed while its callback was running (a later Add wrote into the slice that RemoveAll had handed out): its tasks are not passed to the callback exactly once, tasks of a later batch are seen twice"

/-- end of a section: every added task has been executed exactly once -/
def Mon.final (m : Mon) (all : List Task) : List String :=
  (m.issued.filter fun x => all.count x ≠ 1).map fun x =>
    if all.count x = 0 then s!"task {x} accepted by Add was never executed (not handed to the callback by the end of the final Wait)"
    else s!"task {x} was handed to the callback {all.count x} times by the end (added once)"

/-- end of a section, after every callback and every hold was released and a final `Wait` was issued by caller
`drainer`: a caller that is still inside `Add` / `Wait` will never return (`cls` = where it is parked) -/
def Mon.stuckAtEnd (m : Mon) (cls : Nat → String) (drainer : Nat) : List String :=
  (m.pending.map fun p => s!"Add({p.2}) of caller {p.1} never returns: parked at '{cls p.1}' although nothing is left to wait for") ++
  (m.waits.map fun p => s!"Wait never returns: caller {p.1} parked at '{cls p.1}' although every callback has ended") ++
  (if cls drainer ≠ "idle" then [s!"Wait never returns: the final Wait (caller {drainer}) is parked at '{cls drainer}' although every callback has ended"] else [])

end GoZero.C11.Spec
