/-
C11 — property theorems over the WHOLE configuration space of the public API: every option list passed to
`NewBulkExecutor` / `NewChunkExecutor` (none, one kind only, repeated, in any order, zero / negative values), every
declared-size function of `ChunkExecutor.Add`, every schedule, any number of goroutines.
-/
import GoZero.C11.Api
import GoZero.C11.Props
namespace GoZero.C11

theorem bulk_foldl_tasks (opts : List BulkOpt) (o : BulkOptions) :
    (opts.foldl BulkOpt.apply o).cachedTasks = lastTasks o.cachedTasks opts ∧
    (opts.foldl BulkOpt.apply o).flushInterval = lastBulkInterval o.flushInterval opts := by
  induction opts generalizing o with
  | nil => exact ⟨rfl, rfl⟩
  | cons a rest ih =>
    cases a with
    | tasks n => simpa [List.foldl, BulkOpt.apply, lastTasks, lastBulkInterval] using ih { o with cachedTasks := n }
    | interval d => simpa [List.foldl, BulkOpt.apply, lastTasks, lastBulkInterval] using ih { o with flushInterval := d }

theorem chunk_foldl_bytes (opts : List ChunkOpt) (o : ChunkOptions) :
    (opts.foldl ChunkOpt.apply o).chunkSize = lastBytes o.chunkSize opts ∧
    (opts.foldl ChunkOpt.apply o).flushInterval = lastChunkInterval o.flushInterval opts := by
  induction opts generalizing o with
  | nil => exact ⟨rfl, rfl⟩
  | cons a rest ih =>
    cases a with
    | bytes n => simpa [List.foldl, ChunkOpt.apply, lastBytes, lastChunkInterval] using ih { o with chunkSize := n }
    | interval d => simpa [List.foldl, ChunkOpt.apply, lastBytes, lastChunkInterval] using ih { o with flushInterval := d }

/-- **the thresholds and intervals in force are the ones the caller configured**, for EVERY option list: the last
`WithBulkTasks` / `WithChunkBytes` (resp. interval option) wins, and without one the package default (1000 tasks,
1 MiB, 1 s) is in force; options of the other kind never disturb it. -/
theorem constructor_applies_options (bo : List BulkOpt) (co : List ChunkOpt) :
    (newBulkExecutor bo).threshold = lastTasks 1000 bo ∧
    (newBulkExecutor bo).interval = lastBulkInterval 1000000000 bo ∧
    (newChunkExecutor co).threshold = lastBytes 1048576 co ∧
    (newChunkExecutor co).interval = lastChunkInterval 1000000000 co ∧
    (newBulkExecutor bo).chunk = false ∧ (newChunkExecutor co).chunk = true :=
  ⟨(bulk_foldl_tasks bo newBulkOptions).1, (bulk_foldl_tasks bo newBulkOptions).2,
   (chunk_foldl_bytes co newChunkOptions).1, (chunk_foldl_bytes co newChunkOptions).2, rfl, rfl⟩

/-- an option appended to any list is the one in force; an option of the other kind appended changes nothing -/
theorem last_option_wins (bo : List BulkOpt) (co : List ChunkOpt) (n d : Int) :
    (newBulkExecutor (bo ++ [.tasks n])).threshold = n ∧
    (newBulkExecutor (bo ++ [.interval d])).threshold = (newBulkExecutor bo).threshold ∧
    (newBulkExecutor (bo ++ [.interval d])).interval = d ∧
    (newChunkExecutor (co ++ [.bytes n])).threshold = n ∧
    (newChunkExecutor (co ++ [.interval d])).threshold = (newChunkExecutor co).threshold ∧
    (newChunkExecutor (co ++ [.interval d])).interval = d := by
  simp [newBulkExecutor, newChunkExecutor, List.foldl_append, BulkOpt.apply, ChunkOpt.apply]

/-- the threshold test of the executor a constructor builds, read on the pending tasks: count (bulk) or sum of the
declared sizes (chunk) against the configured threshold — for every option list -/
theorem built_threshold_meaning (bo : List BulkOpt) (co : List ChunkOpt) (size : Task → Int) (l : List Task) :
    (((newBulkExecutor bo).cfg size).full l = true ↔ (l.length : Int) ≥ lastTasks 1000 bo) ∧
    (((newChunkExecutor co).cfg size).full l = true ↔ (l.map size).sum ≥ lastBytes 1048576 co) := by
  have h := constructor_applies_options bo co
  constructor
  · simp [Executor.cfg, h.2.2.2.2.1, bulkFull, h.1]
  · simp [Executor.cfg, h.2.2.2.2.2, chunkFull, h.2.2.1]

/-- every executor a public constructor can build -/
inductive Built : Executor → Prop
  | bulk (opts : List BulkOpt) : Built (newBulkExecutor opts)
  | chunk (opts : List ChunkOpt) : Built (newChunkExecutor opts)

/-- **END TO END over the whole public configuration space**: for every executor built by `NewBulkExecutor` /
`NewChunkExecutor` with ANY option list, every declared-size function, every schedule of Add / Flush / Wait callers,
ticks, clock advances, flusher quit / restart and returning or panicking callbacks, and any number of goroutines:
(1) every accepted task is in exactly one place (container, commander, one goroutine's hands, finished) — never
lost, never duplicated; (2) goroutines hold tasks only between taking a batch and the end of its callback;
(3) a `Wait` that is back from `waitGroup.Wait()` has seen the callback of every task accepted before it was called
end. -/
theorem public_api_exactly_once (e : Executor) (_hb : Built e) (size : Task → Int) (s : St)
    (h : Reachable (e.cfg size) s) :
    (∀ x, s.added.count x = s.container.count x + inCommander x s + inHands x s + s.finished.count x) ∧
    (∀ (t : Nat) (th : Thread), s.thr[t]? = some th → holds th.pc = false → th.reg = []) ∧
    (∀ (t : Nat) (th : Thread), s.thr[t]? = some th → th.pc = .wUnbarrier → ∀ x, th.snap.count x ≤ s.finished.count x) :=
  ⟨no_loss_no_dup _ s h, hands_empty_outside_execution _ s h,
   fun t th ht hpc x => wait_covers_prior_adds _ rfl s h t th ht hpc x⟩

/-- the public entry points are the model's actions with the same arguments: a call from an idle goroutine is
enabled and enters the row of the PeriodicalExecutor's method (the wrappers only delegate) -/
theorem api_call_enters_executor (cfg : Cfg) (s : St) (t : Nat) (th : Thread) (ht : s.thr[t]? = some th)
    (hidle : th.pc = .idle) (c : ApiCall) :
    step cfg s t c.act = some (s.upd t (match c with
      | .add x => { th with pc := .aLock x }
      | .flush => { th with pc := .fEnter .ext }
      | .wait => { th with pc := .fEnter .wait, snap := s.added })) := by
  cases c <;> simp [ApiCall.act, step, ht, stepTh, hidle]

/-! ### non-vacuity -/

/-- options in any order, repeated, negative: `WithBulkInterval(5), WithBulkTasks(7), WithBulkTasks(-2), WithBulkInterval(0)` -/
example : newBulkExecutor [.interval 5, .tasks 7, .tasks (-2), .interval 0] = { chunk := false, threshold := -2, interval := 0 } := by
  decide

example : newBulkExecutor [] = { chunk := false, threshold := 1000, interval := 1000000000 } := by decide
example : newChunkExecutor [.interval 3] = { chunk := true, threshold := 1048576, interval := 3 } := by decide

/-- `public_api_exactly_once` is not vacuous: an executor built with `WithBulkTasks(2)` reaches a state in which
a Wait is back with a non-empty snapshot (the schedule of Props.lean) -/
example : ∃ s th, Reachable ((newBulkExecutor [.tasks 5, .tasks 2]).cfg (fun _ => 0)) s ∧ s.thr[1]? = some th ∧
    th.pc = .wUnbarrier ∧ th.snap = [1] ∧ s.finished = [1] := by
  have hr : ∃ s, run ((newBulkExecutor [.tasks 5, .tasks 2]).cfg (fun _ => 0)) (init 3) waitSchedule = some s ∧
      ∃ th, s.thr[1]? = some th ∧ th.pc = .wUnbarrier ∧ th.snap = [1] ∧ s.finished = [1] := by decide
  obtain ⟨s, h1, th, h2⟩ := hr
  exact ⟨s, th, reachable_run (Reachable.init 3) _ h1, h2⟩

example : Built (newChunkExecutor [.bytes 0, .interval (-1)]) := Built.chunk _

end GoZero.C11
