/-
C11 — driver: replays an implementation history through
  (a) the monitor of Spec.lean (the property on the implementation's own observations → MONITOR), and
  (b) the small-step model (trace inclusion → MISMATCH): it keeps the set of model configurations that
      explain every observation so far; per line it applies the harness action, closes under the
      internal actions of all goroutines (every interleaving) up to quiescence, and keeps the quiescent
      configurations whose visible state equals the observed one.  An empty set = the model cannot
      explain what the code did.

cfg:  kind=bulk|chunk max=<n> iv=<interval> P=<callers> gate=0|1 pm=<k>
ops:  add <w> <x> | flush <w> | wait <w> | tick | rel <first task of batch> ok|panic | t+ <d> | drain
obs:  [d=0|1] w=<class per caller> fl=<sorted classes of flushers> c=<container> cmd=<len> inf=<inflight>
      g=<guarded> cb=<batches inside the callback> nf=<tasks whose callback ended> [all=<…>]   | skip
-/
import GoZero.Base.Trace
import GoZero.C11.Spec
namespace GoZero.C11

open GoZero

structure DCfg where
  cfg  : Cfg
  P    : Nat
  auto : Bool      -- callbacks are not gated: they end by themselves
  pm   : Nat       -- ungated callbacks panic iff first task % pm = 3

def chunkSize (x : Task) : Nat := x % 3 + 1

def classOf : Pc → String
  | .idle => "idle" | .aSend => "send" | .aConfirm => "confirm"
  | .fEnter _ => "enter" | .bEnter => "enter" | .bEnterF => "enter"
  | .wBarrier => "wbar" | .wWait => "wgwait" | .wSpin => "spin"
  | .fCall _ => "cb" | .bCall => "cb" | .bSelect _ => "select" | .bConfirm => "bconfirm"
  | _ => "moving"

def inCallback (pc : Pc) : Bool := match pc with | .fCall _ => true | .bCall => true | _ => false

def firstIdleFrom (s : St) (from_ : Nat) : Option Nat :=
  (List.range s.thr.length).find? fun t => t ≥ from_ ∧ (s.thr[t]?.map (·.pc)) = some Pc.idle

/-- the ghost lists `finished` / `lost` are used as multisets only: keep them sorted so that interleavings
that differ only in the order of callback ends are one configuration -/
def normGhost (s : St) : St := { s with finished := sortNat s.finished, lost := sortNat s.lost }

/-- all successors by internal actions (what the goroutines do by themselves) -/
def internalSucc (d : DCfg) (relAll : Bool) (s : St) : List St :=
  let idxs := List.range s.thr.length
  idxs.flatMap fun t =>
    match s.thr[t]? with
    | none => []
    | some th =>
      let taus := (step d.cfg s t .tau).toList
      let starts := if s.spawn > 0 ∧ firstIdleFrom s (d.P + 1) = some t then (step d.cfg s t .start).toList else []
      let confs := if th.pc = .bConfirm then idxs.filterMap (fun u => step d.cfg s t (.confirm u)) else []
      let cbs :=
        if inCallback th.pc then
          if d.auto then (step d.cfg s t (.cbEnd (d.pm > 0 ∧ th.reg.headD 0 % d.pm = 3))).toList
          else if relAll then (step d.cfg s t (.cbEnd false)).toList else []
        else []
      (taus ++ starts ++ confs ++ cbs).map normGhost

/-- worklist closure up to quiescence; returns (quiescent states, fuel exhausted) -/
def closure (succ : St → List St) : Nat → List St → List St → List St → List St × Bool
  | 0, wl, _, out => (out, !wl.isEmpty)
  | _ + 1, [], _, out => (out, false)
  | fuel + 1, s :: wl, vis, out =>
    if vis.contains s then closure succ fuel wl vis out
    else
      let nx := succ s
      if nx.isEmpty then closure succ fuel wl (s :: vis) (s :: out)
      else closure succ fuel (nx ++ wl) (s :: vis) out

def showList (sep : String) (l : List Nat) : String :=
  if l.isEmpty then "-" else sep.intercalate (l.map toString)

def insertStr (x : String) : List String → List String
  | [] => [x]
  | y :: ys => if x ≤ y then x :: y :: ys else y :: insertStr x ys

def sortStr (l : List String) : List String := l.foldr insertStr []

/-- the visible part of a quiescent configuration, printed like the harness prints it -/
def visible (d : DCfg) (finSeen : List Nat) (s : St) : String :=
  let ws := (s.thr.take (d.P + 1)).map fun th => classOf th.pc
  let fls := sortStr (((s.thr.drop (d.P + 1)).filter fun th => th.pc ≠ .idle).map fun th => classOf th.pc)
  let cbs := sortStr ((s.thr.filter fun th => inCallback th.pc).map fun th => showList "." th.reg)
  let nf := sortNat (s.finished.filter fun x => !finSeen.contains x)
  s!"w={",".intercalate ws} fl={if fls.isEmpty then "-" else ",".intercalate fls} c={showList "," s.container} " ++
  s!"cmd={if s.commander.isSome then 1 else 0} inf={s.inflight} g={if s.guarded then 1 else 0} " ++
  s!"cb={if cbs.isEmpty then "-" else ";".intercalate cbs} nf={showList "," nf}"

def parseNats (s : String) : List Nat :=
  if s = "-" then [] else (s.splitOn ",").filterMap String.toNat?

def dedupSt (l : List St) : List St := l.foldl (fun acc s => if acc.contains s then acc else s :: acc) []

def dedup (l : List St) : List St := l.foldl (fun acc s => if acc.contains s then acc else s :: acc) []

structure DState where
  states : List St
  finSeen : List Nat := []
  mon    : Spec.Mon := {}
  dead   : Bool := false     -- the model lost track in this section (already reported)

def fuel : Nat := 200000

/-- end every callback that is running in `s` (the harness releases all gated callbacks at a quiescent point) -/
def releaseAll (d : DCfg) (s : St) : St :=
  (List.range s.thr.length).foldl (fun acc t =>
    match acc.thr[t]? with
    | some th => if inCallback th.pc then ((step d.cfg acc t (.cbEnd false)).map normGhost).getD acc else acc
    | none => acc) s

def anyCallback (s : St) : Bool := s.thr.any fun th => inCallback th.pc

/-- what the harness's `drain` does: run to quiescence, release every gated callback, repeat -/
def drainRounds (d : DCfg) : Nat → List St → List St × Bool
  | 0, ss => (ss, true)
  | n + 1, ss =>
    let (q, ex) := closure (internalSucc d false) fuel ss [] []
    if ex then (q, true)
    else if q.any anyCallback then drainRounds d n (dedupSt (q.map fun s => if anyCallback s then releaseAll d s else s))
    else (q, false)

/-- apply the harness action of one line to one configuration: `none` = the model says "skip" -/
def applyOp (d : DCfg) (s : St) : List String → Option (List St × Bool × String)
  | ["add", w, x] => do
    let w ← w.toNat?; let x ← x.toNat?
    if w ≥ d.P then none else
    let s' ← step d.cfg s w (.add x)
    let (q, ex) := closure (internalSucc d false) fuel [s'] [] []
    pure (q, ex, "")
  | ["flush", w] => do
    let w ← w.toNat?
    if w ≥ d.P then none else
    let s' ← step d.cfg s w .flush
    let (q, ex) := closure (internalSucc d false) fuel [s'] [] []
    pure (q, ex, "")
  | ["wait", w] => do
    let w ← w.toNat?
    if w ≥ d.P then none else
    let s' ← step d.cfg s w .wait
    let (q, ex) := closure (internalSucc d false) fuel [s'] [] []
    pure (q, ex, "")
  | ["tick"] =>
    match (List.range s.thr.length).find? fun t => (s.thr[t]?.map fun th => classOf th.pc) = some "select" with
    | none => some ([s], false, "d=0 ")
    | some t => do
      let s' ← step d.cfg s t .tick
      let (q, ex) := closure (internalSucc d false) fuel [s'] [] []
      pure (q, ex, "d=1 ")
  | ["rel", x, how] => do
    let x ← x.toNat?
    let t ← (List.range s.thr.length).find? fun t =>
      match s.thr[t]? with
      | some th => inCallback th.pc && th.reg.head? == some x
      | none => false
    if d.auto then none else
    let s' ← (step d.cfg s t (.cbEnd (how = "panic"))).map normGhost
    let (q, ex) := closure (internalSucc d false) fuel [s'] [] []
    pure (q, ex, "")
  | ["t+", n] => do
    let n ← n.toNat?
    let s' ← step d.cfg s 0 (.advance n)
    pure ([s'], false, "")
  | ["drain"] => do
    let (q1, ex1) := drainRounds d 64 [s]
    let q1w := q1.filterMap fun s1 => step d.cfg s1 d.P .wait
    let (q2, ex2) := drainRounds d 64 q1w
    pure (q2, ex1 || ex2, "")
  | _ => none

def mkCfg (cfgToks : List String) : DCfg :=
  let max := kvInt cfgToks "max" 2
  let full := if kvStr cfgToks "kind" "bulk" = "chunk" then chunkFull chunkSize max else bulkFull max
  { cfg := { full := full, interval := kvNat cfgToks "iv" 10, fixed := true },
    P := kvNat cfgToks "P" 1, auto := kvNat cfgToks "gate" 0 = 0, pm := kvNat cfgToks "pm" 0 }

def callOf : List String → Spec.Call
  | ["add", w, x] => match w.toNat?, x.toNat? with
    | some w, some x => .add w x
    | _, _ => .other
  | ["wait", w] => match w.toNat? with
    | some w => .wait w
    | none => .other
  | _ => .other

def runLine (d : DCfg) (sec : Nat) (acc : Report × DState) (l : Line) : Report × DState := Id.run do
  let (r0, ds0) := acc
  let mut r := { r0 with ops := r0.ops + 1 }
  let mut ds := ds0
  let impl := joinSp l.obs
  r := r.addCover ("op-" ++ l.op.headD "?")
  if impl.startsWith "TIMEOUT" ∨ impl.startsWith "PANIC" ∨ impl = "bad-op" then
    r := r.mismatch sec l.idx "a quiescent observation" impl
    return (r, { ds with dead := true })
  -- (a) the monitor, on the implementation's observation alone
  if impl ≠ "skip" then
    let ws := ((kvStr l.obs "w" "").splitOn ",")
    let idle := fun (w : Nat) => ws[w]? = some "idle"
    let nf := parseNats (kvStr l.obs "nf" "-")
    let (m', msgs) := ds.mon.step (callOf l.op) idle nf
    for msg in msgs do r := r.violation sec l.idx msg
    ds := { ds with mon := m' }
    for c in ws do r := r.addCover ("caller-" ++ c)
    for c in (kvStr l.obs "fl" "-").splitOn "," do r := r.addCover ("flusher-" ++ c)
    if l.op = ["drain"] then
      let all := parseNats (kvStr l.obs "all" "-")
      for msg in ds.mon.final all do r := r.violation sec l.idx msg
      if kvStr l.obs "c" "-" ≠ "-" then r := r.violation sec l.idx s!"tasks left in the container after the final Wait: {kvStr l.obs "c" "-"}"
      if nf.length > 0 then r := r.addCover "drain-executed" nf.length
    if kvStr l.obs "g" "1" = "0" ∧ ds.mon.issued.length > 0 then r := r.addCover "flusher-has-quit"
    if ws.contains "spin" then r := r.addCover "wait-spins-on-inflight"
  else r := r.addCover "skip"
  -- (b) trace inclusion in the model
  if ds.dead then return (r, ds)
  let mut next : List St := []
  let mut exhausted := false
  let mut sample := ""
  for s in ds.states do
    match applyOp d s l.op with
    | none =>
      if impl = "skip" then next := s :: next else sample := "skip"
    | some (qs, ex, pre) =>
      exhausted := exhausted || ex
      for q in qs do
        let v := pre ++ visible d ds.finSeen q
        let v := if l.op = ["drain"] then v ++ " all=" ++ showList "," (sortNat q.finished) else v
        if v = impl then next := q :: next else sample := v
  next := dedup next
  if exhausted then
    r := r.mismatch sec l.idx "state space exhausted the driver's fuel" impl
    return (r, { ds with dead := true })
  if next.isEmpty then
    r := r.mismatch sec l.idx sample impl
    return (r, { ds with dead := true })
  if next.length > 1 then r := r.addCover "ambiguous-schedule"
  let nfNow := parseNats (kvStr l.obs "nf" "-")
  -- coverage of model branches
  match next.head? with
  | some q =>
    if q.lost.length > 0 then r := r.addCover "panicked-batch"
    if q.spawn = 0 ∧ q.guarded = false ∧ q.added.length > 0 then r := r.addCover "model-flusher-quit"
  | none => pure ()
  return (r, { ds with states := next, finSeen := if impl = "skip" then ds.finSeen else ds.finSeen ++ nfNow })

def runSection (r : Report) (s : Section) : Report :=
  let d := mkCfg s.cfg
  let r := r.addCover (if d.auto then "section-ungated" else "section-gated")
  let r := r.addCover ("kind-" ++ kvStr s.cfg "kind" "bulk")
  let st0 : DState := { states := [init (d.P + 1 + 4)] }
  (s.lines.foldl (runLine d s.idx) (r, st0)).1

def driver (secs : List Section) : Report := secs.foldl runSection {}

end GoZero.C11
