/-
C11 — driver: replays an implementation history through
  (a) the monitor of Spec.lean (the property on the implementation's own observations → MONITOR), and
  (b) the small-step model (trace inclusion → MISMATCH): it keeps the set of model configurations that
      explain every observation so far; per line it applies the harness action, closes under the
      internal actions of all goroutines (every interleaving) up to quiescence, and keeps the quiescent
      configurations whose visible state equals the observed one.  An empty set = the model cannot
      explain what the code did.

cfg:  kind=bulk|chunk max=<n> iv=<interval> P=<callers> gate=0|1 pm=<k>
ops:  add <w> <x> | flush <w> | wait <w> | tick | rel <first task of batch> ok|panic | t+ <d> | drain
      hold <w> full|notfull|removed|fremoved   arm caller w: it parks INSIDE the critical section (pe.lock held) the
                                               next time it passes that point (AddTask said full / not full,
                                               RemoveAll of addAndCheck done, RemoveAll of Flush done)
      unhold <w>                               disarm and release caller w
      hold bg fremoved | unhold bg             the same for the background flusher(s): parked inside the RemoveAll of
                                               the tick / quit Flush
      hold bg since                            a flusher parks inside timex.Since(last) of shallQuit: after its EMPTY tick Flush,
                                               before the idle check and the lock of the quit decision (model pc `bQuit`)
      hold bg stop                             a flusher that has DECIDED to quit parks in ticker.Stop(): after shallQuit,
                                               before its deferred Flush (model pc `fEnter quit`); skip while armed for the other point
      rel <first> ok|panic|epanic|rpanic       the gated callback returns / panics with a string / an error value / a run-time error
      bhold <w>                                caller w takes pe.wgBarrier and parks inside it (skip if it is taken)
      brel wait|flush|none                     that caller releases it and goes straight on with Wait / Flush / nothing
      (a task is the number 8*id + byte size; only the chunk executor looks at the size)
obs:  [d=0|1] w=<class per caller> fl=<sorted classes of flushers> c=<container> cmd=<len> inf=<inflight>
      g=<guarded> cb=<batches inside the callback> nf=<tasks whose callback ended> [all=<…>]   | skip
      [ends=<callback ends of this line in order> wret=<caller>:<k>,…]   only when a Wait returned in this line: it
                                               returned after the first k of `ends` (monitor only, not compared)
      [mut=<first tasks>]                      batches that showed other tasks when their gated callback looked again at its end (monitor only)
      | stuck moving=<state@frame,…>           the harness watchdog: no quiescence within its bound
-/
import Std.Data.HashSet
import GoZero.Base.Trace
import GoZero.C11.Spec
namespace GoZero.C11

open GoZero

structure DCfg where
  cfg  : Cfg
  P    : Nat
  auto : Bool      -- callbacks are not gated: they end by themselves
  pm   : Nat       -- ungated callbacks panic iff first task % pm = 3

/-- the byte size the harness declares for task x: codes 0..5 are themselves, 6 = a NEGATIVE size (-2), 7 = a huge one (2^40) -/
def chunkSize (x : Task) : Int := match x % 8 with | 6 => -2 | 7 => 1099511627776 | k => (k : Int)

def classOf : Pc → String
  | .idle => "idle" | .aSend => "send" | .aConfirm => "confirm"
  | .fEnter _ => "enter" | .bEnter => "enter" | .bEnterF => "enter"
  | .wBarrier => "wbar" | .wWait => "wgwait" | .wSpin => "spin"
  | .aLock _ => "alock" | .fLock _ => "flock" | .qLock => "qlock"
  | .fCall _ => "cb" | .bCall => "cb" | .bSelect _ => "select" | .bConfirm => "bconfirm"
  | _ => "moving"

/-- hold points of the harness's container hook ↦ the pc at which the caller is parked (lock held) -/
def holdPc (pt : String) (pc : Pc) : Bool :=
  match pt, pc with
  | "full", .aInc => true
  | "notfull", .aGuard false => true
  | "removed", .aGuard true => true
  | "fremoved", .fUnlock _ => true
  | "since", .bQuit => true            -- timex.Since(last) in shallQuit: after the EMPTY tick Flush, before the idle check / the lock
  | "stop", .fEnter .quit => true      -- ticker.Stop(): the quitting flusher's first deferred call, before its deferred Flush
  | _, _ => false

abbrev Holds := List (Nat × String)

/-- `bgHold` stands for "every background flusher" in the hold list -/
def bgHold : Nat := 1000000

def isHeld (holds : Holds) (t : Nat) (pc : Pc) : Bool :=
  holds.any fun h => (h.1 == t || (h.1 == bgHold && (match pc with | .fUnlock .tick => true | .fUnlock .quit => true | .fEnter .quit => true | .bQuit => true | _ => false)))
    && holdPc h.2 pc

def inCallback (pc : Pc) : Bool := match pc with | .fCall _ => true | .bCall => true | _ => false

def firstIdleFrom (s : St) (from_ : Nat) : Option Nat :=
  (List.range s.thr.length).find? fun t => t ≥ from_ ∧ (s.thr[t]?.map (·.pc)) = some Pc.idle

/-- the ghost lists `finished` / `lost` are used as multisets only: keep them sorted so that interleavings
that differ only in the order of callback ends are one configuration -/
def normGhost (s : St) : St := { s with finished := sortNat s.finished, lost := sortNat s.lost }

/-- inside the critical section of pe.lock (the goroutine owns the lock) -/
def inLockRegion : Pc → Bool
  | .aAdd _ => true | .aInc => true | .aRemove => true | .aGuard _ => true | .aUnlock _ _ => true
  | .fRemove _ => true | .fUnlock _ => true | .qCheck => true | .qUnlock _ => true
  | _ => false

/-- Reduction (Lipton): a critical section of pe.lock is lock (right mover) · accesses to variables that only
the owner of the lock touches (both movers) · at most ONE access to the atomic `inflight` (aInc / qCheck) ·
unlock (left mover), and never blocks: every schedule is equivalent to one in which the owner runs the rest of
its critical section without interruption, with the same quiescent states.  So while some goroutine that is
not parked at a hold point is inside the critical section, only it moves. -/
def lockOwner (holds : Holds) (s : St) : Option Nat :=
  if s.lock then
    (List.range s.thr.length).find? fun t =>
      match s.thr[t]? with
      | some th => inLockRegion th.pc && !isHeld holds t th.pc
      | none => false
  else none

/-- all successors by internal actions (what the goroutines do by themselves) -/
def internalSucc (d : DCfg) (relAll : Bool) (holds : Holds) (s : St) : List St :=
  let idxs := match lockOwner holds s with
    | some t => [t]
    | none => List.range s.thr.length
  idxs.flatMap fun t =>
    match s.thr[t]? with
    | none => []
    | some th =>
      let taus := if isHeld holds t th.pc then [] else (step d.cfg s t .tau).toList
      let starts := if s.spawn > 0 ∧ firstIdleFrom s (d.P + 1) = some t then (step d.cfg s t .start).toList else []
      let confs := if th.pc = .bConfirm then (List.range s.thr.length).filterMap (fun u => step d.cfg s t (.confirm u)) else []
      let cbs :=
        if inCallback th.pc then
          if d.auto then (step d.cfg s t (.cbEnd (d.pm > 0 ∧ th.reg.headD 0 % d.pm = 3))).toList
          else if relAll then (step d.cfg s t (.cbEnd false)).toList else []
        else []
      (taus ++ starts ++ confs ++ cbs).map normGhost

/-- worklist closure up to quiescence; returns (quiescent states, fuel exhausted) -/
def closureGo (succ : St → List St) : Nat → List St → Std.HashSet St → List St → List St × Bool
  | 0, wl, _, out => (out, !wl.isEmpty)
  | _ + 1, [], _, out => (out, false)
  | fuel + 1, s :: wl, vis, out =>
    if vis.contains s then closureGo succ fuel wl vis out
    else
      let nx := succ s
      if nx.isEmpty then closureGo succ fuel wl (vis.insert s) (s :: out)
      else closureGo succ fuel (nx ++ wl) (vis.insert s) out

def closure (succ : St → List St) (fuel : Nat) (wl : List St) (_vis : List St) (out : List St) : List St × Bool :=
  closureGo succ fuel wl {} out

def showList (sep : String) (l : List Nat) : String :=
  if l.isEmpty then "-" else sep.intercalate (l.map toString)

def insertStr (x : String) : List String → List String
  | [] => [x]
  | y :: ys => if x ≤ y then x :: y :: ys else y :: insertStr x ys

def sortStr (l : List String) : List String := l.foldr insertStr []

/-- the visible part of a quiescent configuration, printed like the harness prints it -/
def visible (d : DCfg) (holds : Holds) (bholder : Option Nat) (finSeen : List Nat) (s : St) : String :=
  let ws := ((s.thr.take (d.P + 1)).zipIdx).map fun (th, t) =>
    if bholder = some t then "bhold" else if isHeld holds t th.pc then "hold" else classOf th.pc
  let fls := sortStr (((s.thr.drop (d.P + 1)).filter fun th => th.pc ≠ .idle).map fun th =>
    if isHeld holds bgHold th.pc then "hold" else classOf th.pc)
  let cbs := sortStr ((s.thr.filter fun th => inCallback th.pc).map fun th => showList "." th.reg)
  let nf := sortNat (s.finished.filter fun x => !finSeen.contains x)
  s!"w={",".intercalate ws} fl={if fls.isEmpty then "-" else ",".intercalate fls} c={showList "," s.container} " ++
  s!"cmd={if s.commander.isSome then 1 else 0} inf={s.inflight} g={if s.guarded then 1 else 0} " ++
  s!"cb={if cbs.isEmpty then "-" else ";".intercalate cbs} nf={showList "," nf}"

def parseNats (s : String) : List Nat :=
  if s = "-" then [] else (s.splitOn ",").filterMap String.toNat?

def dedupSt (l : List St) : List St := l.foldl (fun acc s => if acc.contains s then acc else s :: acc) []

def dedup (l : List St) : List St := l.foldl (fun acc s => if acc.contains s then acc else s :: acc) []

structure DState where
  states : List St
  holds  : Holds := []
  bholder : Option Nat := none   -- the caller that holds pe.wgBarrier for the harness
  finSeen : List Nat := []
  mon    : Spec.Mon := {}
  dead   : Bool := false     -- the model lost track in this section (already reported)
  stuckSeen : Bool := false
  lastCont : Option (List Nat) := some []   -- the container the implementation showed on the previous line
  lastWs : Option (List String × List String × String) := none   -- caller classes, flusher classes, cmd of the previous line

def fuel : Nat := 3000000

/-- end every callback that is running in `s` (the harness releases all gated callbacks at a quiescent point) -/
def releaseAll (d : DCfg) (s : St) : St :=
  (List.range s.thr.length).foldl (fun acc t =>
    match acc.thr[t]? with
    | some th => if inCallback th.pc then ((step d.cfg acc t (.cbEnd false)).map normGhost).getD acc else acc
    | none => acc) s

def anyCallback (s : St) : Bool := s.thr.any fun th => inCallback th.pc

/-- what the harness's `drain` does: run to quiescence, release every gated callback, repeat -/
def drainRounds (d : DCfg) : Nat → List St → List St × Bool
  | 0, ss => (ss, true)
  | n + 1, ss =>
    let (q, ex) := closure (internalSucc d false []) fuel ss [] []
    if ex then (q, true)
    else if q.any anyCallback then drainRounds d n (dedupSt (q.map fun s => if anyCallback s then releaseAll d s else s))
    else (q, false)

/-- apply the harness action of one line to one configuration: `none` = the model says "skip" -/
def applyOp (d : DCfg) (holds : Holds) (bholder : Option Nat) (s : St) : List String → Option (List St × Bool × String)
  | ["add", w, x] => do
    let w ← w.toNat?; let x ← x.toNat?
    if w ≥ d.P then none else
    let s' ← step d.cfg s w (.add x)
    let (q, ex) := closure (internalSucc d false holds) fuel [s'] [] []
    pure (q, ex, "")
  | ["flush", w] => do
    let w ← w.toNat?
    if w ≥ d.P then none else
    let s' ← step d.cfg s w .flush
    let (q, ex) := closure (internalSucc d false holds) fuel [s'] [] []
    pure (q, ex, "")
  | ["wait", w] => do
    let w ← w.toNat?
    if w ≥ d.P then none else
    let s' ← step d.cfg s w .wait
    let (q, ex) := closure (internalSucc d false holds) fuel [s'] [] []
    pure (q, ex, "")
  | ["tick"] =>
    match (List.range s.thr.length).find? fun t => (s.thr[t]?.map fun th => classOf th.pc) = some "select" with
    | none => some ([s], false, "d=0 ")
    | some t => do
      let s' ← step d.cfg s t .tick
      let (q, ex) := closure (internalSucc d false holds) fuel [s'] [] []
      pure (q, ex, "d=1 ")
  | ["rel", x, how] => do
    let x ← x.toNat?
    let t ← (List.range s.thr.length).find? fun t =>
      match s.thr[t]? with
      | some th => inCallback th.pc && th.reg.head? == some x
      | none => false
    if d.auto then none else
    if !(["ok", "panic", "epanic", "rpanic"].contains how) then none else
    let s' ← (step d.cfg s t (.cbEnd (how != "ok"))).map normGhost
    let (q, ex) := closure (internalSucc d false holds) fuel [s'] [] []
    pure (q, ex, "")
  | ["hold", "bg", pt] =>
    -- armed for (maybe parked at) the other hold point: the harness skips
    if (pt = "fremoved" ∨ pt = "stop" ∨ pt = "since") ∧ !(holds.any fun h => h.1 == bgHold && h.2 != pt) then some ([s], false, "") else none
  | ["unhold", "bg"] =>
    let (q, ex) := closure (internalSucc d false holds) fuel [s] [] []
    some (q, ex, "")
  | ["hold", w, pt] => do
    let w ← w.toNat?
    if w ≥ d.P ∨ ¬ (["full", "notfull", "removed", "fremoved"].contains pt) then none else
    if (s.thr[w]?.map (·.pc)) ≠ some Pc.idle then none else
    pure ([s], false, "")
  | ["unhold", w] => do
    let w ← w.toNat?
    if w ≥ d.P then none else
    -- `holds` already has caller w removed (runLine)
    let (q, ex) := closure (internalSucc d false holds) fuel [s] [] []
    pure (q, ex, "")
  | ["bhold", w] => do
    let w ← w.toNat?
    if w ≥ d.P ∨ bholder.isSome ∨ s.barrier then none else
    if (s.thr[w]?.map (·.pc)) ≠ some Pc.idle then none else
    pure ([{ s with barrier := true }], false, "")
  | ["brel", f] => do
    let w ← bholder
    let s0 := { s with barrier := false }
    let s1 ← (match f with
      | "wait" => step d.cfg s0 w .wait
      | "flush" => step d.cfg s0 w .flush
      | "none" => some s0
      | _ => none)
    let (q, ex) := closure (internalSucc d false holds) fuel [s1] [] []
    pure (q, ex, "")
  | ["t+", n] => do
    let n ← n.toNat?
    let s' ← step d.cfg s 0 (.advance n)
    pure ([s'], false, "")
  | ["drain"] => do
    let s := if bholder.isSome then { s with barrier := false } else s
    let (q1, ex1) := drainRounds d 64 [s]
    let q1w := q1.filterMap fun s1 => step d.cfg s1 d.P .wait
    let (q2, ex2) := drainRounds d 64 q1w
    pure (q2, ex1 || ex2, "")
  | _ => none

def mkCfg (cfgToks : List String) : DCfg :=
  let max := kvInt cfgToks "max" 2
  let full := if kvStr cfgToks "kind" "bulk" = "chunk" then chunkFull chunkSize max else bulkFull max
  { cfg := { full := full, interval := kvNat cfgToks "iv" 10, fixed := true },
    P := kvNat cfgToks "P" 1, auto := kvNat cfgToks "gate" 0 = 0, pm := kvNat cfgToks "pm" 0 }

def opCaller : List String → Option Nat
  | [op, w] => if op = "flush" ∨ op = "wait" ∨ op = "bhold" then w.toNat? else none
  | [op, w, _] => if op = "add" ∨ op = "hold" then w.toNat? else none
  | _ => none

def callOf (bholder : Option Nat) : List String → Spec.Call
  | ["brel", "wait"] => match bholder with
    | some w => .wait w
    | none => .other
  | ["add", w, x] => match w.toNat?, x.toNat? with
    | some w, some x => .add w x
    | _, _ => .other
  | ["wait", w] => match w.toNat? with
    | some w => .wait w
    | none => .other
  | _ => .other

/-- holds after this line (only if the implementation did not skip it) -/
def holdsAfter (holds : Holds) : List String → Holds
  | ["hold", "bg", pt] => holds.filter (fun h => h.1 != bgHold) ++ [(bgHold, pt)]
  | ["unhold", "bg"] => holds.filter (fun h => h.1 != bgHold)
  | ["hold", w, pt] => match w.toNat? with
    | some w => holds.filter (fun h => h.1 != w) ++ [(w, pt)]
    | none => holds
  | ["unhold", w] => match w.toNat? with
    | some w => holds.filter (fun h => h.1 != w)
    | none => holds
  | ["drain"] => []
  | _ => holds

def bytesOf (kind : String) (l : List Nat) : Int :=
  if kind = "chunk" then (l.map chunkSize).sum else (l.length : Int)

def runLine (d : DCfg) (kind : String) (max : Int) (sec : Nat) (acc : Report × DState) (l : Line) : Report × DState := Id.run do
  let (r0, ds0) := acc
  let mut r := { r0 with ops := r0.ops + 1 }
  let mut ds := ds0
  let impl := joinSp l.obs
  r := r.addCover ("op-" ++ l.op.headD "?")
  if impl.startsWith "stuck" then
    -- the harness watchdog: some goroutine kept moving (or the harness lost track) for seconds of real time
    if !ds.dead then
      r := r.violation sec l.idx s!"the operation never reached quiescence (livelock): {impl}; tasks accepted by Add and not executed: {showList "," (ds.mon.issued.filter fun x => !ds.mon.fin.contains x)}"
    return (r, { ds with dead := true, stuckSeen := true })
  if impl.startsWith "TIMEOUT" ∨ impl.startsWith "PANIC" ∨ impl = "bad-op" then
    r := r.mismatch sec l.idx "a quiescent observation" impl
    return (r, { ds with dead := true })
  let holds' := if impl = "skip" then ds.holds else holdsAfter ds.holds l.op
  let bholder' : Option Nat := if impl = "skip" then ds.bholder else
    match l.op with
    | ["bhold", w] => w.toNat?
    | ["brel", _] => none
    | ["drain"] => none
    | _ => ds.bholder
  -- tokens that carry the event order inside the line are for the monitor only
  let obsCmp := l.obs.filter fun t => !(t.startsWith "ends=" || t.startsWith "wret=" || t.startsWith "unprot=" || t.startsWith "mut=")
  let implCmp := joinSp obsCmp
  -- (a) the monitor, on the implementation's observation alone
  if impl ≠ "skip" then
    let ws := ((kvStr l.obs "w" "").splitOn ",")
    let idle := fun (w : Nat) => ws[w]? = some "idle"
    let nf := parseNats (kvStr l.obs "nf" "-")
    let ends := parseNats (kvStr l.obs "ends" "-")
    let wret := ((kvStr l.obs "wret" "").splitOn ",").filterMap fun t =>
      match t.splitOn ":" with
      | [w, k] => match w.toNat?, k.toNat? with
        | some w, some k => some (w, k)
        | _, _ => none
      | _ => none
    -- what had been executed when the Wait of caller w returned (all of this line's ends if no order is known)
    let endsAt := fun (w : Nat) => match wret.find? (fun p => p.1 == w) with
      | some p => ends.take p.2
      | none => nf
    let (m', msgs) := ds.mon.step (callOf ds.bholder l.op) idle nf endsAt
    if wret.any (fun p => p.2 < ends.length) then r := r.addCover "wait-returned-before-last-callback-end-of-line"
    -- "a panicking callback loses only its own batch": the callback must run under the executor's panic protection
    for x in parseNats (kvStr l.obs "unprot" "-") do
      r := r.violation sec l.idx s!"the callback of the batch starting with task {x} runs without panic protection (no threading.RunSafe on the stack of Execute): a panicking callback would not lose only its own batch, it would take down the flusher goroutine and the process"
    for msg in msgs do r := r.violation sec l.idx msg
    -- "passed to the callback exactly once" is about what the callback SEES: a batch that is rewritten while its
    -- (slow) callback runs shows tasks of a later batch in place of its own
    for msg in Spec.Mon.mutated (parseNats (kvStr l.obs "mut" "-")) do r := r.violation sec l.idx msg
    ds := { ds with mon := m' }
    match l.op with
    | ["rel", _, how] => if how ≠ "ok" ∧ impl ≠ "skip" then r := r.addCover s!"callback-outcome-{how}"
    | _ => pure ()
    for c in ws do r := r.addCover ("caller-" ++ c)
    for c in (kvStr l.obs "fl" "-").splitOn "," do r := r.addCover ("flusher-" ++ c)
    let cont := parseNats (kvStr l.obs "c" "-")
    -- "executed when the size threshold is reached": at rest (nobody inside the critical section) the
    -- container never holds a full batch
    if max ≥ 1 ∧ bytesOf kind cont ≥ max ∧ !(ws.contains "hold") then
      r := r.violation sec l.idx s!"the size threshold is reached ({kind} container holds {bytesOf kind cont} >= max {max}: {showList "," cont}) but the batch was not taken out for execution"
    -- "executed on the periodic flush": while tasks are pending in the container and every caller is back, a
    -- background flusher must exist (parked in its select, or busy)
    if cont.length > 0 ∧ ws.all (· == "idle") ∧ kvStr l.obs "fl" "-" = "-" then
      r := r.violation sec l.idx s!"tasks {showList "," cont} are pending in the container but no background flusher exists: they will not be executed on the periodic flush"
    if l.op = ["drain"] then
      let all := parseNats (kvStr l.obs "all" "-")
      for msg in ds.mon.final all do r := r.violation sec l.idx msg
      -- every gated callback was released, every hold released, a final Wait issued: whoever is not back is stuck
      for msg in ds.mon.stuckAtEnd (fun w => ws[w]?.getD "?") d.P do r := r.violation sec l.idx msg
      if kvStr l.obs "c" "-" ≠ "-" then r := r.violation sec l.idx s!"tasks left in the container after the final Wait: {kvStr l.obs "c" "-"}"
      if nf.length > 0 then r := r.addCover "drain-executed" nf.length
    if kvStr l.obs "g" "1" = "0" ∧ ds.mon.issued.length > 0 then r := r.addCover "flusher-has-quit"
    if ws.contains "spin" then r := r.addCover "wait-spins-on-inflight"
    -- input classes: where the add lands relative to the threshold (from the implementation's own container)
    match l.op, ds.lastCont with
    | ["add", _, x], some c0 =>
      match x.toNat? with
      | some x =>
        let after := bytesOf kind (c0 ++ [x])
        if after + 1 = max then r := r.addCover s!"add-lands-at-{kind}-threshold-1"
        if after = max then r := r.addCover s!"add-lands-at-{kind}-threshold"
        if after = max + 1 then r := r.addCover s!"add-lands-at-{kind}-threshold+1"
        if after > max + 1 ∧ max ≥ 1 then r := r.addCover s!"add-lands-above-{kind}-threshold+1"
        if kind = "chunk" ∧ chunkSize x = 0 then r := r.addCover "chunk-task-of-0-bytes"
        if kind = "chunk" ∧ chunkSize x < 0 then r := r.addCover "chunk-task-of-negative-size"
        if kind = "chunk" ∧ chunkSize x > 1000000 then r := r.addCover "chunk-task-of-huge-size"
        if kind = "chunk" ∧ chunkSize x = 0 ∧ c0.isEmpty then r := r.addCover "chunk-task-of-0-bytes-into-empty-container"
        if max ≤ 0 then r := r.addCover s!"add-with-{kind}-threshold<=0"
        if max = 1 then r := r.addCover s!"add-with-{kind}-threshold=1"
      | none => pure ()
    | _, _ => pure ()
    ds := { ds with lastCont := if ws.contains "hold" ∨ ws.contains "alock" then none else some cont }
    -- input class: a tick / Flush / quit check waits for the lock that a producer holds inside Add
    let fls := (kvStr l.obs "fl" "-").splitOn ","
    if ws.contains "hold" ∧ fls.contains "flock" then r := r.addCover "tick-taken-while-caller-holds-lock"
    if ws.contains "hold" ∧ ws.contains "flock" then r := r.addCover "flush-or-wait-while-caller-holds-lock"
    if ws.contains "hold" ∧ ws.contains "alock" then r := r.addCover "add-while-caller-holds-lock"
    if fls.contains "hold" ∧ ws.contains "alock" then r := r.addCover "add-while-flusher-holds-lock-in-tick-flush"
    let quitting := ds.holds.any (fun h => h.1 == bgHold ∧ h.2 == "stop") ∧ fls.contains "hold"
    if quitting then
      match l.op with
      | ["add", _, _] =>
        r := r.addCover "add-while-flusher-has-decided-to-quit-before-its-deferred-Flush"
        if cont.isEmpty then r := r.addCover "threshold-add-while-flusher-has-decided-to-quit"
        if fls.length ≥ 2 then r := r.addCover "new-flusher-started-while-old-one-is-quitting"
      | ["flush", _] => r := r.addCover "flush-while-flusher-has-decided-to-quit"
      | ["wait", _] => r := r.addCover "wait-while-flusher-has-decided-to-quit"
      | _ => pure ()
    if l.op = ["unhold", "bg"] ∧ (ds.holds.any fun h => h.1 == bgHold ∧ h.2 == "stop") ∧ nf.length > 0 then
      r := r.addCover "quit-time-deferred-Flush-executed-tasks"
    -- the window of `quit_time_flush_is_needed`, forced: the flusher is parked between its empty tick Flush and its quit decision
    let deciding := ds.holds.any (fun h => h.1 == bgHold ∧ h.2 == "since") ∧ fls.contains "hold"
    if deciding then
      match l.op with
      | ["add", _, _] =>
        r := r.addCover "add-between-empty-tick-flush-and-quit-decision"
        if cont.isEmpty then r := r.addCover "threshold-add-between-empty-tick-flush-and-quit-decision"
      | ["flush", _] => r := r.addCover "flush-between-empty-tick-flush-and-quit-decision"
      | ["wait", _] => r := r.addCover "wait-between-empty-tick-flush-and-quit-decision"
      | _ => pure ()
    if l.op = ["unhold", "bg"] ∧ (ds.holds.any fun h => h.1 == bgHold ∧ h.2 == "since") then
      if nf.length > 0 ∧ kvStr l.obs "g" "1" = "0" then r := r.addCover "tasks-of-the-quit-window-executed-by-the-quitting-flusher's-deferred-Flush"
      if kvStr l.obs "g" "1" = "1" ∧ kvStr l.obs "inf" "0" ≠ "0" then r := r.addCover "quit-refused-in-the-window-because-inflight"
    let cbsNow := if kvStr l.obs "cb" "-" = "-" then 0 else ((kvStr l.obs "cb" "-").splitOn ";").length
    if cbsNow + (if kvStr l.obs "cmd" "0" = "1" then 1 else 0) + (if ws.contains "send" then 1 else 0) ≥ 2 then
      match l.op with
      | ["add", _, _] => r := r.addCover "add-while-two-or-more-batches-are-outstanding"
      | ["flush", _] => r := r.addCover "flush-while-two-or-more-batches-are-outstanding"
      | _ => pure ()
    if fls.contains "qlock" ∧ ws.contains "hold" ∧ cont.length > 0 then r := r.addCover "add-slipped-between-empty-tick-flush-and-quit-check"
    -- input class: somebody is parked at the wait-group barrier (before wg.Add) when the barrier is released
    if l.op.head? = some "brel" then
      match ds.lastWs with
      | some (ws0, fls0, cmd0) =>
        if fls0.contains "enter" then r := r.addCover s!"brel-{l.op.getD 1 "?"}-while-flusher-parked-before-wg.Add"
        if ws0.contains "enter" then r := r.addCover s!"brel-{l.op.getD 1 "?"}-while-Flush-caller-parked-before-wg.Add"
        if fls0.contains "enter" ∧ ws0.contains "confirm" ∧ cmd0 = "0" then r := r.addCover s!"brel-{l.op.getD 1 "?"}-while-handed-over-batch-not-in-wait-group"
      | none => pure ()
    ds := { ds with lastWs := some (ws, fls, kvStr l.obs "cmd" "0") }
  else r := r.addCover "skip"
  -- (b) trace inclusion in the model
  if ds.dead then return (r, { ds with holds := holds', bholder := bholder' })
  let holdsOp := match l.op with | ["unhold", _] => holds' | ["drain"] => [] | _ => ds.holds
  let mut next : List St := []
  let mut exhausted := false
  let mut sample := ""
  let busy : Bool := match opCaller l.op with
    | some w => ds.bholder = some w     -- that caller is parked inside the barrier
    | none => false
  for s in ds.states do
    match (if busy then none else applyOp d holdsOp ds.bholder s l.op) with
    | none =>
      if impl = "skip" then next := s :: next else sample := "skip"
    | some (qs, ex, pre) =>
      exhausted := exhausted || ex
      for q in qs do
        let v := pre ++ visible d holds' bholder' ds.finSeen q
        let v := if l.op = ["drain"] then v ++ " all=" ++ showList "," (sortNat q.finished) else v
        if v = implCmp then next := q :: next else sample := v
  next := dedup next
  if exhausted then
    r := r.mismatch sec l.idx "state space exhausted the driver's fuel" impl
    return (r, { ds with dead := true })
  if next.isEmpty then
    r := r.mismatch sec l.idx sample impl
    return (r, { ds with dead := true })
  if next.length > 1 then r := r.addCover "ambiguous-schedule"
  let nfNow := parseNats (kvStr l.obs "nf" "-")
  -- coverage of model branches
  let isUnhold : Bool := l.op.head? == some "unhold"
  match ds.states.head?, next.head? with
  | some q0, some q =>
    if q.lost.length > 0 then r := r.addCover "panicked-batch"
    if q.spawn = 0 ∧ q.guarded = false ∧ q.added.length > 0 then r := r.addCover "model-flusher-quit"
    -- the scenario class of seeded C11-1 / mutation M4: a flusher that is past the idle bound took a tick while a
    -- producer was handing over a batch (inflight > 0), and must have stayed
    if isUnhold ∧ (q0.thr.any fun th => th.pc == Pc.aInc || th.pc == Pc.aGuard true) ∧
        (q0.thr.any fun th => (th.pc == Pc.fLock Ctx.tick || th.pc == Pc.qLock) && decide (q0.now - th.last > d.cfg.interval * idleRound)) then
      r := r.addCover "idle-quit-tick-races-handover"
      if q.guarded then r := r.addCover "idle-quit-refused-because-inflight"
    if isUnhold ∧
        (q0.thr.any fun th => th.pc == Pc.fLock Ctx.tick && decide (q0.now - th.last = d.cfg.interval * idleRound)) then
      r := r.addCover "tick-at-exactly-idleRound-intervals-races-add"
  | _, _ => pure ()
  return (r, { ds with states := next, holds := holds', bholder := bholder', finSeen := if impl = "skip" then ds.finSeen else ds.finSeen ++ nfNow })

def runSection (r : Report) (s : Section) : Report :=
  let d := mkCfg s.cfg
  let r := r.addCover (if d.auto then "section-ungated" else "section-gated")
  let r := r.addCover ("kind-" ++ kvStr s.cfg "kind" "bulk")
  let st0 : DState := { states := [init (d.P + 1 + 4)] }
  (s.lines.foldl (runLine d (kvStr s.cfg "kind" "bulk") (kvInt s.cfg "max" 2) s.idx) (r, st0)).1

def driver (secs : List Section) : Report := secs.foldl runSection {}

end GoZero.C11
