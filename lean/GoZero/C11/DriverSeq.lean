/-
C11 — driver for the sequential harness of the Bulk / Chunk executors (TestVerifC11Seq): constructors, options,
wrappers and containers through the public API, several executors per section.  The model of an executor is its
container of Containers.lean (`BulkC` / `ChunkC`) executed over ONE slice heap per section (shared by all
instances, like Go's heap), with the defaults of the package; batches handed out are kept as slices and READ AT THE
NEXT `wait` — in the heap as it is then — so an aliasing container model would show the overwritten tasks.

cfg:  kind=seq
ops:  new <k> bulk|chunk <-|t<n>,i<n>,…> (the option list, in order) | add <k> <x> | addn <k> <n> <code> <first id> | flush <k> | wait <k>
obs:  max=<n> iv=<n> | c=<pending> sz=<bytes|-> | b=<batches> | skip
-/
import GoZero.Base.Trace
import GoZero.C11.Driver
import GoZero.C11.Containers
import GoZero.C11.Api
namespace GoZero.C11

open GoZero

structure SeqInst where
  live  : Bool := false
  chunk : Bool := false
  b     : BulkC := { maxTasks := 0 }
  c     : ChunkC := { maxChunkSize := 0 }
  out   : List Slice := []
  -- monitor state, from the operations and the implementation's observations only
  max   : Int := 0
  issued : List Nat := []
  deriving Inhabited

structure SeqSt where
  heap  : Heap Task := {}
  insts : List (Nat × SeqInst) := []
  dead  : Bool := false
  n     : Nat := 0          -- lines of this section seen so far

def SeqSt.get (s : SeqSt) (k : Nat) : SeqInst := ((s.insts.find? fun p => p.1 == k).map (·.2)).getD {}
def SeqSt.set (s : SeqSt) (k : Nat) (i : SeqInst) : SeqSt :=
  { s with insts := (s.insts.filter fun p => p.1 != k) ++ [(k, i)] }

def SeqInst.pending (i : SeqInst) : Slice := if i.chunk then i.c.tasks else i.b.tasks

def SeqInst.removeAll (i : SeqInst) : SeqInst :=
  if i.chunk then
    let r := ChunkC.removeAll i.c
    if r.2.len > 0 then { i with c := r.1, out := i.out ++ [r.2] } else { i with c := r.1 }
  else
    let r := BulkC.removeAll i.b
    if r.2.len > 0 then { i with b := r.1, out := i.out ++ [r.2] } else { i with b := r.1 }

/-- `Add`: AddTask; when it says full, RemoveAll and hand the batch over (executed by the flusher) -/
def seqAdd (h : Heap Task) (i : SeqInst) (x : Task) : Heap Task × SeqInst :=
  if i.chunk then
    let r := ChunkC.addTask (fun n => n) chunkSize h i.c x
    (r.1, if r.2.2 then ({ i with c := r.2.1 }).removeAll else { i with c := r.2.1 })
  else
    let r := BulkC.addTask (fun n => n) h i.b x
    (r.1, if r.2.2 then ({ i with b := r.2.1 }).removeAll else { i with b := r.2.1 })

def showBatch : List Nat → List String
  | [] => []
  | a :: rest =>
    let run := (rest.zipIdx.takeWhile fun (x, j) => x == a + 8 * (j + 1)).length
    if run ≥ 2 then s!"{a}~{a + 8 * run}" :: showBatch (rest.drop run)
    else toString a :: showBatch rest
termination_by l => l.length
decreasing_by all_goals (simp <;> omega)

def parseBatch (s : String) : List Nat :=
  (s.splitOn ".").flatMap fun t =>
    match t.splitOn "~" with
    | [a, b] => match a.toNat?, b.toNat? with
      | some a, some b => (List.range ((b - a) / 8 + 1)).map (fun j => a + 8 * j)
      | _, _ => []
    | [a] => (a.toNat?).toList
    | _ => []

def sortBatches (l : List (List Nat)) : List (List Nat) :=
  l.foldr (fun x acc => let (lo, hi) := acc.span (fun y => y.headD 0 < x.headD 0); lo ++ [x] ++ hi) []

def seqObs (i : SeqInst) : String :=
  s!"c={i.pending.len} sz={if i.chunk then toString i.c.size else "-"}"

def measure (i : SeqInst) (c : Nat) (sz : String) : Int := if i.chunk then sz.toInt?.getD 0 else (c : Int)

def seqLine (sec : Nat) (acc : Report × SeqSt) (l : Line) : Report × SeqSt := Id.run do
  let (r0, s) := acc
  let mut r := { r0 with ops := r0.ops + 1 }
  let impl := joinSp l.obs
  r := r.addCover ("seq-op-" ++ l.op.headD "?")
  if s.dead then return (r, s)
  if impl = "stuck" then
    -- the harness watchdog: the call did not come back and every goroutine of the package is parked
    if s.n = 0 then return (r.addCover "seq-skipped-after-a-wedged-executor", { s with dead := true })
    return (r.violation sec l.idx s!"{" ".intercalate l.op}: the call never returns (every goroutine is parked: the executor is wedged) — Add / Flush / Wait of the public API must come back, Wait when the callbacks of the tasks added before it have returned", { s with dead := true })
  let s := { s with n := s.n + 1 }
  let bad := (r.mismatch sec l.idx "a known op" impl, { s with dead := true })
  let some k := (l.op.getD 1 "").toNat? | return bad
  let i := s.get k
  match l.op with
  | ["new", _, kind, optS] =>
    let chunk := kind = "chunk"
    -- the option list the harness passed, in order: t<n> = WithBulkTasks / WithChunkBytes, i<n> = With…Interval
    let toks : List (Bool × Int) := if optS = "-" then [] else (optS.splitOn ",").filterMap fun t =>
      match (String.ofList (t.toList.drop 1)).toInt? with
      | some v => if t.startsWith "t" then some (true, v) else if t.startsWith "i" then some (false, v) else none
      | none => none
    if optS ≠ "-" ∧ toks.length ≠ (optS.splitOn ",").length then return bad
    -- the constructor of Api.lean, applied to that list
    let ex : Executor :=
      if chunk then newChunkExecutor (toks.map fun p => if p.1 then ChunkOpt.bytes p.2 else ChunkOpt.interval p.2)
      else newBulkExecutor (toks.map fun p => if p.1 then BulkOpt.tasks p.2 else BulkOpt.interval p.2)
    let max : Int := ex.threshold
    let iv : Int := ex.interval
    let nT := (toks.filter (·.1)).length
    let nI := (toks.filter (!·.1)).length
    let maxS := if nT = 0 then "def" else toString max
    let ivS := if nI = 0 then "def" else toString iv
    r := r.addCover s!"seq-new-{kind}-max-{if nT = 0 then "default" else if max ≤ 0 then "<=0" else if max = 1 then "1" else ">1"}"
    r := r.addCover s!"seq-new-interval-{if nI = 0 then "default" else if iv ≤ 0 then "<=0" else ">0"}"
    if toks.isEmpty then r := r.addCover "seq-new-without-options"
    if nT ≥ 2 then r := r.addCover "seq-new-threshold-option-repeated"
    if nI ≥ 2 then r := r.addCover "seq-new-interval-option-repeated"
    if (toks.head?.map (·.1)) = some false ∧ nT ≥ 1 then r := r.addCover "seq-new-interval-option-before-threshold-option"
    if s.insts.any (fun p => p.1 != k ∧ p.2.live) then r := r.addCover "seq-second-executor-in-section"
    if i.live then r := r.addCover "seq-executor-replaced-in-slot"
    -- the property's quantifier is "for all thresholds and intervals": the ones the caller gave must be the ones in force
    let gotMax := kvInt l.obs "max" (-999)
    let gotIv := kvInt l.obs "iv" (-999)
    if gotMax ≠ max then
      r := r.violation sec l.idx s!"{kind} executor built with options {optS} (threshold {maxS}): its container flushes at {gotMax}, not at {max} — tasks are not executed when the size threshold the caller configured is reached"
    if gotIv ≠ iv then
      r := r.violation sec l.idx s!"{kind} executor built with options {optS} (flush interval {ivS}): the PeriodicalExecutor ticks every {gotIv}ns, not every {iv}ns — the periodic flush does not happen at the configured interval"
    let inew : SeqInst := { live := true, chunk := chunk, b := { maxTasks := max }, c := { maxChunkSize := max }, max := gotMax }
    return (r, s.set k inew)
  | _ =>
  if !i.live then
    if impl = "skip" then return (r.addCover "seq-skip", s) else return (r.mismatch sec l.idx "skip" impl, { s with dead := true })
  -- tasks of this op
  let tasks : Option (List Nat) := match l.op with
    | ["add", _, x] => x.toNat?.map ([·])
    | ["addn", _, n, code, first] => match n.toNat?, code.toNat?, first.toNat? with
      | some n, some code, some first => some ((List.range n).map fun j => 8 * (first + j) + code)
      | _, _, _ => none
    | _ => some []
  let some tasks := tasks | return bad
  match l.op.headD "" with
  | "add" | "addn" | "flush" =>
    let (h', i') := if l.op.headD "" = "flush" then (s.heap, i.removeAll)
      else tasks.foldl (fun (acc : Heap Task × SeqInst) x => seqAdd acc.1 acc.2 x) (s.heap, i)
    let i' := { i' with issued := i'.issued ++ tasks }
    -- input classes
    for x in tasks.take 1 do
      if i.chunk ∧ chunkSize x = 0 then r := r.addCover "seq-chunk-task-of-0-bytes"
      if i.chunk ∧ chunkSize x < 0 then r := r.addCover "seq-chunk-task-of-negative-size"
      if i.chunk ∧ chunkSize x > 1000000 then r := r.addCover "seq-chunk-task-of-huge-size"
    if i'.out.length > i.out.length then r := r.addCover (if i.chunk then "seq-chunk-threshold-reached" else "seq-bulk-threshold-reached")
    if tasks.length ≥ 999 ∧ i'.out.length > i.out.length ∧ !i.chunk ∧ i.b.maxTasks = 1000 then r := r.addCover "seq-bulk-default-threshold-1000-reached"
    -- (a) monitor: after Add / Flush has returned the container is below its threshold
    let c := kvNat l.obs "c" 0
    let m := measure i c (kvStr l.obs "sz" "-")
    if c > 0 ∧ m ≥ i.max then
      r := r.violation sec l.idx s!"the size threshold is reached ({if i.chunk then "chunk" else "bulk"} container holds {m} >= max {i.max}, {c} tasks) but the batch was not taken out for execution"
    -- the wrappers' Add accept every task (they return nil): an error tells the caller the task was NOT accepted
    if kvNat l.obs "e" 0 > 0 then
      r := r.violation sec l.idx s!"{if i.chunk then "ChunkExecutor" else "BulkExecutor"}.Add returned an error for {kvNat l.obs "e" 0} task(s): Add accepts every task (the property's 'accepted by Add'), an error return makes the caller treat an executed task as rejected (or a rejected one is never executed)"
    if l.op.headD "" = "flush" ∧ c > 0 then
      r := r.violation sec l.idx s!"{c} tasks are still in the container after Flush has returned"
    -- (b) the model
    let want := seqObs i'
    if want ≠ impl then
      return (r.mismatch sec l.idx want impl, { s with dead := true })
    let s2 := s.set k i'
    return (r, { s2 with heap := h' })
  | "wait" =>
    let i1 := i.removeAll
    let implBatches := (if kvStr l.obs "b" "-" = "-" then [] else (kvStr l.obs "b" "-").splitOn ";").map parseBatch
    -- (a) monitor: the batches, in order of their first task, are exactly the tasks added since the last Wait, in order
    let seen := (sortBatches implBatches).flatten
    if seen ≠ i1.issued then
      let seenS := sortNat seen
      let dups := (seenS.zip (seenS.drop 1)).filterMap fun (a, b) => if a = b then some a else none
      let missing := i1.issued.filter fun x => !seen.contains x
      let foreign := seen.filter fun x => !i1.issued.contains x
      if !dups.isEmpty then r := r.violation sec l.idx s!"task {dups.headD 0} was handed to the callback twice ({dups.length} tasks in all)"
      if !missing.isEmpty then r := r.violation sec l.idx s!"task {missing.headD 0} accepted by Add was never executed although Wait has returned ({missing.length} tasks in all)"
      if !foreign.isEmpty then r := r.violation sec l.idx s!"task {foreign.headD 0} reached the callback of this executor but was not added to it since its last Wait ({foreign.length} tasks in all)"
      if dups.isEmpty ∧ missing.isEmpty ∧ foreign.isEmpty then
        r := r.violation sec l.idx s!"the tasks reached the callback in another order than they were added: {",".intercalate ((seen.take 12).map toString)} …"
    for b in implBatches do
      if !i1.chunk ∧ i1.max ≥ 1 ∧ (b.length : Int) > i1.max then
        r := r.violation sec l.idx s!"a batch of {b.length} tasks reached the callback: the threshold {i1.max} was passed without the batch being taken out"
    -- (b) the model: the batches read from the heap as it is NOW
    let batches := sortBatches (i1.out.map fun b => s.heap.read b)
    let want := if batches.isEmpty then "b=-" else "b=" ++ ";".intercalate (batches.map fun b => ".".intercalate (showBatch b))
    if batches.length > 1 then r := r.addCover "seq-several-batches-in-one-wait"
    if want ≠ impl then
      return (r.mismatch sec l.idx want impl, { s with dead := true })
    return (r, s.set k { i1 with out := [], issued := [] })
  | _ => return bad

def driverSeq (secs : List Section) : Report :=
  secs.foldl (fun r s => (s.lines.foldl (seqLine s.idx) (r, {})).1) {}

end GoZero.C11
