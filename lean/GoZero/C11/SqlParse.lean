/-
C11 — `parseInsertStmt` of core/stores/sqlx/bulkinserter.go as an executable Lean function (core Lean only), over
the characters of the statement (ASCII statements: Go's byte indices are character indices, `strings.ToLower` maps
A–Z only).  Go's `strings.Index / LastIndexByte / IndexByte` return -1 for "not found"; every use in the function is
guarded by `> 0` (resp. `<= 0`), so "not found" and "found at 0" are the same case: `pos0`.
-/
namespace GoZero.C11

def lowerC (c : Char) : Char := if 'A' ≤ c ∧ c ≤ 'Z' then Char.ofNat (c.toNat + 32) else c

def isPrefixL : List Char → List Char → Bool
  | [], _ => true
  | _ :: _, [] => false
  | a :: p, b :: l => a == b && isPrefixL p l

/-- `strings.Index(l, pat)` -/
def indexOfL (pat : List Char) : List Char → Option Nat
  | [] => if pat.isEmpty then some 0 else none
  | c :: l => if isPrefixL pat (c :: l) then some 0 else (indexOfL pat l).map (· + 1)

/-- `strings.IndexByte(l, c)` -/
def indexByteL (c : Char) : List Char → Option Nat
  | [] => none
  | d :: l => if d == c then some 0 else (indexByteL c l).map (· + 1)

/-- `strings.LastIndexByte(l, c)` -/
def lastIndexByteL (c : Char) (l : List Char) : Option Nat :=
  (indexByteL c l.reverse).map fun i => l.length - 1 - i

/-- the guard `x > 0` of the Go code: found, and not at position 0 -/
def pos0 : Option Nat → Option Nat
  | some (n + 1) => some (n + 1)
  | _ => none

def isWsC (c : Char) : Bool := c == ' ' || c == '\t' || c == '\r' || c == '\n'

/-- `len(strings.FieldsFunc(values, r == ','))`: the non-empty comma-separated fields -/
def commaFieldsGo : List Char → Bool → Nat
  | [], inField => if inField then 1 else 0
  | c :: l, inField => if c == ',' then (if inField then 1 else 0) + commaFieldsGo l false else commaFieldsGo l true
def commaFields (l : List Char) : Nat := commaFieldsGo l false

/-- ASCII `strings.TrimSpace` -/
def isSpaceC (c : Char) : Bool := c == ' ' || c == '\t' || c == '\n' || c == '\r' || c.toNat == 11 || c.toNat == 12
def trimSpaceL (l : List Char) : List Char := ((l.dropWhile isSpaceC).reverse.dropWhile isSpaceC).reverse

def valuesKeyword : List Char := "values".toList

structure BulkStmtL where
  pre : List Char
  valueFormat : List Char
  suffix : List Char
  deriving DecidableEq, Repr

/-- `parseInsertStmt`: `none` = one of the three errors (bad sql / no variables / columns and variables mismatch) -/
def parseInsertL (stmt : List Char) : Option BulkStmtL :=
  let lower := stmt.map lowerC
  match pos0 (indexOfL valuesKeyword lower) with
  | none => none                                                    -- bad sql
  | some pos =>
    let columns : Nat :=
      match pos0 (lastIndexByteL ')' (lower.take pos)) with
      | none => 0
      | some right =>
        match pos0 (lastIndexByteL '(' (lower.take right)) with
        | none => 0
        | some left => commaFields (((lower.take right).drop (left + 1)).filter fun c => !isWsC c)
    let r : Nat × List Char × List Char :=
      match pos0 (indexByteL '(' (lower.drop pos)) with
      | none => (0, [], [])
      | some left =>
        match pos0 (indexByteL ')' (lower.drop (pos + left))) with
        | none => (0, [], [])
        | some right =>
          ((((lower.drop (pos + left)).take right).filter (· == '?')).length,
           (stmt.drop (pos + left)).take (right + 1),
           trimSpaceL (stmt.drop (pos + left + right + 1)))
    if r.1 = 0 then none                                            -- no variables
    else if columns > 0 ∧ columns ≠ r.1 then none                   -- columns and variables mismatch
    else some { pre := stmt.take (pos + valuesKeyword.length), valueFormat := r.2.1, suffix := r.2.2 }

def parseInsert (stmt : String) : Option (String × String × String) :=
  (parseInsertL stmt.toList).map fun b => (String.ofList b.pre, String.ofList b.suffix, String.ofList b.valueFormat)

end GoZero.C11
