/-
C11 — property theorems (statements only; proofs in Proofs*.lean).
-/
import GoZero.C11.Model
namespace GoZero.C11

/-- placeholder of stage 1: the initial configuration has added nothing -/
theorem init_added (n : Nat) : (init n).added = [] := rfl

end GoZero.C11
