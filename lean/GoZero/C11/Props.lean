/-
C11 — property theorems (proofs of the invariants are in Proofs*.lean).

The model (Model.lean) is a small-step transition system with one row per atomic action of
periodicalexecutor.go, for ANY number of goroutines; `Reachable cfg s` quantifies over every schedule of
Add / Flush / Wait callers, background flushers that quit when idle and are restarted, ticker ticks, clock
advances, and callbacks that return or panic.  `cfg.full` (the container's threshold test) is arbitrary,
so bulk (count ≥ max) and chunk (bytes ≥ max) executors are instances.
-/
import GoZero.C11.Proofs
import GoZero.C11.ProofsWait
namespace GoZero.C11

/-- tasks in the hands of goroutines (taken out of the container / commander, callback not ended yet) -/
def inHands (x : Task) (s : St) : Nat := ((s.thr.map fun th => th.reg.count x)).sum
/-- tasks in the commander channel's buffer -/
def inCommander (x : Task) (s : St) : Nat := match s.commander with | some b => b.count x | none => 0

/-- **No loss, no duplication** (multiset conservation), for every schedule and any number of goroutines:
every task accepted by `AddTask` is in exactly one of: the container, the commander buffer, the hands of one
goroutine (producer handing over, flusher, `Flush`/`Wait` caller — before or inside the callback), or the
multiset of tasks whose callback has ended. In particular a task reaches the callback at most once, and is
never dropped — across threshold hand-overs, periodic flushes, explicit flushes, flusher quit and restart. -/
theorem no_loss_no_dup (cfg : Cfg) (s : St) (h : Reachable cfg s) (x : Task) :
    s.added.count x = s.container.count x + inCommander x s + inHands x s + s.finished.count x :=
  (inv_reachable h).cons x

/-- a goroutine holds tasks only between taking a batch and the end of its callback -/
theorem hands_empty_outside_execution (cfg : Cfg) (s : St) (h : Reachable cfg s) (t : Nat) (th : Thread)
    (ht : s.thr[t]? = some th) (hp : holds th.pc = false) : th.reg = [] :=
  (inv_reachable h).empty t th ht hp

/-- **Exactly once at rest**: when nothing is pending (container and commander empty, nobody holds a batch),
the tasks whose callback ended are a permutation of the tasks added. -/
theorem exactly_once_at_rest (cfg : Cfg) (s : St) (h : Reachable cfg s) (hc : s.container = [])
    (hcmd : s.commander = none) (hh : ∀ (t : Nat) (th : Thread), s.thr[t]? = some th → th.reg = []) :
    s.finished.Perm s.added := by
  rw [List.perm_iff_count]
  intro x
  have := no_loss_no_dup cfg s h x
  have h0 : inHands x s = 0 := by
    unfold inHands
    have : ∀ l : List Thread, (∀ th ∈ l, th.reg = []) → (l.map fun th => th.reg.count x).sum = 0 := by
      intro l hl
      induction l with
      | nil => rfl
      | cons a l ih => simp [hl a (by simp), ih (fun th hth => hl th (by simp [hth]))]
    apply this
    intro th hth
    obtain ⟨t, ht, rfl⟩ := List.getElem_of_mem hth
    exact hh t _ (by simp [ht])
  simp [hc, inCommander, hcmd, h0] at this
  omega

/-- **A panicking callback loses only its own batch**: a callback that panics is, for everybody else,
the same step as a callback that returns — same container, commander, counters and goroutine states
(`RunSafe` recovers, the deferred `wg.Done` still runs next); only the ghost `lost` records the batch. -/
theorem panic_loses_own_batch_only (cfg : Cfg) (s s' : St) (t : Nat)
    (h : step cfg s t (.cbEnd true) = some s') :
    step cfg s t (.cbEnd false) = some { s' with lost := s.lost } ∧
    ∃ th, s.thr[t]? = some th ∧ s'.lost = s.lost ++ th.reg ∧ s'.finished = s.finished ++ th.reg := by
  unfold step at h ⊢
  simp only at h ⊢
  split at h
  · simp at h
  · rename_i th hth
    simp only [hth]
    unfold stepTh at h ⊢
    split at h <;> simp_all [St.upd]
    all_goals (subst h; simp)

/-! ### Wait covers prior adds

FULL STATEMENT (not proven yet — kept visible, not weakened silently):

    theorem wait_covers_prior_adds (cfg : Cfg) (hfix : cfg.fixed = true) (s : St) (h : Reachable cfg s)
        (t : Nat) (th : Thread) (ht : s.thr[t]? = some th) (hpc : th.pc = .wUnbarrier) (x : Task) :
        th.snap.count x ≤ s.finished.count x

(`th.snap` = the tasks accepted before this goroutine called `Wait`; `.wUnbarrier` = `waitGroup.Wait()` has
returned.)  The proof is by the invariant `WInv` of ProofsWait.lean (wg = number of goroutines between
wg.Add and wg.Done; inflight = number of handed-over batches not yet decremented; per Wait caller a phase
inequality).  PROVEN below: `WInv` holds initially; `WInv` at the two decisive steps gives the property
(`wait_spin_covers_partial`: once Wait has seen inflight ≤ 0 every prior task is finished or held by a
goroutine that is counted in the wait group; `wait_covers_prior_adds_partial`: once it has then seen wg = 0
every prior task is finished).  MISSING: `WInv` is preserved by every row of the step table — the generic
update lemma `winv_upd` and 38 of the 48 row cases are closed; the rows aAdd, fRemove, fDone, wSpin, wWait and
bConfirm still have open side goals in the proof script (lean/scratch/winv_step_unfinished.lean.txt).
The runtime monitor checks this clause on every harness history, and the pinned (pre-fix) order is
shown to violate it (`pinned_wait_misses_handover`). -/

theorem wait_invariant_initially (n : Nat) : WInv (init n) := winv_init n

theorem wait_spin_covers_partial (s : St) (hw : WInv s) (hin : ¬ s.inflight > 0) (t : Nat) (th : Thread)
    (ht : s.thr[t]? = some th) (hpc : th.pc = .wSpin) (x : Task) :
    th.snap.count x ≤ s.finished.count x + eHeld x s :=
  spin_pass s hw hin t th ht hpc x

theorem wait_covers_prior_adds_partial (s : St) (hw : WInv s) (t : Nat) (th : Thread)
    (ht : s.thr[t]? = some th) (hpc : th.pc = .wWait) (h0 : s.wg = 0) (x : Task) :
    th.snap.count x ≤ s.finished.count x := by
  have h2 := ((hw.ph t th ht) x).2.1 (by simp [hpc, phase])
  have := wg_pass s hw h0 x
  omega

/-- the schedule of the defect found on the unfixed code (replayed on the real code by the harness, section 0):
caller 0 fills a batch (1,2) whose callback is still running in the flusher (goroutine 3), adds 3; caller 1
adds 4, takes the batch (3,4) and parks it in the commander; caller 2 calls Wait; the first callback ends. -/
def pinnedSchedule : List (Nat × Act) :=
  [(0, .add 1), (0, .tau), (0, .tau), (0, .tau), (0, .tau), (0, .tau), (3, .start),
   (0, .add 2), (0, .tau), (0, .tau), (0, .tau), (0, .tau), (0, .tau), (0, .tau), (0, .tau),
   (3, .tau), (3, .tau), (3, .tau), (3, .confirm 0), (3, .tau),
   (0, .add 3), (0, .tau), (0, .tau), (0, .tau), (0, .tau),
   (1, .add 4), (1, .tau), (1, .tau), (1, .tau), (1, .tau), (1, .tau), (1, .tau), (1, .tau),
   (2, .wait), (2, .tau), (2, .tau), (2, .tau), (2, .tau), (2, .tau), (2, .tau), (2, .tau),
   (3, .cbEnd false), (3, .tau), (3, .tau), (3, .tau), (2, .tau)]

def missedAt (s : St) : Bool :=
  match s.thr[2]? with
  | some th => th.pc == .wUnbarrier && th.snap.contains 3 && !(s.finished.contains 3) && (s.added == [1, 2, 3, 4])
  | none => false

/-- **Witness of the defect** (pinned order: the flusher decrements `inflight` and only then enters the wait
group; `Wait` does not look at `inflight`): there is a schedule after which `Wait` has returned while task 3,
accepted before `Wait` was called, has not reached the callback. -/
theorem pinned_wait_misses_handover :
    (run { full := bulkFull 2, fixed := false } (init 4) pinnedSchedule).map missedAt = some true := by
  decide

/-- the same schedule is not executable on the fixed code: `Wait` is held back by `inflight > 0`. -/
theorem fixed_blocks_pinned_schedule :
    (run { full := bulkFull 2, fixed := true } (init 4) pinnedSchedule).isNone = true := by
  decide

/-- non-vacuity: the state after the defect schedule (4 goroutines: two producers, a Wait caller, a flusher;
one batch finished, one parked in a goroutine's hands) is reachable, and the conservation equation holds
there with a non-trivial split: task 3 is neither in the container nor finished — it is in the flusher's hands. -/
example : ∃ s, Reachable { full := bulkFull 2, fixed := false } s ∧ s.added = [1, 2, 3, 4] ∧
    s.finished = [1, 2] ∧ s.container = [] ∧ inHands 3 s = 1 := by
  have hr : ∃ s, run { full := bulkFull 2, fixed := false } (init 4) pinnedSchedule = some s ∧
      s.added = [1, 2, 3, 4] ∧ s.finished = [1, 2] ∧ s.container = [] ∧ inHands 3 s = 1 := by decide
  obtain ⟨s, h1, h2⟩ := hr
  exact ⟨s, reachable_run (Reachable.init 4) _ h1, h2⟩

end GoZero.C11
