/-
C11 — property theorems (proofs of the invariants are in Proofs*.lean).

The model (Model.lean) is a small-step transition system with one row per atomic action of
periodicalexecutor.go, for ANY number of goroutines; `Reachable cfg s` quantifies over every schedule of
Add / Flush / Wait callers, background flushers that quit when idle and are restarted, ticker ticks, clock
advances, and callbacks that return or panic.  `cfg.full` (the container's threshold test) is arbitrary,
so bulk (count ≥ max) and chunk (bytes ≥ max) executors are instances.
-/
import GoZero.C11.Proofs
import GoZero.C11.ProofsWait
namespace GoZero.C11

/-- tasks in the hands of goroutines (taken out of the container / commander, callback not ended yet) -/
def inHands (x : Task) (s : St) : Nat := ((s.thr.map fun th => th.reg.count x)).sum
/-- tasks in the commander channel's buffer -/
def inCommander (x : Task) (s : St) : Nat := match s.commander with | some b => b.count x | none => 0

/-- **No loss, no duplication** (multiset conservation), for every schedule and any number of goroutines:
every task accepted by `AddTask` is in exactly one of: the container, the commander buffer, the hands of one
goroutine (producer handing over, flusher, `Flush`/`Wait` caller — before or inside the callback), or the
multiset of tasks whose callback has ended. In particular a task reaches the callback at most once, and is
never dropped — across threshold hand-overs, periodic flushes, explicit flushes, flusher quit and restart. -/
theorem no_loss_no_dup (cfg : Cfg) (s : St) (h : Reachable cfg s) (x : Task) :
    s.added.count x = s.container.count x + inCommander x s + inHands x s + s.finished.count x :=
  (inv_reachable h).cons x

/-- a goroutine holds tasks only between taking a batch and the end of its callback -/
theorem hands_empty_outside_execution (cfg : Cfg) (s : St) (h : Reachable cfg s) (t : Nat) (th : Thread)
    (ht : s.thr[t]? = some th) (hp : holds th.pc = false) : th.reg = [] :=
  (inv_reachable h).empty t th ht hp

/-- **Exactly once at rest**: when nothing is pending (container and commander empty, nobody holds a batch),
the tasks whose callback ended are a permutation of the tasks added. -/
theorem exactly_once_at_rest (cfg : Cfg) (s : St) (h : Reachable cfg s) (hc : s.container = [])
    (hcmd : s.commander = none) (hh : ∀ (t : Nat) (th : Thread), s.thr[t]? = some th → th.reg = []) :
    s.finished.Perm s.added := by
  rw [List.perm_iff_count]
  intro x
  have := no_loss_no_dup cfg s h x
  have h0 : inHands x s = 0 := by
    unfold inHands
    have : ∀ l : List Thread, (∀ th ∈ l, th.reg = []) → (l.map fun th => th.reg.count x).sum = 0 := by
      intro l hl
      induction l with
      | nil => rfl
      | cons a l ih => simp [hl a (by simp), ih (fun th hth => hl th (by simp [hth]))]
    apply this
    intro th hth
    obtain ⟨t, ht, rfl⟩ := List.getElem_of_mem hth
    exact hh t _ (by simp [ht])
  simp [hc, inCommander, hcmd, h0] at this
  omega

/-- **A panicking callback loses only its own batch**: a callback that panics is, for everybody else,
the same step as a callback that returns — same container, commander, counters and goroutine states
(`RunSafe` recovers, the deferred `wg.Done` still runs next); only the ghost `lost` records the batch. -/
theorem panic_loses_own_batch_only (cfg : Cfg) (s s' : St) (t : Nat)
    (h : step cfg s t (.cbEnd true) = some s') :
    step cfg s t (.cbEnd false) = some { s' with lost := s.lost } ∧
    ∃ th, s.thr[t]? = some th ∧ s'.lost = s.lost ++ th.reg ∧ s'.finished = s.finished ++ th.reg := by
  unfold step at h ⊢
  simp only at h ⊢
  split at h
  · simp at h
  · rename_i th hth
    simp only [hth]
    unfold stepTh at h ⊢
    split at h <;> simp_all [St.upd]
    all_goals (subst h; simp)

end GoZero.C11
