/-
C11 — property theorems (proofs of the invariants are in Proofs*.lean).

The model (Model.lean) is a small-step transition system with one row per atomic action of
periodicalexecutor.go, for ANY number of goroutines; `Reachable cfg s` quantifies over every schedule of
Add / Flush / Wait callers, background flushers that quit when idle and are restarted, ticker ticks, clock
advances, and callbacks that return or panic.  `cfg.full` (the container's threshold test) is arbitrary,
so bulk (count ≥ max) and chunk (bytes ≥ max) executors are instances.
-/
import GoZero.C11.Proofs
import GoZero.C11.ProofsWait
import GoZero.C11.ProofsWaitStep
namespace GoZero.C11

/-- tasks in the hands of goroutines (taken out of the container / commander, callback not ended yet) -/
def inHands (x : Task) (s : St) : Nat := ((s.thr.map fun th => th.reg.count x)).sum
/-- tasks in the commander channel's buffer -/
def inCommander (x : Task) (s : St) : Nat := match s.commander with | some b => b.count x | none => 0

/-- **No loss, no duplication** (multiset conservation), for every schedule and any number of goroutines:
every task accepted by `AddTask` is in exactly one of: the container, the commander buffer, the hands of one
goroutine (producer handing over, flusher, `Flush`/`Wait` caller — before or inside the callback), or the
multiset of tasks whose callback has ended. In particular a task reaches the callback at most once, and is
never dropped — across threshold hand-overs, periodic flushes, explicit flushes, flusher quit and restart. -/
theorem no_loss_no_dup (cfg : Cfg) (s : St) (h : Reachable cfg s) (x : Task) :
    s.added.count x = s.container.count x + inCommander x s + inHands x s + s.finished.count x :=
  (inv_reachable h).cons x

/-- a goroutine holds tasks only between taking a batch and the end of its callback -/
theorem hands_empty_outside_execution (cfg : Cfg) (s : St) (h : Reachable cfg s) (t : Nat) (th : Thread)
    (ht : s.thr[t]? = some th) (hp : holds th.pc = false) : th.reg = [] :=
  (inv_reachable h).empty t th ht hp

/-- **Exactly once at rest**: when nothing is pending (container and commander empty, nobody holds a batch),
the tasks whose callback ended are a permutation of the tasks added. -/
theorem exactly_once_at_rest (cfg : Cfg) (s : St) (h : Reachable cfg s) (hc : s.container = [])
    (hcmd : s.commander = none) (hh : ∀ (t : Nat) (th : Thread), s.thr[t]? = some th → th.reg = []) :
    s.finished.Perm s.added := by
  rw [List.perm_iff_count]
  intro x
  have := no_loss_no_dup cfg s h x
  have h0 : inHands x s = 0 := by
    unfold inHands
    have : ∀ l : List Thread, (∀ th ∈ l, th.reg = []) → (l.map fun th => th.reg.count x).sum = 0 := by
      intro l hl
      induction l with
      | nil => rfl
      | cons a l ih => simp [hl a (by simp), ih (fun th hth => hl th (by simp [hth]))]
    apply this
    intro th hth
    obtain ⟨t, ht, rfl⟩ := List.getElem_of_mem hth
    exact hh t _ (by simp [ht])
  simp [hc, inCommander, hcmd, h0] at this
  omega

/-- **A panicking callback loses only its own batch**: a callback that panics is, for everybody else,
the same step as a callback that returns — same container, commander, counters and goroutine states
(`RunSafe` recovers, the deferred `wg.Done` still runs next); only the ghost `lost` records the batch. -/
theorem panic_loses_own_batch_only (cfg : Cfg) (s s' : St) (t : Nat)
    (h : step cfg s t (.cbEnd true) = some s') :
    step cfg s t (.cbEnd false) = some { s' with lost := s.lost } ∧
    ∃ th, s.thr[t]? = some th ∧ s'.lost = s.lost ++ th.reg ∧ s'.finished = s.finished ++ th.reg := by
  unfold step at h ⊢
  simp only at h ⊢
  split at h
  · simp at h
  · rename_i th hth
    simp only [hth]
    unfold stepTh at h ⊢
    split at h <;> simp_all [St.upd]
    all_goals (subst h; simp)

/-! ### Wait covers prior adds

`th.snap` = the tasks accepted (`AddTask` done) before this goroutine called `Wait`; `.wUnbarrier` =
`waitGroup.Wait()` has returned.  The proof is by the invariant `WInv` of ProofsWait.lean (wg = number of
goroutines between wg.Add and wg.Done; inflight = number of handed-over batches not yet decremented; per Wait
caller a phase inequality), which holds initially and is preserved by every row of the step table of the fixed
code (ProofsWaitStep.lean: one lemma per row, `winv_step`).  The pinned (pre-fix) order violates the property
(`pinned_wait_misses_handover`). -/

/-- the Wait invariant holds in every reachable configuration of the fixed code -/
theorem wait_invariant_reachable (cfg : Cfg) (hfix : cfg.fixed = true) (s : St) (h : Reachable cfg s) : WInv s :=
  winv_reachable hfix h

/-- **Wait covers prior adds** (fixed code, every schedule, any number of goroutines): when `Wait` has come back
from `waitGroup.Wait()`, the callback of every task that was accepted before `Wait` was called has ended. -/
theorem wait_covers_prior_adds (cfg : Cfg) (hfix : cfg.fixed = true) (s : St) (h : Reachable cfg s)
    (t : Nat) (th : Thread) (ht : s.thr[t]? = some th) (hpc : th.pc = .wUnbarrier) (x : Task) :
    th.snap.count x ≤ s.finished.count x :=
  ((winv_reachable hfix h).ph t th ht x).2.2 (by simp [hpc, phase])

/-- the two decisive steps on the way: once `Wait` has seen `inflight ≤ 0`, every prior task is finished or in
the hands of a goroutine that is counted in the wait group … -/
theorem wait_after_spin_covers (cfg : Cfg) (hfix : cfg.fixed = true) (s : St) (h : Reachable cfg s)
    (t : Nat) (th : Thread) (ht : s.thr[t]? = some th) (hpc : th.pc = .wBarrier ∨ th.pc = .wWait) (x : Task) :
    th.snap.count x ≤ s.finished.count x + eHeld x s :=
  ((winv_reachable hfix h).ph t th ht x).2.1 (by rcases hpc with h | h <;> simp [h, phase])

/-- … and the counters mean what the protocol needs: `wg` counts exactly the goroutines between `wg.Add(1)` and
`wg.Done()`, `inflight` exactly the batches between `RemoveAll` in `addAndCheck` and the flusher's decrement. -/
theorem counters_exact (cfg : Cfg) (hfix : cfg.fixed = true) (s : St) (h : Reachable cfg s) :
    s.wg = nEntered s ∧ s.inflight = ((nLimbo s + cmd01 s : Nat) : Int) :=
  ⟨(winv_reachable hfix h).wg, (winv_reachable hfix h).infl⟩

/-- non-vacuity: on the fixed code a `Wait` does get to `.wUnbarrier` with a non-empty snapshot (caller 0 adds
task 1, caller 1 calls Wait, flushes it itself, the callback returns, the spin and the wait group let it pass) -/
def waitSchedule : List (Nat × Act) :=
  [(0, .add 1), (0, .tau), (0, .tau), (0, .tau), (0, .tau), (0, .tau),
   (1, .wait), (1, .tau), (1, .tau), (1, .tau), (1, .tau), (1, .tau), (1, .cbEnd false),
   (1, .tau), (1, .tau), (1, .tau), (1, .tau)]

example : ∃ s th, Reachable { full := bulkFull 2, fixed := true } s ∧ s.thr[1]? = some th ∧
    th.pc = .wUnbarrier ∧ th.snap = [1] ∧ s.finished = [1] := by
  have hr : ∃ s, run { full := bulkFull 2, fixed := true } (init 3) waitSchedule = some s ∧
      ∃ th, s.thr[1]? = some th ∧ th.pc = .wUnbarrier ∧ th.snap = [1] ∧ s.finished = [1] := by decide
  obtain ⟨s, h1, th, h2⟩ := hr
  exact ⟨s, th, reachable_run (Reachable.init 3) _ h1, h2⟩

/-- the schedule of the defect found on the unfixed code (replayed on the real code by the harness, section 0):
caller 0 fills a batch (1,2) whose callback is still running in the flusher (goroutine 3), adds 3; caller 1
adds 4, takes the batch (3,4) and parks it in the commander; caller 2 calls Wait; the first callback ends. -/
def pinnedSchedule : List (Nat × Act) :=
  [(0, .add 1), (0, .tau), (0, .tau), (0, .tau), (0, .tau), (0, .tau), (3, .start),
   (0, .add 2), (0, .tau), (0, .tau), (0, .tau), (0, .tau), (0, .tau), (0, .tau), (0, .tau),
   (3, .tau), (3, .tau), (3, .tau), (3, .confirm 0), (3, .tau),
   (0, .add 3), (0, .tau), (0, .tau), (0, .tau), (0, .tau),
   (1, .add 4), (1, .tau), (1, .tau), (1, .tau), (1, .tau), (1, .tau), (1, .tau), (1, .tau),
   (2, .wait), (2, .tau), (2, .tau), (2, .tau), (2, .tau), (2, .tau), (2, .tau), (2, .tau),
   (3, .cbEnd false), (3, .tau), (3, .tau), (3, .tau), (2, .tau)]

def missedAt (s : St) : Bool :=
  match s.thr[2]? with
  | some th => th.pc == .wUnbarrier && th.snap.contains 3 && !(s.finished.contains 3) && (s.added == [1, 2, 3, 4])
  | none => false

/-- **Witness of the defect** (pinned order: the flusher decrements `inflight` and only then enters the wait
group; `Wait` does not look at `inflight`): there is a schedule after which `Wait` has returned while task 3,
accepted before `Wait` was called, has not reached the callback. -/
theorem pinned_wait_misses_handover :
    (run { full := bulkFull 2, fixed := false } (init 4) pinnedSchedule).map missedAt = some true := by
  decide

/-- the same schedule is not executable on the fixed code: `Wait` is held back by `inflight > 0`. -/
theorem fixed_blocks_pinned_schedule :
    (run { full := bulkFull 2, fixed := true } (init 4) pinnedSchedule).isNone = true := by
  decide

/-- non-vacuity: the state after the defect schedule (4 goroutines: two producers, a Wait caller, a flusher;
one batch finished, one parked in a goroutine's hands) is reachable, and the conservation equation holds
there with a non-trivial split: task 3 is neither in the container nor finished — it is in the flusher's hands. -/
example : ∃ s, Reachable { full := bulkFull 2, fixed := false } s ∧ s.added = [1, 2, 3, 4] ∧
    s.finished = [1, 2] ∧ s.container = [] ∧ inHands 3 s = 1 := by
  have hr : ∃ s, run { full := bulkFull 2, fixed := false } (init 4) pinnedSchedule = some s ∧
      s.added = [1, 2, 3, 4] ∧ s.finished = [1, 2] ∧ s.container = [] ∧ inHands 3 s = 1 := by decide
  obtain ⟨s, h1, h2⟩ := hr
  exact ⟨s, reachable_run (Reachable.init 4) _ h1, h2⟩

end GoZero.C11
