/-
C11 — helper lemmas for the flusher-existence invariant (PropsGuard.lean): counting goroutines by the kind of
their pc, and the preservation of the invariant by every row of the step table.
-/
import GoZero.C11.Proofs
set_option linter.unusedSimpArgs false
set_option linter.unusedVariables false
namespace GoZero.C11

/-- a producer inside the critical section of `addAndCheck` that has appended its task and has not yet run the
deferred `if !pe.guarded { pe.guarded = true; defer pe.backgroundFlush() }` -/
def preGuard : Pc → Bool
  | .aInc => true | .aRemove => true | .aGuard _ => true
  | _ => false

/-- a background flusher that has DECIDED to quit (`shallQuit` reset `guarded` and said stop) and has not yet taken
the container in its deferred `Flush` -/
def quitting : Pc → Bool
  | .qUnlock true => true | .fEnter .quit => true | .fLock .quit => true | .fRemove .quit => true
  | _ => false

/-- a producer that has set `guarded` and has not yet issued `go` for the new flusher -/
def spawning : Pc → Bool
  | .aUnlock _ true => true | .aSpawn _ => true
  | _ => false

/-- a live background flusher: from its start to its quit decision -/
def flusherPc : Pc → Bool
  | .bSelect _ => true | .bDec => true | .bEnter => true | .bEnterF => true | .bDecF => true | .bConfirm => true
  | .bExec => true | .bCall => true | .bDone => true | .bQuit => true | .qLock => true | .qCheck => true
  | .qUnlock false => true
  | .fEnter .tick => true | .fLock .tick => true | .fRemove .tick => true | .fUnlock .tick => true
  | .fExec .tick => true | .fCall .tick => true | .fDone .tick _ => true
  | _ => false

def b2n (b : Bool) : Nat := if b then 1 else 0

/-- number of goroutines whose pc is of kind `p` -/
def cnt (p : Pc → Bool) (s : St) : Nat := sumBy (fun th => b2n (p th.pc)) s.thr

theorem cnt_upd (p : Pc → Bool) (s0 : St) (t : Nat) (th th' : Thread) (hth : s0.thr[t]? = some th) :
    cnt p (s0.upd t th') = cnt p s0 + b2n (p th'.pc) - b2n (p th.pc) ∧ b2n (p th.pc) ≤ cnt p s0 :=
  ⟨sumBy_set (fun th => b2n (p th.pc)) hth th', sumBy_mem_le (fun th => b2n (p th.pc)) hth⟩

/-- **flusher-existence invariant**.  `pending`: while tasks are in the container, somebody is committed to flush
them periodically — `guarded` is set (a flusher exists, see `alive`), or a producer is about to set it, or a quitting
flusher is on its way to its deferred Flush.  `alive`: while `guarded` is set, a flusher goroutine is alive (between
its start and its quit decision), or its `go` statement is pending / about to be issued. -/
structure GInv (s : St) : Prop where
  pending : s.container ≠ [] → 0 < b2n s.guarded + cnt preGuard s + cnt quitting s
  alive : s.guarded = true → 0 < s.spawn + cnt spawning s + cnt flusherPc s

theorem ginv_init (n : Nat) : GInv (init n) := by
  constructor <;> simp [init]

/-- preservation by a step of one goroutine that rewrites its own thread record and some shared fields -/
theorem ginv_upd (s s0 : St) (t : Nat) (th th' : Thread) (hthr : s0.thr = s.thr) (hth : s.thr[t]? = some th)
    (hi : GInv s)
    (hp : s0.container ≠ [] →
      0 < b2n s0.guarded + (cnt preGuard s + b2n (preGuard th'.pc) - b2n (preGuard th.pc))
            + (cnt quitting s + b2n (quitting th'.pc) - b2n (quitting th.pc)))
    (ha : s0.guarded = true →
      0 < s0.spawn + (cnt spawning s + b2n (spawning th'.pc) - b2n (spawning th.pc))
            + (cnt flusherPc s + b2n (flusherPc th'.pc) - b2n (flusherPc th.pc))) :
    GInv (s0.upd t th') := by
  have hth0 : s0.thr[t]? = some th := by rw [hthr]; exact hth
  have e : ∀ p, cnt p s0 = cnt p s := by intro p; simp [cnt, hthr]
  constructor
  · intro hc
    have := hp hc
    simp only [(cnt_upd _ s0 t th th' hth0).1, e]
    exact this
  · intro hg
    have := ha hg
    simp only [(cnt_upd _ s0 t th th' hth0).1, e]
    exact this

@[simp] theorem quitting_qUnlock (b : Bool) : quitting (.qUnlock b) = b := by cases b <;> rfl
@[simp] theorem quitting_fEnter (c : Ctx) : quitting (.fEnter c) = (c == .quit) := by cases c <;> rfl
@[simp] theorem quitting_fLock (c : Ctx) : quitting (.fLock c) = (c == .quit) := by cases c <;> rfl
@[simp] theorem quitting_fRemove (c : Ctx) : quitting (.fRemove c) = (c == .quit) := by cases c <;> rfl
@[simp] theorem spawning_aUnlock (a b : Bool) : spawning (.aUnlock a b) = b := by cases b <;> rfl
@[simp] theorem flusherPc_qUnlock (b : Bool) : flusherPc (.qUnlock b) = !b := by cases b <;> rfl
@[simp] theorem flusherPc_fEnter (c : Ctx) : flusherPc (.fEnter c) = (c == .tick) := by cases c <;> rfl
@[simp] theorem flusherPc_fLock (c : Ctx) : flusherPc (.fLock c) = (c == .tick) := by cases c <;> rfl
@[simp] theorem flusherPc_fRemove (c : Ctx) : flusherPc (.fRemove c) = (c == .tick) := by cases c <;> rfl
@[simp] theorem flusherPc_fUnlock (c : Ctx) : flusherPc (.fUnlock c) = (c == .tick) := by cases c <;> rfl
@[simp] theorem flusherPc_fExec (c : Ctx) : flusherPc (.fExec c) = (c == .tick) := by cases c <;> rfl
@[simp] theorem flusherPc_fCall (c : Ctx) : flusherPc (.fCall c) = (c == .tick) := by cases c <;> rfl
@[simp] theorem flusherPc_fDone (c : Ctx) (b : Bool) : flusherPc (.fDone c b) = (c == .tick) := by cases c <;> rfl

@[simp] theorem b2n_true : b2n true = 1 := rfl
@[simp] theorem b2n_false : b2n false = 0 := rfl

macro "gclose" : tactic => `(tactic| (
  intro hh
  first
  | (simp_all [preGuard, quitting, spawning, flusherPc, flushRet]; done)
  | (simp_all [preGuard, quitting, spawning, flusherPc, flushRet]; omega)
  | (split <;> simp_all [preGuard, quitting, spawning, flusherPc, flushRet] <;> omega)
  | (cases ‹Ctx› <;> simp_all [preGuard, quitting, spawning, flusherPc, flushRet] <;> omega)
  | (cases ‹Ctx› <;> split <;> simp_all [preGuard, quitting, spawning, flusherPc, flushRet] <;> omega)))

theorem ginv_step (cfg : Cfg) (s s' : St) (t : Nat) (a : Act) (hi : GInv s) (h : step cfg s t a = some s') : GInv s' := by
  unfold step at h
  split at h
  · simp at h; subst h; exact ⟨hi.pending, hi.alive⟩
  · split at h
    · simp at h
    · rename_i th hth
      have hp := hi.pending
      have ha := hi.alive
      have l1 := (cnt_upd preGuard s t th th hth).2
      have l2 := (cnt_upd quitting s t th th hth).2
      have l3 := (cnt_upd spawning s t th th hth).2
      have l4 := (cnt_upd flusherPc s t th th hth).2
      unfold stepTh at h
      split at h
      all_goals (try (split at h))
      all_goals (try (simp only [reduceCtorEq] at h; done))
      all_goals (try (
        simp only [Option.some.injEq] at h
        subst h
        refine ginv_upd s _ t th _ rfl hth hi ?_ ?_
        · gclose
        · gclose))
      -- bConfirm: the rendezvous moves two goroutines (the flusher stays a flusher, the producer leaves Add)
      · rename_i u hpc _ _ tu hu
        split at h
        · rename_i hp2
          simp only [Option.some.injEq] at h; subst h
          have h1 : GInv (s.upd t { th with pc := .bExec }) := by
            refine ginv_upd s s t th _ rfl hth hi ?_ ?_
            · intro hh; have := hp hh; simp_all [preGuard, quitting, spawning, flusherPc]
            · intro hh; have := ha hh; simp_all [preGuard, quitting, spawning, flusherPc]
          have hne : t ≠ u := by
            rintro rfl; rw [hth] at hu; cases hu; rw [hpc] at hp2; cases hp2
          have hu' : (s.upd t { th with pc := .bExec }).thr[u]? = some tu := by
            rw [getElem?_upd]; simp [hne, hu]
          have m1 := (cnt_upd preGuard _ u tu tu hu').2
          have m2 := (cnt_upd quitting _ u tu tu hu').2
          have m3 := (cnt_upd spawning _ u tu tu hu').2
          have m4 := (cnt_upd flusherPc _ u tu tu hu').2
          refine ginv_upd _ _ u tu _ rfl hu' h1 ?_ ?_
          · intro hh; have := h1.pending hh; simp_all [preGuard, quitting, spawning, flusherPc]
          · intro hh; have := h1.alive hh; simp_all [preGuard, quitting, spawning, flusherPc]
        · simp at h

theorem ginv_reachable {cfg : Cfg} {s : St} (h : Reachable cfg s) : GInv s := by
  induction h with
  | init n => exact ginv_init n
  | step t a _ hs ih => exact ginv_step cfg _ _ t a ih hs

end GoZero.C11
