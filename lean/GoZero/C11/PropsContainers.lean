/-
C11 — property theorems about the containers (bulkContainer, chunkContainer, sqlx dbInserter) over Go's slice
semantics (Containers.lean): they obey the `TaskContainer` laws that the PeriodicalExecutor model assumes when it
keeps the container as `container : List Task` with a threshold predicate `cfg.full`:

  * AddTask appends the task and returns true IFF the threshold is reached (bulk: len >= maxTasks; chunk: the
    accumulated declared sizes >= maxChunkSize, for ANY Go int sizes — zero, negative, huge; sqlx: len >= 1000);
  * RemoveAll returns exactly the tasks added since the last RemoveAll, each once, in order, and leaves nothing;
  * the returned batch is NOT ALIASED: no later AddTask / RemoveAll changes what it shows (the container drops its
    reference: `= nil`), for every growth policy of `append`, every threshold (also 0, negative, 1) and every run.
-/
import GoZero.C11.ProofsContainers
import GoZero.C11.Model
namespace GoZero.C11

/-- **the three containers are lawful** (for every `append` growth policy, every threshold, every size function) -/
theorem containers_lawful (grow : Nat → Nat) (size : Task → Int) :
    Lawful (bulkTC (α := Task) grow) ∧ Lawful (chunkTC grow size) ∧ Lawful (sqlTC (α := String) grow) :=
  ⟨bulk_lawful grow, chunk_lawful grow size, sql_lawful grow⟩

/-- **a lawful container refines the list container of the executor model, on every run**: the answers of AddTask
are the threshold predicate on the pending list, every batch handed out by RemoveAll — read in the FINAL heap,
i.e. however late the callback looks at it — is the list of tasks added since the previous RemoveAll, in order,
and what is left at the end is the pending list. -/
theorem container_refines_list {σ α : Type} (C : TaskContainer σ α) (law : Lawful C) (h : Heap α) (c : σ)
    (hi : C.inv h c) (ops : List (COp α)) :
    (runC C h c ops).2.2.map (COut.view (runC C h c ops).1) = (runA (C.full c) (h.read (C.tasks c)) ops).2 ∧
    (runC C h c ops).1.read (C.tasks (runC C h c ops).2.1) = (runA (C.full c) (h.read (C.tasks c)) ops).1 :=
  runC_refines law ops h c hi

/-- **RemoveAll's batch is not aliased by later Adds**: whatever the container does after handing out `b`,
`b` shows the same tasks. -/
theorem returned_batch_not_aliased {σ α : Type} (C : TaskContainer σ α) (law : Lawful C) (h : Heap α) (c : σ)
    (hi : C.inv h c) (later : List (COp α)) :
    (runC C h (C.removeAll c).1 later).1.read (C.removeAll c).2 = h.read (C.tasks c) := by
  rw [law.remove_batch]
  exact runC_stable law later h _ _ (law.remove_inv h c hi) (law.remove_known h c hi) (Or.inl (law.remove_nil c))

/-- the bulk executor's container from `NewBulkExecutor(…, WithBulkTasks(max))`, any `max` (also 0 / negative / 1):
the executor model's `bulkFull max` list container, on every run from the empty container -/
theorem bulk_refines_model (grow : Nat → Nat) (max : Int) (ops : List (COp Task)) :
    (runC (bulkTC grow) {} { maxTasks := max } ops).2.2.map (COut.view (runC (bulkTC grow) {} { maxTasks := max } ops).1)
      = (runA (bulkFull max) [] ops).2 := by
  have := (container_refines_list (bulkTC grow) (bulk_lawful grow) ({} : Heap Task) { maxTasks := max }
    (Heap.wf_nil _) ops).1
  have hf : (bulkTC (α := Task) grow).full { maxTasks := max } = bulkFull max := rfl
  have hr : ({} : Heap Task).read ((bulkTC (α := Task) grow).tasks { maxTasks := max }) = [] := rfl
  rw [hf, hr] at this; exact this

/-- the chunk executor's container from `NewChunkExecutor(…, WithChunkBytes(max))`: `chunkFull size max` -/
theorem chunk_refines_model (grow : Nat → Nat) (size : Task → Int) (max : Int) (ops : List (COp Task)) :
    (runC (chunkTC grow size) {} { maxChunkSize := max } ops).2.2.map
        (COut.view (runC (chunkTC grow size) {} { maxChunkSize := max } ops).1)
      = (runA (chunkFull size max) [] ops).2 := by
  have := (container_refines_list (chunkTC grow size) (chunk_lawful grow size) ({} : Heap Task) { maxChunkSize := max }
    ⟨Heap.wf_nil _, by simp [Heap.read]⟩ ops).1
  have hf : (chunkTC grow size).full { maxChunkSize := max } = chunkFull size max := rfl
  have hr : ({} : Heap Task).read ((chunkTC grow size).tasks { maxChunkSize := max }) = [] := rfl
  rw [hf, hr] at this; exact this

/-- the sqlx inserter's container: the bulk list container with the constant threshold `maxBulkRows` -/
theorem sqlx_refines_model (grow : Nat → Nat) (ops : List (COp String)) :
    (runC (sqlTC grow) {} {} ops).2.2.map (COut.view (runC (sqlTC grow) {} {} ops).1)
      = (runA (fun l => decide ((l.length : Int) ≥ maxBulkRows)) [] ops).2 := by
  have := (container_refines_list (sqlTC grow) (sql_lawful grow) ({} : Heap String) {} (Heap.wf_nil _) ops).1
  have hr : ({} : Heap String).read ((sqlTC (α := String) grow).tasks {}) = [] := rfl
  rw [hr] at this; exact this

/-- the abstract run, read as the property reads it: the adds `xs` since the last RemoveAll come back as ONE batch,
in order, and nothing stays behind -/
theorem runA_batch {α : Type} (full : List α → Bool) (pending xs : List α) :
    (runA full pending (xs.map COp.add ++ [COp.removeAll])).2.getLast? = some (AOut.batch (pending ++ xs)) ∧
    (runA full pending (xs.map COp.add ++ [COp.removeAll])).1 = [] := by
  induction xs generalizing pending with
  | nil => simp [runA]
  | cons x xs ih =>
    have := ih (pending ++ [x])
    simp only [List.map_cons, List.cons_append, runA, List.append_assoc] at this ⊢
    refine ⟨?_, this.2⟩
    rw [List.getLast?_cons]
    rw [this.1]; rfl

/-- the executor model touches its container only through this interface: row `aAdd` is one `add` of `runA`
(and branches on its answer), rows `aRemove` / `fRemove` are one `removeAll` -/
theorem executor_rows_are_container_ops (cfg : Cfg) (s : St) (t : Nat) (th : Thread) :
    (∀ x, th.pc = .aAdd x → stepTh cfg s t th .tau =
      some ({ s with container := (runA cfg.full s.container [.add x]).1, added := s.added ++ [x] }.upd t
        { th with pc := if (runA cfg.full s.container [.add x]).2 = [AOut.full true] then .aInc else .aGuard false })) ∧
    (th.pc = .aRemove → stepTh cfg s t th .tau =
      some ({ s with container := (runA cfg.full s.container [.removeAll]).1 }.upd t
        { th with pc := .aGuard true, reg := s.container }) ∧
      (runA cfg.full s.container [.removeAll]).2 = [AOut.batch s.container]) ∧
    (∀ c, th.pc = .fRemove c → stepTh cfg s t th .tau =
      some ({ s with container := (runA cfg.full s.container [.removeAll]).1 }.upd t
        { th with pc := .fUnlock c, reg := s.container })) := by
  refine ⟨?_, ?_, ?_⟩
  · intro x hpc
    unfold stepTh
    simp only [hpc, runA]
    by_cases hb : cfg.full (s.container ++ [x]) = true <;> simp [hb]
  · intro hpc
    unfold stepTh
    simp [hpc, runA]
  · intro c hpc
    unfold stepTh
    simp [hpc, runA]

/-! ### the SQL statement of `dbInserter.Execute` -/

/-- every row of the batch is in the statement exactly once, in order, between the prefix and the (optional) suffix -/
theorem sql_rows_exactly_once (pre suffix : String) (values : List String) :
    rowsOf (sqlPieces pre suffix values) = values := by
  have h : ∀ vs : List String, rowsOf (rowPieces vs) = vs := by
    intro vs
    induction vs with
    | nil => rfl
    | cons v rest ih =>
      cases rest with
      | nil => rfl
      | cons w rest => simp only [rowPieces, rowsOf, List.filterMap_cons] at ih ⊢; rw [ih]
  unfold sqlPieces rowsOf
  simp only [List.filterMap_append, List.filterMap_cons, List.filterMap_nil, List.nil_append]
  have := h values
  unfold rowsOf at this
  rw [this]
  split <;> simp

/-- an empty batch is not executed (`if len(values) == 0 { return }`); a non-empty one always is -/
theorem sql_stmt_none_iff (pre suffix : String) (values : List String) :
    (sqlStmt pre suffix values).isNone = true ↔ values = [] := by
  unfold sqlStmt
  cases values <;> simp

/-! ### non-vacuity -/

/-- a run with a hand-over in the middle: threshold 2, tasks 1 2 3, RemoveAll after 2 and at the end; the first
batch is read AFTER task 3 was appended -/
example :
    let r := runC (bulkTC (α := Task) (fun n => n)) {} { maxTasks := 2 } [.add 1, .add 2, .removeAll, .add 3, .removeAll]
    r.2.2.map (COut.view r.1) = [.full false, .full true, .batch [1, 2], .full false, .batch [3]] := by decide

/-- zero-size and negative-size chunk tasks are kept and handed out (size function: the task number minus 2) -/
example :
    let r := runC (chunkTC (α := Task) (fun n => n) (fun x => (x : Int) - 2)) {} { maxChunkSize := 3 }
      [.add 2, .add 1, .removeAll, .add 2, .add 7, .removeAll]
    r.2.2.map (COut.view r.1) = [.full false, .full false, .batch [2, 1], .full false, .full true, .batch [2, 7]] := by
  decide

/-- the laws have teeth: a RemoveAll that keeps the backing array (`bc.tasks = bc.tasks[:0]`) hands out a batch
that the next AddTask overwrites — the batch [1, 2] reads [3, 2] afterwards -/
def BulkC.removeAllKeep (c : BulkC) : BulkC × Slice := ({ c with tasks := Heap.slice0 c.tasks }, c.tasks)

example :
    let g : Nat → Nat := fun n => n
    let a1 := BulkC.addTask (α := Task) g {} { maxTasks := 2 } 1
    let a2 := BulkC.addTask g a1.1 a1.2.1 2
    let rm := BulkC.removeAllKeep a2.2.1
    let a3 := BulkC.addTask g a2.1 rm.1 3
    a2.1.read rm.2 = [1, 2] ∧ a3.1.read rm.2 = [3, 2] := by decide

example : sqlStmt "insert into t(a) values" "on duplicate key update a=values(a)" ["(1)", "(2)"]
    = some "insert into t(a) values (1), (2) on duplicate key update a=values(a)" := by decide

example : sqlStmt "insert into t(a) values" "" ["(1)"] = some "insert into t(a) values (1)" := by decide

end GoZero.C11
