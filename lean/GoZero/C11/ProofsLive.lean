/-
C11 — helper lemmas for deadlock freedom (PropsLive.lean): the ownership invariant `DInv` (who holds pe.lock and
pe.wgBarrier, who waits for a confirmation, what `inflight > 0` promises, what the container holds at rest) and its
preservation by every row of the step table.
-/
import GoZero.C11.ProofsGuard
import GoZero.C11.ProofsWait
set_option linter.unusedSimpArgs false
set_option linter.unusedVariables false
namespace GoZero.C11

/-- inside the critical section of pe.lock -/
def lockRegion : Pc → Bool
  | .aAdd _ => true | .aInc => true | .aRemove => true | .aGuard _ => true | .aUnlock _ _ => true
  | .fRemove _ => true | .fUnlock _ => true | .qCheck => true | .qUnlock _ => true
  | _ => false

/-- inside `pe.wgBarrier.Guard` of Wait -/
def barrierHolder : Pc → Bool
  | .wWait => true | .wUnbarrier => true
  | _ => false

/-- a producer waiting for the confirmation of its hand-over -/
def atConfirm : Pc → Bool
  | .aConfirm => true
  | _ => false

/-- a flusher between the commander receive and the confirmation -/
def taken : Pc → Bool
  | .bDec => true | .bEnter => true | .bEnterF => true | .bDecF => true | .bConfirm => true
  | _ => false

/-- between `AddTask` answering "full" and `RemoveAll` (inside the critical section) -/
def midHandover : Pc → Bool
  | .aInc => true | .aRemove => true
  | _ => false

structure DInv (cfg : Cfg) (s : St) : Prop where
  /-- pe.lock is held exactly while one goroutine is inside a critical section -/
  lockOwn : cnt lockRegion s = b2n s.lock
  /-- pe.wgBarrier is held exactly while one Wait is inside its Guard -/
  barOwn : cnt barrierHolder s = b2n s.barrier
  /-- every producer waiting for a confirmation has its batch in the commander or in the hands of a flusher that will confirm -/
  conf : cnt atConfirm s = cmd01 s + cnt taken s
  /-- a batch on its way to the flusher keeps the flusher alive: `inflight > 0` implies `guarded` (or a producer is about to set it) -/
  infl : 0 < s.inflight → 0 < b2n s.guarded + cnt preGuard s
  /-- outside a hand-over the container is below its threshold -/
  rest : cnt midHandover s = 0 → s.container = [] ∨ cfg.full s.container = false

theorem dinv_init (cfg : Cfg) (n : Nat) : DInv cfg (init n) := by
  constructor <;> simp [init, cnt, sumBy_replicate, b2n, cmd01, lockRegion, barrierHolder, atConfirm, taken]

theorem dinv_upd (cfg : Cfg) (s s0 : St) (t : Nat) (th th' : Thread) (hthr : s0.thr = s.thr) (hth : s.thr[t]? = some th)
    (h1 : cnt lockRegion s + b2n (lockRegion th'.pc) - b2n (lockRegion th.pc) = b2n s0.lock)
    (h2 : cnt barrierHolder s + b2n (barrierHolder th'.pc) - b2n (barrierHolder th.pc) = b2n s0.barrier)
    (h3 : cnt atConfirm s + b2n (atConfirm th'.pc) - b2n (atConfirm th.pc)
          = cmd01 s0 + (cnt taken s + b2n (taken th'.pc) - b2n (taken th.pc)))
    (h4 : 0 < s0.inflight → 0 < b2n s0.guarded + (cnt preGuard s + b2n (preGuard th'.pc) - b2n (preGuard th.pc)))
    (h5 : cnt midHandover s + b2n (midHandover th'.pc) - b2n (midHandover th.pc) = 0 →
          s0.container = [] ∨ cfg.full s0.container = false) :
    DInv cfg (s0.upd t th') := by
  have hth0 : s0.thr[t]? = some th := by rw [hthr]; exact hth
  have e : ∀ p, cnt p s0 = cnt p s := by intro p; simp [cnt, hthr]
  have c0 : cmd01 (s0.upd t th') = cmd01 s0 := rfl
  constructor
  · simp only [(cnt_upd _ s0 t th th' hth0).1, e]; exact h1
  · simp only [(cnt_upd _ s0 t th th' hth0).1, e]; exact h2
  · simp only [(cnt_upd _ s0 t th th' hth0).1, e, c0]; exact h3
  · intro hh; have := h4 hh; simp only [(cnt_upd _ s0 t th th' hth0).1, e]; exact this
  · intro hh; simp only [(cnt_upd _ s0 t th th' hth0).1, e] at hh; exact h5 hh

@[simp] theorem lockRegion_fLock (c : Ctx) : lockRegion (.fLock c) = false := rfl
@[simp] theorem lockRegion_fEnter (c : Ctx) : lockRegion (.fEnter c) = false := rfl

macro "dclose" : tactic => `(tactic| (
  first
  | (simp_all [lockRegion, barrierHolder, atConfirm, taken, preGuard, midHandover, cmd01, flushRet]; done)
  | (simp_all [lockRegion, barrierHolder, atConfirm, taken, preGuard, midHandover, cmd01, flushRet]; omega)
  | (intro hh; simp_all [lockRegion, barrierHolder, atConfirm, taken, preGuard, midHandover, cmd01, flushRet]; done)
  | (intro hh; simp_all [lockRegion, barrierHolder, atConfirm, taken, preGuard, midHandover, cmd01, flushRet]; omega)
  | (split <;> simp_all [lockRegion, barrierHolder, atConfirm, taken, preGuard, midHandover, cmd01, flushRet] <;> omega)
  | (intro hh; split <;> simp_all [lockRegion, barrierHolder, atConfirm, taken, preGuard, midHandover, cmd01, flushRet] <;> omega)
  | (cases ‹Ctx› <;> simp_all [lockRegion, barrierHolder, atConfirm, taken, preGuard, midHandover, cmd01, flushRet] <;> omega)
  | (intro hh; cases ‹Ctx› <;> simp_all [lockRegion, barrierHolder, atConfirm, taken, preGuard, midHandover, cmd01, flushRet] <;> omega)
  | (cases ‹Ctx› <;> (try split) <;> simp_all [lockRegion, barrierHolder, atConfirm, taken, preGuard, midHandover, cmd01, flushRet] <;> omega)
  | (intro hh; cases ‹Ctx› <;> (try split) <;> simp_all [lockRegion, barrierHolder, atConfirm, taken, preGuard, midHandover, cmd01, flushRet] <;> omega)))

theorem b2n_le (b : Bool) : b2n b ≤ 1 := by cases b <;> simp

theorem dinv_step (cfg : Cfg) (s s' : St) (t : Nat) (a : Act) (hi : DInv cfg s) (h : step cfg s t a = some s') :
    DInv cfg s' := by
  unfold step at h
  split at h
  · simp at h; subst h; exact ⟨hi.lockOwn, hi.barOwn, hi.conf, hi.infl, hi.rest⟩
  · split at h
    · simp at h
    · rename_i th hth
      have i1 := hi.lockOwn
      have i2 := hi.barOwn
      have i3 := hi.conf
      have i4 := hi.infl
      have i5 := hi.rest
      have l1 := (cnt_upd lockRegion s t th th hth).2
      have l2 := (cnt_upd barrierHolder s t th th hth).2
      have l3 := (cnt_upd atConfirm s t th th hth).2
      have l4 := (cnt_upd taken s t th th hth).2
      have l5 := (cnt_upd preGuard s t th th hth).2
      have l6 := (cnt_upd midHandover s t th th hth).2
      have b1 := b2n_le s.lock
      have b2 := b2n_le s.barrier
      unfold stepTh at h
      split at h
      all_goals (try (split at h))
      all_goals (try (simp only [reduceCtorEq] at h; done))
      all_goals (try (
        simp only [Option.some.injEq] at h
        subst h
        refine dinv_upd cfg s _ t th _ rfl hth ?_ ?_ ?_ ?_ ?_
        · dclose
        · dclose
        · dclose
        · dclose
        · dclose))
      -- fDone: where the Flush returns to depends on its context, on its result and on cfg.fixed
      · rename_i c ok _ _ _
        simp only [Option.some.injEq] at h
        subst h
        refine dinv_upd cfg s _ t th _ rfl hth ?_ ?_ ?_ ?_ ?_ <;>
          (cases c <;> cases ok <;> cases hf : cfg.fixed <;> (try intro hh) <;> simp_all [lockRegion, barrierHolder, atConfirm, taken, preGuard, midHandover, cmd01, flushRet] <;> omega)
      -- bConfirm: the rendezvous moves two goroutines
      · rename_i u hpc _ _ tu hu
        split at h
        · rename_i hp2
          simp only [Option.some.injEq] at h; subst h
          have hne : t ≠ u := by
            rintro rfl; rw [hth] at hu; cases hu; rw [hpc] at hp2; cases hp2
          have hu' : (s.upd t { th with pc := .bExec }).thr[u]? = some tu := by
            rw [getElem?_upd]; simp [hne, hu]
          have m1 := fun p => (cnt_upd p s t th { th with pc := .bExec } hth).1
          have m2 := fun p => (cnt_upd p _ u tu { tu with pc := .idle } hu').1
          have n1 := fun p => (cnt_upd p _ u tu tu hu').2
          have c0 : ∀ (x : St) (a : Nat) (b : Thread), cmd01 (x.upd a b) = cmd01 x := fun _ _ _ => rfl
          have k3 := n1 atConfirm
          have k1 := n1 lockRegion
          rw [m1] at k3 k1
          constructor
          · simp only [m2, m1]; simp_all [lockRegion, barrierHolder, atConfirm, taken, preGuard, midHandover, St.upd]
          · simp only [m2, m1]; simp_all [lockRegion, barrierHolder, atConfirm, taken, preGuard, midHandover, St.upd]
          · simp only [m2, m1, c0]; simp_all [lockRegion, barrierHolder, atConfirm, taken, preGuard, midHandover, St.upd]; omega
          · intro hh; have := i4 hh; simp only [m2, m1]; simp_all [lockRegion, barrierHolder, atConfirm, taken, preGuard, midHandover, St.upd]
          · intro hh; simp only [m2, m1] at hh; simp_all [lockRegion, barrierHolder, atConfirm, taken, preGuard, midHandover, St.upd]
        · simp at h

theorem dinv_reachable {cfg : Cfg} {s : St} (h : Reachable cfg s) : DInv cfg s := by
  induction h with
  | init n => exact dinv_init cfg n
  | step t a _ hs ih => exact dinv_step cfg _ _ t a ih hs

end GoZero.C11
