/-
C11 — termination measure for the internal actions of the goroutines (PropsLive.lean: no livelock, every run of
internal actions is finite): `mu` = sum over the goroutines of the number of atomic actions they still have to do
before they are back at rest (idle / the flusher's select), plus 8 for a batch in the commander (it sends a resting
flusher through the hand-over path once more) plus 1 per pending `go`.
-/
import GoZero.C11.ProofsLive
set_option linter.unusedSimpArgs false
set_option linter.unusedVariables false
namespace GoZero.C11

def cbase : Ctx → Nat
  | .ext => 0 | .quit => 0 | .wait => 4 | .tick => 11

def rank : Pc → Nat
  | .idle => 0
  | .aLock _ => 18 | .aAdd _ => 17 | .aInc => 16 | .aRemove => 15 | .aGuard _ => 14 | .aUnlock _ _ => 13
  | .aSpawn _ => 12 | .aSend => 10 | .aConfirm => 1
  | .fEnter c => cbase c + 7 | .fLock c => cbase c + 6 | .fRemove c => cbase c + 5 | .fUnlock c => cbase c + 4
  | .fExec c => cbase c + 3 | .fCall c => cbase c + 2 | .fDone c _ => cbase c + 1
  | .wSpin => 4 | .wBarrier => 3 | .wWait => 2 | .wUnbarrier => 1
  | .bSelect _ => 0 | .bDec => 6 | .bEnter => 5 | .bEnterF => 6 | .bDecF => 5 | .bConfirm => 4 | .bExec => 3
  | .bCall => 2 | .bDone => 1
  | .bQuit => 11 | .qLock => 10 | .qCheck => 9 | .qUnlock _ => 8

def work (s : St) : Nat := sumBy (fun th => rank th.pc) s.thr

def mu (s : St) : Nat := work s + 8 * cmd01 s + s.spawn

theorem work_upd (s0 : St) (t : Nat) (th th' : Thread) (hth : s0.thr[t]? = some th) :
    work (s0.upd t th') = work s0 + rank th'.pc - rank th.pc ∧ rank th.pc ≤ work s0 :=
  ⟨sumBy_set (fun th => rank th.pc) hth th', sumBy_mem_le (fun th => rank th.pc) hth⟩

/-- what a goroutine does by itself (callbacks end; API calls, ticks and the clock are the environment) -/
def internal : Act → Bool
  | .tau => true | .start => true | .confirm _ => true | .cbEnd _ => true
  | _ => false

theorem mu_upd (s s0 : St) (t : Nat) (th th' : Thread) (hthr : s0.thr = s.thr) (hth : s.thr[t]? = some th)
    (h : rank th'.pc + 8 * cmd01 s0 + s0.spawn < rank th.pc + 8 * cmd01 s + s.spawn) :
    mu (s0.upd t th') < mu s := by
  have hth0 : s0.thr[t]? = some th := by rw [hthr]; exact hth
  have e : work s0 = work s := by simp [work, hthr]
  have c0 : cmd01 (s0.upd t th') = cmd01 s0 := rfl
  have c1 : (s0.upd t th').spawn = s0.spawn := rfl
  have := work_upd s0 t th th' hth0
  simp only [mu, c0, c1, this.1, e]
  have := this.2
  rw [e] at this
  omega

/-- **every internal action strictly decreases the measure** -/
theorem mu_step (cfg : Cfg) (s s' : St) (t : Nat) (a : Act) (ha : internal a = true) (h : step cfg s t a = some s') :
    mu s' < mu s := by
  unfold step at h
  split at h
  · simp [internal] at ha
  · split at h
    · simp at h
    · rename_i th hth
      unfold stepTh at h
      split at h
      all_goals (try (simp [internal] at ha; done))
      all_goals (try (split at h))
      all_goals (try (simp only [reduceCtorEq] at h; done))
      all_goals (try (
        simp only [Option.some.injEq] at h
        subst h
        refine mu_upd s _ t th _ rfl hth ?_
        first
        | (simp_all [rank, cmd01, flushRet]; done)
        | (simp_all [rank, cmd01, flushRet]; omega)
        | (split <;> simp_all [rank, cmd01, flushRet] <;> omega)
        | (rename_i c ok _ _ _; cases c <;> cases ok <;> cases hf : cfg.fixed <;> simp_all [rank, cmd01, flushRet, cbase] <;> omega)))
      -- bConfirm: the rendezvous moves two goroutines, both closer to rest
      · rename_i u hpc _ _ tu hu
        split at h
        · rename_i hp2
          simp only [Option.some.injEq] at h; subst h
          have hne : t ≠ u := by
            rintro rfl; rw [hth] at hu; cases hu; rw [hpc] at hp2; cases hp2
          have hu' : (s.upd t { th with pc := .bExec }).thr[u]? = some tu := by
            rw [getElem?_upd]; simp [hne, hu]
          have w1 := work_upd s t th { th with pc := .bExec } hth
          have w2 := work_upd _ u tu { tu with pc := .idle } hu'
          have c0 : ∀ (x : St) (a : Nat) (b : Thread), cmd01 (x.upd a b) = cmd01 x := fun _ _ _ => rfl
          have c1 : ∀ (x : St) (a : Nat) (b : Thread), (x.upd a b).spawn = x.spawn := fun _ _ _ => rfl
          simp only [mu, c0, c1]
          rw [w2.1, w1.1]
          have := w1.2; have := w2.2
          rw [w1.1] at this
          simp [hpc, hp2, rank] at *
          omega
        · simp at h

theorem mu_run (cfg : Cfg) (sched : List (Nat × Act)) (s s' : St) (hall : ∀ p ∈ sched, internal p.2 = true)
    (h : run cfg s sched = some s') : mu s' + sched.length ≤ mu s := by
  induction sched generalizing s with
  | nil => simp [run] at h; subst h; simp
  | cons p rest ih =>
    obtain ⟨t, a⟩ := p
    simp only [run] at h
    split at h
    · simp at h
    · rename_i s1 hs1
      have h1 := mu_step cfg s s1 t a (hall (t, a) (by simp)) hs1
      have h2 := ih s1 (fun q hq => hall q (by simp [hq])) h
      simp; omega

end GoZero.C11
