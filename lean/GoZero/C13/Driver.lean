/-
C13 — driver: replays an implementation trace through the model (correspondence) and the spec (monitor).

Sections `excl=<0/1>` (subscriber through the real registry; resolver harness adds `pub=`/`updates=`):
  put <k> <v> | del <k> | batch p:<k>:<v> d:<k> … | reload <k>:<v> … | reloadc <k>:<v> … | cancel | closech
  => log=<+k:v,-k,…> vals=<v:[k.k];…> map=<k:v,…> values=<ids> notified=<n> last=<ids|none> [pub=<ids> updates=<n>]
Sections `h=kube`:
  add <ip>… | del <ip>… | update <same 0/1> <ip>… | set <ip>…   => eps=<ids> updates=<n> pub=<ids|none>
-/
import GoZero.Base.Trace
import GoZero.C13.Spec
namespace GoZero.C13

open GoZero

def parsePair (s : String) : Option (Nat × Nat) :=
  match s.splitOn ":" with
  | [a, b] => do pure ((← a.toNat?), (← b.toNat?))
  | _ => none

def parsePairs (ts : List String) : Option (List (Nat × Nat)) := ts.mapM parsePair

def parseNats (ts : List String) : Option (List Nat) := ts.mapM (·.toNat?)

def splitComma (s : String) : List String := if s = "" then [] else s.splitOn ","

def parseBatchTok (s : String) : Option Ev :=
  match s.splitOn ":" with
  | ["p", k, v] => do pure (.put (← k.toNat?) (← v.toNat?))
  | ["d", k] => do pure (.del (← k.toNat?))
  | _ => none

/-- listener log `+k:v,-k,…` -/
def parseLogTok (s : String) : Option LEv :=
  match s.toList with
  | '+' :: cs => (parsePair (String.ofList cs)).map fun p => .add p.1 p.2
  | '-' :: cs => (String.ofList cs).toNat?.map .del
  | _ => none

def showL : LEv → String
  | .add k v => s!"+{k}:{v}"
  | .del k => s!"-{k}"

def showLog (l : List LEv) : String := ",".intercalate (l.map showL)

def insertByFst {β : Type} (x : Nat × β) : List (Nat × β) → List (Nat × β)
  | [] => [x]
  | y :: ys => if x.1 ≤ y.1 then x :: y :: ys else y :: insertByFst x ys

def sortByFst {β : Type} (l : List (Nat × β)) : List (Nat × β) := l.foldr insertByFst []

def showNats (l : List Nat) (sep : String := ",") : String := sep.intercalate (l.map toString)

def showVals (m : Map (List Nat)) : String :=
  ";".intercalate ((sortByFst m).map fun p => s!"{p.1}:[{showNats p.2 "."}]")

def showMapping (m : Map Nat) : String :=
  ",".intercalate ((sortByFst m).map fun p => s!"{p.1}:{p.2}")

def sameSet (a b : List (Nat × Nat)) : Bool :=
  a.length == b.length && a.all (b.contains ·) && b.all (a.contains ·)

def sameSetN (a b : List Nat) : Bool :=
  a.length == b.length && a.all (b.contains ·) && b.all (a.contains ·)

structure St where
  excl  : Bool
  cl    : Cluster
  reg   : Map Nat := []           -- spec registry
  cnt   : Map Nat := []           -- spec: counting registrations (exclusive)
  prev  : String := ""            -- implementation's Values() after the previous line
  pub   : Option String := none   -- resolver: last published

def coverPut (st : St) (k v : Nat) : String :=
  match st.reg.get k with
  | none => if st.reg.any (·.2 = v) then "put-new-key-shared-value" else "put-new-key"
  | some v0 =>
    if v0 = v then "put-replayed"
    else if st.reg.any (·.2 = v) then "put-update-in-place-to-shared-value" else "put-update-in-place"

def coverDel (st : St) (k : Nat) : String :=
  match st.reg.get k with
  | none => "del-absent"
  | some v => if (st.reg.filter (·.2 = v)).length > 1 then "del-one-of-shared-value" else "del-last-of-value"

def runSubLine (st : St) (r : Report) (sec : Nat) (l : Line) : St × Report := Id.run do
  let mut r := r
  let obs := l.obs
  let some logS := kv? obs "log" | return (st, r.mismatch sec l.idx "obs-without-log" (joinSp obs))
  let some log := (splitComma logS).mapM parseLogTok | return (st, r.mismatch sec l.idx "bad-log" logS)
  -- the registry events of this line
  let evs? : Option (List Ev) :=
    match l.op with
    | ["put", k, v] => do pure [.put (← k.toNat?) (← v.toNat?)]
    | ["del", k] => do pure [.del (← k.toNat?)]
    | "batch" :: ts => ts.mapM parseBatchTok
    | "reload" :: ts | "reloadc" :: ts => do
      let kvs ← parsePairs ts
      -- the orders Go ranged over its maps in are read off the listener log: adds, then removes
      let adds := log.filterMap fun | .add k v => some (k, v) | _ => none
      let rems := log.filterMap fun | .del k => some k | _ => none
      pure [.reload kvs adds rems]
    | ["cancel"] | ["closech"] => some []
    | _ => none
  let some evs := evs? | return (st, r.mismatch sec l.idx "bad-op" (joinSp l.op))
  r := { r with ops := r.ops + 1 }
  -- coverage + validity of the observed orders
  for ev in evs do
    match ev with
    | .put k v => r := r.addCover (coverPut st k v)
    | .del k => r := r.addCover (coverDel st k)
    | .reload kvs adds rems =>
      let new := ofKVs kvs
      let ca := calcAdds st.cl.values new
      let cr := (calcRemoves Fix.fixed st.cl.values new).map (·.1)
      r := r.addCover "reload"
      if new.length ≠ kvs.length then r := r.addCover "reload-snapshot-repeats-a-key"
      if ca.any (fun p => (st.cl.values.get p.1).isSome) then r := r.addCover "reload-key-changed-value"
      if ca.any (fun p => (st.cl.values.get p.1).isNone) then r := r.addCover "reload-new-key"
      if !cr.isEmpty then r := r.addCover "reload-key-gone"
      if ca.isEmpty && cr.isEmpty then r := r.addCover "reload-nothing-changed"
      if ca.length ≥ 2 then r := r.addCover "reload-several-adds"
      if new.isEmpty then r := r.addCover "reload-empty-snapshot"
      if st.cl.values.isEmpty then r := r.addCover "reload-into-empty-view"
      if !(sameSet adds ca) then
        r := r.mismatch sec l.idx s!"adds={showMapping ca}" s!"adds={showMapping adds}"
      if !(sameSetN rems cr) then
        r := r.mismatch sec l.idx s!"removes={showNats cr}" s!"removes={showNats rems}"
  if evs.isEmpty then r := r.addCover (joinSp l.op)
  if (l.op.head? == some "batch") then r := r.addCover "batch"
  -- the listener events must be exactly what handleWatchEvents / handleChanges emit, in that order
  let expectLog := evs.flatMap emit
  if showLog expectLog ≠ logS then r := r.mismatch sec l.idx s!"log={showLog expectLog}" s!"log={logS}"
  -- model
  let cl' := evs.foldl (step Fix.fixed) st.cl
  let (cont', mview) := getValues cl'.cont
  let cl' := { cl' with cont := cont' }
  let notedModel := cl'.cont.notified - st.cl.cont.notified
  let implVals := kvStr obs "vals" "?"
  let implMap := kvStr obs "map" "?"
  let implValues := kvStr obs "values" "?"
  let implNoted := kvStr obs "notified" "?"
  let implLast := kvStr obs "last" "?"
  if showVals cl'.cont.values ≠ implVals then r := r.mismatch sec l.idx s!"vals={showVals cl'.cont.values}" s!"vals={implVals}"
  if showMapping cl'.cont.mapping ≠ implMap then r := r.mismatch sec l.idx s!"map={showMapping cl'.cont.mapping}" s!"map={implMap}"
  if showNats (Spec.canonSet mview) ≠ implValues ∨ mview.length ≠ (Spec.canonSet mview).length then
    r := r.mismatch sec l.idx s!"values={showNats (Spec.canonSet mview)}" s!"values={implValues}"
  if toString notedModel ≠ implNoted then r := r.mismatch sec l.idx s!"notified={notedModel}" s!"notified={implNoted}"
  -- spec / monitor, evaluated on the implementation's own observation
  let reg' := evs.foldl Spec.apply st.reg
  let cnt' := expectLog.foldl Spec.exApplyL st.cnt
  let want := showNats (Spec.viewList (if st.excl then cnt' else reg'))
  if want ≠ implValues then
    r := r.violation sec l.idx s!"view-differs-from-registry spec=[{want}] impl=[{implValues}] excl={st.excl} op=[{joinSp l.op}] registry=[{showMapping reg'}]"
  if st.excl then
    r := r.addCover "exclusive-line"
    if cnt'.length < reg'.length then r := r.addCover "exclusive-displaced-key-present"
  -- listeners: called after every change, and the last call sees the final view
  if implValues ≠ st.prev ∧ (implNoted = "0" ∨ implNoted.contains '/') then
    r := r.violation sec l.idx s!"view-changed-without-notifying-every-listener before=[{st.prev}] after=[{implValues}] notified={implNoted}"
  if implLast ≠ "none" ∧ implLast ≠ implValues then
    r := r.violation sec l.idx s!"listener-saw-stale-view last=[{implLast}] values=[{implValues}]"
  if implValues ≠ st.prev then r := r.addCover "view-changed" else r := r.addCover "view-unchanged"
  -- resolver harness: what was published
  let mut pub := st.pub
  match kv? obs "pub" with
  | none => pure ()
  | some p =>
    r := r.addCover "resolver-line"
    let ups := kvStr obs "updates" "?"
    let some pubL := parseNats (splitComma p) | return (st, r.mismatch sec l.idx "bad-pub" p)
    let some valL := parseNats (splitComma implValues) | return (st, r.mismatch sec l.idx "bad-values" implValues)
    -- one UpdateState per listener notification
    if ups ≠ implNoted then r := r.mismatch sec l.idx s!"updates={implNoted}" s!"updates={ups}"
    if implNoted ≠ "0" ∨ pub.isNone then
      -- published now: all values when at most 32, otherwise 32 distinct ones of them
      let okSubset := pubL.all (valL.contains ·) && (Spec.canonSet pubL).length == pubL.length
      let okSize := pubL.length == min valL.length subsetSize
      if valL.length ≤ subsetSize then r := r.addCover "publish-all" else r := r.addCover "publish-32-subset"
      if !(okSubset && okSize) then
        r := r.violation sec l.idx s!"resolver-published-wrong-addresses pub=[{p}] values=[{implValues}]"
    else if some p ≠ pub then
      r := r.violation sec l.idx s!"resolver-published-without-notification pub=[{p}] before=[{pub.getD ""}]"
    pub := some p
  let st' : St := { st with cl := cl', reg := reg', cnt := cnt', prev := implValues, pub := pub }
  return (st', r)

/-! kube -/

def parseKEv : List String → Option KEv
  | "add" :: ts => (parseNats ts).map .add
  | "del" :: ts => (parseNats ts).map .del
  | "update" :: s :: ts => do pure (.update (← (if s = "1" then some true else if s = "0" then some false else none)) (← parseNats ts))
  | "set" :: ts => (parseNats ts).map .set
  | _ => none

/-- spec for the endpoints handler: the current addresses of the watched Endpoints object -/
def kubeSpec (cur : List Nat) : KEv → List Nat
  | .add ips => Spec.canonSet (cur ++ ips)
  | .del ips => Spec.canonSet (cur.filter (fun x => !ips.contains x))
  | .update same ips => if same then cur else Spec.canonSet ips
  | .set ips => Spec.canonSet ips

def runKubeSection (r : Report) (s : Section) : Report := Id.run do
  let mut r := r
  let mut h : Kube := {}
  let mut cur : List Nat := []
  for l in s.lines do
    match parseKEv l.op with
    | none => r := r.mismatch s.idx l.idx "bad-op" (joinSp l.op)
    | some ev =>
      r := { r with ops := r.ops + 1 }
      let h' := h.step ev
      let cur' := kubeSpec cur ev
      let mEps := showNats (Spec.canonSet h'.endpoints)
      let mPub := match h'.published with | none => "none" | some p => showNats (Spec.canonSet p)
      let mUps := toString (h'.updates - h.updates)
      let iEps := kvStr l.obs "eps" "?"
      let iPub := kvStr l.obs "pub" "?"
      let iUps := kvStr l.obs "updates" "?"
      r := r.addCover ("kube-" ++ (l.op.headD "?") ++ (if h'.updates > h.updates then "-notify" else "-quiet"))
      if mEps ≠ iEps then r := r.mismatch s.idx l.idx s!"eps={mEps}" s!"eps={iEps}"
      if mPub ≠ iPub then r := r.mismatch s.idx l.idx s!"pub={mPub}" s!"pub={iPub}"
      if mUps ≠ iUps then r := r.mismatch s.idx l.idx s!"updates={mUps}" s!"updates={iUps}"
      -- monitor: what is published is exactly the current endpoint addresses
      let want := showNats cur'
      let implPub := if iPub = "none" then "" else iPub
      if implPub ≠ want then
        r := r.violation s.idx l.idx s!"kube-published-differs-from-endpoints spec=[{want}] pub=[{iPub}] op=[{joinSp l.op}]"
      h := h'
      cur := cur'
  return r

def runSection (r : Report) (s : Section) : Report := Id.run do
  if kvStr s.cfg "h" "" = "kube" then return runKubeSection r s
  let excl := kvNat s.cfg "excl" 0 = 1
  let mut st : St := { excl := excl, cl := { cont := Container.new excl } }
  let mut r := r
  for l in s.lines do
    let (st', r') := runSubLine st r s.idx l
    st := st'
    r := r'
  return r

def driver (secs : List Section) : Report := secs.foldl runSection {}

end GoZero.C13
