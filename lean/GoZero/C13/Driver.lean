/-
C13 — driver: replays an implementation trace through the model (correspondence) and the spec (monitor).

Sections `excl=<0/1>` (subscriber through the real registry; resolver harness adds `pub=`/`updates=`):
  put <k> <v> | del <k> | batch p:<k>:<v> d:<k> … | reload <k>:<v> … | reloadc <k>:<v> … | connreload <k>:<v> … |
  reloadmid p:<k>:<v> d:<k> … / <k>:<v> …   (obs dead=1: cluster.reload did not return)
  cancel | closech | join | joinmid p:<k>:<v> d:<k> …        (after a join the observation adds late=<ids> lmap=<k:v,…>)
  => log=<+k:v,-k,…> vals=<v:[k.k];…> map=<k:v,…> values=<ids> notified=<n> last=<ids|none> [pub=<ids> updates=<n>]
Sections `h=kube`:
  add <ip>… | del <ip>… | update <oldVersion> <newVersion> <ip>… | set <ip>…   => eps=<ids> updates=<n> pub=<ids|none>
-/
import GoZero.Base.Trace
import GoZero.C13.Spec
import GoZero.C13.Multi
namespace GoZero.C13

open GoZero

def parsePair (s : String) : Option (Nat × Nat) :=
  match s.splitOn ":" with
  | [a, b] => do pure ((← a.toNat?), (← b.toNat?))
  | _ => none

def parsePairs (ts : List String) : Option (List (Nat × Nat)) := ts.mapM parsePair

def parseNats (ts : List String) : Option (List Nat) := ts.mapM (·.toNat?)

def splitComma (s : String) : List String := if s = "" then [] else s.splitOn ","

def parseBatchTok (s : String) : Option Ev :=
  match s.splitOn ":" with
  | ["p", k, v] => do pure (.put (← k.toNat?) (← v.toNat?))
  | ["d", k] => do pure (.del (← k.toNat?))
  | _ => none

/-- listener log `+k:v,-k,…` -/
def parseLogTok (s : String) : Option LEv :=
  match s.toList with
  | '+' :: cs => (parsePair (String.ofList cs)).map fun p => .add p.1 p.2
  | '-' :: cs => (String.ofList cs).toNat?.map .del
  | _ => none

def showL : LEv → String
  | .add k v => s!"+{k}:{v}"
  | .del k => s!"-{k}"

def showLog (l : List LEv) : String := ",".intercalate (l.map showL)

def insertByFst {β : Type} (x : Nat × β) : List (Nat × β) → List (Nat × β)
  | [] => [x]
  | y :: ys => if x.1 ≤ y.1 then x :: y :: ys else y :: insertByFst x ys

def sortByFst {β : Type} (l : List (Nat × β)) : List (Nat × β) := l.foldr insertByFst []

def showNats (l : List Nat) (sep : String := ",") : String := sep.intercalate (l.map toString)

def showVals (m : Map (List Nat)) : String :=
  ";".intercalate ((sortByFst m).map fun p => s!"{p.1}:[{showNats p.2 "."}]")

def showMapping (m : Map Nat) : String :=
  ",".intercalate ((sortByFst m).map fun p => s!"{p.1}:{p.2}")

def sameSet (a b : List (Nat × Nat)) : Bool :=
  a.length == b.length && a.all (b.contains ·) && b.all (a.contains ·)

def sameSetN (a b : List Nat) : Bool :=
  a.length == b.length && a.all (b.contains ·) && b.all (a.contains ·)

structure St where
  excl  : Bool
  cl    : Cluster
  reg   : Map Nat := []           -- spec registry
  cnt   : Map Nat := []           -- spec: counting registrations (exclusive)
  prev  : String := ""            -- implementation's Values() after the previous line
  pub   : Option String := none   -- resolver: last published
  dead  : Bool := false
  late  : Option Container := none -- model of a subscriber that joined the watch later (ordinary)
  tag   : String := ""            -- multi-key sections: ` service=<i>` (appended to the monitor messages)

def coverPut (st : St) (k v : Nat) : String :=
  match st.reg.get k with
  | none => if st.reg.any (·.2 = v) then "put-new-key-shared-value" else "put-new-key"
  | some v0 =>
    if v0 = v then "put-replayed"
    else if st.reg.any (·.2 = v) then "put-update-in-place-to-shared-value" else "put-update-in-place"

def coverDel (st : St) (k : Nat) : String :=
  match st.reg.get k with
  | none => "del-absent"
  | some v => if (st.reg.filter (·.2 = v)).length > 1 then "del-one-of-shared-value" else "del-last-of-value"

def runSubLine (st : St) (r : Report) (sec : Nat) (l : Line) : St × Report := Id.run do
  let mut r := r
  let obs := l.obs
  if (kv? obs "dead").isSome then
    -- cluster.reload did not return: it holds the cluster lock and waits for the watch goroutine, which needs the lock
    if st.dead then return (st, r.addCover "line-after-deadlock")
    return ({ st with dead := true }, r.violation sec l.idx s!"reload-deadlocks-while-a-watch-response-is-handled op=[{joinSp l.op}] (the view is never updated again)")
  if (kv? obs "loadstuck").isSome then
    -- every Get after the one that timed out ran on an expired context: load can never finish, the watch never comes back
    return ({ st with dead := true }, r.violation sec l.idx s!"reload-never-installed-the-snapshot-although-a-Get-with-a-live-context-would-have-succeeded op=[{joinSp l.op}] values=[{kvStr obs "values" "?"}] (every retry of load ran on the expired context of the first attempt; the view stays at the old snapshot){st.tag}")
  let some logS := kv? obs "log" | return (st, r.mismatch sec l.idx "obs-without-log" (joinSp obs))
  let some log := (splitComma logS).mapM parseLogTok | return (st, r.mismatch sec l.idx "bad-log" logS)
  -- the registry events of this line
  let evs? : Option (List Ev) :=
    match l.op with
    | ["put", k, v] => do pure [.put (← k.toNat?) (← v.toNat?)]
    | ["del", k] => do pure [.del (← k.toNat?)]
    | "batch" :: ts | "joinmid" :: ts => ts.mapM parseBatchTok
    | ["join"] => some []
    | "reloadmid" :: ts => do
      -- the response is handled completely, then the reload (the fixed reload waits without holding the lock)
      let batch ← (ts.takeWhile (· ≠ "/")).mapM parseBatchTok
      let kvs ← parsePairs ((ts.dropWhile (· ≠ "/")).drop 1)
      let n := batch.length
      let adds := (log.drop n).filterMap fun | .add k v => some (k, v) | _ => none
      let rems := (log.drop n).filterMap fun | .del k => some k | _ => none
      pure (batch ++ [.reload kvs adds rems])
    | "reloadgap" :: ts => do
      -- the snapshot is loaded, then the events of the gap are replayed by the watch that starts at rev + 1
      let kvs ← parsePairs (ts.takeWhile (· ≠ "/"))
      let gap ← ((ts.dropWhile (· ≠ "/")).drop 1).mapM parseBatchTok
      let pre := log.take (log.length - gap.length)
      let adds := pre.filterMap fun | .add k v => some (k, v) | _ => none
      let rems := pre.filterMap fun | .del k => some k | _ => none
      pure (Ev.reload kvs adds rems :: gap)
    | "reloadg" :: _ :: ts | "reloadt" :: _ :: ts | "reload" :: ts | "reloadc" :: ts | "connreload" :: ts => do
      let kvs ← parsePairs ts
      -- the orders Go ranged over its maps in are read off the listener log: adds, then removes
      let adds := log.filterMap fun | .add k v => some (k, v) | _ => none
      let rems := log.filterMap fun | .del k => some k | _ => none
      pure [.reload kvs adds rems]
    | ["cancel"] | ["closech"] | ["idle"] => some []
    | _ => none
  let some evs := evs? | return (st, r.mismatch sec l.idx "bad-op" (joinSp l.op))
  r := { r with ops := r.ops + 1 }
  -- coverage + validity of the observed orders
  let mut curVals := st.cl.values
  for ev in evs do
    let stv := curVals
    curVals := stepValues curVals ev
    match ev with
    | .put k v => r := r.addCover (coverPut st k v)
    | .del k => r := r.addCover (coverDel st k)
    | .reload kvs adds rems =>
      let new := ofKVs kvs
      let ca := calcAdds stv new
      let cr := (calcRemoves Fix.fixed stv new).map (·.1)
      r := r.addCover "reload"
      if new.length ≠ kvs.length then r := r.addCover "reload-snapshot-repeats-a-key"
      if ca.any (fun p => (stv.get p.1).isSome) then r := r.addCover "reload-key-changed-value"
      if ca.any (fun p => (stv.get p.1).isNone) then r := r.addCover "reload-new-key"
      if !cr.isEmpty then r := r.addCover "reload-key-gone"
      if ca.isEmpty && cr.isEmpty then r := r.addCover "reload-nothing-changed"
      if ca.length ≥ 2 then r := r.addCover "reload-several-adds"
      if new.isEmpty then r := r.addCover "reload-empty-snapshot"
      if stv.isEmpty then r := r.addCover "reload-into-empty-view"
      if !(sameSet adds ca) then
        r := r.mismatch sec l.idx s!"adds={showMapping ca}" s!"adds={showMapping adds}"
      if !(sameSetN rems cr) then
        r := r.mismatch sec l.idx s!"removes={showNats cr}" s!"removes={showNats rems}"
  if evs.isEmpty then r := r.addCover (joinSp l.op)
  if (l.op.head? == some "batch") then r := r.addCover "batch"
  if (l.op.head? == some "connreload") then r := r.addCover "reload-after-connection-state-change"
  if (l.op.head? == some "joinmid") then r := r.addCover "joinmid"
  if (l.op.head? == some "reloadg") then r := r.addCover "load-retries-after-a-failed-Get"
  if (l.op.head? == some "reloadt") then r := r.addCover "load-retries-with-a-fresh-deadline-after-a-Get-that-timed-out"
  if (l.op.head? == some "reloadgap") then
    r := r.addCover "events-between-snapshot-and-new-watch"
    if (evs.drop 1).any (fun ev => match ev with | .del k => ((stepValues st.cl.values (evs.headD (.del 0))).get k).isSome | _ => true) then
      r := r.addCover "gap-event-changes-the-registry"
  if (l.op.head? == some "reloadmid") then r := r.addCover "reload-while-a-response-is-handled"
  -- the listener events must be exactly what handleWatchEvents / handleChanges emit, in that order
  let expectLog := evs.flatMap emit
  if showLog expectLog ≠ logS then r := r.mismatch sec l.idx s!"log={showLog expectLog}" s!"log={logS}"
  -- model
  let cl' := evs.foldl (step Fix.fixed) st.cl
  let (cont', mview) := getValues cl'.cont
  let cl' := { cl' with cont := cont' }
  let notedModel := cl'.cont.notified - st.cl.cont.notified
  let implVals := kvStr obs "vals" "?"
  let implMap := kvStr obs "map" "?"
  let implValues := kvStr obs "values" "?"
  let implNoted := kvStr obs "notified" "?"
  let implLast := kvStr obs "last" "?"
  if showVals cl'.cont.values ≠ implVals then r := r.mismatch sec l.idx s!"vals={showVals cl'.cont.values}" s!"vals={implVals}"
  if showMapping cl'.cont.mapping ≠ implMap then r := r.mismatch sec l.idx s!"map={showMapping cl'.cont.mapping}" s!"map={implMap}"
  if showNats (Spec.canonSet mview) ≠ implValues ∨ mview.length ≠ (Spec.canonSet mview).length then
    r := r.mismatch sec l.idx s!"values={showNats (Spec.canonSet mview)}" s!"values={implValues}"
  if toString notedModel ≠ implNoted then r := r.mismatch sec l.idx s!"notified={notedModel}" s!"notified={implNoted}"
  -- spec / monitor, evaluated on the implementation's own observation
  let reg' := evs.foldl Spec.apply st.reg
  let cnt' := expectLog.foldl Spec.exApplyL st.cnt
  let want := showNats (Spec.viewList (if st.excl then cnt' else reg'))
  if want ≠ implValues then
    r := r.violation sec l.idx s!"view-differs-from-registry spec=[{want}] impl=[{implValues}] excl={st.excl} op=[{joinSp l.op}] registry=[{showMapping reg'}]{st.tag}"
  if st.excl then
    r := r.addCover "exclusive-line"
    if cnt'.length < reg'.length then r := r.addCover "exclusive-displaced-key-present"
  -- listeners: called after every change, and the last call sees the final view
  if implValues ≠ st.prev ∧ (implNoted = "0" ∨ implNoted.contains '/') then
    r := r.violation sec l.idx s!"view-changed-without-notifying-every-listener before=[{st.prev}] after=[{implValues}] notified={implNoted}{st.tag}"
  if implLast ≠ "none" ∧ implLast ≠ implValues then
    r := r.violation sec l.idx s!"listener-saw-stale-view last=[{implLast}] values=[{implValues}]{st.tag}"
  if implValues ≠ st.prev then r := r.addCover "view-changed" else r := r.addCover "view-unchanged"
  -- resolver harness: what was published
  let mut pub := st.pub
  match kv? obs "pub" with
  | none => pure ()
  | some p =>
    r := r.addCover "resolver-line"
    match kv? obs "shared" with
    | some "1" =>
      r := r.violation sec l.idx s!"resolver-shuffles-the-shared-snapshot: subset() permutes the slice Values() returned (the cached snapshot every caller gets) in place; concurrent update() calls / readers race on it (values=[{implValues}])"
    | some _ => r := r.addCover "resolver-subset-works-on-a-copy"
    | none => pure ()
    let ups := kvStr obs "updates" "?"
    let some pubL := parseNats (splitComma p) | return (st, r.mismatch sec l.idx "bad-pub" p)
    let some valL := parseNats (splitComma implValues) | return (st, r.mismatch sec l.idx "bad-values" implValues)
    -- one UpdateState per listener notification
    if ups ≠ implNoted then r := r.mismatch sec l.idx s!"updates={implNoted}" s!"updates={ups}"
    if implNoted ≠ "0" ∨ pub.isNone then
      -- published now: all values when at most 32, otherwise 32 distinct ones of them
      let okSubset := pubL.all (valL.contains ·) && (Spec.canonSet pubL).length == pubL.length
      let okSize := pubL.length == min valL.length subsetSize
      if valL.length ≤ subsetSize then r := r.addCover "publish-all" else r := r.addCover "publish-32-subset"
      if !(okSubset && okSize) then
        r := r.violation sec l.idx s!"resolver-published-wrong-addresses pub=[{p}] values=[{implValues}]"
    else if some p ≠ pub then
      r := r.violation sec l.idx s!"resolver-published-without-notification pub=[{p}] before=[{pub.getD ""}]"
    pub := some p
  -- a subscriber that joined the existing watch later: Registry.Monitor replays the current values (any order
  -- of the map: the ordinary subscriber's mapping does not depend on it); afterwards it is one of the listeners.
  -- `joinmid`: the join happens while the response is being handled; the (fixed) code makes the joiner wait.
  let isJoin := l.op.head? == some "join" || l.op.head? == some "joinmid"
  let late' : Option Container :=
    if isJoin then some ((sortByFst cl'.values).foldl (onAdd Fix.fixed) (Container.new false))
    else st.late.map fun c => expectLog.foldl (applyL Fix.fixed) c
  match late' with
  | none => if (kv? obs "late").isSome then r := r.mismatch sec l.idx "late=<absent>" "late=<present>"
  | some lc =>
    r := r.addCover "late-joiner-line"
    if isJoin && !reg'.isEmpty then r := r.addCover "join-into-nonempty-registry"
    if l.op.head? == some "joinmid" && (evs.drop 1).any (fun ev => match ev with | .del k => (st.reg.get k).isSome | _ => true) then
      r := r.addCover "joinmid-effective-event-after-the-join-point"
    let implLate := kvStr obs "late" "?"
    let implLmap := kvStr obs "lmap" "?"
    let lview := (getValues lc).2
    if showNats (Spec.canonSet lview) ≠ implLate then r := r.mismatch sec l.idx s!"late={showNats (Spec.canonSet lview)}" s!"late={implLate}"
    if showMapping lc.mapping ≠ implLmap then r := r.mismatch sec l.idx s!"lmap={showMapping lc.mapping}" s!"lmap={implLmap}"
    let wantLate := showNats (Spec.viewList reg')
    if wantLate ≠ implLate then
      r := r.violation sec l.idx s!"late-joiner-differs-from-registry spec=[{wantLate}] impl=[{implLate}] op=[{joinSp l.op}] registry=[{showMapping reg'}]"
  let st' : St := { st with cl := cl', reg := reg', cnt := cnt', prev := implValues, pub := pub, late := late' }
  return (st', r)

/-! kube -/

def parseKEv : List String → Option KEv
  | "add" :: ts => (parseNats ts).map .add
  | "del" :: ts => (parseNats ts).map .del
  | "update" :: o :: n :: ts => do pure (.update (o == n) (← parseNats ts))   -- resource versions: opaque strings, only equality counts
  | "set" :: ts => (parseNats ts).map .set
  | _ => none

/-- spec for the endpoints handler: the current addresses of the watched Endpoints object -/
def kubeSpec (cur : List Nat) : KEv → List Nat
  | .add ips => Spec.canonSet (cur ++ ips)
  | .del ips => Spec.canonSet (cur.filter (fun x => !ips.contains x))
  | .update same ips => if same then cur else Spec.canonSet ips
  | .set ips => Spec.canonSet ips

/-- the class of an OnUpdate's (old, new) resource versions (`-` = empty) -/
def kubeVersionClass (o n : String) : String :=
  if o = "-" ∨ n = "-" then (if o = n then "kube-version-both-empty" else "kube-version-empty-vs-nonempty")
  else match o.toNat?, n.toNat? with
    | some a, some b =>
      if a = b then "kube-version-equal-resync"
      else if b < a then (if decide (n > o) then "kube-version-decreasing-but-greater-as-string" else "kube-version-decreasing")
      else if n.length > o.length then "kube-version-gains-a-digit"
      else if decide (n < o) then "kube-version-increasing-but-smaller-as-string"
      else "kube-version-increasing"
    | _, _ => if o = n then "kube-version-non-numeric-equal" else "kube-version-non-numeric-different"

def runKubeSection (r : Report) (s : Section) : Report := Id.run do
  let mut r := r
  let mut h : Kube := {}
  let mut cur : List Nat := []
  for l in s.lines do
    match parseKEv l.op with
    | none => r := r.mismatch s.idx l.idx "bad-op" (joinSp l.op)
    | some ev =>
      r := { r with ops := r.ops + 1 }
      let h' := h.step ev
      let cur' := kubeSpec cur ev
      let mEps := showNats (Spec.canonSet h'.endpoints)
      let mPub := match h'.published with | none => "none" | some p => showNats (Spec.canonSet p)
      let mUps := toString (h'.updates - h.updates)
      let iEps := kvStr l.obs "eps" "?"
      let iPub := kvStr l.obs "pub" "?"
      let iUps := kvStr l.obs "updates" "?"
      r := r.addCover ("kube-" ++ (l.op.headD "?") ++ (if h'.updates > h.updates then "-notify" else "-quiet"))
      match l.op with
      | "update" :: o :: n :: _ => r := r.addCover (kubeVersionClass o n)
      | _ => pure ()
      if mEps ≠ iEps then r := r.mismatch s.idx l.idx s!"eps={mEps}" s!"eps={iEps}"
      if mPub ≠ iPub then r := r.mismatch s.idx l.idx s!"pub={mPub}" s!"pub={iPub}"
      if mUps ≠ iUps then r := r.mismatch s.idx l.idx s!"updates={mUps}" s!"updates={iUps}"
      -- monitor: what is published is exactly the current endpoint addresses
      let want := showNats cur'
      let implPub := if iPub = "none" then "" else iPub
      if implPub ≠ want then
        r := r.violation s.idx l.idx s!"kube-published-differs-from-endpoints spec=[{want}] pub=[{iPub}] op=[{joinSp l.op}]"
      h := h'
      cur := cur'
  return r

/-! concurrent sections (`h=conc`): `par <readers> <a-events> <b-events>
  => wa=<s:e,…> wb=<s:e,…> reads=<s:e:v.v|…> values=<ids> races=<n>` -/

def parseLEvs (s : String) : Option (List LEv) :=
  if s = "-" then some [] else
  (s.splitOn ",").mapM fun t => (parseBatchTok t).bind fun
    | .put k v => some (.add k v)
    | .del k => some (.del k)
    | _ => none

def parseRead (s : String) : Option (Nat × Nat × List Nat) :=
  match s.splitOn ":" with
  | [a, b, v] => do
    let vs ← if v = "" then some [] else (v.splitOn ".").mapM (·.toNat?)
    pure ((← a.toNat?), (← b.toNat?), vs)
  | _ => none

def concApply (excl : Bool) (m : Map Nat) (ls : List LEv) : Map Nat :=
  ls.foldl (if excl then Spec.exApplyL else Spec.applyL) m

def runConcSection (r : Report) (s : Section) : Report := Id.run do
  let excl := kvNat s.cfg "excl" 0 = 1
  let mut r := r
  let mut m : Map Nat := []
  for l in s.lines do
    let parsed : Option (List LEv × List LEv × List (Nat × Nat) × List (Nat × Nat) × List (Nat × Nat × List Nat)) := do
      match l.op with
      | ["par", _, a, b] =>
        let ea ← parseLEvs a
        let eb ← parseLEvs b
        let wa ← (splitComma (kvStr l.obs "wa" "")).mapM parsePair
        let wb ← (splitComma (kvStr l.obs "wb" "")).mapM parsePair
        let rs := kvStr l.obs "reads" ""
        let reads ← (if rs = "" then [] else rs.splitOn "|").mapM parseRead
        pure (ea, eb, wa, wb, reads)
      | _ => none
    match parsed with
    | none =>
      if (kvStr l.obs "reads" "").contains 'd' then
        r := r.violation s.idx l.idx s!"read-returned-a-value-twice reads=[{kvStr l.obs "reads" ""}]"
      else r := r.mismatch s.idx l.idx "bad-conc-line" (joinSp (l.op ++ ["=>"] ++ l.obs))
    | some (ea, eb, wa, wb, reads) =>
      r := { r with ops := r.ops + 1 }
      r := r.addCover (if excl then "conc-line-exclusive" else "conc-line")
      if wa.length ≠ ea.length ∨ wb.length ≠ eb.length then
        r := r.mismatch s.idx l.idx s!"writes={ea.length}+{eb.length}" s!"writes={wa.length}+{wb.length}"
      for (rs, re, vs) in reads do
        -- `reader_linearizable`: the read returns the view after a prefix of each writer's events that contains
        -- every event completed before the read started and no event started after it returned
        let loA := (wa.filter fun w => w.2 < rs).length
        let hiA := (wa.filter fun w => w.1 < re).length
        let loB := (wb.filter fun w => w.2 < rs).length
        let hiB := (wb.filter fun w => w.1 < re).length
        let got := showNats (Spec.canonSet vs)
        let ok := (List.range (hiA - loA + 1)).any fun i => (List.range (hiB - loB + 1)).any fun j =>
          showNats (Spec.viewList (concApply excl (concApply excl m (ea.take (loA + i))) (eb.take (loB + j)))) == got
        if hiA > loA ∨ hiB > loB then r := r.addCover "conc-read-overlaps-a-write" else r := r.addCover "conc-read-between-writes"
        if (Spec.canonSet vs).length ≠ vs.length then
          r := r.violation s.idx l.idx s!"read-returned-a-value-twice read=[{rs}:{re}:{showNats vs}]"
        if !ok then
          r := r.violation s.idx l.idx s!"read-not-linearizable read=[{rs}:{re}] returned=[{got}] allowed: the view after {loA}..{hiA} of A's and {loB}..{hiB} of B's events"
      m := concApply excl (concApply excl m ea) eb
      let want := showNats (Spec.viewList m)
      let implValues := kvStr l.obs "values" "?"
      if want ≠ implValues then
        r := r.violation s.idx l.idx s!"view-differs-from-registry spec=[{want}] impl=[{implValues}] excl={decide (excl = true)} op=[{joinSp l.op}] (concurrent writers)"
      if kvStr l.obs "panics" "0" ≠ "0" then
        r := r.violation s.idx l.idx s!"concurrent-read-panicked panics={kvStr l.obs "panics" "?"} op=[{joinSp l.op}]"
      let races := kvStr l.obs "races" "?"
      if races ≠ "0" then
        r := r.violation s.idx l.idx s!"data-race-detected races={races} op=[{joinSp l.op}]"
  return r

/-! resolver Build sections (`h=build`): several resolvers on one service key, registry events injected at the
points of `discovBuilder.Build`:
  snap <k>:<v>… | build <id> plain | build <id> first|after p:<k>:<v> d:<k>… | close <id> | put … | del … | batch … |
  reload … | reloadc … | connreload … | cancel | closech
  => p<id>=<published ids> v<id>=<Values() ids> u<id>=<UpdateState calls> …   (one triple per live resolver) -/

structure BSt where
  reg   : Map Nat := []
  live  : List Nat := []
  built : Bool := false

def runBuildLine (st : BSt) (r : Report) (sec : Nat) (l : Line) : BSt × Report := Id.run do
  let mut r := r
  -- the registry events of the line, the resolver that is built / closed
  let parsed : Option (List Ev × Option Nat × Option Nat) :=
    match l.op with
    | "snap" :: ts => if st.built then none else do pure ([.reload (← parsePairs ts) [] []], none, none)
    | ["build", id, "plain"] => do pure ([], some (← id.toNat?), none)
    | "build" :: id :: "first" :: ts | "build" :: id :: "after" :: ts => do pure ((← ts.mapM parseBatchTok), some (← id.toNat?), none)
    | ["close", id] => do pure ([], none, some (← id.toNat?))
    | ["put", k, v] => do pure ([.put (← k.toNat?) (← v.toNat?)], none, none)
    | ["del", k] => do pure ([.del (← k.toNat?)], none, none)
    | "batch" :: ts => do pure ((← ts.mapM parseBatchTok), none, none)
    | "reload" :: ts | "reloadc" :: ts | "connreload" :: ts => do pure ([.reload (← parsePairs ts) [] []], none, none)
    | ["cancel"] | ["closech"] => some ([], none, none)
    | _ => none
  let some (evs, bld, cls) := parsed | return (st, r.mismatch sec l.idx "bad-op" (joinSp l.op))
  if (l.op.head? != some "snap") && !st.built && bld.isNone then return (st, r.mismatch sec l.idx "op-before-the-first-build" (joinSp l.op))
  r := { r with ops := r.ops + 1 }
  let reg' := evs.foldl Spec.apply st.reg
  let mut live := st.live
  match bld with
  | some id =>
    if live.contains id then return (st, r.mismatch sec l.idx "resolver-built-twice" (joinSp l.op))
    r := r.addCover (if st.built then "build-joins-the-existing-watch" else "build-creates-the-watch")
    r := r.addCover s!"build-{l.op.getD 2 "?"}"
    if !st.built && !st.reg.isEmpty then r := r.addCover "build-loads-a-nonempty-registry"
    if l.op.getD 2 "" = "first" then
      if Spec.viewList reg' ≠ Spec.viewList st.reg then r := r.addCover "event-during-first-publication-changes-the-addresses"
      else r := r.addCover "event-during-first-publication-keeps-the-addresses"
    live := live ++ [id]
    if live.length ≥ 2 then r := r.addCover "several-resolvers-on-one-key"
  | none => pure ()
  match cls with
  | some id =>
    if !(live.contains id) then return (st, r.mismatch sec l.idx "close-of-an-unknown-resolver" (joinSp l.op))
    live := live.filter (· ≠ id)
    r := r.addCover "resolver-closed"
  | none => pure ()
  if bld.isNone && cls.isNone then r := r.addCover s!"build-section-{l.op.headD "?"}"
  let want := Spec.viewList reg'
  let wantS := showNats want
  for id in live do
    let some pS := kv? l.obs s!"p{id}" | r := r.mismatch sec l.idx s!"p{id}=<present>" "absent"
    let some vS := kv? l.obs s!"v{id}" | r := r.mismatch sec l.idx s!"v{id}=<present>" "absent"
    let ups := kvStr l.obs s!"u{id}" "?"
    let some pubL := parseNats (splitComma pS) | r := r.mismatch sec l.idx "bad-pub" pS
    let some valL := parseNats (splitComma vS) | r := r.mismatch sec l.idx "bad-values" vS
    -- the subscriber behind the resolver shows the registry
    if vS ≠ wantS then
      r := r.violation sec l.idx s!"view-differs-from-registry spec=[{wantS}] impl=[{vS}] excl=false op=[{joinSp l.op}] registry=[{showMapping reg'}] (resolver {id})"
    -- at quiescence the last UpdateState carries Values(): all of them up to 32, otherwise 32 distinct ones of them
    let okSubset := pubL.all (valL.contains ·) && (Spec.canonSet pubL).length == pubL.length
    let okSize := pubL.length == min valL.length subsetSize
    if valL.length ≤ subsetSize then r := r.addCover "publish-all" else r := r.addCover "publish-32-subset"
    if !(okSubset && okSize) || (kv? l.obs s!"dup{id}").isSome then
      r := r.violation sec l.idx s!"resolver-published-differs-from-values-at-quiescence resolver={id} pub=[{pS}] values=[{vS}] registry=[{showMapping reg'}] op=[{joinSp l.op}]"
    -- Build publishes at least once; an event that changes the addresses is followed by an UpdateState
    if bld == some id && ups = "0" then
      r := r.violation sec l.idx s!"build-did-not-publish resolver={id} op=[{joinSp l.op}]"
    if bld != some id && want ≠ Spec.viewList st.reg && ups = "0" then
      r := r.violation sec l.idx s!"addresses-changed-without-UpdateState resolver={id} before=[{showNats (Spec.viewList st.reg)}] after=[{wantS}] op=[{joinSp l.op}]"
  if live.isEmpty && (kv? l.obs "none").isNone then r := r.mismatch sec l.idx "none=1" (joinSp l.obs)
  return ({ reg := reg', live := live, built := st.built || bld.isSome }, r)

def runBuildSection (r : Report) (s : Section) : Report := Id.run do
  let mut st : BSt := {}
  let mut r := r
  for l in s.lines do
    let (st', r') := runBuildLine st r s.idx l
    st := st'
    r := r'
  return r

/-! publisher sections (`h=pub excl=<0/1>`): real Publishers on the fake etcd's lease store, a real Subscriber
  sub | pub <p> <id> <v> | pubx <p> <id> <v> | pause <p>… | resume <p>… | stop <p> | kaclose <p>… | rl | join
  => store=<key:value:lease,…> xstore=<…> leases=<p:lease:fullKeyId,…> [timeout=1] + the subscriber observation -/

structure PEnt where
  p       : Nat
  pub     : Pub
  sibling : Bool
  running : Bool

structure PSt where
  sub        : St
  subscribed : Bool := false
  pubs       : List PEnt := []
  store      : Store := []
  xstore     : Store := []

def showStore (s : Store) : String := ",".intercalate ((sortByFst s).map fun e => s!"{e.1}:{e.2.1}:{e.2.2}")

def parseLease (s : String) : Option (Nat × Nat × String) :=
  match s.splitOn ":" with
  | [p, l, k] => do pure ((← p.toNat?), (← l.toNat?), k)
  | _ => none

def PSt.setPub (st : PSt) (e : PEnt) : PSt := { st with pubs := st.pubs.filter (·.p ≠ e.p) ++ [e] }

/-- `register` of one publisher with the lease etcd granted; the events the watch of OUR service key gets -/
def PSt.doRegister (st : PSt) (e : PEnt) (lease : Nat) : PSt × List Ev :=
  let pub' := e.pub.register lease
  let st' := st.setPub { e with pub := pub', running := true }
  if e.sibling then ({ st' with xstore := storePut st'.xstore pub' }, [])
  else ({ st' with store := storePut st'.store pub' }, registerEvents pub')

def PSt.doRevoke (st : PSt) (e : PEnt) : PSt × List Ev :=
  let st' := st.setPub { e with running := false }
  if e.sibling then ({ st' with xstore := storeRevoke st'.xstore e.pub.lease }, [])
  else ({ st' with store := storeRevoke st'.store e.pub.lease }, revokeEvents st'.store e.pub.lease)

/-- the attempts of one operation (`doKeepAlive`, or the single attempt of `KeepAlive`) with the outcomes etcd gave -/
def PSt.doAttempts (st : PSt) (e : PEnt) (as : List Attempt) : PSt × List Ev :=
  let base := if e.sibling then st.xstore else st.store
  let res := doKeepAlive true e.pub base as
  let st' := st.setPub { e with pub := res.1, running := res.2.2 }
  if e.sibling then ({ st' with xstore := res.2.1 }, [])
  else ({ st' with store := res.2.1 }, attemptEvents e.pub as)

/-- `!<kind>:<n>` -/
def parseFault (t : String) : Option (String × Nat) :=
  match (String.ofList (t.toList.drop 1)).splitOn ":" with
  | [k, n] => if ["grant", "put", "ka", "revoke"].contains k then n.toNat?.map fun n => (k, n) else none
  | _ => none

def evTok : Ev → String
  | .put k v => s!"p:{k}:{v}"
  | .del k => s!"d:{k}"
  | .reload _ _ _ => "?"

def levToEv : LEv → Ev
  | .add k v => .put k v
  | .del k => .del k

/-- the keys of `vals=<v:[k.k];…>` in the order they are listed -/
def keysOfVals (s : String) : List Nat :=
  (if s = "" then [] else s.splitOn ";").flatMap fun ent =>
    match ent.splitOn ":" with
    | [_, ks] => ((ks.replace "[" "").replace "]" "").splitOn "." |>.filterMap (·.toNat?)
    | _ => []

def runPubLine (st0 : PSt) (r0 : Report) (sec : Nat) (l0 : Line) : PSt × Report := Id.run do
  let mut r := r0
  let mut st := st0
  if (kv? l0.obs "dead").isSome then return (st0, r.addCover "line-after-a-publisher-gave-up")
  -- fault injection: `!<kind>:<n>` as the last token of the operation
  let faultTok := (l0.op.getLast?).filter (·.startsWith "!")
  let fault := faultTok.bind parseFault
  if faultTok.isSome && fault.isNone then return (st0, r.mismatch sec l0.idx "bad-fault" (joinSp l0.op))
  let l : Line := if faultTok.isSome then { l0 with op := l0.op.dropLast } else l0
  let leases := (splitComma (kvStr l.obs "leases" "")).filterMap parseLease
  let leaseOf (p : Nat) : Option Nat := (leases.find? (·.1 = p)).map (·.2.1)
  let mut evs : List Ev := []
  let mut bad := false
  let kind := l.op.headD "?"
  match fault with
  | some (fk, fn) =>
    r := r.addCover s!"fault-{fk}-during-{kind}"
    if fn ≥ 2 then r := r.addCover "fault-several-failed-attempts-in-a-row"
    let okKind := if fk == "revoke" then (kind == "pause" || kind == "stop") else (kind == "pub" || kind == "resume" || kind == "kaclose")
    if !okKind || (kind ≠ "pub" && l.op.length ≠ 2) then bad := true
  | none => pure ()
  if (kv? l.obs "gaveup").isSome then
    r := r.violation sec l.idx s!"publisher-gave-up-re-registering-after-a-failed-attempt op=[{joinSp l0.op}] store=[{kvStr l.obs "store" "?"}] (every armed failure happened, no further attempt followed: doKeepAlive must try again at every tick until it succeeds)"
  match l.op with
  | ["sub"] | ["rl"] | ["join"] => if fault.isSome then bad := true
  | ["expire"] =>
    -- the leases of the publishers whose keep-alive goroutine runs are renewed, every other lease expires
    let alive := (st.pubs.filter (·.running)).map (·.pub.lease)
    let gone := (sortByFst (st.store.filter fun e => !alive.contains e.2.2)).map (·.1)
    evs := gone.map .del
    if !gone.isEmpty then r := r.addCover "lease-expiry-removes-an-orphan-key" else r := r.addCover "lease-expiry-nothing-to-remove"
    st := { st with store := storeExpire st.store alive, xstore := storeExpire st.xstore alive }
  | "pub" :: args | "pubx" :: args =>
    let k := kind
    match args with
    | [p, id, v] =>
     match p.toNat?, id.toNat?, v.toNat? with
     | some p, some id, some v =>
      match leaseOf p, st.pubs.find? (·.p = p) with
      | some lease, none =>
        let e0 : PEnt := { p := p, pub := { id := id, value := v }, sibling := k == "pubx", running := false }
        match fault with
        | none =>
          let (st', e') := st.doRegister e0 lease
          st := st'
          evs := evs ++ e'
          if (kv? l.obs "err").isSome then
            r := r.violation sec l.idx s!"KeepAlive-failed-although-no-etcd-call-failed op=[{joinSp l0.op}] (the service is not registered)"
        | some (fk, _) =>
          -- KeepAlive(): one attempt, the error is returned, no keep-alive goroutine
          let a : Attempt := if fk == "grant" then .grantErr else if fk == "put" then .putErr lease else .kaErr lease
          let (st', e') := st.doAttempts e0 [a]
          st := st'
          evs := evs ++ e'
          if (kv? l.obs "err").isNone then r := r.mismatch sec l.idx "KeepAlive()=error" "err=<absent>"
          r := r.addCover "KeepAlive-returns-the-error"
        r := r.addCover (if id > 0 then "publisher-with-fixed-id" else "publisher-keyed-by-lease")
        if k == "pubx" then r := r.addCover "publisher-of-the-sibling-service"
        if !st0.subscribed then r := r.addCover "publisher-registered-before-the-subscriber"
      | _, _ => bad := true
     | _, _, _ => bad := true
    | _ => bad := true
  | k :: ps =>
    if !(["pause", "resume", "stop", "kaclose"].contains k) || ps.isEmpty then bad := true
    for t in ps do
      match t.toNat?.bind fun p => st.pubs.find? (·.p = p) with
      | none => bad := true
      | some e =>
        if k == "pause" || k == "stop" || k == "kaclose" then
          if fault.isSome && k != "kaclose" then
            -- the revocation failed (only logged): the key stays in etcd until its lease expires
            st := st.setPub { e with running := false }
            if e.running then r := r.addCover "revoke-failed-key-left-to-the-lease-ttl"
          else if k == "kaclose" || e.running then
            let (st', e') := st.doRevoke e
            st := st'
            evs := evs ++ e'
          if k == "stop" && !e.running then r := r.addCover "stop-of-a-paused-publisher"
        if k == "resume" || k == "kaclose" then
          match leaseOf e.p, st.pubs.find? (·.p = e.p) with
          | some lease, some e1 =>
            match fault with
            | none =>
              let (st', e') := st.doRegister e1 lease
              st := st'
              evs := evs ++ e'
            | some (fk, fn) =>
              let fg := if fk == "grant" then fn else 0
              let fp := if fk == "put" then fn else 0
              let fka := if fk == "ka" then fn else 0
              let (st', e') := st.doAttempts e1 (attemptsFor fg fp fka (lease - fp - fka))
              st := st'
              evs := evs ++ e'
              r := r.addCover "re-registration-succeeds-after-failed-attempts"
            if e.pub.id > 0 then r := r.addCover "fixed-id-publisher-registers-again-under-the-same-key"
            else r := r.addCover "lease-keyed-publisher-registers-again-under-a-new-key"
          | _, _ => bad := true
    if ps.length > 1 then r := r.addCover s!"{k}-of-several-publishers"
  | [] => bad := true
  if bad then return (st0, r.mismatch sec l.idx "bad-op" (joinSp (l0.op ++ ["=>"] ++ l.obs)))
  r := r.addCover s!"pub-{kind}"
  -- the publishers' bookkeeping: p.lease / p.fullKey, and what etcd holds
  for e in st.pubs do
    match leases.find? (·.1 = e.p) with
    | some (_, lease, key) =>
      if lease ≠ e.pub.lease ∨ key ≠ toString e.pub.fullKey then
        r := r.mismatch sec l.idx s!"publisher {e.p}: lease={e.pub.lease} fullKey={e.pub.fullKey}" s!"lease={lease} fullKey={key}"
    | none => r := r.mismatch sec l.idx s!"publisher {e.p}" "absent"
  if showStore st.store ≠ kvStr l.obs "store" "?" then r := r.mismatch sec l.idx s!"store={showStore st.store}" s!"store={kvStr l.obs "store" "?"}"
  if showStore st.xstore ≠ kvStr l.obs "xstore" "?" then r := r.mismatch sec l.idx s!"xstore={showStore st.xstore}" s!"xstore={kvStr l.obs "xstore" "?"}"
  if (kv? l.obs "timeout").isSome then
    r := r.violation sec l.idx s!"publisher-did-not-register-or-revoke op=[{joinSp l0.op}] store=[{kvStr l.obs "store" "?"}]"
  if (st.pubs.filter fun e => !e.sibling && e.running).length ≥ 2 then r := r.addCover "several-live-publishers"
  if (st.pubs.any fun e => e.sibling && e.running) then r := r.addCover "sibling-service-registered"
  if !st.subscribed && kind ≠ "sub" then
    if (kv? l.obs "values").isSome then r := r.mismatch sec l.idx "values=<absent>" "values=<present>"
    return (st, r)
  if (kv? l.obs "values").isNone then return (st, r.mismatch sec l.idx "values=<present>" "values=<absent>")
  -- the subscriber side: the same model, monitor and correspondence as in the subscriber harness
  let kvsOf (s : Store) : List String := (sortByFst s).map fun e => s!"{e.1}:{e.2.1}"
  let line : Line :=
    match kind with
    | "sub" =>
      -- NewSubscriber loads the store; the order in which handleChanges ranged over the snapshot is read off vals=
      let kvs := (sortByFst st.store).map fun e => (e.1, e.2.1)
      let order := keysOfVals (kvStr l.obs "vals" "")
      let adds := kvs.filter (fun kv => !order.contains kv.1) ++ order.filterMap (fun k => kvs.find? (·.1 = k))
      { l with op := "reload" :: kvsOf st.store,
               obs := [s!"log={showLog (adds.map fun kv => LEv.add kv.1 kv.2)}", s!"notified={adds.length}"]
                        ++ l.obs.filter (fun t => !(t.startsWith "log=") && !(t.startsWith "notified=")) }
    | "rl" => { l with op := "reload" :: kvsOf st.store }
    | "join" => l
    | _ =>
      -- several publishers act concurrently in one operation: etcd's order of their puts / revokes is observed
      let obsEvs := ((splitComma (kvStr l.obs "log" "")).filterMap parseLogTok).map levToEv
      let use := if l.op.length > 2 && obsEvs.length == evs.length && evs.all (fun e => obsEvs.any (evTok · == evTok e)) then obsEvs else evs
      if use.isEmpty then { l with op := ["idle"] } else { l with op := "batch" :: use.map evTok }
  if kind == "sub" && !st.store.isEmpty then r := r.addCover "subscriber-loads-registered-publishers"
  let (sub', r') := runSubLine st.sub r sec line
  r := r'
  -- the property at the publisher level: Values() is the set of values of the live publishers of this service —
  -- unless a failed call left a key behind that nobody renews (it lives until its lease expires: `expire`)
  let alive := (st.pubs.filter (·.running)).map (·.pub.lease)
  let orphans := st.store.filter fun e => !alive.contains e.2.2
  if !orphans.isEmpty then r := r.addCover "orphan-key-awaiting-lease-expiry"
  if !st.sub.excl && orphans.isEmpty then
    let want := showNats (Spec.canonSet ((st.pubs.filter fun e => !e.sibling && e.running).map (·.pub.value)))
    let implValues := kvStr l.obs "values" "?"
    if want ≠ implValues then
      r := r.violation sec l.idx s!"view-differs-from-live-publishers spec=[{want}] impl=[{implValues}] op=[{joinSp l0.op}] store=[{kvStr l.obs "store" "?"}]"
  return ({ st with sub := sub', subscribed := true }, r)

def runPubSection (r : Report) (s : Section) : Report := Id.run do
  let excl := kvNat s.cfg "excl" 0 = 1
  let mut st : PSt := { sub := { excl := excl, cl := { cont := Container.new excl } } }
  let mut r := r
  for l in s.lines do
    let (st', r') := runPubLine st r s.idx l
    st := st'
    r := r'
  return r

/-! multi-key sections (`h=multi n=<n> excl=<bits> exact=<0/1>`): several watched keys on ONE cluster
  put <s> <k> <v> | del <s> <k> | batch <s> … | reloadc <s> <k>:<v>… | connreload <k>:<v>… / <k>:<v>… / … |
  close <s> | reopen <s> <k>:<v>…
  => <s>.log= <s>.vals= <s>.map= <s>.values= <s>.notified= <s>.last=  [x.values=] [rewatched=<s,…>] [lost=1]
Every service is the model / spec / monitor of the single-key sections (`runSubLine`); a reconnect (`connreload`) is a
reload of EVERY watched key (`MultiCluster.reconnect`, theorem `multi_view_equals_registry`). -/

structure MSt where
  svcs : List (Nat × St) := []      -- the open services

/-- the tokens `<i>.k=v` of service `i`, prefix stripped -/
def svcObs (obs : List String) (i : Nat) : List String :=
  obs.filterMap fun t => if t.startsWith s!"{i}." then some (String.ofList (t.toList.drop (s!"{i}.".length))) else none

def splitSlash : List String → List (List String)
  | [] => [[]]
  | t :: ts =>
    match splitSlash ts with
    | [] => [[t]]
    | p :: ps => if t = "/" then [] :: p :: ps else (t :: p) :: ps

def runMultiSection (r : Report) (s : Section) : Report := Id.run do
  let n := kvNat s.cfg "n" 2
  let bits := (kvStr s.cfg "excl" "").toList
  let exact := kvNat s.cfg "exact" 0 = 1
  let mk (i : Nat) : St :=
    let excl := bits.getD i '0' == '1'
    { excl := excl, cl := { cont := Container.new excl }, tag := s!" service={i} of {n} on one cluster" }
  let mut st : MSt := { svcs := (List.range n).map fun i => (i, mk i) }
  let mut r := r
  let mut dead := false
  for l in s.lines do
    if dead then
      r := r.addCover "line-after-deadlock"
      continue
    if (kv? l.obs "dead").isSome then
      dead := true
      r := r.violation s.idx l.idx s!"reload-deadlocks-while-a-watch-response-is-handled op=[{joinSp l.op}] (several watched keys)"
      continue
    -- the operation as seen by every service
    let parsed : Option (String × Option Nat × (Nat → List String)) :=
      match l.op with
      | ["put", sv, k, v] => sv.toNat?.map fun t => ("put", some t, fun i => if i = t then ["put", k, v] else ["idle"])
      | ["del", sv, k] => sv.toNat?.map fun t => ("del", some t, fun i => if i = t then ["del", k] else ["idle"])
      | "batch" :: sv :: ts => sv.toNat?.map fun t => ("batch", some t, fun i => if i = t then "batch" :: ts else ["idle"])
      | "reloadc" :: sv :: ts => sv.toNat?.map fun t => ("reloadc", some t, fun i => if i = t then "reloadc" :: ts else ["idle"])
      | "connreload" :: ts =>
        let parts := splitSlash ts
        if parts.length = n then some ("connreload", none, fun i => "connreload" :: parts.getD i []) else none
      | ["close", sv] => sv.toNat?.map fun t => ("close", some t, fun _ => ["idle"])
      | "reopen" :: sv :: ts => sv.toNat?.map fun t => ("reopen", some t, fun i => if i = t then "reload" :: ts else ["idle"])
      | _ => none
    let some (kind, target, opOf) := parsed | r := r.mismatch s.idx l.idx "bad-op" (joinSp l.op)
    let isOpen (i : Nat) : Bool := st.svcs.any (·.1 = i)
    match target with
    | some t =>
      if t ≥ n ∨ (kind = "reopen" ∧ isOpen t) ∨ (kind ≠ "reopen" ∧ !isOpen t) then
        r := r.mismatch s.idx l.idx "bad-op" (joinSp (l.op ++ ["=>"] ++ l.obs))
        continue
    | none => pure ()
    r := r.addCover s!"multi-{kind}"
    if kind = "close" then
      st := { svcs := st.svcs.filter (·.1 ≠ target.getD n) }
      r := r.addCover "multi-last-listener-of-a-key-leaves"
    if kind = "reopen" then
      st := { svcs := sortByFst (st.svcs ++ [(target.getD 0, mk (target.getD 0))]) }
      r := r.addCover "multi-new-watch-on-a-key-that-was-unmonitored"
    if st.svcs.length ≥ 2 then r := r.addCover "multi-several-keys-watched" else r := r.addCover "multi-one-key-left"
    if (kv? l.obs "lost").isSome then r := r.addCover "multi-event-for-a-key-nobody-watches-any-more"
    -- a reconnect must load and watch every watched key again
    if kind = "connreload" then
      let rew := splitComma (kvStr l.obs "rewatched" "")
      let missing := (st.svcs.map fun p => toString p.1).filter (fun t => !rew.contains t) ++ (if exact && !rew.contains "x" then ["x"] else [])
      if st.svcs.length ≥ 2 then r := r.addCover "multi-reconnect-with-several-keys"
      if !missing.isEmpty then
        r := r.violation s.idx l.idx s!"reconnect-did-not-reload-and-rewatch-every-key missing=[{",".intercalate missing}] rewatched=[{kvStr l.obs "rewatched" ""}] op=[{joinSp l.op}] (later events of these keys are never delivered)"
    let mut svcs' : List (Nat × St) := []
    for (i, sti) in st.svcs do
      let obsI := svcObs l.obs i
      let opI := opOf i
      let line : Line :=
        if kind = "reopen" ∧ target = some i then
          -- the new subscriber loaded the snapshot inside NewSubscriber: the order handleChanges ranged in is read off vals=
          let kvs := (parsePairs (opI.drop 1)).getD []
          let new := ofKVs kvs
          let order := keysOfVals (kvStr obsI "vals" "")
          let adds := new.filter (fun kv => !order.contains kv.1) ++ order.filterMap (fun k => new.find? (·.1 = k))
          { l with op := opI, obs := [s!"log={showLog (adds.map fun kv => LEv.add kv.1 kv.2)}", s!"notified={adds.length}"]
                          ++ obsI.filter (fun t => !(t.startsWith "log=") && !(t.startsWith "notified=")) }
        else { l with op := opI, obs := obsI }
      let (sti', r') := runSubLine sti r s.idx line
      r := r'
      svcs' := svcs' ++ [(i, sti')]
    st := { svcs := svcs' }
    -- the exact-match subscriber (WithExactMatch on key 0 of service 0): the value of that key, if registered
    if exact then
      match st.svcs.find? (·.1 = 0) with
      | some (_, st0) =>
        let want := match st0.reg.get 0 with | some v => toString v | none => ""
        let impl := kvStr l.obs "x.values" "?"
        r := r.addCover (if want = "" then "exact-key-absent" else "exact-key-registered")
        if want ≠ impl then
          r := r.violation s.idx l.idx s!"exact-match-view-differs-from-registry spec=[{want}] impl=[{impl}] op=[{joinSp l.op}] registry=[{showMapping st0.reg}]"
      | none => pure ()
    else if (kv? l.obs "x.values").isSome then r := r.mismatch s.idx l.idx "x.values=<absent>" "x.values=<present>"
  return r

/-! listener sections (`h=lsn n=<n>`): n subscribers on one watcher; a subscriber is closed during a delivery
  put <k> <v> | del <k> | batch … | closein <i> <j> events… | closegate <i> <j> events… | close <i>
  => <s>.values=<ids> <s>.n=<callbacks>     for every subscriber open after the operation -/
def runLsnSection (r : Report) (s : Section) : Report := Id.run do
  let n := kvNat s.cfg "n" 3
  let mut r := r
  let mut reg : Map Nat := []
  let mut live : List Nat := List.range n
  for l in s.lines do
    let parsed : Option (List Ev × Option (Nat × Nat)) :=
      match l.op with
      | ["put", k, v] => do pure ([.put (← k.toNat?) (← v.toNat?)], none)
      | ["del", k] => do pure ([.del (← k.toNat?)], none)
      | "batch" :: ts => do pure ((← ts.mapM parseBatchTok), none)
      | "closein" :: i :: j :: ts | "closegate" :: i :: j :: ts => do pure ((← ts.mapM parseBatchTok), some ((← i.toNat?), (← j.toNat?)))
      | ["close", i] => do pure ([], some ((← i.toNat?), (← i.toNat?)))
      | _ => none
    let some (evs, cl) := parsed | r := r.mismatch s.idx l.idx "bad-op" (joinSp l.op)
    match cl with
    | some (i, j) =>
      if !(live.contains i) || !(live.contains j) then
        r := r.mismatch s.idx l.idx "bad-op" (joinSp (l.op ++ ["=>"] ++ l.obs))
        continue
      if l.op.head? != some "close" then
        let pi := (live.takeWhile (· ≠ i)).length
        let pj := (live.takeWhile (· ≠ j)).length
        r := r.addCover (if pi < pj then "close-during-delivery-of-an-earlier-listener" else if pi = pj then "close-during-delivery-of-itself" else "close-during-delivery-of-a-later-listener")
        r := r.addCover s!"lsn-{l.op.headD "?"}"
      live := live.filter (· ≠ i)
    | none => pure ()
    r := { r with ops := r.ops + 1 }
    r := r.addCover s!"lsn-listeners-{live.length}"
    reg := evs.foldl Spec.apply reg
    let want := showNats (Spec.viewList reg)
    for i in live do
      let vals := kvStr l.obs s!"{i}.values" "?"
      let cnt := kvStr l.obs s!"{i}.n" "?"
      -- every remaining listener is told every event exactly once, and shows the registry
      if cnt ≠ toString evs.length then
        r := r.violation s.idx l.idx s!"listener-not-notified-exactly-once-per-event subscriber={i} callbacks={cnt} events={evs.length} op=[{joinSp l.op}] (a subscriber on the same key was closed during the delivery)"
      if vals ≠ want then
        r := r.violation s.idx l.idx s!"view-differs-from-registry spec=[{want}] impl=[{vals}] excl=false op=[{joinSp l.op}] registry=[{showMapping reg}] subscriber={i} of {n} on one watcher"
  return r

def runSection (r : Report) (s : Section) : Report := Id.run do
  if kvStr s.cfg "h" "" = "pub" then return runPubSection r s
  if kvStr s.cfg "h" "" = "kube" then return runKubeSection r s
  if kvStr s.cfg "h" "" = "conc" then return runConcSection r s
  if kvStr s.cfg "h" "" = "build" then return runBuildSection r s
  if kvStr s.cfg "h" "" = "multi" then return runMultiSection r s
  if kvStr s.cfg "h" "" = "lsn" then return runLsnSection r s
  let excl := kvNat s.cfg "excl" 0 = 1
  let mut st : St := { excl := excl, cl := { cont := Container.new excl } }
  let mut r := r
  for l in s.lines do
    let (st', r') := runSubLine st r s.idx l
    st := st'
    r := r'
  return r

def driver (secs : List Section) : Report := secs.foldl runSection {}

end GoZero.C13
