/-
C13 — interleaving model of `discovBuilder.Build` (zrpc/resolver/internal/discovbuilder.go) against the watch
goroutine that delivers registry events to the subscriber (core Lean only).

  Build:   sub := NewSubscriber(…)            (before the model starts: `view` is what the subscriber shows)
           sub.AddListener(update)             step `addListener`
           update():  vals := sub.Values()     step `bRead`
                      cc.UpdateState(vals)     step `bPublish`
  watch:   container.OnAdd / OnDelete          step `apply v`   (Values() is `v` from now on), then notifyChange:
           every registered listener runs: update(): Values(), UpdateState   step `wUpdate`

`Order.listenerFirst` is the code (AddListener, then update()); `Order.updateFirst` is the order of the seeded
change C13-5.  `atomic = true`: update() calls are serialised (a mutex around Values() + UpdateState — the proposed
fixes/C13-resolver-update-serialized.patch); `atomic = false`: the code as it is, the watch goroutine's update() may
run between Build's Values() and Build's UpdateState.  UpdateState calls are ordered by gRPC in the order they are entered.
-/
namespace GoZero.C13.BuildConc

inductive Order where
  | listenerFirst
  | updateFirst
  deriving DecidableEq, Repr

inductive Act where
  | build                 -- the next step of Build's goroutine
  | apply (v : List Nat)  -- the watch goroutine applies an event: Values() is `v` afterwards
  | wUpdate               -- the watch goroutine's pending notification runs update()
  deriving DecidableEq, Repr

structure St where
  view     : List Nat := []            -- what sub.Values() returns
  listener : Bool := false             -- update is registered
  pub      : Option (List Nat) := none -- the last UpdateState
  pc       : Nat := 0                  -- Build: 0,1,2 = the three steps, 3 = returned
  bvals    : List Nat := []            -- Build's update(): the slice it read
  wneeds   : Bool := false             -- a change was applied after which the listener has not run yet
  deriving DecidableEq, Repr

/-- Build's three steps in program order -/
def buildStep (o : Order) (s : St) : St :=
  match o, s.pc with
  | .listenerFirst, 0 => { s with listener := true, pc := 1 }
  | .listenerFirst, 1 => { s with bvals := s.view, pc := 2 }
  | .listenerFirst, 2 => { s with pub := some s.bvals, pc := 3 }
  | .updateFirst, 0 => { s with bvals := s.view, pc := 1 }
  | .updateFirst, 1 => { s with pub := some s.bvals, pc := 2 }
  | .updateFirst, 2 => { s with listener := true, pc := 3 }
  | _, _ => s

/-- Build is between its `Values()` and its `UpdateState` -/
def inUpdate (o : Order) (s : St) : Bool :=
  match o with
  | .listenerFirst => s.pc == 2
  | .updateFirst => s.pc == 1

def step (o : Order) (atomic : Bool) (s : St) : Act → St
  | .build => buildStep o s
  | .apply v => { s with view := v, wneeds := s.wneeds || s.listener }
  | .wUpdate =>
    if s.wneeds && !(atomic && inUpdate o s) then { s with pub := some s.view, wneeds := false } else s

def exec (o : Order) (atomic : Bool) (s : St) (acts : List Act) : St := acts.foldl (step o atomic) s

/-- nothing is in flight: Build returned and every applied change was followed by the listener's update() -/
abbrev Quiescent (s : St) : Prop := s.pc = 3 ∧ s.wneeds = false

end GoZero.C13.BuildConc
