/-
C13 — the executable copy of the exclusive subscriber's spec (association lists, used by the driver's
monitor) equals the function spec `Reg.counting` the theorems are stated against.
-/
import GoZero.C13.ProofsExcl
namespace GoZero.C13
open Map Spec

theorem nodup_keys_filter (m : Map Nat) (f : Nat × Nat → Bool) (h : (keys m).Nodup) : (keys (m.filter f)).Nodup := by
  unfold keys at *
  exact h.sublist ((List.filter_sublist (l := m) (p := f)).map _)

theorem get_filter_val (m : Map Nat) (h : (keys m).Nodup) (v k : Nat) :
    Map.get (List.filter (fun p : Nat × Nat => decide (p.2 ≠ v)) m) k = if Map.get m k = some v then none else Map.get m k := by
  induction m with
  | nil => simp
  | cons p t ih =>
    have hk : p.1 ∉ keys t ∧ (keys t).Nodup := by
      unfold keys at h ⊢; simpa using h
    have iht := ih hk.2
    by_cases hv : p.2 = v
    · have : List.filter (fun p : Nat × Nat => decide (p.2 ≠ v)) (p :: t) = List.filter (fun p : Nat × Nat => decide (p.2 ≠ v)) t := by
        simp [List.filter, hv]
      rw [this, iht, get_cons]
      by_cases hp : p.1 = k
      · have hnone : get t k = none := by
          cases hg : get t k with
          | none => rfl
          | some x =>
            exfalso; apply hk.1; rw [hp, mem_keys_iff, hg]; simp
        simp [hp, hv, hnone]
      · simp [hp]
    · have : List.filter (fun p : Nat × Nat => decide (p.2 ≠ v)) (p :: t) = p :: List.filter (fun p : Nat × Nat => decide (p.2 ≠ v)) t := by
        simp [List.filter, hv]
      rw [this, get_cons, get_cons, iht]
      by_cases hp : p.1 = k
      · simp [hp, hv]
      · simp [hp]

theorem exApplyL_refines (m : Map Nat) (r : Reg) (hn : (keys m).Nodup) (hr : ∀ k, m.get k = r k) (l : LEv) :
    (keys (exApplyL m l)).Nodup ∧ ∀ k, (exApplyL m l).get k = (Reg.applyL true r l) k := by
  cases l with
  | add k v =>
    refine ⟨nodup_keys_set _ _ _ (nodup_keys_filter m _ hn), fun k' => ?_⟩
    show (Map.set (m.filter (fun p => p.2 ≠ v)) k v).get k' = Reg.exPut r k v k'
    rw [get_set, get_filter_val m hn, hr]
    rfl
  | del k =>
    refine ⟨nodup_keys_erase m k hn, fun k' => ?_⟩
    show (m.erase k).get k' = Reg.del r k k'
    rw [get_erase, hr]; rfl

theorem counting_monitor_refines (ls : List LEv) (m : Map Nat) (r : Reg) (hn : (keys m).Nodup)
    (hr : ∀ k, m.get k = r k) :
    (keys (ls.foldl exApplyL m)).Nodup ∧ ∀ k, (ls.foldl exApplyL m).get k = (ls.foldl (Reg.applyL true) r) k := by
  induction ls generalizing m r with
  | nil => exact ⟨hn, hr⟩
  | cons l t ih =>
    obtain ⟨h1, h2⟩ := exApplyL_refines m r hn hr l
    exact ih _ _ h1 h2

end GoZero.C13
