/-
C13 — lemmas for Multi.lean: a cluster with several watched keys behaves, for every key, like the single-key
cluster run on the key's projection of the history; the re-registration loop reaches its first successful attempt.
-/
import GoZero.C13.Multi
import GoZero.C13.Spec
namespace GoZero.C13

theorem reconnectAll_get (fx : Fix) (keys : List Nat) (snap : Nat → Ev) (m : MState) (s : Nat) (hn : keys.Nodup) :
    reconnectAll fx m keys snap s = if s ∈ keys then step fx (m s) (snap s) else m s := by
  unfold reconnectAll
  induction keys generalizing m with
  | nil => simp
  | cons k ks ih =>
    have hk : k ∉ ks := (List.nodup_cons.mp hn).1
    have hn' : ks.Nodup := (List.nodup_cons.mp hn).2
    rw [List.foldl_cons, ih _ hn']
    by_cases hs : s = k
    · subst hs
      simp [hk, upd]
    · by_cases hm : s ∈ ks
      · simp [hm, upd, hs]
      · simp [hm, upd, hs]

theorem mrun_proj (fx : Fix) (evs : List MEv) (init : MState) (s : Nat) (hv : MValid evs) :
    mrun fx true init evs s = (proj s evs).foldl (step fx) (init s) := by
  unfold mrun
  induction evs generalizing init with
  | nil => rfl
  | cons e rest ih =>
    cases e with
    | on t ev =>
      rw [List.foldl_cons, ih _ hv]
      by_cases h : t = s
      · subst h; simp [proj, mstep, upd]
      · have h' : ¬ s = t := fun e => h e.symm
        simp [proj, mstep, upd, h, h']
    | reconnect keys snap =>
      rw [List.foldl_cons, ih _ hv.2]
      simp only [mstep, if_true, proj]
      rw [reconnectAll_get fx keys snap init s hv.1]
      by_cases h : s ∈ keys <;> simp [h]

/-! publisher attempts -/

theorem doKeepAlive_fails_then_ok (p : Pub) (s : Store) (fails : List Attempt) (l : Nat) (rest : List Attempt)
    (hf : ∀ a, a ∈ fails → a.isOk = false) :
    ∃ (p0 : Pub) (s0 : Store), doKeepAlive true p s (fails ++ .ok l :: rest) = (p0.register l, storePut s0 (p0.register l), true)
      ∧ p0.id = p.id ∧ p0.value = p.value := by
  induction fails generalizing p s with
  | nil => exact ⟨p, s, by simp [doKeepAlive, Attempt.isOk, Pub.attempt], rfl, rfl⟩
  | cons a as ih =>
    have ha : a.isOk = false := hf a (by simp)
    obtain ⟨p0, s0, h1, h2, h3⟩ := ih (p.attempt s a).1 (p.attempt s a).2 (fun b hb => hf b (by simp [hb]))
    refine ⟨p0, s0, ?_, ?_, ?_⟩
    · simp only [List.cons_append, doKeepAlive, ha]
      simpa using h1
    · rw [h2]; cases a <;> simp [Pub.attempt, Pub.register]
    · rw [h3]; cases a <;> simp [Pub.attempt, Pub.register]

theorem doKeepAlive_noretry_gives_up (p : Pub) (s : Store) (a : Attempt) (rest : List Attempt) (ha : a.isOk = false) :
    (doKeepAlive false p s (a :: rest)).2.2 = false := by
  simp [doKeepAlive, ha]


/-! listeners -/

theorem find_filter_ne (ls : Listeners) (i j : Nat) (h : j ≠ i) :
    (ls.filter (fun p => p.1 ≠ i)).find? (fun p => p.1 = j) = ls.find? (fun p => p.1 = j) := by
  induction ls with
  | nil => rfl
  | cons p t ih =>
    by_cases hi : p.1 = i
    · have hj : ¬ p.1 = j := fun e => h (e ▸ hi)
      have d1 : decide (p.1 ≠ i) = false := by simp [hi]
      have d2 : decide (p.1 = j) = false := by simp [hj]
      rw [List.filter_cons, d1, List.find?_cons, d2]
      exact ih
    · have d1 : decide (p.1 ≠ i) = true := by simp [hi]
      rw [List.filter_cons, d1]
      by_cases hj : p.1 = j
      · have d2 : decide (p.1 = j) = true := by simp [hj]
        simp only [if_true, List.find?_cons, d2]
      · have d2 : decide (p.1 = j) = false := by simp [hj]
        simp only [if_true, List.find?_cons, d2]
        exact ih

theorem find_map_snd (ls : Listeners) (g : Container → Container) (j : Nat) :
    (ls.map fun p => (p.1, g p.2)).find? (fun p => p.1 = j) = (ls.find? (fun p => p.1 = j)).map fun p => (p.1, g p.2) := by
  induction ls with
  | nil => rfl
  | cons p t ih =>
    by_cases hj : p.1 = j
    · simp [List.find?_cons, hj]
    · simp [List.find?_cons, hj, ih]

theorem listeners_get_unmonitor_deliver (fx : Fix) (ls : Listeners) (i j : Nat) (h : j ≠ i) (evs : List LEv) :
    ((ls.unmonitor i).deliver fx evs).get j = (ls.deliver fx evs).get j := by
  unfold Listeners.unmonitor Listeners.deliver Listeners.get
  rw [find_map_snd _ (fun c => evs.foldl (applyL fx) c), find_map_snd _ (fun c => evs.foldl (applyL fx) c), find_filter_ne ls i j h]

theorem loadLoop_installs_first_success (fails : List (Option (List (Nat × Nat)))) (kvs : List (Nat × Nat))
    (rest : List (Option (List (Nat × Nat)))) (hf : ∀ r ∈ fails, r = none) :
    loadLoop (fails ++ some kvs :: rest) = some kvs := by
  induction fails with
  | nil => rfl
  | cons a t ih =>
    have : a = none := hf a (by simp)
    subst this
    simpa [loadLoop] using ih (fun r hr => hf r (by simp [hr]))


theorem count_one_of_nodup (ls : List Nat) (hn : ls.Nodup) (x : Nat) (hx : x ∈ ls) : ls.count x = 1 := by
  induction ls with
  | nil => cases hx
  | cons a t ih =>
    have hna : a ∉ t := (List.nodup_cons.mp hn).1
    have hnt := (List.nodup_cons.mp hn).2
    by_cases h : a = x
    · subst h
      have : t.count a = 0 := List.count_eq_zero.mpr hna
      simp [List.count_cons, this]
    · have hxa : ¬ x = a := fun e => h e.symm
      have hx' : x ∈ t := by
        rcases List.mem_cons.mp hx with e | e
        · exact absurd e hxa
        · exact e
      simp [List.count_cons, h, ih hnt hx']

end GoZero.C13
