/-
C13 — Tie: what the extractor read from the go-zero tree *now* equals what the model was written against.
-/
import GoZero.Extracted.C13
import GoZero.C13.Model
namespace GoZero.C13.Tie
open GoZero.C13
open GoZero.Extracted.C13

theorem extraction_clean : extractionErrors = [] := by decide

/-- the property's literal number: the resolver publishes everything up to 32 addresses -/
theorem tie_subsetSize : Extracted.C13.subsetSize = 32 ∧ (GoZero.C13.subsetSize : Int) = Extracted.C13.subsetSize := by
  decide

end GoZero.C13.Tie
