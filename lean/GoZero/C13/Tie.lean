/-
C13 — Tie: what the extractor read from the go-zero tree *now* equals what the model was written against.
A failing obligation here means the code moved away from the model (Model.lean names the Go statement
each definition follows).  The small functions that decide the property are tied statement by statement
(normalised source, comments/layout/logging dropped); the surrounding plumbing by its call/lock skeleton.
-/
import GoZero.Extracted.C13
import GoZero.C13.Model
namespace GoZero.C13.Tie
open GoZero.C13
open GoZero.Extracted.C13

theorem extraction_clean : extractionErrors = [] := by decide

/-- the property's literal number: the resolver publishes everything up to 32 addresses -/
theorem tie_subsetSize : Extracted.C13.subsetSize = 32 ∧ (GoZero.C13.subsetSize : Int) = Extracted.C13.subsetSize := by
  decide

/-- `addKv`: dirty; detach the key from its previous value (the fix: `Fix.detach`); exclusive: displace the keys listed
under the value (ranging over the live slice: `exclLoop`); append the key; `mapping[key] = value` — `GoZero.C13.addKv`. -/
theorem tie_addKvStmts : addKvStmts =
    ["c.lock.Lock()",
     "defer c.lock.Unlock()",
     "c.dirty.Set(true)",
     "c.doRemoveKey(key)",
     "keys := c.values[value]",
     "previous := append([]string(nil), keys...)",
     "early := len(keys) > 0",
     "if c.exclusive && early {",
     "for _, each := range keys {",
     "c.doRemoveKey(each)",
     "}",
     "}",
     "c.values[value] = append(c.values[value], key)",
     "c.mapping[key] = value",
     "if early {",
     "return previous, true",
     "}",
     "return nil, false"] := by decide

/-- `doRemoveKey`: unknown key: nothing; else delete the mapping, filter the key out of its value's list in place,
keep the non-empty rest or delete the value — `GoZero.C13.doRemoveKey`. -/
theorem tie_doRemoveKeyStmts : doRemoveKeyStmts =
    ["server, ok := c.mapping[key]",
     "if !ok {",
     "return",
     "}",
     "delete(c.mapping, key)",
     "keys := c.values[server]",
     "remain := keys[:0]",
     "for _, k := range keys {",
     "if k != key {",
     "remain = append(remain, k)",
     "}",
     "}",
     "if len(remain) > 0 {",
     "c.values[server] = remain",
     "}",
     "else {",
     "delete(c.values, server)",
     "}"] := by decide

/-- `getValues`: the snapshot unless dirty; else the keys of `values`, stored as snapshot, dirty cleared — `GoZero.C13.getValues`. -/
theorem tie_getValuesStmts : getValuesStmts =
    ["if !c.dirty.True() {",
     "return c.snapshot.Load().([]string)",
     "}",
     "c.lock.Lock()",
     "defer c.lock.Unlock()",
     "var vals []string",
     "for each := range c.values {",
     "vals = append(vals, each)",
     "}",
     "c.snapshot.Store(vals)",
     "c.dirty.Set(false)",
     "return vals"] := by decide

/-- `calculateChanges`: add = entries of newVals that are new or changed; remove = keys of oldVals that are gone
(the fix: `Fix.removeGoneOnly`) — `calcAdds` / `calcRemoves`. -/
theorem tie_calculateChangesStmts : calculateChangesStmts =
    ["for k, v := range newVals {",
     "if val, ok := oldVals[k]; !ok || v != val {",
     "add = append(add, KV{ Key: k, Val: v, })",
     "}",
     "}",
     "for k, v := range oldVals {",
     "if _, ok := newVals[k]; !ok {",
     "remove = append(remove, KV{ Key: k, Val: v, })",
     "}",
     "}",
     "return add, remove"] := by decide

/-- `subset`: shuffle, everything when `len ≤ sub`, else the first `sub` — `GoZero.C13.subset`.  Two forms are
accepted until fixes/C13-subset-copies-snapshot.patch is applied: the fixed one shuffles a copy; the pinned one
shuffles the caller's slice — the cached snapshot of `Values()` — in place (witness
`shared_snapshot_shuffle_corrupts`; the harness reports it as `resolver-shuffles-the-shared-snapshot`). -/
theorem tie_subsetStmts :
    subsetStmts =
      ["set = append([]string(nil), set...)",
       "rand.Shuffle(len(set), func(i, j int) { set[i], set[j] = set[j], set[i] })",
       "if len(set) <= sub {",
       "return set",
       "}",
       "return set[:sub]"]
    ∨ subsetStmts =
      ["rand.Shuffle(len(set), func(i, j int) { set[i], set[j] = set[j], set[i] })",
       "if len(set) <= sub {",
       "return set",
       "}",
       "return set[:sub]"] := by decide

/-- kube `diff`: sizes differ or an old element is missing — `kdiff`. -/
theorem tie_kubeDiffStmts : kubeDiffStmts =
    ["if len(o) != len(n) {",
     "return true",
     "}",
     "for k := range o {",
     "if _, ok := n[k]; !ok {",
     "return true",
     "}",
     "}",
     "return false"] := by decide

/-- kube `notify`: publishes exactly the current set — `Kube.notify`. -/
theorem tie_kubeNotifyStmts : kubeNotifyStmts =
    ["targets := make([]string, 0, len(h.endpoints))",
     "for k := range h.endpoints {",
     "targets = append(targets, k)",
     "}",
     "h.update(targets)"] := by decide

/-- `OnAdd` = addKv, then notifyChange (the listeners run after the change) — `onAdd`. -/
theorem tie_onAddShape : onAddShape =
    ["call c.addKv",
     "call c.notifyChange"] := by decide

/-- `OnDelete` = removeKey, then notifyChange — `onDelete`. -/
theorem tie_onDeleteShape : onDeleteShape =
    ["call c.removeKey",
     "call c.notifyChange"] := by decide

/-- `removeKey`: dirty, doRemoveKey — `removeKey`. -/
theorem tie_removeKeyShape : removeKeyShape =
    ["call c.lock.Lock",
     "defer{",
     "call c.lock.Unlock",
     "}",
     "call c.dirty.Set",
     "call c.doRemoveKey"] := by decide

/-- `notifyChange` calls every listener once. -/
theorem tie_notifyChangeShape : notifyChangeShape =
    ["call c.lock.Lock",
     "call ?",
     "call c.lock.Unlock",
     "range listeners {",
     "call listener",
     "}"] := by decide

/-- the deliveries are serialised by the cluster's notifyLock (ConcJoin.lean, `fx = true`) -/
def notifyLocked : List String :=
  ["call c.notifyLock.Lock",
   "defer{",
   "call c.notifyLock.Unlock",
   "}"]

def handleChangesBody : List String :=
    ["call c.lock.Lock",
     "if !ok {",
     "call c.lock.Unlock",
     "return",
     "}",
     "call ?",
     "range kvs {",
     "mapset newVals",
     "}",
     "call calculateChanges",
     "store watcher.values",
     "call c.lock.Unlock",
     "range add {",
     "range listeners {",
     "call l.OnAdd",
     "}",
     "}",
     "range remove {",
     "range listeners {",
     "call l.OnDelete",
     "}",
     "}"]

def handleWatchEventsBody : List String :=
    ["call c.lock.RLock",
     "if !ok {",
     "call c.lock.RUnlock",
     "return",
     "}",
     "call ?",
     "call c.lock.RUnlock",
     "range events {",
     "switch ev.Type {",
     "case clientv3.EventTypePut:",
     "call c.lock.Lock",
     "mapset watcher.values",
     "call c.lock.Unlock",
     "range listeners {",
     "call l.OnAdd",
     "}",
     "case clientv3.EventTypeDelete:",
     "call c.lock.Lock",
     "delete watcher.values",
     "call c.lock.Unlock",
     "range listeners {",
     "call l.OnDelete",
     "}",
     "default:",
     "call logc.Errorf",
     "}",
     "}"]

/-- Registry.Monitor before fixes/C13-registry-join-and-reload.patch: append the listener, read the current
values, replay them — three steps that interleave with handleWatchEvents (ConcJoin, `fx = false`). -/
def monitorPinned : List String :=
    ["call r.getOrCreateCluster",
     "if exists {",
     "call c.lock.Lock",
     "if ok {",
     "store watcher.listeners",
     "}",
     "call c.lock.Unlock",
     "if ok {",
     "call c.getCurrent",
     "range kvs {",
     "call l.OnAdd",
     "}",
     "return",
     "}",
     "}",
     "call c.monitor",
     "return"]

def monitorFixed : List String :=
    ["call r.getOrCreateCluster",
     "if exists && c.join(wkey, l) {",
     "return",
     "}",
     "call c.monitor",
     "return"]

/-- cluster.join (fixed code): under the notifyLock: append the listener, replay `getCurrent` — `ConcJoin.step`
`.join`, sequentially `runLate`. -/
def joinFixed : List String :=
    ["call c.notifyLock.Lock",
     "defer{",
     "call c.notifyLock.Unlock",
     "}",
     "call c.lock.Lock",
     "if ok {",
     "store watcher.listeners",
     "}",
     "call c.lock.Unlock",
     "if !ok {",
     "return",
     "}",
     "range c.getCurrent(key) {",
     "call l.OnAdd",
     "}",
     "return"]

/-- `handleChanges`: newVals from kvs (later entries win), calculateChanges, replace watcher.values, then all
OnAdd, then all OnDelete — `emit (.reload …)`, `stepValues`; `handleWatchEvents`: PUT sets the key and calls OnAdd,
DELETE deletes it and calls OnDelete — `emit`, `stepValues`; a listener joins through Monitor / join.
Either all of them are the fixed form (every delivery and the join's append + replay under the notifyLock:
`late_join_atomic`) or all of them are the pinned form (witness `pinned_late_join_loses_event`, reported by the
harness as `late-joiner-differs-from-registry`): a half-applied patch does not pass. -/
theorem tie_deliveryShapes :
    (handleChangesShape = notifyLocked ++ handleChangesBody
      ∧ handleWatchEventsShape = notifyLocked ++ handleWatchEventsBody
      ∧ monitorShape = monitorFixed ∧ joinShape = joinFixed)
    ∨ (handleChangesShape = handleChangesBody
      ∧ handleWatchEventsShape = handleWatchEventsBody
      ∧ monitorShape = monitorPinned ∧ joinShape = []) := by decide

/-- `getCurrent`: the watcher's values under the read lock (what a joining listener is told) — `ValidJoin`. -/
theorem tie_getCurrentShape : getCurrentShape =
    ["call c.lock.RLock",
     "defer{",
     "call c.lock.RUnlock",
     "}",
     "if !ok {",
     "return",
     "}",
     "range watcher.values {",
     "}",
     "return"] := by decide

/-- `cluster.reload` (connection-state change): cancel the watches, wait for the watch goroutines, start new ones
that `load` (-> handleChanges: `Ev.reload`) and watch.  Fixed form: the wait happens *without* the cluster lock
(the watch goroutine needs it to finish the response it is handling) and reloads are serialised; the pinned form
waits holding the lock (reported by the harness as `reload-deadlocks-while-a-watch-response-is-handled`). -/
theorem tie_reloadShape :
    reloadShape =
      ["call c.reloadLock.Lock",
       "defer{",
       "call c.reloadLock.Unlock",
       "}",
       "call c.lock.Lock",
       "close c.done",
       "call c.lock.Unlock",
       "call c.watchGroup.Wait",
       "call c.lock.Lock",
       "range c.watchers {",
       "if wval.cancel != nil {",
       "call wval.cancel",
       "}",
       "}",
       "store c.done",
       "call threading.NewRoutineGroup",
       "store c.watchGroup",
       "call c.lock.Unlock",
       "range keys {",
       "func{",
       "call c.load",
       "call c.watch",
       "}",
       "call c.watchGroup.Run",
       "}"]
    ∨ reloadShape =
      ["call c.lock.Lock",
       "close c.done",
       "call c.watchGroup.Wait",
       "range c.watchers {",
       "if wval.cancel != nil {",
       "call wval.cancel",
       "}",
       "}",
       "store c.done",
       "call threading.NewRoutineGroup",
       "store c.watchGroup",
       "call c.lock.Unlock",
       "range keys {",
       "func{",
       "call c.load",
       "call c.watch",
       "}",
       "call c.watchGroup.Run",
       "}"] := by decide

/-- discovBuilder.Build: update = UpdateState(subset(sub.Values(), subsetSize)); registered as listener and called once. -/
theorem tie_discovBuildShape : discovBuildShape =
    ["call targets.GetAuthority",
     "func{",
     "return",
     "}",
     "call targets.GetEndpoints",
     "call discov.NewSubscriber",
     "if err != nil {",
     "return",
     "}",
     "func{",
     "call sub.Values",
     "call subset",
     "range vals {",
     "}",
     "call cc.UpdateState",
     "if err != nil {",
     "}",
     "}",
     "call sub.AddListener",
     "call update",
     "return"] := by decide

/-- kube OnAdd: insert unknown addresses, notify iff something was new — `Kube.step (.add …)`. -/
theorem tie_kubeOnAddShape : kubeOnAddShape =
    ["if !ok {",
     "return",
     "}",
     "call h.lock.Lock",
     "defer{",
     "call h.lock.Unlock",
     "}",
     "range endpoints.Subsets {",
     "range sub.Addresses {",
     "if !ok {",
     "mapset h.endpoints",
     "}",
     "}",
     "}",
     "if changed {",
     "call h.notify",
     "}"] := by decide

/-- kube OnDelete: delete known addresses, notify iff something was known — `Kube.step (.del …)`. -/
theorem tie_kubeOnDeleteShape : kubeOnDeleteShape =
    ["if !ok {",
     "return",
     "}",
     "call h.lock.Lock",
     "defer{",
     "call h.lock.Unlock",
     "}",
     "range endpoints.Subsets {",
     "range sub.Addresses {",
     "if ok {",
     "delete h.endpoints",
     "}",
     "}",
     "}",
     "if changed {",
     "call h.notify",
     "}"] := by decide

/-- kube OnUpdate: ignored when the resource version is unchanged, else Update — `Kube.step (.update …)`. -/
theorem tie_kubeOnUpdateShape : kubeOnUpdateShape =
    ["if !ok {",
     "return",
     "}",
     "if !ok {",
     "return",
     "}",
     "if oldEndpoints.ResourceVersion == newEndpoints.ResourceVersion {",
     "return",
     "}",
     "call h.Update"] := by decide

/-- kube Update: replace the set, notify iff diff(old, new) — `Kube.setAll`. -/
theorem tie_kubeUpdateShape : kubeUpdateShape =
    ["call h.lock.Lock",
     "defer{",
     "call h.lock.Unlock",
     "}",
     "store h.endpoints",
     "range endpoints.Subsets {",
     "range sub.Addresses {",
     "mapset h.endpoints",
     "}",
     "}",
     "if diff(old, h.endpoints) {",
     "call h.notify",
     "}"] := by decide

end GoZero.C13.Tie
