/-
C13 — Tie: what the extractor read from the go-zero tree *now* equals what the model was written against.
A failing obligation here means the code moved away from the model (Model.lean names the Go statement
each definition follows).  The small functions that decide the property are tied statement by statement
(normalised source, comments/layout/logging dropped); the surrounding plumbing by its call/lock skeleton.
-/
import GoZero.Extracted.C13
import GoZero.C13.Model
namespace GoZero.C13.Tie
open GoZero.C13
open GoZero.Extracted.C13

set_option maxRecDepth 8000

theorem extraction_clean : extractionErrors = [] := by decide

/-- the property's literal number: the resolver publishes everything up to 32 addresses -/
theorem tie_subsetSize : Extracted.C13.subsetSize = 32 ∧ (GoZero.C13.subsetSize : Int) = Extracted.C13.subsetSize := by
  decide

/-- `addKv`: dirty; detach the key from its previous value (the fix: `Fix.detach`); exclusive: displace the keys listed
under the value (ranging over the live slice: `exclLoop`); append the key; `mapping[key] = value` — `GoZero.C13.addKv`. -/
theorem tie_addKvStmts : addKvStmts =
    ["c.lock.Lock()",
     "defer c.lock.Unlock()",
     "c.dirty.Set(true)",
     "c.doRemoveKey(key)",
     "keys := c.values[value]",
     "previous := append([]string(nil), keys...)",
     "early := len(keys) > 0",
     "if c.exclusive && early {",
     "for _, each := range keys {",
     "c.doRemoveKey(each)",
     "}",
     "}",
     "c.values[value] = append(c.values[value], key)",
     "c.mapping[key] = value",
     "if early {",
     "return previous, true",
     "}",
     "return nil, false"] := by decide

/-- `doRemoveKey`: unknown key: nothing; else delete the mapping, filter the key out of its value's list in place,
keep the non-empty rest or delete the value — `GoZero.C13.doRemoveKey`. -/
theorem tie_doRemoveKeyStmts : doRemoveKeyStmts =
    ["server, ok := c.mapping[key]",
     "if !ok {",
     "return",
     "}",
     "delete(c.mapping, key)",
     "keys := c.values[server]",
     "remain := keys[:0]",
     "for _, k := range keys {",
     "if k != key {",
     "remain = append(remain, k)",
     "}",
     "}",
     "if len(remain) > 0 {",
     "c.values[server] = remain",
     "}",
     "else {",
     "delete(c.values, server)",
     "}"] := by decide

/-- `getValues`: the snapshot unless dirty; else the keys of `values`, stored as snapshot, dirty cleared — `GoZero.C13.getValues`. -/
theorem tie_getValuesStmts : getValuesStmts =
    ["if !c.dirty.True() {",
     "return c.snapshot.Load().([]string)",
     "}",
     "c.lock.Lock()",
     "defer c.lock.Unlock()",
     "var vals []string",
     "for each := range c.values {",
     "vals = append(vals, each)",
     "}",
     "c.snapshot.Store(vals)",
     "c.dirty.Set(false)",
     "return vals"] := by decide

/-- `calculateChanges`: add = entries of newVals that are new or changed; remove = keys of oldVals that are gone
(the fix: `Fix.removeGoneOnly`) — `calcAdds` / `calcRemoves`. -/
theorem tie_calculateChangesStmts : calculateChangesStmts =
    ["for k, v := range newVals {",
     "if val, ok := oldVals[k]; !ok || v != val {",
     "add = append(add, KV{ Key: k, Val: v, })",
     "}",
     "}",
     "for k, v := range oldVals {",
     "if _, ok := newVals[k]; !ok {",
     "remove = append(remove, KV{ Key: k, Val: v, })",
     "}",
     "}",
     "return add, remove"] := by decide

/-- `subset`: shuffle, everything when `len ≤ sub`, else the first `sub` — `GoZero.C13.subset`.  Two forms are
accepted until fixes/C13-subset-copies-snapshot.patch is applied: the fixed one shuffles a copy; the pinned one
shuffles the caller's slice — the cached snapshot of `Values()` — in place (witness
`shared_snapshot_shuffle_corrupts`; the harness reports it as `resolver-shuffles-the-shared-snapshot`). -/
theorem tie_subsetStmts :
    subsetStmts =
      ["set = append([]string(nil), set...)",
       "rand.Shuffle(len(set), func(i, j int) { set[i], set[j] = set[j], set[i] })",
       "if len(set) <= sub {",
       "return set",
       "}",
       "return set[:sub]"]
    ∨ subsetStmts =
      ["rand.Shuffle(len(set), func(i, j int) { set[i], set[j] = set[j], set[i] })",
       "if len(set) <= sub {",
       "return set",
       "}",
       "return set[:sub]"] := by decide

/-- kube `diff`: sizes differ or an old element is missing — `kdiff`. -/
theorem tie_kubeDiffStmts : kubeDiffStmts =
    ["if len(o) != len(n) {",
     "return true",
     "}",
     "for k := range o {",
     "if _, ok := n[k]; !ok {",
     "return true",
     "}",
     "}",
     "return false"] := by decide

/-- kube `notify`: publishes exactly the current set — `Kube.notify`. -/
theorem tie_kubeNotifyStmts : kubeNotifyStmts =
    ["targets := make([]string, 0, len(h.endpoints))",
     "for k := range h.endpoints {",
     "targets = append(targets, k)",
     "}",
     "h.update(targets)"] := by decide

/-- `OnAdd` = addKv, then notifyChange (the listeners run after the change) — `onAdd`. -/
theorem tie_onAddShape : onAddShape =
    ["call c.addKv",
     "call c.notifyChange"] := by decide

/-- `OnDelete` = removeKey, then notifyChange — `onDelete`. -/
theorem tie_onDeleteShape : onDeleteShape =
    ["call c.removeKey",
     "call c.notifyChange"] := by decide

/-- `removeKey`: dirty, doRemoveKey — `removeKey`. -/
theorem tie_removeKeyShape : removeKeyShape =
    ["call c.lock.Lock",
     "defer{",
     "call c.lock.Unlock",
     "}",
     "call c.dirty.Set",
     "call c.doRemoveKey"] := by decide

/-- `notifyChange` calls every listener once. -/
theorem tie_notifyChangeShape : notifyChangeShape =
    ["call c.lock.Lock",
     "call ?",
     "call c.lock.Unlock",
     "range listeners {",
     "call listener",
     "}"] := by decide

/-- the deliveries are serialised by the cluster's notifyLock (ConcJoin.lean, `fx = true`) -/
def notifyLocked : List String :=
  ["call c.notifyLock.Lock",
   "defer{",
   "call c.notifyLock.Unlock",
   "}"]

def handleChangesBody : List String :=
    ["call c.lock.Lock",
     "if !ok {",
     "call c.lock.Unlock",
     "return",
     "}",
     "call ?",
     "range kvs {",
     "mapset newVals",
     "}",
     "call calculateChanges",
     "store watcher.values",
     "call c.lock.Unlock",
     "range add {",
     "range listeners {",
     "call l.OnAdd",
     "}",
     "}",
     "range remove {",
     "range listeners {",
     "call l.OnDelete",
     "}",
     "}"]

def handleWatchEventsBody : List String :=
    ["call c.lock.RLock",
     "if !ok {",
     "call c.lock.RUnlock",
     "return",
     "}",
     "call ?",
     "call c.lock.RUnlock",
     "range events {",
     "switch ev.Type {",
     "case clientv3.EventTypePut:",
     "call c.lock.Lock",
     "mapset watcher.values",
     "call c.lock.Unlock",
     "range listeners {",
     "call l.OnAdd",
     "}",
     "case clientv3.EventTypeDelete:",
     "call c.lock.Lock",
     "delete watcher.values",
     "call c.lock.Unlock",
     "range listeners {",
     "call l.OnDelete",
     "}",
     "default:",
     "call logc.Errorf",
     "}",
     "}"]

/-- Registry.Monitor before fixes/C13-registry-join-and-reload.patch: append the listener, read the current
values, replay them — three steps that interleave with handleWatchEvents (ConcJoin, `fx = false`). -/
def monitorPinned : List String :=
    ["call r.getOrCreateCluster",
     "if exists {",
     "call c.lock.Lock",
     "if ok {",
     "store watcher.listeners",
     "}",
     "call c.lock.Unlock",
     "if ok {",
     "call c.getCurrent",
     "range kvs {",
     "call l.OnAdd",
     "}",
     "return",
     "}",
     "}",
     "call c.monitor",
     "return"]

def monitorFixed : List String :=
    ["call r.getOrCreateCluster",
     "if exists && c.join(wkey, l) {",
     "return",
     "}",
     "call c.monitor",
     "return"]

/-- cluster.join (fixed code): under the notifyLock: append the listener, replay `getCurrent` — `ConcJoin.step`
`.join`, sequentially `runLate`. -/
def joinFixed : List String :=
    ["call c.notifyLock.Lock",
     "defer{",
     "call c.notifyLock.Unlock",
     "}",
     "call c.lock.Lock",
     "if ok {",
     "store watcher.listeners",
     "}",
     "call c.lock.Unlock",
     "if !ok {",
     "return",
     "}",
     "range c.getCurrent(key) {",
     "call l.OnAdd",
     "}",
     "return"]

/-- `handleChanges`: newVals from kvs (later entries win), calculateChanges, replace watcher.values, then all
OnAdd, then all OnDelete — `emit (.reload …)`, `stepValues`; `handleWatchEvents`: PUT sets the key and calls OnAdd,
DELETE deletes it and calls OnDelete — `emit`, `stepValues`; a listener joins through Monitor / join.
Either all of them are the fixed form (every delivery and the join's append + replay under the notifyLock:
`late_join_atomic`) or all of them are the pinned form (witness `pinned_late_join_loses_event`, reported by the
harness as `late-joiner-differs-from-registry`): a half-applied patch does not pass. -/
theorem tie_deliveryShapes :
    (handleChangesShape = notifyLocked ++ handleChangesBody
      ∧ handleWatchEventsShape = notifyLocked ++ handleWatchEventsBody
      ∧ monitorShape = monitorFixed ∧ joinShape = joinFixed)
    ∨ (handleChangesShape = handleChangesBody
      ∧ handleWatchEventsShape = handleWatchEventsBody
      ∧ monitorShape = monitorPinned ∧ joinShape = []) := by decide

/-- `getCurrent`: the watcher's values under the read lock (what a joining listener is told) — `ValidJoin`. -/
theorem tie_getCurrentShape : getCurrentShape =
    ["call c.lock.RLock",
     "defer{",
     "call c.lock.RUnlock",
     "}",
     "if !ok {",
     "return",
     "}",
     "range watcher.values {",
     "}",
     "return"] := by decide

/-- `cluster.reload` (connection-state change): cancel the watches, wait for the watch goroutines, start new ones
that `load` (-> handleChanges: `Ev.reload`) and watch.  Fixed form: the wait happens *without* the cluster lock
(the watch goroutine needs it to finish the response it is handling) and reloads are serialised; the pinned form
waits holding the lock (reported by the harness as `reload-deadlocks-while-a-watch-response-is-handled`). -/
theorem tie_reloadShape :
    reloadShape =
      ["call c.reloadLock.Lock",
       "defer{",
       "call c.reloadLock.Unlock",
       "}",
       "call c.lock.Lock",
       "close c.done",
       "call c.lock.Unlock",
       "call c.watchGroup.Wait",
       "call c.lock.Lock",
       "range c.watchers {",
       "if wval.cancel != nil {",
       "call wval.cancel",
       "}",
       "}",
       "store c.done",
       "call threading.NewRoutineGroup",
       "store c.watchGroup",
       "call c.lock.Unlock",
       "range keys {",
       "func{",
       "call c.load",
       "call c.watch",
       "}",
       "call c.watchGroup.Run",
       "}"]
    ∨ reloadShape =
      ["call c.lock.Lock",
       "close c.done",
       "call c.watchGroup.Wait",
       "range c.watchers {",
       "if wval.cancel != nil {",
       "call wval.cancel",
       "}",
       "}",
       "store c.done",
       "call threading.NewRoutineGroup",
       "store c.watchGroup",
       "call c.lock.Unlock",
       "range keys {",
       "func{",
       "call c.load",
       "call c.watch",
       "}",
       "call c.watchGroup.Run",
       "}"] := by decide

def buildHead : List String :=
    ["call targets.GetAuthority",
     "func{",
     "return",
     "}",
     "call targets.GetEndpoints",
     "call discov.NewSubscriber",
     "if err != nil {",
     "return",
     "}",
     "func{"]

def buildUpdateBody : List String :=
    ["call sub.Values",
     "call subset",
     "range vals {",
     "}",
     "call cc.UpdateState",
     "if err != nil {",
     "}",
     "}",
     "call sub.AddListener",
     "call update",
     "return"]

/-- discovBuilder.Build: update = UpdateState(subset(sub.Values(), subsetSize)); registered as listener FIRST, then
called once (`BuildConc.Order.listenerFirst`; the other order loses an event: `update_before_listener_loses_event`).
Two forms are accepted until fixes/C13-resolver-update-serialized.patch is applied: update() under a mutex
(`BuildConc … atomic = true`: `build_publishes_view_at_quiescence`) or the code as it is (witness
`unserialized_update_publishes_stale`). -/
theorem tie_discovBuildShape :
    discovBuildShape = buildHead ++ buildUpdateBody
    ∨ discovBuildShape = buildHead ++ ["call lock.Lock", "defer{", "call lock.Unlock", "}"] ++ buildUpdateBody := by decide

def buildUpdateSrc : String :=
  "vals := subset(sub.Values(), subsetSize) addrs := make([]resolver.Address, 0, len(vals)) for _, val := range vals { addrs = append(addrs, resolver.Address{ Addr: val, }) } if err := cc.UpdateState(resolver.State{ Addresses: addrs, }); err != nil { logx.Error(err) } }"

def buildStmtsHead : List String :=
    ["hosts := strings.FieldsFunc(targets.GetAuthority(target), func(r rune) bool { return r == EndpointSepChar })",
     "sub, err := discov.NewSubscriber(hosts, targets.GetEndpoints(target))",
     "if err != nil {",
     "return nil, err",
     "}"]

def buildStmtsTail : List String :=
    ["sub.AddListener(update)",
     "update()",
     "return &discovResolver{ cc: cc, sub: sub, }, nil"]

/-- Build statement by statement: the subscriber is created for the target's endpoints key with no option (never
exclusive), update() publishes `subset(sub.Values(), subsetSize)` — every value becomes one address — and is
registered before it is called. -/
theorem tie_discovBuildStmts :
    discovBuildStmts = buildStmtsHead ++ ["update := func() { " ++ buildUpdateSrc] ++ buildStmtsTail
    ∨ discovBuildStmts = buildStmtsHead ++ ["var lock sync.Mutex", "update := func() { lock.Lock() defer lock.Unlock() " ++ buildUpdateSrc]
        ++ buildStmtsTail := by decide

/-- kube OnAdd: insert unknown addresses, notify iff something was new — `Kube.step (.add …)`. -/
theorem tie_kubeOnAddShape : kubeOnAddShape =
    ["if !ok {",
     "return",
     "}",
     "call h.lock.Lock",
     "defer{",
     "call h.lock.Unlock",
     "}",
     "range endpoints.Subsets {",
     "range sub.Addresses {",
     "if !ok {",
     "mapset h.endpoints",
     "}",
     "}",
     "}",
     "if changed {",
     "call h.notify",
     "}"] := by decide

/-- kube OnDelete: delete known addresses, notify iff something was known — `Kube.step (.del …)`. -/
theorem tie_kubeOnDeleteShape : kubeOnDeleteShape =
    ["if !ok {",
     "return",
     "}",
     "call h.lock.Lock",
     "defer{",
     "call h.lock.Unlock",
     "}",
     "range endpoints.Subsets {",
     "range sub.Addresses {",
     "if ok {",
     "delete h.endpoints",
     "}",
     "}",
     "}",
     "if changed {",
     "call h.notify",
     "}"] := by decide

/-- kube OnUpdate: ignored when the resource version is unchanged, else Update — `Kube.step (.update …)`. -/
theorem tie_kubeOnUpdateShape : kubeOnUpdateShape =
    ["if !ok {",
     "return",
     "}",
     "if !ok {",
     "return",
     "}",
     "if oldEndpoints.ResourceVersion == newEndpoints.ResourceVersion {",
     "return",
     "}",
     "call h.Update"] := by decide

/-- kube Update: replace the set, notify iff diff(old, new) — `Kube.setAll`. -/
theorem tie_kubeUpdateShape : kubeUpdateShape =
    ["call h.lock.Lock",
     "defer{",
     "call h.lock.Unlock",
     "}",
     "store h.endpoints",
     "range endpoints.Subsets {",
     "range sub.Addresses {",
     "mapset h.endpoints",
     "}",
     "}",
     "if diff(old, h.endpoints) {",
     "call h.notify",
     "}"] := by decide

/-! ### round 4: publisher, glue between the packages, constructors / options, translated conditions -/

/-- `register`: Grant; the full key is `makeEtcdKey(p.key, p.id)` when `p.id > 0`, else `makeEtcdKey(p.key, int64(lease))`;
Put(fullKey, value, WithLease(lease)); the lease is returned (doRegister stores it in p.lease) — `Pub.register`, `storePut`. -/
theorem tie_registerStmts : registerStmts =
    ["resp, err := client.Grant(client.Ctx(), TimeToLive)",
     "if err != nil {",
     "return clientv3.NoLease, err",
     "}",
     "lease := resp.ID",
     "if p.id > 0 {",
     "p.fullKey = makeEtcdKey(p.key, p.id)",
     "}",
     "else {",
     "p.fullKey = makeEtcdKey(p.key, int64(lease))",
     "}",
     "_, err = client.Put(client.Ctx(), p.fullKey, p.value, clientv3.WithLease(lease))",
     "return lease, err"] := by decide

/-- the condition of `register`, translated: the model's `pubKeyId` takes the id exactly when the Go condition holds -/
theorem tie_registerGuard (id lease : Nat) :
    pubKeyId id lease = if registerGuard id then id else lease := by
  unfold pubKeyId registerGuard
  by_cases h : id > 0 <;> simp [h]

theorem tie_doRegisterStmts : doRegisterStmts =
    ["cli, err := internal.GetRegistry().GetConn(p.endpoints)",
     "if err != nil {",
     "return nil, err",
     "}",
     "p.lease, err = p.register(cli)",
     "return cli, err"] := by decide

/-- `revoke` revokes `p.lease` — the lease of the last registration (`storeRevoke s p.lease`). -/
theorem tie_revokeStmts : revokeStmts =
    ["if _, err := cli.Revoke(cli.Ctx(), p.lease); err != nil {",
     "}"] := by decide

theorem tie_withIdStmts : withIdStmts = ["return func(publisher *Publisher) { publisher.id = id }"] := by decide

/-- the glue between publisher and subscriber: a publisher's key is `<key>/<id>`, a subscriber watches the
prefix `<key>/` — the same delimiter on both sides, so the keys of `<key>` are covered and those of a sibling
service `<key>x` are not. -/
theorem tie_keyGlue :
    makeEtcdKeyStmts = ["return fmt.Sprintf(\"%s%c%d\", key, internal.Delimiter, id)"]
    ∧ makeKeyPrefixStmts = ["return fmt.Sprintf(\"%s%c\", key, Delimiter)"] := by decide

/-- KeepAlive = doRegister, then keepAliveAsync -/
theorem tie_keepAliveShape : keepAliveShape =
    ["call p.doRegister",
     "if err != nil {",
     "return",
     "}",
     "func{",
     "call p.Stop",
     "}",
     "call proc.AddWrapUpListener",
     "call p.keepAliveAsync",
     "return"] := by decide

/-- the keep-alive goroutine: channel closed -> revoke, doKeepAlive; Pause -> revoke, then Resume -> doKeepAlive or
Stop -> nothing more; Stop -> revoke (logging dropped) -/
theorem tie_keepAliveAsyncShape : keepAliveAsyncShape =
    ["call cli.KeepAlive",
     "if err != nil {",
     "return",
     "}",
     "func{",
     "for {",
     "select{",
     "case recv ch:",
     "if !ok {",
     "call p.revoke",
     "call p.doKeepAlive",
     "if err != nil {",
     "}",
     "return",
     "}",
     "case recv p.pauseChan:",
     "call p.revoke",
     "select{",
     "case recv p.resumeChan:",
     "call p.doKeepAlive",
     "if err != nil {",
     "}",
     "return",
     "case recv p.quit.Done(); call p.quit.Done:",
     "return",
     "}",
     "case recv p.quit.Done(); call p.quit.Done:",
     "call p.revoke",
     "return",
     "}",
     "}",
     "}",
     "call threading.GoSafe",
     "return"] := by decide

/-- doKeepAlive: at a tick, unless stopped: doRegister, then keepAliveAsync -/
theorem tie_doKeepAliveShape : doKeepAliveShape =
    ["defer{",
     "call ticker.Stop",
     "}",
     "range ticker.C {",
     "select{",
     "case recv p.quit.Done(); call p.quit.Done:",
     "return",
     "default:",
     "call p.doRegister",
     "if err != nil {",
     "break",
     "}",
     "call p.keepAliveAsync",
     "if err != nil {",
     "break",
     "}",
     "return",
     "}",
     "}",
     "return"] := by decide

/-- `getCurrent` hands out every entry of watcher.values (what a joining listener is told: `ValidJoin`) -/
theorem tie_getCurrentStmts : getCurrentStmts =
    ["c.lock.RLock()",
     "defer c.lock.RUnlock()",
     "watcher, ok := c.watchers[key]",
     "if !ok {",
     "return nil",
     "}",
     "var kvs []KV",
     "for k, v := range watcher.values {",
     "kvs = append(kvs, KV{ Key: k, Val: v, })",
     "}",
     "return kvs"] := by decide

/-- `cluster.monitor`: the listener is registered before the first load, the watch starts after it -/
theorem tie_clusterMonitorShape : clusterMonitorShape =
    ["call c.getClient",
     "if err != nil {",
     "return",
     "}",
     "call c.addListener",
     "call c.load",
     "func{",
     "call c.watch",
     "}",
     "call c.watchGroup.Run",
     "return"] := by decide

/-- `load`: Get (exact key or prefix), every returned kv goes to handleChanges -/
theorem tie_loadShape : loadShape =
    ["for {",
     "call context.WithTimeout",
     "if key.exactMatch {",
     "call cli.Get",
     "}",
     "else{",
     "call clientv3.WithPrefix",
     "call cli.Get",
     "}",
     "call cancel",
     "if err == nil {",
     "break",
     "}",
     "call coolDownUnstable.AroundDuration",
     "}",
     "range resp.Kvs {",
     "}",
     "call c.handleChanges",
     "return"] := by decide

/-- `notifyChange` calls every listener that is registered, `addListener` appends — `notifyChange` / `BuildConc.step` -/
theorem tie_listenerStmts :
    notifyChangeStmts =
      ["c.lock.Lock()",
       "listeners := append(([]func())(nil), c.listeners...)",
       "c.lock.Unlock()",
       "for _, listener := range listeners {",
       "listener()",
       "}"]
    ∧ addListenerStmts =
      ["c.lock.Lock()",
       "c.listeners = append(c.listeners, listener)",
       "c.lock.Unlock()"]
    ∧ subscriberAddListenerStmts = ["s.items.addListener(listener)"]
    ∧ subscriberValuesStmts = ["return s.items.getValues()"] := by decide

theorem tie_removeKeyStmts : removeKeyStmts =
    ["c.lock.Lock()",
     "defer c.lock.Unlock()",
     "c.dirty.Set(true)",
     "c.doRemoveKey(key)"] := by decide

/-- constructors / options: a new container is empty and dirty (`Container.new`), the subscriber's container gets the
`exclusive` flag the options set, and is handed to Registry.Monitor for the subscriber's key -/
theorem tie_constructors :
    newContainerStmts =
      ["return &container{ exclusive: exclusive, values: make(map[string][]string), mapping: make(map[string]string), dirty: syncx.ForAtomicBool(true), }"]
    ∧ exclusiveStmts = ["return func(sub *Subscriber) { sub.exclusive = true }"]
    ∧ newSubscriberStmts =
      ["sub := &Subscriber{ endpoints: endpoints, key: key, }",
       "for _, opt := range opts {",
       "opt(sub)",
       "}",
       "sub.items = newContainer(sub.exclusive)",
       "if err := internal.GetRegistry().Monitor(endpoints, key, sub.exactMatch, sub.items); err != nil {",
       "return nil, err",
       "}",
       "return sub, nil"] := by decide

/-- `subset`, translated condition: the model returns everything exactly when the Go condition `len(set) <= sub` holds -/
theorem tie_subsetGuard (l : List Nat) (n : Nat) :
    GoZero.C13.subset l n = if subsetGuard l.length n then l else l.take n := by
  unfold GoZero.C13.subset subsetGuard
  by_cases h : l.length ≤ n <;> simp [h]

/-- `addKv`, translated conditions: `early` = some key carries the value; the displacement loop runs for an
exclusive container with `early` — the model's `c1.exclusive && !keys.isEmpty` -/
theorem tie_addKvGuards (excl : Bool) (keys : List Nat) :
    addKvDisplaceGuard excl (addKvEarly keys.length) = (excl && !keys.isEmpty)
    ∧ addKvEarlyGuard (addKvEarly keys.length) = !keys.isEmpty := by
  unfold addKvDisplaceGuard addKvEarlyGuard addKvEarly
  cases keys <;> simp
  all_goals omega

/-- `doRemoveKey`, translated conditions: a key stays when it differs from the removed one; the rest is kept when it
is not empty — the model's `filter (· ≠ key)` / `remain.isEmpty` -/
theorem tie_doRemoveKeyGuards (k key : Nat) (remain : List Nat) :
    doRemoveKeyFilterGuard k key = decide (k ≠ key)
    ∧ doRemoveKeyKeepGuard remain.length = !remain.isEmpty := by
  unfold doRemoveKeyFilterGuard doRemoveKeyKeepGuard
  constructor
  · by_cases h : k = key <;> simp [h, Int.natCast_inj]
  · cases remain <;> simp

/-- `calculateChanges`, translated conditions — `calcAdds` keeps an entry of the new map when the old map has no
such key or another value; `calcRemoves` (fixed) an entry of the old map when the new one has no such key -/
theorem tie_calculateChangesGuards (old new : Map Nat) (p : Nat × Nat) :
    (decide (old.get p.1 ≠ some p.2) = calcAddGuard (old.get p.1).isSome p.2 ((old.get p.1).getD 0))
    ∧ (decide (new.get p.1 = none) = calcRemoveGuard (new.get p.1).isSome) := by
  unfold calcAddGuard calcRemoveGuard
  constructor
  · cases h : old.get p.1 with
    | none => simp
    | some v =>
      by_cases hv : (p.2 : Int) = v
      · have : p.2 = v := by exact_mod_cast hv
        simp [this]
      · have : p.2 ≠ v := fun e => hv (by exact_mod_cast e)
        simp [hv, Ne.symm this]
  · cases h : new.get p.1 <;> simp

/-- kube, translated conditions: `diff` starts with the size comparison (`kdiff`); OnUpdate skips exactly when the
two resource versions are equal (the driver's `o == n`) -/
theorem tie_kubeGuards (o n : List Nat) (a b : Nat) :
    kubeDiffLenGuard o.length n.length = (o.length != n.length)
    ∧ kubeOnUpdateSkipGuard a b = decide (a = b) := by
  unfold kubeDiffLenGuard kubeOnUpdateSkipGuard
  constructor
  · by_cases h : o.length = n.length <;> simp [h, Int.natCast_inj]
  · by_cases h : a = b <;> simp [h, Int.natCast_inj]

/-! ### round 5: derived control-flow facts, the reconnect loop, Unmonitor / Close / WithExactMatch, the watch arguments -/

/-- doKeepAlive: both error paths `break` out of the `select` only — the `for range ticker.C` loop goes on and the
registration is attempted again at the next tick (`doKeepAlive true`, theorem `reregistration_retries_until_success`;
a `break` that leaves the `for` is `doKeepAlive false`, witness `single_failure_ends_a_loop_without_retry`). -/
theorem tie_doKeepAliveRetries : doKeepAliveBreaks = ["select", "select"] := by decide

/-- load: the only `break` leaves the retry loop, after a Get without error -/
theorem tie_loadRetries : loadBreaks = ["for"] := by decide

/-- no function literal started inside a loop uses the loop's own variable (go.mod is below 1.22: the variable would be
shared by all iterations and a goroutine started in the loop would see the last element — `reconnectShared`, witness
`shared_loop_variable_reloads_only_the_last_key`); `cluster.reload` copies it first (`k := key`): `reconnectAll`. -/
theorem tie_noSharedLoopVariableInClosures : goPerIterationLoopVars = true ∨ loopVarCaptures = [] := by decide

/-- `cluster.reload` statement by statement: EVERY key of `c.watchers` is collected and for each a goroutine loads and
watches THAT key — `reconnectAll` -/
theorem tie_reloadStmts : reloadStmts =
    ["c.reloadLock.Lock()",
     "defer c.reloadLock.Unlock()",
     "c.lock.Lock()",
     "close(c.done)",
     "c.lock.Unlock()",
     "c.watchGroup.Wait()",
     "c.lock.Lock()",
     "var keys []watchKey",
     "for wk, wval := range c.watchers {",
     "keys = append(keys, wk)",
     "if wval.cancel != nil {",
     "wval.cancel()",
     "}",
     "}",
     "c.done = make(chan lang.PlaceholderType)",
     "c.watchGroup = threading.NewRoutineGroup()",
     "c.lock.Unlock()",
     "for _, key := range keys {",
     "k := key",
     "c.watchGroup.Run(func() { rev := c.load(cli, k) c.watch(cli, k, rev) })",
     "}"]
    ∨ (goPerIterationLoopVars = true ∧ reloadStmts.length = 20) := by decide

/-- `Unmonitor`: the listener is removed from the watcher of ITS key; the watcher (and its watch) go away only when
no listener is left — the other keys of the cluster are not touched (multi-key sections: `close` / `reopen`) -/
theorem tie_unmonitorStmts : unmonitorStmts =
    ["c, exists := r.getCluster(endpoints)",
     "if !exists {",
     "return",
     "}",
     "wkey := watchKey{ key: key, exactMatch: exactMatch, }",
     "c.lock.Lock()",
     "defer c.lock.Unlock()",
     "watcher, ok := c.watchers[wkey]",
     "if !ok {",
     "return",
     "}",
     "for i, listener := range watcher.listeners {",
     "if listener == l {",
     "watcher.listeners = append(watcher.listeners[:i], watcher.listeners[i+1:]...)",
     "break",
     "}",
     "}",
     "if len(watcher.listeners) == 0 {",
     "if watcher.cancel != nil {",
     "watcher.cancel()",
     "}",
     "delete(c.watchers, wkey)",
     "}"] := by decide

/-- `Subscriber.Close` unmonitors exactly what `NewSubscriber` monitored (same endpoints, key, exactMatch, container);
`WithExactMatch` sets the flag that both forward -/
theorem tie_closeAndExactMatch :
    subscriberCloseStmts = ["internal.GetRegistry().Unmonitor(s.endpoints, s.key, s.exactMatch, s.items)"]
    ∧ withExactMatchStmts = ["return func(sub *Subscriber) { sub.exactMatch = true }"] := by decide

/-- `cluster.monitor` / `cluster.addListener` statement by statement: the listener is appended to the watcher of the
key (created when absent), then the key is loaded, then watched from the loaded revision -/
theorem tie_clusterMonitorStmts :
    clusterMonitorStmts =
      ["cli, err := c.getClient()",
       "if err != nil {",
       "return err",
       "}",
       "c.addListener(key, l)",
       "rev := c.load(cli, key)",
       "c.watchGroup.Run(func() { c.watch(cli, key, rev) })",
       "return nil"]
    ∧ clusterAddListenerStmts =
      ["c.lock.Lock()",
       "defer c.lock.Unlock()",
       "watcher, ok := c.watchers[key]",
       "if ok {",
       "watcher.listeners = append(watcher.listeners, l)",
       "return",
       "}",
       "val := newWatchValue()",
       "val.listeners = []UpdateListener{l}",
       "c.watchers[key] = val"] := by decide

/-- `NewPublisher` forwards endpoints / key / value and applies every option; `KeepAlive` is one attempt whose error is
returned (`keepAlive`) -/
theorem tie_publisherEntryPoints :
    newPublisherStmts =
      ["publisher := &Publisher{ endpoints: endpoints, key: key, value: value, quit: syncx.NewDoneChan(), pauseChan: make(chan lang.PlaceholderType), resumeChan: make(chan lang.PlaceholderType), }",
       "for _, opt := range opts {",
       "opt(publisher)",
       "}",
       "return publisher"]
    ∧ keepAliveStmts =
      ["cli, err := p.doRegister()",
       "if err != nil {",
       "return err",
       "}",
       "proc.AddWrapUpListener(func() { p.Stop() })",
       "return p.keepAliveAsync(cli)"] := by decide

/-- the arguments `load` / `setupWatch` hand to etcd: the exact key, or the key's prefix `makeKeyPrefix(key.key)` with
WithPrefix; the watch continues at the revision after the loaded one exactly when a revision was loaded -/
theorem tie_watchArgs :
    loadGetArgs = ["ctx | key.key", "ctx | makeKeyPrefix(key.key) | clientv3.WithPrefix()"]
    ∧ setupWatchArgs = ["clientv3.WithRequireLeader(ctx) | wkey | ops..."]
    ∧ setupWatchRevArgs = ["rev + 1"]
    ∧ ∀ rev : Int, setupWatchRevGuard rev = decide (rev ≠ 0) := by
  refine ⟨by decide, by decide, by decide, fun rev => rfl⟩

/-- `load`: the request context of an attempt is created INSIDE the retry loop, from the client's context, with
RequestTimeout, is the one handed to the Get of that attempt, and is cancelled inside the loop (not deferred to the end
of the function) — every attempt has a deadline of its own: `loadCtx true`, theorem
`load_gives_every_attempt_a_fresh_deadline` (a WithTimeout at depth 0 is `loadCtx false`: its witness). -/
theorem tie_loadFreshDeadline :
    loadTimeoutLoopDepth = ["1"] ∧ loadCancelLoopDepth = ["1"] ∧ loadGetLoopDepth = ["1", "1"]
    ∧ loadTimeoutArgs = ["cli.Ctx() | RequestTimeout"] := by decide

/-- the delivery loops range over a fresh COPY of the listener list, taken under the lock at the start of the
response — never over the watcher's / container's own slice, which Unmonitor / addListener change in place:
`calledForEvent true`, theorem `close_during_delivery_leaves_the_others_notified_once` (an alias is `calledForEvent false`:
its witness). -/
theorem tie_deliveryListenersAreCopies :
    handleWatchEventsListeners = ["copy of watcher.listeners", "range listeners", "range listeners"]
    ∧ handleChangesListeners = ["copy of watcher.listeners", "range listeners", "range listeners"]
    ∧ notifyChangeListeners = ["copy of c.listeners", "range listeners"] := by decide

end GoZero.C13.Tie
