/-
C13 — abstract specification (core Lean only): the registry and what a subscriber must show.

The registry is what etcd holds under the watched prefix: `key ↦ value`.  Events: a key is put (new, or
updated to a new value, or the same registration replayed), deleted, or the whole registry is re-read
(`reload`) after a reconnect / compaction.

* ordinary subscriber: `Values()` is the set of values of the registered keys;
* exclusive subscriber: only the most recently registered key of each value counts — the spec keeps the
  *counting* registrations: registering `(k, v)` makes `k` the only counting key of `v`; a key that stops
  counting does not come back by itself.  Inside a reload snapshot "most recently" is the order in which the
  registry hands the differences to its listeners.
-/
import GoZero.C13.Model
namespace GoZero.C13.Spec
open GoZero.C13

/-! ### the abstract registry: a function `key ↦ value` (this is what the theorems are stated against) -/

abbrev Reg := Nat → Option Nat

namespace Reg
def empty : Reg := fun _ => none
/-- key `k` is registered with value `v` (new key, or updated in place, or the same registration again) -/
def put (r : Reg) (k v : Nat) : Reg := fun k' => if k' = k then some v else r k'
def del (r : Reg) (k : Nat) : Reg := fun k' => if k' = k then none else r k'
/-- a full re-read: the registry is what the snapshot says (a repeated key: the last entry) -/
def ofSnapshot (kvs : List (Nat × Nat)) : Reg := kvs.foldl (fun r kv => r.put kv.1 kv.2) empty
def apply (r : Reg) : Ev → Reg
  | .put k v => r.put k v
  | .del k => r.del k
  | .reload kvs _ _ => ofSnapshot kvs
/-- the registry after a history of events -/
def run (evs : List Ev) : Reg := evs.foldl apply empty
/-- some registered key carries `v` -/
def Shows (r : Reg) (v : Nat) : Prop := ∃ k, r k = some v
/-- exclusive subscriber: registering `(k, v)` makes `k` the only counting key of `v` -/
def exPut (r : Reg) (k v : Nat) : Reg :=
  fun k' => if k' = k then some v else if r k' = some v then none else r k'
/-- what one listener-level event does to the registrations a subscriber counts -/
def applyL (excl : Bool) (r : Reg) : LEv → Reg
  | .add k v => if excl then r.exPut k v else r.put k v
  | .del k => r.del k
/-- the registrations an exclusive subscriber counts after a history: the listener events of the history, in
the order the registry delivered them, each new registration displacing the older keys of its value -/
def counting (evs : List Ev) : Reg := (evs.flatMap emit).foldl (applyL true) empty
end Reg

/-- the Kubernetes endpoints handler: the current address set of the watched Endpoints object (as a list read
as a set): an added object contributes its addresses, a deleted one takes its addresses away, an update / the
initial `Update` replaces the set; an update that does not change the resource version is ignored. -/
def kubeSet (cur : List Nat) : KEv → List Nat
  | .add ips => cur ++ ips
  | .del ips => cur.filter (fun x => !ips.contains x)
  | .update same ips => if same then cur else ips
  | .set ips => ips

/-! ### the same, executable (association lists) — used by the monitor in the driver -/

/-- the registry after an event (a snapshot replaces everything; a repeated key in a snapshot: last wins) -/
def apply (reg : Map Nat) : Ev → Map Nat
  | .put k v => reg.set k v
  | .del k => reg.erase k
  | .reload kvs _ _ => kvs.foldl (fun m kv => m.set kv.1 kv.2) []

def registry (evs : List Ev) : Map Nat := evs.foldl apply []

/-- `v` is the value of some registered key -/
def InView (reg : Map Nat) (v : Nat) : Prop := ∃ k, reg.get k = some v

/-- exclusive subscriber: registering `(k, v)` displaces every other key of `v` -/
def exAdd (m : Map Nat) (k v : Nat) : Map Nat := Map.set (m.filter (fun p => p.2 ≠ v)) k v

def exApplyL (m : Map Nat) : LEv → Map Nat
  | .add k v => exAdd m k v
  | .del k => m.erase k

/-- ordinary subscriber at listener level -/
def applyL (m : Map Nat) : LEv → Map Nat
  | .add k v => m.set k v
  | .del k => m.erase k

/-- the counting registrations of an exclusive subscriber after a history -/
def counting (evs : List Ev) : Map Nat := (evs.flatMap emit).foldl exApplyL []

/-! executable monitor helpers -/

def insertSortedNat (x : Nat) : List Nat → List Nat
  | [] => [x]
  | y :: ys => if x < y then x :: y :: ys else if x = y then y :: ys else y :: insertSortedNat x ys

/-- sorted, without repetitions -/
def canonSet (l : List Nat) : List Nat := l.foldr insertSortedNat []

/-- the values a subscriber must show, as a sorted list -/
def viewList (m : Map Nat) : List Nat := canonSet (m.map (·.2))

end GoZero.C13.Spec
