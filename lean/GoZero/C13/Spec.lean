/-
C13 — abstract specification (core Lean only): the registry and what a subscriber must show.

The registry is what etcd holds under the watched prefix: `key ↦ value`.  Events: a key is put (new, or
updated to a new value, or the same registration replayed), deleted, or the whole registry is re-read
(`reload`) after a reconnect / compaction.

* ordinary subscriber: `Values()` is the set of values of the registered keys;
* exclusive subscriber: only the most recently registered key of each value counts — the spec keeps the
  *counting* registrations: registering `(k, v)` makes `k` the only counting key of `v`; a key that stops
  counting does not come back by itself.  Inside a reload snapshot "most recently" is the order in which the
  registry hands the differences to its listeners.
-/
import GoZero.C13.Model
namespace GoZero.C13.Spec
open GoZero.C13

/-- the registry after an event (a snapshot replaces everything; a repeated key in a snapshot: last wins) -/
def apply (reg : Map Nat) : Ev → Map Nat
  | .put k v => reg.set k v
  | .del k => reg.erase k
  | .reload kvs _ _ => kvs.foldl (fun m kv => m.set kv.1 kv.2) []

def registry (evs : List Ev) : Map Nat := evs.foldl apply []

/-- `v` is the value of some registered key -/
def InView (reg : Map Nat) (v : Nat) : Prop := ∃ k, reg.get k = some v

/-- exclusive subscriber: registering `(k, v)` displaces every other key of `v` -/
def exAdd (m : Map Nat) (k v : Nat) : Map Nat := Map.set (m.filter (fun p => p.2 ≠ v)) k v

def exApplyL (m : Map Nat) : LEv → Map Nat
  | .add k v => exAdd m k v
  | .del k => m.erase k

/-- ordinary subscriber at listener level -/
def applyL (m : Map Nat) : LEv → Map Nat
  | .add k v => m.set k v
  | .del k => m.erase k

/-- the counting registrations of an exclusive subscriber after a history -/
def counting (evs : List Ev) : Map Nat := (evs.flatMap emit).foldl exApplyL []

/-! executable monitor helpers -/

def insertSortedNat (x : Nat) : List Nat → List Nat
  | [] => [x]
  | y :: ys => if x < y then x :: y :: ys else if x = y then y :: ys else y :: insertSortedNat x ys

/-- sorted, without repetitions -/
def canonSet (l : List Nat) : List Nat := l.foldr insertSortedNat []

/-- the values a subscriber must show, as a sorted list -/
def viewList (m : Map Nat) : List Nat := canonSet (m.map (·.2))

end GoZero.C13.Spec
