/-
C13 — property theorems.
-/
import GoZero.C13.Spec
namespace GoZero.C13

/-- the defect of the pinned commit: `k` registered with `v1`, then updated in place to `v2`: the view
still shows `v1`. -/
theorem pinned_update_in_place_keeps_old_value :
    Spec.canonSet (view (run Fix.pinned false [.put 1 1, .put 1 2]).cont) = [1, 2]
    ∧ Spec.viewList (Spec.registry [.put 1 1, .put 1 2]) = [2] := by decide

end GoZero.C13
