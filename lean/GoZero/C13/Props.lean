/-
C13 — property theorems (statements, their short proofs from the lemmas, non-vacuity examples).
Helper lemmas: ProofsMap / ProofsContainer / ProofsCluster / ProofsExcl / ProofsMisc.

Model = core/discov/subscriber.go (container) + core/discov/internal/registry.go (handleWatchEvents,
handleChanges, calculateChanges) *with* fixes/C13-rekeyed-registration.patch; `Fix.pinned` = the code before it.
A history is any list of `put k v` (new key / update in place / replay), `del k`, `reload snapshot` events over any
keys and values; `ValidHist` only says that the two orders carried by a reload are orders of the two sets that
`calculateChanges` computes — i.e. the theorems hold for *every* order in which Go may range over its maps.
-/
import GoZero.C13.ProofsCluster
import GoZero.C13.ProofsExcl
import GoZero.C13.ProofsMisc
import GoZero.C13.ProofsExclMon
import GoZero.C13.ProofsConc
import GoZero.C13.ProofsJoin
import GoZero.C13.ProofsPub
import GoZero.C13.ProofsBuild
import GoZero.C13.ProofsMulti
import GoZero.C13.ProofsLife
namespace GoZero.C13
open Spec

/-- **C13, main theorem (ordinary subscriber).**  After any history of registry events — keys put, updated in
place to a new value, replayed, deleted, full reload snapshots — and for every order in which Go ranges over
its maps, `Values()` is exactly the set of values of the keys currently registered, each value once. -/
theorem view_equals_registry (evs : List Ev) (hv : ValidHist Fix.fixed [] evs) :
    (∀ v, v ∈ view (run Fix.fixed false evs).cont ↔ (Reg.run evs).Shows v)
    ∧ (view (run Fix.fixed false evs).cont).Nodup := by
  obtain ⟨h1, _, _, _, h5, _, h7⟩ := run_unfold false evs
  have hs := stream_exact evs [] (by simp [Map.keys]) Reg.empty (fun _ => rfl) hv
  refine ⟨fun v => ?_, (view_spec _ h1 h7 0).2⟩
  rw [(view_spec _ h1 h7 v).1]
  unfold Reg.Shows Reg.run
  constructor
  · rintro ⟨k, hk⟩; exact ⟨k, by rw [← hs k, ← h5 k]; exact hk⟩
  · rintro ⟨k, hk⟩; exact ⟨k, by rw [h5 k, hs k]; exact hk⟩

/-- the subscriber's key ↦ value table *is* the registry (ordinary subscriber), and so is the cluster's copy -/
theorem mapping_is_registry (evs : List Ev) (hv : ValidHist Fix.fixed [] evs) (k : Nat) :
    (run Fix.fixed false evs).cont.mapping.get k = Reg.run evs k
    ∧ (run Fix.fixed false evs).values.get k = Reg.run evs k := by
  obtain ⟨_, _, _, h4, h5, _, _⟩ := run_unfold false evs
  have hs := stream_exact evs [] (by simp [Map.keys]) Reg.empty (fun _ => rfl) hv
  exact ⟨by rw [h5 k, hs k]; rfl, h4 k⟩

/-- **Exclusive subscriber.**  `Values()` is exactly the set of values of the *counting* registrations (the most
recently registered key of each value), each value once — for every history and every map order. -/
theorem exclusive_view_equals_counting (evs : List Ev) :
    (∀ v, v ∈ view (run Fix.fixed true evs).cont ↔ (Reg.counting evs).Shows v)
    ∧ (view (run Fix.fixed true evs).cont).Nodup := by
  obtain ⟨h1, _, _, _, h5, _, h7⟩ := run_unfold true evs
  refine ⟨fun v => ?_, (view_spec _ h1 h7 0).2⟩
  rw [(view_spec _ h1 h7 v).1]
  unfold Reg.Shows Reg.counting
  constructor
  · rintro ⟨k, hk⟩; exact ⟨k, by rw [← h5 k]; exact hk⟩
  · rintro ⟨k, hk⟩; exact ⟨k, by rw [h5 k]; exact hk⟩

/-- the counting registrations are live registrations (no address is shown that nobody registers), at most one
key counts per value, and a key that has just been registered counts. -/
theorem counting_sound (evs : List Ev) (hv : ValidHist Fix.fixed [] evs) :
    (∀ k v, Reg.counting evs k = some v → Reg.run evs k = some v)
    ∧ (∀ k₁ k₂ v, Reg.counting evs k₁ = some v → Reg.counting evs k₂ = some v → k₁ = k₂) :=
  ⟨counting_sub_registry evs hv, counting_injective evs⟩

theorem counting_latest (evs : List Ev) (k v : Nat) :
    Reg.counting (evs ++ [.put k v]) k = some v := by
  simp [Reg.counting, List.flatMap_append, List.foldl_append, emit, Reg.applyL, Reg.exPut]

/-- exclusive view ⊆ registry values; and a value registered by the last event is shown -/
theorem exclusive_view_sound (evs : List Ev) (hv : ValidHist Fix.fixed [] evs) (v : Nat) :
    v ∈ view (run Fix.fixed true evs).cont → (Reg.run evs).Shows v := by
  intro h
  obtain ⟨k, hk⟩ := ((exclusive_view_equals_counting evs).1 v).mp h
  exact ⟨k, (counting_sound evs hv).1 k v hk⟩

/-- **Listeners.**  Every listener-level event (OnAdd / OnDelete) is followed by one notification round, after
the change was applied; an event that changes what `Values()` returns therefore always notifies. -/
theorem listeners_notified_each_change (excl : Bool) (evs : List Ev) :
    (run Fix.fixed excl evs).cont.notified = (evs.flatMap emit).length := (run_unfold excl evs).2.2.2.2.2.1

theorem view_change_is_notified (excl : Bool) (evs : List Ev) (ev : Ev) :
    view (run Fix.fixed excl (evs ++ [ev])).cont ≠ view (run Fix.fixed excl evs).cont →
      (run Fix.fixed excl evs).cont.notified < (run Fix.fixed excl (evs ++ [ev])).cont.notified := by
  intro hne
  rw [listeners_notified_each_change, listeners_notified_each_change, List.flatMap_append, List.length_append]
  have : emit ev ≠ [] := by
    intro he
    apply hne
    simp only [run, List.foldl_append, List.foldl_cons, List.foldl_nil, step, he]
  have : 0 < (emit ev).length := List.length_pos_iff.mpr this
  simpa using this

/-- the listener that is notified last sees the final view: `notifyChange` runs after the change (shape Tie
`onAddShape`/`onDeleteShape`), so a resolver reading `Values()` inside its callback publishes from the state of
`view_equals_registry`. -/
theorem notified_after_change (c : Container) (k v : Nat) :
    applyL Fix.fixed c (.add k v) = notifyChange (addKv Fix.fixed c k v)
    ∧ applyL Fix.fixed c (.del k) = notifyChange (removeKey c k)
    ∧ ∀ c', view (notifyChange c') = view c' :=
  ⟨rfl, rfl, fun c' => by cases hd : c'.dirty <;> simp [view, getValues, notifyChange, hd]⟩

/-- **Resolver.**  `subset(values, 32)`: with at most 32 values the resolver publishes all of them; with more,
32 distinct ones of them. -/
theorem resolver_publishes_all_when_small (vals shuffled : List Nat) (hp : shuffled.Perm vals) (hn : vals.Nodup) :
    (vals.length ≤ 32 → ∀ v, v ∈ subset shuffled subsetSize ↔ v ∈ vals)
    ∧ (32 < vals.length → (subset shuffled subsetSize).length = 32)
    ∧ (∀ v, v ∈ subset shuffled subsetSize → v ∈ vals)
    ∧ (subset shuffled subsetSize).Nodup :=
  subset_spec vals shuffled hp hn

/-- **Kubernetes endpoints handler.**  After any sequence of OnAdd / OnDelete / OnUpdate / Update events the
handler's set is the current address set, and what it last published is that set (nothing published yet only
while the set is still empty). -/
theorem kube_publishes_current (evs : List KEv) :
    let h := evs.foldl Kube.step {}
    (∀ x, x ∈ h.endpoints ↔ x ∈ evs.foldl kubeSet [])
    ∧ (match h.published with
       | none => h.endpoints = []
       | some p => ∀ x, x ∈ p ↔ x ∈ h.endpoints) :=
  kube_spec evs

/-- the executable registry the driver's monitor evaluates on the implementation's trace (association lists) is
the abstract registry of the theorems above, and its value list is what `Shows` describes. -/
theorem monitor_registry_is_spec (evs : List Ev) :
    (∀ k, (registry evs).get k = Reg.run evs k)
    ∧ (∀ v, v ∈ viewList (registry evs) ↔ (Reg.run evs).Shows v) := by
  have key : ∀ (evs : List Ev) (m : Map Nat) (r : Reg), (Map.keys m).Nodup → (∀ k, m.get k = r k) →
      (Map.keys (evs.foldl Spec.apply m)).Nodup ∧ ∀ k, (evs.foldl Spec.apply m).get k = (evs.foldl Reg.apply r) k := by
    intro evs
    induction evs with
    | nil => intro m r h1 h2; exact ⟨h1, h2⟩
    | cons ev t ih =>
      intro m r h1 h2
      simp only [List.foldl_cons]
      exact ih _ _ (stepValues_nodup m h1 ev) (stepValues_get m r h2 ev)
  obtain ⟨hn', hg'⟩ := key evs [] Reg.empty (by simp [Map.keys]) (fun _ => rfl)
  have hn : (Map.keys (registry evs)).Nodup := hn'
  have hg : ∀ k, (registry evs).get k = Reg.run evs k := hg'
  refine ⟨hg, fun v => ?_⟩
  unfold viewList Reg.Shows
  rw [mem_canonSet, List.mem_map]
  constructor
  · rintro ⟨p, hp, rfl⟩
    exact ⟨p.1, by rw [← hg]; exact (Map.mem_iff_get _ hn p.1 p.2).mp hp⟩
  · rintro ⟨k, hk⟩
    exact ⟨(k, v), (Map.mem_iff_get _ hn k v).mpr (by rw [hg]; exact hk), rfl⟩

/-- the same for the exclusive subscriber: the association-list copy of the counting registrations that the
monitor evaluates is the function `Reg.counting` of `exclusive_view_equals_counting`. -/
theorem monitor_counting_is_spec (evs : List Ev) :
    (∀ k, (counting evs).get k = Reg.counting evs k)
    ∧ (∀ v, v ∈ viewList (counting evs) ↔ (Reg.counting evs).Shows v) := by
  obtain ⟨hn, hg⟩ := counting_monitor_refines (evs.flatMap emit) [] Reg.empty (by simp [Map.keys]) (fun _ => rfl)
  have hg : ∀ k, (counting evs).get k = Reg.counting evs k := hg
  have hn : (Map.keys (counting evs)).Nodup := hn
  refine ⟨hg, fun v => ?_⟩
  unfold viewList Reg.Shows
  rw [mem_canonSet, List.mem_map]
  constructor
  · rintro ⟨p, hp, rfl⟩
    exact ⟨p.1, by rw [← hg]; exact (Map.mem_iff_get _ hn p.1 p.2).mp hp⟩
  · rintro ⟨k, hk⟩
    exact ⟨(k, v), (Map.mem_iff_get _ hn k v).mpr (by rw [hg]; exact hk), rfl⟩

/-! ### Concurrency: events arrive on watch goroutines while `Values()` is read (Conc.lean) -/

/-- **Linearizability of `getValues` w.r.t. `addKv` / `removeKey`**, any number of threads, every schedule.
A read that has returned (`rDone`) returned the value list of the container after the first `idx` events of the
log (the events in the order their mutation was applied under the lock), where `idx` lies between the length of
the log when the read started and its length now — so the list is the exact view at some moment inside the
read, it contains every event whose write had completed (`done`) or had even only been applied when the read
started, and it is never a snapshot older than that.  The list is the spec's view after these events. -/
theorem reader_linearizable (excl : Bool) (sched : Conc.Sched) (t : Nat) :
    let s := Conc.exec (Conc.init excl) sched
    s.pc t = .rDone →
      s.startDone t ≤ s.start t ∧ s.start t ≤ s.idx t ∧ s.idx t ≤ s.log.length
      ∧ s.ret t = Conc.keysAt excl s.log (s.idx t)
      ∧ (∀ v, v ∈ s.ret t ↔ ∃ k, ((s.log.take (s.idx t)).foldl (Reg.applyL excl) Reg.empty) k = some v)
      ∧ (s.ret t).Nodup := by
  intro s hp
  have hi : Conc.Inv excl s := Conc.inv_exec excl sched _ (Conc.inv_init excl)
  obtain ⟨h1, h2, h3⟩ := hi.result t hp
  have h4 := hi.startLe t (by rw [hp]; rfl)
  obtain ⟨k1, k2⟩ := Conc.keysAt_spec excl s.log (s.idx t)
  exact ⟨h4.1, h1, h2, h3, by rw [h3]; exact k1, by rw [h3]; exact k2⟩

/-- completed writes are in the log; the lock is exclusive; one step appends at most one event (so every
intermediate length — every linearization point — is passed through). -/
theorem container_lock_discipline (excl : Bool) (sched : Conc.Sched) :
    let s := Conc.exec (Conc.init excl) sched
    s.done ≤ s.log.length
    ∧ (∀ t u, Conc.holds (s.pc t) = true → Conc.holds (s.pc u) = true → t = u)
    ∧ (s.dirty = false → s.snap = Conc.keysAt excl s.log s.log.length)
    ∧ (∀ t ch s', Conc.step s t ch = some s' → s'.log = s.log ∨ ∃ e, s'.log = s.log ++ [e]) := by
  intro s
  have hi : Conc.Inv excl s := Conc.inv_exec excl sched _ (Conc.inv_init excl)
  refine ⟨hi.doneLe, fun t u => Conc.mutex_of_inv excl s hi t u, fun hd => ?_, fun t ch s' => Conc.log_grows_by_one s s' t ch⟩
  rw [hi.snapIs, hi.clean hd]

/-! ### Late joiners, reload after a reconnect, lost events -/

/-- **A listener that joins an existing watch** (Registry.Monitor replays `getCurrent` to it, in whatever order
Go ranges over the map) shows the registry, and keeps showing it after every later history. -/
theorem late_join_view_equals_registry (before later : List Ev) (order : List (Nat × Nat))
    (hj : ValidJoin (run Fix.fixed false before).values order)
    (hv : ValidHist Fix.fixed (run Fix.fixed false before).values later) :
    (∀ v, v ∈ view (runLate false order later) ↔ (Reg.run (before ++ later)).Shows v)
    ∧ (view (runLate false order later)).Nodup := by
  obtain ⟨h1, h2, h3⟩ := late_join_refines before later order hj hv
  have hc : Coh (runLate false order later) := fun hd => by rw [h2] at hd; cases hd
  refine ⟨fun v => ?_, (view_spec _ h1 hc 0).2⟩
  rw [(view_spec _ h1 hc v).1]
  unfold Reg.Shows
  constructor
  · rintro ⟨k, hk⟩; exact ⟨k, by rw [← h3 k]; exact hk⟩
  · rintro ⟨k, hk⟩; exact ⟨k, by rw [h3 k]; exact hk⟩

/-- **Events lost while a watch is re-established are repaired by the reload.**  Whatever the subscriber was
told before (`seen`: any valid history — events may have been lost, so it need not be the truth), once a reload
(cluster.reload after a connection-state change, or the compaction path) delivers a snapshot that is the true
registry (`Reg.ofSnapshot kvs = Reg.run truth`), the view is the true registry, also after every later history. -/
theorem reload_repairs_lost_events (truth seen later : List Ev) (kvs adds : List (Nat × Nat)) (rems : List Nat)
    (hsnap : Reg.ofSnapshot kvs = Reg.run truth)
    (hv : ValidHist Fix.fixed [] (seen ++ [.reload kvs adds rems] ++ later)) :
    ∀ v, v ∈ view (run Fix.fixed false (seen ++ [.reload kvs adds rems] ++ later)).cont
      ↔ (Reg.run (truth ++ later)).Shows v := by
  intro v
  rw [(view_equals_registry _ hv).1 v]
  have : Reg.run (seen ++ [.reload kvs adds rems] ++ later) = Reg.run (truth ++ later) := by
    unfold Reg.run
    rw [List.foldl_append, List.foldl_append, List.foldl_append]
    simp only [List.foldl_cons, List.foldl_nil, Reg.apply]
    rw [hsnap]; rfl
  rw [this]

/-- **Joining while a watch response is being handled** (interleaving model ConcJoin, code with
fixes/C13-late-join-atomic.patch): under every schedule of the watch goroutine and any number of joining
goroutines, whenever no watch response is in the middle of a delivery every joined listener holds exactly the
registry's copy `watcher.values`. -/
theorem late_join_atomic (acts : List ConcJoin.Act) (l : Nat) :
    let s := ConcJoin.exec true {} acts
    s.jpc l = .joined → (∀ e, s.wpc ≠ .deliver e) → s.view l = s.values := by
  intro s
  exact (ConcJoin.inv_exec acts _ ConcJoin.inv_init).sync l

/-! ### Publisher → etcd → subscriber (core/discov/publisher.go: register / revoke) -/

/-- **Which key a publisher puts.**  `register` with the lease etcd granted: the full key is the service key with
the id suffix `p.id` when an id was given (`WithId`, `p.id > 0`), else the lease; the value is put under that key,
attached to that lease, every other key of the store is untouched, and the watchers are told exactly this PUT. -/
theorem publisher_registers_key_with_id_suffix (p : Pub) (lease : Nat) (s : Store) :
    let p' := p.register lease
    (p'.fullKey = if p.id > 0 then p.id else lease) ∧ p'.lease = lease ∧ p'.value = p.value ∧ p'.id = p.id
    ∧ (storePut s p').get p'.fullKey = some (p.value, lease)
    ∧ (∀ k, k ≠ p'.fullKey → (storePut s p').get k = s.get k)
    ∧ registerEvents p' = [.put p'.fullKey p.value] := by
  refine ⟨rfl, rfl, rfl, rfl, ?_, fun k hk => ?_, rfl⟩
  · simp [storePut, Map.get_set, Pub.register]
  · simp [storePut, Map.get_set, hk]

/-- **A registration is seen** (call site → etcd → handleWatchEvents → container → Values()): after any history of
registry events, once a publisher has registered, an ordinary subscriber's `Values()` contains the publisher's
value, and the registry holds it under the publisher's full key. -/
theorem published_value_is_seen (evs : List Ev) (hv : ValidHist Fix.fixed [] evs) (p : Pub) (lease : Nat) :
    let p' := p.register lease
    p.value ∈ view (run Fix.fixed false (evs ++ registerEvents p')).cont
    ∧ Reg.run (evs ++ registerEvents p') p'.fullKey = some p.value := by
  intro p'
  have hv' : ValidHist Fix.fixed [] (evs ++ registerEvents p') :=
    (validHist_append _ evs _ []).mpr ⟨hv, trivial⟩
  have hr : Reg.run (evs ++ registerEvents p') p'.fullKey = some p.value := by
    simp [Reg.run, registerEvents, List.foldl_append, Reg.apply, Reg.put, p', Pub.register]
  exact ⟨((view_equals_registry _ hv').1 p.value).mpr ⟨_, hr⟩, hr⟩

/-- **Revocation** (`Pause`, `Stop`, a closed keep-alive channel): etcd deletes exactly the keys attached to the
lease, one DELETE event each, and keeps every other key. -/
theorem revoke_deletes_exactly_the_lease (s : Store) (lease : Nat) :
    (∀ e, e ∈ storeRevoke s lease ↔ e ∈ s ∧ e.2.2 ≠ lease)
    ∧ (∀ k, k ∈ revokedKeys s lease ↔ ∃ v, (k, (v, lease)) ∈ s)
    ∧ revokeEvents s lease = (revokedKeys s lease).map .del :=
  ⟨mem_storeRevoke s lease, mem_revokedKeys s lease, rfl⟩

/-- **A revocation is seen**: after the DELETE events of the revoked keys an ordinary subscriber shows a value
exactly when a key that was not revoked still carries it (so the value of a publisher that stopped disappears
unless another live publisher registered the same value). -/
theorem revoked_value_disappears (evs : List Ev) (hv : ValidHist Fix.fixed [] evs) (ks : List Nat) (v : Nat) :
    v ∈ view (run Fix.fixed false (evs ++ ks.map .del)).cont ↔ ∃ k, k ∉ ks ∧ Reg.run evs k = some v := by
  rw [(view_equals_registry _ ((validHist_append_dels _ evs ks []).mpr hv)).1 v]
  unfold Reg.Shows
  constructor
  · rintro ⟨k, hk⟩
    rw [regrun_append_dels] at hk
    by_cases hm : k ∈ ks
    · simp [hm] at hk
    · exact ⟨k, hm, by simpa [hm] using hk⟩
  · rintro ⟨k, hm, hk⟩
    exact ⟨k, by rw [regrun_append_dels]; simpa [hm] using hk⟩

/-
Round 5c: the full-history statement for ONE publisher is `publisher_full_history` below (every operation sequence, every
etcd call free to fail).  What is still not a theorem: several publishers at once (pairwise distinct fixed ids that differ
from every lease) together with the subscriber's view over the whole history — the harness checks it on the real code as
`view-differs-from-live-publishers`.  `publisher_cycle_partial` composes one registration / one revocation after an arbitrary
history with `view_equals_registry`.
-/
theorem publisher_cycle_partial (evs : List Ev) (hv : ValidHist Fix.fixed [] evs) (p : Pub) (lease : Nat)
    (hother : ∀ k, Reg.run evs k ≠ some p.value) :
    let p' := p.register lease
    p.value ∈ view (run Fix.fixed false (evs ++ registerEvents p')).cont
    ∧ p.value ∉ view (run Fix.fixed false ((evs ++ registerEvents p') ++ [p'.fullKey].map .del)).cont := by
  intro p'
  refine ⟨(published_value_is_seen evs hv p lease).1, fun h => ?_⟩
  have hv' : ValidHist Fix.fixed [] (evs ++ registerEvents p') := (validHist_append _ evs _ []).mpr ⟨hv, trivial⟩
  obtain ⟨k, hk, hr⟩ := (revoked_value_disappears _ hv' [p'.fullKey] p.value).mp h
  have hne : k ≠ p'.fullKey := by simpa using hk
  have : Reg.run (evs ++ registerEvents p') k = Reg.run evs k := by
    simp [Reg.run, registerEvents, List.foldl_append, Reg.apply, Reg.put, hne]
  rw [this] at hr
  exact hother k hr

/-- **The whole life of a publisher (round 5c; replaces the per-cycle statement `publisher_cycle_partial`).**  For EVERY
sequence of KeepAlive / Pause / Resume / Stop / loss of the keep-alive stream / lease expiry, with every etcd call of
every attempt free to fail (Grant, Put, KeepAlive, Revoke; any number of failed attempts inside doKeepAlive), and
leases granted once each:
* whenever the publisher runs (registered, not paused, not stopped) etcd holds its value under its full key
  `<key>/<id or lease>`, attached to its CURRENT lease;
* at quiescence — once the leases nobody renews have expired — etcd holds a key of the publisher IF AND ONLY IF it
  runs, and then exactly that one key, value and lease (nothing a failed KeepAlive / Revoke left behind survives). -/
theorem publisher_full_history (id v next : Nat) (ops : List POp) :
    let st := PLife.run { pub := { id := id, value := v }, next := next } ops
    (st.running = true → st.store.get st.pub.fullKey = some (v, st.pub.lease) ∧ st.pub.fullKey = pubKeyId id st.pub.lease)
    ∧ (∀ k x l, (st.step .expire).store.get k = some (x, l)
        ↔ st.running = true ∧ k = st.pub.fullKey ∧ x = v ∧ l = st.pub.lease) := by
  intro st
  have h0 : PInv id v { pub := { id := id, value := v }, next := next } :=
    ⟨by simp [Map.keys], by simp, ⟨rfl, rfl⟩, by simp⟩
  have h : PInv id v st := run_inv id v ops _ h0
  have h' : PInv id v (st.step .expire) := step_inv id v st .expire h
  refine ⟨fun hr => ?_, fun k x l => ?_⟩
  · obtain ⟨_, b, c, _⟩ := h.live hr
    refine ⟨?_, b⟩
    have := (Map.mem_iff_get _ h.nodup st.pub.fullKey (st.pub.value, st.pub.lease)).mp c
    rw [h.idv.2] at this
    exact this
  · have hs : (st.step .expire).store = storeExpire st.store (if st.running then [st.pub.lease] else []) := rfl
    rw [← Map.mem_iff_get _ h'.nodup]
    constructor
    · intro hm
      rw [hs] at hm
      obtain ⟨hm1, hm2⟩ := List.mem_filter.mp hm
      cases hr : st.running with
      | false => simp [hr] at hm2
      | true =>
        simp [hr] at hm2
        obtain ⟨_, _, _, d⟩ := h.live hr
        have := d _ hm1 hm2
        simp only [Pub.entry, Prod.mk.injEq] at this
        exact ⟨rfl, this.1, by rw [this.2.1, h.idv.2], this.2.2⟩
    · rintro ⟨hr, rfl, rfl, rfl⟩
      obtain ⟨_, _, c, _⟩ := h.live hr
      rw [hs]
      refine List.mem_filter.mpr ⟨?_, by simp [hr]⟩
      have := c
      simp only [Pub.entry, h.idv.2] at this
      exact this

/-! ### Resolver: Build against the watch goroutine (BuildConc.lean) -/

/-- **The resolver publishes the subscriber's addresses at quiescence** — for the code's order (AddListener, then the
first update()) with serialised update() calls, under every schedule of Build's steps, event deliveries and listener
runs: once Build has returned and every delivered change was followed by the listener's update(), the last
`UpdateState` carried exactly what `Values()` returns. -/
theorem build_publishes_view_at_quiescence (v0 : List Nat) (acts : List BuildConc.Act) :
    let s := BuildConc.exec .listenerFirst true { view := v0 } acts
    BuildConc.Quiescent s → s.pub = some s.view := by
  intro s hq
  have hi : BuildConc.Inv s := BuildConc.inv_exec acts _ ⟨by simp, by simp, by simp, by simp⟩
  rcases hi.2.2.1 hq.1 with h | h
  · exact h
  · rw [hq.2] at h; cases h

/-- what the resolver published is what the registry holds (composition with `view_equals_registry`): if the
subscriber's `Values()` is the value list of the history's registry, the last UpdateState at quiescence carries it,
and `subset` (≤ 32 values) keeps all of it (`resolver_publishes_all_when_small`). -/
theorem build_publishes_registry_at_quiescence (evs : List Ev) (hv : ValidHist Fix.fixed [] evs) (v0 : List Nat)
    (acts : List BuildConc.Act) :
    let s := BuildConc.exec .listenerFirst true { view := v0 } acts
    BuildConc.Quiescent s → s.view = view (run Fix.fixed false evs).cont →
      ∃ p, s.pub = some p ∧ ∀ v, v ∈ p ↔ (Reg.run evs).Shows v := by
  intro s hq hview
  refine ⟨s.view, build_publishes_view_at_quiescence v0 acts hq, fun v => ?_⟩
  rw [hview]
  exact (view_equals_registry evs hv).1 v

/-- **Witness (order of the seeded change C13-5: first update(), then AddListener).**  An event applied between
Build's UpdateState and AddListener reaches no listener: at quiescence the resolver still publishes the empty
list while Values() is [7]. -/
theorem update_before_listener_loses_event :
    let s := BuildConc.exec .updateFirst true {} [.build, .build, .apply [7], .build]
    BuildConc.Quiescent s ∧ s.pub = some [] ∧ s.view = [7] := by decide

/-- **Defect witness (the code as it is: update() is not serialised).**  Build's update() has read `Values()` = [];
the watch goroutine applies an event ([7]), runs the listener — update() reads [7] and publishes it — and only then
Build's `UpdateState([])` is entered: at quiescence the resolver publishes [] while Values() is [7], until the next
registry event.  With serialised update() calls the same schedule ends with [7] published. -/
theorem unserialized_update_publishes_stale :
    (let s := BuildConc.exec .listenerFirst false {} [.build, .build, .apply [7], .wUpdate, .build]
     BuildConc.Quiescent s ∧ s.pub = some [] ∧ s.view = [7])
    ∧ (let s := BuildConc.exec .listenerFirst true {} [.build, .build, .apply [7], .wUpdate, .build, .wUpdate]
       BuildConc.Quiescent s ∧ s.pub = some [7] ∧ s.view = [7]) := by decide

/-! ### The defect of the pinned commit (machine-checked witnesses; replayed on the real code) -/

/-- `k` registered with `v1`, then updated in place to `v2`: the pinned `addKv` still shows `v1`. -/
theorem pinned_update_in_place_keeps_old_value :
    canonSet (view (run Fix.pinned false [.put 1 1, .put 1 2]).cont) = [1, 2]
    ∧ viewList (registry [.put 1 1, .put 1 2]) = [2] := by decide

/-- a reload in which `k` changed its value: pinned `calculateChanges` reports `(k, v2)` as added and `(k, v1)`
as removed, `handleChanges` applies the removal last, and the view loses `k`'s new value as well
(view `[1]`, registry `{1 ↦ 2}`). -/
theorem pinned_reload_drops_changed_key :
    ValidHist Fix.pinned [] [.reload [(1, 1)] [(1, 1)] [], .reload [(1, 2)] [(1, 2)] [1]]
    ∧ canonSet (view (run Fix.pinned false [.reload [(1, 1)] [(1, 1)] [], .reload [(1, 2)] [(1, 2)] [1]]).cont) = [1]
    ∧ viewList (registry [.reload [(1, 1)] [(1, 1)] [], .reload [(1, 2)] [(1, 2)] [1]]) = [2] := by
  refine ⟨?_, by decide, by decide⟩
  simp only [ValidHist, ValidEv, and_true]
  refine ⟨⟨?_, ?_⟩, ⟨?_, ?_⟩⟩ <;> intro x <;> simp [calcAdds, calcRemoves, ofKVs, Map.set, Map.erase, Map.get, Fix.pinned, stepValues]

/-- with only the `addKv` half of the fix the reload still loses the key: both halves are needed. -/
theorem half_fix_is_not_enough :
    canonSet (view (run ⟨true, false⟩ false [.reload [(1, 1)] [(1, 1)] [], .reload [(1, 2)] [(1, 2)] [1]]).cont) = [] := by
  decide

/-- **Defect (late join).**  Without the notifyLock (`fx = false`, the code before
fixes/C13-late-join-atomic.patch): key 1 is registered with value 5; the response [put 0 ↦ 7, delete 1] is being
handled (listeners copied, first event applied and delivered) when listener 9 joins: it is told {0 ↦ 7, 1 ↦ 5};
the delete of key 1 is then delivered to the copied listeners only.  Listener 9 shows value 5 for ever, the
registry does not hold it.  Replayed on the real code by the `joinmid` operation of the harness. -/
theorem pinned_late_join_loses_event :
    let s := ConcJoin.exec false {}
      [.watch [.add 1 5], .watch [], .watch [], .watch [], .watch [],            -- key 1 ↦ 5 handled completely
       .watch [.add 0 7, .del 1], .watch [], .watch [], .watch [],               -- copy; put 0 applied and delivered
       .join 9, .join 9, .join 9, .join 9,                                       -- listener 9 joins
       .watch [], .watch [], .watch []]                                          -- delete 1 applied and delivered
    s.wpc = .idle ∧ s.jpc 9 = .joined ∧ s.view 9 1 = some 5 ∧ s.values 1 = none ∧ s.values 0 = some 7 := by
  decide

/-- the same schedule with the fix: the joiner waits for the response to be finished -/
example :
    let s := ConcJoin.exec true {}
      [.watch [.add 1 5], .watch [], .watch [], .watch [], .watch [],
       .watch [.add 0 7, .del 1], .watch [], .watch [], .watch [],
       .join 9, .join 9, .join 9, .join 9,
       .watch [], .watch [], .watch [], .join 9, .join 9, .join 9, .join 9]
    s.jpc 9 = .joined ∧ s.view 9 1 = none ∧ s.view 9 0 = some 7 := by decide

/-- **Defect (shared snapshot shuffled in place).**  `subset` shuffles the slice `Values()` returned — the cached
snapshot that every other caller of `Values()` gets as well.  A reader that has read the first cell of
[10, 20, 30] when the shuffle swaps cells 0 and 2 reads [10, 20, 10]: value 30 is missing, 10 is there twice;
two goroutines swapping at the same time (Build's first update() and the watch goroutine's) leave [30, 10, 10]
in the cache: value 20 is lost for every later reader until the next registry event. -/
theorem shared_snapshot_shuffle_corrupts :
    Conc.readAcrossSwap [10, 20, 30] 1 0 2 = [10, 20, 10]
    ∧ Conc.racingSwaps [10, 20, 30] 0 1 0 2 = [30, 10, 10] := by decide

/-! ### round 5: several watched keys on one cluster; re-registration with failing etcd calls -/

/-- the start state of a cluster whose keys are all watched by ordinary (`excl s = false`) / exclusive subscribers -/
def MState.start (excl : Nat → Bool) : MState := fun s => { cont := Container.new (excl s) }

/-- **Several watched keys, one cluster.**  For every history of watch responses / compaction reloads on any of the
keys and reconnects (`cluster.reload`: every watched key is loaded again, in any order), every ordinary subscriber shows
exactly the registry of ITS key — the registry that the key's own events and the reconnect snapshots of its key
describe; what happens to the other keys has no influence. -/
theorem multi_view_equals_registry (excl : Nat → Bool) (evs : List MEv) (s : Nat) (hm : MValid evs) (hs : excl s = false)
    (hv : ValidHist Fix.fixed [] (proj s evs)) :
    (∀ v, v ∈ view (mrun Fix.fixed true (MState.start excl) evs s).cont ↔ (Reg.run (proj s evs)).Shows v)
    ∧ (view (mrun Fix.fixed true (MState.start excl) evs s).cont).Nodup := by
  have : mrun Fix.fixed true (MState.start excl) evs s = run Fix.fixed false (proj s evs) := by
    rw [mrun_proj Fix.fixed evs _ s hm]; simp [run, MState.start, hs]
  rw [this]
  exact view_equals_registry _ hv

/-- the same for an exclusive subscriber on one of the keys -/
theorem multi_exclusive_view_equals_counting (excl : Nat → Bool) (evs : List MEv) (s : Nat) (hm : MValid evs) (hs : excl s = true) :
    ∀ v, v ∈ view (mrun Fix.fixed true (MState.start excl) evs s).cont ↔ (Reg.counting (proj s evs)).Shows v := by
  have : mrun Fix.fixed true (MState.start excl) evs s = run Fix.fixed true (proj s evs) := by
    rw [mrun_proj Fix.fixed evs _ s hm]; simp [run, MState.start, hs]
  rw [this]
  exact (exclusive_view_equals_counting _).1

/-- **Witness (the loop of seeded C13-8: the closure uses the shared range variable).**  Keys 0 and 1 are watched;
key 0 holds 1 ↦ 5, key 1 holds 2 ↦ 6.  While the connection is down key 0's registration disappears.  After the
reconnect only the last key of the list is loaded: key 0's subscriber still shows 5, its registry is empty. -/
theorem shared_loop_variable_reloads_only_the_last_key :
    let snap : Nat → Ev := fun k => if k = 0 then .reload [] [] [1] else .reload [(2, 6)] [] []
    let evs : List MEv := [.on 0 (.put 1 5), .on 1 (.put 2 6), .reconnect [0, 1] snap]
    view (mrun Fix.fixed false (MState.start fun _ => false) evs 0).cont = [5]
    ∧ viewList (registry (proj 0 evs)) = []
    ∧ view (mrun Fix.fixed true (MState.start fun _ => false) evs 0).cont = [] := by decide

/-- **Re-registration is retried until it succeeds** (doKeepAlive: `break` leaves the `select`, the ticker loop goes on —
Tie `tie_doKeepAliveRetries`).  Whatever attempts fail first (Grant, Put or KeepAlive errors, any number, any mix), at
the first successful attempt the publisher is registered again under the lease of THAT attempt, a keep-alive
goroutine runs again, etcd holds its value under its full key, and an ordinary subscriber shows the value. -/
theorem reregistration_retries_until_success (p : Pub) (s : Store) (fails rest : List Attempt) (l : Nat)
    (hf : ∀ a, a ∈ fails → a.isOk = false) (evs : List Ev) (hv : ValidHist Fix.fixed [] evs) :
    let r := doKeepAlive true p s (fails ++ .ok l :: rest)
    r.2.2 = true ∧ r.1.lease = l ∧ r.1.fullKey = pubKeyId p.id l ∧ r.1.value = p.value
    ∧ r.2.1.get r.1.fullKey = some (p.value, l)
    ∧ p.value ∈ view (run Fix.fixed false (evs ++ registerEvents r.1)).cont := by
  obtain ⟨p0, s0, h, hid, hval⟩ := doKeepAlive_fails_then_ok p s fails l rest hf
  intro r
  have hr : r = (p0.register l, storePut s0 (p0.register l), true) := h
  have hseen := (published_value_is_seen evs hv p0 l).1
  rw [hr]
  refine ⟨rfl, rfl, ?_, ?_, ?_, ?_⟩
  · simp [Pub.register, hid]
  · simp [Pub.register, hval]
  · simp [storePut, Map.get_set, Pub.register, hval]
  · rw [← hval]; exact hseen

/-- the attempt list the driver builds for armed faults always ends in a registration -/
theorem armed_faults_end_registered (p : Pub) (s : Store) (fg fp fk next : Nat) :
    (doKeepAlive true p s (attemptsFor fg fp fk next)).2.2 = true
    ∧ (doKeepAlive true p s (attemptsFor fg fp fk next)).1.lease = next + fp + fk := by
  have hf : ∀ a, a ∈ List.replicate fg Attempt.grantErr ++ (List.range fp).map (fun i => Attempt.putErr (next + i))
      ++ (List.range fk).map (fun i => Attempt.kaErr (next + fp + i)) → a.isOk = false := by
    intro a ha
    simp only [List.mem_append, List.mem_replicate, List.mem_map] at ha
    rcases ha with (⟨_, rfl⟩ | ⟨_, _, rfl⟩) | ⟨_, _, rfl⟩ <;> rfl
  have := reregistration_retries_until_success p s _ [] (next + fp + fk) hf [] trivial
  unfold attemptsFor
  exact ⟨this.1, this.2.1⟩

/-- **Witness (the loop of seeded C13-7: `break` leaves the `for`).**  One failed attempt ends the loop: the publisher
stays unregistered although the next attempt would have succeeded. -/
theorem single_failure_ends_a_loop_without_retry :
    (doKeepAlive false { id := 3, value := 40 } [] [.grantErr, .ok 105]).2.2 = false
    ∧ (doKeepAlive false { id := 3, value := 40 } [] [.grantErr, .ok 105]).2.1 = []
    ∧ (doKeepAlive true { id := 3, value := 40 } [] [.grantErr, .ok 105]).2.1 = [(3, (40, 105))] := by decide

/-- what the failed attempts leave behind: a KeepAlive error leaves the key of that attempt in etcd (nobody renews
it: it lives until the lease's TTL), Grant and Put errors leave nothing — `storeExpire` with the live leases removes
exactly the orphans -/
theorem failed_attempt_effects (p : Pub) (s : Store) (l : Nat) :
    (p.attempt s .grantErr).2 = s ∧ (p.attempt s (.putErr l)).2 = s
    ∧ (p.attempt s (.kaErr l)).2 = storePut s (p.register l)
    ∧ (p.attempt s .grantErr).1.lease = 0 ∧ (p.attempt s (.putErr l)).1.lease = l := ⟨rfl, rfl, rfl, rfl, rfl⟩

/-! ### round 5c: Unmonitor / reopen, the retry loop of `load`, watch revisions -/

/-- **Closing one subscriber leaves the others alone.**  When listener `i` is unmonitored (Subscriber.Close), every
other listener `j` of the same watcher holds, after any later deliveries, exactly the container it would hold had `i`
stayed — hence the same `Values()`. -/
theorem unmonitor_leaves_the_others_unchanged (ls : Listeners) (i j : Nat) (h : j ≠ i) (evs : List LEv) :
    ((ls.unmonitor i).deliver Fix.fixed evs).get j = (ls.deliver Fix.fixed evs).get j
    ∧ ((ls.unmonitor i).deliver Fix.fixed evs).get i = none := by
  refine ⟨listeners_get_unmonitor_deliver Fix.fixed ls i j h evs, ?_⟩
  unfold Listeners.unmonitor Listeners.deliver Listeners.get
  rw [find_map_snd _ (fun c => evs.foldl (applyL Fix.fixed) c)]
  have : (ls.filter (fun p => p.1 ≠ i)).find? (fun p => p.1 = i) = none := by
    rw [List.find?_eq_none]
    intro p hp
    simpa using (List.mem_filter.mp hp).2
  rw [this]; rfl

/-- **A reopened key shows the registry.**  After the last listener left, the watcher is deleted; a new subscriber on
the key starts from a fresh container (whatever the cluster held for the key before, and whatever the other keys
hold): after its first load and any later history of the cluster it shows the registry of its key. -/
theorem reopened_key_shows_registry (m : MState) (evs : List MEv) (s : Nat) (hm : MValid evs)
    (hv : ValidHist Fix.fixed [] (proj s evs)) :
    ∀ v, v ∈ view (mrun Fix.fixed true (upd m s { cont := Container.new false }) evs s).cont
      ↔ (Reg.run (proj s evs)).Shows v := by
  have : mrun Fix.fixed true (upd m s { cont := Container.new false }) evs s = run Fix.fixed false (proj s evs) := by
    rw [mrun_proj Fix.fixed evs _ s hm]; simp [run, upd]
  rw [this]
  exact (view_equals_registry _ hv).1

/-- **`load` installs the snapshot of the first successful Get** (the `break` leaves the retry loop only after a Get
without error: Tie `tie_loadRetries`; the cool-down sleeps in between), however many Gets fail first — and the
subscriber then shows that snapshot's registry.  Witness: a loop that ends at the first error installs nothing. -/
theorem load_installs_the_first_successful_snapshot (fails rest : List (Option (List (Nat × Nat))))
    (kvs adds : List (Nat × Nat)) (rems : List Nat) (hf : ∀ r ∈ fails, r = none)
    (hv : ValidHist Fix.fixed [] [.reload kvs adds rems]) :
    loadLoop (fails ++ some kvs :: rest) = some kvs
    ∧ (∀ v, v ∈ view (run Fix.fixed false [.reload kvs adds rems]).cont ↔ (Reg.ofSnapshot kvs).Shows v)
    ∧ loadLoopNoRetry (none :: some kvs :: rest) = none := by
  refine ⟨loadLoop_installs_first_success fails kvs rest hf, fun v => ?_, rfl⟩
  rw [(view_equals_registry _ hv).1 v]
  rfl

/-- **Watch revisions.**  After a load that returned revision `rev` (the log's length at that moment) the watch asks
for `rev + 1` (`watchFrom`: Tie `tie_watchArgs`): it is told exactly the events after the snapshot — none twice, none
skipped.  Witnesses for the two off-by-one variants: `WithRev(rev)` replays the last event of the snapshot again,
`WithRev(rev + 2)` skips the first event after it. -/
theorem watch_resumes_right_after_the_snapshot (before after : List Ev) (h : before ≠ []) :
    replayFrom (before ++ after) (watchFrom before.length) = after
    ∧ replayFrom ([Ev.put 1 5] ++ [Ev.del 1]) 1 = [.put 1 5, .del 1]
    ∧ replayFrom ([Ev.put 1 5] ++ [Ev.del 1, .put 2 6]) 3 = [.put 2 6] := by
  refine ⟨?_, rfl, rfl⟩
  have hl : before.length ≠ 0 := by simpa using h
  simp [replayFrom, watchFrom, hl]

/-- **Every attempt of `load` has a deadline of its own** (Tie `tie_loadFreshDeadline`: the WithTimeout call and its
cancel are inside the retry loop).  However long the earlier Gets hung and however much time the loop has spent, the
first Get that etcd answers within RequestTimeout installs its snapshot — `load_installs_the_first_successful_snapshot`
rests on this.  Witness (one deadline for the whole loop, seeded C13-9): after a first Get that timed out every later
attempt fails at once, although etcd would answer immediately. -/
theorem load_gives_every_attempt_a_fresh_deadline (timeout cool elapsed : Nat) (slow rest : List GetTry) (g : GetTry)
    (hs : ∀ x ∈ slow, timeout < x.dur) (hg : g.dur ≤ timeout) :
    loadCtx true timeout cool elapsed (slow ++ g :: rest) = some g.kvs
    ∧ loadCtx false 3 1 0 [⟨5, [(1, 1)]⟩, ⟨0, [(1, 2)]⟩, ⟨0, [(1, 2)]⟩, ⟨0, [(1, 2)]⟩] = none
    ∧ loadCtx true 3 1 0 [⟨5, [(1, 1)]⟩, ⟨0, [(1, 2)]⟩] = some [(1, 2)] := by
  refine ⟨?_, by decide, by decide⟩
  induction slow generalizing elapsed with
  | nil => simp [loadCtx, hg]
  | cons x t ih =>
    have hx : ¬ (x.dur ≤ timeout) := Nat.not_le.mpr (hs x (by simp))
    simp only [List.cons_append, loadCtx, if_true, Nat.zero_add, hx, if_false]
    exact ih _ (fun y hy => hs y (by simp [hy]))

/-- **Closing a subscriber during a delivery changes nothing for the others.**  The delivery loops range over a
snapshot of the listener list taken at the start of the response (Tie `tie_deliveryListenersAreCopies`): whichever
listener `i` is unmonitored while whichever listener `j` is being called, every listener is called exactly once for
the event — in particular every remaining one — and (with `unmonitor_leaves_the_others_unchanged`) holds the container
it would hold had nobody closed.  Witness (seeded C13-10: the loop ranges over the watcher's own array): with
listeners [1, 2, 3], listener 1 closing itself makes the loop skip 2 and call 3 twice. -/
theorem close_during_delivery_leaves_the_others_notified_once (ls : List Nat) (hn : ls.Nodup) (j i x : Nat) (hx : x ∈ ls) :
    (calledForEvent true ls j i).count x = 1
    ∧ calledForEvent false [1, 2, 3] 0 0 = [1, 3, 3]
    ∧ calledForEvent false [1, 2, 3, 4] 2 1 = [1, 2, 3, 4]
    ∧ calledForEvent false [1, 2, 3, 4] 1 1 = [1, 2, 4, 4] := by
  refine ⟨?_, by decide, by decide, by decide⟩
  simp only [calledForEvent, if_true]
  exact count_one_of_nodup ls hn x hx

/-! ### Non-vacuity -/

/-- a valid history with update in place, a shared value, a replayed put, and a reload that changes one key,
drops one and adds one (adds delivered in the "unlucky" order) -/
def sampleHist : List Ev :=
  [.put 1 10, .put 2 10, .put 1 20, .put 1 20, .del 7,
   .reload [(1, 30), (3, 10)] [(3, 10), (1, 30)] [2]]

example : ValidHist Fix.fixed [] sampleHist := by
  simp only [sampleHist, ValidHist, ValidEv, and_true, true_and]
  constructor <;> intro x <;>
    simp [calcAdds, calcRemoves, ofKVs, Map.set, Map.erase, Map.get, Fix.fixed, stepValues]
  exact Or.comm

example : canonSet (view (run Fix.fixed false sampleHist).cont) = [10, 30] := by decide
example : canonSet (view (run Fix.pinned false sampleHist).cont) ≠ [10, 30] := by decide
example : canonSet (view (run Fix.fixed true sampleHist).cont) = [10, 30] := by decide

/-- exclusive: the displaced key's deletion does not remove the value; the counting key's deletion does, although
the displaced key is still registered -/
example : canonSet (view (run Fix.fixed true [.put 1 10, .put 2 10, .del 1]).cont) = [10] := by decide
example : canonSet (view (run Fix.fixed true [.put 1 10, .put 2 10, .del 2]).cont) = [] := by decide

example : (subset (List.range 40) subsetSize).length = 32 := by decide

example : (([.add [1, 2], .update false [2, 3], .del [3], .update true [9]] : List KEv).foldl Kube.step {}).published
    = some [2] := by decide

/-- concurrency, non-vacuity: thread 0 registers key 1 ↦ 10 completely; thread 1 starts a read (dirty: slow
path) and is overtaken by thread 2's write of 2 ↦ 20 before it takes the lock; thread 3 reads on the fast path -/
def sampleSched : Conc.Sched :=
  [(0, .write (.add 1 10)), (0, .read), (0, .read), (0, .read), (0, .read),
   (1, .read), (1, .read),
   (2, .write (.add 2 20)), (2, .read), (2, .read), (2, .read), (2, .read),
   (1, .read), (1, .read), (1, .read), (1, .read), (1, .read),
   (3, .read), (3, .read), (3, .read)]

example : let s := Conc.exec (Conc.init false) sampleSched
    s.pc 1 = .rDone ∧ s.start 1 = 1 ∧ s.idx 1 = 2 ∧ s.ret 1 = [10, 20]
    ∧ s.pc 3 = .rDone ∧ s.start 3 = 2 ∧ s.idx 3 = 2 ∧ s.ret 3 = [10, 20] ∧ s.dirty = false := by decide

/-- late join, non-vacuity: after `sampleHist` the registry is {1 ↦ 30, 3 ↦ 10}; a listener joins (replay in the
order 3, 1), then key 3 moves to value 30 and key 1 is deleted -/
example : ValidJoin (run Fix.fixed false sampleHist).values [(3, 10), (1, 30)] := by
  intro kv; simp [sampleHist, run, step, stepValues, ofKVs, Map.set, Map.erase]
  exact Or.comm

example : canonSet (view (runLate false [(3, 10), (1, 30)] [.put 3 30, .del 1])) = [30] := by decide

/-- publisher, non-vacuity: a publisher without id (lease 105) and one with id 6 register after `sampleHist`; the first
is paused (its lease is revoked) -/
example : (({ id := 0, value := 40 } : Pub).register 105).fullKey = 105
    ∧ (({ id := 6, value := 40 } : Pub).register 105).fullKey = 6 := by decide

example : canonSet (view (run Fix.fixed false (sampleHist ++ registerEvents (({ id := 0, value := 40 } : Pub).register 105))).cont)
    = [10, 30, 40] := by decide

example : revokedKeys [(6, (40, 104)), (105, (40, 105)), (8, (20, 106))] 105 = [105]
    ∧ storeRevoke [(6, (40, 104)), (105, (40, 105)), (8, (20, 106))] 105 = [(6, (40, 104)), (8, (20, 106))] := by decide

example : Reg.run sampleHist (({ id := 0, value := 40 } : Pub).register 105).fullKey = none := by decide

/-- Build, non-vacuity: a quiescent run with two events, one of them during Build's update() -/
example : let s := BuildConc.exec .listenerFirst true { view := [1] } [.apply [1, 2], .build, .build, .apply [2], .build, .wUpdate]
    BuildConc.Quiescent s ∧ s.pub = some [2] := by decide

/-- several keys, non-vacuity: a valid history over keys 0 and 1 with a reconnect that loads both -/
example : MValid [.on 0 (.put 1 5), .on 1 (.put 2 6), .reconnect [1, 0] (fun k => if k = 0 then .reload [] [] [1] else .reload [(2, 6)] [] [])] := by
  simp [MValid]

example : proj 0 [.on 0 (.put 1 5), .on 1 (.put 2 6), .reconnect [1, 0] (fun k => if k = 0 then .reload [] [] [1] else .reload [(2, 6)] [] [])]
    = [.put 1 5, .reload [] [] [1]] := by simp [proj]

/-- a publisher's life, non-vacuity: KeepAlive; the stream is lost and the first re-registration fails at KeepAlive
(its key 11 stays behind), the second succeeds (lease 12); Pause with a failing Revoke (key 12 stays); expiry removes
both leftovers; Resume after a failed Grant registers under lease 14 -/
example : (PLife.run { pub := { id := 0, value := 40 }, next := 10 }
    [.keepAlive .ok, .kaLoss true [.kaErr, .ok], .pause false]).store = [(11, (40, 11)), (12, (40, 12))] := by decide
example : ((PLife.run { pub := { id := 0, value := 40 }, next := 10 }
    [.keepAlive .ok, .kaLoss true [.kaErr, .ok], .pause false]).step .expire).store = [] := by decide
example : (PLife.run { pub := { id := 0, value := 40 }, next := 10 }
    [.keepAlive .ok, .kaLoss true [.kaErr, .ok], .pause false, .expire, .resume [.grantErr, .ok]]).store = [(14, (40, 14))] := by decide

/-- re-registration, non-vacuity: Grant fails, Put fails (lease 104), KeepAlive fails (lease 105: the key 105 stays
behind for a publisher without id), then success with lease 106 -/
example : doKeepAlive true { id := 0, value := 40 } [] [.grantErr, .putErr 104, .kaErr 105, .ok 106]
    = ({ id := 0, value := 40, lease := 106, fullKey := 106 }, [(105, (40, 105)), (106, (40, 106))], true) := by decide

example : attemptsFor 1 1 1 104 = [.grantErr, .putErr 104, .kaErr 105, .ok 106] := by decide

example : storeExpire [(105, (40, 105)), (106, (40, 106))] [106] = [(106, (40, 106))] := by decide

/-- listeners, non-vacuity: listeners 1, 2, 3 on one watcher; 2 closes; a put and a delete are delivered -/
example : ((Listeners.deliver Fix.fixed (Listeners.unmonitor [(1, Container.new false), (2, Container.new true), (3, Container.new false)] 2)
    [.add 7 70, .add 8 80, .del 7]).get 3).map view = some [80] := by decide

example : loadLoop [none, none, some [(1, 5)], none] = some [(1, 5)] := by decide

example : replayFrom [.put 1 5, .del 1, .put 2 6] (watchFrom 2) = [.put 2 6] := rfl

end GoZero.C13
