/-
C13 — one cluster object with SEVERAL watched keys (core/discov/internal/registry.go: `cluster.watchers`,
one watcher + one watch goroutine per key) and the publisher's re-registration loop with failing etcd calls
(core/discov/publisher.go: doKeepAlive / doRegister / register / keepAliveAsync).  Core Lean only.
-/
import GoZero.C13.Model
namespace GoZero.C13

/-! ### several watched keys on one cluster -/

/-- the state of one cluster object: watched key (service) ↦ its watcher's values + the subscriber's container -/
abbrev MState := Nat → Cluster

def upd (m : MState) (s : Nat) (c : Cluster) : MState := fun t => if t = s then c else m t

/-- events of a cluster with several watched keys.  `reconnect keys snap` is `cluster.reload` after a connection-state
change: `keys` is the list the code collects by ranging over `c.watchers` (every watched key once, any order),
`snap k` the reload event (`load` → `handleChanges`) of key `k`. -/
inductive MEv where
  | on (s : Nat) (ev : Ev)
  | reconnect (keys : List Nat) (snap : Nat → Ev)

/-- `for _, key := range keys { k := key; c.watchGroup.Run(func() { rev := c.load(cli, k); c.watch(cli, k, rev) }) }`:
every key of the list is loaded (the goroutines touch different watchers, so their order does not matter) -/
def reconnectAll (fx : Fix) (m : MState) (keys : List Nat) (snap : Nat → Ev) : MState :=
  keys.foldl (fun m k => upd m k (step fx (m k) (snap k))) m

/-- the loop WITHOUT the per-iteration copy (`go 1.21`: one shared range variable; the goroutines start after the
loop has advanced): every goroutine loads the key the variable holds at the end, the LAST one -/
def reconnectShared (fx : Fix) (m : MState) (keys : List Nat) (snap : Nat → Ev) : MState :=
  match keys.getLast? with
  | none => m
  | some last => keys.foldl (fun m _ => upd m last (step fx (m last) (snap last))) m

def mstep (fx : Fix) (perIteration : Bool) (m : MState) : MEv → MState
  | .on s ev => upd m s (step fx (m s) ev)
  | .reconnect keys snap => if perIteration then reconnectAll fx m keys snap else reconnectShared fx m keys snap

def mrun (fx : Fix) (perIteration : Bool) (init : MState) (evs : List MEv) : MState := evs.foldl (mstep fx perIteration) init

/-- what key `s` sees of a history: its own watch responses, and one reload per reconnect while it is watched -/
def proj (s : Nat) : List MEv → List Ev
  | [] => []
  | .on t ev :: rest => if t = s then ev :: proj s rest else proj s rest
  | .reconnect keys snap :: rest => if s ∈ keys then snap s :: proj s rest else proj s rest

/-- the lists `cluster.reload` collects come from a map: no key twice -/
def MValid : List MEv → Prop
  | [] => True
  | .on _ _ :: rest => MValid rest
  | .reconnect keys _ :: rest => keys.Nodup ∧ MValid rest

/-! ### publisher: registration attempts with failing etcd calls -/

/-- the outcome of one attempt `doRegister` + `keepAliveAsync`, decided by etcd (`lease`: what Grant returned) -/
inductive Attempt where
  | grantErr                 -- Grant fails: nothing stored, `p.lease = NoLease`
  | putErr (lease : Nat)     -- Put fails: `p.fullKey` / `p.lease` are set, nothing stored
  | kaErr (lease : Nat)      -- registered, then KeepAlive fails: the key stays (until the lease's TTL), nobody renews it
  | ok (lease : Nat)         -- registered and kept alive
  deriving Repr, DecidableEq

def Attempt.isOk : Attempt → Bool
  | .ok _ => true
  | _ => false

/-- `register` up to the failing call: `resp, err := Grant; if err != nil { return NoLease, err }; lease := resp.ID;
p.fullKey = …; _, err = Put(…); return lease, err` and `p.lease, err = p.register(cli)` in doRegister -/
def Pub.attempt (p : Pub) (s : Store) : Attempt → Pub × Store
  | .grantErr => ({ p with lease := 0 }, s)
  | .putErr l => (p.register l, s)
  | .kaErr l => (p.register l, storePut s (p.register l))
  | .ok l => (p.register l, storePut s (p.register l))

/-- `doKeepAlive`: at every tick one attempt; an error `break`s out of the `select` only, the `for range ticker.C` loop
goes on; success returns.  `retry = false` is the loop in which the `break`s leave the `for` (one failure ends it).
Result: publisher, store, and whether a keep-alive goroutine runs again. -/
def doKeepAlive (retry : Bool) (p : Pub) (s : Store) : List Attempt → Pub × Store × Bool
  | [] => (p, s, false)
  | a :: rest =>
    let ps := p.attempt s a
    if a.isOk then (ps.1, ps.2, true)
    else if retry then doKeepAlive retry ps.1 ps.2 rest
    else (ps.1, ps.2, false)

/-- `KeepAlive()`: one attempt; an error is returned to the caller -/
def keepAlive (p : Pub) (s : Store) (a : Attempt) : Pub × Store × Bool :=
  ((p.attempt s a).1, (p.attempt s a).2, a.isOk)

/-- the PUT events the watchers of the service key see during an attempt list (up to the first success) -/
def attemptEvents (p : Pub) : List Attempt → List Ev
  | [] => []
  | .kaErr l :: rest => .put (pubKeyId p.id l) p.value :: attemptEvents p rest
  | .ok l :: _ => [.put (pubKeyId p.id l) p.value]
  | _ :: rest => attemptEvents p rest

/-- the leases whose keys nobody keeps alive after an attempt list (they expire with their TTL) -/
def orphanLeases : List Attempt → List Nat
  | [] => []
  | .kaErr l :: rest => l :: orphanLeases rest
  | _ :: rest => orphanLeases rest

/-- etcd expires the leases that are not kept alive -/
def storeExpire (s : Store) (alive : List Nat) : Store := s.filter (fun e => alive.contains e.2.2)

/-- the attempts of one re-registration when `fg` Grant calls, then `fp` Put calls, then `fk` KeepAlive calls fail
(the harness arms the faults in this order) and etcd grants consecutive leases starting at `next` -/
def attemptsFor (fg fp fk next : Nat) : List Attempt :=
  List.replicate fg .grantErr
    ++ (List.range fp).map (fun i => .putErr (next + i))
    ++ (List.range fk).map (fun i => .kaErr (next + fp + i))
    ++ [.ok (next + fp + fk)]


/-! ### the whole life of a publisher: KeepAlive / Pause / Resume / Stop / keep-alive loss / lease expiry, every etcd
call may fail (core/discov/publisher.go: KeepAlive, keepAliveAsync's goroutine, doKeepAlive, revoke) -/

/-- the outcome kind of one attempt; the lease is what etcd's Grant hands out next -/
inductive AKind where
  | grantErr | putErr | kaErr | ok
  deriving Repr, DecidableEq

def AKind.toAttempt (l : Nat) : AKind → Attempt
  | .grantErr => .grantErr
  | .putErr => .putErr l
  | .kaErr => .kaErr l
  | .ok => .ok l

/-- etcd grants every lease once: attempt `i` of the list gets lease `next + i` (a failed Grant consumes none, the gap is harmless) -/
def attemptsOf : Nat → List AKind → List Attempt
  | _, [] => []
  | next, k :: ks => k.toAttempt next :: attemptsOf (next + 1) ks

structure PLife where
  pub     : Pub
  store   : Store := []
  /-- a keep-alive goroutine of the publisher runs (registered, not paused, not stopped) -/
  running : Bool := false
  next    : Nat
  deriving Repr

inductive POp where
  | keepAlive (a : AKind)                       -- KeepAlive(): one attempt, the error is returned
  | pause (revokeOk : Bool)                     -- Pause(): revoke (a failure is only logged)
  | resume (as : List AKind)                    -- Resume(): doKeepAlive
  | stop (revokeOk : Bool)                      -- Stop(): revoke when running
  | kaLoss (revokeOk : Bool) (as : List AKind)  -- the keep-alive channel closes: revoke, doKeepAlive
  | expire                                      -- etcd expires every lease nobody renews
  deriving Repr

def PLife.revoke (st : PLife) (ok : Bool) : Store := if ok then storeRevoke st.store st.pub.lease else st.store

def PLife.reregister (st : PLife) (s : Store) (as : List AKind) : PLife :=
  let r := doKeepAlive true st.pub s (attemptsOf st.next as)
  { pub := r.1, store := r.2.1, running := r.2.2, next := st.next + as.length }

/-- one operation of the publisher's life.  Operations the code cannot take in the state are no-ops (Pause / the
keep-alive loss need the goroutine; Resume needs a paused publisher; KeepAlive is called once, before anything runs). -/
def PLife.step (st : PLife) : POp → PLife
  | .keepAlive a => if st.running then st else st.reregister st.store [a]
  | .pause ok => if st.running then { st with store := st.revoke ok, running := false } else st
  | .resume as => if st.running then st else st.reregister st.store as
  | .stop ok => if st.running then { st with store := st.revoke ok, running := false } else st
  | .kaLoss ok as => if st.running then ({ st with running := false }).reregister (st.revoke ok) as else st
  | .expire => { st with store := storeExpire st.store (if st.running then [st.pub.lease] else []) }

def PLife.run (st : PLife) (ops : List POp) : PLife := ops.foldl PLife.step st


/-! ### the listeners of one watcher (watchValue.listeners): Unmonitor removes one of them -/

/-- subscriber id ↦ its container -/
abbrev Listeners := List (Nat × Container)

/-- handleWatchEvents / handleChanges call every listener with every listener-level event -/
def Listeners.deliver (fx : Fix) (ls : Listeners) (evs : List LEv) : Listeners :=
  ls.map fun p => (p.1, evs.foldl (applyL fx) p.2)

/-- `Registry.Unmonitor`: listener `i` is taken out of the watcher's list (the others stay, in order) -/
def Listeners.unmonitor (ls : Listeners) (i : Nat) : Listeners := ls.filter (fun p => p.1 ≠ i)

def Listeners.get (ls : Listeners) (j : Nat) : Option Container := (ls.find? (fun p => p.1 = j)).map (·.2)

/-- `load`: Get is retried until it succeeds (`for { …; if err == nil { break }; …cool down… }`), then the snapshot of
THAT response goes to handleChanges.  `none` = a failed Get. -/
def loadLoop : List (Option (List (Nat × Nat))) → Option (List (Nat × Nat))
  | [] => none                      -- still retrying
  | some kvs :: _ => some kvs
  | none :: rest => loadLoop rest

/-- the loop in which the `break` leaves something else than the `for` (or is missing): the first error ends it -/
def loadLoopNoRetry : List (Option (List (Nat × Nat))) → Option (List (Nat × Nat))
  | [] => none
  | r :: _ => r

/-! ### watch revisions (setupWatch: `WithRev(rev + 1)` when a revision was loaded) -/

/-- etcd's event log: event `i` (0-based) has revision `i + 1`.  A watch from revision `from` (0: from now on, i.e.
nothing of the log) replays the events with revision ≥ `from`. -/
def replayFrom (log : List Ev) (frm : Nat) : List Ev := if frm = 0 then [] else log.drop (frm - 1)

/-- the revision setupWatch asks for after a load that returned revision `rev` (translated guard `rev != 0`) -/
def watchFrom (rev : Nat) : Nat := if rev ≠ 0 then rev + 1 else 0


/-! ### the deadline of each attempt of `load` (`ctx, cancel := context.WithTimeout(cli.Ctx(), RequestTimeout)` INSIDE the loop) -/

/-- one Get: how long etcd takes to answer, and the snapshot it answers with -/
structure GetTry where
  dur : Nat
  kvs : List (Nat × Nat)
  deriving Repr, DecidableEq

/-- `load` over time.  `fresh = true`: every attempt gets a deadline of its own (`timeout` from ITS start) — the code;
`fresh = false`: one deadline for the whole loop (the context created before the loop), `elapsed` of it is used up.
An attempt whose answer does not arrive before the deadline fails (at the deadline, or at once when it has passed),
the loop cools down and tries again. -/
def loadCtx (fresh : Bool) (timeout cool : Nat) : Nat → List GetTry → Option (List (Nat × Nat))
  | _, [] => none
  | elapsed, g :: rest =>
    let used := if fresh then 0 else elapsed
    if used + g.dur ≤ timeout then some g.kvs
    else loadCtx fresh timeout cool (elapsed + min g.dur (timeout - used) + cool) rest


/-! ### a subscriber is closed while a response is being delivered (handleWatchEvents / handleChanges take
`listeners := append([]UpdateListener(nil), watcher.listeners...)`; Unmonitor shifts `watcher.listeners` in place) -/

/-- the listeners called for ONE event when, during the call of the listener in cell `j`, the listener in cell `i` is
unmonitored.  `copy = true` (the code): the loop ranges over a snapshot taken at the start of the response, the removal
does not touch it.  `copy = false`: the loop ranges over the watcher's own array with its old length; the removal shifts
the cells after `i` one to the left (the last cell keeps its old content), the loop goes on at cell `j + 1`. -/
def calledForEvent (copy : Bool) (ls : List Nat) (j i : Nat) : List Nat :=
  if copy then ls
  else ls.take (j + 1) ++ ((ls.eraseIdx i ++ ls.drop (ls.length - 1)).drop (j + 1)).take (ls.length - (j + 1))

end GoZero.C13
