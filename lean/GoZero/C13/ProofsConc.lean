/-
C13 — invariant of the interleaving model of the container (Conc.lean).
-/
import GoZero.C13.Conc
import GoZero.C13.ProofsCluster
namespace GoZero.C13.Conc
open GoZero.C13

theorem contAt_append (excl : Bool) (log : List LEv) (e : LEv) (n : Nat) (h : n ≤ log.length) :
    contAt excl (log ++ [e]) n = contAt excl log n := by
  unfold contAt
  rw [List.take_append_of_le_length h]

theorem keysAt_append (excl : Bool) (log : List LEv) (e : LEv) (n : Nat) (h : n ≤ log.length) :
    keysAt excl (log ++ [e]) n = keysAt excl log n := by
  unfold keysAt; rw [contAt_append excl log e n h]

theorem contAt_full (excl : Bool) (log : List LEv) :
    contAt excl log log.length = log.foldl (applyL Fix.fixed) (Container.new excl) := by
  unfold contAt; rw [List.take_length]

theorem contAt_snoc (excl : Bool) (log : List LEv) (e : LEv) :
    contAt excl (log ++ [e]) (log.length + 1) = applyL Fix.fixed (contAt excl log log.length) e := by
  have : (log ++ [e]).length = log.length + 1 := by simp
  rw [← this, contAt_full, contAt_full, List.foldl_append]; rfl

def holds (p : PC) : Bool :=
  match p with
  | .wDirty | .wMut | .wUnlock | .rBuild | .rStore | .rClear | .rUnlock => true
  | _ => false

def reading (p : PC) : Bool :=
  match p with
  | .rCheck | .rLoad | .rLock | .rBuild | .rStore | .rClear | .rUnlock | .rDone => true
  | _ => false

structure Inv (excl : Bool) (s : St) : Prop where
  cont : s.cont = contAt excl s.log s.log.length
  snapLe : s.snapIdx ≤ s.log.length
  snapIs : s.snap = keysAt excl s.log s.snapIdx
  clean : s.dirty = false → s.snapIdx = s.log.length
  lockIff : ∀ t, s.lock = some t ↔ holds (s.pc t) = true
  wdirty : ∀ t, (s.pc t = .wMut ∨ s.pc t = .wUnlock) → s.dirty = true
  built : ∀ t, (s.pc t = .rStore ∨ s.pc t = .rClear ∨ s.pc t = .rUnlock) →
            s.idx t = s.log.length ∧ s.vals t = keysAt excl s.log (s.idx t)
  stored : ∀ t, (s.pc t = .rClear ∨ s.pc t = .rUnlock) → s.snapIdx = s.log.length
  fast : ∀ t, s.pc t = .rLoad → s.start t ≤ s.snapIdx
  startLe : ∀ t, reading (s.pc t) = true → s.startDone t ≤ s.start t ∧ s.start t ≤ s.log.length
  doneLe : s.done ≤ s.log.length
  doneLt : ∀ t, s.pc t = .wUnlock → s.done < s.log.length
  result : ∀ t, s.pc t = .rDone → s.start t ≤ s.idx t ∧ s.idx t ≤ s.log.length ∧ s.ret t = keysAt excl s.log (s.idx t)

theorem inv_init (excl : Bool) : Inv excl (init excl) := by
  constructor <;> simp [init, contAt, keysAt, holds, reading, Container.new, Map.keys]


set_option maxHeartbeats 1000000 in
/-- every step of every thread preserves the invariant -/
theorem inv_step (excl : Bool) (s s' : St) (t : Nat) (ch : Choice) (h : Inv excl s) (hs : step s t ch = some s') :
    Inv excl s' := by
  obtain ⟨h1, h2, h3, h4, h5, h6, h7, h8, h9, h10, h11, h12, h13⟩ := h
  unfold step at hs
  split at hs
  all_goals (try split at hs)
  all_goals (try (simp at hs; done))
  all_goals simp only [Option.some.injEq] at hs
  all_goals subst hs
  all_goals constructor
  all_goals simp only [upd]
  all_goals (try simp only [List.length_append, List.length_cons, List.length_nil])
  all_goals (first | (grind [holds, reading]) | (grind [holds, reading, keysAt_append, contAt_snoc, keysAt]))

theorem inv_exec (excl : Bool) (sched : Sched) (s : St) (h : Inv excl s) : Inv excl (exec s sched) := by
  induction sched generalizing s with
  | nil => exact h
  | cons a rest ih =>
    obtain ⟨t, ch⟩ := a
    unfold exec
    cases hs : step s t ch with
    | none => exact ih s h
    | some s' => exact ih s' (inv_step excl s s' t ch h hs)

/-- the log (= the sequence of applied mutations) grows by appending one event at a time -/
theorem log_grows_by_one (s s' : St) (t : Nat) (ch : Choice) (hs : step s t ch = some s') :
    s'.log = s.log ∨ ∃ e, s'.log = s.log ++ [e] := by
  unfold step at hs
  split at hs
  all_goals (try split at hs)
  all_goals (try (simp at hs; done))
  all_goals simp only [Option.some.injEq] at hs
  all_goals subst hs
  all_goals simp

/-- mutual exclusion: two threads never hold the container lock together -/
theorem mutex_of_inv (excl : Bool) (s : St) (h : Inv excl s) (t u : Nat)
    (ht : holds (s.pc t) = true) (hu : holds (s.pc u) = true) : t = u := by
  have a := (h.lockIff t).mpr ht
  have b := (h.lockIff u).mpr hu
  rw [a] at b
  exact Option.some.inj b

/-- the value list built from the first `n` events of the log: exactly the values of the registrations the
subscriber counts after these events (`Reg.applyL`), each once -/
theorem keysAt_spec (excl : Bool) (log : List LEv) (n : Nat) :
    (∀ v, v ∈ keysAt excl log n ↔ ∃ k, ((log.take n).foldl (Spec.Reg.applyL excl) Spec.Reg.empty) k = some v)
    ∧ (keysAt excl log n).Nodup := by
  obtain ⟨h1, h2, _, _, _⟩ := listener_refines (log.take n) (Container.new excl) Spec.Reg.empty (inv_new excl) (fun _ => rfl)
  have h2 : ∀ k, ((log.take n).foldl (applyL Fix.fixed) (Container.new excl)).mapping.get k
      = ((log.take n).foldl (Spec.Reg.applyL excl) Spec.Reg.empty) k := h2
  refine ⟨fun v => ?_, h1.nodupV⟩
  unfold keysAt contAt
  rw [mem_values_keys _ h1 v]
  constructor
  · rintro ⟨k, hk⟩; exact ⟨k, by rw [← h2 k]; exact hk⟩
  · rintro ⟨k, hk⟩; exact ⟨k, by rw [h2 k]; exact hk⟩

end GoZero.C13.Conc
