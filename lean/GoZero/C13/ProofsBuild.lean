import GoZero.C13.BuildConc
namespace GoZero.C13.BuildConc

/-- invariant of the code's order with serialised update() calls -/
def Inv (s : St) : Prop :=
  (1 ≤ s.pc → s.listener = true) ∧ (s.pc = 2 → s.bvals = s.view ∨ s.wneeds = true)
  ∧ (s.pc = 3 → s.pub = some s.view ∨ s.wneeds = true) ∧ s.pc ≤ 3

theorem inv_step (s : St) (a : Act) (h : Inv s) : Inv (step .listenerFirst true s a) := by
  obtain ⟨h1, h2, h3, h4⟩ := h
  cases a with
  | build =>
    simp only [step, buildStep]
    split <;> simp_all [Inv]
  | apply v =>
    simp only [step, Inv]
    refine ⟨h1, fun hp => ?_, fun hp => ?_, h4⟩
    · right; simp [h1 (by omega)]
    · right; simp [h1 (by omega)]
  | wUpdate =>
    simp only [step]
    split
    · rename_i hc
      simp only [inUpdate, Bool.true_and, Bool.and_eq_true, Bool.not_eq_true', beq_eq_false_iff_ne, ne_eq] at hc
      refine ⟨h1, fun hp => absurd hp hc.2, fun _ => Or.inl rfl, h4⟩
    · exact ⟨h1, h2, h3, h4⟩

theorem inv_exec (acts : List Act) (s : St) (h : Inv s) : Inv (exec .listenerFirst true s acts) := by
  induction acts generalizing s with
  | nil => exact h
  | cons a t ih => exact ih _ (inv_step s a h)

end GoZero.C13.BuildConc
