/-
C13 — exclusive subscriber: the counting registrations are live registrations, one key per value.
-/
import GoZero.C13.ProofsCluster
namespace GoZero.C13
open Map Spec

def RInj (r : Reg) : Prop := ∀ k₁ k₂ v, r k₁ = some v → r k₂ = some v → k₁ = k₂

theorem rinj_applyL (r : Reg) (h : RInj r) (l : LEv) : RInj (Reg.applyL true r l) := by
  cases l with
  | add k v =>
    intro k1 k2 w h1 h2
    simp only [Reg.applyL, if_true, Reg.exPut] at h1 h2
    by_cases e1 : k1 = k <;> by_cases e2 : k2 = k
    · rw [e1, e2]
    · exfalso
      simp only [e1, if_true, Option.some.injEq] at h1
      simp only [e2, if_false] at h2
      by_cases hd : r k2 = some v
      · simp [hd] at h2
      · simp only [hd, if_false] at h2
        rw [← h1] at h2; exact hd h2
    · exfalso
      simp only [e2, if_true, Option.some.injEq] at h2
      simp only [e1, if_false] at h1
      by_cases hd : r k1 = some v
      · simp [hd] at h1
      · simp only [hd, if_false] at h1
        rw [← h2] at h1; exact hd h1
    · simp only [e1, if_false] at h1
      simp only [e2, if_false] at h2
      by_cases hd1 : r k1 = some v
      · simp [hd1] at h1
      · by_cases hd2 : r k2 = some v
        · simp [hd2] at h2
        · simp only [hd1, if_false] at h1
          simp only [hd2, if_false] at h2
          exact h k1 k2 w h1 h2
  | del k =>
    intro k1 k2 w h1 h2
    simp only [Reg.applyL, Reg.del] at h1 h2
    by_cases e1 : k1 = k
    · simp [e1] at h1
    · by_cases e2 : k2 = k
      · simp [e2] at h2
      · simp only [e1, if_false] at h1
        simp only [e2, if_false] at h2
        exact h k1 k2 w h1 h2

theorem counting_injective (evs : List Ev) : RInj (Reg.counting evs) := by
  unfold Reg.counting
  have key : ∀ (ls : List LEv) (r : Reg), RInj r → RInj (ls.foldl (Reg.applyL true) r) := by
    intro ls
    induction ls with
    | nil => intro r h; exact h
    | cons l t ih => intro r h; exact ih _ (rinj_applyL r h l)
  exact key _ _ (by intro k1 k2 v h; cases h)

def RSub (c r : Reg) : Prop := ∀ k v, c k = some v → r k = some v

theorem foldl_exPut_origin (adds : List (Nat × Nat)) (c : Reg) (k v : Nat)
    (h : (adds.foldl (fun r kv => Reg.exPut r kv.1 kv.2) c) k = some v) :
    (k, v) ∈ adds ∨ (c k = some v ∧ ∀ v', (k, v') ∉ adds) := by
  induction adds generalizing c with
  | nil => exact Or.inr ⟨h, by simp⟩
  | cons a t ih =>
    simp only [List.foldl_cons] at h
    rcases ih _ h with h1 | ⟨h1, h2⟩
    · exact Or.inl (List.mem_cons_of_mem _ h1)
    · simp only [Reg.exPut] at h1
      by_cases e : k = a.1
      · left
        simp only [e, if_true, Option.some.injEq] at h1
        have : (k, v) = a := by rw [e, ← h1]
        rw [this]; exact List.mem_cons_self
      · right
        simp only [e, if_false] at h1
        by_cases hd : c k = some a.2
        · simp [hd] at h1
        · simp only [hd, if_false] at h1
          refine ⟨h1, ?_⟩
          intro v' hm
          rcases List.mem_cons.mp hm with h3 | h3
          · apply e; rw [← h3]
          · exact h2 v' h3

theorem rsub_step (m : Map Nat) (hm : (Map.keys m).Nodup) (r : Reg) (hr : ∀ k, m.get k = r k)
    (cnt : Reg) (hs : RSub cnt r) (ev : Ev) (hv : ValidEv Fix.fixed m ev) :
    RSub ((emit ev).foldl (Reg.applyL true) cnt) (Reg.apply r ev) := by
  cases ev with
  | put a b =>
    intro k v h
    simp only [emit, List.foldl_cons, List.foldl_nil, Reg.applyL, if_true, Reg.exPut] at h
    simp only [Reg.apply, Reg.put]
    by_cases e : k = a
    · simpa [e] using h
    · simp only [e, if_false] at h ⊢
      by_cases hd : cnt k = some b
      · simp [hd] at h
      · simp only [hd, if_false] at h; exact hs k v h
  | del a =>
    intro k v h
    simp only [emit, List.foldl_cons, List.foldl_nil, Reg.applyL, Reg.del] at h
    simp only [Reg.apply, Reg.del]
    by_cases e : k = a
    · simp [e] at h
    · simp only [e, if_false] at h ⊢; exact hs k v h
  | reload kvs adds rems =>
    obtain ⟨hnew, hnewget⟩ := ofKVs_spec kvs
    obtain ⟨ha, hrm⟩ := hv
    intro k v h
    have hfold : (emit (.reload kvs adds rems)).foldl (Reg.applyL true) cnt
        = rems.foldl Reg.del (adds.foldl (fun r kv => Reg.exPut r kv.1 kv.2) cnt) := by
      unfold emit
      rw [List.foldl_append, List.foldl_map, List.foldl_map]
      rfl
    rw [hfold, foldl_del_get] at h
    show Reg.ofSnapshot kvs k = some v
    rw [← hnewget k]
    by_cases hk : k ∈ rems
    · simp [hk] at h
    · rw [if_neg hk] at h
      rcases foldl_exPut_origin adds cnt k v h with h1 | ⟨h1, h2⟩
      · have := (ha (k, v)).mp h1
        unfold calcAdds at this
        rw [List.mem_filter] at this
        exact (mem_iff_get _ hnew k v).mp this.1
      · have hold : m.get k = some v := by rw [hr k]; exact hs k v h1
        cases hn : (ofKVs kvs).get k with
        | none =>
          exfalso
          apply hk
          apply (hrm k).mpr
          rw [List.mem_map]
          refine ⟨(k, v), ?_, rfl⟩
          simp only [calcRemoves, Fix.fixed, if_true, List.mem_filter, decide_eq_true_eq]
          exact ⟨(mem_iff_get _ hm k v).mpr hold, hn⟩
        | some v' =>
          have hmem : (k, v') ∈ ofKVs kvs := (mem_iff_get _ hnew k v').mpr hn
          have hnot : (k, v') ∉ calcAdds m (ofKVs kvs) := fun h => h2 v' ((ha (k, v')).mpr h)
          unfold calcAdds at hnot
          rw [List.mem_filter] at hnot
          have : ¬ (decide (m.get k ≠ some v') = true) := fun h => hnot ⟨hmem, h⟩
          have : m.get k = some v' := by simpa using this
          rw [hold] at this
          exact this.symm ▸ rfl

theorem counting_sub_registry (evs : List Ev) (hv : ValidHist Fix.fixed [] evs) :
    ∀ k v, Reg.counting evs k = some v → Reg.run evs k = some v := by
  unfold Reg.counting Reg.run
  have key : ∀ (evs : List Ev) (m : Map Nat) (r cnt : Reg), (Map.keys m).Nodup → (∀ k, m.get k = r k) →
      RSub cnt r → ValidHist Fix.fixed m evs →
      RSub ((evs.flatMap emit).foldl (Reg.applyL true) cnt) (evs.foldl Reg.apply r) := by
    intro evs
    induction evs with
    | nil => intro m r cnt _ _ hs _; exact hs
    | cons ev t ih =>
      intro m r cnt hm hr hs hv
      simp only [List.flatMap_cons, List.foldl_append, List.foldl_cons]
      exact ih (stepValues m ev) (Reg.apply r ev) _ (stepValues_nodup m hm ev) (stepValues_get m r hr ev)
        (rsub_step m hm r hr cnt hs ev hv.1) hv.2
  exact key evs [] Reg.empty Reg.empty (by simp [Map.keys]) (fun _ => rfl) (by intro k v h; cases h) hv

end GoZero.C13
