/-
C13 — interleaving model of a listener joining an existing watch (Registry.Monitor, `exists && ok` branch)
while the watch goroutine handles a watch response (cluster.handleWatchEvents).  Core Lean only.

  core/discov/internal/registry.go
    Monitor:            [fixed: c.notifyLock.Lock()]                          jLock
                        watcher.listeners = append(watcher.listeners, l)      jAppend
                        kvs := c.getCurrent(wkey)                             jRead
                        for kv in kvs { l.OnAdd(kv) }  [fixed: Unlock]        jReplay     (l is fresh: its registrations become kvs)
    handleWatchEvents:  [fixed: c.notifyLock.Lock()]                          wStart
                        listeners := copy of watcher.listeners                wCopy
                        for ev in events {
                          watcher.values[k] = v / delete(watcher.values, k)   wMutate
                          for l in listeners { l.OnAdd / l.OnDelete }         wDeliver
                        }              [fixed: c.notifyLock.Unlock()]

`fx = false` is the code before fixes/C13-late-join-atomic.patch (no notifyLock): a listener that joins after
`wCopy` is not told the remaining events of the response, and those applied after its `jRead` are in neither
its replay nor its deliveries.  Registrations are functions key ↦ value (`Spec.Reg`); listeners are ordinary
subscribers (their registrations are their `container.mapping`, Props.mapping_is_registry).
-/
import GoZero.C13.Spec
namespace GoZero.C13.ConcJoin
open GoZero.C13 GoZero.C13.Spec

inductive Holder where
  | free | watch | joiner (l : Nat)
  deriving DecidableEq, Repr

inductive WPC where
  | idle | copy | loop | deliver (e : LEv)
  deriving DecidableEq, Repr

inductive JPC where
  | out | append | read | replay | joined
  deriving DecidableEq, Repr

def upd {α : Type} (f : Nat → α) (i : Nat) (x : α) : Nat → α := fun j => if j = i then x else f j

structure St where
  nlock     : Holder := .free
  values    : Reg := Reg.empty                 -- watcher.values
  listeners : Nat → Bool := fun _ => false     -- watcher.listeners (as a set of listener ids)
  view      : Nat → Reg := fun _ => Reg.empty  -- the registrations each listener holds
  wpc       : WPC := .idle
  wls       : Nat → Bool := fun _ => false     -- handleWatchEvents' copy of the listeners
  batch     : List LEv := []                   -- events of the response still to handle
  jpc       : Nat → JPC := fun _ => .out
  jcur      : Nat → Reg := fun _ => Reg.empty  -- what getCurrent returned to the joiner

inductive Act where
  | watch (batch : List LEv)    -- the watch goroutine moves (the batch is consulted when it is idle: a new response)
  | join (l : Nat)              -- the goroutine in Monitor(…, l) moves

def step (fx : Bool) (s : St) : Act → Option St
  | .watch b =>
    match s.wpc with
    | .idle =>
      if fx then (if s.nlock = .free then some { s with nlock := .watch, wpc := .copy, batch := b } else none)
      else some { s with wpc := .copy, batch := b }
    | .copy => some { s with wls := s.listeners, wpc := .loop }
    | .loop =>
      match s.batch with
      | [] => some { s with wpc := .idle, nlock := if fx then .free else s.nlock }
      | e :: rest => some { s with values := Reg.applyL false s.values e, batch := rest, wpc := .deliver e }
    | .deliver e =>
      some { s with view := fun l => if s.wls l then Reg.applyL false (s.view l) e else s.view l, wpc := .loop }
  | .join l =>
    match s.jpc l with
    | .out =>
      if fx then (if s.nlock = .free then some { s with nlock := .joiner l, jpc := upd s.jpc l .append } else none)
      else some { s with jpc := upd s.jpc l .append }
    | .append => some { s with listeners := upd s.listeners l true, jpc := upd s.jpc l .read }
    | .read => some { s with jcur := upd s.jcur l s.values, jpc := upd s.jpc l .replay }
    | .replay => some { s with view := upd s.view l (s.jcur l), jpc := upd s.jpc l .joined,
                               nlock := if fx then .free else s.nlock }
    | .joined => none

def exec (fx : Bool) (s : St) : List Act → St
  | [] => s
  | a :: rest => exec fx ((step fx s a).getD s) rest

end GoZero.C13.ConcJoin
