/-
C13 — publisher (register / revoke) and etcd's lease store: helper lemmas.
-/
import GoZero.C13.ProofsCluster
namespace GoZero.C13
open Map Spec

theorem validHist_append (fx : Fix) (evs : List Ev) (ev : Ev) (m : Map Nat) :
    ValidHist fx m (evs ++ [ev]) ↔ ValidHist fx m evs ∧ ValidEv fx (evs.foldl stepValues m) ev := by
  induction evs generalizing m with
  | nil => simp [ValidHist]
  | cons e t ih => simp [ValidHist, ih, and_assoc]

theorem validHist_append_dels (fx : Fix) (evs : List Ev) (ks : List Nat) (m : Map Nat) :
    ValidHist fx m (evs ++ ks.map .del) ↔ ValidHist fx m evs := by
  induction ks generalizing evs with
  | nil => simp
  | cons k t ih =>
    have : evs ++ (k :: t).map Ev.del = (evs ++ [.del k]) ++ t.map .del := by simp
    rw [this, ih, validHist_append]
    simp [ValidEv]

theorem regrun_append_dels (evs : List Ev) (ks : List Nat) (k : Nat) :
    Reg.run (evs ++ ks.map .del) k = if k ∈ ks then none else Reg.run evs k := by
  unfold Reg.run
  rw [List.foldl_append, List.foldl_map]
  exact foldl_del_get ks _ k

theorem mem_revokedKeys (s : Store) (lease k : Nat) :
    k ∈ revokedKeys s lease ↔ ∃ v, (k, (v, lease)) ∈ s := by
  unfold revokedKeys
  simp only [List.mem_map, List.mem_filter, decide_eq_true_eq]
  constructor
  · rintro ⟨⟨k', v, l⟩, ⟨hm, hl⟩, rfl⟩
    simp only at hl
    exact ⟨v, by rw [← hl]; exact hm⟩
  · rintro ⟨v, hm⟩
    exact ⟨(k, (v, lease)), ⟨hm, rfl⟩, rfl⟩

theorem mem_storeRevoke (s : Store) (lease : Nat) (e : Nat × Nat × Nat) :
    e ∈ storeRevoke s lease ↔ e ∈ s ∧ e.2.2 ≠ lease := by
  unfold storeRevoke
  simp [List.mem_filter]

end GoZero.C13
