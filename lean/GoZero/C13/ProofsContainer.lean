/-
C13 — the container (core/discov/subscriber.go, with the fix): invariant and effect of addKv / removeKey.
-/
import GoZero.C13.ProofsMap
namespace GoZero.C13
open Map

/-- the keys currently listed under value `v` -/
def keysOf (c : Container) (v : Nat) : List Nat := (c.values.get v).getD []

/-- consistency of the two maps of the container -/
structure Inv (c : Container) : Prop where
  /-- no value is kept with an empty key list -/
  nonempty : ∀ v, c.values.get v ≠ some []
  /-- `values` is exactly the inverse of `mapping` -/
  attach : ∀ v k, k ∈ keysOf c v ↔ c.mapping.get k = some v
  /-- exclusive: at most one key per value -/
  excl1 : c.exclusive = true → ∀ v, (keysOf c v).length ≤ 1
  nodupV : (Map.keys c.values).Nodup

theorem inv_new (e : Bool) : Inv (Container.new e) :=
  ⟨by intro v; simp [Container.new], by intro v k; simp [keysOf, Container.new],
   by intro _ v; simp [keysOf, Container.new], by simp [Container.new, Map.keys]⟩

theorem values_update (vs : Map (List Nat)) (server : Nat) (remain : List Nat) (v : Nat) :
    ((if remain.isEmpty then vs.erase server else vs.set server remain).get v).getD []
      = if v = server then remain else (vs.get v).getD [] := by
  by_cases hr : remain.isEmpty
  · have : remain = [] := List.isEmpty_iff.mp hr
    rw [if_pos hr, get_erase]
    by_cases h : v = server <;> simp [h, this]
  · rw [if_neg hr, get_set]
    by_cases h : v = server <;> simp [h]

theorem values_update_nonempty (vs : Map (List Nat)) (h : ∀ v, vs.get v ≠ some []) (server : Nat)
    (remain : List Nat) (v : Nat) :
    (if remain.isEmpty then vs.erase server else vs.set server remain).get v ≠ some [] := by
  by_cases hr : remain.isEmpty
  · rw [if_pos hr, get_erase]
    by_cases h' : v = server
    · simp [h']
    · simp only [h', if_false]; exact h v
  · rw [if_neg hr, get_set]
    by_cases h' : v = server
    · simp only [h', if_true, ne_eq, Option.some.injEq]
      intro he; rw [he] at hr; simp at hr
    · simp only [h', if_false]; exact h v

theorem values_update_nodup (vs : Map (List Nat)) (h : (Map.keys vs).Nodup) (server : Nat) (remain : List Nat) :
    (Map.keys (if remain.isEmpty then vs.erase server else vs.set server remain)).Nodup := by
  by_cases hr : remain.isEmpty
  · rw [if_pos hr]; exact nodup_keys_erase _ _ h
  · rw [if_neg hr]; exact nodup_keys_set _ _ _ h

theorem doRemoveKey_none (c : Container) (key : Nat) (h : c.mapping.get key = none) :
    doRemoveKey c key = c := by
  unfold doRemoveKey; rw [h]

theorem doRemoveKey_some (c : Container) (key server : Nat) (h : c.mapping.get key = some server) :
    doRemoveKey c key =
      { c with
        mapping := c.mapping.erase key
        values := if ((keysOf c server).filter (· ≠ key)).isEmpty then c.values.erase server
                  else c.values.set server ((keysOf c server).filter (· ≠ key)) } := by
  unfold doRemoveKey keysOf; rw [h]

/-- `doRemoveKey`: the key loses its value, nothing else changes -/
theorem doRemoveKey_inv (c : Container) (key : Nat) (hi : Inv c) :
    Inv (doRemoveKey c key)
    ∧ (∀ k', (doRemoveKey c key).mapping.get k' = if k' = key then none else c.mapping.get k')
    ∧ (∀ v, keysOf (doRemoveKey c key) v = (keysOf c v).filter (· ≠ key))
    ∧ (doRemoveKey c key).exclusive = c.exclusive
    ∧ (doRemoveKey c key).notified = c.notified
    ∧ (doRemoveKey c key).dirty = c.dirty := by
  cases hm : c.mapping.get key with
  | none =>
    rw [doRemoveKey_none c key hm]
    refine ⟨hi, ?_, ?_, rfl, rfl, rfl⟩
    · intro k'; by_cases h : k' = key
      · simp [h, hm]
      · simp [h]
    · intro v
      symm
      rw [List.filter_eq_self]
      intro a ha
      have := (hi.attach v a).mp ha
      simp only [ne_eq, decide_eq_true_eq]
      intro hak; rw [hak, hm] at this; cases this
  | some server =>
    rw [doRemoveKey_some c key server hm]
    have hk : ∀ v, keysOf { c with
        mapping := c.mapping.erase key
        values := if ((keysOf c server).filter (· ≠ key)).isEmpty then c.values.erase server
                  else c.values.set server ((keysOf c server).filter (· ≠ key)) } v
          = (keysOf c v).filter (· ≠ key) := by
      intro v
      show ((if ((keysOf c server).filter (· ≠ key)).isEmpty then c.values.erase server
                  else c.values.set server ((keysOf c server).filter (· ≠ key))).get v).getD [] = _
      rw [values_update]
      by_cases h : v = server
      · simp [h]
      · simp only [h, if_false]
        symm
        show (keysOf c v).filter _ = keysOf c v
        rw [List.filter_eq_self]
        intro a ha
        have := (hi.attach v a).mp ha
        simp only [ne_eq, decide_eq_true_eq]
        intro hak; rw [hak, hm] at this
        exact h (Option.some.inj this).symm
    have hmm : ∀ k', (c.mapping.erase key).get k' = if k' = key then none else c.mapping.get k' :=
      fun k' => get_erase _ _ _
    refine ⟨⟨?_, ?_, ?_, ?_⟩, hmm, hk, rfl, rfl, rfl⟩
    · intro v; exact values_update_nonempty _ hi.nonempty _ _ _
    · intro v k
      rw [hk v]
      show _ ↔ (c.mapping.erase key).get k = some v
      rw [hmm k, List.mem_filter, hi.attach v k]
      by_cases h : k = key <;> simp [h]
    · intro he v
      rw [hk v]
      exact Nat.le_trans (List.length_filter_le _ _) (hi.excl1 he v)
    · exact values_update_nodup _ hi.nodupV _ _

theorem exclLoop_single (value : Nat) (c : Container) (a : Nat) :
    exclLoop value c [a] = doRemoveKey c a := rfl

/-- the last two statements of `addKv` -/
theorem attach_inv (c : Container) (k v : Nat) (hi : Inv c) (hk : c.mapping.get k = none)
    (he : c.exclusive = true → keysOf c v = []) :
    Inv { c with values := c.values.set v (keysOf c v ++ [k]), mapping := c.mapping.set k v } := by
  have hko : ∀ w, keysOf { c with values := c.values.set v (keysOf c v ++ [k]), mapping := c.mapping.set k v } w
      = if w = v then keysOf c v ++ [k] else keysOf c w := by
    intro w
    show ((c.values.set v (keysOf c v ++ [k])).get w).getD [] = _
    rw [get_set]
    by_cases h : w = v <;> simp [h, keysOf]
  refine ⟨?_, ?_, ?_, ?_⟩
  · intro w
    show (c.values.set v (keysOf c v ++ [k])).get w ≠ some []
    rw [get_set]
    by_cases h : w = v
    · simp [h]
    · simp only [h, if_false]; exact hi.nonempty w
  · intro w k'
    rw [hko w]
    show _ ↔ (c.mapping.set k v).get k' = some w
    rw [get_set]
    by_cases hw : w = v
    · subst hw
      simp only [if_true, List.mem_append, List.mem_singleton, hi.attach w k']
      by_cases hk' : k' = k
      · simp [hk']
      · simp [hk']
    · simp only [hw, if_false, hi.attach w k']
      by_cases hk' : k' = k
      · subst hk'
        simp only [if_true, hk, Option.some.injEq]
        constructor
        · intro h; cases h
        · intro h; exact absurd h.symm hw
      · simp [hk']
  · intro hex w
    rw [hko w]
    by_cases hw : w = v
    · simp only [hw, if_true]
      rw [he hex]; simp
    · simp only [hw, if_false]; exact hi.excl1 hex w
  · exact nodup_keys_set _ _ _ hi.nodupV

/-- **`addKv` (fixed code)**: the key now carries the value; for an exclusive container every other key
of that value is displaced; nothing else changes. -/
theorem addKv_inv (c : Container) (k v : Nat) (hi : Inv c) :
    Inv (addKv Fix.fixed c k v)
    ∧ (∀ k', (addKv Fix.fixed c k v).mapping.get k' =
        if k' = k then some v
        else if c.exclusive = true ∧ c.mapping.get k' = some v then none else c.mapping.get k')
    ∧ (addKv Fix.fixed c k v).exclusive = c.exclusive
    ∧ (addKv Fix.fixed c k v).notified = c.notified
    ∧ (addKv Fix.fixed c k v).dirty = true := by
  have hi0 : Inv { c with dirty := true } := ⟨hi.nonempty, hi.attach, hi.excl1, hi.nodupV⟩
  obtain ⟨hi1, hm1, hk1, he1, hn1, hd1⟩ := doRemoveKey_inv { c with dirty := true } k hi0
  generalize hc1 : doRemoveKey { c with dirty := true } k = c1 at hi1 hm1 hk1 he1 hn1 hd1
  have hm1' : ∀ k', c1.mapping.get k' = if k' = k then none else c.mapping.get k' := hm1
  have he1' : c1.exclusive = c.exclusive := he1
  have hn1' : c1.notified = c.notified := hn1
  have hd1' : c1.dirty = true := hd1
  have hunf : addKv Fix.fixed c k v =
      (let c2 := if c1.exclusive && !(keysOf c1 v).isEmpty then exclLoop v c1 (keysOf c1 v) else c1
       { c2 with values := c2.values.set v (keysOf c2 v ++ [k]), mapping := c2.mapping.set k v }) := by
    unfold addKv keysOf
    simp only [Fix.fixed, if_true, hc1]
  rw [hunf]
  by_cases hcond : (c1.exclusive && !(keysOf c1 v).isEmpty) = true
  · -- exclusive, the value has a key already: it is displaced
    simp only [hcond, if_true]
    have hex : c1.exclusive = true := by
      simp only [Bool.and_eq_true] at hcond; exact hcond.1
    have hne : (keysOf c1 v) ≠ [] := by
      simp only [Bool.and_eq_true, Bool.not_eq_true', List.isEmpty_eq_false_iff] at hcond; exact hcond.2
    have hlen := hi1.excl1 hex v
    obtain ⟨a, ha⟩ : ∃ a, keysOf c1 v = [a] := by
      cases hkk : keysOf c1 v with
      | nil => exact absurd hkk hne
      | cons a t =>
        rw [hkk] at hlen
        cases t with
        | nil => exact ⟨a, rfl⟩
        | cons b t' => simp at hlen
    rw [ha, exclLoop_single]
    obtain ⟨hi2, hm2, hk2, he2, hn2, hd2⟩ := doRemoveKey_inv c1 a hi1
    generalize doRemoveKey c1 a = c2 at hi2 hm2 hk2 he2 hn2 hd2
    have hav : c1.mapping.get a = some v := (hi1.attach v a).mp (by rw [ha]; simp)
    have hak : a ≠ k := by
      intro h; rw [h, hm1'] at hav; simp at hav
    have hk2none : c2.mapping.get k = none := by
      rw [hm2, hm1']; simp
    have hk2v : keysOf c2 v = [] := by
      rw [hk2, ha]; simp
    refine ⟨attach_inv c2 k v hi2 hk2none (fun _ => hk2v), ?_, ?_, ?_, ?_⟩
    · intro k'
      show (c2.mapping.set k v).get k' = _
      rw [get_set]
      by_cases hk' : k' = k
      · simp [hk']
      · simp only [hk', if_false, hm2, hm1']
        have hexc : c.exclusive = true := by rw [← he1']; exact hex
        have hiff : c.mapping.get k' = some v ↔ k' = a := by
          have := hi1.attach v k'
          rw [ha, hm1'] at this
          simp only [hk', if_false, List.mem_singleton] at this
          exact this.symm
        by_cases hka : k' = a
        · have hv := hiff.mpr hka
          rw [if_pos hka, if_pos ⟨hexc, hv⟩]
        · have : ¬ c.mapping.get k' = some v := fun h => hka (hiff.mp h)
          rw [if_neg hka, if_neg (fun h => this h.2)]
    · show c2.exclusive = _; rw [he2, he1']
    · show c2.notified = _; rw [hn2, hn1']
    · show c2.dirty = _; rw [hd2, hd1']
  · -- ordinary container, or no key listed under the value yet
    have hcond' : (c1.exclusive && !(keysOf c1 v).isEmpty) = false := Bool.eq_false_iff.mpr hcond
    simp only [hcond', Bool.false_eq_true, if_false]
    have hk1none : c1.mapping.get k = none := by rw [hm1']; simp
    have hempty : c1.exclusive = true → keysOf c1 v = [] := by
      intro hex
      rw [hex] at hcond'
      simpa using hcond'
    refine ⟨attach_inv c1 k v hi1 hk1none hempty, ?_, he1', hn1', hd1'⟩
    intro k'
    show (c1.mapping.set k v).get k' = _
    rw [get_set]
    by_cases hk' : k' = k
    · simp [hk']
    · simp only [hk', if_false, hm1']
      by_cases hexc : c.exclusive = true
      · have h0 := hempty (by rw [he1']; exact hexc)
        have : ¬ c.mapping.get k' = some v := by
          intro h
          have := (hi1.attach v k').mpr (by rw [hm1']; simp [hk', h])
          rw [h0] at this; cases this
        simp [this]
      · simp [hexc]

/-- **`removeKey`** -/
theorem removeKey_inv (c : Container) (k : Nat) (hi : Inv c) :
    Inv (removeKey c k)
    ∧ (∀ k', (removeKey c k).mapping.get k' = if k' = k then none else c.mapping.get k')
    ∧ (removeKey c k).exclusive = c.exclusive
    ∧ (removeKey c k).notified = c.notified
    ∧ (removeKey c k).dirty = true := by
  have hi0 : Inv { c with dirty := true } := ⟨hi.nonempty, hi.attach, hi.excl1, hi.nodupV⟩
  obtain ⟨h1, h2, _, h4, h5, h6⟩ := doRemoveKey_inv { c with dirty := true } k hi0
  exact ⟨h1, h2, h4, h5, h6⟩

/-- what `Values()` shows is determined by `mapping`: the values that some key carries -/
theorem mem_values_keys (c : Container) (hi : Inv c) (v : Nat) :
    v ∈ Map.keys c.values ↔ ∃ k, c.mapping.get k = some v := by
  rw [mem_keys_iff]
  constructor
  · intro h
    cases hv : c.values.get v with
    | none => exact absurd hv h
    | some ks =>
      cases ks with
      | nil => exact absurd hv (hi.nonempty v)
      | cons a t =>
        refine ⟨a, (hi.attach v a).mp ?_⟩
        simp [keysOf, hv]
  · rintro ⟨k, hk⟩
    have := (hi.attach v k).mpr hk
    intro hn
    simp [keysOf, hn] at this

end GoZero.C13
