/-
C13 — the subscriber as a whole: listener-level refinement, the reload diff, notifications.
-/
import GoZero.C13.ProofsContainer
import GoZero.C13.Spec
namespace GoZero.C13
open Map Spec

/-- coherent cache: a clean snapshot is the current value list -/
def Coh (c : Container) : Prop := c.dirty = false → c.snapshot = Map.keys c.values

/-- one listener event: the container follows the abstract registrations -/
theorem applyL_refines (c : Container) (r : Reg) (l : LEv) (hi : Inv c) (hr : ∀ k, c.mapping.get k = r k) :
    Inv (applyL Fix.fixed c l)
    ∧ (∀ k, (applyL Fix.fixed c l).mapping.get k = (Reg.applyL c.exclusive r l) k)
    ∧ (applyL Fix.fixed c l).exclusive = c.exclusive
    ∧ (applyL Fix.fixed c l).notified = c.notified + 1
    ∧ (applyL Fix.fixed c l).dirty = true := by
  cases l with
  | add k v =>
    obtain ⟨h1, h2, h3, h4, h5⟩ := addKv_inv c k v hi
    refine ⟨⟨h1.nonempty, h1.attach, h1.excl1, h1.nodupV⟩, ?_, h3, ?_, h5⟩
    · intro k'
      show (addKv Fix.fixed c k v).mapping.get k' = _
      rw [h2 k']
      cases he : c.exclusive
      · simp [Reg.applyL, Reg.put, hr]
      · simp [Reg.applyL, Reg.exPut, hr]
    · show (addKv Fix.fixed c k v).notified + 1 = _; rw [h4]
  | del k =>
    obtain ⟨h1, h2, h3, h4, h5⟩ := removeKey_inv c k hi
    refine ⟨⟨h1.nonempty, h1.attach, h1.excl1, h1.nodupV⟩, ?_, h3, ?_, h5⟩
    · intro k'
      show (removeKey c k).mapping.get k' = _
      rw [h2 k']; simp [Reg.applyL, Reg.del, hr]
    · show (removeKey c k).notified + 1 = _; rw [h4]

/-- **container refinement**: after any sequence of OnAdd / OnDelete the container is consistent and its
`mapping` is the abstract (counting) registration function. -/
theorem listener_refines (ls : List LEv) (c : Container) (r : Reg) (hi : Inv c)
    (hr : ∀ k, c.mapping.get k = r k) :
    Inv (ls.foldl (applyL Fix.fixed) c)
    ∧ (∀ k, (ls.foldl (applyL Fix.fixed) c).mapping.get k = (ls.foldl (Reg.applyL c.exclusive) r) k)
    ∧ (ls.foldl (applyL Fix.fixed) c).exclusive = c.exclusive
    ∧ (ls.foldl (applyL Fix.fixed) c).notified = c.notified + ls.length
    ∧ (ls ≠ [] → (ls.foldl (applyL Fix.fixed) c).dirty = true) := by
  induction ls generalizing c r with
  | nil => exact ⟨hi, hr, rfl, rfl, fun h => absurd rfl h⟩
  | cons l t ih =>
    obtain ⟨h1, h2, h3, h4, h5⟩ := applyL_refines c r l hi hr
    obtain ⟨g1, g2, g3, g4, g5⟩ := ih (applyL Fix.fixed c l) (Reg.applyL c.exclusive r l) h1 h2
    simp only [List.foldl_cons]
    refine ⟨g1, ?_, by rw [g3, h3], by rw [g4, h4, List.length_cons]; omega, ?_⟩
    · intro k; rw [g2 k, h3]
    · intro _
      cases t with
      | nil => exact h5
      | cons a b => exact g5 (by simp)

/-- `Values()` of a consistent, coherent container: exactly the values some key carries, each once -/
theorem view_spec (c : Container) (hi : Inv c) (hc : Coh c) (v : Nat) :
    (v ∈ view c ↔ ∃ k, c.mapping.get k = some v) ∧ (view c).Nodup := by
  have hv : view c = Map.keys c.values := by
    unfold view getValues
    cases hd : c.dirty
    · simp [hc hd]
    · simp
  rw [hv]
  exact ⟨mem_values_keys c hi v, hi.nodupV⟩

/-! ### the reload diff -/

open Classical in
theorem foldl_put_get (new : Reg) (adds : List (Nat × Nat)) (h : ∀ kv ∈ adds, new kv.1 = some kv.2)
    (r : Reg) (k : Nat) :
    (adds.foldl (fun r kv => Reg.put r kv.1 kv.2) r) k = if (∃ v, (k, v) ∈ adds) then new k else r k := by
  induction adds generalizing r with
  | nil => simp
  | cons a t ih =>
    simp only [List.foldl_cons]
    rw [ih (fun kv hkv => h kv (List.mem_cons_of_mem _ hkv))]
    by_cases ht : ∃ v, (k, v) ∈ t
    · obtain ⟨v, hv⟩ := ht
      have : ∃ v, (k, v) ∈ a :: t := ⟨v, List.mem_cons_of_mem _ hv⟩
      rw [if_pos ⟨v, hv⟩, if_pos this]
    · rw [if_neg ht]
      by_cases hka : k = a.1
      · have : ∃ v, (k, v) ∈ a :: t := ⟨a.2, by rw [hka]; exact List.mem_cons_self⟩
        rw [if_pos this]
        have := h a List.mem_cons_self
        simp [Reg.put, hka, this]
      · have : ¬ ∃ v, (k, v) ∈ a :: t := by
          rintro ⟨v, hv⟩
          rcases List.mem_cons.mp hv with h1 | h1
          · apply hka; rw [← h1]
          · exact ht ⟨v, h1⟩
        rw [if_neg this]
        simp [Reg.put, hka]

theorem foldl_del_get (rems : List Nat) (r : Reg) (k : Nat) :
    (rems.foldl Reg.del r) k = if k ∈ rems then none else r k := by
  induction rems generalizing r with
  | nil => simp
  | cons a t ih =>
    simp only [List.foldl_cons]
    rw [ih]
    by_cases ht : k ∈ t
    · simp [ht]
    · by_cases hka : k = a
      · simp [ht, hka, Reg.del]
      · simp [ht, hka, Reg.del]

theorem ofKVs_spec (kvs : List (Nat × Nat)) :
    (Map.keys (ofKVs kvs)).Nodup ∧ ∀ k, (ofKVs kvs).get k = Reg.ofSnapshot kvs k := by
  unfold ofKVs Reg.ofSnapshot
  have key : ∀ (m : Map Nat) (r : Reg), (Map.keys m).Nodup → (∀ k, m.get k = r k) →
      (Map.keys (kvs.foldl (fun m kv => m.set kv.1 kv.2) m)).Nodup ∧
      ∀ k, (kvs.foldl (fun m kv => m.set kv.1 kv.2) m).get k = (kvs.foldl (fun r kv => Reg.put r kv.1 kv.2) r) k := by
    induction kvs with
    | nil => intro m r h1 h2; exact ⟨h1, h2⟩
    | cons a t ih =>
      intro m r h1 h2
      simp only [List.foldl_cons]
      apply ih
      · exact nodup_keys_set _ _ _ h1
      · intro k; rw [get_set]; simp [Reg.put, h2]
  exact key [] Reg.empty (by simp [Map.keys]) (by intro k; rfl)

/-- **the reload diff is exact**: applying `calculateChanges`' additions and then its removals (fixed code),
in whatever order Go ranged over the two maps, turns the old registry into the snapshot. -/
theorem reload_diff_exact (old : Map Nat) (hold : (Map.keys old).Nodup) (kvs adds : List (Nat × Nat))
    (rems : List Nat) (hv : ValidEv Fix.fixed old (.reload kvs adds rems)) (r : Reg)
    (hr : ∀ k, old.get k = r k) (k : Nat) :
    ((Ev.reload kvs adds rems |> emit).foldl (Reg.applyL false) r) k = Reg.ofSnapshot kvs k := by
  obtain ⟨hnew, hnewget⟩ := ofKVs_spec kvs
  obtain ⟨ha, hrm⟩ := hv
  -- the listener events: puts for `adds`, then dels for `rems`
  have hfold : (emit (.reload kvs adds rems)).foldl (Reg.applyL false) r
      = rems.foldl Reg.del (adds.foldl (fun r kv => Reg.put r kv.1 kv.2) r) := by
    unfold emit
    rw [List.foldl_append, List.foldl_map, List.foldl_map]
    rfl
  rw [hfold, foldl_del_get]
  have hadds : ∀ kv ∈ adds, (fun k => (ofKVs kvs).get k) kv.1 = some kv.2 := by
    intro kv hkv
    have := (ha kv).mp hkv
    unfold calcAdds at this
    rw [List.mem_filter] at this
    exact (mem_iff_get _ hnew kv.1 kv.2).mp this.1
  rw [foldl_put_get (fun k => (ofKVs kvs).get k) adds hadds]
  rw [← hnewget k]
  by_cases hk : k ∈ rems
  · rw [if_pos hk]
    have := (hrm k).mp hk
    rw [List.mem_map] at this
    obtain ⟨p, hp, hpk⟩ := this
    simp only [calcRemoves, Fix.fixed, if_true, List.mem_filter, decide_eq_true_eq] at hp
    rw [← hpk]; exact hp.2.symm
  · rw [if_neg hk]
    by_cases hex : ∃ v, (k, v) ∈ adds
    · rw [if_pos hex]
    · rw [if_neg hex, ← hr k]
      cases hn : (ofKVs kvs).get k with
      | some v =>
        have hmem : (k, v) ∈ ofKVs kvs := (mem_iff_get _ hnew k v).mpr hn
        have hnot : (k, v) ∉ calcAdds old (ofKVs kvs) := fun h => hex ⟨v, (ha (k, v)).mpr h⟩
        unfold calcAdds at hnot
        rw [List.mem_filter] at hnot
        have : ¬ (decide (old.get k ≠ some v) = true) := fun h => hnot ⟨hmem, h⟩
        simpa using this
      | none =>
        cases ho : old.get k with
        | none => rfl
        | some v =>
          exfalso
          apply hk
          apply (hrm k).mpr
          rw [List.mem_map]
          refine ⟨(k, v), ?_, rfl⟩
          simp only [calcRemoves, Fix.fixed, if_true, List.mem_filter, decide_eq_true_eq]
          exact ⟨(mem_iff_get _ hold k v).mpr ho, hn⟩

theorem stepValues_nodup (m : Map Nat) (h : (Map.keys m).Nodup) (ev : Ev) :
    (Map.keys (stepValues m ev)).Nodup := by
  cases ev with
  | put k v => exact nodup_keys_set _ _ _ h
  | del k => exact nodup_keys_erase _ _ h
  | reload kvs _ _ => exact (ofKVs_spec kvs).1

theorem stepValues_get (m : Map Nat) (r : Reg) (hr : ∀ k, m.get k = r k) (ev : Ev) (k : Nat) :
    (stepValues m ev).get k = (Reg.apply r ev) k := by
  cases ev with
  | put a v => simp [stepValues, Reg.apply, Reg.put, get_set, hr]
  | del a => simp [stepValues, Reg.apply, Reg.del, get_erase, hr]
  | reload kvs _ _ => exact (ofKVs_spec kvs).2 k

/-- one registry event, ordinary subscriber: the listener events it causes move the registrations exactly
like the registry itself -/
theorem emit_exact (m : Map Nat) (hm : (Map.keys m).Nodup) (r : Reg) (hr : ∀ k, m.get k = r k) (ev : Ev)
    (hv : ValidEv Fix.fixed m ev) (k : Nat) :
    ((emit ev).foldl (Reg.applyL false) r) k = (Reg.apply r ev) k := by
  cases ev with
  | put a v => simp [emit, Reg.applyL, Reg.apply]
  | del a => simp [emit, Reg.applyL, Reg.apply]
  | reload kvs adds rems => exact reload_diff_exact m hm kvs adds rems hv r hr k

theorem foldl_applyL_congr (excl : Bool) (ls : List LEv) (r r' : Reg) (h : ∀ k, r k = r' k) (k : Nat) :
    (ls.foldl (Reg.applyL excl) r) k = (ls.foldl (Reg.applyL excl) r') k := by
  have : r = r' := funext h
  rw [this]

/-- the cluster after a history, split into what matters -/
theorem run_facts (excl : Bool) (evs : List Ev) (cl : Cluster) (r cnt : Reg)
    (hi : Inv cl.cont) (hex : cl.cont.exclusive = excl)
    (hm : (Map.keys cl.values).Nodup) (hr : ∀ k, cl.values.get k = r k)
    (hc : ∀ k, cl.cont.mapping.get k = cnt k) :
    let cl' := evs.foldl (step Fix.fixed) cl
    Inv cl'.cont ∧ cl'.cont.exclusive = excl ∧ (Map.keys cl'.values).Nodup
    ∧ (∀ k, cl'.values.get k = (evs.foldl Reg.apply r) k)
    ∧ (∀ k, cl'.cont.mapping.get k = ((evs.flatMap emit).foldl (Reg.applyL excl) cnt) k)
    ∧ cl'.cont.notified = cl.cont.notified + (evs.flatMap emit).length
    ∧ (evs.flatMap emit ≠ [] → cl'.cont.dirty = true)
    ∧ (evs.flatMap emit = [] → cl'.cont = cl.cont) := by
  induction evs generalizing cl r cnt with
  | nil => exact ⟨hi, hex, hm, hr, hc, rfl, fun h => absurd rfl h, fun _ => rfl⟩
  | cons ev t ih =>
    obtain ⟨h1, h2, h3, h4, h5⟩ := listener_refines (emit ev) cl.cont cnt hi hc
    have := ih (step Fix.fixed cl ev) (Reg.apply r ev) ((emit ev).foldl (Reg.applyL excl) cnt)
      h1 (by show ((emit ev).foldl (applyL Fix.fixed) cl.cont).exclusive = excl; rw [h3, hex])
      (stepValues_nodup _ hm ev) (stepValues_get _ r hr ev)
      (by intro k; show ((emit ev).foldl (applyL Fix.fixed) cl.cont).mapping.get k = _; rw [h2 k, hex])
    obtain ⟨g1, g2, g3, g4, g5, g6, g7, g8⟩ := this
    simp only [List.foldl_cons, List.flatMap_cons, List.foldl_append, List.length_append]
    refine ⟨g1, g2, g3, g4, g5, ?_, ?_, ?_⟩
    · rw [g6]
      show ((emit ev).foldl (applyL Fix.fixed) cl.cont).notified + _ = _
      rw [h4]; omega
    · intro hne
      by_cases ht : t.flatMap emit = []
      · rw [g8 ht]
        apply h5
        intro he; apply hne; rw [he, ht]; rfl
      · exact g7 ht
    · intro he
      have he' := List.append_eq_nil_iff.mp he
      rw [g8 he'.2]
      show (emit ev).foldl (applyL Fix.fixed) cl.cont = cl.cont
      rw [he'.1]; rfl

/-- ordinary subscriber: the listener stream of a valid history reproduces the registry -/
theorem stream_exact (evs : List Ev) (m : Map Nat) (hm : (Map.keys m).Nodup) (r : Reg)
    (hr : ∀ k, m.get k = r k) (hv : ValidHist Fix.fixed m evs) (k : Nat) :
    ((evs.flatMap emit).foldl (Reg.applyL false) r) k = (evs.foldl Reg.apply r) k := by
  induction evs generalizing m r with
  | nil => rfl
  | cons ev t ih =>
    simp only [List.flatMap_cons, List.foldl_append, List.foldl_cons]
    obtain ⟨hv1, hv2⟩ := hv
    have h1 := emit_exact m hm r hr ev hv1
    rw [foldl_applyL_congr false _ _ _ h1]
    exact ih (stepValues m ev) (stepValues_nodup m hm ev) (Reg.apply r ev) (stepValues_get m r hr ev) hv2

theorem run_unfold (excl : Bool) (evs : List Ev) :
    let cl := run Fix.fixed excl evs
    Inv cl.cont ∧ cl.cont.exclusive = excl ∧ (Map.keys cl.values).Nodup
    ∧ (∀ k, cl.values.get k = Reg.run evs k)
    ∧ (∀ k, cl.cont.mapping.get k = ((evs.flatMap emit).foldl (Reg.applyL excl) Reg.empty) k)
    ∧ cl.cont.notified = (evs.flatMap emit).length
    ∧ Coh cl.cont := by
  have h := run_facts excl evs { cont := Container.new excl } Reg.empty Reg.empty (inv_new excl) rfl
    (by simp [Map.keys]) (fun _ => rfl) (fun _ => rfl)
  obtain ⟨h1, h2, h3, h4, h5, h6, h7, h8⟩ := h
  refine ⟨h1, h2, h3, h4, h5, by rw [show run Fix.fixed excl evs = evs.foldl (step Fix.fixed) { cont := Container.new excl } from rfl, h6]; simp [Container.new], ?_⟩
  intro hd
  by_cases he : evs.flatMap emit = []
  · have : (run Fix.fixed excl evs).cont = Container.new excl := h8 he
    rw [this] at hd; simp [Container.new] at hd
  · have : (run Fix.fixed excl evs).cont.dirty = true := h7 he
    rw [this] at hd; cases hd

end GoZero.C13
