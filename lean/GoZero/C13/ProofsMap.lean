/-
C13 — helper lemmas about the association-list model of Go maps.
-/
import GoZero.C13.Model
namespace GoZero.C13.Map
variable {β : Type}

@[simp] theorem get_nil (k : Nat) : get ([] : Map β) k = none := rfl

theorem get_cons (p : Nat × β) (t : Map β) (k : Nat) :
    get (p :: t) k = if p.1 = k then some p.2 else get t k := rfl

theorem get_erase (m : Map β) (k k' : Nat) :
    (erase m k).get k' = if k' = k then none else m.get k' := by
  induction m with
  | nil => simp [erase]
  | cons p t ih =>
    unfold erase at ih ⊢
    by_cases hp : p.1 = k
    · simp only [List.filter, hp, ne_eq, not_true_eq_false, decide_false]
      rw [ih, get_cons]
      by_cases h : k' = k
      · simp [h]
      · have : ¬ p.1 = k' := by omega
        simp [h, this]
    · simp only [List.filter, hp, ne_eq, not_false_eq_true, decide_true]
      rw [get_cons, ih, get_cons]
      by_cases h : k' = k
      · have : ¬ p.1 = k' := by omega
        simp [h, hp]
      · simp [h]

theorem get_append_single (m : Map β) (k : Nat) (v : β) (k' : Nat) :
    get (m ++ [(k, v)]) k' = match get m k' with
      | some x => some x
      | none => if k = k' then some v else none := by
  induction m with
  | nil => simp [get_cons]
  | cons p t ih =>
    simp only [List.cons_append, get_cons]
    by_cases h : p.1 = k'
    · simp [h]
    · simp [h, ih]

theorem get_set (m : Map β) (k : Nat) (v : β) (k' : Nat) :
    (set m k v).get k' = if k' = k then some v else m.get k' := by
  unfold set
  rw [get_append_single, get_erase]
  by_cases h : k' = k
  · simp [h]
  · have : ¬ k = k' := by omega
    simp only [h, if_false, this]
    cases get m k' <;> rfl

theorem mem_keys_iff (m : Map β) (k : Nat) : k ∈ keys m ↔ get m k ≠ none := by
  induction m with
  | nil => simp [keys]
  | cons p t ih =>
    unfold keys at ih ⊢
    simp only [List.map_cons, List.mem_cons, get_cons]
    by_cases h : p.1 = k
    · simp [h]
    · have : ¬ k = p.1 := by omega
      simp [h, this, ih]

theorem keys_erase (m : Map β) (k : Nat) : keys (erase m k) = (keys m).filter (· ≠ k) := by
  unfold keys erase
  rw [List.filter_map]
  rfl

theorem nodup_keys_erase (m : Map β) (k : Nat) (h : (keys m).Nodup) : (keys (erase m k)).Nodup := by
  rw [keys_erase]
  exact h.filter _

theorem nodup_keys_set (m : Map β) (k : Nat) (v : β) (h : (keys m).Nodup) : (keys (set m k v)).Nodup := by
  unfold set
  have h1 := nodup_keys_erase m k h
  have h2 : k ∉ keys (erase m k) := by
    rw [mem_keys_iff, get_erase]; simp
  unfold keys at *
  rw [List.map_append, List.nodup_append]
  refine ⟨h1, by simp, ?_⟩
  intro a ha b hb
  simp at hb
  subst hb
  intro hab
  subst hab
  exact h2 ha

/-- pairs of a map with distinct keys are exactly its `get` graph -/
theorem mem_iff_get (m : Map β) (h : (keys m).Nodup) (k : Nat) (v : β) :
    (k, v) ∈ m ↔ get m k = some v := by
  induction m with
  | nil => simp
  | cons p t ih =>
    unfold keys at h ih
    simp only [List.map_cons, List.nodup_cons] at h
    simp only [List.mem_cons, get_cons]
    by_cases hp : p.1 = k
    · simp only [hp, if_true, Option.some.injEq]
      constructor
      · rintro (h1 | h1)
        · rw [← h1]
        · exfalso; apply h.1; rw [hp]; exact List.mem_map.mpr ⟨(k, v), h1, rfl⟩
      · intro h1; left; rw [← h1, ← hp]
    · simp only [hp, if_false]
      rw [← ih h.2]
      constructor
      · rintro (h1 | h1)
        · exfalso; apply hp; rw [← h1]
        · exact h1
      · intro h1; right; exact h1

end GoZero.C13.Map
