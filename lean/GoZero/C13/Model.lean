/-
C13 — executable model of the service-discovery view (core Lean only).

  core/discov/subscriber.go          container: addKv / doRemoveKey / removeKey / getValues / notifyChange
  core/discov/internal/registry.go   cluster: handleWatchEvents (PUT / DELETE), handleChanges + calculateChanges
  zrpc/resolver/internal/subset.go   subset(values, 32)            (discovbuilder.go: update())
  zrpc/resolver/internal/kube/eventhandler.go   EventHandler OnAdd / OnDelete / OnUpdate / Update

Keys and values are natural numbers (the harness maps them to etcd-style strings).  A Go `map` is an
association list with pairwise distinct keys; Go's iteration order is *not* modelled by the list order:
wherever the real code ranges over a map, the order is an explicit input (observed by the harness) and
the theorems quantify over it.

The model follows the code *with* the two C13 fixes (fixes/C13-*.patch); the pinned behaviour is kept as
`Fix.pinned` so that the defect stays a machine-checked witness (Props.lean).
-/
namespace GoZero.C13

/-- a Go map with `Nat` keys -/
abbrev Map (β : Type) := List (Nat × β)

namespace Map
variable {β : Type}

def get : Map β → Nat → Option β
  | [], _ => none
  | p :: t, k => if p.1 = k then some p.2 else get t k

/-- `delete(m, k)` -/
def erase (m : Map β) (k : Nat) : Map β := m.filter (fun p => p.1 ≠ k)

/-- `m[k] = v` -/
def set (m : Map β) (k : Nat) (v : β) : Map β := erase m k ++ [(k, v)]

def keys (m : Map β) : List Nat := m.map (·.1)

end Map

/-- which of the two repairs are present (`pinned` = the code as it was at the pinned commit) -/
structure Fix where
  /-- `addKv` detaches the key from its previous value first (`c.doRemoveKey(key)`) -/
  detach : Bool
  /-- `calculateChanges` reports a key whose value changed in `add` only -/
  removeGoneOnly : Bool
  deriving DecidableEq, Repr

def Fix.fixed : Fix := ⟨true, true⟩
def Fix.pinned : Fix := ⟨false, false⟩

/-! ### container (core/discov/subscriber.go) -/

structure Container where
  exclusive : Bool
  values    : Map (List Nat) := []     -- value ↦ keys registered with it, in arrival order
  mapping   : Map Nat := []            -- key ↦ value
  dirty     : Bool := true
  snapshot  : List Nat := []
  /-- number of `notifyChange` rounds (each calls every listener once) -/
  notified  : Nat := 0
  deriving Repr, DecidableEq

def Container.new (exclusive : Bool) : Container := { exclusive := exclusive }

/-- `doRemoveKey` -/
def doRemoveKey (c : Container) (key : Nat) : Container :=
  match c.mapping.get key with
  | none => c
  | some server =>
    let remain := ((c.values.get server).getD []).filter (· ≠ key)
    { c with
      mapping := c.mapping.erase key
      values := if remain.isEmpty then c.values.erase server else c.values.set server remain }

/-- `for _, each := range keys { c.doRemoveKey(each) }` in `addKv`.  `keys` is the slice `c.values[value]`
and `doRemoveKey` filters that very backing array in place (`remain := keys[:0]`), so the loop reads cell `i`
of the *current* array `arr`, not of a copy. -/
def exclLoopAux (value : Nat) (c : Container) (arr : List Nat) : List Nat → Container
  | [] => c
  | i :: is =>
    let each := arr.getD i 0
    let arr' :=
      match c.mapping.get each with
      | some server =>
        if server = value then
          let remain := ((c.values.get server).getD []).filter (· ≠ each)
          remain ++ arr.drop remain.length
        else arr
      | none => arr
    exclLoopAux value (doRemoveKey c each) arr' is

def exclLoop (value : Nat) (c : Container) (keys : List Nat) : Container :=
  exclLoopAux value c keys (List.range keys.length)

/-- `addKv` (the returned `previous, early` are unused by the callers and not modelled) -/
def addKv (fx : Fix) (c : Container) (key value : Nat) : Container :=
  let c0 := { c with dirty := true }
  let c1 := if fx.detach then doRemoveKey c0 key else c0
  let keys := (c1.values.get value).getD []
  let c2 := if c1.exclusive && !keys.isEmpty then exclLoop value c1 keys else c1
  { c2 with
    values := c2.values.set value ((c2.values.get value).getD [] ++ [key])
    mapping := c2.mapping.set key value }

/-- `removeKey` -/
def removeKey (c : Container) (key : Nat) : Container :=
  doRemoveKey { c with dirty := true } key

def notifyChange (c : Container) : Container := { c with notified := c.notified + 1 }

/-- `OnAdd` -/
def onAdd (fx : Fix) (c : Container) (kv : Nat × Nat) : Container := notifyChange (addKv fx c kv.1 kv.2)

/-- `OnDelete` (the value carried by the event is ignored by the code) -/
def onDelete (c : Container) (key : Nat) : Container := notifyChange (removeKey c key)

/-- `getValues`: the cached snapshot unless dirty -/
def getValues (c : Container) : Container × List Nat :=
  if !c.dirty then (c, c.snapshot)
  else
    let vals := c.values.keys
    ({ c with snapshot := vals, dirty := false }, vals)

/-- what `Values()` returns now -/
def view (c : Container) : List Nat := (getValues c).2

/-! ### cluster (core/discov/internal/registry.go): one watch key, one listener -/

/-- a listener-level event -/
inductive LEv where
  | add (k v : Nat)
  | del (k : Nat)
  deriving DecidableEq, Repr

def applyL (fx : Fix) (c : Container) : LEv → Container
  | .add k v => onAdd fx c (k, v)
  | .del k => onDelete c k

structure Cluster where
  values : Map Nat := []        -- watchValue.values: the registry's copy of etcd's state for the watch
  cont   : Container
  deriving Repr

/-- `newVals` of `handleChanges`: later entries win -/
def ofKVs (kvs : List (Nat × Nat)) : Map Nat := kvs.foldl (fun m kv => m.set kv.1 kv.2) []

/-- `calculateChanges`, the `add` result as a *set* (the code ranges over `newVals`, a map) -/
def calcAdds (old new : Map Nat) : List (Nat × Nat) := new.filter (fun p => old.get p.1 ≠ some p.2)

/-- `calculateChanges`, the `remove` result as a set (the code ranges over `oldVals`) -/
def calcRemoves (fx : Fix) (old new : Map Nat) : List (Nat × Nat) :=
  if fx.removeGoneOnly then old.filter (fun p => new.get p.1 = none)
  else old.filter (fun p => new.get p.1 ≠ some p.2)

/-- registry-level events.  `reload` = `load` → `handleChanges(kvs)` after a reconnect or a compaction; `adds`
and `rems` are the orders in which Go happened to range over the two maps (inputs, see `ValidEv`). -/
inductive Ev where
  | put (k v : Nat)
  | del (k : Nat)
  | reload (kvs : List (Nat × Nat)) (adds : List (Nat × Nat)) (rems : List Nat)
  deriving Repr

/-- listener events delivered for one registry event: `handleWatchEvents` / `handleChanges` (adds, then removes) -/
def emit : Ev → List LEv
  | .put k v => [.add k v]
  | .del k => [.del k]
  | .reload _ adds rems => adds.map (fun kv => .add kv.1 kv.2) ++ rems.map .del

def stepValues (m : Map Nat) : Ev → Map Nat
  | .put k v => m.set k v
  | .del k => m.erase k
  | .reload kvs _ _ => ofKVs kvs

def step (fx : Fix) (cl : Cluster) (ev : Ev) : Cluster :=
  { values := stepValues cl.values ev, cont := (emit ev).foldl (applyL fx) cl.cont }

def run (fx : Fix) (excl : Bool) (evs : List Ev) : Cluster :=
  evs.foldl (step fx) { cont := Container.new excl }

/-- the iteration orders of a `reload` are orders of what `calculateChanges` computes (as sets; any
order, the theorems do not even need the absence of repetitions) -/
def ValidEv (fx : Fix) (old : Map Nat) : Ev → Prop
  | .reload kvs adds rems =>
    (∀ kv, kv ∈ adds ↔ kv ∈ calcAdds old (ofKVs kvs)) ∧
    (∀ k, k ∈ rems ↔ k ∈ (calcRemoves fx old (ofKVs kvs)).map (·.1))
  | _ => True

/-- every reload of the history carries valid orders (w.r.t. the registry state it meets) -/
def ValidHist (fx : Fix) : Map Nat → List Ev → Prop
  | _, [] => True
  | m, ev :: evs => ValidEv fx m ev ∧ ValidHist fx (stepValues m ev) evs

/-! ### publisher (core/discov/publisher.go) and etcd's lease store -/

/-- the id suffix of the full key, `register`:
`if p.id > 0 { p.fullKey = makeEtcdKey(p.key, p.id) } else { p.fullKey = makeEtcdKey(p.key, int64(lease)) }` -/
def pubKeyId (id lease : Nat) : Nat := if id > 0 then id else lease

structure Pub where
  id      : Nat            -- `WithId` (0: none)
  value   : Nat
  lease   : Nat := 0       -- p.lease (0 = clientv3.NoLease)
  fullKey : Nat := 0       -- the id suffix of p.fullKey
  deriving Repr, DecidableEq

/-- etcd under the service key: id suffix of the full key ↦ (value, lease) -/
abbrev Store := Map (Nat × Nat)

/-- `register` (the lease is what etcd's Grant returned): `Put(p.fullKey, p.value, WithLease(lease))`, `p.lease = lease` -/
def Pub.register (p : Pub) (lease : Nat) : Pub := { p with lease := lease, fullKey := pubKeyId p.id lease }

def storePut (s : Store) (p : Pub) : Store := s.set p.fullKey (p.value, p.lease)

/-- `revoke`: `Revoke(p.lease)` — etcd deletes every key attached to the lease -/
def storeRevoke (s : Store) (lease : Nat) : Store := s.filter (fun e => e.2.2 ≠ lease)

/-- the keys etcd deletes (a DELETE watch event each) -/
def revokedKeys (s : Store) (lease : Nat) : List Nat := (s.filter (fun e => e.2.2 = lease)).map (·.1)

/-- what the watchers of the service key are told -/
def registerEvents (p : Pub) : List Ev := [.put p.fullKey p.value]
def revokeEvents (s : Store) (lease : Nat) : List Ev := (revokedKeys s lease).map .del

/-! ### resolver (zrpc/resolver/internal: discovbuilder.go update(), subset.go) -/

def subsetSize : Nat := 32

/-- `subset(set, sub)`: shuffle, then the first `sub` entries.  `perm` is the shuffled slice (observed). -/
def subset (shuffled : List Nat) (sub : Nat) : List Nat :=
  if shuffled.length ≤ sub then shuffled else shuffled.take sub

/-! ### kube EventHandler (zrpc/resolver/internal/kube/eventhandler.go) -/

structure Kube where
  endpoints : List Nat := []            -- the set h.endpoints (no repetitions)
  /-- last list handed to `update` (`none`: never called) -/
  published : Option (List Nat) := none
  updates   : Nat := 0
  deriving Repr, DecidableEq

inductive KEv where
  | add (ips : List Nat)                 -- OnAdd(endpoints)
  | del (ips : List Nat)                 -- OnDelete(endpoints)
  | update (sameVersion : Bool) (ips : List Nat)   -- OnUpdate(old, new): ignored when the resource versions are equal
  | set (ips : List Nat)                 -- Update(endpoints)
  deriving Repr

def Kube.notify (h : Kube) : Kube := { h with published := some h.endpoints, updates := h.updates + 1 }

def insertNew (l : List Nat) (x : Nat) : List Nat := if x ∈ l then l else l ++ [x]

/-- `diff(o, n)`: sizes differ, or some element of `o` is missing from `n` -/
def kdiff (o n : List Nat) : Bool := o.length != n.length || o.any (fun x => !n.contains x)

def Kube.setAll (h : Kube) (ips : List Nat) : Kube :=
  let n := ips.foldl insertNew []
  let h' := { h with endpoints := n }
  if kdiff h.endpoints n then h'.notify else h'

def Kube.step (h : Kube) : KEv → Kube
  | .add ips =>
    let n := ips.foldl insertNew h.endpoints
    let h' := { h with endpoints := n }
    if ips.any (fun x => !h.endpoints.contains x) then h'.notify else h'
  | .del ips =>
    let n := h.endpoints.filter (fun x => !ips.contains x)
    let h' := { h with endpoints := n }
    if ips.any (fun x => h.endpoints.contains x) then h'.notify else h'
  | .update same ips => if same then h else h.setAll ips
  | .set ips => h.setAll ips

end GoZero.C13
