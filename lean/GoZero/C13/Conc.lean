/-
C13 — interleaving model of the subscriber's container (core Lean only).

  core/discov/subscriber.go   container.addKv / removeKey  (called by OnAdd / OnDelete on a watch goroutine,
                              by Registry.Monitor's replay on the caller's goroutine)
                              container.getValues          (called by Values(): resolvers, listeners, any goroutine)

Any number of threads; every thread performs any number of operations, each either a *write* (one listener
event: OnAdd / OnDelete) or a *read* (getValues).  One `step` = one shared-memory access of the Go code:

  write e:  wLock    c.lock.Lock()
            wDirty   c.dirty.Set(true)                 (first statement under the lock: Tie addKvStmts / removeKeyShape)
            wMut     doRemoveKey … c.mapping[key] = …  (the mutation: only ever executed and read under the lock)
            wUnlock  c.lock.Unlock()
  read:     rCheck   if !c.dirty.True()                (outside the lock)
            rLoad      return c.snapshot.Load()        (outside the lock)
            rLock    c.lock.Lock()
            rBuild   vals = keys of c.values
            rStore   c.snapshot.Store(vals)
            rClear   c.dirty.Set(false)
            rUnlock  c.lock.Unlock(); return vals
            rDone    the read has returned `ret`

`dirty` and `snapshot` are atomics (sequentially consistent in Go), so interleaving semantics at this
granularity is exact.  Ghost fields (not in the code): `log` = the events in the order their mutation was
applied, `done` = number of completed writes, `snapIdx` / `idx t` = length of `log` a value list was built
from, `start t` / `startDone t` = `log.length` / `done` when thread `t`'s read started.
-/
import GoZero.C13.Model
namespace GoZero.C13.Conc
open GoZero.C13

inductive PC where
  | idle
  | wLock | wDirty | wMut | wUnlock
  | rCheck | rLoad | rLock | rBuild | rStore | rClear | rUnlock | rDone
  deriving DecidableEq, Repr

def upd {α : Type} (f : Nat → α) (i : Nat) (x : α) : Nat → α := fun j => if j = i then x else f j

structure St where
  lock      : Option Nat := none
  dirty     : Bool := true                 -- newContainer: dirty = true
  snap      : List Nat := []               -- snapshot (never loaded before the first Store: dirty starts true)
  cont      : Container                    -- values / mapping, only touched under the lock
  pc        : Nat → PC := fun _ => .idle
  ev        : Nat → LEv := fun _ => .del 0 -- the event a writer applies
  vals      : Nat → List Nat := fun _ => []
  ret       : Nat → List Nat := fun _ => []
  -- ghost
  log       : List LEv := []
  done      : Nat := 0
  snapIdx   : Nat := 0
  idx       : Nat → Nat := fun _ => 0
  start     : Nat → Nat := fun _ => 0
  startDone : Nat → Nat := fun _ => 0

def init (excl : Bool) : St := { cont := Container.new excl }

/-- what a thread that is idle does next -/
inductive Choice where
  | write (e : LEv)
  | read
  deriving Repr

/-- one step of thread `t` (`ch` is only consulted when the thread is idle); `none`: blocked -/
def step (s : St) (t : Nat) (ch : Choice) : Option St :=
  match s.pc t with
  | .idle =>
    match ch with
    | .write e => some { s with pc := upd s.pc t .wLock, ev := upd s.ev t e }
    | .read => some { s with pc := upd s.pc t .rCheck, start := upd s.start t s.log.length,
                             startDone := upd s.startDone t s.done }
  | .wLock => if s.lock = none then some { s with lock := some t, pc := upd s.pc t .wDirty } else none
  | .wDirty => some { s with dirty := true, pc := upd s.pc t .wMut }
  | .wMut => some { s with cont := applyL Fix.fixed s.cont (s.ev t), log := s.log ++ [s.ev t], pc := upd s.pc t .wUnlock }
  | .wUnlock => some { s with lock := none, done := s.done + 1, pc := upd s.pc t .idle }
  | .rCheck => if s.dirty then some { s with pc := upd s.pc t .rLock } else some { s with pc := upd s.pc t .rLoad }
  | .rLoad => some { s with ret := upd s.ret t s.snap, idx := upd s.idx t s.snapIdx, pc := upd s.pc t .rDone }
  | .rLock => if s.lock = none then some { s with lock := some t, pc := upd s.pc t .rBuild } else none
  | .rBuild => some { s with vals := upd s.vals t (Map.keys s.cont.values), idx := upd s.idx t s.log.length,
                             pc := upd s.pc t .rStore }
  | .rStore => some { s with snap := s.vals t, snapIdx := s.idx t, pc := upd s.pc t .rClear }
  | .rClear => some { s with dirty := false, pc := upd s.pc t .rUnlock }
  | .rUnlock => some { s with lock := none, ret := upd s.ret t (s.vals t), pc := upd s.pc t .rDone }
  | .rDone => some { s with pc := upd s.pc t .idle }

/-- a schedule: which thread moves, and what it starts if it is idle -/
abbrev Sched := List (Nat × Choice)

/-- run a schedule (a blocked step is skipped: the thread waits) -/
def exec (s : St) : Sched → St
  | [] => s
  | (t, ch) :: rest => exec ((step s t ch).getD s) rest

/-- the container after the first `n` events of the log -/
def contAt (excl : Bool) (log : List LEv) (n : Nat) : Container :=
  (log.take n).foldl (applyL Fix.fixed) (Container.new excl)

/-- the value list `getValues` builds from it -/
def keysAt (excl : Bool) (log : List LEv) (n : Nat) : List Nat := Map.keys (contAt excl log n).values

/-! ### what goes wrong without the lock discipline (used by the witnesses in Props): a reader that iterates a
slice cell by cell while another goroutine swaps two cells of the same backing array (zrpc/resolver/internal
subset(): `rand.Shuffle` on the slice `Values()` returned, i.e. on the cached snapshot) -/

/-- `reader` has read cells `[0, i)` of `arr`; then `swap a b` happens; then it reads the rest -/
def readAcrossSwap (arr : List Nat) (i a b : Nat) : List Nat :=
  let arr' := (arr.set a (arr.getD b 0)).set b (arr.getD a 0)
  arr.take i ++ arr'.drop i

/-- two goroutines execute `set[i], set[j] = set[j], set[i]` on the same array at the same time: both read
their two cells, then both write (`x` swaps cells a b, `y` swaps cells c d) -/
def racingSwaps (arr : List Nat) (a b c d : Nat) : List Nat :=
  let xa := arr.getD a 0; let xb := arr.getD b 0
  let yc := arr.getD c 0; let yd := arr.getD d 0
  (((arr.set a xb).set b xa).set c yd).set d yc

end GoZero.C13.Conc
