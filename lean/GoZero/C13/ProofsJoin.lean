/-
C13 — a listener joining late: (1) the interleaving invariant of the fixed Monitor / handleWatchEvents
(ConcJoin.lean, notifyLock), (2) the sequential refinement: the replay of the current values makes a fresh
subscriber's view the registry, and it stays the registry afterwards.
-/
import GoZero.C13.ConcJoin
import GoZero.C13.ProofsCluster
namespace GoZero.C13.ConcJoin
open GoZero.C13 GoZero.C13.Spec

structure Inv (s : St) : Prop where
  idleFree : s.wpc = .idle → s.nlock ≠ .watch
  busy : s.wpc ≠ .idle → s.nlock = .watch
  jhold : ∀ l, (s.jpc l = .append ∨ s.jpc l = .read ∨ s.jpc l = .replay) → s.nlock = .joiner l
  jfree : ∀ l, s.nlock = .joiner l → (s.jpc l = .append ∨ s.jpc l = .read ∨ s.jpc l = .replay)
  lsn : ∀ l, s.listeners l = true → (s.jpc l = .read ∨ s.jpc l = .replay ∨ s.jpc l = .joined)
  cur : ∀ l, s.jpc l = .replay → s.jcur l = s.values
  copied : (s.wpc = .loop ∨ ∃ e, s.wpc = .deliver e) → s.wls = s.listeners
  sync : ∀ l, s.jpc l = .joined → (∀ e, s.wpc ≠ .deliver e) → s.view l = s.values
  pending : ∀ l e, s.jpc l = .joined → s.wpc = .deliver e → Reg.applyL false (s.view l) e = s.values
  joinedL : ∀ l, (s.jpc l = .read ∨ s.jpc l = .replay ∨ s.jpc l = .joined) → s.listeners l = true

set_option maxHeartbeats 1000000 in
theorem inv_step (s s' : St) (a : Act) (h : Inv s) (hs : step true s a = some s') : Inv s' := by
  obtain ⟨h1, h2, h3, h4, h5, h6, h7, h8, h9, h10⟩ := h
  cases a with
  | watch b =>
    simp only [step] at hs
    split at hs
    all_goals (try simp only [↓reduceIte] at hs)
    all_goals (try split at hs)
    all_goals (try (simp at hs; done))
    all_goals simp only [Option.some.injEq] at hs
    all_goals subst hs
    all_goals constructor
    all_goals grind
  | join l =>
    simp only [step] at hs
    split at hs
    all_goals (try simp only [↓reduceIte] at hs)
    all_goals (try split at hs)
    all_goals (try (simp at hs; done))
    all_goals simp only [Option.some.injEq] at hs
    all_goals subst hs
    all_goals constructor
    all_goals simp only [upd]
    all_goals grind

theorem inv_init : Inv {} := by
  constructor <;> simp

theorem inv_exec (acts : List Act) (s : St) (h : Inv s) : Inv (exec true s acts) := by
  induction acts generalizing s with
  | nil => exact h
  | cons a rest ih =>
    unfold exec
    cases hs : step true s a with
    | none => exact ih s h
    | some s' => exact ih s' (inv_step s s' a h hs)

end GoZero.C13.ConcJoin

namespace GoZero.C13
open Map Spec

/-- `Registry.Monitor` on an existing watch, sequentially: the new listener's container after the replay of
`getCurrent` (in the order `order` Go ranged over `watcher.values`) and the listener events of the later history -/
def runLate (excl : Bool) (order : List (Nat × Nat)) (later : List Ev) : Container :=
  (later.flatMap emit).foldl (applyL Fix.fixed) (order.foldl (onAdd Fix.fixed) (Container.new excl))

/-- `order` is an order of the map `cur` -/
def ValidJoin (cur : Map Nat) (order : List (Nat × Nat)) : Prop := ∀ kv, kv ∈ order ↔ kv ∈ cur

theorem foldl_onAdd_eq (c : Container) (order : List (Nat × Nat)) :
    order.foldl (onAdd Fix.fixed) c = (order.map (fun kv => LEv.add kv.1 kv.2)).foldl (applyL Fix.fixed) c := by
  induction order generalizing c with
  | nil => rfl
  | cons a t ih => simp only [List.foldl_cons, List.map_cons]; exact ih _

theorem foldl_applyL_add_eq (r : Reg) (order : List (Nat × Nat)) :
    (order.map (fun kv => LEv.add kv.1 kv.2)).foldl (Reg.applyL false) r
      = order.foldl (fun r kv => Reg.put r kv.1 kv.2) r := by
  induction order generalizing r with
  | nil => rfl
  | cons a t ih => simp only [List.foldl_cons, List.map_cons]; exact ih _

theorem dirty_foldl (ls : List LEv) (c : Container) (hi : Inv c) (hd : c.dirty = true) :
    (ls.foldl (applyL Fix.fixed) c).dirty = true := by
  by_cases h : ls = []
  · subst h; exact hd
  · exact (listener_refines ls c (fun k => c.mapping.get k) hi (fun _ => rfl)).2.2.2.2 h

open Classical in
theorem late_join_refines (before later : List Ev) (order : List (Nat × Nat))
    (hj : ValidJoin (run Fix.fixed false before).values order)
    (hv2 : ValidHist Fix.fixed (run Fix.fixed false before).values later) :
    Inv (runLate false order later) ∧ (runLate false order later).dirty = true
    ∧ ∀ k, (runLate false order later).mapping.get k = Reg.run (before ++ later) k := by
  obtain ⟨_, _, hn, hget, _, _, _⟩ := run_unfold false before
  have hget : ∀ k, (run Fix.fixed false before).values.get k = Reg.run before k := hget
  obtain ⟨i0, m0, e0, _, _⟩ := listener_refines (order.map (fun kv => LEv.add kv.1 kv.2)) (Container.new false)
    Reg.empty (inv_new false) (fun _ => rfl)
  have e0 : ((order.map (fun kv => LEv.add kv.1 kv.2)).foldl (applyL Fix.fixed) (Container.new false)).exclusive = false := e0
  have hord : ∀ kv ∈ order, Reg.run before kv.1 = some kv.2 := by
    intro kv hkv
    rw [← hget]
    exact (mem_iff_get _ hn kv.1 kv.2).mp ((hj kv).mp hkv)
  have m1 : ∀ k, ((order.map (fun kv => LEv.add kv.1 kv.2)).foldl (applyL Fix.fixed) (Container.new false)).mapping.get k
      = Reg.run before k := by
    intro k
    rw [m0 k]
    show ((order.map (fun kv => LEv.add kv.1 kv.2)).foldl (Reg.applyL false) Reg.empty) k = _
    rw [foldl_applyL_add_eq, foldl_put_get (Reg.run before) order hord]
    by_cases hex : ∃ v, (k, v) ∈ order
    · rw [if_pos hex]
    · rw [if_neg hex]
      cases hr : Reg.run before k with
      | none => rfl
      | some v =>
        exfalso; apply hex
        exact ⟨v, (hj (k, v)).mpr ((mem_iff_get _ hn k v).mpr (by rw [hget]; exact hr))⟩
  unfold runLate
  rw [foldl_onAdd_eq]
  obtain ⟨i1, m2, _, _, _⟩ := listener_refines (later.flatMap emit) _ (Reg.run before) i0 m1
  refine ⟨i1, dirty_foldl _ _ i0 (dirty_foldl _ _ (inv_new false) rfl), fun k => ?_⟩
  rw [m2 k, e0, stream_exact later _ hn (Reg.run before) hget hv2 k]
  unfold Reg.run
  rw [List.foldl_append]

end GoZero.C13
