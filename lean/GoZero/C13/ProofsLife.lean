/-
C13 — the invariant of a publisher's whole life (Multi.lean: PLife): whatever etcd calls fail, a running publisher's
key is in the store under its current lease, and every other key carries an older lease that nobody renews.
-/
import GoZero.C13.Multi
import GoZero.C13.ProofsMap
namespace GoZero.C13

theorem mem_mapset {β : Type} (m : Map β) (k : Nat) (v : β) (e : Nat × β) :
    e ∈ Map.set m k v ↔ (e ∈ m ∧ e.1 ≠ k) ∨ e = (k, v) := by
  simp [Map.set, Map.erase, List.mem_filter]

theorem nodup_keys_filter' {β : Type} (m : Map β) (P : Nat × β → Bool) (h : (Map.keys m).Nodup) :
    (Map.keys (m.filter P)).Nodup := by
  unfold Map.keys at *
  exact h.sublist (List.Sublist.map _ List.filter_sublist)

/-- the entry a publisher holds in etcd -/
def Pub.entry (p : Pub) : Nat × Nat × Nat := (p.fullKey, (p.value, p.lease))

/-- what `doKeepAlive` guarantees, for every list of outcomes and leases granted from `n` on -/
theorem doKeepAlive_inv (ks : List AKind) (p : Pub) (s : Store) (n : Nat)
    (hn : (Map.keys s).Nodup) (hb : ∀ e ∈ s, e.2.2 < n) (r : Pub × Store × Bool)
    (hr : r = doKeepAlive true p s (attemptsOf n ks)) :
    (Map.keys r.2.1).Nodup ∧ (∀ e ∈ r.2.1, e.2.2 < n + ks.length)
    ∧ r.1.id = p.id ∧ r.1.value = p.value
    ∧ (r.2.2 = true → r.1.lease < n + ks.length ∧ r.1.fullKey = pubKeyId p.id r.1.lease ∧ r.1.entry ∈ r.2.1
        ∧ ∀ e ∈ r.2.1, e.2.2 = r.1.lease → e = r.1.entry) := by
  induction ks generalizing p s n with
  | nil =>
    have : r = (p, s, false) := by simpa [attemptsOf, doKeepAlive] using hr
    subst this
    exact ⟨hn, by simpa using hb, rfl, rfl, by simp⟩
  | cons k ks ih =>
    cases k with
    | grantErr =>
      have e : doKeepAlive true p s (attemptsOf n (.grantErr :: ks)) = doKeepAlive true { p with lease := 0 } s (attemptsOf (n + 1) ks) := by
        simp [attemptsOf, AKind.toAttempt, doKeepAlive, Attempt.isOk, Pub.attempt]
      rw [e] at hr
      obtain ⟨h1, h2, h3, h4, h5⟩ := ih { p with lease := 0 } s (n + 1) hn (fun e he => Nat.lt_succ_of_lt (hb e he)) hr
      simp only [List.length_cons]
      exact ⟨h1, fun e he => by have := h2 e he; omega, h3, h4, fun hr => by have := h5 hr; exact ⟨by omega, this.2⟩⟩
    | putErr =>
      have e : doKeepAlive true p s (attemptsOf n (.putErr :: ks)) = doKeepAlive true (p.register n) s (attemptsOf (n + 1) ks) := by
        simp [attemptsOf, AKind.toAttempt, doKeepAlive, Attempt.isOk, Pub.attempt]
      rw [e] at hr
      obtain ⟨h1, h2, h3, h4, h5⟩ := ih (p.register n) s (n + 1) hn (fun e he => Nat.lt_succ_of_lt (hb e he)) hr
      simp only [List.length_cons]
      exact ⟨h1, fun e he => by have := h2 e he; omega, h3, h4, fun hr => by have := h5 hr; exact ⟨by omega, this.2⟩⟩
    | kaErr =>
      have e : doKeepAlive true p s (attemptsOf n (.kaErr :: ks))
          = doKeepAlive true (p.register n) (storePut s (p.register n)) (attemptsOf (n + 1) ks) := by
        simp [attemptsOf, AKind.toAttempt, doKeepAlive, Attempt.isOk, Pub.attempt]
      rw [e] at hr
      have hb' : ∀ e ∈ storePut s (p.register n), e.2.2 < n + 1 := by
        intro e he
        rcases (mem_mapset _ _ _ e).mp he with ⟨h, _⟩ | rfl
        · exact Nat.lt_succ_of_lt (hb e h)
        · simp [Pub.register]
      obtain ⟨h1, h2, h3, h4, h5⟩ := ih (p.register n) (storePut s (p.register n)) (n + 1) (Map.nodup_keys_set _ _ _ hn) hb' hr
      simp only [List.length_cons]
      exact ⟨h1, fun e he => by have := h2 e he; omega, h3, h4, fun hr => by have := h5 hr; exact ⟨by omega, this.2⟩⟩
    | ok =>
      have e : doKeepAlive true p s (attemptsOf n (.ok :: ks)) = (p.register n, storePut s (p.register n), true) := by
        simp [attemptsOf, AKind.toAttempt, doKeepAlive, Attempt.isOk, Pub.attempt]
      rw [e] at hr
      subst hr
      simp only [List.length_cons]
      refine ⟨Map.nodup_keys_set _ _ _ hn, ?_, rfl, rfl, fun _ => ⟨?_, rfl, ?_, ?_⟩⟩
      · intro e he
        rcases (mem_mapset _ _ _ e).mp he with ⟨h, _⟩ | rfl
        · have := hb e h; omega
        · simp [Pub.register]
      · simp [Pub.register]
      · exact (mem_mapset _ _ _ _).mpr (Or.inr rfl)
      · intro e he hl
        rcases (mem_mapset _ _ _ e).mp he with ⟨h, _⟩ | rfl
        · have := hb e h
          simp [Pub.register] at hl
          omega
        · rfl

structure PInv (id v : Nat) (st : PLife) : Prop where
  nodup : (Map.keys st.store).Nodup
  bound : ∀ e ∈ st.store, e.2.2 < st.next
  idv   : st.pub.id = id ∧ st.pub.value = v
  live  : st.running = true → st.pub.lease < st.next ∧ st.pub.fullKey = pubKeyId id st.pub.lease ∧ st.pub.entry ∈ st.store
            ∧ ∀ e ∈ st.store, e.2.2 = st.pub.lease → e = st.pub.entry

theorem reregister_inv (id v : Nat) (st : PLife) (s : Store) (as : List AKind) (hid : st.pub.id = id ∧ st.pub.value = v)
    (hn : (Map.keys s).Nodup) (hb : ∀ e ∈ s, e.2.2 < st.next) : PInv id v (st.reregister s as) := by
  obtain ⟨h1, h2, h3, h4, h5⟩ := doKeepAlive_inv as st.pub s st.next hn hb _ rfl
  exact ⟨h1, h2, ⟨h3.trans hid.1, h4.trans hid.2⟩, fun hr => by
    obtain ⟨a, b, c, d⟩ := h5 hr
    exact ⟨a, by rw [← hid.1]; exact b, c, d⟩⟩

theorem revoke_sub (st : PLife) (ok : Bool) : ∀ e ∈ st.revoke ok, e ∈ st.store := by
  intro e he
  unfold PLife.revoke at he
  cases ok
  · simpa using he
  · simp only [if_true, storeRevoke] at he; exact (List.mem_filter.mp he).1

theorem revoke_nodup (st : PLife) (ok : Bool) (h : (Map.keys st.store).Nodup) : (Map.keys (st.revoke ok)).Nodup := by
  unfold PLife.revoke
  cases ok
  · simpa using h
  · simp only [if_true, storeRevoke]; exact nodup_keys_filter' _ _ h

theorem step_inv (id v : Nat) (st : PLife) (op : POp) (h : PInv id v st) : PInv id v (st.step op) := by
  cases op with
  | keepAlive a =>
    simp only [PLife.step]
    split
    · exact h
    · exact reregister_inv id v st st.store [a] h.idv h.nodup h.bound
  | resume as =>
    simp only [PLife.step]
    split
    · exact h
    · exact reregister_inv id v st st.store as h.idv h.nodup h.bound
  | pause ok =>
    simp only [PLife.step]
    split
    · exact ⟨revoke_nodup st ok h.nodup, fun e he => h.bound e (revoke_sub st ok e he), h.idv, fun hr => by simp at hr⟩
    · exact h
  | stop ok =>
    simp only [PLife.step]
    split
    · exact ⟨revoke_nodup st ok h.nodup, fun e he => h.bound e (revoke_sub st ok e he), h.idv, fun hr => by simp at hr⟩
    · exact h
  | kaLoss ok as =>
    simp only [PLife.step]
    split
    · exact reregister_inv id v { st with running := false } (st.revoke ok) as h.idv (revoke_nodup st ok h.nodup)
        (fun e he => h.bound e (revoke_sub st ok e he))
    · exact h
  | expire =>
    simp only [PLife.step]
    refine ⟨nodup_keys_filter' _ _ h.nodup, fun e he => h.bound e (List.mem_filter.mp he).1, h.idv, fun hr => ?_⟩
    obtain ⟨a, b, c, d⟩ := h.live hr
    have hr' : st.running = true := hr
    refine ⟨a, b, ?_, fun e he hl => d e (List.mem_filter.mp he).1 hl⟩
    simp only [storeExpire, hr', if_true]
    exact List.mem_filter.mpr ⟨c, by simp [Pub.entry]⟩

theorem run_inv (id v : Nat) (ops : List POp) (st : PLife) (h : PInv id v st) : PInv id v (st.run ops) := by
  unfold PLife.run
  induction ops generalizing st with
  | nil => exact h
  | cons op t ih => exact ih _ (step_inv id v st op h)

end GoZero.C13
