/-
C13 — resolver subset and the Kubernetes endpoints handler.
-/
import GoZero.C13.Spec
namespace GoZero.C13
open Spec

theorem subset_spec (vals shuffled : List Nat) (hp : shuffled.Perm vals) (hn : vals.Nodup) :
    (vals.length ≤ 32 → ∀ v, v ∈ subset shuffled subsetSize ↔ v ∈ vals)
    ∧ (32 < vals.length → (subset shuffled subsetSize).length = 32)
    ∧ (∀ v, v ∈ subset shuffled subsetSize → v ∈ vals)
    ∧ (subset shuffled subsetSize).Nodup := by
  have hl : shuffled.length = vals.length := hp.length_eq
  have hnd : shuffled.Nodup := hp.nodup_iff.mpr hn
  unfold subset subsetSize
  refine ⟨?_, ?_, ?_, ?_⟩
  · intro h v
    rw [if_pos (by omega)]
    exact hp.mem_iff
  · intro h
    rw [if_neg (by omega), List.length_take]
    omega
  · intro v hv
    split at hv
    · exact hp.mem_iff.mp hv
    · exact hp.mem_iff.mp (List.mem_of_mem_take hv)
  · split
    · exact hnd
    · exact hnd.sublist (List.take_sublist _ _)

theorem mem_insertSortedNat (x y : Nat) (l : List Nat) : y ∈ insertSortedNat x l ↔ y = x ∨ y ∈ l := by
  induction l with
  | nil => simp [insertSortedNat]
  | cons a t ih =>
    unfold insertSortedNat
    by_cases h1 : x < a
    · simp [h1]
    · by_cases h2 : x = a
      · subst h2
        simp only [Nat.lt_irrefl, if_false, if_true, List.mem_cons]
        constructor
        · intro h; exact Or.inr h
        · rintro (h | h)
          · exact Or.inl h
          · exact h
      · simp only [h1, if_false, h2, List.mem_cons, ih]
        constructor
        · rintro (h | h | h)
          · exact Or.inr (Or.inl h)
          · exact Or.inl h
          · exact Or.inr (Or.inr h)
        · rintro (h | h | h)
          · exact Or.inr (Or.inl h)
          · exact Or.inl h
          · exact Or.inr (Or.inr h)

theorem mem_canonSet (l : List Nat) (y : Nat) : y ∈ canonSet l ↔ y ∈ l := by
  induction l with
  | nil => simp [canonSet]
  | cons a t ih =>
    unfold canonSet at ih ⊢
    simp only [List.foldr_cons, mem_insertSortedNat, ih, List.mem_cons]

/-! kube -/

theorem mem_foldl_insertNew (ips l : List Nat) (x : Nat) :
    x ∈ ips.foldl insertNew l ↔ x ∈ l ∨ x ∈ ips := by
  induction ips generalizing l with
  | nil => simp
  | cons a t ih =>
    simp only [List.foldl_cons, ih, List.mem_cons]
    unfold insertNew
    by_cases h : a ∈ l
    · simp only [h, if_true]
      constructor
      · rintro (h1 | h1)
        · exact Or.inl h1
        · exact Or.inr (Or.inr h1)
      · rintro (h1 | h1 | h1)
        · exact Or.inl h1
        · rw [h1]; exact Or.inl h
        · exact Or.inr h1
    · simp only [h, if_false, List.mem_append, List.mem_singleton]
      constructor
      · rintro ((h1 | h1) | h1)
        · exact Or.inl h1
        · exact Or.inr (Or.inl h1)
        · exact Or.inr (Or.inr h1)
      · rintro (h1 | h1 | h1)
        · exact Or.inl (Or.inl h1)
        · exact Or.inl (Or.inr h1)
        · exact Or.inr h1

theorem nodup_foldl_insertNew (ips l : List Nat) (h : l.Nodup) : (ips.foldl insertNew l).Nodup := by
  induction ips generalizing l with
  | nil => exact h
  | cons a t ih =>
    simp only [List.foldl_cons]
    apply ih
    unfold insertNew
    by_cases ha : a ∈ l
    · simp [ha, h]
    · simp only [ha, if_false]
      rw [List.nodup_append]
      refine ⟨h, by simp, ?_⟩
      intro x hx y hy
      simp at hy
      rw [hy]
      intro hxy; rw [hxy] at hx; exact ha hx

theorem foldl_insertNew_same (ips l : List Nat) (h : ∀ x ∈ ips, x ∈ l) : ips.foldl insertNew l = l := by
  induction ips with
  | nil => rfl
  | cons a t ih =>
    simp only [List.foldl_cons]
    have : insertNew l a = l := by unfold insertNew; simp [h a List.mem_cons_self]
    rw [this]
    exact ih (fun x hx => h x (List.mem_cons_of_mem _ hx))

/-- pigeonhole: a duplicate-free list contained in a duplicate-free list that is not longer contains it -/
theorem subset_of_length_le (l1 : List Nat) : ∀ (l2 : List Nat), l1.Nodup → l2.Nodup → (∀ x ∈ l1, x ∈ l2) →
    l2.length ≤ l1.length → ∀ x ∈ l2, x ∈ l1 := by
  induction l1 with
  | nil =>
    intro l2 _ _ _ hl x hx
    have : l2 = [] := List.eq_nil_of_length_eq_zero (by simpa using hl)
    rw [this] at hx; cases hx
  | cons a t ih =>
    intro l2 h1 h2 hs hl x hx
    have ha : a ∈ l2 := hs a List.mem_cons_self
    rw [List.nodup_cons] at h1
    have h2' : (l2.erase a).Nodup := h2.sublist (List.erase_sublist)
    have hlen : (l2.erase a).length = l2.length - 1 := List.length_erase_of_mem ha
    have hs' : ∀ y ∈ t, y ∈ l2.erase a := by
      intro y hy
      have hya : y ≠ a := by intro e; rw [e] at hy; exact h1.1 hy
      exact (List.mem_erase_of_ne hya).mpr (hs y (List.mem_cons_of_mem _ hy))
    have := ih (l2.erase a) h1.2 h2' hs' (by rw [hlen]; simp at hl; omega)
    by_cases hxa : x = a
    · rw [hxa]; exact List.mem_cons_self
    · exact List.mem_cons_of_mem _ (this x ((List.mem_erase_of_ne hxa).mpr hx))

structure KInv (h : Kube) (cur : List Nat) : Prop where
  nodup : h.endpoints.Nodup
  same : ∀ x, x ∈ h.endpoints ↔ x ∈ cur
  pub : match h.published with
        | none => h.endpoints = []
        | some p => ∀ x, x ∈ p ↔ x ∈ h.endpoints

theorem kinv_setAll (h : Kube) (cur ips : List Nat) (hi : KInv h cur) : KInv (h.setAll ips) ips := by
  unfold Kube.setAll
  have hn : (ips.foldl insertNew []).Nodup := nodup_foldl_insertNew ips [] (by simp)
  have hm : ∀ x, x ∈ ips.foldl insertNew [] ↔ x ∈ ips := by
    intro x; rw [mem_foldl_insertNew]; simp
  by_cases hd : kdiff h.endpoints (ips.foldl insertNew []) = true
  · simp only [hd, if_true, Kube.notify]
    exact ⟨hn, hm, fun x => Iff.rfl⟩
  · simp only [hd]
    refine ⟨hn, hm, ?_⟩
    have hd' : kdiff h.endpoints (ips.foldl insertNew []) = false := Bool.eq_false_iff.mpr hd
    unfold kdiff at hd'
    simp only [Bool.or_eq_false_iff, bne_eq_false_iff_eq, List.any_eq_false, Bool.not_eq_true',
      Bool.not_eq_false', List.contains_iff_mem, beq_iff_eq] at hd'
    obtain ⟨hlen, hsub⟩ := hd'
    have hsub' : ∀ x ∈ h.endpoints, x ∈ ips.foldl insertNew [] := by
      intro x hx
      have := hsub x hx
      simpa using this
    have hback := subset_of_length_le h.endpoints _ hi.nodup hn hsub' (by omega)
    have hp := hi.pub
    show match h.published with
      | none => ips.foldl insertNew [] = []
      | some p => ∀ x, x ∈ p ↔ x ∈ ips.foldl insertNew []
    cases hpub : h.published with
    | none =>
      rw [hpub] at hp
      simp only at hp ⊢
      rw [hp] at hlen
      exact List.eq_nil_of_length_eq_zero hlen.symm
    | some p =>
      rw [hpub] at hp
      simp only at hp ⊢
      intro x
      rw [hp x]
      exact ⟨hsub' x, hback x⟩

theorem kinv_step (h : Kube) (cur : List Nat) (hi : KInv h cur) (ev : KEv) :
    KInv (h.step ev) (kubeSet cur ev) := by
  cases ev with
  | add ips =>
    unfold Kube.step kubeSet
    have hn := nodup_foldl_insertNew ips h.endpoints hi.nodup
    have hm : ∀ x, x ∈ ips.foldl insertNew h.endpoints ↔ x ∈ cur ++ ips := by
      intro x; rw [mem_foldl_insertNew, List.mem_append, hi.same]
    by_cases hc : (ips.any fun x => !h.endpoints.contains x) = true
    · simp only [hc, if_true, Kube.notify]
      exact ⟨hn, hm, fun x => Iff.rfl⟩
    · simp only [hc]
      have hall : ∀ x ∈ ips, x ∈ h.endpoints := by
        intro x hx
        have hc' : (ips.any fun x => !h.endpoints.contains x) = false := Bool.eq_false_iff.mpr hc
        rw [List.any_eq_false] at hc'
        have := hc' x hx
        simpa using this
      have hsame := foldl_insertNew_same ips h.endpoints hall
      refine ⟨hn, hm, ?_⟩
      show match h.published with
        | none => ips.foldl insertNew h.endpoints = []
        | some p => ∀ x, x ∈ p ↔ x ∈ ips.foldl insertNew h.endpoints
      rw [hsame]; exact hi.pub
  | del ips =>
    unfold Kube.step kubeSet
    have hn : (h.endpoints.filter fun x => !ips.contains x).Nodup := hi.nodup.sublist (List.filter_sublist)
    have hm : ∀ x, x ∈ (h.endpoints.filter fun x => !ips.contains x) ↔ x ∈ cur.filter (fun x => !ips.contains x) := by
      intro x; simp only [List.mem_filter, hi.same]
    by_cases hc : (ips.any fun x => h.endpoints.contains x) = true
    · simp only [hc, if_true, Kube.notify]
      exact ⟨hn, hm, fun x => Iff.rfl⟩
    · simp only [hc]
      have hc' : (ips.any fun x => h.endpoints.contains x) = false := Bool.eq_false_iff.mpr hc
      rw [List.any_eq_false] at hc'
      have hsame : (h.endpoints.filter fun x => !ips.contains x) = h.endpoints := by
        rw [List.filter_eq_self]
        intro x hx
        simp only [Bool.not_eq_true', List.contains_eq_mem, decide_eq_false_iff_not]
        intro hxi
        have := hc' x hxi
        simp [hx] at this
      refine ⟨hn, hm, ?_⟩
      show match h.published with
        | none => (h.endpoints.filter fun x => !ips.contains x) = []
        | some p => ∀ x, x ∈ p ↔ x ∈ (h.endpoints.filter fun x => !ips.contains x)
      rw [hsame]; exact hi.pub
  | update same ips =>
    unfold Kube.step kubeSet
    cases same
    · simp only [Bool.false_eq_true, if_false]; exact kinv_setAll h cur ips hi
    · simp only [if_true]; exact hi
  | set ips => exact kinv_setAll h cur ips hi

theorem kube_spec (evs : List KEv) :
    let h := evs.foldl Kube.step {}
    (∀ x, x ∈ h.endpoints ↔ x ∈ evs.foldl kubeSet [])
    ∧ (match h.published with
       | none => h.endpoints = []
       | some p => ∀ x, x ∈ p ↔ x ∈ h.endpoints) := by
  have key : ∀ (evs : List KEv) (h : Kube) (cur : List Nat), KInv h cur →
      KInv (evs.foldl Kube.step h) (evs.foldl kubeSet cur) := by
    intro evs
    induction evs with
    | nil => intro h cur hi; exact hi
    | cons ev t ih => intro h cur hi; exact ih _ _ (kinv_step h cur hi ev)
  have := key evs {} [] ⟨by simp, by simp, by simp⟩
  exact ⟨this.same, this.pub⟩

end GoZero.C13
