-- Root of the GoZero library: every property's theorems, Tie obligations and driver.
import GoZero.Base.Trace
import GoZero.C12.Props
import GoZero.C12.Tie
import GoZero.C12.Driver
