import GoZero.C11.Proofs
namespace GoZero.C11

theorem getElem?_upd (s : St) (t : Nat) (th' : Thread) (u : Nat) :
    (s.upd t th').thr[u]? = if t = u then (if t < s.thr.length then some th' else none) else s.thr[u]? := by
  simp [St.upd, List.getElem?_set]

theorem inv_upd (s0 : St) (t : Nat) (th th' : Thread) (hth : s0.thr[t]? = some th)
    (hcons : ∀ x, s0.added.count x + th.reg.count x
        = s0.container.count x + cmdCount x s0 + held x s0 + s0.finished.count x + th'.reg.count x)
    (hothers : ∀ (u : Nat) (tu : Thread), s0.thr[u]? = some tu → holds tu.pc = false → tu.reg = [])
    (hnew : holds th'.pc = false → th'.reg = []) : Inv (s0.upd t th') := by
  constructor
  · intro x
    have h1 := hcons x
    have h2 := sumBy_set (fun th => th.reg.count x) hth th'
    have h3 := sumBy_mem_le (fun th => th.reg.count x) hth
    simp only [held, cmdCount, St.upd] at *
    omega
  · intro u tu hu hp
    rw [getElem?_upd] at hu
    split at hu
    · split at hu
      · simp at hu; subst hu; exact hnew hp
      · simp at hu
    · exact hothers u tu hu hp

theorem inv_step (cfg : Cfg) (s s' : St) (t : Nat) (a : Act) (hi : Inv s) (h : step cfg s t a = some s') : Inv s' := by
  unfold step at h
  split at h
  · simp at h; subst h; exact ⟨hi.cons, hi.empty⟩
  · split at h
    · simp at h
    · rename_i th hth
      have hreg := hi.empty t th hth
      unfold stepTh at h
      split at h
      all_goals (try (split at h))
      all_goals (try (simp only [reduceCtorEq] at h; done))
      all_goals (try (
        simp only [Option.some.injEq] at h
        subst h
        simp [*, holds] at hreg
        refine inv_upd _ t th _ hth ?_ hi.empty ?_
        · intro x
          have := hi.cons x
          simp [cmdCount, held, List.count_append, *] at *
          try omega
        · simp_all [holds]; done))
      all_goals (try (split at h))
      all_goals (try (
        simp only [Option.some.injEq] at h
        subst h
        simp [*, holds] at hreg
        refine inv_upd _ t th _ hth ?_ hi.empty ?_
        · intro x
          have := hi.cons x
          simp [cmdCount, held, List.count_append, *] at *
          try omega
        · simp_all [holds]; done))
      all_goals (trace_state; sorry)
