import GoZero.C16.ProofsConcObjs
open GoZero.C16
def sched : List (Nat × CMap.Op) :=
      [(0, .set 7 70), (0, .size), (0, .size), (0, .size), (0, .size), (0, .size),
        (0, .set 8 80), (0, .size), (0, .size), (0, .size), (0, .size), (0, .size),
        (1, .del 7), (2, .range), (1, .size), (1, .size), (1, .size), (1, .size), (1, .size), (1, .size), (1, .size),
        (1, .size), (1, .size), (1, .size), (1, .size)]
def show' (s : Conc.St SafeMap Loc CMap.Op) := (s.n, s.sh, s.writer, s.readers, (List.range 4).map (fun t => (toString (repr (s.pc t)), (s.loc t).pc)), s.rets.map fun r => (r.tid, r.pos, r.res.acc, r.res.res))
#eval (Conc.run (CMap.obj 1 2) (Conc.init SafeMap.init (.get 0) { pc := 0 }) sched).map show'
#eval (Conc.run (CMap.obj 1 2) (Conc.init SafeMap.init (.get 0) { pc := 0 }) (sched ++ [(2, .size)])).map show'
def sched2 := sched ++ [(1, .size), (2, .size), (3, .get 8), (3, .size), (2, .size), (2, .size), (3, .size), (3, .size), (2, .size), (2, .size), (2, .size)]
#eval (Conc.run (CMap.obj 1 2) (Conc.init SafeMap.init (.get 0) { pc := 0 }) sched2).map show'
example : ((Conc.run (CMap.obj 1 2) (Conc.init SafeMap.init (.get 0) { pc := 0 }) sched2).map
      fun s => (s.n, s.rets.map fun r => (r.tid, r.pos, r.res.acc, r.res.res))) = some (3, [(2, 3, [(8, 80)], none), (3, 3, [], some 80), (1, 2, [], none), (0, 1, [], none), (0, 0, [], none)]) := by
  decide
example : ((Conc.run (CMap.obj 1 2) (Conc.init SafeMap.init (.get 0) { pc := 0 }) sched2).map
      fun s => ((s.n, s.rets.map fun r => (r.tid, r.pos, r.res.acc, r.res.res)) : Nat × List (Nat × Nat × List (Nat × Nat) × Option Nat))) = some (3, [(2, 3, [(8, 80)], none), (3, 3, [], some 80), (1, 2, [], none), (0, 1, [], none), (0, 0, [], none)]) := by
  decide
example : (match Conc.run (CMap.obj 1 2) (Conc.init SafeMap.init (.get 0) { pc := 0 }) sched2 with
    | some s => s.n == 3 && (s.rets.map fun r => (r.tid, r.pos, r.res.acc, r.res.res)) == [(2, 3, [(8, 80)], none), (3, 3, [], some 80), (1, 2, [], none), (0, 1, [], none), (0, 0, [], none)]
    | none => false) = true := by
  decide
