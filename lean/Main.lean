import GoZero.Base.Trace
import GoZero.C12.Driver

open GoZero

def drivers : List (String × (List Section → Report)) := [
  ("C12", GoZero.C12.driver)
]

def main (args : List String) : IO UInt32 := do
  match args with
  | [prop, file] =>
    match drivers.lookup prop with
    | none => IO.eprintln s!"no driver for {prop}"; return 2
    | some d =>
      let txt ← IO.FS.readFile file
      let secs := parseSections (txt.splitOn "\n")
      let rep := d secs
      for m in rep.mismatches do IO.println m
      for m in rep.monitor do IO.println m
      let cov := ",".intercalate (rep.cover.map fun (k, n) => s!"{k}:{n}")
      IO.println s!"SUMMARY sections={secs.length} ops={rep.ops} mismatches={rep.mismatches.size} monitor={rep.monitor.size} cover={cov}"
      return 0
  | _ => IO.eprintln "usage: gzdriver <Cxx> <trace-file>"; return 2
