#!/bin/sh
# MANIFEST.setup_cmd: offline build of the framework from files on disk only.
set -e
cd "$(dirname "$0")"
export GOFLAGS=-mod=mod GOPROXY=off GOSUMDB=off GOTOOLCHAIN=local
mkdir -p .work/bin evidence replays
(cd extract && go build -o ../.work/bin/extract .)
python3 tools/gen_roots.py
# regenerate every Extracted/*.lean from the current tree, then build all Lean modules and the driver
rm -f lean/GoZero/Extracted/*.lean
./.work/bin/extract -repo "${VERIF_REPO:-/repo}" -out "$(pwd)/lean/GoZero/Extracted"
(cd lean && lake build GoZero gzdriver)
echo "setup ok"
