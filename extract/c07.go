package main

import (
	"fmt"
	"go/ast"
	"go/token"
	"strings"
)

// c07 skeletons: the generic skeleton (shape.go) plus what C07's model depends on and shape.go drops:
//   - labelled statements and `goto <label>`           (lockedGroup.Do's retry loop)
//   - map reads   `c, ok := g.calls[key]`  -> "mapget g.calls[key]"
//   - allocations `c = new(call)` / `var wg sync.WaitGroup` -> "new c" / "var wg"
//   - returned expressions `return c.val, false, c.err` (which caller is reported fresh)
//   - the arguments of delete / map stores (delete(g.calls, key): the key, not just the map)
type c07Shaper struct {
	s   *source
	out []string
}

func (w *c07Shaper) emit(t string) { w.out = append(w.out, t) }

func (w *c07Shaper) expr(e ast.Expr) {
	ast.Inspect(e, func(n ast.Node) bool {
		switch x := n.(type) {
		case *ast.FuncLit:
			w.emit("func{")
			w.block(x.Body.List)
			w.emit("}")
			return false
		case *ast.UnaryExpr:
			if x.Op == token.ARROW {
				w.emit("recv " + w.s.src(x.X))
			}
		case *ast.CallExpr:
			for _, a := range x.Args {
				w.expr(a)
			}
			if fl, ok := x.Fun.(*ast.FuncLit); ok {
				w.emit("func{")
				w.block(fl.Body.List)
				w.emit("}")
				w.emit("call func")
				return false
			}
			if sel, ok := x.Fun.(*ast.SelectorExpr); ok {
				w.expr(sel.X)
			}
			if id, ok := x.Fun.(*ast.Ident); ok && id.Name == "delete" && len(x.Args) == 2 {
				w.emit("delete " + w.s.src(x.Args[0]) + "[" + w.s.src(x.Args[1]) + "]")
				return false
			}
			if id, ok := x.Fun.(*ast.Ident); ok && (id.Name == "new" || id.Name == "make") {
				return false
			}
			if tok, ok := w.s.callTok(x); ok && !boringCall(tok) {
				var as []string
				for _, a := range x.Args {
					if _, isFn := a.(*ast.FuncLit); isFn {
						as = append(as, "func")
					} else {
						as = append(as, w.s.src(a))
					}
				}
				w.emit(tok + "(" + strings.Join(as, ", ") + ")")
			}
			return false
		}
		return true
	})
}

func (w *c07Shaper) block(list []ast.Stmt) {
	for _, st := range list {
		w.stmt(st)
	}
}

func (w *c07Shaper) stmt(st ast.Stmt) {
	s := w.s
	switch x := st.(type) {
	case *ast.ExprStmt:
		w.expr(x.X)
	case *ast.AssignStmt:
		for _, r := range x.Rhs {
			if ix, ok := r.(*ast.IndexExpr); ok {
				w.emit("mapget " + s.src(ix))
				continue
			}
			if c, ok := r.(*ast.CallExpr); ok {
				if id, ok := c.Fun.(*ast.Ident); ok && id.Name == "new" && len(x.Lhs) == 1 {
					w.emit("new " + s.src(x.Lhs[0]))
					continue
				}
			}
			w.expr(r)
		}
		for _, l := range x.Lhs {
			if ix, ok := l.(*ast.IndexExpr); ok {
				w.emit("mapset " + s.src(ix) + " = " + s.src(x.Rhs[len(x.Rhs)-1]))
			} else if sel, ok := l.(*ast.SelectorExpr); ok {
				w.emit("store " + s.src(sel))
			}
		}
	case *ast.DeclStmt:
		if gd, ok := x.Decl.(*ast.GenDecl); ok && gd.Tok == token.VAR {
			for _, sp := range gd.Specs {
				vs := sp.(*ast.ValueSpec)
				for _, n := range vs.Names {
					w.emit("var " + n.Name)
				}
			}
		}
	case *ast.DeferStmt:
		w.emit("defer{")
		w.expr(x.Call)
		w.emit("}")
	case *ast.GoStmt:
		w.emit("go{")
		w.expr(x.Call)
		w.emit("}")
	case *ast.ReturnStmt:
		var rs []string
		for _, r := range x.Results {
			if _, isCall := r.(*ast.CallExpr); isCall {
				w.expr(r)
				rs = append(rs, "<call>")
			} else if _, isTA := r.(*ast.TypeAssertExpr); isTA {
				rs = append(rs, s.src(r))
			} else {
				rs = append(rs, s.src(r))
			}
		}
		w.emit(strings.TrimSpace("return " + strings.Join(rs, ", ")))
	case *ast.BlockStmt:
		w.block(x.List)
	case *ast.IfStmt:
		if x.Init != nil {
			w.stmt(x.Init)
		}
		w.emit("if " + s.src(x.Cond) + " {")
		w.block(x.Body.List)
		w.emit("}")
		if x.Else != nil {
			w.emit("else{")
			w.stmt(x.Else)
			w.emit("}")
		}
	case *ast.ForStmt:
		hdr := "for"
		if x.Cond != nil {
			hdr += " " + s.src(x.Cond)
		}
		w.emit(hdr + " {")
		w.block(x.Body.List)
		w.emit("}")
	case *ast.RangeStmt:
		w.emit("range " + s.src(x.X) + " {")
		w.block(x.Body.List)
		w.emit("}")
	case *ast.LabeledStmt:
		w.emit("label " + x.Label.Name)
		w.stmt(x.Stmt)
	case *ast.BranchStmt:
		if x.Label != nil {
			w.emit(x.Tok.String() + " " + x.Label.Name)
		} else {
			w.emit(x.Tok.String())
		}
	case *ast.SelectStmt, *ast.SwitchStmt, *ast.TypeSwitchStmt, *ast.SendStmt:
		// none of these occurs in the anchored functions today; if one appears the skeleton must change
		w.emit("UNSUPPORTED " + s.src(st))
	}
}

func c07Shape(s *source, e *emitter, rel, goName, leanName string) {
	fd := s.findFunc(rel, goName)
	if fd == nil {
		e.errors = append(e.errors, "function "+goName+" not found in "+rel)
		e.stringList(leanName, "MISSING: "+goName+" in "+rel, []string{"MISSING"})
		return
	}
	w := &c07Shaper{s: s}
	w.block(fd.Body.List)
	e.stringList(leanName, "synchronisation skeleton of `"+goName+"` in "+rel, w.out)
}

// c07Calls lists, in source order, the calls inside goName whose callee text contains `needle`
// (receiver chain included), with their arguments (function literals as "func").
func c07Calls(s *source, e *emitter, rel, goName, needle, leanName string) {
	fd := s.findFunc(rel, goName)
	if fd == nil {
		e.errors = append(e.errors, "function "+goName+" not found in "+rel)
		e.stringList(leanName, "MISSING: "+goName+" in "+rel, []string{"MISSING"})
		return
	}
	var out []string
	ast.Inspect(fd.Body, func(n ast.Node) bool {
		if c, ok := n.(*ast.CallExpr); ok {
			name := s.src(c.Fun)
			if _, isLit := c.Fun.(*ast.FuncLit); !isLit && strings.Contains(name, needle) {
				var as []string
				for _, a := range c.Args {
					if _, isFn := a.(*ast.FuncLit); isFn {
						as = append(as, "func")
					} else {
						as = append(as, s.src(a))
					}
				}
				out = append(out, name+"("+strings.Join(as, ", ")+")")
			}
		}
		return true
	})
	e.stringList(leanName, "calls of `"+needle+"` in `"+goName+"` ("+rel+")", out)
}

// c07Fields lists `name type` of the fields of struct typeName (the synchronisation objects' types are part
// of what the model's rows mean: sync.Mutex, sync.WaitGroup, sync.RWMutex, map[string]…).
func c07Fields(s *source, e *emitter, rel, typeName, leanName string) {
	f := s.file(rel)
	var out []string
	found := false
	if f != nil {
		ast.Inspect(f, func(n ast.Node) bool {
			ts, ok := n.(*ast.TypeSpec)
			if !ok || ts.Name.Name != typeName {
				return true
			}
			st, ok := ts.Type.(*ast.StructType)
			if !ok {
				return true
			}
			found = true
			for _, fl := range st.Fields.List {
				for _, nm := range fl.Names {
					out = append(out, nm.Name+" "+s.src(fl.Type))
				}
				if len(fl.Names) == 0 {
					out = append(out, "(embedded) "+s.src(fl.Type))
				}
			}
			return false
		})
	}
	if !found {
		e.errors = append(e.errors, "struct "+typeName+" not found in "+rel)
		out = []string{"MISSING"}
	}
	e.stringList(leanName, "fields of `"+typeName+"` in "+rel, out)
}

// c07Uses lists, in source order, every call in the FILE (any function, any package-level initialiser) whose
// callee text contains `needle` or one of whose arguments is exactly `needle`, as "<enclosing func>: callee(args)".
func c07Uses(s *source, e *emitter, rel, needle, leanName string) {
	f := s.file(rel)
	var out []string
	if f == nil {
		e.errors = append(e.errors, "file "+rel+" not found")
		out = []string{"MISSING"}
	} else {
		for _, d := range f.Decls {
			where := "(package)"
			if fd, ok := d.(*ast.FuncDecl); ok {
				where = fd.Name.Name
			}
			ast.Inspect(d, func(n ast.Node) bool {
				c, ok := n.(*ast.CallExpr)
				if !ok {
					return true
				}
				if _, isLit := c.Fun.(*ast.FuncLit); isLit {
					return true
				}
				name := s.src(c.Fun)
				hit := strings.Contains(name, needle)
				var as []string
				for _, a := range c.Args {
					if _, isFn := a.(*ast.FuncLit); isFn {
						as = append(as, "func")
					} else {
						as = append(as, s.src(a))
						if s.src(a) == needle {
							hit = true
						}
					}
				}
				if hit {
					out = append(out, where+": "+name+"("+strings.Join(as, ", ")+")")
				}
				return true
			})
		}
	}
	e.stringList(leanName, "uses of `"+needle+"` in "+rel, out)
}

// c07VarInits lists `name = <initialiser>` of the package-level variables of the file whose initialiser
// contains `needle`.
func c07VarInits(s *source, e *emitter, rel, needle, leanName string) {
	f := s.file(rel)
	var out []string
	if f == nil {
		e.errors = append(e.errors, "file "+rel+" not found")
		out = []string{"MISSING"}
	} else {
		for _, d := range f.Decls {
			gd, ok := d.(*ast.GenDecl)
			if !ok || gd.Tok != token.VAR {
				continue
			}
			for _, sp := range gd.Specs {
				vs := sp.(*ast.ValueSpec)
				for i, n := range vs.Names {
					if i < len(vs.Values) && strings.Contains(s.src(vs.Values[i]), needle) {
						out = append(out, n.Name+" = "+s.src(vs.Values[i]))
					}
				}
			}
		}
	}
	e.stringList(leanName, "package variables initialised with `"+needle+"` in "+rel, out)
}


// c07LitFields lists `field: value` of the (first) composite literal of type typ inside goName: which flight group /
// map / redis handle a constructor wires into the object.
func c07LitFields(s *source, e *emitter, rel, goName, typ, leanName string) {
	fd := s.findFunc(rel, goName)
	var out []string
	found := false
	if fd != nil {
		ast.Inspect(fd.Body, func(n ast.Node) bool {
			cl, ok := n.(*ast.CompositeLit)
			if !ok || found || cl.Type == nil || s.src(cl.Type) != typ {
				return true
			}
			found = true
			for _, el := range cl.Elts {
				if kv, ok := el.(*ast.KeyValueExpr); ok {
					out = append(out, s.src(kv.Key)+": "+s.src(kv.Value))
				} else {
					out = append(out, s.src(el))
				}
			}
			return false
		})
	}
	if !found {
		e.errors = append(e.errors, "composite literal "+typ+" not found in "+goName+" ("+rel+")")
		out = []string{"MISSING"}
	}
	e.stringList(leanName, "fields of the `"+typ+"` literal in `"+goName+"` ("+rel+")", out)
}

// c07Cond translates a Go condition over boolean identifiers, `x != nil` / `x == nil`, `!`, `&&`, `||` into a Lean
// Bool term; the atoms it mentions are appended to used.
func c07Cond(s *source, x ast.Expr, used *[]string) (string, bool) {
	switch v := x.(type) {
	case *ast.ParenExpr:
		t, ok := c07Cond(s, v.X, used)
		return "(" + t + ")", ok
	case *ast.Ident:
		if v.Name == "true" || v.Name == "false" {
			return v.Name, true
		}
		*used = append(*used, v.Name)
		return v.Name, true
	case *ast.UnaryExpr:
		if v.Op == token.NOT {
			t, ok := c07Cond(s, v.X, used)
			return "(!" + t + ")", ok
		}
	case *ast.BinaryExpr:
		if v.Op == token.LAND || v.Op == token.LOR {
			a, ok1 := c07Cond(s, v.X, used)
			b, ok2 := c07Cond(s, v.Y, used)
			op := " && "
			if v.Op == token.LOR {
				op = " || "
			}
			return "(" + a + op + b + ")", ok1 && ok2
		}
		if id, ok := v.X.(*ast.Ident); ok && s.src(v.Y) == "nil" && (v.Op == token.NEQ || v.Op == token.EQL) {
			a := id.Name + "NonNil"
			*used = append(*used, a)
			if v.Op == token.EQL {
				return "(!" + a + ")", true
			}
			return a, true
		}
	}
	return "false", false
}

// c07Branches translates the decision structure of goName (lit: of the first function literal in it) — a sequence of
// `if <cond> { …; return … | goto L }` statements without else, other statements in between, and a final return —
// into
//
//	def <lean> (atoms… : Bool) : Nat        index of the exit taken (0, 1, …; the final return is the last index)
//	def <lean>Exits : List String           the return / goto statement of every exit, in order
//
// so that Tie.lean can prove, for ALL values of the atoms, that the model branches exactly as the code does.
func c07Branches(s *source, e *emitter, rel, goName string, lit bool, leanName string, atoms []string) {
	fd := s.findFunc(rel, goName)
	fail := func(msg string) {
		e.errors = append(e.errors, "c07Branches "+goName+" ("+rel+"): "+msg)
		e.printf("/-- MISSING: %s -/\ndef %s : Nat := 999999\n\n", msg, leanName)
		e.stringList(leanName+"Exits", "MISSING", []string{"MISSING"})
	}
	if fd == nil {
		fail("function not found")
		return
	}
	list := fd.Body.List
	if lit {
		var fl *ast.FuncLit
		ast.Inspect(fd.Body, func(n ast.Node) bool {
			if x, ok := n.(*ast.FuncLit); ok && fl == nil {
				fl = x
				return false
			}
			return true
		})
		if fl == nil {
			fail("no function literal")
			return
		}
		list = fl.Body.List
	}
	exitOf := func(st ast.Stmt) (string, bool) {
		switch x := st.(type) {
		case *ast.ReturnStmt:
			var rs []string
			for _, r := range x.Results {
				rs = append(rs, s.src(r))
			}
			return strings.TrimSpace("return " + strings.Join(rs, ", ")), true
		case *ast.BranchStmt:
			if x.Tok == token.GOTO && x.Label != nil {
				return "goto " + x.Label.Name, true
			}
		}
		return "", false
	}
	var conds, exits []string
	var used []string
	done := false
	var walk func(list []ast.Stmt) bool
	walk = func(list []ast.Stmt) bool {
		for _, st := range list {
			if done {
				fail("statement after the final return")
				return false
			}
			if ls, ok := st.(*ast.LabeledStmt); ok {
				st = ls.Stmt
			}
			switch x := st.(type) {
			case *ast.IfStmt:
				if x.Else != nil || len(x.Body.List) == 0 {
					fail("if with else / empty body")
					return false
				}
				ex, ok := exitOf(x.Body.List[len(x.Body.List)-1])
				if !ok {
					fail("if body does not end in return / goto: " + s.src(x.Cond))
					return false
				}
				c, ok := c07Cond(s, x.Cond, &used)
				if !ok {
					fail("condition outside the translated subset: " + s.src(x.Cond))
					return false
				}
				conds = append(conds, c)
				exits = append(exits, ex)
			case *ast.ReturnStmt:
				ex, _ := exitOf(x)
				exits = append(exits, ex)
				done = true
			case *ast.ForStmt, *ast.RangeStmt, *ast.SwitchStmt, *ast.SelectStmt, *ast.TypeSwitchStmt, *ast.BlockStmt:
				fail("control statement outside the translated subset")
				return false
			}
		}
		return true
	}
	if !walk(list) {
		return
	}
	if !done {
		fail("no final return")
		return
	}
	isAtom := map[string]bool{}
	for _, a := range atoms {
		isAtom[a] = true
	}
	for _, u := range used {
		if !isAtom[u] {
			fail("condition mentions `" + u + "`, not one of the declared atoms")
			return
		}
	}
	e.printf("/-- exit taken by `%s`%s in %s (translated from the `if` conditions) -/\ndef %s", goName,
		map[bool]string{true: "'s function literal", false: ""}[lit], rel, leanName)
	for _, a := range atoms {
		e.printf(" (%s : Bool)", a)
	}
	e.printf(" : Nat :=\n  ")
	for i, c := range conds {
		e.printf("if %s = true then %d else ", c, i)
	}
	e.printf("%d\n\n", len(conds))
	e.stringList(leanName+"Exits", "the exits of `"+goName+"` in source order", exits)
}

// c07IntArgs lists the integer literal arguments of the calls in goName whose callee text ends with suffix
// (`wg.Add(1)`: the amount the wait group is incremented by).
func c07IntArgs(s *source, e *emitter, rel, goName, suffix, leanName string) {
	fd := s.findFunc(rel, goName)
	var out []string
	if fd == nil {
		e.errors = append(e.errors, "function "+goName+" not found in "+rel)
	} else {
		ast.Inspect(fd.Body, func(n ast.Node) bool {
			if c, ok := n.(*ast.CallExpr); ok && strings.HasSuffix(s.src(c.Fun), suffix) {
				for _, a := range c.Args {
					if bl, ok := a.(*ast.BasicLit); ok && bl.Kind == token.INT {
						out = append(out, bl.Value)
					} else {
						out = append(out, "-999999")
						e.errors = append(e.errors, "non-literal argument of "+suffix+" in "+goName)
					}
				}
			}
			return true
		})
	}
	e.printf("/-- integer arguments of `%s` calls in `%s` (%s) -/\ndef %s : List Int := [%s]\n\n", suffix, goName, rel,
		leanName, strings.Join(out, ", "))
}

// ---- round 5: typed effect lists and forwarded argument lists

// c07EffType emits the inductive type of the effects (once).
func c07EffType(e *emitter) {
	e.printf(`/-- one synchronisation / memory effect of a statement, as read from the source (extract/c07.go c07Effects) -/
inductive Eff
  | lock (m : String) | unlock (m : String) | rlock (m : String) | runlock (m : String)
  | mapGet (m k : String) | mapSet (m k v : String) | mapDel (m k : String)
  | wgAdd (w : String) (n : Int) | wgDone (w : String) | wgWait (w : String)
  | alloc (x : String) | callFn | call (f : String) | store (f : String)
  | deferBegin | funcBegin | close | callLit | elseBegin
  | ifc (c : String) | ret (r : String) | label (l : String) | goto_ (l : String) | other (s : String)
  deriving DecidableEq, Repr

`)
}

func c07EffOfToken(t string) string {
	q := leanString
	cut := func(s, pre, suf string) (string, bool) {
		if strings.HasPrefix(s, pre) && strings.HasSuffix(s, suf) && len(s) >= len(pre)+len(suf) {
			return s[len(pre) : len(s)-len(suf)], true
		}
		return "", false
	}
	switch t {
	case "defer{":
		return ".deferBegin"
	case "func{":
		return ".funcBegin"
	case "}":
		return ".close"
	case "call func":
		return ".callLit"
	case "else{":
		return ".elseBegin"
	case "call fn()":
		return ".callFn"
	}
	for _, m := range []struct{ suf, ctor string }{{".RLock()", ".rlock"}, {".RUnlock()", ".runlock"}, {".Lock()", ".lock"}, {".Unlock()", ".unlock"},
		{".Done()", ".wgDone"}, {".Wait()", ".wgWait"}} {
		if x, ok := cut(t, "call ", m.suf); ok {
			return m.ctor + " " + q(x)
		}
	}
	if x, ok := cut(t, "call ", ")"); ok {
		if i := strings.Index(x, ".Add("); i >= 0 {
			n := x[i+5:]
			isInt := n != ""
			for _, ch := range n {
				if ch < '0' || ch > '9' {
					isInt = false
				}
			}
			if isInt {
				return ".wgAdd " + q(x[:i]) + " " + n
			}
		}
		return ".call " + q(x+")")
	}
	if x, ok := cut(t, "mapget ", "]"); ok {
		if i := strings.Index(x, "["); i >= 0 {
			return ".mapGet " + q(x[:i]) + " " + q(x[i+1:])
		}
	}
	if x, ok := cut(t, "delete ", "]"); ok {
		if i := strings.Index(x, "["); i >= 0 {
			return ".mapDel " + q(x[:i]) + " " + q(x[i+1:])
		}
	}
	if x, ok := cut(t, "mapset ", ""); ok {
		i, j := strings.Index(x, "["), strings.Index(x, "] = ")
		if i >= 0 && j > i {
			return ".mapSet " + q(x[:i]) + " " + q(x[i+1:j]) + " " + q(x[j+4:])
		}
	}
	if x, ok := cut(t, "new ", ""); ok {
		return ".alloc " + q(x)
	}
	if x, ok := cut(t, "var ", ""); ok {
		return ".alloc " + q(x)
	}
	if x, ok := cut(t, "store ", ""); ok {
		return ".store " + q(x)
	}
	if x, ok := cut(t, "if ", " {"); ok {
		return ".ifc " + q(x)
	}
	if x, ok := cut(t, "return", ""); ok {
		return ".ret " + q(strings.TrimSpace(x))
	}
	if x, ok := cut(t, "label ", ""); ok {
		return ".label " + q(x)
	}
	if x, ok := cut(t, "goto ", ""); ok {
		return ".goto_ " + q(x)
	}
	return ".other " + q(t)
}

// c07Effects emits the ORDER OF EFFECTS of goName as a typed list (`List Eff`): lock / unlock with the mutex, map read /
// write / delete with map and key, wait-group Add (with its literal amount) / Done / Wait, allocation, the call of the
// user's function, stores, defer / literal brackets, conditions and returns.
func c07Effects(s *source, e *emitter, rel, goName, leanName string) {
	fd := s.findFunc(rel, goName)
	if fd == nil {
		e.errors = append(e.errors, "function "+goName+" not found in "+rel)
		e.printf("/-- MISSING: %s in %s -/\ndef %s : List Eff := [.other \"MISSING\"]\n\n", goName, rel, leanName)
		return
	}
	w := &c07Shaper{s: s}
	w.block(fd.Body.List)
	e.printf("/-- order of effects of `%s` in %s -/\ndef %s : List Eff := [", goName, rel, leanName)
	for i, t := range w.out {
		if i > 0 {
			e.printf(",")
		}
		e.printf("\n  %s", c07EffOfToken(t))
	}
	e.printf("]\n\n")
}

// c07Forward emits, for the first call in goName (lit: inside its n-th function literal, 1-based; 0: anywhere outside
// literals is not required - the first match in source order wins) whose callee text ends with calleeSuffix, where
// every argument comes from:  i >= 0  the i-th parameter of goName;  100+j  the j-th parameter of the enclosing function
// literal;  -2  context.Background();  -3  a function literal;  -1  anything else (a local, a computed value).
func c07Forward(s *source, e *emitter, rel, goName, calleeSuffix string, lit int, leanName string) {
	fd := s.findFunc(rel, goName)
	fail := func(msg string) {
		e.errors = append(e.errors, "c07Forward "+goName+" -> "+calleeSuffix+" ("+rel+"): "+msg)
		e.printf("/-- MISSING: %s -/\ndef %s : List Int := [-999999]\n\n", msg, leanName)
	}
	if fd == nil {
		fail("function not found")
		return
	}
	params := map[string]int{}
	n := 0
	for _, f := range fd.Type.Params.List {
		for _, nm := range f.Names {
			params[nm.Name] = n
			n++
		}
	}
	var root ast.Node = fd.Body
	lparams := map[string]int{}
	if lit > 0 {
		k := 0
		var fl *ast.FuncLit
		ast.Inspect(fd.Body, func(nd ast.Node) bool {
			if x, ok := nd.(*ast.FuncLit); ok {
				k++
				if k == lit {
					fl = x
				}
			}
			return true
		})
		if fl == nil {
			fail("function literal not found")
			return
		}
		root = fl.Body
		j := 0
		for _, f := range fl.Type.Params.List {
			for _, nm := range f.Names {
				lparams[nm.Name] = j
				j++
			}
		}
	}
	var call *ast.CallExpr
	ast.Inspect(root, func(nd ast.Node) bool {
		if lit == 0 {
			if _, ok := nd.(*ast.FuncLit); ok {
				return false
			}
		}
		if c, ok := nd.(*ast.CallExpr); ok && call == nil && strings.HasSuffix(s.src(c.Fun), calleeSuffix) {
			call = c
		}
		return true
	})
	if call == nil {
		fail("call not found")
		return
	}
	var out []string
	for _, a := range call.Args {
		code := -1
		switch x := a.(type) {
		case *ast.Ident:
			if j, ok := lparams[x.Name]; ok {
				code = 100 + j
			} else if i, ok := params[x.Name]; ok {
				code = i
			}
		case *ast.FuncLit:
			code = -3
		case *ast.CallExpr:
			if s.src(x) == "context.Background()" {
				code = -2
			}
		}
		out = append(out, fmt.Sprint(code))
	}
	e.printf("/-- where the arguments of `%s(…)` in `%s` (%s) come from -/\ndef %s : List Int := [%s]\n\n",
		s.src(call.Fun), goName, rel, leanName, strings.Join(out, ", "))
}

// c07DecisionTree translates the decision structure of goName (lit > 0: of its lit-th function literal) — nested
// `if / else if / else` statements with returns anywhere, other statements in between, a final return — into
//
//	def <lean> (atoms… : Bool) : Nat        index of the return statement reached (numbered in source order)
//	def <lean>Exits : List String           the text of every return statement, by index
//	def <lean>Atoms : List String           the source text of every atom, in the order of the parameters
//
// Conditions are built from `!`, `&&`, `||` and parentheses; every other sub-expression (`err != nil`,
// `errors.Is(err, x)`, an identifier) is an ATOM named by the caller, in pre-order of the `if` statements (an `if`
// without any return inside is skipped but still consumes its atoms, so that the names stay aligned with the source).
// A variable that is re-assigned between two conditions therefore gives two different atoms.
func c07DecisionTree(s *source, e *emitter, rel, goName string, lit int, leanName string, atoms []string) {
	fd := s.findFunc(rel, goName)
	fail := func(msg string) {
		e.errors = append(e.errors, "c07DecisionTree "+goName+" ("+rel+"): "+msg)
		e.printf("/-- MISSING: %s -/\ndef %s : Nat := 999999\n\n", msg, leanName)
		e.stringList(leanName+"Exits", "MISSING", []string{"MISSING"})
		e.stringList(leanName+"Atoms", "MISSING", []string{"MISSING"})
	}
	if fd == nil {
		fail("function not found")
		return
	}
	list := fd.Body.List
	if lit > 0 {
		k := 0
		var fl *ast.FuncLit
		ast.Inspect(fd.Body, func(nd ast.Node) bool {
			if x, ok := nd.(*ast.FuncLit); ok {
				k++
				if k == lit {
					fl = x
				}
			}
			return true
		})
		if fl == nil {
			fail("function literal not found")
			return
		}
		list = fl.Body.List
	}
	// number the returns in source order (function literals nested deeper are not entered)
	exitIdx := map[token.Pos]int{}
	var exits []string
	var number func(n ast.Node)
	number = func(n ast.Node) {
		ast.Inspect(n, func(nd ast.Node) bool {
			switch x := nd.(type) {
			case *ast.FuncLit:
				return false
			case *ast.ReturnStmt:
				var rs []string
				for _, r := range x.Results {
					rs = append(rs, s.src(r))
				}
				exitIdx[x.Pos()] = len(exits)
				exits = append(exits, strings.TrimSpace("return "+strings.Join(rs, ", ")))
			}
			return true
		})
	}
	for _, st := range list {
		number(st)
	}
	hasReturn := func(n ast.Node) bool {
		found := false
		ast.Inspect(n, func(nd ast.Node) bool {
			switch nd.(type) {
			case *ast.FuncLit:
				return false
			case *ast.ReturnStmt:
				found = true
			}
			return true
		})
		return found
	}
	next := 0
	var atomSrc []string
	bad := ""
	var cond func(x ast.Expr) string
	cond = func(x ast.Expr) string {
		switch v := x.(type) {
		case *ast.ParenExpr:
			return "(" + cond(v.X) + ")"
		case *ast.UnaryExpr:
			if v.Op == token.NOT {
				return "(!" + cond(v.X) + ")"
			}
		case *ast.BinaryExpr:
			if v.Op == token.LAND {
				return "(" + cond(v.X) + " && " + cond(v.Y) + ")"
			}
			if v.Op == token.LOR {
				return "(" + cond(v.X) + " || " + cond(v.Y) + ")"
			}
		}
		if next >= len(atoms) {
			bad = "more atoms in the source than names given: " + s.src(x)
			return "false"
		}
		a := atoms[next]
		next++
		atomSrc = append(atomSrc, s.src(x))
		return a
	}
	var walk func(list []ast.Stmt, cont func() string) string
	walk = func(list []ast.Stmt, cont func() string) string {
		if len(list) == 0 {
			return cont()
		}
		rest := func() string { return walk(list[1:], cont) }
		st := list[0]
		if ls, ok := st.(*ast.LabeledStmt); ok {
			st = ls.Stmt
		}
		switch x := st.(type) {
		case *ast.ReturnStmt:
			return fmt.Sprint(exitIdx[x.Pos()])
		case *ast.BlockStmt:
			return walk(x.List, rest)
		case *ast.IfStmt:
			c := cond(x.Cond)
			if !hasReturn(x) {
				// (its atoms are consumed; nested conditions of a return-free if are not named)
				return rest()
			}
			thenE := walk(x.Body.List, rest)
			var elseE string
			if x.Else != nil {
				elseE = walk([]ast.Stmt{x.Else}, rest)
			} else {
				elseE = rest()
			}
			return "(if " + c + " = true then " + thenE + " else " + elseE + ")"
		case *ast.ForStmt, *ast.RangeStmt, *ast.SwitchStmt, *ast.SelectStmt, *ast.TypeSwitchStmt:
			if hasReturn(x) {
				bad = "return inside a loop / switch: outside the translated subset"
			}
			return rest()
		}
		return rest()
	}
	body := walk(list, func() string { bad = "control reaches the end without a return"; return "999999" })
	if bad != "" {
		fail(bad)
		return
	}
	if next != len(atoms) {
		fail(fmt.Sprintf("%d atom names given, %d atoms in the source", len(atoms), next))
		return
	}
	e.printf("/-- index of the return statement `%s`%s in %s reaches (translated from its if / else-if tree) -/\ndef %s", goName,
		map[bool]string{true: "'s function literal", false: ""}[lit > 0], rel, leanName)
	for _, a := range atoms {
		e.printf(" (%s : Bool)", a)
	}
	e.printf(" : Nat :=\n  %s\n\n", body)
	e.stringList(leanName+"Exits", "the return statements of `"+goName+"` in source order", exits)
	e.stringList(leanName+"Atoms", "the source text of the atoms of `"+leanName+"`, in parameter order", atomSrc)
}

// c07AllocType emits the inductive type describing where the value of a constructor's field comes from (once).
func c07AllocType(e *emitter) {
	e.printf(`/-- where the value a constructor puts into a field comes from (extract/c07.go c07Allocs) -/
inductive Alloc
  | fresh (callee : String)   -- a call evaluated at every construction (make, new, NewSingleFlight(), …) or a literal
  | param (i : Nat)           -- the i-th parameter of the constructor: the caller's object
  | global (name : String)    -- a package-level variable: ONE object shared by everything the constructor ever builds
  | other (src : String)
  deriving DecidableEq, Repr

`)
}

// c07Allocs emits `(field, Alloc)` for every field of the (first) composite literal of type typ in goName.
func c07Allocs(s *source, e *emitter, rel, goName, typ, leanName string) {
	fd := s.findFunc(rel, goName)
	var out []string
	found := false
	if fd != nil {
		params := map[string]int{}
		n := 0
		for _, f := range fd.Type.Params.List {
			for _, nm := range f.Names {
				params[nm.Name] = n
				n++
			}
		}
		locals := map[string]bool{}
		ast.Inspect(fd.Body, func(nd ast.Node) bool {
			switch x := nd.(type) {
			case *ast.AssignStmt:
				if x.Tok == token.DEFINE {
					for _, l := range x.Lhs {
						if id, ok := l.(*ast.Ident); ok {
							locals[id.Name] = true
						}
					}
				}
			case *ast.ValueSpec:
				for _, nm := range x.Names {
					locals[nm.Name] = true
				}
			}
			return true
		})
		ast.Inspect(fd.Body, func(nd ast.Node) bool {
			cl, ok := nd.(*ast.CompositeLit)
			if !ok || found || cl.Type == nil || s.src(cl.Type) != typ {
				return true
			}
			found = true
			for _, el := range cl.Elts {
				kv, ok := el.(*ast.KeyValueExpr)
				if !ok {
					out = append(out, "("+leanString("?")+", .other "+leanString(s.src(el))+")")
					continue
				}
				a := ".other " + leanString(s.src(kv.Value))
				switch v := kv.Value.(type) {
				case *ast.CallExpr:
					a = ".fresh " + leanString(s.src(v.Fun))
				case *ast.CompositeLit:
					a = ".fresh " + leanString("literal")
				case *ast.UnaryExpr:
					if _, isLit := v.X.(*ast.CompositeLit); isLit && v.Op == token.AND {
						a = ".fresh " + leanString("literal")
					}
				case *ast.Ident:
					if i, ok := params[v.Name]; ok {
						a = fmt.Sprintf(".param %d", i)
					} else if !locals[v.Name] && v.Name != "nil" && v.Name != "true" && v.Name != "false" {
						a = ".global " + leanString(v.Name)
					}
				}
				out = append(out, "("+leanString(s.src(kv.Key))+", "+a+")")
			}
			return false
		})
	}
	if !found {
		e.errors = append(e.errors, "composite literal "+typ+" not found in "+goName+" ("+rel+")")
		out = []string{"(" + leanString("MISSING") + ", .other " + leanString("MISSING") + ")"}
	}
	e.printf("/-- where the fields of the `%s` literal in `%s` (%s) come from -/\ndef %s : List (String × Alloc) := [%s]\n\n",
		typ, goName, rel, leanName, strings.Join(out, ",\n  "))
}

func init() {
	register("C07", func(s *source, e *emitter) {
		const sf = "core/syncx/singleflight.go"
		const lc = "core/syncx/lockedcalls.go"
		const rm = "core/syncx/resourcemanager.go"
		c07Shape(s, e, sf, "flightGroup.createCall", "createCallShape")
		c07Shape(s, e, sf, "flightGroup.makeCall", "makeCallShape")
		c07Shape(s, e, sf, "flightGroup.Do", "doShape")
		c07Shape(s, e, sf, "flightGroup.DoEx", "doExShape")
		c07Shape(s, e, sf, "NewSingleFlight", "newSingleFlightShape")
		c07Shape(s, e, lc, "lockedGroup.Do", "lockedDoShape")
		c07Shape(s, e, lc, "lockedGroup.makeCall", "lockedMakeCallShape")
		c07Shape(s, e, lc, "NewLockedCalls", "newLockedCallsShape")
		c07Shape(s, e, rm, "ResourceManager.GetResource", "getResourceShape")
		c07Shape(s, e, rm, "NewResourceManager", "newResourceManagerShape")
		c07Shape(s, e, rm, "ResourceManager.Close", "rmCloseShape")
		c07Shape(s, e, rm, "ResourceManager.Inject", "rmInjectShape")
		c07Fields(s, e, sf, "call", "callFields")
		c07Fields(s, e, sf, "flightGroup", "flightGroupFields")
		c07Fields(s, e, lc, "lockedGroup", "lockedGroupFields")
		c07Fields(s, e, rm, "ResourceManager", "resourceManagerFields")
		// the users named in the property's anchors: one flight per cache key
		c07Calls(s, e, "core/stores/cache/cachenode.go", "cacheNode.doTake", "barrier", "cacheNodeBarrierCalls")
		c07Calls(s, e, "core/collection/cache.go", "Cache.Take", "barrier", "collectionCacheBarrierCalls")
		c07Calls(s, e, "core/collection/cache.go", "NewCache", "NewSingleFlight", "collectionCacheBarrierCtor")
		// what the two Take functions do around the flight (lookup before / inside, what joiners are handed)
		c07Shape(s, e, "core/collection/cache.go", "Cache.Take", "collectionTakeShape")
		c07Shape(s, e, "core/stores/cache/cachenode.go", "cacheNode.doTake", "cacheNodeDoTakeShape")
		// the functions Take / doTake call on the property's path, the constructors' wiring, the entry points of doTake
		const cc = "core/collection/cache.go"
		const cn = "core/stores/cache/cachenode.go"
		c07Shape(s, e, cc, "Cache.doGet", "collectionDoGetShape")
		c07Shape(s, e, cc, "Cache.Set", "collectionSetShape")
		c07Shape(s, e, cc, "Cache.SetWithExpire", "collectionSetWithExpireShape")
		c07LitFields(s, e, cc, "NewCache", "Cache", "collectionNewCacheFields")
		c07LitFields(s, e, cn, "NewNode", "cacheNode", "cacheNodeNewNodeFields")
		c07Shape(s, e, cn, "cacheNode.Take", "cacheNodeTakeShape")
		c07Shape(s, e, cn, "cacheNode.TakeCtx", "cacheNodeTakeCtxShape")
		c07Shape(s, e, cn, "cacheNode.TakeWithExpire", "cacheNodeTakeWithExpireShape")
		c07Shape(s, e, cn, "cacheNode.TakeWithExpireCtx", "cacheNodeTakeWithExpireCtxShape")
		c07Shape(s, e, cn, "cacheNode.doGetCache", "cacheNodeDoGetCacheShape")
		c07Shape(s, e, cn, "cacheNode.SetCtx", "cacheNodeSetCtxShape")
		// decision conditions on the property's path, translated to Lean functions of their boolean atoms
		c07Branches(s, e, sf, "flightGroup.createCall", false, "createCallBranch", []string{"ok"})
		c07Branches(s, e, sf, "flightGroup.DoEx", false, "doExBranch", []string{"done"})
		c07Branches(s, e, sf, "flightGroup.Do", false, "doBranch", []string{"done"})
		c07Branches(s, e, lc, "lockedGroup.Do", false, "lockedDoBranch", []string{"ok"})
		c07Branches(s, e, rm, "ResourceManager.GetResource", true, "getResourceClosureBranch", []string{"ok", "errNonNil"})
		c07Branches(s, e, rm, "ResourceManager.GetResource", false, "getResourceBranch", []string{"errNonNil"})
		c07Branches(s, e, cc, "Cache.Take", true, "collectionTakeClosureBranch", []string{"ok", "eNonNil"})
		c07Branches(s, e, cc, "Cache.Take", false, "collectionTakeBranch", []string{"ok", "errNonNil", "fresh"})
		c07IntArgs(s, e, sf, "flightGroup.createCall", "wg.Add", "sfWgAdd")
		c07IntArgs(s, e, lc, "lockedGroup.makeCall", "wg.Add", "lcWgAdd")
		// sqlc / monc: one process-wide flight group handed to every cache node (keys are the cache keys)
		c07VarInits(s, e, "core/stores/sqlc/cachedsql.go", "NewSingleFlight", "sqlcFlightVar")
		c07Uses(s, e, "core/stores/sqlc/cachedsql.go", "singleFlights", "sqlcFlightUses")
		c07VarInits(s, e, "core/stores/monc/cachedmodel.go", "NewSingleFlight", "moncFlightVar")
		c07Uses(s, e, "core/stores/monc/cachedmodel.go", "singleFlight", "moncFlightUses")
		// the ResourceManagers of redis / mongo / sqlx: process-wide, keyed by address / url / dsn
		c07VarInits(s, e, "core/stores/redis/redisclientmanager.go", "NewResourceManager", "redisClientManagerVar")
		c07Uses(s, e, "core/stores/redis/redisclientmanager.go", "GetResource", "redisClientManagerUses")
		c07VarInits(s, e, "core/stores/redis/redisclustermanager.go", "NewResourceManager", "redisClusterManagerVar")
		c07Uses(s, e, "core/stores/redis/redisclustermanager.go", "GetResource", "redisClusterManagerUses")
		c07VarInits(s, e, "core/stores/mon/clientmanager.go", "NewResourceManager", "monClientManagerVar")
		c07Uses(s, e, "core/stores/mon/clientmanager.go", "clientManager.", "monClientManagerUses")
		c07VarInits(s, e, "core/stores/sqlx/sqlmanager.go", "NewResourceManager", "sqlxConnManagerVar")
		c07Uses(s, e, "core/stores/sqlx/sqlmanager.go", "GetResource", "sqlxConnManagerUses")
		// round 5e: allocation sites of the constructors' fields (fresh per construction / the caller's / package-level)
		c07AllocType(e)
		c07Allocs(s, e, sf, "NewSingleFlight", "flightGroup", "newSingleFlightAllocs")
		c07Allocs(s, e, lc, "NewLockedCalls", "lockedGroup", "newLockedCallsAllocs")
		c07Allocs(s, e, rm, "NewResourceManager", "ResourceManager", "newResourceManagerAllocs")
		c07Allocs(s, e, "core/collection/cache.go", "NewCache", "Cache", "newCacheAllocs")
		c07Allocs(s, e, "core/stores/cache/cachenode.go", "NewNode", "cacheNode", "newNodeAllocs")
		// round 5: the order of effects as typed lists
		c07EffType(e)
		c07Effects(s, e, sf, "flightGroup.createCall", "createCallEffects")
		c07Effects(s, e, sf, "flightGroup.makeCall", "makeCallEffects")
		c07Effects(s, e, lc, "lockedGroup.Do", "lockedDoEffects")
		c07Effects(s, e, lc, "lockedGroup.makeCall", "lockedMakeCallEffects")
		c07Effects(s, e, rm, "ResourceManager.GetResource", "getResourceEffects")
		c07Effects(s, e, rm, "ResourceManager.Inject", "rmInjectEffects")
		// round 5: forwarded argument lists of the delegating entry points
		c07Forward(s, e, sf, "flightGroup.Do", "createCall", 0, "doFwdCreateCall")
		c07Forward(s, e, sf, "flightGroup.Do", "makeCall", 0, "doFwdMakeCall")
		c07Forward(s, e, sf, "flightGroup.DoEx", "createCall", 0, "doExFwdCreateCall")
		c07Forward(s, e, sf, "flightGroup.DoEx", "makeCall", 0, "doExFwdMakeCall")
		c07Forward(s, e, lc, "lockedGroup.Do", "makeCall", 0, "lockedDoFwdMakeCall")
		c07Forward(s, e, rm, "ResourceManager.GetResource", "singleFlight.Do", 0, "getResourceFwdDo")
		c07Forward(s, e, cc, "Cache.Take", "barrier.Do", 0, "collectionTakeFwdDo")
		c07Forward(s, e, cc, "Cache.Take", "c.Set", 1, "collectionTakeFwdSet")
		c07Forward(s, e, cc, "Cache.Set", "SetWithExpire", 0, "collectionSetFwd")
		c07Forward(s, e, cn, "cacheNode.Take", "TakeCtx", 0, "cacheNodeTakeFwd")
		c07Forward(s, e, cn, "cacheNode.TakeCtx", "doTake", 0, "cacheNodeTakeCtxFwd")
		c07Forward(s, e, cn, "cacheNode.TakeCtx", "SetCtx", 1, "cacheNodeTakeCtxFwdSet")
		c07Forward(s, e, cn, "cacheNode.TakeWithExpire", "TakeWithExpireCtx", 0, "cacheNodeTakeWithExpireFwd")
		c07Forward(s, e, cn, "cacheNode.TakeWithExpireCtx", "doTake", 0, "cacheNodeTakeWithExpireCtxFwd")
		c07Forward(s, e, cn, "cacheNode.TakeWithExpireCtx", "query", 1, "cacheNodeTakeWithExpireCtxFwdQuery")
		c07Forward(s, e, cn, "cacheNode.TakeWithExpireCtx", "SetWithExpireCtx", 2, "cacheNodeTakeWithExpireCtxFwdSet")
		c07Forward(s, e, cn, "cacheNode.SetCtx", "SetWithExpireCtx", 0, "cacheNodeSetCtxFwd")
		c07Forward(s, e, cn, "cacheNode.doTake", "barrier.DoEx", 0, "cacheNodeDoTakeFwdDoEx")
		c07Forward(s, e, cn, "cacheNode.doTake", "doGetCache", 1, "cacheNodeDoTakeFwdDoGetCache")
		c07Forward(s, e, cn, "cacheNode.doTake", "query", 1, "cacheNodeDoTakeFwdQuery")
		c07Forward(s, e, cn, "cacheNode.doTake", "cacheVal", 1, "cacheNodeDoTakeFwdCacheVal")
		c07Forward(s, e, cn, "cacheNode.doTake", "setCacheWithNotFound", 1, "cacheNodeDoTakeFwdNotFound")
		c07Forward(s, e, cn, "cacheNode.doGetCache", "rds.GetCtx", 0, "cacheNodeDoGetCacheFwdGet")
		// round 5: whole decision trees (nested if / else-if with re-assigned variables)
		c07DecisionTree(s, e, cn, "cacheNode.doTake", 1, "doTakeClosureExit",
			[]string{"cacheErr", "cachePlaceholder", "cacheNotFound", "queryNotFound", "setNfErr", "queryErr", "cacheValErr"})
		c07DecisionTree(s, e, cn, "cacheNode.doTake", 0, "doTakeExit", []string{"flightErr", "fresh"})
		c07DecisionTree(s, e, cn, "cacheNode.doGetCache", 0, "doGetCacheExit", []string{"getErr", "empty", "isPlaceholder"})
		c07DecisionTree(s, e, cn, "cacheNode.processCache", 0, "processCacheExit", []string{"unmarshalOk", "delErr"})
		// round 5: negative caching
		c07Shape(s, e, cn, "cacheNode.setCacheWithNotFound", "cacheNodeSetCacheWithNotFoundShape")
		c07Forward(s, e, cn, "cacheNode.setCacheWithNotFound", "SetnxExCtx", 0, "cacheNodeSetNotFoundFwd")
	})
}
