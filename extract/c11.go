package main

func init() {
	register("C11", func(s *source, e *emitter) {
		const f = "core/executors/periodicalexecutor.go"
		e.constDef(s, f, "idleRound", "idleRound")
		e.shapeDef(s, f, "PeriodicalExecutor.Add", "addShape")
		e.shapeDef(s, f, "PeriodicalExecutor.addAndCheck", "addAndCheckShape")
		e.shapeDef(s, f, "PeriodicalExecutor.Flush", "flushShape")
		e.shapeDef(s, f, "PeriodicalExecutor.Wait", "waitShape")
		e.shapeDef(s, f, "PeriodicalExecutor.backgroundFlush", "backgroundFlushShape")
		e.shapeDef(s, f, "PeriodicalExecutor.enterExecution", "enterExecutionShape")
		e.shapeDef(s, f, "PeriodicalExecutor.doneExecution", "doneExecutionShape")
		e.shapeDef(s, f, "PeriodicalExecutor.executeTasks", "executeTasksShape")
		e.shapeDef(s, f, "PeriodicalExecutor.hasTasks", "hasTasksShape")
		e.shapeDef(s, f, "PeriodicalExecutor.shallQuit", "shallQuitShape")
		e.shapeDef(s, f, "NewPeriodicalExecutor", "newShape")
		const b = "core/executors/bulkexecutor.go"
		e.shapeDef(s, b, "bulkContainer.AddTask", "bulkAddTaskShape")
		e.shapeDef(s, b, "bulkContainer.RemoveAll", "bulkRemoveAllShape")
		e.shapeDef(s, b, "bulkContainer.Execute", "bulkExecuteShape")
		e.shapeDef(s, b, "BulkExecutor.Add", "bulkAddShape")
		e.shapeDef(s, b, "BulkExecutor.Flush", "bulkFlushShape")
		e.shapeDef(s, b, "BulkExecutor.Wait", "bulkWaitShape")
		const c = "core/executors/chunkexecutor.go"
		e.shapeDef(s, c, "chunkContainer.AddTask", "chunkAddTaskShape")
		e.shapeDef(s, c, "chunkContainer.RemoveAll", "chunkRemoveAllShape")
		e.shapeDef(s, c, "chunkContainer.Execute", "chunkExecuteShape")
		e.shapeDef(s, c, "ChunkExecutor.Add", "chunkAddShape")
		e.shapeDef(s, c, "ChunkExecutor.Flush", "chunkFlushShape")
		e.shapeDef(s, c, "ChunkExecutor.Wait", "chunkWaitShape")
	})
}
