package main

import (
	"go/ast"
	"go/token"
	"strings"
)

// ---- helpers of C11 (own file; the generic shape extractor drops local assignments, call arguments,
// channel capacities and comparison operators - exactly what the protocol depends on)

// c11Stmts lists the top-level statements of a function as printed source (for three-line container methods
// every statement is semantically relevant).
func (s *source) c11Stmts(fd *ast.FuncDecl) []string {
	var out []string
	for _, st := range fd.Body.List {
		out = append(out, s.src(st))
	}
	return out
}

// c11SelectCases lists, for the first select statement of a function (searched in nested function literals
// too), every case as "case <comm>:" followed by the printed statements of its body.
func (s *source) c11SelectCases(fd *ast.FuncDecl) []string {
	var out []string
	done := false
	ast.Inspect(fd.Body, func(n ast.Node) bool {
		if done {
			return false
		}
		if sel, ok := n.(*ast.SelectStmt); ok {
			done = true
			for _, c := range sel.Body.List {
				cc := c.(*ast.CommClause)
				if cc.Comm == nil {
					out = append(out, "default:")
				} else {
					out = append(out, "case "+s.src(cc.Comm)+":")
				}
				for _, st := range cc.Body {
					out = append(out, s.src(st))
				}
			}
			return false
		}
		return true
	})
	return out
}

// c11Calls lists every call whose printed function starts with one of the prefixes, with its arguments, in
// source order (atomic.AddInt32(&pe.inflight, 1) vs (…, -1); make(chan any, 1) vs make(chan …)).
func (s *source) c11Calls(fd *ast.FuncDecl, prefixes ...string) []string {
	var out []string
	ast.Inspect(fd.Body, func(n ast.Node) bool {
		if c, ok := n.(*ast.CallExpr); ok {
			fn := s.src(c.Fun)
			for _, p := range prefixes {
				if strings.HasPrefix(fn, p) {
					out = append(out, s.src(c))
					break
				}
			}
		}
		return true
	})
	return out
}

// c11Conds lists the conditions of every if / for statement and every return expression list, in source order.
func (s *source) c11Conds(fd *ast.FuncDecl) []string {
	var out []string
	ast.Inspect(fd.Body, func(n ast.Node) bool {
		switch x := n.(type) {
		case *ast.IfStmt:
			out = append(out, "if "+s.src(x.Cond))
		case *ast.ForStmt:
			if x.Cond != nil {
				out = append(out, "for "+s.src(x.Cond))
			} else {
				out = append(out, "for")
			}
		case *ast.ReturnStmt:
			var rs []string
			for _, r := range x.Results {
				if _, isLit := r.(*ast.FuncLit); isLit {
					rs = append(rs, "func")
				} else {
					rs = append(rs, s.src(r))
				}
			}
			out = append(out, strings.TrimSpace("return "+strings.Join(rs, ", ")))
		}
		return true
	})
	return out
}

// c11Assigns lists the assignments to (and declarations of) the local identifier `name`, in source order.
func (s *source) c11Assigns(fd *ast.FuncDecl, name string) []string {
	var out []string
	ast.Inspect(fd.Body, func(n ast.Node) bool {
		switch x := n.(type) {
		case *ast.AssignStmt:
			for _, l := range x.Lhs {
				if id, ok := l.(*ast.Ident); ok && id.Name == name {
					out = append(out, s.src(x))
				}
			}
		case *ast.DeclStmt:
			if gd, ok := x.Decl.(*ast.GenDecl); ok && gd.Tok == token.VAR {
				for _, sp := range gd.Specs {
					for _, id := range sp.(*ast.ValueSpec).Names {
						if id.Name == name {
							out = append(out, s.src(x))
						}
					}
				}
			}
		}
		return true
	})
	return out
}

// c11Cmp finds the (single) comparison returned by a container's AddTask and emits its operator and operands:
// the threshold test `len(bc.tasks) >= bc.maxTasks` / `bc.size >= bc.maxChunkSize`.
func (s *source) c11Cmp(fd *ast.FuncDecl) []string {
	var out []string
	for _, st := range fd.Body.List {
		if r, ok := st.(*ast.ReturnStmt); ok && len(r.Results) == 1 {
			if b, ok := r.Results[0].(*ast.BinaryExpr); ok {
				out = append(out, s.src(b.X), b.Op.String(), s.src(b.Y))
			} else {
				out = append(out, "not-a-comparison: "+s.src(r.Results[0]))
			}
		}
	}
	return out
}

func (e *emitter) c11List(s *source, rel, goName, leanName, doc string, f func(fd *ast.FuncDecl) []string) {
	fd := s.findFunc(rel, goName)
	if fd == nil {
		e.errors = append(e.errors, "function "+goName+" not found in "+rel)
		e.stringList(leanName, "MISSING: "+goName+" in "+rel, []string{"MISSING"})
		return
	}
	e.stringList(leanName, doc+" of `"+goName+"` in "+rel, f(fd))
}

func init() {
	register("C11", func(s *source, e *emitter) {
		const f = "core/executors/periodicalexecutor.go"
		e.constDef(s, f, "idleRound", "idleRound")
		e.shapeDef(s, f, "PeriodicalExecutor.Add", "addShape")
		e.shapeDef(s, f, "PeriodicalExecutor.addAndCheck", "addAndCheckShape")
		e.shapeDef(s, f, "PeriodicalExecutor.Flush", "flushShape")
		e.shapeDef(s, f, "PeriodicalExecutor.Sync", "syncShape")
		e.shapeDef(s, f, "PeriodicalExecutor.Wait", "waitShape")
		e.shapeDef(s, f, "PeriodicalExecutor.backgroundFlush", "backgroundFlushShape")
		e.shapeDef(s, f, "PeriodicalExecutor.enterExecution", "enterExecutionShape")
		e.shapeDef(s, f, "PeriodicalExecutor.doneExecution", "doneExecutionShape")
		e.shapeDef(s, f, "PeriodicalExecutor.executeTasks", "executeTasksShape")
		e.shapeDef(s, f, "PeriodicalExecutor.hasTasks", "hasTasksShape")
		e.shapeDef(s, f, "PeriodicalExecutor.shallQuit", "shallQuitShape")
		e.shapeDef(s, f, "NewPeriodicalExecutor", "newShape")
		// what the skeletons drop
		e.c11List(s, f, "PeriodicalExecutor.backgroundFlush", "backgroundFlushCases", "select cases (statements in order)", s.c11SelectCases)
		e.c11List(s, f, "PeriodicalExecutor.backgroundFlush", "commandedAssigns", "assignments to `commanded`",
			func(fd *ast.FuncDecl) []string { return s.c11Assigns(fd, "commanded") })
		e.c11List(s, f, "PeriodicalExecutor.backgroundFlush", "lastAssigns", "assignments to `last`",
			func(fd *ast.FuncDecl) []string { return s.c11Assigns(fd, "last") })
		atomics := func(fd *ast.FuncDecl) []string { return s.c11Calls(fd, "atomic.") }
		e.c11List(s, f, "PeriodicalExecutor.addAndCheck", "addAndCheckAtomics", "atomic calls with arguments", atomics)
		e.c11List(s, f, "PeriodicalExecutor.backgroundFlush", "backgroundFlushAtomics", "atomic calls with arguments", atomics)
		e.c11List(s, f, "PeriodicalExecutor.Wait", "waitAtomics", "atomic calls with arguments", atomics)
		e.c11List(s, f, "PeriodicalExecutor.shallQuit", "shallQuitAtomics", "atomic calls with arguments", atomics)
		e.c11List(s, f, "NewPeriodicalExecutor", "newMakes", "channel constructions",
			func(fd *ast.FuncDecl) []string { return s.c11Calls(fd, "make") })
		e.c11List(s, f, "PeriodicalExecutor.addAndCheck", "addAndCheckConds", "conditions and returns", s.c11Conds)
		e.c11List(s, f, "PeriodicalExecutor.Add", "addConds", "conditions and returns", s.c11Conds)
		e.c11List(s, f, "PeriodicalExecutor.executeTasks", "executeTasksConds", "conditions and returns", s.c11Conds)
		e.c11List(s, f, "PeriodicalExecutor.hasTasks", "hasTasksConds", "conditions and returns", s.c11Conds)
		e.c11List(s, f, "PeriodicalExecutor.shallQuit", "shallQuitConds", "conditions and returns", s.c11Conds)
		e.c11List(s, f, "PeriodicalExecutor.shallQuit", "shallQuitStops", "assignments to `stop`",
			func(fd *ast.FuncDecl) []string { return s.c11Assigns(fd, "stop") })
		e.c11List(s, f, "PeriodicalExecutor.Wait", "waitConds", "conditions and returns", s.c11Conds)
		e.c11List(s, f, "PeriodicalExecutor.Flush", "flushConds", "conditions and returns", s.c11Conds)
		// the containers: every statement, and the threshold comparison
		const b = "core/executors/bulkexecutor.go"
		e.shapeDef(s, b, "bulkContainer.AddTask", "bulkAddTaskShape")
		e.shapeDef(s, b, "bulkContainer.RemoveAll", "bulkRemoveAllShape")
		e.shapeDef(s, b, "bulkContainer.Execute", "bulkExecuteShape")
		e.shapeDef(s, b, "BulkExecutor.Add", "bulkAddShape")
		e.shapeDef(s, b, "BulkExecutor.Flush", "bulkFlushShape")
		e.shapeDef(s, b, "BulkExecutor.Wait", "bulkWaitShape")
		e.c11List(s, b, "bulkContainer.AddTask", "bulkAddTaskStmts", "statements", s.c11Stmts)
		e.c11List(s, b, "bulkContainer.RemoveAll", "bulkRemoveAllStmts", "statements", s.c11Stmts)
		e.c11List(s, b, "bulkContainer.Execute", "bulkExecuteStmts", "statements", s.c11Stmts)
		e.c11List(s, b, "bulkContainer.AddTask", "bulkThreshold", "threshold comparison (lhs, operator, rhs)", s.c11Cmp)
		e.c11List(s, b, "NewBulkExecutor", "newBulkStmts", "statements", s.c11Stmts)
		const c = "core/executors/chunkexecutor.go"
		e.shapeDef(s, c, "chunkContainer.AddTask", "chunkAddTaskShape")
		e.shapeDef(s, c, "chunkContainer.RemoveAll", "chunkRemoveAllShape")
		e.shapeDef(s, c, "chunkContainer.Execute", "chunkExecuteShape")
		e.shapeDef(s, c, "ChunkExecutor.Add", "chunkAddShape")
		e.shapeDef(s, c, "ChunkExecutor.Flush", "chunkFlushShape")
		e.shapeDef(s, c, "ChunkExecutor.Wait", "chunkWaitShape")
		e.c11List(s, c, "chunkContainer.AddTask", "chunkAddTaskStmts", "statements", s.c11Stmts)
		e.c11List(s, c, "chunkContainer.RemoveAll", "chunkRemoveAllStmts", "statements", s.c11Stmts)
		e.c11List(s, c, "chunkContainer.Execute", "chunkExecuteStmts", "statements", s.c11Stmts)
		e.c11List(s, c, "chunkContainer.AddTask", "chunkThreshold", "threshold comparison (lhs, operator, rhs)", s.c11Cmp)
		e.c11List(s, c, "ChunkExecutor.Add", "chunkAddStmts", "statements", s.c11Stmts)
		e.c11List(s, c, "NewChunkExecutor", "newChunkStmts", "statements", s.c11Stmts)
		// users of the executor named by the property's anchors: the sqlx bulk inserter
		const q = "core/stores/sqlx/bulkinserter.go"
		e.constDef(s, q, "maxBulkRows", "sqlxMaxBulkRows")
		e.shapeDef(s, q, "BulkInserter.Insert", "sqlxInsertShape")
		e.shapeDef(s, q, "BulkInserter.Flush", "sqlxFlushShape")
		e.shapeDef(s, q, "BulkInserter.UpdateOrDelete", "sqlxUpdateOrDeleteShape")
		e.shapeDef(s, q, "BulkInserter.UpdateStmt", "sqlxUpdateStmtShape")
		e.shapeDef(s, q, "BulkInserter.SetResultHandler", "sqlxSetResultHandlerShape")
		e.shapeDef(s, q, "NewBulkInserter", "sqlxNewShape")
		e.c11List(s, q, "dbInserter.AddTask", "sqlxAddTaskStmts", "statements", s.c11Stmts)
		e.c11List(s, q, "dbInserter.RemoveAll", "sqlxRemoveAllStmts", "statements", s.c11Stmts)
		e.c11List(s, q, "dbInserter.AddTask", "sqlxThreshold", "threshold comparison (lhs, operator, rhs)", s.c11Cmp)
		e.c11List(s, q, "dbInserter.Execute", "sqlxExecuteConds", "conditions and returns", s.c11Conds)
	})
}
