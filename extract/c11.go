package main

import (
	"fmt"
	"go/ast"
	"go/constant"
	"go/token"
	"strings"
)

// ---- helpers of C11 (own file; the generic shape extractor drops local assignments, call arguments,
// channel capacities and comparison operators - exactly what the protocol depends on)

// c11Stmts lists the top-level statements of a function as printed source (for three-line container methods
// every statement is semantically relevant).
func (s *source) c11Stmts(fd *ast.FuncDecl) []string {
	var out []string
	for _, st := range fd.Body.List {
		out = append(out, s.src(st))
	}
	return out
}

// c11SelectCases lists, for the first select statement of a function (searched in nested function literals
// too), every case as "case <comm>:" followed by the printed statements of its body.
func (s *source) c11SelectCases(fd *ast.FuncDecl) []string {
	var out []string
	done := false
	ast.Inspect(fd.Body, func(n ast.Node) bool {
		if done {
			return false
		}
		if sel, ok := n.(*ast.SelectStmt); ok {
			done = true
			for _, c := range sel.Body.List {
				cc := c.(*ast.CommClause)
				if cc.Comm == nil {
					out = append(out, "default:")
				} else {
					out = append(out, "case "+s.src(cc.Comm)+":")
				}
				for _, st := range cc.Body {
					out = append(out, s.src(st))
				}
			}
			return false
		}
		return true
	})
	return out
}

// c11Calls lists every call whose printed function starts with one of the prefixes, with its arguments, in
// source order (atomic.AddInt32(&pe.inflight, 1) vs (…, -1); make(chan any, 1) vs make(chan …)).
func (s *source) c11Calls(fd *ast.FuncDecl, prefixes ...string) []string {
	var out []string
	ast.Inspect(fd.Body, func(n ast.Node) bool {
		if c, ok := n.(*ast.CallExpr); ok {
			fn := s.src(c.Fun)
			for _, p := range prefixes {
				if strings.HasPrefix(fn, p) {
					out = append(out, s.src(c))
					break
				}
			}
		}
		return true
	})
	return out
}

// c11LitFields lists the key: value pairs of the first composite literal of a function, as printed source
func (s *source) c11LitFields(fd *ast.FuncDecl) []string {
	var out []string
	done := false
	ast.Inspect(fd.Body, func(n ast.Node) bool {
		if done {
			return false
		}
		if cl, ok := n.(*ast.CompositeLit); ok {
			done = true
			for _, el := range cl.Elts {
				out = append(out, s.src(el))
			}
			return false
		}
		return true
	})
	return out
}

// c11Conds lists the conditions of every if / for statement and every return expression list, in source order.
func (s *source) c11Conds(fd *ast.FuncDecl) []string {
	var out []string
	ast.Inspect(fd.Body, func(n ast.Node) bool {
		switch x := n.(type) {
		case *ast.IfStmt:
			out = append(out, "if "+s.src(x.Cond))
		case *ast.ForStmt:
			if x.Cond != nil {
				out = append(out, "for "+s.src(x.Cond))
			} else {
				out = append(out, "for")
			}
		case *ast.ReturnStmt:
			var rs []string
			for _, r := range x.Results {
				if _, isLit := r.(*ast.FuncLit); isLit {
					rs = append(rs, "func")
				} else {
					rs = append(rs, s.src(r))
				}
			}
			out = append(out, strings.TrimSpace("return "+strings.Join(rs, ", ")))
		}
		return true
	})
	return out
}

// c11Assigns lists the assignments to (and declarations of) the local identifier `name`, in source order.
func (s *source) c11Assigns(fd *ast.FuncDecl, name string) []string {
	var out []string
	ast.Inspect(fd.Body, func(n ast.Node) bool {
		switch x := n.(type) {
		case *ast.AssignStmt:
			for _, l := range x.Lhs {
				if id, ok := l.(*ast.Ident); ok && id.Name == name {
					out = append(out, s.src(x))
				}
			}
		case *ast.DeclStmt:
			if gd, ok := x.Decl.(*ast.GenDecl); ok && gd.Tok == token.VAR {
				for _, sp := range gd.Specs {
					for _, id := range sp.(*ast.ValueSpec).Names {
						if id.Name == name {
							out = append(out, s.src(x))
						}
					}
				}
			}
		}
		return true
	})
	return out
}

// c11Cmp finds the (single) comparison returned by a container's AddTask and emits its operator and operands:
// the threshold test `len(bc.tasks) >= bc.maxTasks` / `bc.size >= bc.maxChunkSize`.
func (s *source) c11Cmp(fd *ast.FuncDecl) []string {
	var out []string
	for _, st := range fd.Body.List {
		if r, ok := st.(*ast.ReturnStmt); ok && len(r.Results) == 1 {
			if b, ok := r.Results[0].(*ast.BinaryExpr); ok {
				out = append(out, s.src(b.X), b.Op.String(), s.src(b.Y))
			} else {
				out = append(out, "not-a-comparison: "+s.src(r.Results[0]))
			}
		}
	}
	return out
}

func (e *emitter) c11List(s *source, rel, goName, leanName, doc string, f func(fd *ast.FuncDecl) []string) {
	fd := s.findFunc(rel, goName)
	if fd == nil {
		e.errors = append(e.errors, "function "+goName+" not found in "+rel)
		e.stringList(leanName, "MISSING: "+goName+" in "+rel, []string{"MISSING"})
		return
	}
	e.stringList(leanName, doc+" of `"+goName+"` in "+rel, f(fd))
}

// ---- C11's own translator: the container methods (three to six statements over a slice field, an int field
// and the parameter) become Lean FUNCTIONS, parametrised over the primitive operations of Go they use
// (append / len / nil / s[:0] / a type assertion / strings.Join), so that Tie.lean can instantiate the primitives
// with the slice-heap model of Containers.lean and prove the function equal to the model's definition for ALL
// arguments. Everything outside the subset is an extraction error (the function is emitted as `Unit`).

type c11tr struct {
	s      *source
	rel    string
	recv   string            // receiver identifier
	outs   []string          // receiver fields the function may assign, in the order of the result tuple
	strs   map[string]bool   // printed expressions that are strings (their len is `strLen`)
	exec   string            // printed prefix of the call whose argument is the result (dbInserter.Execute: the Exec call)
	hasRet bool
	fail   string
	subst  map[string]string // printed sub-expression -> Lean variable (opaque reads: the clock, an atomic load, a field)
	mk     string            // if set: what a function without result value returns (a structure instance built from the field variables)
	recs   map[string]bool   // local identifiers that are records (Lean structures): `id.f` is the projection
}

func (t *c11tr) bad(n ast.Node, why string) string {
	if t.fail == "" {
		t.fail = why + ": " + t.s.src(n)
	}
	return "()"
}

func (t *c11tr) fieldVar(e ast.Expr) (string, bool) {
	// recv.a.b -> f_a_b
	var parts []string
	for {
		switch x := e.(type) {
		case *ast.SelectorExpr:
			parts = append([]string{x.Sel.Name}, parts...)
			e = x.X
			continue
		case *ast.Ident:
			if x.Name == t.recv && len(parts) > 0 {
				return "f_" + strings.Join(parts, "_"), true
			}
		}
		return "", false
	}
}

func (t *c11tr) expr(e ast.Expr) string {
	if v, ok := t.subst[t.s.src(e)]; ok {
		return v
	}
	switch x := e.(type) {
	case *ast.ParenExpr:
		return t.expr(x.X)
	case *ast.BasicLit:
		switch x.Kind {
		case token.INT:
			return "(" + x.Value + " : Int)"
		case token.STRING:
			v := constant.MakeFromLiteral(x.Value, token.STRING, 0)
			return leanString(constant.StringVal(v))
		}
		return t.bad(e, "literal")
	case *ast.Ident:
		switch x.Name {
		case "nil":
			return "nilS"
		case "true", "false":
			return x.Name
		}
		if v, ok := t.s.constValue(t.rel, x.Name); ok && v.Kind() == constant.Int {
			return "(" + v.ExactString() + " : Int)"
		}
		return x.Name
	case *ast.SelectorExpr:
		if f, ok := t.fieldVar(x); ok {
			return f
		}
		if id, ok := x.X.(*ast.Ident); ok {
			if t.recs[id.Name] {
				return id.Name + "." + x.Sel.Name
			}
			return "(fld_" + x.Sel.Name + " " + id.Name + ")"
		}
		return t.bad(e, "selector")
	case *ast.TypeAssertExpr:
		return "(cast " + t.expr(x.X) + ")"
	case *ast.SliceExpr:
		if x.Low == nil && x.High != nil && !x.Slice3 {
			if b, ok := x.High.(*ast.BasicLit); ok && b.Value == "0" {
				return "(slice0 " + t.expr(x.X) + ")"
			}
		}
		return t.bad(e, "slice expression")
	case *ast.CompositeLit:
		if t.s.src(x.Type) == "[]string" {
			var el []string
			for _, a := range x.Elts {
				el = append(el, t.expr(a))
			}
			return "[" + strings.Join(el, ", ") + "]"
		}
		return t.bad(e, "composite literal")
	case *ast.CallExpr:
		fn := t.s.src(x.Fun)
		switch {
		case fn == "len" && len(x.Args) == 1:
			if t.strs[t.s.src(x.Args[0])] {
				return "(strLen " + t.expr(x.Args[0]) + ")"
			}
			return "(len " + t.expr(x.Args[0]) + ")"
		case fn == "strings.Join" && len(x.Args) == 2:
			return "(join " + t.expr(x.Args[0]) + " " + t.expr(x.Args[1]) + ")"
		}
		return t.bad(e, "call")
	case *ast.BinaryExpr:
		a, b := t.expr(x.X), t.expr(x.Y)
		switch x.Op {
		case token.GEQ:
			return "(decide (" + a + " ≥ " + b + "))"
		case token.GTR:
			return "(decide (" + a + " > " + b + "))"
		case token.LEQ:
			return "(decide (" + a + " ≤ " + b + "))"
		case token.LSS:
			return "(decide (" + a + " < " + b + "))"
		case token.EQL:
			return "(decide (" + a + " = " + b + "))"
		case token.NEQ:
			return "(decide (" + a + " ≠ " + b + "))"
		case token.ADD:
			return "(" + a + " + " + b + ")"
		case token.SUB:
			return "(" + a + " - " + b + ")"
		case token.MUL:
			return "(" + a + " * " + b + ")"
		case token.LAND:
			return "(" + a + " && " + b + ")"
		case token.LOR:
			return "(" + a + " || " + b + ")"
		}
		return t.bad(e, "operator")
	case *ast.UnaryExpr:
		if x.Op == token.NOT {
			return "(!" + t.expr(x.X) + ")"
		}
		if x.Op == token.SUB {
			return "(-" + t.expr(x.X) + ")"
		}
		return t.bad(e, "unary operator")
	}
	return t.bad(e, "expression")
}

func (t *c11tr) result(val string) string {
	if val == "" && t.mk != "" {
		return t.mk
	}
	parts := []string{}
	for _, o := range t.outs {
		parts = append(parts, o)
	}
	if val != "" {
		parts = append(parts, val)
	}
	if len(parts) == 0 {
		return "()"
	}
	if len(parts) == 1 {
		return parts[0]
	}
	return "(" + strings.Join(parts, ", ") + ")"
}

func (t *c11tr) isOut(v string) bool {
	for _, o := range t.outs {
		if o == v {
			return true
		}
	}
	return false
}

// target returns the Lean variable an assignment writes: a receiver field (must be a declared output) or a local
func (t *c11tr) target(l ast.Expr) string {
	if f, ok := t.fieldVar(l); ok {
		if !t.isOut(f) {
			t.bad(l, "assignment to a field the model does not know")
		}
		return f
	}
	if id, ok := l.(*ast.Ident); ok {
		return id.Name
	}
	t.bad(l, "assignment target")
	return "_"
}

func (t *c11tr) stmts(list []ast.Stmt, ind string) string {
	if len(list) == 0 {
		if t.hasRet || t.exec != "" {
			// falling off the end of a function that must return / execute
			if t.exec != "" {
				return ind + "none"
			}
			t.fail = "control reaches the end without a return"
		}
		return ind + t.result("")
	}
	st, rest := list[0], list[1:]
	switch x := st.(type) {
	case *ast.AssignStmt:
		if t.exec != "" && len(x.Rhs) == 1 {
			if c, ok := x.Rhs[0].(*ast.CallExpr); ok && strings.HasPrefix(t.s.src(c.Fun), t.exec) && len(c.Args) == 1 {
				return ind + "some " + t.expr(c.Args[0])
			}
		}
		if len(x.Lhs) != 1 || len(x.Rhs) != 1 {
			t.bad(st, "multi-assignment")
			return ind + "()"
		}
		v := t.target(x.Lhs[0])
		switch x.Tok {
		case token.ASSIGN, token.DEFINE:
			if c, ok := x.Rhs[0].(*ast.CallExpr); ok && t.s.src(c.Fun) == "append" && len(c.Args) == 2 {
				return ind + "let r_ := append hp " + t.expr(c.Args[0]) + " " + t.expr(c.Args[1]) + "\n" +
					ind + "let hp := r_.1\n" + ind + "let " + v + " := r_.2\n" + t.stmts(rest, ind)
			}
			return ind + "let " + v + " := " + t.expr(x.Rhs[0]) + "\n" + t.stmts(rest, ind)
		case token.ADD_ASSIGN:
			return ind + "let " + v + " := (" + v + " + " + t.expr(x.Rhs[0]) + ")\n" + t.stmts(rest, ind)
		case token.SUB_ASSIGN:
			return ind + "let " + v + " := (" + v + " - " + t.expr(x.Rhs[0]) + ")\n" + t.stmts(rest, ind)
		}
		t.bad(st, "assignment operator")
		return ind + "()"
	case *ast.ReturnStmt:
		if t.exec != "" {
			return ind + "none"
		}
		if len(x.Results) == 0 {
			return ind + t.result("")
		}
		if len(x.Results) == 1 {
			return ind + t.result(t.expr(x.Results[0]))
		}
		t.bad(st, "return")
		return ind + "()"
	case *ast.IfStmt:
		if x.Init != nil {
			t.bad(st, "if with init")
			return ind + "()"
		}
		thenList := x.Body.List
		if !endsInReturn(x.Body) {
			thenList = append(append([]ast.Stmt{}, thenList...), rest...)
		}
		var elseList []ast.Stmt
		switch el := x.Else.(type) {
		case nil:
			elseList = rest
		case *ast.BlockStmt:
			elseList = el.List
			if !endsInReturn(el) {
				elseList = append(append([]ast.Stmt{}, elseList...), rest...)
			}
		default:
			t.bad(st, "else-if")
			return ind + "()"
		}
		return ind + "if " + t.expr(x.Cond) + " then\n" + t.stmts(thenList, ind+"  ") + "\n" + ind + "else\n" + t.stmts(elseList, ind+"  ")
	}
	t.bad(st, "statement")
	return ind + "()"
}

// c11Translated emits `def leanName <binders> := <body>`; `binders` is written by hand (the primitives and the
// fields / parameters the function reads), the body is translated from the source.
func (e *emitter) c11Translated(s *source, rel, goName, leanName, binders string, outs []string, strs []string, exec string) {
	fd := s.findFunc(rel, goName)
	if fd == nil {
		e.errors = append(e.errors, fmt.Sprintf("function %s not found in %s", goName, rel))
		e.printf("/-- MISSING: %s in %s -/\ndef %s : Unit := ()\n\n", goName, rel, leanName)
		return
	}
	t := &c11tr{s: s, rel: rel, outs: outs, strs: map[string]bool{}, exec: exec}
	for _, x := range strs {
		t.strs[x] = true
	}
	if fd.Recv != nil && len(fd.Recv.List) == 1 && len(fd.Recv.List[0].Names) == 1 {
		t.recv = fd.Recv.List[0].Names[0].Name
	}
	t.hasRet = fd.Type.Results != nil && len(fd.Type.Results.List) > 0
	body := t.stmts(fd.Body.List, "  ")
	if t.fail != "" {
		e.errors = append(e.errors, fmt.Sprintf("%s: outside the translated subset (%s)", goName, t.fail))
		e.printf("/-- NOT TRANSLATED (%s): %s in %s -/\ndef %s : Unit := ()\n\n", strings.ReplaceAll(t.fail, "-/", "- /"), goName, rel, leanName)
		return
	}
	e.printf("/-- translated from `%s` in %s (C11's container translator) -/\ndef %s %s :=\n%s\n\n", goName, rel, leanName, binders, body)
}

// c11CondFn translates the idx-th condition (if / for conditions and single-result return expressions, in source
// order, as listed by c11Conds) of a function into a Lean Bool function of the opaque reads named in `subst`.
func (e *emitter) c11CondFn(s *source, rel, goName string, idx int, leanName, binders string, subst map[string]string) {
	fd := s.findFunc(rel, goName)
	if fd == nil {
		e.errors = append(e.errors, fmt.Sprintf("function %s not found in %s", goName, rel))
		e.printf("/-- MISSING: %s in %s -/\ndef %s : Unit := ()\n\n", goName, rel, leanName)
		return
	}
	var conds []ast.Expr
	ast.Inspect(fd.Body, func(n ast.Node) bool {
		switch x := n.(type) {
		case *ast.IfStmt:
			conds = append(conds, x.Cond)
		case *ast.ForStmt:
			if x.Cond != nil {
				conds = append(conds, x.Cond)
			}
		case *ast.ReturnStmt:
			if len(x.Results) == 1 {
				conds = append(conds, x.Results[0])
			}
		}
		return true
	})
	if idx >= len(conds) {
		e.errors = append(e.errors, fmt.Sprintf("%s: condition #%d not found", goName, idx))
		e.printf("/-- MISSING condition #%d of %s -/\ndef %s : Unit := ()\n\n", idx, goName, leanName)
		return
	}
	t := &c11tr{s: s, rel: rel, strs: map[string]bool{}, subst: subst}
	if fd.Recv != nil && len(fd.Recv.List) == 1 && len(fd.Recv.List[0].Names) == 1 {
		t.recv = fd.Recv.List[0].Names[0].Name
	}
	body := t.expr(conds[idx])
	if t.fail != "" {
		e.errors = append(e.errors, fmt.Sprintf("%s: condition #%d outside the translated subset (%s)", goName, idx, t.fail))
		e.printf("/-- NOT TRANSLATED: condition #%d of %s -/\ndef %s : Unit := ()\n\n", idx, goName, leanName)
		return
	}
	e.printf("/-- condition #%d `%s` of `%s` in %s -/\ndef %s %s : Bool :=\n  %s\n\n", idx, strings.ReplaceAll(s.src(conds[idx]), "-/", "- /"), goName, rel, leanName, binders, body)
}

// ---- options, defaults and forwarded arguments of the public constructors, as Lean records and functions

// c11IntFields returns the names of the fields of struct type `typeName` (all must be int / time.Duration).
func (s *source) c11IntFields(rel, typeName string) ([]string, string) {
	f := s.file(rel)
	if f == nil {
		return nil, "file not found"
	}
	for _, d := range f.Decls {
		gd, ok := d.(*ast.GenDecl)
		if !ok || gd.Tok != token.TYPE {
			continue
		}
		for _, sp := range gd.Specs {
			ts := sp.(*ast.TypeSpec)
			if ts.Name.Name != typeName {
				continue
			}
			st, ok := ts.Type.(*ast.StructType)
			if !ok {
				return nil, "not a struct"
			}
			var out []string
			for _, fl := range st.Fields.List {
				ty := s.src(fl.Type)
				if ty != "int" && ty != "time.Duration" {
					return nil, "field type " + ty
				}
				for _, n := range fl.Names {
					out = append(out, n.Name)
				}
			}
			return out, ""
		}
	}
	return nil, "type not found"
}

// c11RecordDef emits `structure leanName where f : Int …` for a Go struct of int / duration fields.
func (e *emitter) c11RecordDef(s *source, rel, typeName, leanName string) []string {
	fields, why := s.c11IntFields(rel, typeName)
	if why != "" {
		e.errors = append(e.errors, fmt.Sprintf("struct %s in %s: %s", typeName, rel, why))
		e.printf("/-- NOT TRANSLATED (%s): struct %s in %s -/\nstructure %s where\n  missing : Unit := ()\n\n", why, typeName, rel, leanName)
		return nil
	}
	e.printf("/-- the Go struct `%s` of %s (int and time.Duration fields are `Int`) -/\nstructure %s where\n", typeName, rel, leanName)
	for _, f := range fields {
		e.printf("  %s : Int\n", f)
	}
	e.printf("  deriving DecidableEq, Repr\n\n")
	return fields
}

func c11Mk(fields []string, lean string) string {
	var parts []string
	for _, f := range fields {
		parts = append(parts, f+" := f_"+f)
	}
	return "({ " + strings.Join(parts, ", ") + " } : " + lean + ")"
}

// c11OptionSetter translates `func WithX(p T) Opt { return func(o *S) { o.f = e; … } }` into
// `def leanName (o : S) (p : Int) : S` (the closure applied to a record).
func (e *emitter) c11OptionSetter(s *source, rel, fnName, leanName, recLean string, fields []string) {
	fail := func(why string) {
		e.errors = append(e.errors, fmt.Sprintf("%s: option setter outside the translated subset (%s)", fnName, why))
		e.printf("/-- NOT TRANSLATED (%s): %s in %s -/\ndef %s : Unit := ()\n\n", why, fnName, rel, leanName)
	}
	fd := s.findFunc(rel, fnName)
	if fd == nil || fields == nil {
		fail("function or record not found")
		return
	}
	var params []string
	for _, p := range fd.Type.Params.List {
		for _, n := range p.Names {
			params = append(params, "("+n.Name+" : Int)")
		}
	}
	if len(fd.Body.List) != 1 {
		fail("body is not a single return")
		return
	}
	ret, ok := fd.Body.List[0].(*ast.ReturnStmt)
	if !ok || len(ret.Results) != 1 {
		fail("body is not a single return")
		return
	}
	fl, ok := ret.Results[0].(*ast.FuncLit)
	if !ok || len(fl.Type.Params.List) != 1 || len(fl.Type.Params.List[0].Names) != 1 {
		fail("does not return a one-parameter closure")
		return
	}
	t := &c11tr{s: s, rel: rel, strs: map[string]bool{}, recv: fl.Type.Params.List[0].Names[0].Name, mk: c11Mk(fields, recLean)}
	for _, f := range fields {
		t.outs = append(t.outs, "f_"+f)
	}
	body := t.stmts(fl.Body.List, "  ")
	if t.fail != "" {
		fail(t.fail)
		return
	}
	e.printf("/-- the closure returned by `%s` in %s, applied to a record -/\ndef %s (o_ : %s) %s : %s :=\n", fnName, rel, leanName, recLean, strings.Join(params, " "), recLean)
	for _, f := range fields {
		e.printf("  let f_%s := o_.%s\n", f, f)
	}
	e.printf("%s\n\n", body)
}

// c11RecordLit translates `func f() S { return S{ f: const, … } }` into `def leanName : S`; constants are looked up
// in the file itself and in `more`.
func (e *emitter) c11RecordLit(s *source, rel, fnName, leanName, recLean string, fields []string, more ...string) {
	fail := func(why string) {
		e.errors = append(e.errors, fmt.Sprintf("%s: defaults outside the translated subset (%s)", fnName, why))
		e.printf("/-- NOT TRANSLATED (%s): %s in %s -/\ndef %s : Unit := ()\n\n", why, fnName, rel, leanName)
	}
	fd := s.findFunc(rel, fnName)
	if fd == nil || fields == nil || len(fd.Body.List) != 1 {
		fail("function or record not found / body is not a single return")
		return
	}
	ret, ok := fd.Body.List[0].(*ast.ReturnStmt)
	if !ok || len(ret.Results) != 1 {
		fail("body is not a single return")
		return
	}
	cl, ok := ret.Results[0].(*ast.CompositeLit)
	if !ok {
		fail("does not return a composite literal")
		return
	}
	vals := map[string]string{}
	for _, el := range cl.Elts {
		kv, ok := el.(*ast.KeyValueExpr)
		if !ok {
			fail("positional literal")
			return
		}
		var v constant.Value
		found := false
		for _, file := range append([]string{rel}, more...) {
			if v, found = s.eval(file, kv.Value); found && v.Kind() == constant.Int {
				break
			}
			found = false
		}
		if !found {
			fail("field value is not an integer constant: " + s.src(kv.Value))
			return
		}
		vals[s.src(kv.Key)] = v.ExactString()
	}
	var parts []string
	for _, f := range fields {
		v, ok := vals[f]
		if !ok {
			v = "0" // Go's zero value for a field the literal leaves out
		}
		parts = append(parts, fmt.Sprintf("%s := (%s : Int)", f, v))
	}
	e.printf("/-- the record returned by `%s` in %s (constants evaluated) -/\ndef %s : %s := { %s }\n\n", fnName, rel, leanName, recLean, strings.Join(parts, ", "))
}

// c11Forward translates one forwarded argument of a constructor into a Lean function of the local record `rec`:
// the value of field `field` in the composite literal of type `litType`, or (field == "") argument #arg of the call to `callee`.
func (e *emitter) c11Forward(s *source, rel, fnName, leanName, rec, recLean, litType, field, callee string, arg int) {
	fd := s.findFunc(rel, fnName)
	var found ast.Expr
	if fd != nil {
		ast.Inspect(fd.Body, func(n ast.Node) bool {
			if found != nil {
				return false
			}
			switch x := n.(type) {
			case *ast.CompositeLit:
				if field != "" && x.Type != nil && s.src(x.Type) == litType {
					for _, el := range x.Elts {
						if kv, ok := el.(*ast.KeyValueExpr); ok && s.src(kv.Key) == field {
							found = kv.Value
						}
					}
				}
			case *ast.CallExpr:
				if field == "" && s.src(x.Fun) == callee && arg < len(x.Args) {
					found = x.Args[arg]
				}
			}
			return true
		})
	}
	if found == nil {
		e.errors = append(e.errors, fmt.Sprintf("%s: forwarded argument %s%s#%d not found", fnName, litType+"."+field, callee, arg))
		e.printf("/-- MISSING forwarded argument in %s -/\ndef %s : Unit := ()\n\n", fnName, leanName)
		return
	}
	t := &c11tr{s: s, rel: rel, strs: map[string]bool{}, recs: map[string]bool{rec: true}}
	body := t.expr(found)
	if t.fail != "" {
		e.errors = append(e.errors, fmt.Sprintf("%s: forwarded argument outside the translated subset (%s)", fnName, t.fail))
		e.printf("/-- NOT TRANSLATED forwarded argument in %s -/\ndef %s : Unit := ()\n\n", fnName, leanName)
		return
	}
	e.printf("/-- `%s` in %s forwards `%s` -/\ndef %s (%s : %s) : Int :=\n  %s\n\n", fnName, rel, strings.ReplaceAll(s.src(found), "-/", "- /"), leanName, rec, recLean, body)
}

// c11OptLoop lists how the constructor applies its options: the range statement, printed.
func (s *source) c11Ranges(fd *ast.FuncDecl) []string {
	var out []string
	ast.Inspect(fd.Body, func(n ast.Node) bool {
		if r, ok := n.(*ast.RangeStmt); ok {
			out = append(out, s.src(r))
		}
		return true
	})
	return out
}

// ---- typed order of effects: a function body as a list of (nesting depth, kind, what) - not a string skeleton:
// calls, deferred calls, the bodies run under threading.RunSafe / inside Barrier.Guard / in if / for, sends, receives.

func (s *source) c11Effs(fd *ast.FuncDecl) []string {
	var out []string
	emit := func(d int, kind, what string) {
		out = append(out, fmt.Sprintf("{ depth := %d, kind := .%s, what := %s }", d, kind, leanString(what)))
	}
	var stmts func(list []ast.Stmt, d int)
	var expr func(e ast.Expr, d int, deferred bool)
	expr = func(e ast.Expr, d int, deferred bool) {
		switch x := e.(type) {
		case *ast.CallExpr:
			fn := s.src(x.Fun)
			if fl, ok := x.Fun.(*ast.FuncLit); ok { // func(){…}()
				if deferred {
					emit(d, "deferBlock", "")
				} else {
					emit(d, "block", "")
				}
				stmts(fl.Body.List, d+1)
				return
			}
			if len(x.Args) == 1 {
				if fl, ok := x.Args[0].(*ast.FuncLit); ok {
					switch {
					case fn == "threading.RunSafe":
						emit(d, "runSafe", fn)
					case strings.HasSuffix(fn, ".Guard"):
						emit(d, "guard", fn)
					default:
						emit(d, "callWithFunc", fn)
					}
					stmts(fl.Body.List, d+1)
					return
				}
			}
			for _, a := range x.Args {
				if c, ok := a.(*ast.CallExpr); ok {
					expr(c, d, false)
				}
			}
			if deferred {
				emit(d, "deferCall", fn)
			} else {
				emit(d, "call", fn)
			}
		case *ast.UnaryExpr:
			if x.Op == token.ARROW {
				emit(d, "recv", s.src(x.X))
			}
		}
	}
	stmts = func(list []ast.Stmt, d int) {
		for _, st := range list {
			switch x := st.(type) {
			case *ast.ExprStmt:
				expr(x.X, d, false)
			case *ast.DeferStmt:
				expr(x.Call, d, true)
			case *ast.AssignStmt:
				for _, r := range x.Rhs {
					expr(r, d, false)
				}
			case *ast.SendStmt:
				emit(d, "send", s.src(x.Chan))
			case *ast.IfStmt:
				if x.Init != nil {
					stmts([]ast.Stmt{x.Init}, d)
				}
				emit(d, "ifc", s.src(x.Cond))
				stmts(x.Body.List, d+1)
				if el, ok := x.Else.(*ast.BlockStmt); ok {
					emit(d, "elsec", "")
					stmts(el.List, d+1)
				} else if x.Else != nil {
					emit(d, "elsec", "")
					stmts([]ast.Stmt{x.Else}, d+1)
				}
			case *ast.ForStmt:
				c := ""
				if x.Cond != nil {
					c = s.src(x.Cond)
				}
				emit(d, "loop", c)
				stmts(x.Body.List, d+1)
			case *ast.ReturnStmt:
				for _, r := range x.Results {
					expr(r, d, false)
				}
				emit(d, "ret", "")
			}
		}
	}
	stmts(fd.Body.List, 0)
	return out
}

func (e *emitter) c11EffList(s *source, rel, goName, leanName string) {
	fd := s.findFunc(rel, goName)
	if fd == nil {
		e.errors = append(e.errors, "function "+goName+" not found in "+rel)
		e.printf("def %s : List EffX := []\n\n", leanName)
		return
	}
	e.printf("/-- typed order of effects of `%s` in %s -/\ndef %s : List EffX := [\n  %s]\n\n", goName, rel, leanName, strings.Join(s.c11Effs(fd), ",\n  "))
}

// c11DelegList: what a delegating wrapper calls on its PeriodicalExecutor, as typed values (method + printed arguments)
func (e *emitter) c11DelegList(s *source, rel, goName, leanName, prefix string) {
	fd := s.findFunc(rel, goName)
	if fd == nil {
		e.errors = append(e.errors, "function "+goName+" not found in "+rel)
		e.printf("def %s : List DelegX := []\n\n", leanName)
		return
	}
	var out []string
	ast.Inspect(fd.Body, func(n ast.Node) bool {
		if c, ok := n.(*ast.CallExpr); ok {
			fn := s.src(c.Fun)
			if strings.HasPrefix(fn, prefix) {
				var args []string
				for _, a := range c.Args {
					if _, isLit := a.(*ast.FuncLit); isLit {
						args = append(args, leanString("func"))
					} else {
						args = append(args, leanString(s.src(a)))
					}
				}
				m := strings.TrimPrefix(fn, prefix)
				k := "other " + leanString(m)
				switch m {
				case "Add":
					k = "add"
				case "Flush":
					k = "flush"
				case "Wait":
					k = "wait"
				case "Sync":
					k = "sync"
				}
				out = append(out, fmt.Sprintf("{ method := .%s, args := [%s] }", k, strings.Join(args, ", ")))
			}
		}
		return true
	})
	e.printf("/-- what `%s` in %s calls on its PeriodicalExecutor (typed) -/\ndef %s : List DelegX := [%s]\n\n", goName, rel, leanName, strings.Join(out, ", "))
}

func init() {
	register("C11", func(s *source, e *emitter) {
		const f = "core/executors/periodicalexecutor.go"
		e.constDef(s, f, "idleRound", "idleRound")
		e.shapeDef(s, f, "PeriodicalExecutor.Add", "addShape")
		e.shapeDef(s, f, "PeriodicalExecutor.addAndCheck", "addAndCheckShape")
		e.shapeDef(s, f, "PeriodicalExecutor.Flush", "flushShape")
		e.shapeDef(s, f, "PeriodicalExecutor.Sync", "syncShape")
		e.shapeDef(s, f, "PeriodicalExecutor.Wait", "waitShape")
		e.shapeDef(s, f, "PeriodicalExecutor.backgroundFlush", "backgroundFlushShape")
		e.shapeDef(s, f, "PeriodicalExecutor.enterExecution", "enterExecutionShape")
		e.shapeDef(s, f, "PeriodicalExecutor.doneExecution", "doneExecutionShape")
		e.shapeDef(s, f, "PeriodicalExecutor.executeTasks", "executeTasksShape")
		e.shapeDef(s, f, "PeriodicalExecutor.hasTasks", "hasTasksShape")
		e.shapeDef(s, f, "PeriodicalExecutor.shallQuit", "shallQuitShape")
		e.shapeDef(s, f, "NewPeriodicalExecutor", "newShape")
		// what the skeletons drop
		e.c11List(s, f, "PeriodicalExecutor.backgroundFlush", "backgroundFlushCases", "select cases (statements in order)", s.c11SelectCases)
		e.c11List(s, f, "PeriodicalExecutor.backgroundFlush", "commandedAssigns", "assignments to `commanded`",
			func(fd *ast.FuncDecl) []string { return s.c11Assigns(fd, "commanded") })
		e.c11List(s, f, "PeriodicalExecutor.backgroundFlush", "lastAssigns", "assignments to `last`",
			func(fd *ast.FuncDecl) []string { return s.c11Assigns(fd, "last") })
		atomics := func(fd *ast.FuncDecl) []string { return s.c11Calls(fd, "atomic.") }
		e.c11List(s, f, "PeriodicalExecutor.addAndCheck", "addAndCheckAtomics", "atomic calls with arguments", atomics)
		e.c11List(s, f, "PeriodicalExecutor.backgroundFlush", "backgroundFlushAtomics", "atomic calls with arguments", atomics)
		e.c11List(s, f, "PeriodicalExecutor.Wait", "waitAtomics", "atomic calls with arguments", atomics)
		e.c11List(s, f, "PeriodicalExecutor.shallQuit", "shallQuitAtomics", "atomic calls with arguments", atomics)
		e.c11List(s, f, "NewPeriodicalExecutor", "newMakes", "channel constructions",
			func(fd *ast.FuncDecl) []string { return s.c11Calls(fd, "make") })
		e.c11List(s, f, "PeriodicalExecutor.addAndCheck", "addAndCheckConds", "conditions and returns", s.c11Conds)
		e.c11List(s, f, "PeriodicalExecutor.Add", "addConds", "conditions and returns", s.c11Conds)
		e.c11List(s, f, "PeriodicalExecutor.executeTasks", "executeTasksConds", "conditions and returns", s.c11Conds)
		e.c11List(s, f, "PeriodicalExecutor.hasTasks", "hasTasksConds", "conditions and returns", s.c11Conds)
		e.c11List(s, f, "PeriodicalExecutor.shallQuit", "shallQuitConds", "conditions and returns", s.c11Conds)
		e.c11List(s, f, "PeriodicalExecutor.shallQuit", "shallQuitStops", "assignments to `stop`",
			func(fd *ast.FuncDecl) []string { return s.c11Assigns(fd, "stop") })
		e.c11List(s, f, "PeriodicalExecutor.Wait", "waitConds", "conditions and returns", s.c11Conds)
		e.c11List(s, f, "PeriodicalExecutor.Flush", "flushConds", "conditions and returns", s.c11Conds)
		// the containers: every statement, and the threshold comparison
		const b = "core/executors/bulkexecutor.go"
		e.constDef(s, b, "defaultBulkTasks", "defaultBulkTasks")
		e.constDef(s, "core/executors/chunkexecutor.go", "defaultChunkSize", "defaultChunkSize")
		e.constDef(s, "core/executors/vars.go", "defaultFlushInterval", "defaultFlushInterval")
		e.constDef(s, "core/stores/sqlx/bulkinserter.go", "flushInterval", "sqlxFlushInterval")
		e.shapeDef(s, b, "bulkContainer.AddTask", "bulkAddTaskShape")
		e.shapeDef(s, b, "bulkContainer.RemoveAll", "bulkRemoveAllShape")
		e.shapeDef(s, b, "bulkContainer.Execute", "bulkExecuteShape")
		e.shapeDef(s, b, "BulkExecutor.Add", "bulkAddShape")
		e.shapeDef(s, b, "BulkExecutor.Flush", "bulkFlushShape")
		e.shapeDef(s, b, "BulkExecutor.Wait", "bulkWaitShape")
		e.c11List(s, b, "bulkContainer.AddTask", "bulkAddTaskStmts", "statements", s.c11Stmts)
		e.c11List(s, b, "bulkContainer.RemoveAll", "bulkRemoveAllStmts", "statements", s.c11Stmts)
		e.c11List(s, b, "bulkContainer.Execute", "bulkExecuteStmts", "statements", s.c11Stmts)
		e.c11List(s, b, "bulkContainer.AddTask", "bulkThreshold", "threshold comparison (lhs, operator, rhs)", s.c11Cmp)
		e.c11List(s, b, "NewBulkExecutor", "newBulkStmts", "statements", s.c11Stmts)
		const c = "core/executors/chunkexecutor.go"
		e.shapeDef(s, c, "chunkContainer.AddTask", "chunkAddTaskShape")
		e.shapeDef(s, c, "chunkContainer.RemoveAll", "chunkRemoveAllShape")
		e.shapeDef(s, c, "chunkContainer.Execute", "chunkExecuteShape")
		e.shapeDef(s, c, "ChunkExecutor.Add", "chunkAddShape")
		e.shapeDef(s, c, "ChunkExecutor.Flush", "chunkFlushShape")
		e.shapeDef(s, c, "ChunkExecutor.Wait", "chunkWaitShape")
		e.c11List(s, c, "chunkContainer.AddTask", "chunkAddTaskStmts", "statements", s.c11Stmts)
		e.c11List(s, c, "chunkContainer.RemoveAll", "chunkRemoveAllStmts", "statements", s.c11Stmts)
		e.c11List(s, c, "chunkContainer.Execute", "chunkExecuteStmts", "statements", s.c11Stmts)
		e.c11List(s, c, "chunkContainer.AddTask", "chunkThreshold", "threshold comparison (lhs, operator, rhs)", s.c11Cmp)
		e.c11List(s, c, "ChunkExecutor.Add", "chunkAddStmts", "statements", s.c11Stmts)
		e.c11List(s, c, "NewChunkExecutor", "newChunkStmts", "statements", s.c11Stmts)
		// users of the executor named by the property's anchors: the sqlx bulk inserter
		const q = "core/stores/sqlx/bulkinserter.go"
		e.constDef(s, q, "maxBulkRows", "sqlxMaxBulkRows")
		e.shapeDef(s, q, "BulkInserter.Insert", "sqlxInsertShape")
		e.shapeDef(s, q, "BulkInserter.Flush", "sqlxFlushShape")
		e.shapeDef(s, q, "BulkInserter.UpdateOrDelete", "sqlxUpdateOrDeleteShape")
		e.shapeDef(s, q, "BulkInserter.UpdateStmt", "sqlxUpdateStmtShape")
		e.shapeDef(s, q, "BulkInserter.SetResultHandler", "sqlxSetResultHandlerShape")
		e.shapeDef(s, q, "NewBulkInserter", "sqlxNewShape")
		e.c11List(s, q, "dbInserter.AddTask", "sqlxAddTaskStmts", "statements", s.c11Stmts)
		e.c11List(s, q, "dbInserter.RemoveAll", "sqlxRemoveAllStmts", "statements", s.c11Stmts)
		e.c11List(s, q, "dbInserter.AddTask", "sqlxThreshold", "threshold comparison (lhs, operator, rhs)", s.c11Cmp)
		e.c11List(s, q, "dbInserter.Execute", "sqlxExecuteConds", "conditions and returns", s.c11Conds)
		// decision-making conditions of the executor, as Lean functions of what they read
		e.c11CondFn(s, f, "PeriodicalExecutor.shallQuit", 0, "shallQuitStaysFn", "(since interval : Int)",
			map[string]string{"timex.Since(last)": "since", "pe.interval": "interval"})
		e.c11CondFn(s, f, "PeriodicalExecutor.shallQuit", 1, "shallQuitStopsFn", "(inflight : Int)",
			map[string]string{"atomic.LoadInt32(&pe.inflight)": "inflight"})
		e.c11CondFn(s, f, "PeriodicalExecutor.Wait", 0, "waitSpinsFn", "(inflight : Int)",
			map[string]string{"atomic.LoadInt32(&pe.inflight)": "inflight"})
		e.c11CondFn(s, f, "PeriodicalExecutor.addAndCheck", 0, "startsFlusherFn", "(guarded : Bool)",
			map[string]string{"pe.guarded": "guarded"})
		e.c11CondFn(s, f, "PeriodicalExecutor.addAndCheck", 1, "handsOverFn", "(addTaskSaidFull : Bool)",
			map[string]string{"pe.container.AddTask(task)": "addTaskSaidFull"})
		e.c11CondFn(s, f, "PeriodicalExecutor.hasTasks", 2, "hasTasksLenFn", "(valLen : Int)",
			map[string]string{"val.Len()": "valLen"})
		e.c11CondFn(s, f, "PeriodicalExecutor.executeTasks", 0, "executesFn", "(ok : Bool)", nil)
		e.c11CondFn(s, f, "PeriodicalExecutor.Add", 0, "addSendsFn", "(ok : Bool)", nil)
		// options and constructors: every statement
		e.c11List(s, b, "newBulkOptions", "newBulkOptionsStmts", "statements", s.c11Stmts)
		e.c11List(s, b, "WithBulkTasks", "withBulkTasksStmts", "statements", s.c11Stmts)
		e.c11List(s, b, "WithBulkInterval", "withBulkIntervalStmts", "statements", s.c11Stmts)
		e.c11List(s, "core/executors/chunkexecutor.go", "newChunkOptions", "newChunkOptionsStmts", "statements", s.c11Stmts)
		e.c11List(s, "core/executors/chunkexecutor.go", "WithChunkBytes", "withChunkBytesStmts", "statements", s.c11Stmts)
		e.c11List(s, "core/executors/chunkexecutor.go", "WithFlushInterval", "withFlushIntervalStmts", "statements", s.c11Stmts)
		e.c11List(s, f, "NewPeriodicalExecutor", "newPeriodicalFields", "fields of the executor literal", s.c11LitFields)
		e.c11List(s, f, "PeriodicalExecutor.backgroundFlush", "tickerCalls", "ticker construction",
			func(fd *ast.FuncDecl) []string { return s.c11Calls(fd, "pe.newTicker") })
		e.c11List(s, "core/stores/sqlx/bulkinserter.go", "NewBulkInserter", "sqlxNewStmts", "statements", s.c11Stmts)
		// semantic tie: the container methods as Lean functions over abstract slice primitives
		const prims = "{H S T : Type} (append : H → S → T → H × S) (len : S → Int) (nilS : S) (slice0 : S → S) "
		e.c11Translated(s, b, "bulkContainer.AddTask", "bulkAddTaskFn", prims+"(hp : H) (f_tasks : S) (f_maxTasks : Int) (task : T)",
			[]string{"hp", "f_tasks"}, nil, "")
		e.c11Translated(s, b, "bulkContainer.RemoveAll", "bulkRemoveAllFn", prims+"(f_tasks : S)", []string{"f_tasks"}, nil, "")
		e.c11Translated(s, c, "chunkContainer.AddTask", "chunkAddTaskFn",
			"{H S T V C : Type} (append : H → S → V → H × S) (len : S → Int) (nilS : S) (slice0 : S → S) (cast : T → C) (fld_val : C → V) (fld_size : C → Int) (hp : H) (f_tasks : S) (f_size : Int) (f_maxChunkSize : Int) (task : T)",
			[]string{"hp", "f_tasks", "f_size"}, nil, "")
		e.c11Translated(s, c, "chunkContainer.RemoveAll", "chunkRemoveAllFn", prims+"(f_tasks : S) (f_size : Int)", []string{"f_tasks", "f_size"}, nil, "")
		e.c11Translated(s, q, "dbInserter.AddTask", "sqlxAddTaskFn",
			"{H S T V : Type} (append : H → S → V → H × S) (len : S → Int) (nilS : S) (slice0 : S → S) (cast : T → V) (hp : H) (f_values : S) (task : T)",
			[]string{"hp", "f_values"}, nil, "")
		e.c11Translated(s, q, "dbInserter.RemoveAll", "sqlxRemoveAllFn", prims+"(f_values : S)", []string{"f_values"}, nil, "")
		e.c11Translated(s, q, "dbInserter.Execute", "sqlxExecuteFn",
			"{B : Type} (cast : B → List String) (len : List String → Int) (strLen : String → Int) (join : List String → String → String) (f_stmt_prefix f_stmt_suffix : String) (bulk : B)",
			nil, []string{"in.stmt.suffix"}, "in.sqlConn.Exec")
		// the public constructors: option records, defaults, option setters and forwarded arguments as Lean functions
		const vars = "core/executors/vars.go"
		bf := e.c11RecordDef(s, b, "bulkOptions", "BulkOptionsX")
		cf := e.c11RecordDef(s, c, "chunkOptions", "ChunkOptionsX")
		e.c11RecordLit(s, b, "newBulkOptions", "newBulkOptionsFn", "BulkOptionsX", bf, vars)
		e.c11RecordLit(s, c, "newChunkOptions", "newChunkOptionsFn", "ChunkOptionsX", cf, vars)
		e.c11OptionSetter(s, b, "WithBulkTasks", "withBulkTasksFn", "BulkOptionsX", bf)
		e.c11OptionSetter(s, b, "WithBulkInterval", "withBulkIntervalFn", "BulkOptionsX", bf)
		e.c11OptionSetter(s, c, "WithChunkBytes", "withChunkBytesFn", "ChunkOptionsX", cf)
		e.c11OptionSetter(s, c, "WithFlushInterval", "withFlushIntervalFn", "ChunkOptionsX", cf)
		e.c11Forward(s, b, "NewBulkExecutor", "newBulkThresholdFn", "options", "BulkOptionsX", "bulkContainer", "maxTasks", "", 0)
		e.c11Forward(s, b, "NewBulkExecutor", "newBulkIntervalFn", "options", "BulkOptionsX", "", "", "NewPeriodicalExecutor", 0)
		e.c11Forward(s, c, "NewChunkExecutor", "newChunkThresholdFn", "options", "ChunkOptionsX", "chunkContainer", "maxChunkSize", "", 0)
		e.c11Forward(s, c, "NewChunkExecutor", "newChunkIntervalFn", "options", "ChunkOptionsX", "", "", "NewPeriodicalExecutor", 0)
		e.c11List(s, b, "NewBulkExecutor", "newBulkRanges", "how the options are applied", s.c11Ranges)
		e.c11List(s, c, "NewChunkExecutor", "newChunkRanges", "how the options are applied", s.c11Ranges)
		// delegating entry points: the calls they make, WITH their argument lists
		e.c11List(s, b, "BulkExecutor.Add", "bulkAddCalls", "delegated calls with arguments", func(fd *ast.FuncDecl) []string { return s.c11Calls(fd, "be.") })
		e.c11List(s, b, "BulkExecutor.Flush", "bulkFlushCalls", "delegated calls with arguments", func(fd *ast.FuncDecl) []string { return s.c11Calls(fd, "be.") })
		e.c11List(s, b, "BulkExecutor.Wait", "bulkWaitCalls", "delegated calls with arguments", func(fd *ast.FuncDecl) []string { return s.c11Calls(fd, "be.") })
		e.c11List(s, c, "ChunkExecutor.Add", "chunkAddCalls", "delegated calls with arguments", func(fd *ast.FuncDecl) []string { return s.c11Calls(fd, "ce.") })
		e.c11List(s, c, "ChunkExecutor.Flush", "chunkFlushCalls", "delegated calls with arguments", func(fd *ast.FuncDecl) []string { return s.c11Calls(fd, "ce.") })
		e.c11List(s, c, "ChunkExecutor.Wait", "chunkWaitCalls", "delegated calls with arguments", func(fd *ast.FuncDecl) []string { return s.c11Calls(fd, "ce.") })
		e.c11List(s, q, "BulkInserter.Insert", "sqlxInsertCalls", "delegated calls with arguments", func(fd *ast.FuncDecl) []string { return s.c11Calls(fd, "bi.executor.", "format") })
		e.c11List(s, q, "BulkInserter.Flush", "sqlxFlushCalls", "delegated calls with arguments", func(fd *ast.FuncDecl) []string { return s.c11Calls(fd, "bi.executor.") })
		e.c11List(s, q, "BulkInserter.UpdateOrDelete", "sqlxUpdateOrDeleteCalls", "delegated calls with arguments", func(fd *ast.FuncDecl) []string { return s.c11Calls(fd, "bi.executor.", "fn") })
		e.c11List(s, f, "NewPeriodicalExecutor", "newShutdownCalls", "what the shutdown listener does", func(fd *ast.FuncDecl) []string { return s.c11Calls(fd, "proc.", "executor.") })
		e.c11List(s, f, "PeriodicalExecutor.executeTasks", "executeTasksCalls", "calls with arguments", func(fd *ast.FuncDecl) []string { return s.c11Calls(fd, "pe.", "threading.") })
		// parseInsertStmt: its decisions as Lean functions, its slice expressions as text
		e.constDef(s, q, "valuesKeyword", "sqlxValuesKeyword")
		e.c11CondFn(s, q, "parseInsertStmt", 0, "parseBadSqlFn", "(pos : Int)", nil)
		e.c11CondFn(s, q, "parseInsertStmt", 1, "parseParenFoundFn", "(right : Int)", nil)
		e.c11CondFn(s, q, "parseInsertStmt", 8, "parseNoVariablesFn", "(variables : Int)", nil)
		e.c11CondFn(s, q, "parseInsertStmt", 9, "parseMismatchFn", "(columns variables : Int)", nil)
		e.c11List(s, q, "parseInsertStmt", "parseConds", "conditions and returns", s.c11Conds)
		e.c11List(s, q, "parseInsertStmt", "parseResultFields", "fields of the returned statement", s.c11LitFields)
		e.c11List(s, q, "parseInsertStmt", "parseValueFormatAssigns", "assignments to `valueFormat`",
			func(fd *ast.FuncDecl) []string { return s.c11Assigns(fd, "valueFormat") })
		e.c11List(s, q, "parseInsertStmt", "parseSuffixAssigns", "assignments to `suffix`",
			func(fd *ast.FuncDecl) []string { return s.c11Assigns(fd, "suffix") })
		e.c11List(s, q, "parseInsertStmt", "parseIndexCalls", "the searches", func(fd *ast.FuncDecl) []string {
			return s.c11Calls(fd, "strings.Index", "strings.LastIndexByte", "strings.ToLower", "strings.TrimSpace")
		})
		// typed effects and typed delegations (round 5e)
		e.printf("inductive EffK | call | deferCall | deferBlock | block | runSafe | guard | callWithFunc | ifc | elsec | loop | send | recv | ret\n  deriving DecidableEq, Repr\n\nstructure EffX where\n  depth : Nat\n  kind : EffK\n  what : String\n  deriving DecidableEq, Repr\n\n")
		e.printf("inductive MethX | add | flush | wait | sync | other (m : String)\n  deriving DecidableEq, Repr\n\nstructure DelegX where\n  method : MethX\n  args : List String\n  deriving DecidableEq, Repr\n\n")
		e.c11EffList(s, f, "PeriodicalExecutor.executeTasks", "executeTasksEffs")
		e.c11EffList(s, f, "PeriodicalExecutor.Wait", "waitEffs")
		e.c11EffList(s, f, "PeriodicalExecutor.Flush", "flushEffs")
		e.c11EffList(s, f, "PeriodicalExecutor.Add", "addEffs")
		e.c11EffList(s, f, "PeriodicalExecutor.enterExecution", "enterExecutionEffs")
		e.c11DelegList(s, b, "BulkExecutor.Add", "bulkAddDeleg", "be.executor.")
		e.c11DelegList(s, b, "BulkExecutor.Flush", "bulkFlushDeleg", "be.executor.")
		e.c11DelegList(s, b, "BulkExecutor.Wait", "bulkWaitDeleg", "be.executor.")
		e.c11DelegList(s, c, "ChunkExecutor.Add", "chunkAddDeleg", "ce.executor.")
		e.c11DelegList(s, c, "ChunkExecutor.Flush", "chunkFlushDeleg", "ce.executor.")
		e.c11DelegList(s, c, "ChunkExecutor.Wait", "chunkWaitDeleg", "ce.executor.")
		e.c11DelegList(s, q, "BulkInserter.Insert", "sqlxInsertDeleg", "bi.executor.")
		e.c11DelegList(s, q, "BulkInserter.Flush", "sqlxFlushDeleg", "bi.executor.")
		e.c11DelegList(s, q, "BulkInserter.UpdateOrDelete", "sqlxUpdateOrDeleteDeleg", "bi.executor.")
		e.c11DelegList(s, q, "BulkInserter.UpdateStmt", "sqlxUpdateStmtDeleg", "bi.executor.")
		e.c11DelegList(s, q, "BulkInserter.SetResultHandler", "sqlxSetResultHandlerDeleg", "bi.executor.")
	})
}
