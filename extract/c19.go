package main

// C19 — Redis lock: constants, the lease expression handed to the lock script, which script and which
// KEYS/ARGV each of AcquireCtx / ReleaseCtx runs, the reply handling skeletons, and the two Lua scripts
// as token lists (lexed here, parsed and interpreted on the Lean side, so that the Tie is semantic:
// "the interpretation of the current script equals the model's script function for every store").

import (
	"fmt"
	"go/ast"
	"go/constant"
	"go/token"
	"os"
	"path/filepath"
	"strconv"
	"strings"
)

// luaTokens lexes the small Lua subset the scripts use. Strings are emitted as "…" (double quoted,
// whatever quote the source used), everything else verbatim. Comments and whitespace are dropped.
func luaTokens(src string) ([]string, error) {
	var out []string
	i := 0
	isIdStart := func(c byte) bool { return c == '_' || (c >= 'a' && c <= 'z') || (c >= 'A' && c <= 'Z') }
	isDigit := func(c byte) bool { return c >= '0' && c <= '9' }
	for i < len(src) {
		c := src[i]
		switch {
		case c == ' ' || c == '\t' || c == '\n' || c == '\r':
			i++
		case c == '-' && i+1 < len(src) && src[i+1] == '-':
			if strings.HasPrefix(src[i:], "--[[") {
				return out, fmt.Errorf("lua: block comment not supported")
			}
			for i < len(src) && src[i] != '\n' {
				i++
			}
		case isIdStart(c):
			j := i
			for j < len(src) && (isIdStart(src[j]) || isDigit(src[j])) {
				j++
			}
			out = append(out, src[i:j])
			i = j
		case isDigit(c):
			j := i
			for j < len(src) && isDigit(src[j]) {
				j++
			}
			if j < len(src) && (src[j] == '.' || isIdStart(src[j])) {
				return out, fmt.Errorf("lua: unsupported number at offset %d", i)
			}
			out = append(out, src[i:j])
			i = j
		case c == '"' || c == '\'':
			j := i + 1
			for j < len(src) && src[j] != c {
				if src[j] == '\\' || src[j] == '\n' {
					return out, fmt.Errorf("lua: unsupported string at offset %d", i)
				}
				j++
			}
			if j >= len(src) {
				return out, fmt.Errorf("lua: unterminated string")
			}
			out = append(out, "\""+src[i+1:j]+"\"")
			i = j + 1
		case strings.HasPrefix(src[i:], "==") || strings.HasPrefix(src[i:], "~=") || strings.HasPrefix(src[i:], "<=") || strings.HasPrefix(src[i:], ">=") || strings.HasPrefix(src[i:], ".."):
			out = append(out, src[i:i+2])
			i += 2
		case strings.IndexByte("()[],.;=<>+-*/#{}:%", c) >= 0:
			out = append(out, string(c))
			i++
		default:
			return out, fmt.Errorf("lua: unexpected character %q at offset %d", c, i)
		}
	}
	return out, nil
}

// embedOf returns the file named by the `//go:embed` directive of package-level var `name`.
func embedOf(s *source, rel, name string) (string, bool) {
	f := s.file(rel)
	if f == nil {
		return "", false
	}
	// the file is parsed without comments; read the directive from the source text
	raw, err := os.ReadFile(filepath.Join(*repo, rel))
	if err != nil {
		return "", false
	}
	lines := strings.Split(string(raw), "\n")
	for i, l := range lines {
		t := strings.TrimSpace(l)
		if strings.HasPrefix(t, "//go:embed ") && i+1 < len(lines) {
			next := strings.Fields(strings.TrimSpace(lines[i+1]))
			if len(next) >= 1 && next[0] == name {
				return strings.TrimSpace(strings.TrimPrefix(t, "//go:embed ")), true
			}
		}
	}
	return "", false
}

// scriptVarSource: `lockScript = NewScript(lockLuaScript)` -> "lockLuaScript"
func scriptVarSource(s *source, rel, name string) (string, bool) {
	f := s.file(rel)
	if f == nil {
		return "", false
	}
	for _, d := range f.Decls {
		gd, ok := d.(*ast.GenDecl)
		if !ok {
			continue
		}
		for _, sp := range gd.Specs {
			vs, ok := sp.(*ast.ValueSpec)
			if !ok {
				continue
			}
			for i, n := range vs.Names {
				if n.Name == name && i < len(vs.Values) {
					if call, ok := vs.Values[i].(*ast.CallExpr); ok && len(call.Args) == 1 {
						if fn, ok := call.Fun.(*ast.Ident); ok && fn.Name == "NewScript" {
							if a, ok := call.Args[0].(*ast.Ident); ok {
								return a.Name, true
							}
						}
					}
				}
			}
		}
	}
	return "", false
}

// findScriptRun finds the `….ScriptRunCtx(ctx, <script>, []string{…}, []string{…})` call of a function.
func findScriptRun(fd *ast.FuncDecl) *ast.CallExpr {
	var found *ast.CallExpr
	ast.Inspect(fd.Body, func(n ast.Node) bool {
		if c, ok := n.(*ast.CallExpr); ok && found == nil {
			if sel, ok := c.Fun.(*ast.SelectorExpr); ok && (sel.Sel.Name == "ScriptRunCtx" || sel.Sel.Name == "ScriptRun") {
				found = c
				return false
			}
		}
		return true
	})
	return found
}

// decisionShape lists, in source order, what decides a function's results: if-conditions, type
// assertions and every return with its result expressions (logging and other calls are dropped).
func decisionShape(s *source, list []ast.Stmt, out *[]string) {
	for _, st := range list {
		switch x := st.(type) {
		case *ast.IfStmt:
			if x.Init != nil {
				decisionShape(s, []ast.Stmt{x.Init}, out)
			}
			*out = append(*out, "if "+s.src(x.Cond)+" {")
			decisionShape(s, x.Body.List, out)
			*out = append(*out, "}")
			if x.Else != nil {
				*out = append(*out, "else {")
				decisionShape(s, []ast.Stmt{x.Else}, out)
				*out = append(*out, "}")
			}
		case *ast.BlockStmt:
			decisionShape(s, x.List, out)
		case *ast.ReturnStmt:
			*out = append(*out, s.src(x))
		case *ast.AssignStmt:
			for _, r := range x.Rhs {
				if _, ok := r.(*ast.TypeAssertExpr); ok {
					*out = append(*out, s.src(x))
				}
			}
		}
	}
}

// c19PureCalls: calls that cannot touch Redis or the lock's shared word (conversions, formatting, logging,
// error inspection). Everything else a function calls is listed by effectCalls and tied.
var c19PureCalls = map[string]bool{
	"int": true, "uint32": true, "string": true, "len": true, "make": true,
	"strconv.Itoa": true, "errors.Is": true, "err.Error": true,
	"logx.Errorf": true, "logx.Error": true, "fmt.Sprintf": true, "fmt.Errorf": true,
	"context.Background": true,
}

// effectCalls lists, in source order (outer call before its arguments), the callee of every call
// expression in the function that is not in c19PureCalls: the store round trips, the atomic accesses of the
// shared `seconds` word and any helper that could hide one.
func effectCalls(s *source, fd *ast.FuncDecl) []string {
	var out []string
	ast.Inspect(fd.Body, func(n ast.Node) bool {
		if c, ok := n.(*ast.CallExpr); ok {
			name := s.src(c.Fun)
			if !c19PureCalls[name] {
				out = append(out, name)
			}
		}
		return true
	})
	if out == nil {
		out = []string{}
	}
	return out
}

// constSrc returns the source text of a package-level constant's value expression.
func constSrc(s *source, rel, name string) string {
	f := s.file(rel)
	if f == nil {
		return "MISSING"
	}
	for _, d := range f.Decls {
		gd, ok := d.(*ast.GenDecl)
		if !ok {
			continue
		}
		for _, sp := range gd.Specs {
			vs, ok := sp.(*ast.ValueSpec)
			if !ok {
				continue
			}
			for i, n := range vs.Names {
				if n.Name == name && i < len(vs.Values) {
					return s.src(vs.Values[i])
				}
			}
		}
	}
	return "MISSING"
}

// flatStmts prints every statement of a block, flattened, with block structure as `{` / `}` tokens.
func flatStmts(s *source, list []ast.Stmt, out *[]string) {
	for _, st := range list {
		switch x := st.(type) {
		case *ast.ForStmt:
			h := "for "
			if x.Init != nil {
				h += s.src(x.Init)
			}
			h += "; "
			if x.Cond != nil {
				h += s.src(x.Cond)
			}
			h += "; "
			if x.Post != nil {
				h += s.src(x.Post)
			}
			*out = append(*out, h+" {")
			flatStmts(s, x.Body.List, out)
			*out = append(*out, "}")
		case *ast.IfStmt:
			h := "if "
			if x.Init != nil {
				h += s.src(x.Init) + "; "
			}
			*out = append(*out, h+s.src(x.Cond)+" {")
			flatStmts(s, x.Body.List, out)
			*out = append(*out, "}")
			if x.Else != nil {
				*out = append(*out, "else {")
				flatStmts(s, []ast.Stmt{x.Else}, out)
				*out = append(*out, "}")
			}
		case *ast.BlockStmt:
			flatStmts(s, x.List, out)
		default:
			*out = append(*out, s.src(st))
		}
	}
}

// ---------------------------------------------------------------------------------------------------------
// width-aware translation of integer expressions (round 4).  The shared translator maps Go integers to Lean
// `Int` and drops conversions, so `int(seconds)*1000+500` and `int(seconds*1000+500)` translate alike.  Here
// every sub-expression carries its Go type (width + signedness); the result is a Lean `BitVec` term in which
// `int`/`uint` have the width `W` (a parameter of the emitted function: 64 on amd64/arm64, 32 on 386/arm):
// arithmetic wraps at the width of its operand type, a conversion from an unsigned type zero-extends or
// truncates (`BitVec.setWidth`), from a signed type sign-extends or truncates (`BitVec.signExtend`), an
// untyped constant takes the type of the other operand.

type c19Ty struct {
	bits    string // "W" | "8" | "16" | "32" | "64"
	signed  bool
	untyped bool
	val     constant.Value // for untyped constants
}

var c19IntTypes = map[string]c19Ty{
	"int": {bits: "W", signed: true}, "uint": {bits: "W"}, "uintptr": {bits: "W"},
	"int8": {bits: "8", signed: true}, "uint8": {bits: "8"}, "byte": {bits: "8"},
	"int16": {bits: "16", signed: true}, "uint16": {bits: "16"},
	"int32": {bits: "32", signed: true}, "uint32": {bits: "32"},
	"int64": {bits: "64", signed: true}, "uint64": {bits: "64"},
}

func (t c19Ty) goName() string {
	for _, n := range []string{"int", "uint", "int8", "uint8", "int16", "uint16", "int32", "uint32", "int64", "uint64"} {
		if c19IntTypes[n].bits == t.bits && c19IntTypes[n].signed == t.signed {
			return n
		}
	}
	return "?"
}

type c19W struct {
	s    *source
	rel  string
	vars map[string]c19Ty // local variables / parameters with their declared integer type
}

// typedConst: a package-level constant; `untyped` unless the declaration carries a type.
func (x *c19W) constOf(name string) (c19Ty, bool) {
	f := x.s.file(x.rel)
	if f == nil {
		return c19Ty{}, false
	}
	for _, d := range f.Decls {
		gd, ok := d.(*ast.GenDecl)
		if !ok || gd.Tok != token.CONST {
			continue
		}
		for _, sp := range gd.Specs {
			vs := sp.(*ast.ValueSpec)
			for i, n := range vs.Names {
				if n.Name != name || i >= len(vs.Values) {
					continue
				}
				v, ok := x.s.eval(x.rel, vs.Values[i])
				if !ok || v.Kind() != constant.Int {
					return c19Ty{}, false
				}
				if vs.Type == nil {
					return c19Ty{untyped: true, val: v}, true
				}
				if id, ok := vs.Type.(*ast.Ident); ok {
					if ty, ok := c19IntTypes[id.Name]; ok {
						ty.val = v
						return ty, true
					}
				}
				return c19Ty{}, false
			}
		}
	}
	return c19Ty{}, false
}

func c19Lit(v constant.Value, bits string) string {
	if constant.Sign(v) < 0 {
		return fmt.Sprintf("(BitVec.ofInt %s (%s))", bits, v.ExactString())
	}
	return fmt.Sprintf("(BitVec.ofNat %s %s)", bits, v.ExactString())
}

// expr returns the Lean BitVec term (empty for an untyped constant, whose value is in the type) and the Go type.
func (x *c19W) expr(e ast.Expr) (string, c19Ty, error) {
	switch n := e.(type) {
	case *ast.ParenExpr:
		return x.expr(n.X)
	case *ast.BasicLit:
		v := constant.MakeFromLiteral(n.Value, n.Kind, 0)
		if v.Kind() != constant.Int {
			return "", c19Ty{}, fmt.Errorf("literal %s is not an integer", n.Value)
		}
		return "", c19Ty{untyped: true, val: v}, nil
	case *ast.Ident:
		if ty, ok := x.vars[n.Name]; ok {
			return n.Name, ty, nil
		}
		if ty, ok := x.constOf(n.Name); ok {
			if ty.untyped {
				return "", ty, nil
			}
			return c19Lit(ty.val, ty.bits), ty, nil
		}
		return "", c19Ty{}, fmt.Errorf("identifier %s has no known integer type", n.Name)
	case *ast.CallExpr:
		id, ok := n.Fun.(*ast.Ident)
		var to c19Ty
		isTy := false
		if ok {
			to, isTy = c19IntTypes[id.Name]
		}
		if !isTy || len(n.Args) != 1 {
			return "", c19Ty{}, fmt.Errorf("call %s is not an integer conversion", x.s.src(n))
		}
		in, from, err := x.expr(n.Args[0])
		if err != nil {
			return "", c19Ty{}, err
		}
		switch {
		case from.untyped:
			return c19Lit(from.val, to.bits), to, nil
		case from.bits == to.bits:
			return in, to, nil // same width: the bits are reinterpreted
		case from.signed:
			return fmt.Sprintf("(BitVec.signExtend %s %s)", to.bits, in), to, nil
		default:
			return fmt.Sprintf("(BitVec.setWidth %s %s)", to.bits, in), to, nil
		}
	case *ast.UnaryExpr:
		if n.Op == token.SUB {
			in, ty, err := x.expr(n.X)
			if err != nil {
				return "", c19Ty{}, err
			}
			if ty.untyped {
				ty.val = constant.UnaryOp(token.SUB, ty.val, 0)
				return "", ty, nil
			}
			return fmt.Sprintf("(- %s)", in), ty, nil
		}
	case *ast.BinaryExpr:
		var op string
		switch n.Op {
		case token.ADD:
			op = "+"
		case token.SUB:
			op = "-"
		case token.MUL:
			op = "*"
		default:
			return "", c19Ty{}, fmt.Errorf("operator %s outside the width-aware subset", n.Op)
		}
		a, ta, err := x.expr(n.X)
		if err != nil {
			return "", c19Ty{}, err
		}
		b, tb, err := x.expr(n.Y)
		if err != nil {
			return "", c19Ty{}, err
		}
		switch {
		case ta.untyped && tb.untyped:
			return "", c19Ty{untyped: true, val: constant.BinaryOp(ta.val, n.Op, tb.val)}, nil
		case ta.untyped:
			a, ta = c19Lit(ta.val, tb.bits), tb
		case tb.untyped:
			b, tb = c19Lit(tb.val, ta.bits), ta
		}
		if ta.bits != tb.bits || ta.signed != tb.signed {
			return "", c19Ty{}, fmt.Errorf("operands of %s have different types (%s, %s)", x.s.src(n), ta.goName(), tb.goName())
		}
		ta.val = nil
		return fmt.Sprintf("(%s %s %s)", a, op, b), ta, nil
	}
	return "", c19Ty{}, fmt.Errorf("expression %s outside the width-aware subset", x.s.src(e))
}

// localIntTypes: integer-typed parameters of fd and locals assigned from sync/atomic loads
// (`seconds := atomic.LoadUint32(&rl.seconds)` has type uint32).
func c19LocalIntTypes(s *source, fd *ast.FuncDecl) map[string]c19Ty {
	vars := map[string]c19Ty{}
	if fd.Type.Params != nil {
		for _, p := range fd.Type.Params.List {
			if id, ok := p.Type.(*ast.Ident); ok {
				if ty, ok := c19IntTypes[id.Name]; ok {
					for _, n := range p.Names {
						vars[n.Name] = ty
					}
				}
			}
		}
	}
	loads := map[string]string{"atomic.LoadUint32": "uint32", "atomic.LoadInt32": "int32", "atomic.LoadUint64": "uint64", "atomic.LoadInt64": "int64"}
	ast.Inspect(fd.Body, func(n ast.Node) bool {
		if as, ok := n.(*ast.AssignStmt); ok && as.Tok == token.DEFINE && len(as.Lhs) == 1 && len(as.Rhs) == 1 {
			if c, ok := as.Rhs[0].(*ast.CallExpr); ok {
				if tn, ok := loads[s.src(c.Fun)]; ok {
					if id, ok := as.Lhs[0].(*ast.Ident); ok {
						vars[id.Name] = c19IntTypes[tn]
					}
				}
			}
		}
		return true
	})
	return vars
}

// ---------------------------------------------------------------------------------------------------------
// reply decoding as a FUNCTION (round 4): the statements of AcquireCtx / ReleaseCtx after the script run are
// translated into a Lean if-chain over what go-redis handed back —
//   errIsNil  = errors.Is(err, red.Nil)     errNonNil = err != nil     respNil = resp == nil
//   isString / replyS = `reply, ok := resp.(string)`      isInt64 / replyI = `reply, ok := resp.(int64)`
// — returning (result, an error is returned).  Logging calls are skipped; anything else is an extraction error.

type c19Dec struct {
	s     *source
	atoms map[string]string // Go identifier -> Lean atom (bound by a type assertion)
	kinds map[string]string // Go identifier -> "string" | "int"
}

func (d *c19Dec) cond(e ast.Expr) (string, error) {
	switch n := e.(type) {
	case *ast.ParenExpr:
		return d.cond(n.X)
	case *ast.Ident:
		switch n.Name {
		case "true", "false":
			return n.Name, nil
		}
		if a, ok := d.atoms[n.Name]; ok && d.kinds[n.Name] == "bool" {
			return a, nil
		}
	case *ast.UnaryExpr:
		if n.Op == token.NOT {
			in, err := d.cond(n.X)
			if err != nil {
				return "", err
			}
			return "(!" + in + ")", nil
		}
	case *ast.CallExpr:
		if d.s.src(n) == "errors.Is(err, red.Nil)" {
			return "errIsNil", nil
		}
	case *ast.BinaryExpr:
		switch n.Op {
		case token.LAND, token.LOR:
			a, err := d.cond(n.X)
			if err != nil {
				return "", err
			}
			b, err := d.cond(n.Y)
			if err != nil {
				return "", err
			}
			op := "&&"
			if n.Op == token.LOR {
				op = "||"
			}
			return "(" + a + " " + op + " " + b + ")", nil
		case token.EQL, token.NEQ, token.LSS, token.LEQ, token.GTR, token.GEQ:
			l, r := d.s.src(n.X), d.s.src(n.Y)
			neg := func(t string) string {
				if n.Op == token.NEQ {
					return "(!" + t + ")"
				}
				return t
			}
			if (n.Op == token.EQL || n.Op == token.NEQ) && r == "nil" {
				switch l {
				case "err":
					if n.Op == token.NEQ {
						return "errNonNil", nil
					}
					return "(!errNonNil)", nil
				case "resp":
					return neg("respNil"), nil
				}
			}
			if id, ok := n.X.(*ast.Ident); ok {
				if a, ok := d.atoms[id.Name]; ok {
					switch d.kinds[id.Name] {
					case "string":
						if lit, ok := n.Y.(*ast.BasicLit); ok && lit.Kind == token.STRING && (n.Op == token.EQL || n.Op == token.NEQ) {
							v, err := strconv.Unquote(lit.Value)
							if err == nil {
								return neg("(" + a + " == " + leanString(v) + ")"), nil
							}
						}
					case "int":
						if v, ok := d.s.eval("", n.Y); ok && v.Kind() == constant.Int {
							ops := map[token.Token]string{token.EQL: "=", token.NEQ: "≠", token.LSS: "<", token.LEQ: "≤", token.GTR: ">", token.GEQ: "≥"}
							return fmt.Sprintf("(decide (%s %s (%s : Int)))", a, ops[n.Op], v.ExactString()), nil
						}
					}
				}
			}
		}
	}
	return "", fmt.Errorf("condition `%s` outside the translated subset", d.s.src(e))
}

// block translates a statement list; `cont` is the term for what follows the list (nil: nothing may follow).
func (d *c19Dec) block(list []ast.Stmt, cont func() (string, error)) (string, error) {
	if len(list) == 0 {
		if cont == nil {
			return "", fmt.Errorf("control reaches the end of the function without a return")
		}
		return cont()
	}
	rest := func() (string, error) { return d.block(list[1:], cont) }
	switch x := list[0].(type) {
	case *ast.ReturnStmt:
		if len(x.Results) != 2 {
			return "", fmt.Errorf("return `%s`: two results expected", d.s.src(x))
		}
		res, err := d.cond(x.Results[0])
		if err != nil {
			return "", err
		}
		switch d.s.src(x.Results[1]) {
		case "nil":
			return "(" + res + ", false)", nil
		case "err":
			return "(" + res + ", true)", nil
		}
		return "", fmt.Errorf("return `%s`: error result is neither nil nor err", d.s.src(x))
	case *ast.BlockStmt:
		return d.block(append(append([]ast.Stmt{}, x.List...), list[1:]...), cont)
	case *ast.IfStmt:
		if x.Init != nil {
			return "", fmt.Errorf("if with init statement")
		}
		c, err := d.cond(x.Cond)
		if err != nil {
			return "", err
		}
		th, err := d.block(x.Body.List, rest)
		if err != nil {
			return "", err
		}
		var el string
		if x.Else != nil {
			el, err = d.block([]ast.Stmt{x.Else}, rest)
		} else {
			el, err = rest()
		}
		if err != nil {
			return "", err
		}
		return "(if " + c + " then " + th + " else " + el + ")", nil
	case *ast.ExprStmt:
		if c, ok := x.X.(*ast.CallExpr); ok && strings.HasPrefix(d.s.src(c.Fun), "logx.") {
			return rest()
		}
	case *ast.AssignStmt:
		if len(x.Lhs) == 2 && len(x.Rhs) == 1 && x.Tok == token.DEFINE {
			if ta, ok := x.Rhs[0].(*ast.TypeAssertExpr); ok && d.s.src(ta.X) == "resp" {
				v, okv := x.Lhs[0].(*ast.Ident)
				o, oko := x.Lhs[1].(*ast.Ident)
				if okv && oko {
					switch d.s.src(ta.Type) {
					case "string":
						d.atoms[v.Name], d.kinds[v.Name] = "replyS", "string"
						d.atoms[o.Name], d.kinds[o.Name] = "isString", "bool"
						return rest()
					case "int64":
						d.atoms[v.Name], d.kinds[v.Name] = "replyI", "int"
						d.atoms[o.Name], d.kinds[o.Name] = "isInt64", "bool"
						return rest()
					}
				}
			}
		}
	}
	return "", fmt.Errorf("statement `%s` outside the translated subset", d.s.src(list[0]))
}

// c19AfterScriptRun: the statements of fd that follow `resp, err := ….ScriptRunCtx(…)`.
func c19AfterScriptRun(s *source, fd *ast.FuncDecl) ([]ast.Stmt, bool) {
	for i, st := range fd.Body.List {
		as, ok := st.(*ast.AssignStmt)
		if !ok || len(as.Lhs) != 2 || len(as.Rhs) != 1 || s.src(as.Lhs[0]) != "resp" || s.src(as.Lhs[1]) != "err" {
			continue
		}
		if c, ok := as.Rhs[0].(*ast.CallExpr); ok && strings.HasSuffix(s.src(c.Fun), ".ScriptRunCtx") {
			return fd.Body.List[i+1:], true
		}
	}
	return nil, false
}

// c19ArgList: the elements of a `[]string{…}` literal as a Lean `List String` over the parameters key / id / lease.
func c19ArgList(s *source, a ast.Expr) (string, error) {
	cl, ok := a.(*ast.CompositeLit)
	if !ok || s.src(cl.Type) != "[]string" {
		return "", fmt.Errorf("`%s` is not a []string literal", s.src(a))
	}
	var items []string
	for _, el := range cl.Elts {
		switch txt := s.src(el); {
		case txt == "rl.key":
			items = append(items, "key")
		case txt == "rl.id":
			items = append(items, "id")
		default:
			if c, ok := el.(*ast.CallExpr); ok && s.src(c.Fun) == "strconv.Itoa" && len(c.Args) == 1 {
				items = append(items, "lease")
			} else {
				return "", fmt.Errorf("script argument `%s` is neither rl.key, rl.id nor strconv.Itoa(lease)", txt)
			}
		}
	}
	return "[" + strings.Join(items, ", ") + "]", nil
}

// ---------------------------------------------------------------------------------------------------------
// stringx.Randn (round 4): constants with shifts, and the decision-making expressions of the loop translated.

// c19ConstEval evaluates an integer constant expression of file rel, including shifts and masks
// (the shared evaluator has none).  Go's precedence is in the AST.
func c19ConstEval(s *source, rel string, e ast.Expr) (constant.Value, bool) {
	switch x := e.(type) {
	case *ast.BasicLit:
		v := constant.MakeFromLiteral(x.Value, x.Kind, 0)
		return v, v.Kind() == constant.Int
	case *ast.ParenExpr:
		return c19ConstEval(s, rel, x.X)
	case *ast.Ident:
		f := s.file(rel)
		if f == nil {
			return nil, false
		}
		for _, d := range f.Decls {
			gd, ok := d.(*ast.GenDecl)
			if !ok || gd.Tok != token.CONST {
				continue
			}
			for _, sp := range gd.Specs {
				vs := sp.(*ast.ValueSpec)
				for i, n := range vs.Names {
					if n.Name == x.Name && i < len(vs.Values) {
						return c19ConstEval(s, rel, vs.Values[i])
					}
				}
			}
		}
	case *ast.CallExpr:
		// len(<string constant>)
		if s.src(x.Fun) == "len" && len(x.Args) == 1 {
			if id, ok := x.Args[0].(*ast.Ident); ok {
				if v, ok := s.constValue(rel, id.Name); ok && v.Kind() == constant.String {
					return constant.MakeInt64(int64(len(constant.StringVal(v)))), true
				}
			}
		}
	case *ast.BinaryExpr:
		a, ok1 := c19ConstEval(s, rel, x.X)
		b, ok2 := c19ConstEval(s, rel, x.Y)
		if !ok1 || !ok2 {
			return nil, false
		}
		switch x.Op {
		case token.SHL, token.SHR:
			n, ok := constant.Uint64Val(b)
			if !ok || n > 62 {
				return nil, false
			}
			return constant.Shift(a, x.Op, uint(n)), true
		case token.QUO:
			if constant.Sign(b) == 0 {
				return nil, false
			}
			return constant.BinaryOp(a, token.QUO_ASSIGN, b), true
		case token.ADD, token.SUB, token.MUL, token.AND, token.OR:
			return constant.BinaryOp(a, x.Op, b), true
		}
	}
	return nil, false
}

// c19Randn emits the constants and the translated index / acceptance / shift expressions of stringx.Randn.
func c19Randn(s *source, e *emitter, rel string) {
	for _, c := range []string{"letterIdxMask", "letterIdxMax"} {
		var val ast.Expr
		if f := s.file(rel); f != nil {
			for _, d := range f.Decls {
				if gd, ok := d.(*ast.GenDecl); ok && gd.Tok == token.CONST {
					for _, sp := range gd.Specs {
						vs := sp.(*ast.ValueSpec)
						for i, n := range vs.Names {
							if n.Name == c && i < len(vs.Values) {
								val = vs.Values[i]
							}
						}
					}
				}
			}
		}
		v, ok := constant.Value(nil), false
		if val != nil {
			v, ok = c19ConstEval(s, rel, val)
		}
		if !ok {
			e.errors = append(e.errors, "constant "+c+" of "+rel+" cannot be evaluated")
			e.printf("def %s : Nat := 0\n\n", c)
			continue
		}
		e.printf("/-- `%s = %s` in %s, evaluated (with Go's precedence) -/\ndef %s : Nat := %s\n\n", c, s.src(val), rel, c, v.ExactString())
	}
	fd := s.findFunc(rel, "Randn")
	fail := func(msg string) {
		e.errors = append(e.errors, "Randn: "+msg)
		e.printf("def randnIdx (cache : Nat) : Nat := 0\n\ndef randnAccept (idx : Nat) : Bool := false\n\ndef randnShift : Nat := 0\n\n")
	}
	if fd == nil {
		fail("function not found")
		return
	}
	var ifIdx *ast.IfStmt
	var shift *ast.AssignStmt
	ast.Inspect(fd.Body, func(n ast.Node) bool {
		switch x := n.(type) {
		case *ast.IfStmt:
			if as, ok := x.Init.(*ast.AssignStmt); ok && len(as.Lhs) == 1 && s.src(as.Lhs[0]) == "idx" {
				ifIdx = x
			}
		case *ast.AssignStmt:
			if x.Tok == token.SHR_ASSIGN && len(x.Lhs) == 1 && s.src(x.Lhs[0]) == "cache" {
				shift = x
			}
		}
		return true
	})
	if ifIdx == nil || shift == nil {
		fail("no `if idx := …; …` statement or no `cache >>= …`")
		return
	}
	// idx := int(cache & MASK)
	rhs := ifIdx.Init.(*ast.AssignStmt).Rhs[0]
	if c, ok := rhs.(*ast.CallExpr); ok && s.src(c.Fun) == "int" && len(c.Args) == 1 {
		rhs = c.Args[0]
	}
	be, ok := rhs.(*ast.BinaryExpr)
	if !ok || be.Op != token.AND || s.src(be.X) != "cache" {
		fail("index expression is not `cache & <constant>`: " + s.src(rhs))
		return
	}
	mask, ok := c19ConstEval(s, rel, be.Y)
	if !ok || constant.Sign(mask) < 0 {
		fail("mask is not a constant")
		return
	}
	// cond: idx <op> <constant>
	ce, ok := ifIdx.Cond.(*ast.BinaryExpr)
	ops := map[token.Token]string{token.LSS: "<", token.LEQ: "≤", token.GTR: ">", token.GEQ: "≥", token.EQL: "=", token.NEQ: "≠"}
	if !ok || s.src(ce.X) != "idx" || ops[ce.Op] == "" {
		fail("acceptance condition is not `idx <op> <constant>`: " + s.src(ifIdx.Cond))
		return
	}
	bound, ok := c19ConstEval(s, rel, ce.Y)
	if !ok || constant.Sign(bound) < 0 {
		fail("acceptance bound is not a constant")
		return
	}
	sh, ok := c19ConstEval(s, rel, shift.Rhs[0])
	if !ok || constant.Sign(sh) < 0 {
		fail("shift width is not a constant")
		return
	}
	// the accepted index selects the character: b[i] = letterBytes[idx]
	sel := false
	for _, st := range ifIdx.Body.List {
		if as, ok := st.(*ast.AssignStmt); ok && len(as.Rhs) == 1 && s.src(as.Rhs[0]) == "letterBytes[idx]" {
			sel = true
		}
	}
	if !sel {
		fail("accepted index does not select `letterBytes[idx]`")
		return
	}
	e.printf("/-- the index Randn reads from the cached random bits: `%s` -/\ndef randnIdx (cache : Nat) : Nat := cache &&& %s\n\n", s.src(ifIdx.Init), mask.ExactString())
	e.printf("/-- is the index used (`%s`)? otherwise it is thrown away (rejection sampling) -/\ndef randnAccept (idx : Nat) : Bool := decide (idx %s %s)\n\n", s.src(ifIdx.Cond), ops[ce.Op], bound.ExactString())
	e.printf("/-- bits consumed per index: `%s` -/\ndef randnShift : Nat := %s\n\n", s.src(shift), sh.ExactString())
}

func init() {
	register("C19", func(s *source, e *emitter) {
		const f = "core/stores/redis/redislock.go"
		e.constDef(s, f, "tolerance", "tolerance")
		e.constDef(s, f, "millisPerSecond", "millisPerSecond")
		e.constDef(s, f, "randomLen", "randomLen")

		consts := map[string]string{}
		for _, c := range []string{"tolerance", "millisPerSecond"} {
			if v, ok := s.constValue(f, c); ok {
				consts[c] = v.ExactString()
			}
		}

		// which script, which KEYS / ARGV
		for _, fn := range []struct{ goName, lean string }{{"RedisLock.AcquireCtx", "acquire"}, {"RedisLock.ReleaseCtx", "release"}} {
			fd := s.findFunc(f, fn.goName)
			if fd == nil {
				e.errors = append(e.errors, fmt.Sprintf("function %s not found in %s", fn.goName, f))
				continue
			}
			call := findScriptRun(fd)
			if call == nil || len(call.Args) < 3 {
				e.errors = append(e.errors, fmt.Sprintf("%s: no ScriptRunCtx call", fn.goName))
				e.stringList(fn.lean+"Call", "MISSING", []string{"MISSING"})
				continue
			}
			args := call.Args
			if sel := call.Fun.(*ast.SelectorExpr); sel.Sel.Name == "ScriptRunCtx" {
				args = args[1:]
			}
			var items []string
			scriptVar := s.src(args[0])
			luaVar, _ := scriptVarSource(s, f, scriptVar)
			file, _ := embedOf(s, f, luaVar)
			items = append(items, "script "+scriptVar, "source "+luaVar, "embed "+file)
			var leaseExpr ast.Expr
			for ai, a := range args[1:] {
				kind := []string{"KEYS", "ARGV"}[min(ai, 1)]
				cl, ok := a.(*ast.CompositeLit)
				if !ok {
					items = append(items, kind+" ?"+s.src(a))
					continue
				}
				for j, el := range cl.Elts {
					txt := s.src(el)
					if c, ok := el.(*ast.CallExpr); ok && s.src(c.Fun) == "strconv.Itoa" && len(c.Args) == 1 {
						txt = "itoa(lease)"
						leaseExpr = c.Args[0]
					}
					items = append(items, fmt.Sprintf("%s[%d] %s", kind, j+1, txt))
				}
			}
			e.stringList(fn.lean+"Call", "script run of `"+fn.goName+"`: script variable, its embedded file, KEYS and ARGV", items)
			if fn.lean == "acquire" {
				// the lease expression, translated to Lean Int
				if leaseExpr == nil {
					e.errors = append(e.errors, "AcquireCtx: no strconv.Itoa(lease) argument")
					e.printf("def leaseArg : Unit := ()\n\n")
				} else {
					t := &translator{registry: map[string]*transFunc{}, consts: consts}
					c := &tctx{t: t, locals: map[string]bool{"seconds": true}, freeSet: map[string]bool{}, boolVars: map[string]bool{}}
					txt, ok := c.tryExpr(leaseExpr)
					if !ok || len(c.free) > 0 {
						e.errors = append(e.errors, "AcquireCtx: lease expression outside the translated subset: "+s.src(leaseExpr))
						e.printf("def leaseArg : Unit := ()\n\n")
					} else {
						e.printf("/-- translated from the `strconv.Itoa(…)` argument of the lock script run: `%s` -/\ndef leaseArg (seconds : Int) : Int := %s\n\n", s.src(leaseExpr), txt)
					}
				}
			}
			if fn.lean == "acquire" {
				// the same expression with Go's integer widths (int = BitVec W)
				bad := func(msg string) {
					e.errors = append(e.errors, "AcquireCtx: "+msg)
					e.printf("def leaseArgW : Unit := ()\n\ndef leaseArgType : String := \"MISSING\"\n\n")
				}
				if leaseExpr == nil {
					bad("no strconv.Itoa(lease) argument")
				} else {
					x := &c19W{s: s, rel: f, vars: c19LocalIntTypes(s, fd)}
					secTy, okSec := x.vars["seconds"]
					txt, ty, err := x.expr(leaseExpr)
					switch {
					case err != nil:
						bad("lease expression: " + err.Error())
					case !okSec || len(x.vars) != 1:
						bad("the lease expression's only variable must be `seconds` loaded with atomic.LoadUint32")
					case ty.untyped:
						bad("lease expression is a constant")
					default:
						e.printf("/-- width-aware translation of `%s` (`seconds : %s`, Go `int` = `BitVec W`): the value handed to `strconv.Itoa` -/\ndef leaseArgW (W : Nat) (seconds : BitVec %s) : BitVec %s := %s\n\n",
							s.src(leaseExpr), secTy.goName(), secTy.bits, ty.bits, txt)
						e.printf("/-- Go types of the loaded `seconds` and of the `strconv.Itoa` argument -/\ndef leaseArgType : String := %s\n\n", leanString(secTy.goName()+" -> "+ty.goName()))
					}
				}
			}
			// KEYS / ARGV as functions of the instance's key, id and the lease text
			{
				keys, err1 := c19ArgList(s, args[1])
				argv := "[]"
				var err2 error
				if len(args) >= 3 {
					argv, err2 = c19ArgList(s, args[2])
				}
				if len(args) > 3 {
					err2 = fmt.Errorf("more than one ARGV argument list")
				}
				if err1 != nil || err2 != nil {
					e.errors = append(e.errors, fmt.Sprintf("%s: script arguments: %v %v", fn.goName, err1, err2))
					keys, argv = "[\"MISSING\"]", "[\"MISSING\"]"
				}
				e.printf("/-- KEYS of the script run of `%s` -/\ndef %sKeys (key id lease : String) : List String := %s\n\n", fn.goName, fn.lean, keys)
				e.printf("/-- ARGV of the script run of `%s` -/\ndef %sArgv (key id lease : String) : List String := %s\n\n", fn.goName, fn.lean, argv)
			}
			// reply decoding as a function
			{
				sig := "(errIsNil errNonNil respNil isString isInt64 : Bool) (replyS : String) (replyI : Int) : Bool × Bool"
				after, ok := c19AfterScriptRun(s, fd)
				var term string
				var err error
				if !ok {
					err = fmt.Errorf("no `resp, err := ….ScriptRunCtx(…)` statement")
				} else {
					d := &c19Dec{s: s, atoms: map[string]string{}, kinds: map[string]string{}}
					term, err = d.block(after, nil)
				}
				if err != nil {
					e.errors = append(e.errors, fn.goName+": reply decoding: "+err.Error())
					term = "(false, false)"
				}
				e.printf("/-- what `%s` returns, as a function of what go-redis handed back (translated from the statements after the script run): (result, an error is returned) -/\ndef %sDecide %s :=\n  %s\n\n", fn.goName, fn.lean, sig, term)
			}
			e.shapeDef(s, f, fn.goName, fn.lean+"Shape")
			var dec []string
			decisionShape(s, fd.Body.List, &dec)
			e.stringList(fn.lean+"Decisions", "conditions, type assertions and returns of `"+fn.goName+"`", dec)
		}
		e.shapeDef(s, f, "RedisLock.SetExpire", "setExpireShape")
		// SetExpire: the value stored, width-aware, and the word it is stored to / loaded from
		{
			bad := func(msg string) {
				e.errors = append(e.errors, "SetExpire: "+msg)
				e.printf("def setExpireArgW : Unit := ()\n\n")
			}
			word := []string{"MISSING", "MISSING"}
			if fd := s.findFunc(f, "RedisLock.SetExpire"); fd == nil {
				bad("function not found")
			} else {
				var store *ast.CallExpr
				nstores := 0
				ast.Inspect(fd.Body, func(n ast.Node) bool {
					if c, ok := n.(*ast.CallExpr); ok && strings.HasPrefix(s.src(c.Fun), "atomic.Store") {
						store = c
						nstores++
					}
					return true
				})
				x := &c19W{s: s, rel: f, vars: c19LocalIntTypes(s, fd)}
				par, okPar := x.vars["seconds"]
				switch {
				case nstores != 1 || len(store.Args) != 2 || len(fd.Body.List) != 1:
					bad("body is not one atomic store")
				case !okPar || len(x.vars) != 1:
					bad("parameter `seconds` with an integer type expected")
				default:
					txt, ty, err := x.expr(store.Args[1])
					if err != nil || ty.untyped {
						bad(fmt.Sprintf("stored expression: %v", err))
					} else {
						word[0] = "store " + s.src(store.Fun) + " " + s.src(store.Args[0])
						e.printf("/-- width-aware translation of the value `SetExpire(seconds %s)` stores: `%s` -/\ndef setExpireArgW (W : Nat) (seconds : BitVec %s) : BitVec %s := %s\n\n",
							par.goName(), s.src(store.Args[1]), par.bits, ty.bits, txt)
					}
				}
			}
			if fd := s.findFunc(f, "RedisLock.AcquireCtx"); fd != nil {
				ast.Inspect(fd.Body, func(n ast.Node) bool {
					if c, ok := n.(*ast.CallExpr); ok && strings.HasPrefix(s.src(c.Fun), "atomic.Load") && len(c.Args) == 1 {
						word[1] = "load " + s.src(c.Fun) + " " + s.src(c.Args[0])
					}
					return true
				})
			}
			e.stringList("secondsWord", "the shared word: where SetExpire stores and where AcquireCtx loads", word)
			// the field's declared type
			fieldTy := "MISSING"
			if file := s.file(f); file != nil {
				ast.Inspect(file, func(n ast.Node) bool {
					if ts, ok := n.(*ast.TypeSpec); ok && ts.Name.Name == "RedisLock" {
						if st, ok := ts.Type.(*ast.StructType); ok {
							for _, fl := range st.Fields.List {
								for _, nm := range fl.Names {
									if nm.Name == "seconds" {
										fieldTy = s.src(fl.Type)
									}
								}
							}
						}
					}
					return true
				})
			}
			e.stringList("secondsField", "declared type of RedisLock.seconds", []string{fieldTy})
		}

		// every call that could be a store round trip or an access of the shared word, per function on the path
		for _, fn := range []struct{ file, goName, lean, doc string }{
			{f, "RedisLock.AcquireCtx", "acquireStoreCalls", "AcquireCtx"},
			{f, "RedisLock.ReleaseCtx", "releaseStoreCalls", "ReleaseCtx"},
			{f, "RedisLock.Acquire", "acquireWrapperCalls", "Acquire"},
			{f, "RedisLock.Release", "releaseWrapperCalls", "Release"},
			{f, "RedisLock.SetExpire", "setExpireCalls", "SetExpire"},
			{f, "NewRedisLock", "newLockCalls", "NewRedisLock"},
			{"core/stores/redis/redis.go", "Redis.ScriptRunCtx", "scriptRunCtxCalls", "Redis.ScriptRunCtx"},
		} {
			fd := s.findFunc(fn.file, fn.goName)
			if fd == nil {
				e.errors = append(e.errors, fmt.Sprintf("function %s not found in %s", fn.goName, fn.file))
				e.stringList(fn.lean, "MISSING", []string{"MISSING"})
				continue
			}
			e.stringList(fn.lean, "callees of `"+fn.doc+"` in source order, without conversions / formatting / logging / error inspection", effectCalls(s, fd))
		}

		// the ids: stringx.Randn — alphabet, index width, rejection of out-of-alphabet indices
		const rf = "core/stringx/random.go"
		e.constDef(s, rf, "letterBytes", "letterBytes")
		e.constDef(s, rf, "letterIdxBits", "letterIdxBits")
		// (the shared constant evaluator has no shifts: the two derived constants are tied as source text)
		e.stringList("letterIdxDerived", "`letterIdxMask` and `letterIdxMax` as written", []string{
			"letterIdxMask = " + constSrc(s, rf, "letterIdxMask"), "letterIdxMax = " + constSrc(s, rf, "letterIdxMax")})
		c19Randn(s, e, rf)
		if fd := s.findFunc(rf, "Randn"); fd == nil {
			e.errors = append(e.errors, "function Randn not found in "+rf)
			e.stringList("randnBody", "MISSING", []string{"MISSING"})
		} else {
			var body []string
			flatStmts(s, fd.Body.List, &body)
			e.stringList("randnBody", "statements of `stringx.Randn`", body)
		}
		// NewScript: the wrapper through which the two package-level scripts are built
		if fd := s.findFunc("core/stores/redis/redis.go", "NewScript"); fd == nil {
			e.errors = append(e.errors, "function NewScript not found in core/stores/redis/redis.go")
			e.stringList("newScriptBody", "MISSING", []string{"MISSING"})
		} else {
			var body []string
			flatStmts(s, fd.Body.List, &body)
			e.stringList("newScriptBody", "statements of `redis.NewScript`", body)
		}
		// the fields NewRedisLock sets (id must be a fresh random string per instance, key the caller's key)
		if fd := s.findFunc(f, "NewRedisLock"); fd == nil {
			e.errors = append(e.errors, "function NewRedisLock not found in "+f)
			e.stringList("newFields", "MISSING", []string{"MISSING"})
		} else {
			var fields []string
			ast.Inspect(fd.Body, func(n ast.Node) bool {
				if cl, ok := n.(*ast.CompositeLit); ok && s.src(cl.Type) == "RedisLock" {
					for _, el := range cl.Elts {
						fields = append(fields, s.src(el))
					}
					return false
				}
				return true
			})
			e.stringList("newFields", "fields of the RedisLock literal built by NewRedisLock", fields)
		}

		// round 5: forwarded argument lists of the delegating entry points, NewRedisLock's fields as functions
		c19Forwarding(s, e)
		// round 5c: every non-pure call of the file, per function and branch
		c19EmitCallTable(s, e, f)
		c19EmitBreakerGate(s, e)
		// round 5e: returns before the script run; the instance's state
		c19EmitEarly(s, e, f, "RedisLock.AcquireCtx", "acquireEarly")
		c19EmitEarly(s, e, f, "RedisLock.ReleaseCtx", "releaseEarly")
		c19EmitLockFields(s, e, f)

		for _, l := range []struct{ file, lean string }{{"core/stores/redis/lockscript.lua", "lockLua"}, {"core/stores/redis/delscript.lua", "delLua"}} {
			raw, err := os.ReadFile(filepath.Join(*repo, l.file))
			if err != nil {
				e.errors = append(e.errors, "cannot read "+l.file)
				e.printf("/-- MISSING %s -/\ndef %s : List (Nat × String × Nat) := [(9, \"MISSING\", 0)]\n\n", l.file, l.lean)
				continue
			}
			toks, err := luaTokens(string(raw))
			if err != nil {
				e.errors = append(e.errors, l.file+": "+err.Error())
			}
			e.printf("/-- tokens of %s as (kind, text, value): 0 word/punctuation, 1 string literal, 2 number -/\ndef %s : List (Nat × String × Nat) := [", l.file, l.lean)
			for i, t := range toks {
				if i > 0 {
					e.printf(",")
				}
				switch {
				case strings.HasPrefix(t, "\""):
					e.printf("\n  (1, %s, 0)", leanString(t[1:len(t)-1]))
				case t[0] >= '0' && t[0] <= '9':
					e.printf("\n  (2, \"\", %s)", t)
				default:
					e.printf("\n  (0, %s, 0)", leanString(t))
				}
			}
			e.printf("]\n\n")
		}
	})
}

// C19 round 5: forwarded argument lists of the delegating entry points, as Lean FUNCTIONS polymorphic in the
// argument type (so the Tie theorem "for all arguments" is parametricity, not a string comparison):
//   Acquire() / Release()              -> which method of which receiver, with which context
//   AcquireCtx / ReleaseCtx call site  -> rl.store.ScriptRunCtx(ctx, <script var>, <KEYS literal>, <ARGV literal>)
//   Redis.ScriptRunCtx                 -> script.Run(ctx, conn, keys, args...)
//   NewRedisLock                       -> the fields of the literal as functions of the parameters
// An argument is: a parameter / receiver / known package variable (a Lean variable of the same name, `.` -> `_`),
// `context.Background()` (`bg`), the n-th composite literal among the arguments (`lit n`), `x...` (`spread x`).

type c19Poly struct {
	s    *source
	vars map[string]bool
	nlit int
	used map[string]bool
}

func c19Ident(n string) string { return strings.ReplaceAll(n, ".", "_") }

func (p *c19Poly) arg(a ast.Expr) (string, error) {
	switch x := a.(type) {
	case *ast.Ident:
		if p.vars[x.Name] {
			p.used[x.Name] = true
			return x.Name, nil
		}
		return "", fmt.Errorf("argument `%s` is not a parameter / receiver / known variable", x.Name)
	case *ast.SelectorExpr:
		txt := p.s.src(x)
		if p.vars[txt] {
			p.used[txt] = true
			return c19Ident(txt), nil
		}
		return "", fmt.Errorf("argument `%s` is not a known field", txt)
	case *ast.CallExpr:
		if p.s.src(x) == "context.Background()" {
			return "bg", nil
		}
		return "", fmt.Errorf("argument `%s`: call outside the subset", p.s.src(x))
	case *ast.CompositeLit:
		p.nlit++
		return fmt.Sprintf("(lit %d)", p.nlit), nil
	}
	return "", fmt.Errorf("argument `%s` outside the subset", p.s.src(a))
}

// call renders `recv.M(args…)` as ("M", recv, [args…])
func (p *c19Poly) call(c *ast.CallExpr) (string, error) {
	sel, ok := c.Fun.(*ast.SelectorExpr)
	if !ok {
		return "", fmt.Errorf("`%s` is not a method call", p.s.src(c.Fun))
	}
	recv, err := p.arg(sel.X)
	if err != nil {
		return "", err
	}
	var args []string
	for i, a := range c.Args {
		t, err := p.arg(a)
		if err != nil {
			return "", err
		}
		if c.Ellipsis.IsValid() && i == len(c.Args)-1 {
			t = "(spread " + t + ")"
		}
		args = append(args, t)
	}
	return fmt.Sprintf("(%s, %s, [%s])", leanString(sel.Sel.Name), recv, strings.Join(args, ", ")), nil
}

// c19FwdDef emits `def <lean> {α} (<vars> bg : α) (lit : Nat → α) (spread : α → α) : String × α × List α`
func c19FwdDef(s *source, e *emitter, lean, doc string, vars []string, c *ast.CallExpr) {
	sig := ""
	for _, v := range vars {
		sig += " " + c19Ident(v)
	}
	head := fmt.Sprintf("def %s {α : Type} (%s bg : α) (lit : Nat → α) (spread : α → α) : String × α × List α", lean, strings.TrimSpace(sig))
	if c == nil {
		e.errors = append(e.errors, lean+": call not found")
		e.printf("/-- MISSING -/\n%s := (\"MISSING\", bg, [])\n\n", head)
		return
	}
	vm := map[string]bool{}
	for _, v := range vars {
		vm[v] = true
	}
	p := &c19Poly{s: s, vars: vm, used: map[string]bool{}}
	term, err := p.call(c)
	if err != nil {
		e.errors = append(e.errors, lean+": "+err.Error())
		term = "(\"MISSING\", bg, [])"
	}
	e.printf("/-- %s: `%s` as (method, receiver, arguments) -/\n%s := %s\n\n", doc, s.src(c), head, term)
}

// the single `return <call>` of a delegating wrapper (the body must be exactly that statement)
func c19OnlyReturnCall(fd *ast.FuncDecl) *ast.CallExpr {
	if fd == nil || fd.Body == nil || len(fd.Body.List) != 1 {
		return nil
	}
	r, ok := fd.Body.List[0].(*ast.ReturnStmt)
	if !ok || len(r.Results) != 1 {
		return nil
	}
	c, _ := r.Results[0].(*ast.CallExpr)
	return c
}

func c19FindCall(fd *ast.FuncDecl, method string) *ast.CallExpr {
	var out *ast.CallExpr
	n := 0
	if fd == nil {
		return nil
	}
	ast.Inspect(fd.Body, func(nd ast.Node) bool {
		if c, ok := nd.(*ast.CallExpr); ok {
			if sel, ok := c.Fun.(*ast.SelectorExpr); ok && sel.Sel.Name == method {
				out = c
				n++
			}
		}
		return true
	})
	if n != 1 {
		return nil
	}
	return out
}

func c19Forwarding(s *source, e *emitter) {
	const f = "core/stores/redis/redislock.go"
	const rf = "core/stores/redis/redis.go"
	c19FwdDef(s, e, "acquireWrapperFwd", "Acquire()", []string{"rl"}, c19OnlyReturnCall(s.findFunc(f, "RedisLock.Acquire")))
	c19FwdDef(s, e, "releaseWrapperFwd", "Release()", []string{"rl"}, c19OnlyReturnCall(s.findFunc(f, "RedisLock.Release")))
	c19FwdDef(s, e, "acquireCallSite", "the script run of AcquireCtx", []string{"rl.store", "ctx", "lockScript", "delScript"},
		c19FindCall(s.findFunc(f, "RedisLock.AcquireCtx"), "ScriptRunCtx"))
	c19FwdDef(s, e, "releaseCallSite", "the script run of ReleaseCtx", []string{"rl.store", "ctx", "lockScript", "delScript"},
		c19FindCall(s.findFunc(f, "RedisLock.ReleaseCtx"), "ScriptRunCtx"))
	// Redis.ScriptRunCtx: parameters in declaration order, then the local `conn`
	{
		fd := s.findFunc(rf, "Redis.ScriptRunCtx")
		var params []string
		variadic := ""
		if fd != nil {
			for _, fl := range fd.Type.Params.List {
				for _, nm := range fl.Names {
					params = append(params, nm.Name)
					if _, ok := fl.Type.(*ast.Ellipsis); ok {
						variadic = nm.Name
					}
				}
			}
		}
		e.stringList("scriptRunCtxParams", "parameters of Redis.ScriptRunCtx in order; the variadic one last with `...`", func() []string {
			out := []string{}
			for _, p := range params {
				if p == variadic {
					p += "..."
				}
				out = append(out, p)
			}
			return out
		}())
		var run *ast.CallExpr
		if fd != nil {
			run = c19FindCall(fd, "Run")
		}
		c19FwdDef(s, e, "scriptRunCtxFwd", "Redis.ScriptRunCtx", append(append([]string{}, params...), "conn"), run)
		// where `conn` comes from and what is done with the *Cmd: the statements around the call, typed
		body := []string{}
		if fd != nil {
			for _, st := range fd.Body.List {
				switch x := st.(type) {
				case *ast.AssignStmt:
					body = append(body, "assign "+s.src(x))
				case *ast.IfStmt:
					body = append(body, "if "+s.src(x.Cond)+" "+strings.Join(strings.Fields(s.src(x.Body)), " "))
				case *ast.ReturnStmt:
					body = append(body, "return")
					for _, r := range x.Results {
						txt := s.src(r)
						if run != nil {
							txt = strings.Replace(txt, s.src(run), "<run>", 1)
						}
						body = append(body, "  "+txt)
					}
				default:
					body = append(body, "other "+s.src(st))
				}
			}
		}
		e.stringList("scriptRunCtxBody", "statements of Redis.ScriptRunCtx with the script.Run call abbreviated `<run>`", body)
	}
	// init(): whatever it does must not reach any state of the lock (today: one expression statement whose value is dropped)
	if fd := s.findFunc(f, "init"); fd == nil {
		e.stringList("initBody", "redislock.go has no init()", []string{})
	} else {
		var body []string
		flatStmts(s, fd.Body.List, &body)
		e.stringList("initBody", "statements of redislock.go's `init`", body)
	}
	// NewRedisLock: the literal's fields as functions of the parameters
	{
		head := "def newLockFields {α : Type} (store key : α) (randn : Int → α) : List (String × α)"
		fd := s.findFunc(f, "NewRedisLock")
		var items []string
		var err error
		found := false
		if fd != nil {
			ast.Inspect(fd.Body, func(n ast.Node) bool {
				cl, ok := n.(*ast.CompositeLit)
				if !ok || s.src(cl.Type) != "RedisLock" || found {
					return true
				}
				found = true
				for _, el := range cl.Elts {
					kv, ok := el.(*ast.KeyValueExpr)
					if !ok {
						err = fmt.Errorf("positional field `%s`", s.src(el))
						return false
					}
					val := ""
					switch v := kv.Value.(type) {
					case *ast.Ident:
						if v.Name == "store" || v.Name == "key" {
							val = v.Name
						}
					case *ast.CallExpr:
						if s.src(v.Fun) == "stringx.Randn" && len(v.Args) == 1 {
							if cv, ok := c19ConstEval(s, f, v.Args[0]); ok {
								val = "(randn " + cv.ExactString() + ")"
							}
						}
					}
					if val == "" {
						err = fmt.Errorf("field value `%s` outside the subset", s.src(kv.Value))
						return false
					}
					items = append(items, fmt.Sprintf("(%s, %s)", leanString(s.src(kv.Key)), val))
				}
				return false
			})
		}
		if !found && err == nil {
			err = fmt.Errorf("no RedisLock literal")
		}
		if err != nil {
			e.errors = append(e.errors, "NewRedisLock: "+err.Error())
			items = []string{"(\"MISSING\", store)"}
		}
		e.printf("/-- the fields NewRedisLock sets, as functions of its parameters (`randn n` = `stringx.Randn(n)`, the constant evaluated) -/\n%s := [%s]\n\n", head, strings.Join(items, ", "))
	}
}

// C19 round 5c: the table of EVERY non-pure call of redislock.go, per function and per branch (the chain of
// if-conditions it sits under; `true` = the else side).  kind 1 = a method of the store client (`rl.store.<name>`),
// kind 2 = a method of the same receiver (`rl.<m>`, name = `RedisLock.<m>`: a helper that could hide a store call),
// kind 0 = anything else that is not in c19PureCalls.  Every function of the file is listed, so a new helper shows up.
type c19Row struct {
	fn   string
	cond [][2]string // {"true"|"false", condition}
	kind int
	name string
	args []string
}

func c19CallRows(s *source, rel string) []c19Row {
	var rows []c19Row
	f := s.file(rel)
	if f == nil {
		return nil
	}
	norm := func(e ast.Node) string { return strings.Join(strings.Fields(s.src(e)), " ") }
	for _, d := range f.Decls {
		fd, ok := d.(*ast.FuncDecl)
		if !ok || fd.Body == nil {
			continue
		}
		fn := fd.Name.Name
		if fd.Recv != nil && len(fd.Recv.List) == 1 {
			t := fd.Recv.List[0].Type
			if st, ok := t.(*ast.StarExpr); ok {
				t = st.X
			}
			fn = s.src(t) + "." + fn
		}
		var calls func(n ast.Node, path [][2]string)
		var stmts func(list []ast.Stmt, path [][2]string)
		calls = func(n ast.Node, path [][2]string) {
			if n == nil {
				return
			}
			ast.Inspect(n, func(x ast.Node) bool {
				c, ok := x.(*ast.CallExpr)
				if !ok {
					return true
				}
				name := s.src(c.Fun)
				if c19PureCalls[name] {
					return true
				}
				r := c19Row{fn: fn, cond: append([][2]string{}, path...), name: name}
				switch {
				case strings.HasPrefix(name, "rl.store."):
					r.kind, r.name = 1, strings.TrimPrefix(name, "rl.store.")
				case strings.HasPrefix(name, "rl."):
					r.kind, r.name = 2, "RedisLock."+strings.TrimPrefix(name, "rl.")
				}
				for i, a := range c.Args {
					if r.kind == 1 && i >= 3 {
						break
					}
					r.args = append(r.args, norm(a))
				}
				rows = append(rows, r)
				return true
			})
		}
		stmts = func(list []ast.Stmt, path [][2]string) {
			for _, st := range list {
				switch x := st.(type) {
				case *ast.BlockStmt:
					stmts(x.List, path)
				case *ast.IfStmt:
					if x.Init != nil {
						calls(x.Init, path)
					}
					calls(x.Cond, path)
					c := norm(x.Cond)
					stmts(x.Body.List, append(append([][2]string{}, path...), [2]string{"false", c}))
					if x.Else != nil {
						stmts([]ast.Stmt{x.Else}, append(append([][2]string{}, path...), [2]string{"true", c}))
					}
				case *ast.ForStmt, *ast.RangeStmt, *ast.SwitchStmt, *ast.TypeSwitchStmt, *ast.SelectStmt, *ast.DeferStmt, *ast.GoStmt:
					calls(st, append(append([][2]string{}, path...), [2]string{"false", fmt.Sprintf("<%T>", st)}))
				default:
					calls(st, path)
				}
			}
		}
		stmts(fd.Body.List, nil)
	}
	return rows
}

func c19EmitCallTable(s *source, e *emitter, rel string) {
	rows := c19CallRows(s, rel)
	e.printf("/-- every call of %s outside the pure list, per function and branch: (function, conditions (else-side?, condition), kind 0 other / 1 `rl.store.<name>` / 2 `rl.<m>` as `RedisLock.<m>`, name, arguments (first three for kind 1)) -/\ndef callTable : List (String × List (Bool × String) × Nat × String × List String) := [", rel)
	for i, r := range rows {
		if i > 0 {
			e.printf(",")
		}
		var cs, as []string
		for _, c := range r.cond {
			cs = append(cs, fmt.Sprintf("(%s, %s)", c[0], leanString(c[1])))
		}
		for _, a := range r.args {
			as = append(as, leanString(a))
		}
		e.printf("\n  (%s, [%s], %d, %s, [%s])", leanString(r.fn), strings.Join(cs, ", "), r.kind, leanString(r.name), strings.Join(as, ", "))
	}
	e.printf("]\n\n")
}

// C19 round 5c: go-zero's breaker hook in front of every Redis command: the select of
// circuitBreaker.DoWithAcceptableCtx as (case, statements) pairs and the statements of breakerHook.ProcessHook's closure.
func c19EmitBreakerGate(s *source, e *emitter) {
	pairs := [][2]string{}
	if fd := s.findFunc("core/breaker/breaker.go", "circuitBreaker.DoWithAcceptableCtx"); fd == nil || len(fd.Body.List) != 1 {
		e.errors = append(e.errors, "circuitBreaker.DoWithAcceptableCtx: not found or not a single statement")
	} else if sel, ok := fd.Body.List[0].(*ast.SelectStmt); !ok {
		e.errors = append(e.errors, "circuitBreaker.DoWithAcceptableCtx: body is not one select")
	} else {
		for _, cl := range sel.Body.List {
			cc := cl.(*ast.CommClause)
			comm := "default"
			if cc.Comm != nil {
				comm = strings.Join(strings.Fields(s.src(cc.Comm)), " ")
			}
			var body []string
			for _, st := range cc.Body {
				body = append(body, strings.Join(strings.Fields(s.src(st)), " "))
			}
			pairs = append(pairs, [2]string{comm, strings.Join(body, " ; ")})
		}
	}
	e.printf("/-- the select of `circuitBreaker.DoWithAcceptableCtx` (core/breaker/breaker.go): (case, statements) in source order -/\ndef breakerSelect : List (String × String) := [")
	for i, p := range pairs {
		if i > 0 {
			e.printf(", ")
		}
		e.printf("(%s, %s)", leanString(p[0]), leanString(p[1]))
	}
	e.printf("]\n\n")
	body := []string{}
	if fd := s.findFunc("core/stores/redis/breakerhook.go", "breakerHook.ProcessHook"); fd == nil {
		e.errors = append(e.errors, "breakerHook.ProcessHook not found")
	} else {
		ast.Inspect(fd.Body, func(n ast.Node) bool {
			if fl, ok := n.(*ast.FuncLit); ok && len(body) == 0 {
				flatStmts(s, fl.Body.List, &body)
				return false
			}
			return true
		})
	}
	e.stringList("breakerProcessHook", "statements of the closure returned by breakerHook.ProcessHook", body)
}

// C19 round 5e: what can happen BEFORE the script run of AcquireCtx / ReleaseCtx.  Every `if` with a `return` in
// front of the `resp, err := ….ScriptRunCtx(…)` statement becomes a branch of a Lean function over opaque condition
// values (`cs[k]` = the k-th such condition): `some (result, error?)` = the call returns there WITHOUT asking Redis.
// The code that exists has none: the function is constantly `none` (Tie: for all condition values).  Other
// statements before the script run must be plain `:=` definitions.
func c19EmitEarly(s *source, e *emitter, rel, goName, lean string) {
	head := fmt.Sprintf("def %s (cs : List Bool) : Option (Bool × Bool)", lean)
	fd := s.findFunc(rel, goName)
	if fd == nil {
		e.errors = append(e.errors, goName+" not found")
		e.printf("%s := some (false, false)\n\n", head)
		return
	}
	var pre []ast.Stmt
	found := false
	for i, st := range fd.Body.List {
		if as, ok := st.(*ast.AssignStmt); ok && len(as.Rhs) == 1 {
			if c, ok := as.Rhs[0].(*ast.CallExpr); ok && strings.HasSuffix(s.src(c.Fun), ".ScriptRunCtx") {
				pre, found = fd.Body.List[:i], true
				break
			}
		}
	}
	if !found {
		e.errors = append(e.errors, goName+": no script run statement")
		e.printf("%s := some (false, false)\n\n", head)
		return
	}
	term := "none"
	var conds []string
	k := 0
	var parts []string
	for _, st := range pre {
		switch x := st.(type) {
		case *ast.AssignStmt:
			if x.Tok.String() != ":=" {
				e.errors = append(e.errors, goName+": assignment before the script run: "+s.src(st))
			}
		case *ast.IfStmt:
			hasRet := false
			res := "(false, false)"
			ast.Inspect(x, func(n ast.Node) bool {
				if r, ok := n.(*ast.ReturnStmt); ok {
					hasRet = true
					if len(r.Results) == 2 {
						b := s.src(r.Results[0]) == "true"
						er := s.src(r.Results[1]) != "nil"
						res = fmt.Sprintf("(%v, %v)", b, er)
					}
				}
				return true
			})
			if hasRet {
				parts = append(parts, fmt.Sprintf("if cs.getD %d false then some %s else ", k, res))
				conds = append(conds, strings.Join(strings.Fields(s.src(x.Cond)), " "))
				k++
			} else {
				e.errors = append(e.errors, goName+": statement before the script run outside the subset: "+s.src(st))
			}
		default:
			e.errors = append(e.errors, goName+": statement before the script run outside the subset: "+s.src(st))
		}
	}
	term = strings.Join(parts, "") + "none"
	e.printf("/-- returns of `%s` BEFORE its script run, over the values of the conditions %v: `some r` = the call answers r without asking Redis -/\n%s := %s\n\n", goName, conds, head, term)
}

// the fields of the RedisLock struct: (name, type) — all the state an instance has
func c19EmitLockFields(s *source, e *emitter, rel string) {
	var items []string
	if file := s.file(rel); file != nil {
		ast.Inspect(file, func(n ast.Node) bool {
			if ts, ok := n.(*ast.TypeSpec); ok && ts.Name.Name == "RedisLock" {
				if st, ok := ts.Type.(*ast.StructType); ok {
					for _, fl := range st.Fields.List {
						if len(fl.Names) == 0 {
							items = append(items, fmt.Sprintf("(\"\", %s)", leanString(s.src(fl.Type))))
						}
						for _, nm := range fl.Names {
							items = append(items, fmt.Sprintf("(%s, %s)", leanString(nm.Name), leanString(s.src(fl.Type))))
						}
					}
				}
			}
			return true
		})
	}
	e.printf("/-- fields of `RedisLock` (name, type): all the state of an instance -/\ndef lockFields : List (String × String) := [%s]\n\n", strings.Join(items, ", "))
}
