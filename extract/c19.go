package main

// C19 — Redis lock: constants, the lease expression handed to the lock script, which script and which
// KEYS/ARGV each of AcquireCtx / ReleaseCtx runs, the reply handling skeletons, and the two Lua scripts
// as token lists (lexed here, parsed and interpreted on the Lean side, so that the Tie is semantic:
// "the interpretation of the current script equals the model's script function for every store").

import (
	"fmt"
	"go/ast"
	"os"
	"path/filepath"
	"strings"
)

// luaTokens lexes the small Lua subset the scripts use. Strings are emitted as "…" (double quoted,
// whatever quote the source used), everything else verbatim. Comments and whitespace are dropped.
func luaTokens(src string) ([]string, error) {
	var out []string
	i := 0
	isIdStart := func(c byte) bool { return c == '_' || (c >= 'a' && c <= 'z') || (c >= 'A' && c <= 'Z') }
	isDigit := func(c byte) bool { return c >= '0' && c <= '9' }
	for i < len(src) {
		c := src[i]
		switch {
		case c == ' ' || c == '\t' || c == '\n' || c == '\r':
			i++
		case c == '-' && i+1 < len(src) && src[i+1] == '-':
			if strings.HasPrefix(src[i:], "--[[") {
				return out, fmt.Errorf("lua: block comment not supported")
			}
			for i < len(src) && src[i] != '\n' {
				i++
			}
		case isIdStart(c):
			j := i
			for j < len(src) && (isIdStart(src[j]) || isDigit(src[j])) {
				j++
			}
			out = append(out, src[i:j])
			i = j
		case isDigit(c):
			j := i
			for j < len(src) && isDigit(src[j]) {
				j++
			}
			if j < len(src) && (src[j] == '.' || isIdStart(src[j])) {
				return out, fmt.Errorf("lua: unsupported number at offset %d", i)
			}
			out = append(out, src[i:j])
			i = j
		case c == '"' || c == '\'':
			j := i + 1
			for j < len(src) && src[j] != c {
				if src[j] == '\\' || src[j] == '\n' {
					return out, fmt.Errorf("lua: unsupported string at offset %d", i)
				}
				j++
			}
			if j >= len(src) {
				return out, fmt.Errorf("lua: unterminated string")
			}
			out = append(out, "\""+src[i+1:j]+"\"")
			i = j + 1
		case strings.HasPrefix(src[i:], "==") || strings.HasPrefix(src[i:], "~=") || strings.HasPrefix(src[i:], "<=") || strings.HasPrefix(src[i:], ">=") || strings.HasPrefix(src[i:], ".."):
			out = append(out, src[i:i+2])
			i += 2
		case strings.IndexByte("()[],.;=<>+-*/#{}:%", c) >= 0:
			out = append(out, string(c))
			i++
		default:
			return out, fmt.Errorf("lua: unexpected character %q at offset %d", c, i)
		}
	}
	return out, nil
}

// embedOf returns the file named by the `//go:embed` directive of package-level var `name`.
func embedOf(s *source, rel, name string) (string, bool) {
	f := s.file(rel)
	if f == nil {
		return "", false
	}
	// the file is parsed without comments; read the directive from the source text
	raw, err := os.ReadFile(filepath.Join(*repo, rel))
	if err != nil {
		return "", false
	}
	lines := strings.Split(string(raw), "\n")
	for i, l := range lines {
		t := strings.TrimSpace(l)
		if strings.HasPrefix(t, "//go:embed ") && i+1 < len(lines) {
			next := strings.Fields(strings.TrimSpace(lines[i+1]))
			if len(next) >= 1 && next[0] == name {
				return strings.TrimSpace(strings.TrimPrefix(t, "//go:embed ")), true
			}
		}
	}
	return "", false
}

// scriptVarSource: `lockScript = NewScript(lockLuaScript)` -> "lockLuaScript"
func scriptVarSource(s *source, rel, name string) (string, bool) {
	f := s.file(rel)
	if f == nil {
		return "", false
	}
	for _, d := range f.Decls {
		gd, ok := d.(*ast.GenDecl)
		if !ok {
			continue
		}
		for _, sp := range gd.Specs {
			vs, ok := sp.(*ast.ValueSpec)
			if !ok {
				continue
			}
			for i, n := range vs.Names {
				if n.Name == name && i < len(vs.Values) {
					if call, ok := vs.Values[i].(*ast.CallExpr); ok && len(call.Args) == 1 {
						if fn, ok := call.Fun.(*ast.Ident); ok && fn.Name == "NewScript" {
							if a, ok := call.Args[0].(*ast.Ident); ok {
								return a.Name, true
							}
						}
					}
				}
			}
		}
	}
	return "", false
}

// findScriptRun finds the `….ScriptRunCtx(ctx, <script>, []string{…}, []string{…})` call of a function.
func findScriptRun(fd *ast.FuncDecl) *ast.CallExpr {
	var found *ast.CallExpr
	ast.Inspect(fd.Body, func(n ast.Node) bool {
		if c, ok := n.(*ast.CallExpr); ok && found == nil {
			if sel, ok := c.Fun.(*ast.SelectorExpr); ok && (sel.Sel.Name == "ScriptRunCtx" || sel.Sel.Name == "ScriptRun") {
				found = c
				return false
			}
		}
		return true
	})
	return found
}

// decisionShape lists, in source order, what decides a function's results: if-conditions, type
// assertions and every return with its result expressions (logging and other calls are dropped).
func decisionShape(s *source, list []ast.Stmt, out *[]string) {
	for _, st := range list {
		switch x := st.(type) {
		case *ast.IfStmt:
			if x.Init != nil {
				decisionShape(s, []ast.Stmt{x.Init}, out)
			}
			*out = append(*out, "if "+s.src(x.Cond)+" {")
			decisionShape(s, x.Body.List, out)
			*out = append(*out, "}")
			if x.Else != nil {
				*out = append(*out, "else {")
				decisionShape(s, []ast.Stmt{x.Else}, out)
				*out = append(*out, "}")
			}
		case *ast.BlockStmt:
			decisionShape(s, x.List, out)
		case *ast.ReturnStmt:
			*out = append(*out, s.src(x))
		case *ast.AssignStmt:
			for _, r := range x.Rhs {
				if _, ok := r.(*ast.TypeAssertExpr); ok {
					*out = append(*out, s.src(x))
				}
			}
		}
	}
}

// c19PureCalls: calls that cannot touch Redis or the lock's shared word (conversions, formatting, logging,
// error inspection). Everything else a function calls is listed by effectCalls and tied.
var c19PureCalls = map[string]bool{
	"int": true, "uint32": true, "string": true, "len": true, "make": true,
	"strconv.Itoa": true, "errors.Is": true, "err.Error": true,
	"logx.Errorf": true, "logx.Error": true, "fmt.Sprintf": true, "fmt.Errorf": true,
	"context.Background": true,
}

// effectCalls lists, in source order (outer call before its arguments), the callee of every call
// expression in the function that is not in c19PureCalls: the store round trips, the atomic accesses of the
// shared `seconds` word and any helper that could hide one.
func effectCalls(s *source, fd *ast.FuncDecl) []string {
	var out []string
	ast.Inspect(fd.Body, func(n ast.Node) bool {
		if c, ok := n.(*ast.CallExpr); ok {
			name := s.src(c.Fun)
			if !c19PureCalls[name] {
				out = append(out, name)
			}
		}
		return true
	})
	if out == nil {
		out = []string{}
	}
	return out
}

// constSrc returns the source text of a package-level constant's value expression.
func constSrc(s *source, rel, name string) string {
	f := s.file(rel)
	if f == nil {
		return "MISSING"
	}
	for _, d := range f.Decls {
		gd, ok := d.(*ast.GenDecl)
		if !ok {
			continue
		}
		for _, sp := range gd.Specs {
			vs, ok := sp.(*ast.ValueSpec)
			if !ok {
				continue
			}
			for i, n := range vs.Names {
				if n.Name == name && i < len(vs.Values) {
					return s.src(vs.Values[i])
				}
			}
		}
	}
	return "MISSING"
}

// flatStmts prints every statement of a block, flattened, with block structure as `{` / `}` tokens.
func flatStmts(s *source, list []ast.Stmt, out *[]string) {
	for _, st := range list {
		switch x := st.(type) {
		case *ast.ForStmt:
			h := "for "
			if x.Init != nil {
				h += s.src(x.Init)
			}
			h += "; "
			if x.Cond != nil {
				h += s.src(x.Cond)
			}
			h += "; "
			if x.Post != nil {
				h += s.src(x.Post)
			}
			*out = append(*out, h+" {")
			flatStmts(s, x.Body.List, out)
			*out = append(*out, "}")
		case *ast.IfStmt:
			h := "if "
			if x.Init != nil {
				h += s.src(x.Init) + "; "
			}
			*out = append(*out, h+s.src(x.Cond)+" {")
			flatStmts(s, x.Body.List, out)
			*out = append(*out, "}")
			if x.Else != nil {
				*out = append(*out, "else {")
				flatStmts(s, []ast.Stmt{x.Else}, out)
				*out = append(*out, "}")
			}
		case *ast.BlockStmt:
			flatStmts(s, x.List, out)
		default:
			*out = append(*out, s.src(st))
		}
	}
}

func init() {
	register("C19", func(s *source, e *emitter) {
		const f = "core/stores/redis/redislock.go"
		e.constDef(s, f, "tolerance", "tolerance")
		e.constDef(s, f, "millisPerSecond", "millisPerSecond")
		e.constDef(s, f, "randomLen", "randomLen")

		consts := map[string]string{}
		for _, c := range []string{"tolerance", "millisPerSecond"} {
			if v, ok := s.constValue(f, c); ok {
				consts[c] = v.ExactString()
			}
		}

		// which script, which KEYS / ARGV
		for _, fn := range []struct{ goName, lean string }{{"RedisLock.AcquireCtx", "acquire"}, {"RedisLock.ReleaseCtx", "release"}} {
			fd := s.findFunc(f, fn.goName)
			if fd == nil {
				e.errors = append(e.errors, fmt.Sprintf("function %s not found in %s", fn.goName, f))
				continue
			}
			call := findScriptRun(fd)
			if call == nil || len(call.Args) < 3 {
				e.errors = append(e.errors, fmt.Sprintf("%s: no ScriptRunCtx call", fn.goName))
				e.stringList(fn.lean+"Call", "MISSING", []string{"MISSING"})
				continue
			}
			args := call.Args
			if sel := call.Fun.(*ast.SelectorExpr); sel.Sel.Name == "ScriptRunCtx" {
				args = args[1:]
			}
			var items []string
			scriptVar := s.src(args[0])
			luaVar, _ := scriptVarSource(s, f, scriptVar)
			file, _ := embedOf(s, f, luaVar)
			items = append(items, "script "+scriptVar, "source "+luaVar, "embed "+file)
			var leaseExpr ast.Expr
			for ai, a := range args[1:] {
				kind := []string{"KEYS", "ARGV"}[min(ai, 1)]
				cl, ok := a.(*ast.CompositeLit)
				if !ok {
					items = append(items, kind+" ?"+s.src(a))
					continue
				}
				for j, el := range cl.Elts {
					txt := s.src(el)
					if c, ok := el.(*ast.CallExpr); ok && s.src(c.Fun) == "strconv.Itoa" && len(c.Args) == 1 {
						txt = "itoa(lease)"
						leaseExpr = c.Args[0]
					}
					items = append(items, fmt.Sprintf("%s[%d] %s", kind, j+1, txt))
				}
			}
			e.stringList(fn.lean+"Call", "script run of `"+fn.goName+"`: script variable, its embedded file, KEYS and ARGV", items)
			if fn.lean == "acquire" {
				// the lease expression, translated to Lean Int
				if leaseExpr == nil {
					e.errors = append(e.errors, "AcquireCtx: no strconv.Itoa(lease) argument")
					e.printf("def leaseArg : Unit := ()\n\n")
				} else {
					t := &translator{registry: map[string]*transFunc{}, consts: consts}
					c := &tctx{t: t, locals: map[string]bool{"seconds": true}, freeSet: map[string]bool{}, boolVars: map[string]bool{}}
					txt, ok := c.tryExpr(leaseExpr)
					if !ok || len(c.free) > 0 {
						e.errors = append(e.errors, "AcquireCtx: lease expression outside the translated subset: "+s.src(leaseExpr))
						e.printf("def leaseArg : Unit := ()\n\n")
					} else {
						e.printf("/-- translated from the `strconv.Itoa(…)` argument of the lock script run: `%s` -/\ndef leaseArg (seconds : Int) : Int := %s\n\n", s.src(leaseExpr), txt)
					}
				}
			}
			e.shapeDef(s, f, fn.goName, fn.lean+"Shape")
			var dec []string
			decisionShape(s, fd.Body.List, &dec)
			e.stringList(fn.lean+"Decisions", "conditions, type assertions and returns of `"+fn.goName+"`", dec)
		}
		e.shapeDef(s, f, "RedisLock.SetExpire", "setExpireShape")

		// every call that could be a store round trip or an access of the shared word, per function on the path
		for _, fn := range []struct{ file, goName, lean, doc string }{
			{f, "RedisLock.AcquireCtx", "acquireStoreCalls", "AcquireCtx"},
			{f, "RedisLock.ReleaseCtx", "releaseStoreCalls", "ReleaseCtx"},
			{f, "RedisLock.Acquire", "acquireWrapperCalls", "Acquire"},
			{f, "RedisLock.Release", "releaseWrapperCalls", "Release"},
			{f, "RedisLock.SetExpire", "setExpireCalls", "SetExpire"},
			{f, "NewRedisLock", "newLockCalls", "NewRedisLock"},
			{"core/stores/redis/redis.go", "Redis.ScriptRunCtx", "scriptRunCtxCalls", "Redis.ScriptRunCtx"},
		} {
			fd := s.findFunc(fn.file, fn.goName)
			if fd == nil {
				e.errors = append(e.errors, fmt.Sprintf("function %s not found in %s", fn.goName, fn.file))
				e.stringList(fn.lean, "MISSING", []string{"MISSING"})
				continue
			}
			e.stringList(fn.lean, "callees of `"+fn.doc+"` in source order, without conversions / formatting / logging / error inspection", effectCalls(s, fd))
		}

		// the ids: stringx.Randn — alphabet, index width, rejection of out-of-alphabet indices
		const rf = "core/stringx/random.go"
		e.constDef(s, rf, "letterBytes", "letterBytes")
		e.constDef(s, rf, "letterIdxBits", "letterIdxBits")
		// (the shared constant evaluator has no shifts: the two derived constants are tied as source text)
		e.stringList("letterIdxDerived", "`letterIdxMask` and `letterIdxMax` as written", []string{
			"letterIdxMask = " + constSrc(s, rf, "letterIdxMask"), "letterIdxMax = " + constSrc(s, rf, "letterIdxMax")})
		if fd := s.findFunc(rf, "Randn"); fd == nil {
			e.errors = append(e.errors, "function Randn not found in "+rf)
			e.stringList("randnBody", "MISSING", []string{"MISSING"})
		} else {
			var body []string
			flatStmts(s, fd.Body.List, &body)
			e.stringList("randnBody", "statements of `stringx.Randn`", body)
		}
		// the fields NewRedisLock sets (id must be a fresh random string per instance, key the caller's key)
		if fd := s.findFunc(f, "NewRedisLock"); fd == nil {
			e.errors = append(e.errors, "function NewRedisLock not found in "+f)
			e.stringList("newFields", "MISSING", []string{"MISSING"})
		} else {
			var fields []string
			ast.Inspect(fd.Body, func(n ast.Node) bool {
				if cl, ok := n.(*ast.CompositeLit); ok && s.src(cl.Type) == "RedisLock" {
					for _, el := range cl.Elts {
						fields = append(fields, s.src(el))
					}
					return false
				}
				return true
			})
			e.stringList("newFields", "fields of the RedisLock literal built by NewRedisLock", fields)
		}

		for _, l := range []struct{ file, lean string }{{"core/stores/redis/lockscript.lua", "lockLua"}, {"core/stores/redis/delscript.lua", "delLua"}} {
			raw, err := os.ReadFile(filepath.Join(*repo, l.file))
			if err != nil {
				e.errors = append(e.errors, "cannot read "+l.file)
				e.printf("/-- MISSING %s -/\ndef %s : List (Nat × String × Nat) := [(9, \"MISSING\", 0)]\n\n", l.file, l.lean)
				continue
			}
			toks, err := luaTokens(string(raw))
			if err != nil {
				e.errors = append(e.errors, l.file+": "+err.Error())
			}
			e.printf("/-- tokens of %s as (kind, text, value): 0 word/punctuation, 1 string literal, 2 number -/\ndef %s : List (Nat × String × Nat) := [", l.file, l.lean)
			for i, t := range toks {
				if i > 0 {
					e.printf(",")
				}
				switch {
				case strings.HasPrefix(t, "\""):
					e.printf("\n  (1, %s, 0)", leanString(t[1:len(t)-1]))
				case t[0] >= '0' && t[0] <= '9':
					e.printf("\n  (2, \"\", %s)", t)
				default:
					e.printf("\n  (0, %s, 0)", leanString(t))
				}
			}
			e.printf("]\n\n")
		}
	})
}
