package main

// C19 — Redis lock: constants, the lease expression handed to the lock script, which script and which
// KEYS/ARGV each of AcquireCtx / ReleaseCtx runs, the reply handling skeletons, and the two Lua scripts
// as token lists (lexed here, parsed and interpreted on the Lean side, so that the Tie is semantic:
// "the interpretation of the current script equals the model's script function for every store").

import (
	"fmt"
	"go/ast"
	"os"
	"path/filepath"
	"strings"
)

// luaTokens lexes the small Lua subset the scripts use. Strings are emitted as "…" (double quoted,
// whatever quote the source used), everything else verbatim. Comments and whitespace are dropped.
func luaTokens(src string) ([]string, error) {
	var out []string
	i := 0
	isIdStart := func(c byte) bool { return c == '_' || (c >= 'a' && c <= 'z') || (c >= 'A' && c <= 'Z') }
	isDigit := func(c byte) bool { return c >= '0' && c <= '9' }
	for i < len(src) {
		c := src[i]
		switch {
		case c == ' ' || c == '\t' || c == '\n' || c == '\r':
			i++
		case c == '-' && i+1 < len(src) && src[i+1] == '-':
			if strings.HasPrefix(src[i:], "--[[") {
				return out, fmt.Errorf("lua: block comment not supported")
			}
			for i < len(src) && src[i] != '\n' {
				i++
			}
		case isIdStart(c):
			j := i
			for j < len(src) && (isIdStart(src[j]) || isDigit(src[j])) {
				j++
			}
			out = append(out, src[i:j])
			i = j
		case isDigit(c):
			j := i
			for j < len(src) && isDigit(src[j]) {
				j++
			}
			if j < len(src) && (src[j] == '.' || isIdStart(src[j])) {
				return out, fmt.Errorf("lua: unsupported number at offset %d", i)
			}
			out = append(out, src[i:j])
			i = j
		case c == '"' || c == '\'':
			j := i + 1
			for j < len(src) && src[j] != c {
				if src[j] == '\\' || src[j] == '\n' {
					return out, fmt.Errorf("lua: unsupported string at offset %d", i)
				}
				j++
			}
			if j >= len(src) {
				return out, fmt.Errorf("lua: unterminated string")
			}
			out = append(out, "\""+src[i+1:j]+"\"")
			i = j + 1
		case strings.HasPrefix(src[i:], "==") || strings.HasPrefix(src[i:], "~=") || strings.HasPrefix(src[i:], "<=") || strings.HasPrefix(src[i:], ">=") || strings.HasPrefix(src[i:], ".."):
			out = append(out, src[i:i+2])
			i += 2
		case strings.IndexByte("()[],.;=<>+-*/#{}:%", c) >= 0:
			out = append(out, string(c))
			i++
		default:
			return out, fmt.Errorf("lua: unexpected character %q at offset %d", c, i)
		}
	}
	return out, nil
}

// embedOf returns the file named by the `//go:embed` directive of package-level var `name`.
func embedOf(s *source, rel, name string) (string, bool) {
	f := s.file(rel)
	if f == nil {
		return "", false
	}
	// the file is parsed without comments; read the directive from the source text
	raw, err := os.ReadFile(filepath.Join(*repo, rel))
	if err != nil {
		return "", false
	}
	lines := strings.Split(string(raw), "\n")
	for i, l := range lines {
		t := strings.TrimSpace(l)
		if strings.HasPrefix(t, "//go:embed ") && i+1 < len(lines) {
			next := strings.Fields(strings.TrimSpace(lines[i+1]))
			if len(next) >= 1 && next[0] == name {
				return strings.TrimSpace(strings.TrimPrefix(t, "//go:embed ")), true
			}
		}
	}
	return "", false
}

// scriptVarSource: `lockScript = NewScript(lockLuaScript)` -> "lockLuaScript"
func scriptVarSource(s *source, rel, name string) (string, bool) {
	f := s.file(rel)
	if f == nil {
		return "", false
	}
	for _, d := range f.Decls {
		gd, ok := d.(*ast.GenDecl)
		if !ok {
			continue
		}
		for _, sp := range gd.Specs {
			vs, ok := sp.(*ast.ValueSpec)
			if !ok {
				continue
			}
			for i, n := range vs.Names {
				if n.Name == name && i < len(vs.Values) {
					if call, ok := vs.Values[i].(*ast.CallExpr); ok && len(call.Args) == 1 {
						if fn, ok := call.Fun.(*ast.Ident); ok && fn.Name == "NewScript" {
							if a, ok := call.Args[0].(*ast.Ident); ok {
								return a.Name, true
							}
						}
					}
				}
			}
		}
	}
	return "", false
}

// findScriptRun finds the `….ScriptRunCtx(ctx, <script>, []string{…}, []string{…})` call of a function.
func findScriptRun(fd *ast.FuncDecl) *ast.CallExpr {
	var found *ast.CallExpr
	ast.Inspect(fd.Body, func(n ast.Node) bool {
		if c, ok := n.(*ast.CallExpr); ok && found == nil {
			if sel, ok := c.Fun.(*ast.SelectorExpr); ok && (sel.Sel.Name == "ScriptRunCtx" || sel.Sel.Name == "ScriptRun") {
				found = c
				return false
			}
		}
		return true
	})
	return found
}

// decisionShape lists, in source order, what decides a function's results: if-conditions, type
// assertions and every return with its result expressions (logging and other calls are dropped).
func decisionShape(s *source, list []ast.Stmt, out *[]string) {
	for _, st := range list {
		switch x := st.(type) {
		case *ast.IfStmt:
			if x.Init != nil {
				decisionShape(s, []ast.Stmt{x.Init}, out)
			}
			*out = append(*out, "if "+s.src(x.Cond)+" {")
			decisionShape(s, x.Body.List, out)
			*out = append(*out, "}")
			if x.Else != nil {
				*out = append(*out, "else {")
				decisionShape(s, []ast.Stmt{x.Else}, out)
				*out = append(*out, "}")
			}
		case *ast.BlockStmt:
			decisionShape(s, x.List, out)
		case *ast.ReturnStmt:
			*out = append(*out, s.src(x))
		case *ast.AssignStmt:
			for _, r := range x.Rhs {
				if _, ok := r.(*ast.TypeAssertExpr); ok {
					*out = append(*out, s.src(x))
				}
			}
		}
	}
}

func init() {
	register("C19", func(s *source, e *emitter) {
		const f = "core/stores/redis/redislock.go"
		e.constDef(s, f, "tolerance", "tolerance")
		e.constDef(s, f, "millisPerSecond", "millisPerSecond")
		e.constDef(s, f, "randomLen", "randomLen")

		consts := map[string]string{}
		for _, c := range []string{"tolerance", "millisPerSecond"} {
			if v, ok := s.constValue(f, c); ok {
				consts[c] = v.ExactString()
			}
		}

		// which script, which KEYS / ARGV
		for _, fn := range []struct{ goName, lean string }{{"RedisLock.AcquireCtx", "acquire"}, {"RedisLock.ReleaseCtx", "release"}} {
			fd := s.findFunc(f, fn.goName)
			if fd == nil {
				e.errors = append(e.errors, fmt.Sprintf("function %s not found in %s", fn.goName, f))
				continue
			}
			call := findScriptRun(fd)
			if call == nil || len(call.Args) < 3 {
				e.errors = append(e.errors, fmt.Sprintf("%s: no ScriptRunCtx call", fn.goName))
				e.stringList(fn.lean+"Call", "MISSING", []string{"MISSING"})
				continue
			}
			args := call.Args
			if sel := call.Fun.(*ast.SelectorExpr); sel.Sel.Name == "ScriptRunCtx" {
				args = args[1:]
			}
			var items []string
			scriptVar := s.src(args[0])
			luaVar, _ := scriptVarSource(s, f, scriptVar)
			file, _ := embedOf(s, f, luaVar)
			items = append(items, "script "+scriptVar, "source "+luaVar, "embed "+file)
			var leaseExpr ast.Expr
			for ai, a := range args[1:] {
				kind := []string{"KEYS", "ARGV"}[min(ai, 1)]
				cl, ok := a.(*ast.CompositeLit)
				if !ok {
					items = append(items, kind+" ?"+s.src(a))
					continue
				}
				for j, el := range cl.Elts {
					txt := s.src(el)
					if c, ok := el.(*ast.CallExpr); ok && s.src(c.Fun) == "strconv.Itoa" && len(c.Args) == 1 {
						txt = "itoa(lease)"
						leaseExpr = c.Args[0]
					}
					items = append(items, fmt.Sprintf("%s[%d] %s", kind, j+1, txt))
				}
			}
			e.stringList(fn.lean+"Call", "script run of `"+fn.goName+"`: script variable, its embedded file, KEYS and ARGV", items)
			if fn.lean == "acquire" {
				// the lease expression, translated to Lean Int
				if leaseExpr == nil {
					e.errors = append(e.errors, "AcquireCtx: no strconv.Itoa(lease) argument")
					e.printf("def leaseArg : Unit := ()\n\n")
				} else {
					t := &translator{registry: map[string]*transFunc{}, consts: consts}
					c := &tctx{t: t, locals: map[string]bool{"seconds": true}, freeSet: map[string]bool{}, boolVars: map[string]bool{}}
					txt, ok := c.tryExpr(leaseExpr)
					if !ok || len(c.free) > 0 {
						e.errors = append(e.errors, "AcquireCtx: lease expression outside the translated subset: "+s.src(leaseExpr))
						e.printf("def leaseArg : Unit := ()\n\n")
					} else {
						e.printf("/-- translated from the `strconv.Itoa(…)` argument of the lock script run: `%s` -/\ndef leaseArg (seconds : Int) : Int := %s\n\n", s.src(leaseExpr), txt)
					}
				}
			}
			e.shapeDef(s, f, fn.goName, fn.lean+"Shape")
			var dec []string
			decisionShape(s, fd.Body.List, &dec)
			e.stringList(fn.lean+"Decisions", "conditions, type assertions and returns of `"+fn.goName+"`", dec)
		}
		e.shapeDef(s, f, "RedisLock.SetExpire", "setExpireShape")
		// the fields NewRedisLock sets (id must be a fresh random string per instance, key the caller's key)
		if fd := s.findFunc(f, "NewRedisLock"); fd == nil {
			e.errors = append(e.errors, "function NewRedisLock not found in "+f)
			e.stringList("newFields", "MISSING", []string{"MISSING"})
		} else {
			var fields []string
			ast.Inspect(fd.Body, func(n ast.Node) bool {
				if cl, ok := n.(*ast.CompositeLit); ok && s.src(cl.Type) == "RedisLock" {
					for _, el := range cl.Elts {
						fields = append(fields, s.src(el))
					}
					return false
				}
				return true
			})
			e.stringList("newFields", "fields of the RedisLock literal built by NewRedisLock", fields)
		}

		for _, l := range []struct{ file, lean string }{{"core/stores/redis/lockscript.lua", "lockLua"}, {"core/stores/redis/delscript.lua", "delLua"}} {
			raw, err := os.ReadFile(filepath.Join(*repo, l.file))
			if err != nil {
				e.errors = append(e.errors, "cannot read "+l.file)
				e.printf("/-- MISSING %s -/\ndef %s : List (Nat × String × Nat) := [(9, \"MISSING\", 0)]\n\n", l.file, l.lean)
				continue
			}
			toks, err := luaTokens(string(raw))
			if err != nil {
				e.errors = append(e.errors, l.file+": "+err.Error())
			}
			e.printf("/-- tokens of %s as (kind, text, value): 0 word/punctuation, 1 string literal, 2 number -/\ndef %s : List (Nat × String × Nat) := [", l.file, l.lean)
			for i, t := range toks {
				if i > 0 {
					e.printf(",")
				}
				switch {
				case strings.HasPrefix(t, "\""):
					e.printf("\n  (1, %s, 0)", leanString(t[1:len(t)-1]))
				case t[0] >= '0' && t[0] <= '9':
					e.printf("\n  (2, \"\", %s)", t)
				default:
					e.printf("\n  (0, %s, 0)", leanString(t))
				}
			}
			e.printf("]\n\n")
		}
	})
}
