// Command extract regenerates /verif/lean/GoZero/Extracted/*.lean from the working tree of
// zeromicro/go-zero (default /repo). It is run by every check before the Lean obligations are
// re-elaborated, so the Tie theorems are always about what the code says now.
package main

import (
	"bytes"
	"flag"
	"fmt"
	"go/ast"
	"go/constant"
	"go/parser"
	"go/printer"
	"go/token"
	"os"
	"path/filepath"
	"strings"
)

var (
	repo   = flag.String("repo", "/repo", "go-zero working tree")
	outDir = flag.String("out", "/verif/lean/GoZero/Extracted", "output directory")
	only   = flag.String("only", "", "comma separated property ids (default: all)")
)

type source struct {
	fset  *token.FileSet
	files map[string]*ast.File
}

func newSource() *source { return &source{fset: token.NewFileSet(), files: map[string]*ast.File{}} }

func (s *source) file(rel string) *ast.File {
	if f, ok := s.files[rel]; ok {
		return f
	}
	f, err := parser.ParseFile(s.fset, filepath.Join(*repo, rel), nil, parser.SkipObjectResolution)
	if err != nil {
		s.files[rel] = nil
		return nil
	}
	s.files[rel] = f
	return f
}

func recvTypeName(fd *ast.FuncDecl) string {
	if fd.Recv == nil || len(fd.Recv.List) == 0 {
		return ""
	}
	t := fd.Recv.List[0].Type
	for {
		switch x := t.(type) {
		case *ast.StarExpr:
			t = x.X
		case *ast.IndexExpr:
			t = x.X
		case *ast.IndexListExpr:
			t = x.X
		case *ast.Ident:
			return x.Name
		default:
			return ""
		}
	}
}

// findFunc finds `name` or `Recv.name`.
func (s *source) findFunc(rel, name string) *ast.FuncDecl {
	f := s.file(rel)
	if f == nil {
		return nil
	}
	recv := ""
	if i := strings.IndexByte(name, '.'); i >= 0 {
		recv, name = name[:i], name[i+1:]
	}
	for _, d := range f.Decls {
		if fd, ok := d.(*ast.FuncDecl); ok && fd.Name.Name == name && recvTypeName(fd) == recv && fd.Body != nil {
			return fd
		}
	}
	return nil
}

func (s *source) src(n ast.Node) string {
	var b bytes.Buffer
	printer.Fprint(&b, s.fset, n)
	return strings.Join(strings.Fields(b.String()), " ")
}

var timeUnits = map[string]int64{"Nanosecond": 1, "Microsecond": 1e3, "Millisecond": 1e6, "Second": 1e9, "Minute": 60e9, "Hour": 3600e9}

// constValue evaluates the package-level const/var `name` of file rel (literal arithmetic,
// time units and other constants of the same file).
func (s *source) constValue(rel, name string) (constant.Value, bool) {
	f := s.file(rel)
	if f == nil {
		return nil, false
	}
	for _, d := range f.Decls {
		gd, ok := d.(*ast.GenDecl)
		if !ok || (gd.Tok != token.CONST && gd.Tok != token.VAR) {
			continue
		}
		for _, sp := range gd.Specs {
			vs := sp.(*ast.ValueSpec)
			for i, n := range vs.Names {
				if n.Name == name && i < len(vs.Values) {
					return s.eval(rel, vs.Values[i])
				}
			}
		}
	}
	return nil, false
}

func (s *source) eval(rel string, e ast.Expr) (constant.Value, bool) {
	switch x := e.(type) {
	case *ast.BasicLit:
		v := constant.MakeFromLiteral(x.Value, x.Kind, 0)
		return v, v.Kind() != constant.Unknown
	case *ast.ParenExpr:
		return s.eval(rel, x.X)
	case *ast.Ident:
		return s.constValue(rel, x.Name)
	case *ast.SelectorExpr:
		if id, ok := x.X.(*ast.Ident); ok && id.Name == "time" {
			if u, ok := timeUnits[x.Sel.Name]; ok {
				return constant.MakeInt64(u), true
			}
		}
	case *ast.UnaryExpr:
		v, ok := s.eval(rel, x.X)
		if ok && x.Op == token.SUB {
			return constant.UnaryOp(token.SUB, v, 0), true
		}
	case *ast.BinaryExpr:
		a, ok1 := s.eval(rel, x.X)
		b, ok2 := s.eval(rel, x.Y)
		if ok1 && ok2 {
			op := x.Op
			if op == token.QUO && a.Kind() == constant.Int && b.Kind() == constant.Int {
				op = token.QUO_ASSIGN // integer division
			}
			return constant.BinaryOp(a, op, b), true
		}
	case *ast.CallExpr:
		if len(x.Args) == 1 {
			return s.eval(rel, x.Args[0])
		}
	}
	return nil, false
}

type emitter struct {
	b      strings.Builder
	errors []string
}

func (e *emitter) printf(format string, a ...any) { fmt.Fprintf(&e.b, format, a...) }

// constDef emits `def <lean> : Int` or `: Rat` for a Go constant; a missing constant becomes a marker value.
func (e *emitter) constDef(s *source, rel, name, lean string) {
	v, ok := s.constValue(rel, name)
	if !ok {
		e.errors = append(e.errors, fmt.Sprintf("constant %s not found in %s", name, rel))
		e.printf("/-- MISSING: %s in %s -/\ndef %s : Int := -999999999\n\n", name, rel, lean)
		return
	}
	e.printf("/-- `%s` in %s -/\n", name, rel)
	if v.Kind() == constant.Int {
		e.printf("def %s : Int := %s\n\n", lean, v.ExactString())
		return
	}
	if v.Kind() == constant.String {
		e.printf("def %s : String := %s\n\n", lean, leanString(constant.StringVal(v)))
		return
	}
	num, den := constant.Num(v), constant.Denom(v)
	e.printf("def %s : Rat := (%s : Rat) / %s\n\n", lean, num.ExactString(), den.ExactString())
}

func leanString(s string) string {
	var b strings.Builder
	b.WriteByte('"')
	for _, r := range s {
		switch r {
		case '"':
			b.WriteString("\\\"")
		case '\\':
			b.WriteString("\\\\")
		case '\n':
			b.WriteString("\\n")
		case '\t':
			b.WriteString("\\t")
		case '\r':
			b.WriteString("\\r")
		default:
			b.WriteRune(r)
		}
	}
	b.WriteByte('"')
	return b.String()
}

func (e *emitter) stringList(lean, doc string, items []string) {
	e.printf("/-- %s -/\ndef %s : List String := [", doc, lean)
	for i, it := range items {
		if i > 0 {
			e.printf(",")
		}
		e.printf("\n  %s", leanString(it))
	}
	e.printf("]\n\n")
}

func (e *emitter) translated(t *translator, s *source, rel, goName, leanName string, effects bool, fromPrefix string) {
	fd := s.findFunc(rel, goName)
	if fd == nil {
		e.errors = append(e.errors, fmt.Sprintf("function %s not found in %s", goName, rel))
		e.printf("/-- MISSING: %s in %s -/\ndef %s : Unit := ()\n\n", goName, rel, leanName)
		return
	}
	from := 0
	if fromPrefix != "" {
		from = -1
		for i, st := range fd.Body.List {
			if strings.HasPrefix(s.src(st), fromPrefix) {
				from = i
				break
			}
		}
		if from < 0 {
			e.errors = append(e.errors, fmt.Sprintf("%s: start statement %q not found", goName, fromPrefix))
			e.printf("/-- MISSING start statement %q in %s -/\ndef %s : Unit := ()\n\n", fromPrefix, goName, leanName)
			return
		}
	}
	short := goName
	if i := strings.IndexByte(goName, '.'); i >= 0 {
		short = goName[i+1:]
	}
	def, err := t.translateFunc(fd, short, leanName, effects, from, nil)
	if err != nil {
		e.errors = append(e.errors, err.Error())
	}
	e.printf("/-- translated from `%s` in %s -/\n%s\n", goName, rel, def)
}

func (e *emitter) shapeDef(s *source, rel, goName, leanName string) {
	fd := s.findFunc(rel, goName)
	if fd == nil {
		e.errors = append(e.errors, fmt.Sprintf("function %s not found in %s", goName, rel))
		e.stringList(leanName, "MISSING: "+goName+" in "+rel, []string{"MISSING"})
		return
	}
	e.stringList(leanName, "synchronisation skeleton of `"+goName+"` in "+rel, s.shape(fd))
}

func wanted(id string) bool {
	if *only == "" {
		return true
	}
	for _, x := range strings.Split(*only, ",") {
		if x == id {
			return true
		}
	}
	return false
}

type propEmitter struct {
	id string
	fn func(s *source, e *emitter)
}

var props []propEmitter

func register(id string, fn func(s *source, e *emitter)) { props = append(props, propEmitter{id, fn}) }

func main() {
	flag.Parse()
	if err := os.MkdirAll(*outDir, 0o755); err != nil {
		panic(err)
	}
	for _, p := range props {
		if !wanted(p.id) {
			continue
		}
		s := newSource()
		globalSrc = s
		e := &emitter{}
		e.printf("-- GENERATED by /verif/extract from the go-zero working tree. Do not edit.\n")
		e.printf("set_option linter.unusedVariables false\nnamespace GoZero.Extracted.%s\n\n", p.id)
		p.fn(s, e)
		e.stringList("extractionErrors", "problems met while extracting (must be empty)", e.errors)
		e.printf("end GoZero.Extracted.%s\n", p.id)
		path := filepath.Join(*outDir, p.id+".lean")
		os.Remove(path)
		if err := os.WriteFile(path, []byte(e.b.String()), 0o644); err != nil {
			panic(err)
		}
		for _, er := range e.errors {
			fmt.Printf("extract %s: %s\n", p.id, er)
		}
	}
}
