package main

import (
	"fmt"
	"go/ast"
	"go/token"
	"strings"
)

// C08: what the model of core/mapping was written against.
//   * the option keywords and separator characters of the tag grammar,
//   * the field list of fieldOptionsWithContext and the fields copied by the two places that rebuild it
//     (toOptionsWithContext, parseOptionsWithContext) — a dropped field is the defect of the pinned commit,
//   * the comparison formula of validateNumberRange (conditions of its if statements, in order),
//   * the bit sizes of convertTypeFromString,
//   * the statement skeletons of the primitive paths (order of range / options / conversion checks).

func c08StructFields(s *source, rel, typeName string) ([]string, bool) {
	f := s.file(rel)
	if f == nil {
		return nil, false
	}
	var out []string
	found := false
	ast.Inspect(f, func(n ast.Node) bool {
		ts, ok := n.(*ast.TypeSpec)
		if !ok || ts.Name.Name != typeName {
			return true
		}
		st, ok := ts.Type.(*ast.StructType)
		if !ok {
			return true
		}
		found = true
		for _, fl := range st.Fields.List {
			if len(fl.Names) == 0 {
				out = append(out, "embedded "+s.src(fl.Type))
			}
			for _, n := range fl.Names {
				out = append(out, n.Name)
			}
		}
		return false
	})
	return out, found
}

// c08LitKeys lists `Field: <expr>` of every composite literal of type typeName inside the function.
func c08LitKeys(s *source, fd *ast.FuncDecl, typeName string) []string {
	var out []string
	ast.Inspect(fd.Body, func(n ast.Node) bool {
		cl, ok := n.(*ast.CompositeLit)
		if !ok {
			return true
		}
		if id, ok := cl.Type.(*ast.Ident); !ok || id.Name != typeName {
			return true
		}
		for _, el := range cl.Elts {
			if kv, ok := el.(*ast.KeyValueExpr); ok {
				out = append(out, s.src(kv.Key)+": "+s.src(kv.Value))
			} else {
				out = append(out, "positional "+s.src(el))
			}
		}
		return false
	})
	return out
}

// c08IfConds lists the conditions of the top-level if statements of a function with what they return.
func c08IfConds(s *source, fd *ast.FuncDecl) []string {
	var out []string
	for _, st := range fd.Body.List {
		switch x := st.(type) {
		case *ast.IfStmt:
			ret := ""
			if len(x.Body.List) == 1 {
				ret = s.src(x.Body.List[0])
			}
			out = append(out, "if "+s.src(x.Cond)+" => "+ret)
		case *ast.ReturnStmt:
			out = append(out, s.src(x))
		default:
			out = append(out, "stmt "+s.src(st))
		}
	}
	return out
}

// c08SwitchCases lists "case <exprs> => <first statement>" for the first switch over `tagExpr` in the function.
func c08SwitchCases(s *source, fd *ast.FuncDecl, tagExpr string) []string {
	var out []string
	done := false
	ast.Inspect(fd.Body, func(n ast.Node) bool {
		sw, ok := n.(*ast.SwitchStmt)
		if !ok || done {
			return !done
		}
		if sw.Tag == nil || s.src(sw.Tag) != tagExpr {
			return true
		}
		done = true
		for _, c := range sw.Body.List {
			cc := c.(*ast.CaseClause)
			var names []string
			for _, e := range cc.List {
				names = append(names, s.src(e))
			}
			head := "default"
			if len(names) > 0 {
				head = "case " + strings.Join(names, ", ")
			}
			body := ""
			if len(cc.Body) > 0 {
				if _, isSwitch := cc.Body[0].(*ast.SwitchStmt); isSwitch {
					body = "switch …"
				} else {
					body = s.src(cc.Body[0])
				}
			}
			out = append(out, head+" => "+body)
		}
		return false
	})
	return out
}

// c08IfElse lists, for every top-level if statement with an else branch, "if <cond> { <body> } else { <else> }" with
// the statements of both branches (nested if headers flattened, white space normalised).
func c08IfElse(s *source, fd *ast.FuncDecl) []string {
	flat := func(b *ast.BlockStmt) string {
		var parts []string
		for _, st := range b.List {
			switch x := st.(type) {
			case *ast.IfStmt:
				h := "if "
				if x.Init != nil {
					h += s.src(x.Init) + "; "
				}
				parts = append(parts, h+s.src(x.Cond)+" {…}")
			default:
				parts = append(parts, strings.Join(strings.Fields(s.src(st)), " "))
			}
		}
		return strings.Join(parts, "; ")
	}
	var out []string
	for _, st := range fd.Body.List {
		is, ok := st.(*ast.IfStmt)
		if !ok || is.Else == nil {
			continue
		}
		line := "if " + s.src(is.Cond) + " { " + flat(is.Body) + " }"
		if eb, ok := is.Else.(*ast.BlockStmt); ok {
			line += " else { " + flat(eb) + " }"
		} else {
			line += " else …"
		}
		out = append(out, line)
	}
	return out
}

func init() {
	register("C08", func(s *source, e *emitter) {
		const fo = "core/mapping/fieldoptions.go"
		const ut = "core/mapping/utils.go"
		const um = "core/mapping/unmarshaler.go"
		for _, c := range []string{"defaultOption", "envOption", "inheritOption", "stringOption", "optionalOption",
			"optionsOption", "rangeOption", "optionSeparator", "equalToken", "escapeChar", "leftBracket", "rightBracket",
			"leftSquareBracket", "rightSquareBracket", "segmentSeparator"} {
			e.constDef(s, ut, c, c)
		}
		e.constDef(s, fo, "notSymbol", "notSymbol")
		e.constDef(s, um, "ignoreKey", "ignoreKey")
		e.constDef(s, um, "delimiter", "delimiter")

		fields, ok := c08StructFields(s, fo, "fieldOptionsWithContext")
		if !ok {
			e.errors = append(e.errors, "type fieldOptionsWithContext not found in "+fo)
		}
		e.stringList("ctxFields", "fields of fieldOptionsWithContext in "+fo, fields)

		lit := func(rel, fn, lean string) {
			fd := s.findFunc(rel, fn)
			if fd == nil {
				e.errors = append(e.errors, fmt.Sprintf("function %s not found in %s", fn, rel))
				e.stringList(lean, "MISSING "+fn, []string{"MISSING"})
				return
			}
			e.stringList(lean, "fields set by the fieldOptionsWithContext literal in `"+fn+"` ("+rel+")",
				c08LitKeys(s, fd, "fieldOptionsWithContext"))
		}
		lit(fo, "fieldOptions.toOptionsWithContext", "toOptionsWithContextCopies")
		lit(um, "Unmarshaler.parseOptionsWithContext", "parseOptionsWithContextCopies")

		conds := func(rel, fn, lean string) {
			fd := s.findFunc(rel, fn)
			if fd == nil {
				e.errors = append(e.errors, fmt.Sprintf("function %s not found in %s", fn, rel))
				e.stringList(lean, "MISSING "+fn, []string{"MISSING"})
				return
			}
			e.stringList(lean, "top-level statements of `"+fn+"` ("+rel+")", c08IfConds(s, fd))
		}
		conds(ut, "validateNumberRange", "validateNumberRangeStmts")
		conds(ut, "validateJsonNumberRange", "validateJsonNumberRangeStmts")
		conds(ut, "validateValueRange", "validateValueRangeStmts")
		conds(ut, "parseNumberRange", "parseNumberRangeStmts")
		if fd := s.findFunc(ut, "parseNumberRange"); fd != nil {
			e.stringList("parseNumberRangeDefaults", "if/else statements of parseNumberRange (bounds and their defaults)", c08IfElse(s, fd))
		} else {
			e.errors = append(e.errors, "function parseNumberRange not found")
			e.stringList("parseNumberRangeDefaults", "MISSING", []string{"MISSING"})
		}
		conds(ut, "isLeftInclude", "isLeftIncludeStmts")
		conds(ut, "isRightInclude", "isRightIncludeStmts")

		if fd := s.findFunc(ut, "convertTypeFromString"); fd != nil {
			e.stringList("convertCases", "cases of convertTypeFromString ("+ut+")", c08SwitchCases(s, fd, "kind"))
		} else {
			e.errors = append(e.errors, "function convertTypeFromString not found")
			e.stringList("convertCases", "MISSING", []string{"MISSING"})
		}
		if fd := s.findFunc(um, "Unmarshaler.processFieldPrimitiveWithJSONNumber"); fd != nil {
			e.stringList("jsonNumberCases", "kind switch of processFieldPrimitiveWithJSONNumber ("+um+")", c08SwitchCases(s, fd, "typeKind"))
		} else {
			e.errors = append(e.errors, "function processFieldPrimitiveWithJSONNumber not found")
			e.stringList("jsonNumberCases", "MISSING", []string{"MISSING"})
		}

		e.shapeDef(s, um, "Unmarshaler.processFieldPrimitiveWithJSONNumber", "jsonNumberShape")
		e.shapeDef(s, um, "Unmarshaler.processFieldPrimitive", "primitiveShape")
		e.shapeDef(s, um, "Unmarshaler.processNamedFieldWithValueFromString", "fromStringShape")
		e.shapeDef(s, um, "fillPrimitive", "fillPrimitiveShape")
		e.shapeDef(s, um, "fillWithSameType", "fillWithSameTypeShape")
		e.shapeDef(s, ut, "validateAndSetValue", "validateAndSetValueShape")
		e.shapeDef(s, um, "Unmarshaler.processNamedFieldWithoutValue", "withoutValueShape")
		e.shapeDef(s, um, "Unmarshaler.processNamedFieldWithValue", "withValueShape")
		e.shapeDef(s, um, "Unmarshaler.processNamedField", "namedFieldShape")
		e.shapeDef(s, fo, "fieldOptions.toOptionsWithContext", "toOptionsWithContextShape")
		// containers (round 2: pointers to slices and maps are filled through their element type)
		e.shapeDef(s, um, "Unmarshaler.fillSlice", "fillSliceShape")
		e.shapeDef(s, um, "Unmarshaler.fillMap", "fillMapShape")
		e.shapeDef(s, um, "Unmarshaler.fillSliceWithDefault", "fillSliceWithDefaultShape")
		if fd := s.findFunc(um, "Unmarshaler.fillSliceWithDefault"); fd != nil {
			var ds []string
			ast.Inspect(fd.Body, func(n ast.Node) bool {
				switch x := n.(type) {
				case *ast.AssignStmt:
					if len(x.Lhs) >= 1 && (s.src(x.Lhs[0]) == "cacheKey" || strings.Contains(s.src(x), "defaultCache[")) {
						ds = append(ds, strings.Join(strings.Fields(s.src(x)), " "))
					}
				case *ast.ReturnStmt:
					if strings.Contains(s.src(x), "fillSlice") {
						ds = append(ds, strings.Join(strings.Fields(s.src(x)), " "))
					}
				}
				return true
			})
			e.stringList("defaultCacheUse", "cache key, cache accesses and the final fillSlice call of fillSliceWithDefault", ds)
		} else {
			e.errors = append(e.errors, "function fillSliceWithDefault not found")
			e.stringList("defaultCacheUse", "MISSING", []string{"MISSING"})
		}
		e.shapeDef(s, ut, "implicitValueRequiredStruct", "structRequiredShape")
		// rest/httpx.Parse end to end
		e.shapeDef(s, "rest/httpx/requests.go", "Parse", "httpParseShape")
		e.shapeDef(s, "rest/httpx/util.go", "GetFormValues", "getFormValuesShape")
		e.shapeDef(s, "rest/internal/encoding/parser.go", "ParseHeaders", "parseHeadersShape")
		e.constDef(s, "rest/httpx/util.go", "arraySuffix", "arraySuffix")
		// the unmarshalers of rest/httpx and rest/internal/encoding: key and options
		uopts := func(rel, varName, lean string) {
			f := s.file(rel)
			var out []string
			if f != nil {
				ast.Inspect(f, func(n ast.Node) bool {
					vs, ok := n.(*ast.ValueSpec)
					if !ok {
						return true
					}
					for i, nm := range vs.Names {
						if nm.Name == varName && i < len(vs.Values) {
							if call, ok := vs.Values[i].(*ast.CallExpr); ok {
								out = append(out, s.src(call.Fun))
								for _, a := range call.Args {
									out = append(out, s.src(a))
								}
							}
						}
					}
					return true
				})
			}
			if len(out) == 0 {
				e.errors = append(e.errors, "unmarshaler "+varName+" not found in "+rel)
			}
			e.stringList(lean, "constructor call of "+varName+" in "+rel, out)
		}
		uopts("rest/httpx/requests.go", "formUnmarshaler", "formUnmarshalerCall")
		uopts("rest/httpx/requests.go", "pathUnmarshaler", "pathUnmarshalerCall")
		uopts("rest/internal/encoding/parser.go", "headerUnmarshaler", "headerUnmarshalerCall")
		uopts("core/mapping/jsonunmarshaler.go", "jsonUnmarshaler", "jsonUnmarshalerCall")
		// the dependency key under a canonical-key function
		if fd := s.findFunc(um, "Unmarshaler.parseOptionsWithContext"); fd != nil {
			var ds []string
			ast.Inspect(fd.Body, func(n ast.Node) bool {
				if kv, ok := n.(*ast.KeyValueExpr); ok && s.src(kv.Key) == "OptionalDep" {
					ds = append(ds, s.src(kv.Value))
				}
				return true
			})
			e.stringList("canonicalDepExpr", "value given to OptionalDep in parseOptionsWithContext", ds)
		} else {
			e.stringList("canonicalDepExpr", "MISSING", []string{"MISSING"})
		}
		if fd := s.findFunc(um, "canonicalDep"); fd != nil {
			e.stringList("canonicalDepStmts", "top-level statements of canonicalDep", c08IfConds(s, fd))
		} else {
			e.errors = append(e.errors, "function canonicalDep not found in "+um)
			e.stringList("canonicalDepStmts", "MISSING", []string{"MISSING"})
		}
		// assignments to `optional` in toOptionsWithContext, in source order
		if fd := s.findFunc(fo, "fieldOptions.toOptionsWithContext"); fd != nil {
			var as []string
			ast.Inspect(fd.Body, func(n ast.Node) bool {
				if a, ok := n.(*ast.AssignStmt); ok && a.Tok == token.ASSIGN && len(a.Lhs) == 1 && s.src(a.Lhs[0]) == "optional" {
					as = append(as, s.src(a))
				}
				return true
			})
			e.stringList("optionalAssignments", "assignments to `optional` in toOptionsWithContext", as)
		} else {
			e.stringList("optionalAssignments", "MISSING", []string{"MISSING"})
		}
		// the guard of the WithFromArray block in processNamedField
		if fd := s.findFunc(um, "Unmarshaler.processNamedField"); fd != nil {
			var gs []string
			for _, st := range fd.Body.List {
				if is, ok := st.(*ast.IfStmt); ok && strings.Contains(s.src(is.Cond), "fromArray") {
					gs = append(gs, "if "+s.src(is.Cond))
				}
			}
			e.stringList("fromArrayGuard", "guard of the WithFromArray block in processNamedField", gs)
		} else {
			e.stringList("fromArrayGuard", "MISSING", []string{"MISSING"})
		}
	})
}
