package main

import (
	"fmt"
	"go/ast"
	"go/token"
	"strconv"
	"strings"
)

// C08: what the model of core/mapping was written against.
//   * the option keywords and separator characters of the tag grammar,
//   * the field list of fieldOptionsWithContext and the fields copied by the two places that rebuild it
//     (toOptionsWithContext, parseOptionsWithContext) — a dropped field is the defect of the pinned commit,
//   * the comparison formula of validateNumberRange (conditions of its if statements, in order),
//   * the bit sizes of convertTypeFromString,
//   * the statement skeletons of the primitive paths (order of range / options / conversion checks).

func c08StructFields(s *source, rel, typeName string) ([]string, bool) {
	f := s.file(rel)
	if f == nil {
		return nil, false
	}
	var out []string
	found := false
	ast.Inspect(f, func(n ast.Node) bool {
		ts, ok := n.(*ast.TypeSpec)
		if !ok || ts.Name.Name != typeName {
			return true
		}
		st, ok := ts.Type.(*ast.StructType)
		if !ok {
			return true
		}
		found = true
		for _, fl := range st.Fields.List {
			if len(fl.Names) == 0 {
				out = append(out, "embedded "+s.src(fl.Type))
			}
			for _, n := range fl.Names {
				out = append(out, n.Name)
			}
		}
		return false
	})
	return out, found
}

// c08LitKeys lists `Field: <expr>` of every composite literal of type typeName inside the function.
func c08LitKeys(s *source, fd *ast.FuncDecl, typeName string) []string {
	var out []string
	ast.Inspect(fd.Body, func(n ast.Node) bool {
		cl, ok := n.(*ast.CompositeLit)
		if !ok {
			return true
		}
		if id, ok := cl.Type.(*ast.Ident); !ok || id.Name != typeName {
			return true
		}
		for _, el := range cl.Elts {
			if kv, ok := el.(*ast.KeyValueExpr); ok {
				out = append(out, s.src(kv.Key)+": "+s.src(kv.Value))
			} else {
				out = append(out, "positional "+s.src(el))
			}
		}
		return false
	})
	return out
}

// c08IfConds lists the conditions of the top-level if statements of a function with what they return.
func c08IfConds(s *source, fd *ast.FuncDecl) []string {
	var out []string
	for _, st := range fd.Body.List {
		switch x := st.(type) {
		case *ast.IfStmt:
			ret := ""
			if len(x.Body.List) == 1 {
				ret = s.src(x.Body.List[0])
			}
			out = append(out, "if "+s.src(x.Cond)+" => "+ret)
		case *ast.ReturnStmt:
			out = append(out, s.src(x))
		default:
			out = append(out, "stmt "+s.src(st))
		}
	}
	return out
}

// c08SwitchCases lists "case <exprs> => <first statement>" for the first switch over `tagExpr` in the function.
func c08SwitchCases(s *source, fd *ast.FuncDecl, tagExpr string) []string {
	var out []string
	done := false
	ast.Inspect(fd.Body, func(n ast.Node) bool {
		sw, ok := n.(*ast.SwitchStmt)
		if !ok || done {
			return !done
		}
		if sw.Tag == nil || s.src(sw.Tag) != tagExpr {
			return true
		}
		done = true
		for _, c := range sw.Body.List {
			cc := c.(*ast.CaseClause)
			var names []string
			for _, e := range cc.List {
				names = append(names, s.src(e))
			}
			head := "default"
			if len(names) > 0 {
				head = "case " + strings.Join(names, ", ")
			}
			body := ""
			if len(cc.Body) > 0 {
				if _, isSwitch := cc.Body[0].(*ast.SwitchStmt); isSwitch {
					body = "switch …"
				} else {
					body = s.src(cc.Body[0])
				}
			}
			out = append(out, head+" => "+body)
		}
		return false
	})
	return out
}

// c08IfElse lists, for every top-level if statement with an else branch, "if <cond> { <body> } else { <else> }" with
// the statements of both branches (nested if headers flattened, white space normalised).
func c08IfElse(s *source, fd *ast.FuncDecl) []string {
	flat := func(b *ast.BlockStmt) string {
		var parts []string
		for _, st := range b.List {
			switch x := st.(type) {
			case *ast.IfStmt:
				h := "if "
				if x.Init != nil {
					h += s.src(x.Init) + "; "
				}
				parts = append(parts, h+s.src(x.Cond)+" {…}")
			default:
				parts = append(parts, strings.Join(strings.Fields(s.src(st)), " "))
			}
		}
		return strings.Join(parts, "; ")
	}
	var out []string
	for _, st := range fd.Body.List {
		is, ok := st.(*ast.IfStmt)
		if !ok || is.Else == nil {
			continue
		}
		line := "if " + s.src(is.Cond) + " { " + flat(is.Body) + " }"
		if eb, ok := is.Else.(*ast.BlockStmt); ok {
			line += " else { " + flat(eb) + " }"
		} else {
			line += " else …"
		}
		out = append(out, line)
	}
	return out
}

// ---------------------------------------------------------------------------------------------------------------
// round 4: decision-making conditions translated to Lean terms (semantic tie).
//
// c08Sem translates a Go boolean expression over identifiers, selectors (a.b -> a_b), len(x) (-> len_x), constant
// indexes x[0] (-> x_at_0), integer literals, known constants, ! && || and comparisons.  Every variable must be declared
// by the caller with its sort: "bool", "int" (comparisons are decided on Lean's Int) or "ord" (operands of an ordered
// type that the Tie instantiates, e.g. float64 -> the model's numbers: `a < b` becomes `(lt a b)` with the operators
// as parameters).  Anything else fails loudly (extraction error + marker definition).
type c08Sem struct {
	s      *source
	sorts  map[string]string // lean variable name -> bool | int | ord
	consts map[string]string // Go identifier -> Lean Int literal
	used   map[string]bool
}

type c08SemErr struct{ msg string }

func (c *c08Sem) fail(format string, a ...any) { panic(c08SemErr{fmt.Sprintf(format, a...)}) }

func (c *c08Sem) varName(e ast.Expr) (string, bool) {
	switch x := e.(type) {
	case *ast.Ident:
		return x.Name, true
	case *ast.SelectorExpr:
		b, ok := c.varName(x.X)
		if !ok {
			return "", false
		}
		return b + "_" + x.Sel.Name, true
	case *ast.ParenExpr:
		return c.varName(x.X)
	case *ast.IndexExpr:
		b, ok := c.varName(x.X)
		lit, isLit := x.Index.(*ast.BasicLit)
		if !ok || !isLit || lit.Kind != token.INT {
			return "", false
		}
		return b + "_at_" + lit.Value, true
	case *ast.CallExpr:
		if id, ok := x.Fun.(*ast.Ident); ok && id.Name == "len" && len(x.Args) == 1 {
			b, ok := c.varName(x.Args[0])
			if !ok {
				return "", false
			}
			return "len_" + b, true
		}
		// a method call without arguments reads like a field: refValue.Len() -> refValue_Len
		if sel, ok := x.Fun.(*ast.SelectorExpr); ok && len(x.Args) == 0 {
			b, ok := c.varName(sel.X)
			if !ok {
				return "", false
			}
			return b + "_" + sel.Sel.Name, true
		}
	}
	return "", false
}

// term returns the Lean term and its sort
func (c *c08Sem) term(e ast.Expr) (string, string) {
	switch x := e.(type) {
	case *ast.ParenExpr:
		return c.term(x.X)
	case *ast.BasicLit:
		if x.Kind == token.INT {
			return "(" + x.Value + " : Int)", "int"
		}
		if x.Kind == token.CHAR {
			if v, ok := c.s.eval("", x); ok {
				return "(" + v.ExactString() + " : Int)", "int"
			}
		}
		c.fail("unsupported literal %s", x.Value)
	case *ast.UnaryExpr:
		if x.Op == token.NOT {
			t, so := c.term(x.X)
			if so != "bool" {
				c.fail("! on a non-boolean")
			}
			return "(!" + t + ")", "bool"
		}
		c.fail("unsupported unary %s", x.Op)
	case *ast.BinaryExpr:
		switch x.Op {
		case token.LAND, token.LOR:
			a, sa := c.term(x.X)
			b, sb := c.term(x.Y)
			if sa != "bool" || sb != "bool" {
				c.fail("%s on a non-boolean", x.Op)
			}
			op := "&&"
			if x.Op == token.LOR {
				op = "||"
			}
			return "(" + a + " " + op + " " + b + ")", "bool"
		case token.LSS, token.LEQ, token.GTR, token.GEQ, token.EQL, token.NEQ:
			a, sa := c.term(x.X)
			b, sb := c.term(x.Y)
			if sa != sb {
				c.fail("comparison of %s with %s in %s", sa, sb, c.s.src(x))
			}
			switch sa {
			case "int":
				op := map[token.Token]string{token.LSS: "<", token.LEQ: "≤", token.GTR: ">", token.GEQ: "≥", token.EQL: "=", token.NEQ: "≠"}[x.Op]
				return "(decide (" + a + " " + op + " " + b + "))", "bool"
			case "ord":
				op := map[token.Token]string{token.LSS: "lt", token.LEQ: "le", token.GTR: "gt", token.GEQ: "ge", token.EQL: "eq", token.NEQ: "ne"}[x.Op]
				c.used[op] = true
				return "(" + op + " " + a + " " + b + ")", "bool"
			case "bool":
				if x.Op == token.EQL {
					return "(" + a + " == " + b + ")", "bool"
				}
				if x.Op == token.NEQ {
					return "(" + a + " != " + b + ")", "bool"
				}
			}
			c.fail("unsupported comparison %s", c.s.src(x))
		}
		c.fail("unsupported binary %s", x.Op)
	}
	if id, ok := e.(*ast.Ident); ok {
		if id.Name == "true" || id.Name == "false" {
			return id.Name, "bool"
		}
		if v, ok := c.consts[id.Name]; ok {
			return "(" + v + " : Int)", "int"
		}
	}
	n, ok := c.varName(e)
	if !ok {
		c.fail("unsupported expression %s", c.s.src(e))
	}
	so, ok := c.sorts[n]
	if !ok {
		c.fail("undeclared variable %s in %s", n, c.s.src(e))
	}
	c.used[n] = true
	return n, so
}

// c08CondDef emits `def <lean> <binders> : Bool := <translated cond>`; the binders are given by the caller (so that
// the statement of the Tie theorem is stable) and must bind every variable the translation uses.
func c08CondDef(e *emitter, s *source, lean, doc, binders string, sorts map[string]string, consts map[string]string, cond ast.Expr) {
	if cond == nil {
		e.errors = append(e.errors, "condition for "+lean+" not found ("+doc+")")
		e.printf("/-- MISSING: %s -/\ndef %s : Unit := ()\n\n", doc, lean)
		return
	}
	c := &c08Sem{s: s, sorts: sorts, consts: consts, used: map[string]bool{}}
	var term string
	func() {
		defer func() {
			if p := recover(); p != nil {
				if te, ok := p.(c08SemErr); ok {
					e.errors = append(e.errors, lean+": "+te.msg)
					term = ""
					return
				}
				panic(p)
			}
		}()
		t, so := c.term(cond)
		if so != "bool" {
			c.fail("not a boolean expression")
		}
		term = t
	}()
	if term == "" {
		e.printf("/-- TRANSLATION FAILED: %s (`%s`) -/\ndef %s : Unit := ()\n\n", doc, s.src(cond), lean)
		return
	}
	e.printf("/-- %s — translated from `%s` -/\ndef %s %s : Bool :=\n  %s\n\n", doc, strings.Join(strings.Fields(s.src(cond)), " "), lean, binders, term)
}

// c08Ifs lists every if statement of a function in source order.
func c08Ifs(fd *ast.FuncDecl) []*ast.IfStmt {
	var out []*ast.IfStmt
	ast.Inspect(fd.Body, func(n ast.Node) bool {
		if is, ok := n.(*ast.IfStmt); ok {
			out = append(out, is)
		}
		return true
	})
	return out
}

// c08IfWith returns the n-th (0-based) if statement whose condition text contains every given substring.
func c08IfWith(s *source, fd *ast.FuncDecl, n int, subs ...string) *ast.IfStmt {
	if fd == nil {
		return nil
	}
	for _, is := range c08Ifs(fd) {
		txt := s.src(is.Cond)
		ok := true
		for _, sub := range subs {
			if !strings.Contains(txt, sub) {
				ok = false
			}
		}
		if ok {
			if n == 0 {
				return is
			}
			n--
		}
	}
	return nil
}

func c08Cond(is *ast.IfStmt) ast.Expr {
	if is == nil {
		return nil
	}
	return is.Cond
}

// c08ConstIndexes lists the constant indexes `name[<int>]` used inside a block.
func c08ConstIndexes(s *source, b ast.Node, name string) []string {
	out := []string{}
	if b == nil {
		return out
	}
	ast.Inspect(b, func(n ast.Node) bool {
		if ix, ok := n.(*ast.IndexExpr); ok {
			if id, ok := ix.X.(*ast.Ident); ok && id.Name == name {
				if lit, ok := ix.Index.(*ast.BasicLit); ok && lit.Kind == token.INT {
					out = append(out, lit.Value)
				} else {
					out = append(out, "-999999999") // a non-constant index: not in range for any length
				}
			}
		}
		return true
	})
	return out
}

func (e *emitter) c08IntList(lean, doc string, items []string) {
	e.printf("/-- %s -/\ndef %s : List Int := [%s]\n\n", doc, lean, strings.Join(items, ", "))
}

func c08BlockStmts(s *source, b *ast.BlockStmt) []string {
	out := []string{}
	if b == nil {
		return out
	}
	for _, st := range b.List {
		out = append(out, strings.Join(strings.Fields(s.src(st)), " "))
	}
	return out
}

// c08ReadKeysEffects emits the order of effects of readKeys as a typed list: the test of the opaque flag, the literal
// return, lock / unlock, the read and the write of the package-level cache, the split, the returns.
func c08ReadKeysEffects(s *source, e *emitter, rel string) {
	fd := s.findFunc(rel, "readKeys")
	var out []string
	if fd == nil {
		e.errors = append(e.errors, "function readKeys not found in "+rel)
		out = []string{"MISSING"}
	} else {
		ast.Inspect(fd.Body, func(n ast.Node) bool {
			switch x := n.(type) {
			case *ast.IfStmt:
				out = append(out, "test "+strings.Join(strings.Fields(s.src(x.Cond)), " "))
			case *ast.ReturnStmt:
				if len(x.Results) == 1 {
					if _, ok := x.Results[0].(*ast.CompositeLit); ok {
						out = append(out, "return-literal "+strings.Join(strings.Fields(s.src(x.Results[0])), " "))
						return false
					}
				}
				out = append(out, strings.Join(strings.Fields(s.src(x)), " "))
				return false
			case *ast.AssignStmt:
				for _, l := range x.Lhs {
					if ix, ok := l.(*ast.IndexExpr); ok {
						out = append(out, "cache-write "+strings.Join(strings.Fields(s.src(ix)), " "))
					}
				}
				for _, r := range x.Rhs {
					if ix, ok := r.(*ast.IndexExpr); ok {
						out = append(out, "cache-read "+strings.Join(strings.Fields(s.src(ix)), " "))
					}
				}
			case *ast.CallExpr:
				fun := strings.Join(strings.Fields(s.src(x.Fun)), " ")
				switch {
				case strings.HasSuffix(fun, ".Lock"):
					out = append(out, "lock")
				case strings.HasSuffix(fun, ".Unlock"):
					out = append(out, "unlock")
				case fun == "strings.FieldsFunc":
					out = append(out, "split "+strings.Join(strings.Fields(s.src(x.Args[0])), " "))
				}
			case *ast.FuncLit:
				out = append(out, "separator "+strings.Join(strings.Fields(s.src(x.Body)), " "))
				return false
			}
			return true
		})
	}
	e.stringList("readKeysEffects", "order of effects of `readKeys` in "+rel, out)
	// every call site of getValue in the file, with its arguments (the opaque flag must be the unmarshaler's own option)
	sites := []string{}
	if f := s.file(rel); f != nil {
		ast.Inspect(f, func(n ast.Node) bool {
			if c, ok := n.(*ast.CallExpr); ok {
				if id, ok := c.Fun.(*ast.Ident); ok && id.Name == "getValue" {
					sites = append(sites, strings.Join(strings.Fields(s.src(c)), " "))
				}
			}
			return true
		})
	}
	e.stringList("getValueSites", "call sites of `getValue` in "+rel, sites)
	// the statements of the option function WithOpaqueKeys returns
	stmts := []string{"MISSING"}
	if fd := s.findFunc(rel, "WithOpaqueKeys"); fd != nil {
		ast.Inspect(fd.Body, func(n ast.Node) bool {
			if fl, ok := n.(*ast.FuncLit); ok {
				stmts = c08BlockStmts(s, fl.Body)
				return false
			}
			return true
		})
	} else {
		e.errors = append(e.errors, "function WithOpaqueKeys not found in "+rel)
	}
	e.stringList("withOpaqueKeysStmts", "body of the option `WithOpaqueKeys` in "+rel, stmts)
}

// c08AllocSites emits, for one function, every allocation call (reflect.New / reflect.MakeSlice / reflect.MakeMap* / make)
// with its loop depth (number of enclosing for / range statements inside the function), and the stores into the
// result container (SetMapIndex / SetMapIndexValue / value.Set / SetValue) with theirs; and, per store inside a loop,
// whether the stored identifier was declared inside that loop (`fresh`) or outside it (`hoisted`).
func c08AllocSites(s *source, e *emitter, rel, fn, lean string) {
	fd := s.findFunc(rel, fn)
	type site struct {
		text  string
		depth int
	}
	var allocs, stores []site
	var hoisted, elemCalls []string
	if fd == nil {
		e.errors = append(e.errors, "function "+fn+" not found in "+rel)
	} else {
		var walk func(n ast.Node, depth int, declared map[string]int)
		walk = func(n ast.Node, depth int, declared map[string]int) {
			ast.Inspect(n, func(x ast.Node) bool {
				if x == nil || x == n {
					return true
				}
				switch y := x.(type) {
				case *ast.RangeStmt:
					walk(y.Body, depth+1, declared)
					return false
				case *ast.ForStmt:
					walk(y.Body, depth+1, declared)
					return false
				case *ast.AssignStmt:
					if y.Tok == token.DEFINE {
						for _, l := range y.Lhs {
							if id, ok := l.(*ast.Ident); ok {
								declared[id.Name] = depth
							}
						}
					}
				case *ast.CallExpr:
					fun := strings.Join(strings.Fields(s.src(y.Fun)), " ")
					txt := strings.Join(strings.Fields(s.src(y)), " ")
					if depth > 0 && strings.HasPrefix(fun, "u.") {
						elemCalls = append(elemCalls, txt)
					}
					switch {
					case fun == "reflect.New" || fun == "reflect.MakeSlice" || strings.HasPrefix(fun, "reflect.MakeMap") || fun == "make":
						allocs = append(allocs, site{txt, depth})
					case fun == "SetMapIndexValue" || fun == "SetValue" || strings.HasSuffix(fun, ".SetMapIndex") || strings.HasSuffix(fun, ".Set"):
						stores = append(stores, site{txt, depth})
						if depth > 0 && len(y.Args) > 0 {
							// the root identifier of the stored value (last argument)
							var root func(ex ast.Expr) string
							root = func(ex ast.Expr) string {
								switch z := ex.(type) {
								case *ast.Ident:
									return z.Name
								case *ast.SelectorExpr:
									return root(z.X)
								case *ast.CallExpr:
									return root(z.Fun)
								case *ast.IndexExpr:
									return root(z.X)
								}
								return ""
							}
							r := root(y.Args[len(y.Args)-1])
							if d, ok := declared[r]; ok && d < depth && r != "reflect" {
								hoisted = append(hoisted, r+" in "+txt)
							}
						}
					}
				}
				return true
			})
		}
		walk(fd.Body, 0, map[string]int{})
	}
	pr := func(name, doc string, l []site) {
		var items []string
		for _, x := range l {
			items = append(items, fmt.Sprintf("(%s, %d)", strconv.Quote(x.text), x.depth))
		}
		e.printf("/-- %s of `%s` in %s, each with its loop depth -/\ndef %s : List (String × Int) := [%s]\n\n", doc, fn, rel, name, strings.Join(items, ",\n  "))
	}
	pr(lean+"Allocs", "allocation calls", allocs)
	pr(lean+"Stores", "stores into the result", stores)
	e.stringList(lean+"ElemCalls", "calls of the unmarshaller's own methods inside a loop of `"+fn+"`, with their arguments (the per-element target)", elemCalls)
	e.stringList(lean+"Hoisted", "values stored inside a loop of `"+fn+"` whose variable was declared outside that loop", hoisted)
}

// c08PerCallState emits, for one function, (1) the package-level variables of its file that its body touches (state that
// outlives the call: unmarshalers, pools, caches) and (2) where the intermediate map it fills comes from: the defining
// expression of every local variable that is indexed on the left of an assignment (`m[k] = …`).
func c08PerCallState(s *source, e *emitter, rel, fn, lean string) {
	fd := s.findFunc(rel, fn)
	globals := []string{}
	origins := []string{}
	if fd == nil || s.file(rel) == nil {
		e.errors = append(e.errors, "function "+fn+" not found in "+rel)
	} else {
		pkgVars := map[string]bool{}
		for _, d := range s.file(rel).Decls {
			if gd, ok := d.(*ast.GenDecl); ok && gd.Tok == token.VAR {
				for _, sp := range gd.Specs {
					if vs, ok := sp.(*ast.ValueSpec); ok {
						for _, n := range vs.Names {
							pkgVars[n.Name] = true
						}
					}
				}
			}
		}
		defs := map[string]string{}
		seen := map[string]bool{}
		var filled []string
		ast.Inspect(fd.Body, func(n ast.Node) bool {
			switch x := n.(type) {
			case *ast.Ident:
				if pkgVars[x.Name] && !seen[x.Name] {
					if _, local := defs[x.Name]; !local {
						seen[x.Name] = true
						globals = append(globals, x.Name)
					}
				}
			case *ast.AssignStmt:
				if x.Tok == token.DEFINE {
					for i, l := range x.Lhs {
						if id, ok := l.(*ast.Ident); ok && i < len(x.Rhs) {
							defs[id.Name] = strings.Join(strings.Fields(s.src(x.Rhs[i])), " ")
						}
					}
				}
				for _, l := range x.Lhs {
					if ix, ok := l.(*ast.IndexExpr); ok {
						if id, ok := ix.X.(*ast.Ident); ok {
							dup := false
							for _, f := range filled {
								dup = dup || f == id.Name
							}
							if !dup {
								filled = append(filled, id.Name)
							}
						}
					}
				}
			}
			return true
		})
		for _, f := range filled {
			d, ok := defs[f]
			if !ok {
				d = "NOT-LOCAL"
			}
			origins = append(origins, f+" := "+d)
		}
	}
	e.stringList(lean+"Globals", "package-level variables touched by `"+fn+"` in "+rel, globals)
	e.stringList(lean+"MapOrigins", "where the maps filled by `"+fn+"` come from", origins)
}

func c08Semantic(s *source, e *emitter) {
	const fo = "core/mapping/fieldoptions.go"
	const ut = "core/mapping/utils.go"
	const um = "core/mapping/unmarshaler.go"
	notSym := map[string]string{}
	if v, ok := s.constValue(fo, "notSymbol"); ok {
		notSym["notSymbol"] = v.ExactString()
	}
	// --- round 4: the front ends and glue that forward to the unmarshaller
	const va = "core/mapping/valuer.go"
	e.shapeDef(s, va, "simpleValuer.Value", "simpleValuerValueShape")
	e.shapeDef(s, va, "simpleValuer.Parent", "simpleValuerParentShape")
	e.shapeDef(s, va, "recursiveValuer.Value", "recursiveValuerValueShape")
	e.shapeDef(s, va, "recursiveValuer.Parent", "recursiveValuerParentShape")
	e.shapeDef(s, va, "mapValuer.Value", "mapValuerValueShape")
	e.shapeDef(s, um, "createValuer", "createValuerShape")
	calls := func(rel, fn, lean string) {
		fd := s.findFunc(rel, fn)
		var out []string
		if fd == nil {
			e.errors = append(e.errors, "function "+fn+" not found in "+rel)
			out = []string{"MISSING"}
		} else {
			// every call with its arguments, and every return statement, in source order
			ast.Inspect(fd.Body, func(n ast.Node) bool {
				switch x := n.(type) {
				case *ast.CallExpr:
					out = append(out, "call "+strings.Join(strings.Fields(s.src(x)), " "))
				case *ast.ReturnStmt:
					out = append(out, strings.Join(strings.Fields(s.src(x)), " "))
					return false
				}
				return true
			})
		}
		e.stringList(lean, "calls (with arguments) and returns of `"+fn+"` in "+rel, out)
	}
	// --- round 5: keys with dots — readKeys / getValue / getValueWithChainedKeys
	e.shapeDef(s, um, "readKeys", "readKeysShape")
	e.shapeDef(s, um, "getValueWithChainedKeys", "chainedKeysShape")
	calls(um, "getValue", "getValueCalls")
	calls(um, "getValueWithChainedKeys", "chainedKeysCalls")
	c08ReadKeysEffects(s, e, um)
	// --- round 5e: no state but the unmarshaler outlives a call of the front ends; the intermediate map is made per call
	c08PerCallState(s, e, "rest/internal/encoding/parser.go", "ParseHeaders", "parseHeadersState")
	c08PerCallState(s, e, "rest/httpx/requests.go", "ParsePath", "parsePathState")
	c08PerCallState(s, e, "rest/httpx/requests.go", "ParseForm", "parseFormState")
	c08PerCallState(s, e, "rest/httpx/requests.go", "ParseJsonBody", "parseJsonBodyState")
	c08PerCallState(s, e, "rest/httpx/util.go", "GetFormValues", "getFormValuesState")
	c08PerCallState(s, e, "core/conf/config.go", "toLowerCaseKeyMap", "confLowerState")
	c08PerCallState(s, e, "core/conf/config.go", "LoadFromJsonBytes", "confLoadJsonState")
	// --- round 5c: a fresh target per entry / per element
	c08AllocSites(s, e, um, "Unmarshaler.generateMap", "generateMap")
	c08AllocSites(s, e, um, "Unmarshaler.fillSlice", "fillSlice")
	c08AllocSites(s, e, um, "Unmarshaler.fillSliceFromString", "fillSliceFromString")
	c08AllocSites(s, e, um, "Unmarshaler.fillSliceValue", "fillSliceValue")
	c08AllocSites(s, e, um, "Unmarshaler.fillStructElement", "fillStructElement")
	calls("core/mapping/yamlunmarshaler.go", "UnmarshalYamlBytes", "unmarshalYamlBytesCalls")
	calls("core/mapping/tomlunmarshaler.go", "UnmarshalTomlBytes", "unmarshalTomlBytesCalls")
	calls("core/mapping/yamlunmarshaler.go", "UnmarshalYamlReader", "unmarshalYamlReaderCalls")
	calls("core/mapping/tomlunmarshaler.go", "UnmarshalTomlReader", "unmarshalTomlReaderCalls")
	calls("core/mapping/jsonunmarshaler.go", "UnmarshalJsonBytes", "unmarshalJsonBytesCalls")
	calls("core/mapping/jsonunmarshaler.go", "UnmarshalJsonMap", "unmarshalJsonMapCalls")
	calls("core/mapping/jsonunmarshaler.go", "getJsonUnmarshaler", "getJsonUnmarshalerCalls")
	calls("core/mapping/jsonunmarshaler.go", "unmarshalJsonBytes", "unmarshalJsonBytesInnerCalls")
	const cf = "core/conf/config.go"
	calls(cf, "LoadFromJsonBytes", "confLoadFromJsonBytesCalls")
	calls(cf, "LoadFromYamlBytes", "confLoadFromYamlBytesCalls")
	calls(cf, "LoadFromTomlBytes", "confLoadFromTomlBytesCalls")
	calls(cf, "toLowerCase", "confToLowerCaseCalls")
	e.shapeDef(s, cf, "Load", "confLoadShape")
	e.shapeDef(s, cf, "toLowerCaseKeyMap", "confLowerKeyMapShape")
	// the loaders table of core/conf: extension -> loader
	{
		var out []string
		if f := s.file(cf); f != nil {
			ast.Inspect(f, func(n ast.Node) bool {
				vs, ok := n.(*ast.ValueSpec)
				if !ok {
					return true
				}
				for i, nm := range vs.Names {
					if nm.Name == "loaders" && i < len(vs.Values) {
						if cl, ok := vs.Values[i].(*ast.CompositeLit); ok {
							for _, el := range cl.Elts {
								out = append(out, strings.Join(strings.Fields(s.src(el)), " "))
							}
						}
					}
				}
				return true
			})
		}
		if len(out) == 0 {
			e.errors = append(e.errors, "loaders table not found in "+cf)
		}
		e.stringList("confLoaders", "the loaders table of core/conf", out)
	}
	calls("rest/httpx/requests.go", "ParseHeaders", "httpParseHeadersCalls")
	calls("rest/httpx/requests.go", "ParseForm", "httpParseFormCalls")
	calls("rest/httpx/requests.go", "ParsePath", "httpParsePathCalls")
	calls("rest/httpx/requests.go", "ParseJsonBody", "httpParseJsonBodyCalls")
	calls("rest/httpx/requests.go", "withJsonBody", "httpWithJsonBodyCalls")
	// the cache of structValueRequired: its key (tag key + type since a8b007f) and its accesses
	if fd := s.findFunc(ut, "structValueRequired"); fd != nil {
		var ds []string
		ast.Inspect(fd.Body, func(n ast.Node) bool {
			if x, ok := n.(*ast.AssignStmt); ok {
				txt := strings.Join(strings.Fields(s.src(x)), " ")
				if len(x.Lhs) >= 1 && (s.src(x.Lhs[0]) == "cacheKey" || strings.Contains(txt, "structRequiredCache[") || strings.Contains(txt, "implicitValueRequiredStruct(")) {
					if i := strings.Index(txt, "{ required"); i >= 0 {
						txt = txt[:i] + "{…}"
					}
					ds = append(ds, txt)
				}
			}
			return true
		})
		e.stringList("structRequiredCacheUse", "cache key and cache accesses of structValueRequired", ds)
	} else {
		e.errors = append(e.errors, "function structValueRequired not found")
		e.stringList("structRequiredCacheUse", "MISSING", []string{"MISSING"})
	}
	// --- encoding.ParseHeaders: scalar or slice
	ph := s.findFunc("rest/internal/encoding/parser.go", "ParseHeaders")
	var phIf *ast.IfStmt
	if ph != nil {
		phIf = c08IfWith(s, ph, 0, "len(v)")
	}
	c08CondDef(e, s, "parseHeadersScalar", "ParseHeaders: the header value is handed over as a scalar", "(len_v : Int)",
		map[string]string{"len_v": "int"}, nil, c08Cond(phIf))
	if phIf != nil {
		e.c08IntList("parseHeadersThenIdx", "constant indexes into v in the then-branch", c08ConstIndexes(s, phIf.Body, "v"))
		var eb ast.Node
		if phIf.Else != nil {
			eb = phIf.Else
		}
		e.c08IntList("parseHeadersElseIdx", "constant indexes into v in the else-branch", c08ConstIndexes(s, eb, "v"))
		els, _ := phIf.Else.(*ast.BlockStmt)
		e.stringList("parseHeadersThen", "then-branch of the decision in ParseHeaders", c08BlockStmts(s, phIf.Body))
		e.stringList("parseHeadersElse", "else-branch of the decision in ParseHeaders", c08BlockStmts(s, els))
	} else {
		e.c08IntList("parseHeadersThenIdx", "MISSING", []string{"-999999999"})
		e.c08IntList("parseHeadersElseIdx", "MISSING", []string{"-999999999"})
		e.stringList("parseHeadersThen", "MISSING", []string{"MISSING"})
		e.stringList("parseHeadersElse", "MISSING", []string{"MISSING"})
	}
	// --- validateNumberRange: the two one-sided tests
	vr := s.findFunc(ut, "validateNumberRange")
	ordB := "{X B : Type} (lt le gt ge : X → B → Bool)"
	c08CondDef(e, s, "rangeLeftCond", "validateNumberRange: the value is left of the range", ordB+" (nr_leftInclude : Bool) (fv : X) (nr_left : B)",
		map[string]string{"nr_leftInclude": "bool", "fv": "ord", "nr_left": "ord"}, nil, c08Cond(c08IfWith(s, vr, 0, "nr.left")))
	c08CondDef(e, s, "rangeRightCond", "validateNumberRange: the value is right of the range", ordB+" (nr_rightInclude : Bool) (fv : X) (nr_right : B)",
		map[string]string{"nr_rightInclude": "bool", "fv": "ord", "nr_right": "ord"}, nil, c08Cond(c08IfWith(s, vr, 0, "nr.right")))
	// --- parseNumberRange: wrong order of the bounds, equal bounds need both ends closed
	pr := s.findFunc(ut, "parseNumberRange")
	c08CondDef(e, s, "rangeBoundsSwapped", "parseNumberRange: the bounds are in the wrong order", "{B : Type} (gt : B → B → Bool) (left right : B)",
		map[string]string{"left": "ord", "right": "ord"}, nil, c08Cond(c08IfWith(s, pr, 0, "left > right")))
	c08CondDef(e, s, "rangeBoundsEqual", "parseNumberRange: the bounds are equal", "{B : Type} (eq : B → B → Bool) (left right : B)",
		map[string]string{"left": "ord", "right": "ord"}, nil, c08Cond(c08IfWith(s, pr, 0, "left == right")))
	c08CondDef(e, s, "rangeEqualNeedsClosed", "parseNumberRange: equal bounds with an open end are refused", "(leftInclude rightInclude : Bool)",
		map[string]string{"leftInclude": "bool", "rightInclude": "bool"}, nil, c08Cond(c08IfWith(s, pr, 0, "leftInclude", "rightInclude")))
	c08CondDef(e, s, "rangeBothOmitted", "parseNumberRange: both bounds omitted", "(len_fields_at_0 len_fields_at_1 : Int)",
		map[string]string{"len_fields_at_0": "int", "len_fields_at_1": "int"}, nil, c08Cond(c08IfWith(s, pr, 0, "len(fields[0]) == 0")))
	c08CondDef(e, s, "rangeLeftGiven", "parseNumberRange: the left bound is given", "(len_fields_at_0 : Int)",
		map[string]string{"len_fields_at_0": "int"}, nil, c08Cond(c08IfWith(s, pr, 0, "len(fields[0]) > 0")))
	c08CondDef(e, s, "rangeRightGiven", "parseNumberRange: the right bound is given", "(len_fields_at_1 : Int)",
		map[string]string{"len_fields_at_1": "int"}, nil, c08Cond(c08IfWith(s, pr, 0, "len(fields[1]) > 0")))
	c08CondDef(e, s, "rangeFieldCount", "parseNumberRange: not exactly two bounds", "(len_fields : Int)",
		map[string]string{"len_fields": "int"}, nil, c08Cond(c08IfWith(s, pr, 0, "len(fields) != ")))
	// --- toOptionsWithContext: the dependency tests and the copy test
	to := s.findFunc(fo, "fieldOptions.toOptionsWithContext")
	c08CondDef(e, s, "depNotViolated", "toOptionsWithContext: optional=!dep is violated", "(baseOn selfOn : Bool)",
		map[string]string{"baseOn": "bool", "selfOn": "bool"}, nil, c08Cond(c08IfWith(s, to, 0, "baseOn", "selfOn")))
	c08CondDef(e, s, "depViolated", "toOptionsWithContext: optional=dep is violated", "(baseOn selfOn : Bool)",
		map[string]string{"baseOn": "bool", "selfOn": "bool"}, nil, c08Cond(c08IfWith(s, to, 1, "baseOn", "selfOn")))
	c08CondDef(e, s, "depIsNot", "toOptionsWithContext: the dependency starts with the not symbol", "(dep_at_0 : Int)",
		map[string]string{"dep_at_0": "int"}, notSym, c08Cond(c08IfWith(s, to, 0, "dep[0]")))
	c08CondDef(e, s, "optionalUnchanged", "toOptionsWithContext: the declared option set is returned as it is", "(o_fieldOptionsWithContext_Optional optional : Bool)",
		map[string]string{"o_fieldOptionsWithContext_Optional": "bool", "optional": "bool"}, nil, c08Cond(c08IfWith(s, to, 0, "== optional")))
	// --- implicitValueRequiredStruct
	ir := s.findFunc(ut, "implicitValueRequiredStruct")
	c08CondDef(e, s, "requiredField", "implicitValueRequiredStruct: neither optional nor defaulted", "(opts_Optional : Bool) (len_opts_Default : Int)",
		map[string]string{"opts_Optional": "bool", "len_opts_Default": "int"}, nil, c08Cond(c08IfWith(s, ir, 0, "opts.Optional")))
	c08CondDef(e, s, "requiredNotDep", "implicitValueRequiredStruct: optional=!dep", "(len_opts_OptionalDep opts_OptionalDep_at_0 : Int)",
		map[string]string{"len_opts_OptionalDep": "int", "opts_OptionalDep_at_0": "int"}, notSym, c08Cond(c08IfWith(s, ir, 0, "opts.OptionalDep[0]")))
	// --- GetFormValues: empty values are skipped, a name is kept when a value is left
	gf := s.findFunc("rest/httpx/util.go", "GetFormValues")
	c08CondDef(e, s, "formSkipValue", "GetFormValues: the value is skipped", "(len_v : Int)",
		map[string]string{"len_v": "int"}, nil, c08Cond(c08IfWith(s, gf, 0, "len(v)")))
	c08CondDef(e, s, "formKeepName", "GetFormValues: the name is handed over", "(len_filtered : Int)",
		map[string]string{"len_filtered": "int"}, nil, c08Cond(c08IfWith(s, gf, 0, "len(filtered)")))
	// --- fillSlice: `[]` gives an empty slice
	fsl := s.findFunc(um, "Unmarshaler.fillSlice")
	c08CondDef(e, s, "fillSliceEmpty", "fillSlice: an empty input slice", "(refValue_Len : Int)",
		map[string]string{"refValue_Len": "int"}, nil, c08Cond(c08IfWith(s, fsl, 0, "refValue.Len()")))
	// --- processNamedField: the WithFromArray block
	pn := s.findFunc(um, "Unmarshaler.processNamedField")
	c08CondDef(e, s, "fromArrayBlock", "processNamedField: the WithFromArray block is entered", "(u_opts_fromArray mapValueIsNil : Bool)",
		map[string]string{"u_opts_fromArray": "bool", "mapValueIsNil": "bool"}, nil, c08NilCmp(c08Cond(c08IfWith(s, pn, 0, "fromArray"))))
}

// c08NilCmp rewrites `x != nil` / `x == nil` into `!xIsNil` / `xIsNil` so that the condition is a boolean term.
func c08NilCmp(e ast.Expr) ast.Expr {
	switch x := e.(type) {
	case *ast.BinaryExpr:
		if id, ok := x.Y.(*ast.Ident); ok && id.Name == "nil" && (x.Op == token.NEQ || x.Op == token.EQL) {
			if v, ok := x.X.(*ast.Ident); ok {
				isNil := ast.NewIdent(v.Name + "IsNil")
				if x.Op == token.EQL {
					return isNil
				}
				return &ast.UnaryExpr{Op: token.NOT, X: isNil}
			}
		}
		return &ast.BinaryExpr{X: c08NilCmp(x.X), Op: x.Op, Y: c08NilCmp(x.Y)}
	case *ast.ParenExpr:
		return &ast.ParenExpr{X: c08NilCmp(x.X)}
	}
	return e
}

func init() {
	register("C08", func(s *source, e *emitter) {
		const fo = "core/mapping/fieldoptions.go"
		const ut = "core/mapping/utils.go"
		const um = "core/mapping/unmarshaler.go"
		for _, c := range []string{"defaultOption", "envOption", "inheritOption", "stringOption", "optionalOption",
			"optionsOption", "rangeOption", "optionSeparator", "equalToken", "escapeChar", "leftBracket", "rightBracket",
			"leftSquareBracket", "rightSquareBracket", "segmentSeparator"} {
			e.constDef(s, ut, c, c)
		}
		e.constDef(s, fo, "notSymbol", "notSymbol")
		e.constDef(s, um, "ignoreKey", "ignoreKey")
		e.constDef(s, um, "delimiter", "delimiter")

		fields, ok := c08StructFields(s, fo, "fieldOptionsWithContext")
		if !ok {
			e.errors = append(e.errors, "type fieldOptionsWithContext not found in "+fo)
		}
		e.stringList("ctxFields", "fields of fieldOptionsWithContext in "+fo, fields)

		lit := func(rel, fn, lean string) {
			fd := s.findFunc(rel, fn)
			if fd == nil {
				e.errors = append(e.errors, fmt.Sprintf("function %s not found in %s", fn, rel))
				e.stringList(lean, "MISSING "+fn, []string{"MISSING"})
				return
			}
			e.stringList(lean, "fields set by the fieldOptionsWithContext literal in `"+fn+"` ("+rel+")",
				c08LitKeys(s, fd, "fieldOptionsWithContext"))
		}
		lit(fo, "fieldOptions.toOptionsWithContext", "toOptionsWithContextCopies")
		lit(um, "Unmarshaler.parseOptionsWithContext", "parseOptionsWithContextCopies")

		conds := func(rel, fn, lean string) {
			fd := s.findFunc(rel, fn)
			if fd == nil {
				e.errors = append(e.errors, fmt.Sprintf("function %s not found in %s", fn, rel))
				e.stringList(lean, "MISSING "+fn, []string{"MISSING"})
				return
			}
			e.stringList(lean, "top-level statements of `"+fn+"` ("+rel+")", c08IfConds(s, fd))
		}
		conds(ut, "validateNumberRange", "validateNumberRangeStmts")
		conds(ut, "validateJsonNumberRange", "validateJsonNumberRangeStmts")
		conds(ut, "validateValueRange", "validateValueRangeStmts")
		conds(ut, "parseNumberRange", "parseNumberRangeStmts")
		if fd := s.findFunc(ut, "parseNumberRange"); fd != nil {
			e.stringList("parseNumberRangeDefaults", "if/else statements of parseNumberRange (bounds and their defaults)", c08IfElse(s, fd))
		} else {
			e.errors = append(e.errors, "function parseNumberRange not found")
			e.stringList("parseNumberRangeDefaults", "MISSING", []string{"MISSING"})
		}
		conds(ut, "isLeftInclude", "isLeftIncludeStmts")
		conds(ut, "isRightInclude", "isRightIncludeStmts")

		if fd := s.findFunc(ut, "convertTypeFromString"); fd != nil {
			e.stringList("convertCases", "cases of convertTypeFromString ("+ut+")", c08SwitchCases(s, fd, "kind"))
		} else {
			e.errors = append(e.errors, "function convertTypeFromString not found")
			e.stringList("convertCases", "MISSING", []string{"MISSING"})
		}
		if fd := s.findFunc(um, "Unmarshaler.processFieldPrimitiveWithJSONNumber"); fd != nil {
			e.stringList("jsonNumberCases", "kind switch of processFieldPrimitiveWithJSONNumber ("+um+")", c08SwitchCases(s, fd, "typeKind"))
		} else {
			e.errors = append(e.errors, "function processFieldPrimitiveWithJSONNumber not found")
			e.stringList("jsonNumberCases", "MISSING", []string{"MISSING"})
		}

		e.shapeDef(s, um, "Unmarshaler.processFieldPrimitiveWithJSONNumber", "jsonNumberShape")
		e.shapeDef(s, um, "Unmarshaler.processFieldPrimitive", "primitiveShape")
		e.shapeDef(s, um, "Unmarshaler.processNamedFieldWithValueFromString", "fromStringShape")
		e.shapeDef(s, um, "fillPrimitive", "fillPrimitiveShape")
		e.shapeDef(s, um, "fillWithSameType", "fillWithSameTypeShape")
		e.shapeDef(s, ut, "validateAndSetValue", "validateAndSetValueShape")
		e.shapeDef(s, um, "Unmarshaler.processNamedFieldWithoutValue", "withoutValueShape")
		e.shapeDef(s, um, "Unmarshaler.processNamedFieldWithValue", "withValueShape")
		e.shapeDef(s, um, "Unmarshaler.processNamedField", "namedFieldShape")
		e.shapeDef(s, fo, "fieldOptions.toOptionsWithContext", "toOptionsWithContextShape")
		// containers (round 2: pointers to slices and maps are filled through their element type)
		e.shapeDef(s, um, "Unmarshaler.fillSlice", "fillSliceShape")
		e.shapeDef(s, um, "Unmarshaler.fillMap", "fillMapShape")
		e.shapeDef(s, um, "Unmarshaler.fillSliceWithDefault", "fillSliceWithDefaultShape")
		if fd := s.findFunc(um, "Unmarshaler.fillSliceWithDefault"); fd != nil {
			var ds []string
			ast.Inspect(fd.Body, func(n ast.Node) bool {
				switch x := n.(type) {
				case *ast.AssignStmt:
					if len(x.Lhs) >= 1 && (s.src(x.Lhs[0]) == "cacheKey" || strings.Contains(s.src(x), "defaultCache[")) {
						ds = append(ds, strings.Join(strings.Fields(s.src(x)), " "))
					}
				case *ast.ReturnStmt:
					if strings.Contains(s.src(x), "fillSlice") {
						ds = append(ds, strings.Join(strings.Fields(s.src(x)), " "))
					}
				}
				return true
			})
			e.stringList("defaultCacheUse", "cache key, cache accesses and the final fillSlice call of fillSliceWithDefault", ds)
		} else {
			e.errors = append(e.errors, "function fillSliceWithDefault not found")
			e.stringList("defaultCacheUse", "MISSING", []string{"MISSING"})
		}
		e.shapeDef(s, ut, "implicitValueRequiredStruct", "structRequiredShape")
		// rest/httpx.Parse end to end
		e.shapeDef(s, "rest/httpx/requests.go", "Parse", "httpParseShape")
		e.shapeDef(s, "rest/httpx/util.go", "GetFormValues", "getFormValuesShape")
		e.shapeDef(s, "rest/internal/encoding/parser.go", "ParseHeaders", "parseHeadersShape")
		e.constDef(s, "rest/httpx/util.go", "arraySuffix", "arraySuffix")
		// the unmarshalers of rest/httpx and rest/internal/encoding: key and options
		uopts := func(rel, varName, lean string) {
			f := s.file(rel)
			var out []string
			if f != nil {
				ast.Inspect(f, func(n ast.Node) bool {
					vs, ok := n.(*ast.ValueSpec)
					if !ok {
						return true
					}
					for i, nm := range vs.Names {
						if nm.Name == varName && i < len(vs.Values) {
							if call, ok := vs.Values[i].(*ast.CallExpr); ok {
								out = append(out, s.src(call.Fun))
								for _, a := range call.Args {
									out = append(out, s.src(a))
								}
							}
						}
					}
					return true
				})
			}
			if len(out) == 0 {
				e.errors = append(e.errors, "unmarshaler "+varName+" not found in "+rel)
			}
			e.stringList(lean, "constructor call of "+varName+" in "+rel, out)
		}
		uopts("rest/httpx/requests.go", "formUnmarshaler", "formUnmarshalerCall")
		uopts("rest/httpx/requests.go", "pathUnmarshaler", "pathUnmarshalerCall")
		uopts("rest/internal/encoding/parser.go", "headerUnmarshaler", "headerUnmarshalerCall")
		uopts("core/mapping/jsonunmarshaler.go", "jsonUnmarshaler", "jsonUnmarshalerCall")
		// the dependency key under a canonical-key function
		if fd := s.findFunc(um, "Unmarshaler.parseOptionsWithContext"); fd != nil {
			var ds []string
			ast.Inspect(fd.Body, func(n ast.Node) bool {
				if kv, ok := n.(*ast.KeyValueExpr); ok && s.src(kv.Key) == "OptionalDep" {
					ds = append(ds, s.src(kv.Value))
				}
				return true
			})
			e.stringList("canonicalDepExpr", "value given to OptionalDep in parseOptionsWithContext", ds)
		} else {
			e.stringList("canonicalDepExpr", "MISSING", []string{"MISSING"})
		}
		if fd := s.findFunc(um, "canonicalDep"); fd != nil {
			e.stringList("canonicalDepStmts", "top-level statements of canonicalDep", c08IfConds(s, fd))
		} else {
			e.errors = append(e.errors, "function canonicalDep not found in "+um)
			e.stringList("canonicalDepStmts", "MISSING", []string{"MISSING"})
		}
		// assignments to `optional` in toOptionsWithContext, in source order
		if fd := s.findFunc(fo, "fieldOptions.toOptionsWithContext"); fd != nil {
			var as []string
			ast.Inspect(fd.Body, func(n ast.Node) bool {
				if a, ok := n.(*ast.AssignStmt); ok && a.Tok == token.ASSIGN && len(a.Lhs) == 1 && s.src(a.Lhs[0]) == "optional" {
					as = append(as, s.src(a))
				}
				return true
			})
			e.stringList("optionalAssignments", "assignments to `optional` in toOptionsWithContext", as)
		} else {
			e.stringList("optionalAssignments", "MISSING", []string{"MISSING"})
		}
		// the guard of the WithFromArray block in processNamedField
		if fd := s.findFunc(um, "Unmarshaler.processNamedField"); fd != nil {
			var gs []string
			for _, st := range fd.Body.List {
				if is, ok := st.(*ast.IfStmt); ok && strings.Contains(s.src(is.Cond), "fromArray") {
					gs = append(gs, "if "+s.src(is.Cond))
				}
			}
			e.stringList("fromArrayGuard", "guard of the WithFromArray block in processNamedField", gs)
		} else {
			e.stringList("fromArrayGuard", "MISSING", []string{"MISSING"})
		}
		c08Semantic(s, e)
	})
}
