package main

import (
	"fmt"
	"go/ast"
	"go/token"
	"strings"
)

// C18 — authentication gates. What is read from the working tree on every run:
//   * constants (the standard claim names, header names, field names, signature codes, maxBytes, reset duration)
//   * translated integer code: the time window of VerifySignature, pkcs5Padding's pad length,
//     pkcs5Unpadding's case split, rsaBase.crypt's chunk bounds
//   * statement skeletons of Authorize, ParseToken, incrementCount, LimitContentSecurityHandler,
//     handleVerificationFailure, ParseContentSecurity, VerifySignature, getPathQuery,
//     LimitCryptionHandler, decryptBody, flush, EcbEncrypt/EcbDecrypt, engine.appendAuthHandler

func init() {
	register("C18", func(s *source, e *emitter) {
		const (
			auth = "rest/handler/authhandler.go"
			tokp = "rest/token/tokenparser.go"
			csh  = "rest/handler/contentsecurityhandler.go"
			sec  = "rest/internal/security/contentsecurity.go"
			cry  = "rest/handler/cryptionhandler.go"
			aes  = "core/codec/aesecb.go"
			rsa  = "core/codec/rsa.go"
			hm   = "core/codec/hmac.go"
			eng  = "rest/engine.go"
			vars = "rest/httpx/vars.go"
		)
		for _, c := range [][2]string{
			{"jwtAudience", "jwtAudience"}, {"jwtExpire", "jwtExpire"}, {"jwtId", "jwtId"},
			{"jwtIssueAt", "jwtIssueAt"}, {"jwtIssuer", "jwtIssuer"}, {"jwtNotBefore", "jwtNotBefore"},
			{"jwtSubject", "jwtSubject"},
		} {
			e.constDef(s, auth, c[0], c[1])
		}
		e.constDef(s, tokp, "claimHistoryResetDuration", "claimHistoryResetDuration")
		e.constDef(s, csh, "contentSecurity", "contentSecurityHeader")
		e.constDef(s, sec, "requestUriHeader", "requestUriHeader")
		e.constDef(s, sec, "signatureField", "signatureField")
		e.constDef(s, sec, "timeField", "timeField")
		e.constDef(s, vars, "ContentSecurity", "httpxContentSecurity")
		e.constDef(s, vars, "KeyField", "keyField")
		e.constDef(s, vars, "SecretField", "secretField")
		e.constDef(s, vars, "TypeField", "typeField")
		e.constDef(s, vars, "CryptionType", "cryptionType")
		c18ShiftConst(s, e, cry, "maxBytes", "maxBytes")
		c18Iota(s, e, vars, []string{"CodeSignaturePass", "CodeSignatureInvalidHeader", "CodeSignatureWrongTime", "CodeSignatureInvalidToken"})

		// `seconds+toleranceSeconds < now || now+toleranceSeconds < seconds` and what follows
		c18Cond(s, e, sec, "VerifySignature", "if seconds+toleranceSeconds < now", "outsideWindow")
		c18Cond(s, e, aes, "pkcs5Unpadding", "if unpadding > length", "unpadRejects")
		c18SliceHigh(s, e, aes, "pkcs5Unpadding", "unpadKeep")
		c18Assign(s, e, aes, "pkcs5Padding", "padding", "padLen")
		c18Cond(s, e, cry, "decryptBody", "if limitBytes > 0", "lengthExceeded")
		c18Cond(s, e, cry, "decryptBody", "if r.ContentLength > 0", "declaredLength")
		c18Cond(s, e, cry, "decryptBody", "if max <= 0", "noLimitConfigured")
		c18Cond(s, e, cry, "LimitCryptionHandler", "if r.ContentLength == 0", "noBodyGate")
		c18Cond(s, e, tokp, "TokenParser.ParseToken", "if count > prevCount", "currentFirst")
		c18Cond(s, e, tokp, "TokenParser.incrementCount", "if tp.resetTime+tp.resetDuration < now", "historyExpired")

		e.shapeDef(s, auth, "Authorize", "authorizeShape")
		e.shapeDef(s, auth, "unauthorized", "unauthorizedShape")
		e.shapeDef(s, tokp, "TokenParser.ParseToken", "parseTokenShape")
		e.shapeDef(s, tokp, "TokenParser.doParseToken", "doParseTokenShape")
		e.shapeDef(s, tokp, "TokenParser.incrementCount", "incrementCountShape")
		e.shapeDef(s, tokp, "TokenParser.loadCount", "loadCountShape")
		e.shapeDef(s, tokp, "newParser", "newParserShape")
		e.shapeDef(s, csh, "LimitContentSecurityHandler", "contentSecurityShape")
		e.shapeDef(s, csh, "executeCallbacks", "executeCallbacksShape")
		e.shapeDef(s, csh, "handleVerificationFailure", "verificationFailureShape")
		e.shapeDef(s, sec, "ParseContentSecurity", "parseContentSecurityShape")
		e.shapeDef(s, sec, "VerifySignature", "verifySignatureShape")
		e.shapeDef(s, sec, "computeBodySignature", "bodySignatureShape")
		e.shapeDef(s, sec, "getPathQuery", "getPathQueryShape")
		e.shapeDef(s, sec, "ContentSecurityHeader.Encrypted", "encryptedShape")
		c18ReturnExprs(s, e, sec, "ContentSecurityHeader.Encrypted", "encryptedReturns")
		c18ReturnExprs(s, e, sec, "computeBodySignature", "bodySignatureReturns")
		c18ReturnExprs(s, e, sec, "getPathQuery", "getPathQueryReturns")
		e.shapeDef(s, "core/iox/read.go", "DupReadCloser", "dupReadCloserShape")
		c18ReturnExprs(s, e, "core/iox/read.go", "DupReadCloser", "dupReadCloserReturns")
		e.shapeDef(s, "rest/httpx/requests.go", "ParseHeader", "parseHeaderShape")
		e.constDef(s, "rest/httpx/requests.go", "separator", "headerSeparator")
		e.constDef(s, "rest/httpx/requests.go", "tokensInAttribute", "tokensInAttribute")
		e.shapeDef(s, cry, "LimitCryptionHandler", "cryptionShape")
		e.shapeDef(s, cry, "decryptBody", "decryptBodyShape")
		e.shapeDef(s, cry, "cryptionResponseWriter.flush", "flushShape")
		e.shapeDef(s, cry, "cryptionResponseWriter.Write", "cwWriteShape")
		e.shapeDef(s, aes, "EcbEncrypt", "ecbEncryptShape")
		e.shapeDef(s, aes, "EcbDecrypt", "ecbDecryptShape")
		e.shapeDef(s, aes, "pkcs5Padding", "pkcs5PaddingShape")
		e.shapeDef(s, aes, "pkcs5Unpadding", "pkcs5UnpaddingShape")
		e.shapeDef(s, hm, "Hmac", "hmacShape")
		e.shapeDef(s, hm, "HmacBase64", "hmacBase64Shape")
		e.shapeDef(s, rsa, "rsaBase.crypt", "rsaCryptShape")
		e.shapeDef(s, rsa, "rsaDecrypter.DecryptBase64", "rsaDecryptBase64Shape")
		e.shapeDef(s, eng, "engine.appendAuthHandler", "appendAuthHandlerShape")
		e.shapeDef(s, eng, "engine.signatureVerifier", "signatureVerifierShape")
		// the string pieces joined into the signed content, in order
		c18JoinArgs(s, e, sec, "VerifySignature", "signContent", "signContentParts")

		// ---- round 4: the limit decision of decryptBody, semantically
		c18Cond(s, e, cry, "decryptBody", "if err == nil && int64(len(content))", "limitUsedUp")
		c18Cond(s, e, cry, "decryptBody", "if n, _ := io.ReadFull", "probeFoundMore")
		c18CallArgs(s, e, cry, "decryptBody", "io.LimitReader", "limitReaderArgs")
		c18CallArgs(s, e, cry, "decryptBody", "io.ReadFull", "readFullArgs")
		c18CallArgs(s, e, cry, "decryptBody", "codec.EcbDecrypt", "ecbDecryptArgs")
		c18CallArgs(s, e, cry, "decryptBody", "base64.StdEncoding.DecodeString", "decodeArgs")
		c18CallArgs(s, e, cry, "cryptionResponseWriter.flush", "codec.EcbEncrypt", "ecbEncryptArgs")
		c18CallArgs(s, e, cry, "LimitCryptionHandler", "decryptBody", "decryptBodyArgs")
		c18CallArgs(s, e, cry, "CryptionHandler", "LimitCryptionHandler", "cryptionHandlerArgs")
		c18Cond(s, e, csh, "LimitContentSecurityHandler", "if len(callbacks) == 0", "noUserCallback")
		c18CallArgs(s, e, csh, "LimitContentSecurityHandler", "security.VerifySignature", "verifySignatureArgs")
		c18CallArgs(s, e, csh, "LimitContentSecurityHandler", "LimitCryptionHandler", "csCryptionArgs")
		c18CallArgs(s, e, csh, "LimitContentSecurityHandler", "executeCallbacks", "executeCallbacksArgs")
		c18CallArgs(s, e, sec, "VerifySignature", "codec.HmacBase64", "hmacBase64Args")
		c18CallArgs(s, e, auth, "Authorize", "parser.ParseToken", "parseTokenArgs")
		c18CallArgs(s, e, hm, "Hmac", "hmac.New", "hmacNewArgs")
		c18CallArgs(s, e, aes, "EcbDecrypt", "pkcs5Unpadding", "unpaddingArgs")
		c18CallArgs(s, e, aes, "EcbEncrypt", "pkcs5Padding", "paddingArgs")
		c18CallArgs(s, e, aes, "pkcs5Padding", "bytes.Repeat", "padRepeatArgs")
		c18Cond(s, e, rsa, "rsaBase.crypt", "if r.bytesLimit*(i+1) > inputLen", "rsaLastChunk")
		c18Cond(s, e, rsa, "rsaDecrypter.DecryptBase64", "if len(input) == 0", "rsaEmptyInput")

		// ---- round 4: the wiring of the gates in rest/engine.go and rest/server.go
		c18NativeTable(s, e, eng, "engine.buildChainWithNativeMiddlewares", "nativeSwitches", "nativeHandlers")
		c18BindRouteChain(s, e, eng, "engine.bindRoute", "bindRouteChain", "bindRouteTail")
		c18AppendAuth(s, e, eng, "engine.appendAuthHandler", "appendAuth")
		c18VerifierKind(s, e, eng, "engine.signatureVerifier", "signatureVerifierKind")
		c18CallArgs(s, e, eng, "engine.appendAuthHandler", "handler.Authorize", "authorizeArgs")
		c18CallArgs(s, e, eng, "engine.signatureVerifier", "handler.LimitContentSecurityHandler", "contentSecurityArgs")
		c18CallArgs(s, e, eng, "engine.bindFeaturedRoutes", "ng.bindRoute", "bindRouteArgs")
		c18CallArgs(s, e, eng, "engine.bindFeaturedRoutes", "ng.signatureVerifier", "signatureVerifierArgs")
		e.shapeDef(s, eng, "engine.bindFeaturedRoutes", "bindFeaturedRoutesShape")
		e.shapeDef(s, eng, "engine.bindRoutes", "bindRoutesShape")
		const srv = "rest/server.go"
		c18ClosureAssigns(s, e, srv, "WithJwt", "withJwtAssigns")
		c18ClosureAssigns(s, e, srv, "WithJwtTransition", "withJwtTransitionAssigns")
		c18ClosureAssigns(s, e, srv, "WithSignature", "withSignatureAssigns")
		c18ClosureAssigns(s, e, srv, "WithChain", "withChainAssigns")
		c18ClosureAssigns(s, e, srv, "WithUnauthorizedCallback", "withUnauthorizedCallbackCalls")
		e.shapeDef(s, srv, "Server.AddRoutes", "addRoutesShape")
		e.shapeDef(s, srv, "Server.Use", "serverUseShape")
		e.shapeDef(s, eng, "engine.use", "engineUseShape")
		e.shapeDef(s, eng, "engine.addRoutes", "engineAddRoutesShape")
		e.shapeDef(s, eng, "convertMiddleware", "convertMiddlewareShape")

		// ---- round 5: the decrypters of a route group, the delegating constructors
		c18KeyLoop(s, e, eng, "engine.signatureVerifier", "svLoadDecrypters", "svGateMap")
		c18CallArgs(s, e, csh, "ContentSecurityHandler", "LimitContentSecurityHandler", "contentSecurityWrapperArgs")
		c18CallArgs(s, e, sec, "ParseContentSecurity", "decrypter.DecryptBase64", "decryptBase64Args")
		c18CallArgs(s, e, sec, "ParseContentSecurity", "httpx.ParseHeader", "parseHeaderArgs")
		c18CallArgs(s, e, csh, "LimitContentSecurityHandler", "security.ParseContentSecurity", "parseContentSecurityArgs")
		c18CallArgs(s, e, hm, "HmacBase64", "Hmac", "hmacCallArgs")
		c18CallArgs(s, e, hm, "Hmac", "io.WriteString", "hmacWriteArgs")
		c18ClosureAssigns(s, e, auth, "WithPrevSecret", "withPrevSecretAssigns")
		c18ClosureAssigns(s, e, auth, "WithUnauthorizedCallback", "authWithCallbackAssigns")
		c18ClosureAssigns(s, e, srv, "WithUnsignedCallback", "withUnsignedCallbackCalls")

		c18Effects(s, e, c18EffSpec{rel: cry, fn: "cryptionResponseWriter.flush", lean: "flushEffects", depth: 0,
			params: "(empty encryptErr writeErr shortWrite : Bool)",
			conds: map[string]string{"w.buf.Len() == 0": "empty", "err != nil": "encryptErr",
				"io.WriteString: err != nil": "writeErr", "io.WriteString: n < len(body)": "shortWrite"},
			effects: map[string]string{"codec.EcbEncrypt": "", "w.WriteHeader": "", "io.WriteString": "", "base64.StdEncoding.EncodeToString": ""},
			skip:    map[string]bool{"logc.Errorf": true}})

		// the accesses of incrementCount to the shared history, in order (the steps of the interleaving model Conc)
		c18Effects(s, e, c18EffSpec{rel: tokp, fn: "TokenParser.incrementCount", lean: "incrementCountEffects", depth: 0,
			params:  "(expired present : Bool)",
			conds:   map[string]string{"tp.resetTime+tp.resetDuration < now": "expired", "ok": "present"},
			effects: map[string]string{"timex.Now": "", "tp.history.Range": "clear", "tp.history.Load": "", "atomic.AddUint64": "", "tp.history.Store": ""},
			skip:    map[string]bool{"var count uint64 = 1": true}})
		c18Effects(s, e, c18EffSpec{rel: tokp, fn: "TokenParser.loadCount", lean: "loadCountEffects", depth: 0,
			params:  "(present : Bool)",
			conds:   map[string]string{"ok": "present"},
			effects: map[string]string{"tp.history.Load": ""},
			skip:    map[string]bool{}, retVals: true})

		c18Effects(s, e, c18EffSpec{rel: sec, fn: "ParseContentSecurity", lean: "parseContentSecurityEffects", depth: 0,
			params: "(emptyField noKey decryptErr keyErr typeErr : Bool)",
			conds: map[string]string{"len(fingerprint) == 0 || len(secret) == 0 || len(signature) == 0": "emptyField", "!ok": "noKey",
				"decrypter.DecryptBase64: err != nil": "decryptErr", "base64.StdEncoding.DecodeString: err != nil": "keyErr",
				"strconv.Atoi: err != nil": "typeErr"},
			effects: map[string]string{"r.Header.Get": "", "httpx.ParseHeader": "", "decrypter.DecryptBase64": "",
				"base64.StdEncoding.DecodeString": "", "strconv.Atoi": ""},
			skip: map[string]bool{}, retVals: true, plainAssigns: true})
		c18Effects(s, e, c18EffSpec{rel: sec, fn: "VerifySignature", lean: "verifySignatureEffects", depth: 0,
			params: "(badTimestamp outside sigEqual : Bool)",
			conds: map[string]string{"strconv.ParseInt: err != nil": "badTimestamp",
				"seconds+toleranceSeconds < now || now+toleranceSeconds < seconds": "outside",
				"securityHeader.Signature == actualSignature": "sigEqual"},
			effects: map[string]string{"strconv.ParseInt": "", "getPathQuery": "", "codec.HmacBase64": ""},
			skip:    map[string]bool{"time.Now().Unix": true, "int64": true, "strings.Join": true, "logc.Infof": true}, retVals: true})

		// ---- round 5e: where do the bytes behind r.Body live after computeBodySignature
		c18BodyOrigin(s, e, sec, "computeBodySignature", "bodyAssignments", "securityPackageVars")
		c18LocalDecls(s, e, "core/iox/read.go", "DupReadCloser", "dupReadCloserLocals")
		c18BodyOrigin(s, e, cry, "decryptBody", "decryptBodyAssignments", "cryptionPackageVars")
		c18LocalDeclsDeep(s, e, cry, "decryptBody", "decryptBodyLocals")

		// ---- round 5c: ParseToken's retry structure as a TYPED call list (symbolic execution: which secret each call gets)
		c18ParseTokenCalls(s, e, tokp, "TokenParser.ParseToken", "parseTokenCalls")

		// ---- round 5: whole bodies as DECISION functions: which effects run, in order, for every outcome of the conditions
		c18Effects(s, e, c18EffSpec{rel: auth, fn: "Authorize", lean: "authorizeEffects", depth: 2,
			params: "(parseErr tokValid claimsOk : Bool)",
			conds:  map[string]string{"err != nil": "parseErr", "!tok.Valid": "(!tokValid)", "!ok": "(!claimsOk)"},
			effects: map[string]string{"parser.ParseToken": "", "unauthorized": "", "next.ServeHTTP": ""},
			skip:    map[string]bool{"r.Context": true, "range claims": true, "tok.Claims.(jwt.MapClaims)": true}})
		c18Effects(s, e, c18EffSpec{rel: auth, fn: "unauthorized", lean: "unauthorizedEffects", depth: 0,
			params: "(hasErr hasCallback : Bool)",
			conds:  map[string]string{"err != nil": "hasErr", "callback != nil": "hasCallback"},
			effects: map[string]string{"callback": "", "writer.WriteHeader": ""},
			skip:    map[string]bool{"response.NewHeaderOnceResponseWriter": true, "detailAuthLog": true}})
		c18Effects(s, e, c18EffSpec{rel: csh, fn: "LimitContentSecurityHandler", lean: "csGateEffects", depth: 2,
			params: "(method : String) (parseErr pass hasBody encrypted : Bool)",
			conds: map[string]string{"err != nil": "parseErr", "code != httpx.CodeSignaturePass": "(!pass)",
				"r.ContentLength != 0 && header.Encrypted()": "(hasBody && encrypted)"},
			tags:    map[string]string{"r.Method": "method"},
			effects: map[string]string{"security.ParseContentSecurity": "", "security.VerifySignature": "", "executeCallbacks": "",
				"LimitCryptionHandler(limitBytes, header.Key)(next).ServeHTTP": "", "next.ServeHTTP": ""},
			skip: map[string]bool{"logc.Errorf": true}})
		c18Effects(s, e, c18EffSpec{rel: csh, fn: "handleVerificationFailure", lean: "verificationFailureEffects", depth: 0,
			params:  "(strict : Bool)",
			conds:   map[string]string{"strict": "strict"},
			effects: map[string]string{"w.WriteHeader": "", "next.ServeHTTP": ""}})
		c18Effects(s, e, c18EffSpec{rel: csh, fn: "executeCallbacks", lean: "executeCallbacksEffects", depth: 0,
			params:  "",
			effects: map[string]string{"range callbacks": "", "callback": ""}})
		c18Effects(s, e, c18EffSpec{rel: cry, fn: "LimitCryptionHandler", lean: "cryptionEffects", depth: 2,
			params:  "(noBody decryptErr : Bool)",
			conds:   map[string]string{"r.ContentLength == 0": "noBody", "err != nil": "decryptErr"},
			effects: map[string]string{"defer cw.flush": "", "decryptBody": "", "w.WriteHeader": "", "next.ServeHTTP": ""},
			skip:    map[string]bool{"newCryptionResponseWriter": true}})
	})
}

// ---- helpers private to C18 ----

func c18Fail(e *emitter, lean, msg string) {
	e.errors = append(e.errors, msg)
	e.printf("/-- MISSING: %s -/\ndef %s : Unit := ()\n\n", msg, lean)
}

// c18Emit renders `def lean (free vars : Int) : ty := body` from a translation closure.
func c18Emit(e *emitter, doc, lean, ty string, f func(c *tctx) string) {
	defer func() {
		if p := recover(); p != nil {
			if te, ok := p.(transErr); ok {
				c18Fail(e, lean, lean+": "+te.msg)
				return
			}
			panic(p)
		}
	}()
	c := &tctx{t: &translator{registry: map[string]*transFunc{}, consts: map[string]string{}},
		locals: map[string]bool{}, freeSet: map[string]bool{}, boolVars: map[string]bool{}}
	body := f(c)
	var params []string
	for _, v := range c.free {
		t := "Int"
		if c.boolVars[v] {
			t = "Bool"
		}
		params = append(params, "("+v+" : "+t+")")
	}
	e.printf("/-- %s -/\ndef %s %s : %s :=\n  %s\n\n", doc, lean, strings.Join(params, " "), ty, body)
}

func c18Walk(fd *ast.FuncDecl, visit func(ast.Stmt) bool) {
	done := false
	ast.Inspect(fd.Body, func(n ast.Node) bool {
		if done {
			return false
		}
		if st, ok := n.(ast.Stmt); ok && visit(st) {
			done = true
			return false
		}
		return true
	})
}

// c18Cond: the condition of the first `if` whose source starts with prefix, as a Bool function.
func c18Cond(s *source, e *emitter, rel, fn, prefix, lean string) {
	fd := s.findFunc(rel, fn)
	if fd == nil {
		c18Fail(e, lean, "function "+fn+" not found in "+rel)
		return
	}
	var cond ast.Expr
	c18Walk(fd, func(st ast.Stmt) bool {
		if is, ok := st.(*ast.IfStmt); ok && strings.HasPrefix(s.src(is), prefix) {
			cond = is.Cond
			return true
		}
		return false
	})
	if cond == nil {
		c18Fail(e, lean, fmt.Sprintf("%s: if statement %q not found", fn, prefix))
		return
	}
	c18Emit(e, "condition `"+s.src(cond)+"` of `"+fn+"` in "+rel, lean, "Bool", func(c *tctx) string { return c.expr(cond, true) })
}

// c18Assign: right-hand side of the first assignment to `lhs`, as an Int function.
func c18Assign(s *source, e *emitter, rel, fn, lhs, lean string) {
	fd := s.findFunc(rel, fn)
	if fd == nil {
		c18Fail(e, lean, "function "+fn+" not found in "+rel)
		return
	}
	var rhs ast.Expr
	c18Walk(fd, func(st ast.Stmt) bool {
		if as, ok := st.(*ast.AssignStmt); ok && len(as.Lhs) == 1 && len(as.Rhs) == 1 && s.src(as.Lhs[0]) == lhs {
			rhs = as.Rhs[0]
			return true
		}
		return false
	})
	if rhs == nil {
		c18Fail(e, lean, fmt.Sprintf("%s: assignment to %s not found", fn, lhs))
		return
	}
	c18Emit(e, "`"+lhs+" := "+s.src(rhs)+"` of `"+fn+"` in "+rel, lean, "Int", func(c *tctx) string { return c.expr(rhs, false) })
}

// c18SliceHigh: the upper bound of the slice expression returned by the last return of fn.
func c18SliceHigh(s *source, e *emitter, rel, fn, lean string) {
	fd := s.findFunc(rel, fn)
	if fd == nil {
		c18Fail(e, lean, "function "+fn+" not found in "+rel)
		return
	}
	var high ast.Expr
	var base string
	ast.Inspect(fd.Body, func(n ast.Node) bool {
		if r, ok := n.(*ast.ReturnStmt); ok && len(r.Results) > 0 {
			if sl, ok := r.Results[0].(*ast.SliceExpr); ok && sl.Low == nil && sl.High != nil {
				high, base = sl.High, s.src(sl.X)
			}
		}
		return true
	})
	if high == nil {
		c18Fail(e, lean, fn+": no `return x[:n]` found")
		return
	}
	c18Emit(e, "`return "+base+"[:"+s.src(high)+"]` of `"+fn+"` in "+rel, lean, "Int", func(c *tctx) string { return c.expr(high, false) })
}

// c18Iota: a const block `A = iota; B; C …` – emits each name with its position.
func c18Iota(s *source, e *emitter, rel string, names []string) {
	f := s.file(rel)
	found := map[string]int{}
	if f != nil {
		for _, d := range f.Decls {
			gd, ok := d.(*ast.GenDecl)
			if !ok || gd.Tok != token.CONST {
				continue
			}
			isIota := false
			for i, sp := range gd.Specs {
				vs := sp.(*ast.ValueSpec)
				if i == 0 {
					if len(vs.Values) == 1 {
						if id, ok := vs.Values[0].(*ast.Ident); ok && id.Name == "iota" {
							isIota = true
						}
					}
				} else if len(vs.Values) != 0 {
					isIota = false
				}
				if isIota {
					for _, n := range vs.Names {
						found[n.Name] = i
					}
				}
			}
		}
	}
	for _, n := range names {
		if v, ok := found[n]; ok {
			e.printf("/-- `%s` (iota) in %s -/\ndef %s : Int := %d\n\n", n, rel, leanIdent(strings.ToLower(n[:1])+n[1:]), v)
		} else {
			c18Fail(e, leanIdent(strings.ToLower(n[:1])+n[1:]), "iota constant "+n+" not found in "+rel)
		}
	}
}

// c18JoinArgs: `lhs := strings.Join([]string{a, b, …}, sep)` – the element sources in order, then the separator.
func c18JoinArgs(s *source, e *emitter, rel, fn, lhs, lean string) {
	fd := s.findFunc(rel, fn)
	if fd == nil {
		e.errors = append(e.errors, "function "+fn+" not found in "+rel)
		e.stringList(lean, "MISSING", []string{"MISSING"})
		return
	}
	var items []string
	c18Walk(fd, func(st ast.Stmt) bool {
		as, ok := st.(*ast.AssignStmt)
		if !ok || len(as.Lhs) != 1 || len(as.Rhs) != 1 || s.src(as.Lhs[0]) != lhs {
			return false
		}
		call, ok := as.Rhs[0].(*ast.CallExpr)
		if !ok || s.src(call.Fun) != "strings.Join" || len(call.Args) != 2 {
			return false
		}
		cl, ok := call.Args[0].(*ast.CompositeLit)
		if !ok {
			return false
		}
		for _, el := range cl.Elts {
			items = append(items, s.src(el))
		}
		items = append(items, "sep="+s.src(call.Args[1]))
		return true
	})
	if items == nil {
		e.errors = append(e.errors, fn+": strings.Join assignment to "+lhs+" not found")
		items = []string{"MISSING"}
	}
	e.stringList(lean, "pieces joined into `"+lhs+"` by `"+fn+"` in "+rel, items)
}

// c18ReturnExprs: the source text of every return statement's results, in order ("a, b" per statement).
func c18ReturnExprs(s *source, e *emitter, rel, fn, lean string) {
	fd := s.findFunc(rel, fn)
	if fd == nil {
		e.errors = append(e.errors, "function "+fn+" not found in "+rel)
		e.stringList(lean, "MISSING", []string{"MISSING"})
		return
	}
	var items []string
	ast.Inspect(fd.Body, func(n ast.Node) bool {
		if _, ok := n.(*ast.FuncLit); ok {
			return false
		}
		if r, ok := n.(*ast.ReturnStmt); ok {
			var parts []string
			for _, x := range r.Results {
				parts = append(parts, s.src(x))
			}
			items = append(items, strings.Join(parts, ", "))
		}
		return true
	})
	e.stringList(lean, "results of the return statements of `"+fn+"` in "+rel, items)
}

// c18ShiftConst: `const name = a << b` (main.go's evaluator has no shifts).
func c18ShiftConst(s *source, e *emitter, rel, name, lean string) {
	f := s.file(rel)
	if f != nil {
		for _, d := range f.Decls {
			gd, ok := d.(*ast.GenDecl)
			if !ok || gd.Tok != token.CONST {
				continue
			}
			for _, sp := range gd.Specs {
				vs := sp.(*ast.ValueSpec)
				for i, n := range vs.Names {
					if n.Name != name || i >= len(vs.Values) {
						continue
					}
					if be, ok := vs.Values[i].(*ast.BinaryExpr); ok && be.Op == token.SHL {
						a, ok1 := be.X.(*ast.BasicLit)
						b, ok2 := be.Y.(*ast.BasicLit)
						if ok1 && ok2 {
							var x, y int64
							fmt.Sscan(a.Value, &x)
							fmt.Sscan(b.Value, &y)
							e.printf("/-- `%s = %s` in %s -/\ndef %s : Int := %d\n\n", name, s.src(be), rel, lean, x<<uint(y))
							return
						}
					}
				}
			}
		}
	}
	c18Fail(e, lean, "shift constant "+name+" not found in "+rel)
}

// ---- round 4 helpers ----

// c18CallArgs: the argument sources of every call of `callee` inside fn, in source order, one string per call.
func c18CallArgs(s *source, e *emitter, rel, fn, callee, lean string) {
	fd := s.findFunc(rel, fn)
	if fd == nil {
		e.errors = append(e.errors, "function "+fn+" not found in "+rel)
		e.stringList(lean, "MISSING", []string{"MISSING"})
		return
	}
	var items []string
	ast.Inspect(fd.Body, func(n ast.Node) bool {
		if c, ok := n.(*ast.CallExpr); ok && s.src(c.Fun) == callee {
			var parts []string
			for _, a := range c.Args {
				parts = append(parts, s.src(a))
			}
			if c.Ellipsis.IsValid() {
				parts[len(parts)-1] += "..."
			}
			items = append(items, strings.Join(parts, " | "))
		}
		return true
	})
	if items == nil {
		e.errors = append(e.errors, fn+": no call of "+callee)
	}
	e.stringList(lean, "arguments of the calls of `"+callee+"` in `"+fn+"` ("+rel+")", items)
}

// c18ClosureAssigns: the statements of the function literal a `With…` option returns, as source text.
func c18ClosureAssigns(s *source, e *emitter, rel, fn, lean string) {
	fd := s.findFunc(rel, fn)
	var items []string
	if fd != nil {
		ast.Inspect(fd.Body, func(n ast.Node) bool {
			if fl, ok := n.(*ast.FuncLit); ok && items == nil {
				for _, st := range fl.Body.List {
					items = append(items, s.src(st))
				}
				return false
			}
			return true
		})
	}
	if items == nil {
		e.errors = append(e.errors, "option "+fn+" not found in "+rel)
		items = []string{"MISSING"}
	}
	e.stringList(lean, "statements of the closure returned by `"+fn+"` in "+rel, items)
}

// c18NativeTable: buildChainWithNativeMiddlewares must be `chn := chain.New()`, a run of
// `if ng.conf.Middlewares.X { chn = chn.Append(<call>) }` and `return chn`; emits the switches and the callees in order.
func c18NativeTable(s *source, e *emitter, rel, fn, leanSw, leanH string) {
	fd := s.findFunc(rel, fn)
	var sw, hs []string
	bad := func(msg string) {
		e.errors = append(e.errors, fn+": "+msg)
	}
	if fd == nil {
		bad("not found")
	} else {
		for i, st := range fd.Body.List {
			src := s.src(st)
			switch {
			case i == 0:
				if src != "chn := chain.New()" {
					bad("first statement is " + src)
				}
			case i == len(fd.Body.List)-1:
				if src != "return chn" {
					bad("last statement is " + src)
				}
			default:
				is, ok := st.(*ast.IfStmt)
				if !ok || is.Else != nil || is.Init != nil || len(is.Body.List) != 1 {
					bad("unexpected statement " + src)
					continue
				}
				cond := s.src(is.Cond)
				as, ok := is.Body.List[0].(*ast.AssignStmt)
				if !ok || !strings.HasPrefix(cond, "ng.conf.Middlewares.") || len(as.Lhs) != 1 || s.src(as.Lhs[0]) != "chn" || as.Tok != token.ASSIGN {
					bad("unexpected statement " + src)
					continue
				}
				call, ok := as.Rhs[0].(*ast.CallExpr)
				if !ok || s.src(call.Fun) != "chn.Append" || len(call.Args) != 1 {
					bad("unexpected append " + src)
					continue
				}
				name := s.src(call.Args[0])
				if c2, ok := call.Args[0].(*ast.CallExpr); ok {
					name = s.src(c2.Fun)
				}
				sw = append(sw, strings.TrimPrefix(cond, "ng.conf.Middlewares."))
				hs = append(hs, name)
			}
		}
	}
	e.stringList(leanSw, "the switches of RestConf.Middlewares `"+fn+"` consults, in order", sw)
	e.stringList(leanH, "the handler each switch appends, in order", hs)
}

// c18ChainStmt translates one statement of bindRoute that assigns the chain into a Lean function
// `Option (List String) → Option (List String)` (none = a nil chain.Chain).
func c18ChainStmt(s *source, st ast.Stmt) (string, bool) {
	src := s.src(st)
	switch x := st.(type) {
	case *ast.AssignStmt:
		if len(x.Lhs) != 1 || len(x.Rhs) != 1 || s.src(x.Lhs[0]) != "chn" {
			return "", false
		}
		switch s.src(x.Rhs[0]) {
		case "ng.chain":
			return "(fun _ => custom)", true
		case "ng.buildChainWithNativeMiddlewares(fr, route, metrics)":
			return "(fun _ => some native)", true
		case "ng.appendAuthHandler(fr, chn, verifier)":
			return "(fun c => c.map auth)", true
		}
	case *ast.IfStmt:
		if x.Init == nil && x.Else == nil && s.src(x.Cond) == "chn == nil" {
			body := "c"
			for _, b := range x.Body.List {
				f, ok := c18ChainStmt(s, b)
				if !ok {
					return "", false
				}
				body = "(" + f + " " + body + ")"
			}
			return "(fun c => if c.isNone then " + body + " else c)", true
		}
	case *ast.RangeStmt:
		if s.src(x.X) == "ng.middlewares" && len(x.Body.List) == 1 &&
			s.src(x.Body.List[0]) == "chn = chn.Append(convertMiddleware(middleware))" {
			return "(fun c => c.map (· ++ uses))", true
		}
	}
	_ = src
	return "", false
}

// c18BindRouteChain: bindRoute's chain assembly as a Lean function of (custom chain, native chain, auth, uses);
// the statements after the assembly (ThenFunc, router.Handle) are emitted as text.
func c18BindRouteChain(s *source, e *emitter, rel, fn, lean, leanTail string) {
	fd := s.findFunc(rel, fn)
	if fd == nil {
		c18Fail(e, lean, "function "+fn+" not found in "+rel)
		e.stringList(leanTail, "MISSING", []string{"MISSING"})
		return
	}
	expr := "custom"
	var tail []string
	inTail := false
	for _, st := range fd.Body.List {
		if !inTail {
			if f, ok := c18ChainStmt(s, st); ok {
				expr = "(" + f + " " + expr + ")"
				continue
			}
			inTail = true
		}
		if _, ok := c18ChainStmt(s, st); ok {
			e.errors = append(e.errors, fn+": chain statement after the chain was used: "+s.src(st))
		}
		tail = append(tail, s.src(st))
	}
	e.printf("/-- the chain `%s` (%s) hands to `ThenFunc`, statement by statement: `custom` = ng.chain (none = nil), `native` = buildChainWithNativeMiddlewares, `auth` = appendAuthHandler(fr, ·, verifier), `uses` = ng.middlewares -/\n", fn, rel)
	e.printf("def %s (custom : Option (List String)) (native : List String) (auth : List String → List String) (uses : List String) : Option (List String) :=\n  %s\n\n", lean, expr)
	e.stringList(leanTail, "the statements of `"+fn+"` after the chain assembly", tail)
}

// c18AppendAuth: appendAuthHandler as a Lean function; every `chn = chn.Append(X)` appends the callee name of X
// followed by its arguments' sources.
func c18AppendAuth(s *source, e *emitter, rel, fn, lean string) {
	fd := s.findFunc(rel, fn)
	if fd == nil {
		c18Fail(e, lean, "function "+fn+" not found in "+rel)
		return
	}
	conds := map[string]string{"fr.jwt.enabled": "jwtEnabled", "len(fr.jwt.prevSecret) == 0": "prevEmpty"}
	var block func(list []ast.Stmt, cur string) (string, bool)
	block = func(list []ast.Stmt, cur string) (string, bool) {
		for _, st := range list {
			switch x := st.(type) {
			case *ast.AssignStmt:
				if len(x.Lhs) != 1 || s.src(x.Lhs[0]) != "chn" {
					return "", false
				}
				call, ok := x.Rhs[0].(*ast.CallExpr)
				if !ok || s.src(call.Fun) != "chn.Append" || len(call.Args) != 1 {
					return "", false
				}
				cur = "(" + cur + " ++ [" + leanString(s.src(call.Args[0])) + "])"
			case *ast.IfStmt:
				v, ok := conds[s.src(x.Cond)]
				if !ok || x.Init != nil {
					return "", false
				}
				a, ok := block(x.Body.List, cur)
				if !ok {
					return "", false
				}
				b := cur
				if x.Else != nil {
					eb, ok := x.Else.(*ast.BlockStmt)
					if !ok {
						return "", false
					}
					if b, ok = block(eb.List, cur); !ok {
						return "", false
					}
				}
				cur = "(if " + v + " then " + a + " else " + b + ")"
			case *ast.ReturnStmt:
				if len(x.Results) != 1 || s.src(x.Results[0]) != "verifier(chn)" {
					return "", false
				}
				cur = "(verifier " + cur + ")"
			default:
				return "", false
			}
		}
		return cur, true
	}
	body, ok := block(fd.Body.List, "chn")
	if !ok || !strings.HasPrefix(body, "(verifier ") {
		c18Fail(e, lean, fn+": statements outside the translated subset")
		return
	}
	e.printf("/-- `%s` (%s) -/\ndef %s (jwtEnabled prevEmpty : Bool) (verifier : List String → List String) (chn : List String) : List String :=\n  %s\n\n", fn, rel, lean, body)
}

// c18VerifierKind: the decision list in front of signatureVerifier's gate: "identity" (the chain is returned as it is),
// "error" (ErrSignatureConfig), "gate" (LimitContentSecurityHandler appended), as a Lean function of the three inputs.
func c18VerifierKind(s *source, e *emitter, rel, fn, lean string) {
	fd := s.findFunc(rel, fn)
	if fd == nil {
		c18Fail(e, lean, "function "+fn+" not found in "+rel)
		return
	}
	conds := map[string]string{"!signature.enabled": "(!enabled)", "len(signature.PrivateKeys) == 0": "(decide (nkeys = 0))", "signature.Strict": "strict"}
	classify := func(r *ast.ReturnStmt) string {
		if len(r.Results) != 2 {
			return ""
		}
		a, b := s.src(r.Results[0]), s.src(r.Results[1])
		switch {
		case a == "nil" && b == "ErrSignatureConfig":
			return "\"error\""
		case a == "nil" && b == "err":
			return "\"keyfile-error\""
		case b == "nil" && a == "func(chn chain.Chain) chain.Chain { return chn }":
			return "\"identity\""
		case b == "nil" && strings.Contains(a, "handler.LimitContentSecurityHandler") && !strings.Contains(a, "return chn }"):
			return "\"gate\""
		}
		return ""
	}
	var block func(list []ast.Stmt) (string, bool)
	block = func(list []ast.Stmt) (string, bool) {
		if len(list) == 0 {
			return "", false
		}
		switch x := list[0].(type) {
		case *ast.ReturnStmt:
			k := classify(x)
			return k, k != ""
		case *ast.IfStmt:
			v, ok := conds[s.src(x.Cond)]
			if !ok || x.Else != nil {
				return "", false
			}
			a, ok := block(x.Body.List)
			if !ok {
				return "", false
			}
			b, ok := block(list[1:])
			if !ok {
				return "", false
			}
			return "(if " + v + " then " + a + " else " + b + ")", true
		case *ast.AssignStmt, *ast.RangeStmt: // decrypters := make(…) and the key loading loop
			return block(list[1:])
		}
		return "", false
	}
	body, ok := block(fd.Body.List)
	if !ok {
		c18Fail(e, lean, fn+": statements outside the translated subset")
		return
	}
	e.printf("/-- the decision list of `%s` (%s) -/\ndef %s (enabled : Bool) (nkeys : Int) (strict : Bool) : String :=\n  %s\n\n", fn, rel, lean, body)
}

// ---- round 5 helpers ----

// c18KeyLoop translates the key loading of signatureVerifier into a Lean function of the loader and the group's key list:
//   m := make(map[string]codec.RsaDecrypter)            a map made fresh for this call
//   for _, key := range signature.PrivateKeys {          the GROUP's own keys, in order
//       [a := key.Field]*  d, err := codec.NewRsaDecrypter(x); if err != nil { return nil, err }  m[y] = d
//   }
// and nothing else may write the map. Emits also the name of the map (the gate's second argument is tied to it).
func c18KeyLoop(s *source, e *emitter, rel, fn, lean, leanMap string) {
	fd := s.findFunc(rel, fn)
	if fd == nil {
		c18Fail(e, lean, "function "+fn+" not found in "+rel)
		e.stringList(leanMap, "MISSING", []string{"MISSING"})
		return
	}
	fail := func(msg string) {
		c18Fail(e, lean, fn+": key loop: "+msg)
		e.stringList(leanMap, "MISSING", []string{"MISSING"})
	}
	proj := map[string]string{"Fingerprint": "key.1", "KeyFile": "key.2"}
	mapName := ""
	var loop *ast.RangeStmt
	for i, st := range fd.Body.List {
		as, ok := st.(*ast.AssignStmt)
		if !ok || as.Tok != token.DEFINE || len(as.Lhs) != 1 || len(as.Rhs) != 1 {
			continue
		}
		call, ok := as.Rhs[0].(*ast.CallExpr)
		if !ok || s.src(call.Fun) != "make" || len(call.Args) != 1 || s.src(call.Args[0]) != "map[string]codec.RsaDecrypter" {
			continue
		}
		mapName = s.src(as.Lhs[0])
		if i+1 < len(fd.Body.List) {
			loop, _ = fd.Body.List[i+1].(*ast.RangeStmt)
		}
		break
	}
	if mapName == "" {
		fail("no `m := make(map[string]codec.RsaDecrypter)` made for the call")
		return
	}
	if loop == nil || s.src(loop.X) != "signature.PrivateKeys" || loop.Key == nil || s.src(loop.Key) != "_" || loop.Value == nil {
		fail("the statement after the map is not `for _, key := range signature.PrivateKeys`")
		return
	}
	v := s.src(loop.Value)
	alias := map[string]string{}
	resolve := func(x ast.Expr) string {
		src := s.src(x)
		if a, ok := alias[src]; ok {
			return a
		}
		if strings.HasPrefix(src, v+".") {
			return proj[strings.TrimPrefix(src, v+".")]
		}
		return ""
	}
	loaded := map[string]string{} // decrypter variable -> projection of the file it was loaded from
	fileProj, fpProj := "", ""
	pendingErr := false
	for _, st := range loop.Body.List {
		switch x := st.(type) {
		case *ast.AssignStmt:
			switch {
			case x.Tok == token.DEFINE && len(x.Lhs) == 1 && len(x.Rhs) == 1 && resolve(x.Rhs[0]) != "":
				alias[s.src(x.Lhs[0])] = resolve(x.Rhs[0])
			case x.Tok == token.DEFINE && len(x.Lhs) == 2 && len(x.Rhs) == 1 && s.src(x.Lhs[1]) == "err":
				call, ok := x.Rhs[0].(*ast.CallExpr)
				if !ok || s.src(call.Fun) != "codec.NewRsaDecrypter" || len(call.Args) != 1 || resolve(call.Args[0]) == "" {
					fail("unexpected statement " + s.src(st))
					return
				}
				loaded[s.src(x.Lhs[0])] = resolve(call.Args[0])
				pendingErr = true
			case x.Tok == token.ASSIGN && len(x.Lhs) == 1 && len(x.Rhs) == 1:
				ix, ok := x.Lhs[0].(*ast.IndexExpr)
				if !ok || s.src(ix.X) != mapName || resolve(ix.Index) == "" || loaded[s.src(x.Rhs[0])] == "" || pendingErr || fpProj != "" {
					fail("unexpected statement " + s.src(st))
					return
				}
				fpProj, fileProj = resolve(ix.Index), loaded[s.src(x.Rhs[0])]
			default:
				fail("unexpected statement " + s.src(st))
				return
			}
		case *ast.IfStmt:
			if !pendingErr || x.Init != nil || x.Else != nil || s.src(x.Cond) != "err != nil" || len(x.Body.List) != 1 ||
				s.src(x.Body.List[0]) != "return nil, err" {
				fail("unexpected statement " + s.src(st))
				return
			}
			pendingErr = false
		default:
			fail("unexpected statement " + s.src(st))
			return
		}
	}
	if fpProj == "" || pendingErr {
		fail("no `" + mapName + "[…] = decrypter` after a checked load")
		return
	}
	// nothing else writes the map
	writes := 0
	ast.Inspect(fd.Body, func(n ast.Node) bool {
		if as, ok := n.(*ast.AssignStmt); ok {
			for _, l := range as.Lhs {
				if ix, ok := l.(*ast.IndexExpr); ok && s.src(ix.X) == mapName {
					writes++
				} else if s.src(l) == mapName {
					writes++
				}
			}
		}
		return true
	})
	if writes != 2 {
		fail(fmt.Sprintf("the map is written %d times (expected: made once, one store in the loop)", writes))
		return
	}
	e.printf("/-- the key loading of `%s` (%s): a map made for the call, one store per key of `signature.PrivateKeys` in order, a failed load ends it -/\n", fn, rel)
	e.printf("def %s {D : Type} (load : String → Option D) (keys : List (String × String)) : Option (List (String × D)) :=\n  keys.foldl (fun acc key => acc.bind fun m => (load %s).map fun d => m ++ [(%s, d)]) (some [])\n\n", lean, fileProj, fpProj)
	e.stringList(leanMap, "the map `"+fn+"` fills (and hands to the gate)", []string{mapName})
}

// c18EffSpec: a function (or the closure `depth` function literals inside it) translated into a DECISION function:
// `def lean params : List String` = the effects (calls named in `effects`, with their argument text) that run, in order,
// for every outcome of the conditions. Conditions are translated through `conds` (Go source → Lean Bool), a `switch` on a
// tag of `tags` with cases `http.MethodX` becomes a membership test. Early returns cut the rest; calls in `skip` (logging,
// plumbing) are left out; ANY other statement is an extraction error.
type c18EffSpec struct {
	rel, fn, lean, params string
	depth                 int
	conds, tags, effects  map[string]string
	skip                  map[string]bool
	retVals               bool // returns with values are effects ("return <values>")
	plainAssigns          bool // `x := m[k]` is plumbing (skipped), `v, ok := m[k]` is an effect
}

func c18Effects(s *source, e *emitter, sp c18EffSpec) {
	fd := s.findFunc(sp.rel, sp.fn)
	if fd == nil {
		c18Fail(e, sp.lean, "function "+sp.fn+" not found in "+sp.rel)
		return
	}
	body := fd.Body
	for d := 0; d < sp.depth; d++ {
		var inner *ast.FuncLit
		ast.Inspect(body, func(n ast.Node) bool {
			if fl, ok := n.(*ast.FuncLit); ok && inner == nil {
				inner = fl
				return false
			}
			return inner == nil
		})
		if inner == nil {
			c18Fail(e, sp.lean, sp.fn+": no closure at depth "+fmt.Sprint(d+1))
			return
		}
		body = inner.Body
	}
	var bad string
	fail := func(st ast.Node, why string) string {
		if bad == "" {
			bad = why + ": " + strings.SplitN(s.src(st), "\n", 2)[0]
		}
		return "[]"
	}
	// an effect for a call expression: "" = not an effect
	callEffect := func(x ast.Expr, prefix string) (string, bool, bool) { // text, isEffect, isSkipped
		call, ok := x.(*ast.CallExpr)
		if !ok {
			if sp.skip[s.src(x)] {
				return "", false, true
			}
			return "", false, false
		}
		name := prefix + s.src(call.Fun)
		if alias, ok := sp.effects[name]; ok {
			if alias != "" { // the argument is a function literal: the effect is named by what it does — and that is checked
				fl, ok := (ast.Expr)(nil), false
				if len(call.Args) == 1 {
					fl, ok = call.Args[0], true
				}
				lit, isLit := fl.(*ast.FuncLit)
				if !ok || !isLit || alias != "clear" || len(lit.Body.List) != 2 ||
					s.src(lit.Body.List[0]) != "tp.history.Delete(key)" || s.src(lit.Body.List[1]) != "return true" {
					return "", false, false
				}
				return name + " [" + alias + "]", true, false
			}
			var args []string
			for _, a := range call.Args {
				args = append(args, s.src(a))
			}
			return name + "(" + strings.Join(args, ", ") + ")", true, false
		}
		if sp.skip[name] {
			return "", false, true
		}
		return "", false, false
	}
	qualified := map[*ast.IfStmt]string{}
	// an `if` right after `x, err := f(…)`: its condition may be named "<f>: <condition>" in the table
	ast.Inspect(body, func(n ast.Node) bool {
		blk, ok := n.(*ast.BlockStmt)
		if !ok {
			return true
		}
		for i := 1; i < len(blk.List); i++ {
			is, ok := blk.List[i].(*ast.IfStmt)
			if !ok || is.Init != nil {
				continue
			}
			if as, ok := blk.List[i-1].(*ast.AssignStmt); ok && len(as.Rhs) == 1 {
				if call, ok := as.Rhs[0].(*ast.CallExpr); ok {
					if c, ok := sp.conds[s.src(call.Fun)+": "+s.src(is.Cond)]; ok {
						qualified[is] = c
					}
				}
			}
		}
		return true
	})
	var trans func(list []ast.Stmt) string
	one := func(x ast.Expr, st ast.Stmt, prefix string, rest []ast.Stmt) string {
		txt, isEff, isSkip := callEffect(x, prefix)
		switch {
		case isEff:
			return "(" + leanString(txt) + " :: " + trans(rest) + ")"
		case isSkip:
			return trans(rest)
		}
		return fail(st, "statement outside the translated subset")
	}
	trans = func(list []ast.Stmt) string {
		if len(list) == 0 {
			return "[]"
		}
		st, rest := list[0], list[1:]
		switch x := st.(type) {
		case *ast.ReturnStmt:
			if len(x.Results) == 0 {
				return "[]"
			}
			if sp.retVals {
				var rs []string
				for _, r := range x.Results {
					if cl, ok := r.(*ast.UnaryExpr); ok {
						if lit, ok := cl.X.(*ast.CompositeLit); ok { // &T{F: v, …}: the type and the field assignments on one line
							var fs []string
							for _, el := range lit.Elts {
								fs = append(fs, strings.Join(strings.Fields(s.src(el)), " "))
							}
							rs = append(rs, "&"+s.src(lit.Type)+"{"+strings.Join(fs, ", ")+"}")
							continue
						}
					}
					rs = append(rs, s.src(r))
				}
				return "[" + leanString("return "+strings.Join(rs, ", ")) + "]"
			}
			return fail(st, "return with a value")
		case *ast.ExprStmt:
			return one(x.X, st, "", rest)
		case *ast.DeferStmt:
			return one(x.Call, st, "defer ", rest)
		case *ast.AssignStmt:
			if len(x.Rhs) != 1 {
				return fail(st, "assignment")
			}
			if ix, ok := x.Rhs[0].(*ast.IndexExpr); ok && sp.plainAssigns {
				if len(x.Lhs) == 2 { // v, ok := m[k]: the lookup decides, it is an effect
					return "(" + leanString("lookup "+s.src(ix)) + " :: " + trans(rest) + ")"
				}
				return trans(rest)
			}
			return one(x.Rhs[0], st, "", rest)
		case *ast.DeclStmt:
			if sp.skip[s.src(st)] {
				return trans(rest)
			}
			return fail(st, "declaration")
		case *ast.BlockStmt:
			return trans(append(append([]ast.Stmt{}, x.List...), rest...))
		case *ast.IfStmt:
			if x.Init != nil {
				// the init statement runs first, then the condition is consulted; a condition about the init's own call may
				// be named "<callee>: <condition>" in the table (several `err != nil` in one function)
				cp := *x
				cp.Init = nil
				if as, ok := x.Init.(*ast.AssignStmt); ok && len(as.Rhs) == 1 {
					if call, ok := as.Rhs[0].(*ast.CallExpr); ok {
						if c, ok := sp.conds[s.src(call.Fun)+": "+s.src(x.Cond)]; ok {
							qualified[&cp] = c
						}
					}
				}
				if el, ok := x.Else.(*ast.IfStmt); ok && el.Init == nil {
					if as, ok := x.Init.(*ast.AssignStmt); ok && len(as.Rhs) == 1 {
						if call, ok := as.Rhs[0].(*ast.CallExpr); ok {
							if c, ok := sp.conds[s.src(call.Fun)+": "+s.src(el.Cond)]; ok {
								qualified[el] = c
							}
						}
					}
				}
				return trans(append([]ast.Stmt{x.Init, &cp}, rest...))
			}
			c, ok := qualified[x]
			if !ok {
				c, ok = sp.conds[s.src(x.Cond)]
			}
			if !ok {
				return fail(st, "condition not in the table")
			}
			a := trans(append(append([]ast.Stmt{}, x.Body.List...), rest...))
			b := trans(rest)
			if x.Else != nil {
				b = trans(append([]ast.Stmt{x.Else}, rest...))
			}
			return "(if " + c + " then " + a + " else " + b + ")"
		case *ast.SwitchStmt:
			if x.Init != nil || x.Tag == nil {
				return fail(st, "switch")
			}
			tag, ok := sp.tags[s.src(x.Tag)]
			if !ok {
				return fail(st, "switch tag not in the table")
			}
			out := ""
			dflt := trans(rest)
			var arms [][2]string
			for _, cs := range x.Body.List {
				cc := cs.(*ast.CaseClause)
				bodyT := trans(append(append([]ast.Stmt{}, cc.Body...), rest...))
				if cc.List == nil {
					dflt = bodyT
					continue
				}
				var vals []string
				for _, v := range cc.List {
					src := s.src(v)
					if !strings.HasPrefix(src, "http.Method") {
						return fail(st, "case value")
					}
					vals = append(vals, leanString(strings.ToUpper(strings.TrimPrefix(src, "http.Method"))))
				}
				arms = append(arms, [2]string{"([" + strings.Join(vals, ", ") + "].contains " + tag + ")", bodyT})
			}
			out = dflt
			for i := len(arms) - 1; i >= 0; i-- {
				out = "(if " + arms[i][0] + " then " + arms[i][1] + " else " + out + ")"
			}
			return out
		case *ast.RangeStmt:
			name := "range " + s.src(x.X)
			if sp.skip[name] {
				return trans(rest)
			}
			if _, ok := sp.effects[name]; ok {
				// every element, in order: the body's effects once, marked as repeated
				return "(" + leanString(name) + " :: (" + trans(x.Body.List) + " ++ " + trans(rest) + "))"
			}
			return fail(st, "loop")
		}
		return fail(st, "statement outside the translated subset")
	}
	expr := trans(body.List)
	if bad != "" {
		c18Fail(e, sp.lean, sp.fn+": "+bad)
		return
	}
	e.printf("/-- the effects of `%s` (%s), in order, for every outcome of its conditions -/\ndef %s %s : List String :=\n  %s\n\n", sp.fn, sp.rel, sp.lean, sp.params, expr)
}

// ---- round 5c ----

// c18ParseTokenCalls executes TokenParser.ParseToken symbolically: the locals first / second / count / prevCount are tracked
// through the assignments, every call of tp.loadCount / tp.doParseToken / tp.incrementCount is emitted as (kind, the
// secret it is given), every `err != nil` is the error of the doParseToken call that assigned err last (`err <its secret>`),
// the returns are ("return-err", "") / ("return-token", ""). Anything else is an extraction error.
func c18ParseTokenCalls(s *source, e *emitter, rel, fn, lean string) {
	fd := s.findFunc(rel, fn)
	if fd == nil {
		c18Fail(e, lean, "function "+fn+" not found in "+rel)
		return
	}
	bad := ""
	fail := func(n ast.Node, why string) string {
		if bad == "" {
			bad = why + ": " + strings.SplitN(s.src(n), "\n", 2)[0]
		}
		return "[]"
	}
	type env struct {
		vars    map[string]string // local -> Lean term of the secret it holds ("secret" | "prev") or "count:<term>"
		lastErr string            // the secret of the doParseToken call err came from
	}
	clone := func(v env) env {
		m := map[string]string{}
		for k, x := range v.vars {
			m[k] = x
		}
		return env{m, v.lastErr}
	}
	val := func(v env, x ast.Expr) string {
		src := s.src(x)
		if t, ok := v.vars[src]; ok && !strings.HasPrefix(t, "count:") {
			return t
		}
		return ""
	}
	var exec func(list []ast.Stmt, v env) string
	exec = func(list []ast.Stmt, v env) string {
		if len(list) == 0 {
			return "[]"
		}
		st, rest := list[0], list[1:]
		emit := func(kind, arg string) string {
			return "((" + leanString(kind) + ", " + arg + ") :: " + exec(rest, v) + ")"
		}
		switch x := st.(type) {
		case *ast.DeclStmt:
			return exec(rest, v)
		case *ast.ReturnStmt:
			if len(x.Results) == 2 {
				a, b := s.src(x.Results[0]), s.src(x.Results[1])
				if a == "nil" && b == "err" {
					return "[(\"return-err\", \"\")]"
				}
				if a == "token" && b == "nil" {
					return "[(\"return-token\", \"\")]"
				}
			}
			return fail(st, "return")
		case *ast.ExprStmt:
			call, ok := x.X.(*ast.CallExpr)
			if ok && s.src(call.Fun) == "tp.incrementCount" && len(call.Args) == 1 && val(v, call.Args[0]) != "" {
				return emit("incr", val(v, call.Args[0]))
			}
			return fail(st, "call")
		case *ast.AssignStmt:
			if len(x.Rhs) != 1 {
				return fail(st, "assignment")
			}
			if call, ok := x.Rhs[0].(*ast.CallExpr); ok {
				switch s.src(call.Fun) {
				case "tp.loadCount":
					if len(x.Lhs) == 1 && len(call.Args) == 1 && val(v, call.Args[0]) != "" {
						v.vars[s.src(x.Lhs[0])] = "count:" + val(v, call.Args[0])
						return emit("load", val(v, call.Args[0]))
					}
				case "tp.doParseToken":
					if len(x.Lhs) == 2 && s.src(x.Lhs[0]) == "token" && s.src(x.Lhs[1]) == "err" && len(call.Args) == 2 &&
						s.src(call.Args[0]) == "r" && val(v, call.Args[1]) != "" {
						v.lastErr = val(v, call.Args[1])
						return emit("parse", val(v, call.Args[1]))
					}
				}
				return fail(st, "call")
			}
			if len(x.Lhs) == 1 && x.Tok == token.ASSIGN && val(v, x.Rhs[0]) != "" {
				if name := s.src(x.Lhs[0]); name == "first" || name == "second" {
					v.vars[name] = val(v, x.Rhs[0])
					return exec(rest, v)
				}
			}
			return fail(st, "assignment")
		case *ast.IfStmt:
			if x.Init != nil {
				return fail(st, "if with an init statement")
			}
			cond := ""
			switch c := s.src(x.Cond); {
			case c == "len(prevSecret) > 0":
				cond = "hasPrev"
			case c == "err != nil" && v.lastErr != "":
				cond = "err " + v.lastErr
			case c == "count > prevCount" && v.vars["count"] == "count:secret" && v.vars["prevCount"] == "count:prev":
				cond = "currentLeads"
			default:
				return fail(st, "condition outside the translated subset")
			}
			a := exec(append(append([]ast.Stmt{}, x.Body.List...), rest...), clone(v))
			b := ""
			switch el := x.Else.(type) {
			case nil:
				b = exec(rest, clone(v))
			case *ast.BlockStmt:
				b = exec(append(append([]ast.Stmt{}, el.List...), rest...), clone(v))
			default:
				return fail(st, "else")
			}
			return "(if " + cond + " then " + a + " else " + b + ")"
		}
		return fail(st, "statement outside the translated subset")
	}
	expr := exec(fd.Body.List, env{map[string]string{"secret": "secret", "prevSecret": "prev"}, ""})
	if bad != "" {
		c18Fail(e, lean, fn+": "+bad)
		return
	}
	e.printf("/-- `%s` (%s) as a typed call list: (kind, the secret the call is given), for every outcome of the conditions; `err s` = doParseToken with secret `s` returned an error -/\n", fn, rel)
	e.printf("def %s (secret prev : String) (hasPrev currentLeads : Bool) (err : String → Bool) : List (String × String) :=\n  %s\n\n", lean, expr)
}

// ---- round 5e ----

// c18BodyOrigin: every statement of fn that assigns r.Body (source text, in order), and every package-level variable of the
// file with the callee (or literal) that initialises it: a pool / buffer shared between requests would show up in both.
func c18BodyOrigin(s *source, e *emitter, rel, fn, leanAssign, leanVars string) {
	fd := s.findFunc(rel, fn)
	var assigns []string
	if fd == nil {
		e.errors = append(e.errors, "function "+fn+" not found in "+rel)
	} else {
		ast.Inspect(fd.Body, func(n ast.Node) bool {
			if as, ok := n.(*ast.AssignStmt); ok {
				for _, l := range as.Lhs {
					if s.src(l) == "r.Body" {
						assigns = append(assigns, s.src(as))
						break
					}
				}
			}
			return true
		})
	}
	e.stringList(leanAssign, "the statements of `"+fn+"` ("+rel+") that assign r.Body", assigns)
	var vars []string
	if f := s.file(rel); f != nil {
		for _, d := range f.Decls {
			gd, ok := d.(*ast.GenDecl)
			if !ok || gd.Tok != token.VAR {
				continue
			}
			for _, sp := range gd.Specs {
				vs := sp.(*ast.ValueSpec)
				for i, n := range vs.Names {
					init := "-"
					if i < len(vs.Values) {
						init = s.src(vs.Values[i])
						if c, ok := vs.Values[i].(*ast.CallExpr); ok {
							init = s.src(c.Fun)
						}
					}
					vars = append(vars, n.Name+" = "+init)
				}
			}
		}
	}
	e.stringList(leanVars, "the package-level variables of "+rel+" and what initialises them", vars)
}

// c18LocalDecls: the `var` declarations inside fn (a buffer declared there is fresh in every call).
func c18LocalDecls(s *source, e *emitter, rel, fn, lean string) {
	fd := s.findFunc(rel, fn)
	var items []string
	if fd == nil {
		e.errors = append(e.errors, "function "+fn+" not found in "+rel)
	} else {
		for _, st := range fd.Body.List {
			if ds, ok := st.(*ast.DeclStmt); ok {
				items = append(items, s.src(ds))
			}
		}
	}
	e.stringList(lean, "the local declarations of `"+fn+"` ("+rel+")", items)
}

// c18LocalDeclsDeep: every `var` declaration anywhere inside fn.
func c18LocalDeclsDeep(s *source, e *emitter, rel, fn, lean string) {
	fd := s.findFunc(rel, fn)
	var items []string
	if fd == nil {
		e.errors = append(e.errors, "function "+fn+" not found in "+rel)
	} else {
		ast.Inspect(fd.Body, func(n ast.Node) bool {
			if ds, ok := n.(*ast.DeclStmt); ok {
				items = append(items, s.src(ds))
			}
			return true
		})
	}
	e.stringList(lean, "the local declarations of `"+fn+"` ("+rel+")", items)
}
