package main

import (
	"fmt"
	"go/ast"
	"strings"
)

func init() {
	register("C13", func(s *source, e *emitter) {
		const sub = "core/discov/subscriber.go"
		const reg = "core/discov/internal/registry.go"
		const res = "zrpc/resolver/internal/"
		const kube = "zrpc/resolver/internal/kube/eventhandler.go"
		e.shapeDef(s, sub, "container.addKv", "addKvShape")
		e.shapeDef(s, sub, "container.doRemoveKey", "doRemoveKeyShape")
		e.shapeDef(s, sub, "container.removeKey", "removeKeyShape")
		e.shapeDef(s, sub, "container.getValues", "getValuesShape")
		e.shapeDef(s, sub, "container.OnAdd", "onAddShape")
		e.shapeDef(s, sub, "container.OnDelete", "onDeleteShape")
		e.shapeDef(s, sub, "container.notifyChange", "notifyChangeShape")
		e.shapeDef(s, reg, "cluster.handleChanges", "handleChangesShape")
		e.shapeDef(s, reg, "cluster.handleWatchEvents", "handleWatchEventsShape")
		e.shapeDef(s, reg, "calculateChanges", "calculateChangesShape")
		e.shapeDef(s, reg, "Registry.Monitor", "monitorShape")
		e.shapeDef(s, reg, "cluster.reload", "reloadShape")
		e.shapeDef(s, reg, "cluster.getCurrent", "getCurrentShape")
		c13OptionalShape(e, s, reg, "cluster.join", "joinShape")
		e.shapeDef(s, res+"subset.go", "subset", "subsetShape")
		e.constDef(s, res+"resolver.go", "subsetSize", "subsetSize")
		e.shapeDef(s, res+"discovbuilder.go", "discovBuilder.Build", "discovBuildShape")
		e.shapeDef(s, kube, "EventHandler.OnAdd", "kubeOnAddShape")
		e.shapeDef(s, kube, "EventHandler.OnDelete", "kubeOnDeleteShape")
		e.shapeDef(s, kube, "EventHandler.OnUpdate", "kubeOnUpdateShape")
		e.shapeDef(s, kube, "EventHandler.Update", "kubeUpdateShape")
		e.shapeDef(s, kube, "EventHandler.notify", "kubeNotifyShape")
		e.shapeDef(s, kube, "diff", "kubeDiffShape")
		// the small functions that decide the property: statement by statement
		e.c13StmtDef(s, sub, "container.addKv", "addKvStmts")
		e.c13StmtDef(s, sub, "container.doRemoveKey", "doRemoveKeyStmts")
		e.c13StmtDef(s, sub, "container.getValues", "getValuesStmts")
		e.c13StmtDef(s, reg, "calculateChanges", "calculateChangesStmts")
		e.c13StmtDef(s, res+"subset.go", "subset", "subsetStmts")
		e.c13StmtDef(s, kube, "diff", "kubeDiffStmts")
		e.c13StmtDef(s, kube, "EventHandler.notify", "kubeNotifyStmts")
	})
}

// c13OptionalShape: the skeleton of a function that only exists in one form of the code (`[]` when absent).
func c13OptionalShape(e *emitter, s *source, rel, goName, leanName string) {
	if s.findFunc(rel, goName) == nil {
		e.stringList(leanName, "skeleton of `"+goName+"` in "+rel+" (absent)", nil)
		return
	}
	e.shapeDef(s, rel, goName, leanName)
}

// c13Stmts lists the statements of a (small, semantically critical) function in normalised source form:
// one entry per simple statement, control structure as headers/closers; comments, layout and logging dropped.
func c13Stmts(s *source, list []ast.Stmt, out *[]string) {
	for _, st := range list {
		switch x := st.(type) {
		case *ast.BlockStmt:
			c13Stmts(s, x.List, out)
		case *ast.IfStmt:
			hdr := "if "
			if x.Init != nil {
				hdr += s.src(x.Init) + "; "
			}
			*out = append(*out, hdr+s.src(x.Cond)+" {")
			c13Stmts(s, x.Body.List, out)
			*out = append(*out, "}")
			if x.Else != nil {
				*out = append(*out, "else {")
				c13Stmts(s, []ast.Stmt{x.Else}, out)
				*out = append(*out, "}")
			}
		case *ast.RangeStmt:
			hdr := "for "
			if x.Key != nil {
				hdr += s.src(x.Key)
				if x.Value != nil {
					hdr += ", " + s.src(x.Value)
				}
				hdr += " := "
			}
			*out = append(*out, hdr+"range "+s.src(x.X)+" {")
			c13Stmts(s, x.Body.List, out)
			*out = append(*out, "}")
		case *ast.ForStmt:
			hdr := "for"
			if x.Cond != nil {
				hdr += " " + s.src(x.Cond)
			}
			*out = append(*out, hdr+" {")
			c13Stmts(s, x.Body.List, out)
			*out = append(*out, "}")
		default:
			txt := s.src(st)
			if strings.HasPrefix(txt, "logx.") || strings.HasPrefix(txt, "logc.") {
				continue
			}
			*out = append(*out, txt)
		}
	}
}

func (e *emitter) c13StmtDef(s *source, rel, goName, leanName string) {
	fd := s.findFunc(rel, goName)
	if fd == nil {
		e.errors = append(e.errors, fmt.Sprintf("function %s not found in %s", goName, rel))
		e.stringList(leanName, "MISSING: "+goName+" in "+rel, []string{"MISSING"})
		return
	}
	var out []string
	c13Stmts(s, fd.Body.List, &out)
	e.stringList(leanName, "statements of `"+goName+"` in "+rel, out)
}
