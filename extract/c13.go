package main

import (
	"fmt"
	"go/ast"
	"go/token"
	"os"
	"path/filepath"
	"regexp"
	"strconv"
	"strings"
)

func init() {
	register("C13", func(s *source, e *emitter) {
		const sub = "core/discov/subscriber.go"
		const reg = "core/discov/internal/registry.go"
		const res = "zrpc/resolver/internal/"
		const kube = "zrpc/resolver/internal/kube/eventhandler.go"
		e.shapeDef(s, sub, "container.addKv", "addKvShape")
		e.shapeDef(s, sub, "container.doRemoveKey", "doRemoveKeyShape")
		e.shapeDef(s, sub, "container.removeKey", "removeKeyShape")
		e.shapeDef(s, sub, "container.getValues", "getValuesShape")
		e.shapeDef(s, sub, "container.OnAdd", "onAddShape")
		e.shapeDef(s, sub, "container.OnDelete", "onDeleteShape")
		e.shapeDef(s, sub, "container.notifyChange", "notifyChangeShape")
		e.shapeDef(s, reg, "cluster.handleChanges", "handleChangesShape")
		e.shapeDef(s, reg, "cluster.handleWatchEvents", "handleWatchEventsShape")
		e.shapeDef(s, reg, "calculateChanges", "calculateChangesShape")
		e.shapeDef(s, reg, "Registry.Monitor", "monitorShape")
		e.shapeDef(s, reg, "cluster.reload", "reloadShape")
		e.shapeDef(s, reg, "cluster.getCurrent", "getCurrentShape")
		c13OptionalShape(e, s, reg, "cluster.join", "joinShape")
		e.shapeDef(s, res+"subset.go", "subset", "subsetShape")
		e.constDef(s, res+"resolver.go", "subsetSize", "subsetSize")
		e.shapeDef(s, res+"discovbuilder.go", "discovBuilder.Build", "discovBuildShape")
		e.shapeDef(s, kube, "EventHandler.OnAdd", "kubeOnAddShape")
		e.shapeDef(s, kube, "EventHandler.OnDelete", "kubeOnDeleteShape")
		e.shapeDef(s, kube, "EventHandler.OnUpdate", "kubeOnUpdateShape")
		e.shapeDef(s, kube, "EventHandler.Update", "kubeUpdateShape")
		e.shapeDef(s, kube, "EventHandler.notify", "kubeNotifyShape")
		e.shapeDef(s, kube, "diff", "kubeDiffShape")
		// the small functions that decide the property: statement by statement
		e.c13StmtDef(s, sub, "container.addKv", "addKvStmts")
		e.c13StmtDef(s, sub, "container.doRemoveKey", "doRemoveKeyStmts")
		e.c13StmtDef(s, sub, "container.getValues", "getValuesStmts")
		e.c13StmtDef(s, reg, "calculateChanges", "calculateChangesStmts")
		e.c13StmtDef(s, res+"subset.go", "subset", "subsetStmts")
		e.c13StmtDef(s, kube, "diff", "kubeDiffStmts")
		e.c13StmtDef(s, kube, "EventHandler.notify", "kubeNotifyStmts")
		// round 4: publisher, glue functions, constructors / options
		const pub = "core/discov/publisher.go"
		const cli = "core/discov/clients.go"
		e.c13StmtDef(s, pub, "Publisher.register", "registerStmts")
		e.c13StmtDef(s, pub, "Publisher.revoke", "revokeStmts")
		e.c13StmtDef(s, pub, "Publisher.doRegister", "doRegisterStmts")
		e.c13StmtDef(s, pub, "WithId", "withIdStmts")
		e.shapeDef(s, pub, "Publisher.KeepAlive", "keepAliveShape")
		c13QuietShape(e, s, pub, "Publisher.keepAliveAsync", "keepAliveAsyncShape")
		c13QuietShape(e, s, pub, "Publisher.doKeepAlive", "doKeepAliveShape")
		e.c13StmtDef(s, cli, "makeEtcdKey", "makeEtcdKeyStmts")
		e.c13StmtDef(s, reg, "makeKeyPrefix", "makeKeyPrefixStmts")
		e.c13StmtDef(s, reg, "cluster.getCurrent", "getCurrentStmts")
		c13QuietShape(e, s, reg, "cluster.load", "loadShape")
		e.shapeDef(s, reg, "cluster.monitor", "clusterMonitorShape")
		e.c13StmtDef(s, sub, "container.notifyChange", "notifyChangeStmts")
		e.c13StmtDef(s, sub, "container.removeKey", "removeKeyStmts")
		e.c13StmtDef(s, sub, "container.addListener", "addListenerStmts")
		e.c13StmtDef(s, sub, "newContainer", "newContainerStmts")
		e.c13StmtDef(s, sub, "NewSubscriber", "newSubscriberStmts")
		e.c13StmtDef(s, sub, "Exclusive", "exclusiveStmts")
		e.c13StmtDef(s, sub, "Subscriber.Values", "subscriberValuesStmts")
		e.c13StmtDef(s, sub, "Subscriber.AddListener", "subscriberAddListenerStmts")
		e.c13StmtDef(s, res+"discovbuilder.go", "discovBuilder.Build", "discovBuildStmts")
		// the decision-making conditions on the property's path, translated to Lean Bool functions
		t := &translator{registry: map[string]*transFunc{}, consts: map[string]string{}}
		e.c13Cond(t, s, res+"subset.go", "subset", 0, "subsetGuard", "subset: everything is returned")
		e.c13Cond(t, s, pub, "Publisher.register", 1, "registerGuard", "register: the fixed id is the key suffix")
		e.c13Cond(t, s, sub, "container.addKv", 0, "addKvDisplaceGuard", "addKv: the keys listed under the value are displaced")
		e.c13Cond(t, s, sub, "container.addKv", 1, "addKvEarlyGuard", "addKv: result flag")
		e.c13Rhs(t, s, sub, "container.addKv", "early", "addKvEarly", "addKv: some key carries the value already")
		e.c13Cond(t, s, sub, "container.doRemoveKey", 2, "doRemoveKeyKeepGuard", "doRemoveKey: other keys still carry the value")
		e.c13Cond(t, s, sub, "container.doRemoveKey", 1, "doRemoveKeyFilterGuard", "doRemoveKey: a key that stays")
		e.c13Cond(t, s, reg, "calculateChanges", 0, "calcAddGuard", "calculateChanges: a new or changed key is added")
		e.c13Cond(t, s, reg, "calculateChanges", 1, "calcRemoveGuard", "calculateChanges: a key that is gone is removed")
		e.c13Cond(t, s, kube, "diff", 0, "kubeDiffLenGuard", "kube diff: the sizes differ")
		e.c13Cond(t, s, kube, "EventHandler.OnUpdate", 2, "kubeOnUpdateSkipGuard", "kube OnUpdate: nothing new")
		// round 5: derived control-flow facts (not strings of the source)
		e.c13BreakTargets(s, pub, "Publisher.doKeepAlive", "doKeepAliveBreaks")
		e.c13BreakTargets(s, reg, "cluster.load", "loadBreaks")
		e.c13LoopCaptures(s, []string{sub, reg, pub, cli, res + "discovbuilder.go", res + "subset.go", kube}, "loopVarCaptures")
		e.c13GoVersion("goPerIterationLoopVars")
		e.c13StmtDef(s, reg, "cluster.reload", "reloadStmts")
		e.c13StmtDef(s, reg, "Registry.Unmonitor", "unmonitorStmts")
		e.c13StmtDef(s, sub, "Subscriber.Close", "subscriberCloseStmts")
		e.c13StmtDef(s, sub, "WithExactMatch", "withExactMatchStmts")
		e.c13StmtDef(s, reg, "cluster.monitor", "clusterMonitorStmts")
		e.c13StmtDef(s, reg, "cluster.addListener", "clusterAddListenerStmts")
		e.c13StmtDef(s, pub, "NewPublisher", "newPublisherStmts")
		e.c13StmtDef(s, pub, "Publisher.KeepAlive", "keepAliveStmts")
		e.c13Cond(t, s, reg, "cluster.setupWatch", 1, "setupWatchRevGuard", "setupWatch: watch from the revision after the loaded one")
		e.c13AliasFact(s, reg, "cluster.handleWatchEvents", "listeners", "handleWatchEventsListeners")
		e.c13AliasFact(s, reg, "cluster.handleChanges", "listeners", "handleChangesListeners")
		e.c13AliasFact(s, sub, "container.notifyChange", "listeners", "notifyChangeListeners")
		e.c13CallLoopDepth(s, reg, "cluster.load", "WithTimeout", "loadTimeoutLoopDepth")
		e.c13CallLoopDepth(s, reg, "cluster.load", "cancel", "loadCancelLoopDepth")
		e.c13CallLoopDepth(s, reg, "cluster.load", "Get", "loadGetLoopDepth")
		e.c13CallArgs(s, reg, "cluster.load", "WithTimeout", "loadTimeoutArgs")
		e.c13CallArgs(s, reg, "cluster.load", "Get", "loadGetArgs")
		e.c13CallArgs(s, reg, "cluster.setupWatch", "Watch", "setupWatchArgs")
		e.c13CallArgs(s, reg, "cluster.setupWatch", "WithRev", "setupWatchRevArgs")
	})
}

// c13QuietShape: the skeleton without the logging calls and their argument calls.
func c13QuietShape(e *emitter, s *source, rel, goName, leanName string) {
	fd := s.findFunc(rel, goName)
	if fd == nil {
		e.errors = append(e.errors, fmt.Sprintf("function %s not found in %s", goName, rel))
		e.stringList(leanName, "MISSING: "+goName+" in "+rel, []string{"MISSING"})
		return
	}
	var out []string
	for _, l := range s.shape(fd) {
		if strings.HasPrefix(l, "call cli.Ctx") || strings.HasPrefix(l, "call err.Error") || strings.HasPrefix(l, "call logc.") {
			continue
		}
		out = append(out, l)
	}
	e.stringList(leanName, "skeleton (logging dropped) of `"+goName+"` in "+rel, out)
}

// c13Conds lists the conditions of the if statements of a function in source order.
func c13Conds(fd *ast.FuncDecl) []ast.Expr {
	var out []ast.Expr
	ast.Inspect(fd.Body, func(n ast.Node) bool {
		if is, ok := n.(*ast.IfStmt); ok {
			out = append(out, is.Cond)
		}
		return true
	})
	return out
}

// c13Cond translates the n-th if condition of the function into `def leanName … : Bool` (free variables become
// parameters in the order of their first use; `len(x)` becomes the Int parameter len_x).
func (e *emitter) c13Cond(t *translator, s *source, rel, goName string, n int, leanName, doc string) {
	fd := s.findFunc(rel, goName)
	if fd == nil {
		e.errors = append(e.errors, fmt.Sprintf("function %s not found in %s", goName, rel))
		e.printf("/-- MISSING %s -/\ndef %s : Unit := ()\n\n", goName, leanName)
		return
	}
	conds := c13Conds(fd)
	if n >= len(conds) {
		e.errors = append(e.errors, fmt.Sprintf("%s in %s has no if #%d", goName, rel, n))
		e.printf("/-- MISSING if #%d of %s -/\ndef %s : Unit := ()\n\n", n, goName, leanName)
		return
	}
	e.c12Guard(t, s, leanName, doc, nil, conds[n])
}

// c13Rhs translates the right-hand side of the first `name := expr` of the function.
func (e *emitter) c13Rhs(t *translator, s *source, rel, goName, name, leanName, doc string) {
	fd := s.findFunc(rel, goName)
	var rhs ast.Expr
	if fd != nil {
		ast.Inspect(fd.Body, func(n ast.Node) bool {
			if as, ok := n.(*ast.AssignStmt); ok && rhs == nil && len(as.Lhs) == 1 && len(as.Rhs) == 1 {
				if id, ok := as.Lhs[0].(*ast.Ident); ok && id.Name == name {
					rhs = as.Rhs[0]
				}
			}
			return true
		})
	}
	if rhs == nil {
		e.errors = append(e.errors, fmt.Sprintf("%s: no assignment to %s in %s", goName, name, rel))
		e.printf("/-- MISSING %s in %s -/\ndef %s : Unit := ()\n\n", name, goName, leanName)
		return
	}
	e.c12Guard(t, s, leanName, doc, nil, rhs)
}

// c13OptionalShape: the skeleton of a function that only exists in one form of the code (`[]` when absent).
func c13OptionalShape(e *emitter, s *source, rel, goName, leanName string) {
	if s.findFunc(rel, goName) == nil {
		e.stringList(leanName, "skeleton of `"+goName+"` in "+rel+" (absent)", nil)
		return
	}
	e.shapeDef(s, rel, goName, leanName)
}

// c13Stmts lists the statements of a (small, semantically critical) function in normalised source form:
// one entry per simple statement, control structure as headers/closers; comments, layout and logging dropped.
func c13Stmts(s *source, list []ast.Stmt, out *[]string) {
	for _, st := range list {
		switch x := st.(type) {
		case *ast.BlockStmt:
			c13Stmts(s, x.List, out)
		case *ast.IfStmt:
			hdr := "if "
			if x.Init != nil {
				hdr += s.src(x.Init) + "; "
			}
			*out = append(*out, hdr+s.src(x.Cond)+" {")
			c13Stmts(s, x.Body.List, out)
			*out = append(*out, "}")
			if x.Else != nil {
				*out = append(*out, "else {")
				c13Stmts(s, []ast.Stmt{x.Else}, out)
				*out = append(*out, "}")
			}
		case *ast.RangeStmt:
			hdr := "for "
			if x.Key != nil {
				hdr += s.src(x.Key)
				if x.Value != nil {
					hdr += ", " + s.src(x.Value)
				}
				hdr += " := "
			}
			*out = append(*out, hdr+"range "+s.src(x.X)+" {")
			c13Stmts(s, x.Body.List, out)
			*out = append(*out, "}")
		case *ast.ForStmt:
			hdr := "for"
			if x.Cond != nil {
				hdr += " " + s.src(x.Cond)
			}
			*out = append(*out, hdr+" {")
			c13Stmts(s, x.Body.List, out)
			*out = append(*out, "}")
		default:
			txt := s.src(st)
			if strings.HasPrefix(txt, "logx.") || strings.HasPrefix(txt, "logc.") {
				continue
			}
			*out = append(*out, txt)
		}
	}
}

func (e *emitter) c13StmtDef(s *source, rel, goName, leanName string) {
	fd := s.findFunc(rel, goName)
	if fd == nil {
		e.errors = append(e.errors, fmt.Sprintf("function %s not found in %s", goName, rel))
		e.stringList(leanName, "MISSING: "+goName+" in "+rel, []string{"MISSING"})
		return
	}
	var out []string
	c13Stmts(s, fd.Body.List, &out)
	e.stringList(leanName, "statements of `"+goName+"` in "+rel, out)
}

// c13BreakTargets: for every unlabelled `break` of the function, the kind of statement it leaves
// (the innermost enclosing for / range / select / switch), in source order.
func (e *emitter) c13BreakTargets(s *source, rel, goName, leanName string) {
	fd := s.findFunc(rel, goName)
	if fd == nil {
		e.errors = append(e.errors, fmt.Sprintf("function %s not found in %s", goName, rel))
		e.stringList(leanName, "MISSING: "+goName+" in "+rel, []string{"MISSING"})
		return
	}
	var out []string
	var walk func(n ast.Node, encl string)
	walkList := func(list []ast.Stmt, encl string) {
		for _, st := range list {
			walk(st, encl)
		}
	}
	walk = func(n ast.Node, encl string) {
		switch x := n.(type) {
		case nil:
		case *ast.BranchStmt:
			if x.Tok == token.BREAK {
				if x.Label != nil {
					out = append(out, "label "+x.Label.Name)
				} else {
					out = append(out, encl)
				}
			}
		case *ast.BlockStmt:
			walkList(x.List, encl)
		case *ast.IfStmt:
			walk(x.Body, encl)
			if x.Else != nil {
				walk(x.Else, encl)
			}
		case *ast.ForStmt:
			walk(x.Body, "for")
		case *ast.RangeStmt:
			walk(x.Body, "for")
		case *ast.SelectStmt:
			walk(x.Body, "select")
		case *ast.SwitchStmt:
			walk(x.Body, "switch")
		case *ast.TypeSwitchStmt:
			walk(x.Body, "switch")
		case *ast.CommClause:
			walkList(x.Body, encl)
		case *ast.CaseClause:
			walkList(x.Body, encl)
		case *ast.LabeledStmt:
			walk(x.Stmt, encl)
		}
	}
	walk(fd.Body, "none")
	e.stringList(leanName, "what each `break` of `"+goName+"` in "+rel+" leaves", out)
}

// c13LoopCaptures: every function literal inside a `for … :=` / `for … := range` loop of the given files that uses the
// loop's own variable (`<function>: <variable>`).  With a go.mod below 1.22 that variable is shared by all iterations:
// a closure that runs after the loop has advanced (a goroutine) sees the last element.
func (e *emitter) c13LoopCaptures(s *source, rels []string, leanName string) {
	var out []string
	for _, rel := range rels {
		f := s.file(rel)
		if f == nil {
			continue
		}
		for _, d := range f.Decls {
			fd, ok := d.(*ast.FuncDecl)
			if !ok || fd.Body == nil {
				continue
			}
			name := fd.Name.Name
			if fd.Recv != nil && len(fd.Recv.List) == 1 {
				t := fd.Recv.List[0].Type
				if st, ok := t.(*ast.StarExpr); ok {
					t = st.X
				}
				if id, ok := t.(*ast.Ident); ok {
					name = id.Name + "." + name
				}
			}
			ast.Inspect(fd.Body, func(n ast.Node) bool {
				var vars []string
				var body *ast.BlockStmt
				switch x := n.(type) {
				case *ast.RangeStmt:
					if x.Tok == token.DEFINE {
						for _, v := range []ast.Expr{x.Key, x.Value} {
							if id, ok := v.(*ast.Ident); ok && id.Name != "_" {
								vars = append(vars, id.Name)
							}
						}
					}
					body = x.Body
				case *ast.ForStmt:
					if as, ok := x.Init.(*ast.AssignStmt); ok && as.Tok == token.DEFINE {
						for _, v := range as.Lhs {
							if id, ok := v.(*ast.Ident); ok && id.Name != "_" {
								vars = append(vars, id.Name)
							}
						}
					}
					body = x.Body
				}
				if body == nil || len(vars) == 0 {
					return true
				}
				ast.Inspect(body, func(m ast.Node) bool {
					fl, ok := m.(*ast.FuncLit)
					if !ok {
						return true
					}
					for _, v := range vars {
						if c13UsesFree(fl, v) {
							out = append(out, name+": "+v)
						}
					}
					return false
				})
				return true
			})
		}
	}
	e.stringList(leanName, "function literals inside a loop that use the loop variable itself", out)
}

// c13UsesFree: the function literal mentions the identifier and neither declares it as a parameter nor with `:=` / var.
func c13UsesFree(fl *ast.FuncLit, name string) bool {
	declared, used := false, false
	if fl.Type.Params != nil {
		for _, fld := range fl.Type.Params.List {
			for _, id := range fld.Names {
				if id.Name == name {
					declared = true
				}
			}
		}
	}
	ast.Inspect(fl.Body, func(n ast.Node) bool {
		switch x := n.(type) {
		case *ast.AssignStmt:
			if x.Tok == token.DEFINE {
				for _, l := range x.Lhs {
					if id, ok := l.(*ast.Ident); ok && id.Name == name {
						declared = true
					}
				}
			}
		case *ast.SelectorExpr:
			// x.name: only the operand can be the variable
			ast.Inspect(x.X, func(m ast.Node) bool {
				if id, ok := m.(*ast.Ident); ok && id.Name == name {
					used = true
				}
				return true
			})
			return false
		case *ast.KeyValueExpr:
			ast.Inspect(x.Value, func(m ast.Node) bool {
				if id, ok := m.(*ast.Ident); ok && id.Name == name {
					used = true
				}
				return true
			})
			return false
		case *ast.Ident:
			if x.Name == name {
				used = true
			}
		}
		return true
	})
	return used && !declared
}

// c13GoVersion: does the module's go.mod select per-iteration loop variables (go >= 1.22)?
func (e *emitter) c13GoVersion(leanName string) {
	b, err := os.ReadFile(filepath.Join(*repo, "go.mod"))
	if err != nil {
		e.errors = append(e.errors, "go.mod not readable")
		e.printf("def %s : Bool := false\n\n", leanName)
		return
	}
	m := regexp.MustCompile(`(?m)^go (\d+)\.(\d+)`).FindStringSubmatch(string(b))
	per := false
	if m != nil {
		maj, _ := strconv.Atoi(m[1])
		min, _ := strconv.Atoi(m[2])
		per = maj > 1 || (maj == 1 && min >= 22)
	} else {
		e.errors = append(e.errors, "go.mod has no go directive")
	}
	e.printf("/-- go.mod of the tree selects per-iteration loop variables (go >= 1.22) -/\ndef %s : Bool := %v\n\n", leanName, per)
}

// c13CallArgs: the argument lists (source text) of every call of the named method / function inside the function.
func (e *emitter) c13CallArgs(s *source, rel, goName, callee, leanName string) {
	fd := s.findFunc(rel, goName)
	if fd == nil {
		e.errors = append(e.errors, fmt.Sprintf("function %s not found in %s", goName, rel))
		e.stringList(leanName, "MISSING: "+goName+" in "+rel, []string{"MISSING"})
		return
	}
	var out []string
	ast.Inspect(fd.Body, func(n ast.Node) bool {
		c, ok := n.(*ast.CallExpr)
		if !ok {
			return true
		}
		nm := ""
		switch f := c.Fun.(type) {
		case *ast.SelectorExpr:
			nm = f.Sel.Name
		case *ast.Ident:
			nm = f.Name
		}
		if nm == callee {
			var args []string
			for _, a := range c.Args {
				args = append(args, s.src(a))
			}
			if c.Ellipsis.IsValid() {
				args[len(args)-1] += "..."
			}
			out = append(out, strings.Join(args, " | "))
		}
		return true
	})
	e.stringList(leanName, "arguments of the `"+callee+"` calls of `"+goName+"` in "+rel, out)
}

// c13CallLoopDepth: for every call of the named function / method inside the function (source order), the number of
// for / range loops around it (`defer f()` counts as a call at the depth of the defer statement, marked `defer`).
func (e *emitter) c13CallLoopDepth(s *source, rel, goName, callee, leanName string) {
	fd := s.findFunc(rel, goName)
	if fd == nil {
		e.errors = append(e.errors, fmt.Sprintf("function %s not found in %s", goName, rel))
		e.stringList(leanName, "MISSING: "+goName+" in "+rel, []string{"MISSING"})
		return
	}
	var out []string
	var walk func(n ast.Node, depth int, deferred bool)
	walk = func(n ast.Node, depth int, deferred bool) {
		if n == nil {
			return
		}
		ast.Inspect(n, func(m ast.Node) bool {
			switch x := m.(type) {
			case *ast.ForStmt:
				if x.Init != nil {
					walk(x.Init, depth, deferred)
				}
				if x.Cond != nil {
					walk(x.Cond, depth+1, deferred)
				}
				if x.Post != nil {
					walk(x.Post, depth+1, deferred)
				}
				walk(x.Body, depth+1, deferred)
				return false
			case *ast.RangeStmt:
				walk(x.X, depth, deferred)
				walk(x.Body, depth+1, deferred)
				return false
			case *ast.DeferStmt:
				walk(x.Call, depth, true)
				return false
			case *ast.FuncLit:
				return false
			case *ast.CallExpr:
				nm := ""
				switch f := x.Fun.(type) {
				case *ast.SelectorExpr:
					nm = f.Sel.Name
				case *ast.Ident:
					nm = f.Name
				}
				if nm == callee {
					t := strconv.Itoa(depth)
					if deferred {
						t = "defer " + t
					}
					out = append(out, t)
				}
			}
			return true
		})
	}
	walk(fd.Body, 0, false)
	e.stringList(leanName, "loop depth of the `"+callee+"` calls of `"+goName+"` in "+rel, out)
}

// c13AliasFact: how the named local variable of the function is defined (first `name := expr`):
// `copy of <x>` for `append(<nil slice conversion>, x...)`, `alias of <expr>` for anything else, and what the
// `for … range` loops over the variable are (`range <name>`).
func (e *emitter) c13AliasFact(s *source, rel, goName, name, leanName string) {
	fd := s.findFunc(rel, goName)
	if fd == nil {
		e.errors = append(e.errors, fmt.Sprintf("function %s not found in %s", goName, rel))
		e.stringList(leanName, "MISSING: "+goName+" in "+rel, []string{"MISSING"})
		return
	}
	var out []string
	ast.Inspect(fd.Body, func(n ast.Node) bool {
		switch x := n.(type) {
		case *ast.AssignStmt:
			if len(x.Lhs) == 1 && len(x.Rhs) == 1 {
				if id, ok := x.Lhs[0].(*ast.Ident); ok && id.Name == name {
					fact := "alias of " + s.src(x.Rhs[0])
					if c, ok := x.Rhs[0].(*ast.CallExpr); ok && c.Ellipsis.IsValid() && len(c.Args) == 2 {
						if f, ok := c.Fun.(*ast.Ident); ok && f.Name == "append" {
							if conv, ok := c.Args[0].(*ast.CallExpr); ok && len(conv.Args) == 1 {
								if nl, ok := conv.Args[0].(*ast.Ident); ok && nl.Name == "nil" {
									fact = "copy of " + s.src(c.Args[1])
								}
							}
						}
					}
					out = append(out, fact)
				}
			}
		case *ast.RangeStmt:
			if id, ok := x.X.(*ast.Ident); ok && id.Name == name {
				out = append(out, "range "+name)
			}
		}
		return true
	})
	e.stringList(leanName, "definition and use of `"+name+"` in `"+goName+"` ("+rel+")", out)
}
