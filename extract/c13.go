package main

import (
	"fmt"
	"go/ast"
	"strings"
)

func init() {
	register("C13", func(s *source, e *emitter) {
		const sub = "core/discov/subscriber.go"
		const reg = "core/discov/internal/registry.go"
		const res = "zrpc/resolver/internal/"
		const kube = "zrpc/resolver/internal/kube/eventhandler.go"
		e.shapeDef(s, sub, "container.addKv", "addKvShape")
		e.shapeDef(s, sub, "container.doRemoveKey", "doRemoveKeyShape")
		e.shapeDef(s, sub, "container.removeKey", "removeKeyShape")
		e.shapeDef(s, sub, "container.getValues", "getValuesShape")
		e.shapeDef(s, sub, "container.OnAdd", "onAddShape")
		e.shapeDef(s, sub, "container.OnDelete", "onDeleteShape")
		e.shapeDef(s, sub, "container.notifyChange", "notifyChangeShape")
		e.shapeDef(s, reg, "cluster.handleChanges", "handleChangesShape")
		e.shapeDef(s, reg, "cluster.handleWatchEvents", "handleWatchEventsShape")
		e.shapeDef(s, reg, "calculateChanges", "calculateChangesShape")
		e.shapeDef(s, reg, "Registry.Monitor", "monitorShape")
		e.shapeDef(s, reg, "cluster.reload", "reloadShape")
		e.shapeDef(s, reg, "cluster.getCurrent", "getCurrentShape")
		c13OptionalShape(e, s, reg, "cluster.join", "joinShape")
		e.shapeDef(s, res+"subset.go", "subset", "subsetShape")
		e.constDef(s, res+"resolver.go", "subsetSize", "subsetSize")
		e.shapeDef(s, res+"discovbuilder.go", "discovBuilder.Build", "discovBuildShape")
		e.shapeDef(s, kube, "EventHandler.OnAdd", "kubeOnAddShape")
		e.shapeDef(s, kube, "EventHandler.OnDelete", "kubeOnDeleteShape")
		e.shapeDef(s, kube, "EventHandler.OnUpdate", "kubeOnUpdateShape")
		e.shapeDef(s, kube, "EventHandler.Update", "kubeUpdateShape")
		e.shapeDef(s, kube, "EventHandler.notify", "kubeNotifyShape")
		e.shapeDef(s, kube, "diff", "kubeDiffShape")
		// the small functions that decide the property: statement by statement
		e.c13StmtDef(s, sub, "container.addKv", "addKvStmts")
		e.c13StmtDef(s, sub, "container.doRemoveKey", "doRemoveKeyStmts")
		e.c13StmtDef(s, sub, "container.getValues", "getValuesStmts")
		e.c13StmtDef(s, reg, "calculateChanges", "calculateChangesStmts")
		e.c13StmtDef(s, res+"subset.go", "subset", "subsetStmts")
		e.c13StmtDef(s, kube, "diff", "kubeDiffStmts")
		e.c13StmtDef(s, kube, "EventHandler.notify", "kubeNotifyStmts")
		// round 4: publisher, glue functions, constructors / options
		const pub = "core/discov/publisher.go"
		const cli = "core/discov/clients.go"
		e.c13StmtDef(s, pub, "Publisher.register", "registerStmts")
		e.c13StmtDef(s, pub, "Publisher.revoke", "revokeStmts")
		e.c13StmtDef(s, pub, "Publisher.doRegister", "doRegisterStmts")
		e.c13StmtDef(s, pub, "WithId", "withIdStmts")
		e.shapeDef(s, pub, "Publisher.KeepAlive", "keepAliveShape")
		c13QuietShape(e, s, pub, "Publisher.keepAliveAsync", "keepAliveAsyncShape")
		c13QuietShape(e, s, pub, "Publisher.doKeepAlive", "doKeepAliveShape")
		e.c13StmtDef(s, cli, "makeEtcdKey", "makeEtcdKeyStmts")
		e.c13StmtDef(s, reg, "makeKeyPrefix", "makeKeyPrefixStmts")
		e.c13StmtDef(s, reg, "cluster.getCurrent", "getCurrentStmts")
		c13QuietShape(e, s, reg, "cluster.load", "loadShape")
		e.shapeDef(s, reg, "cluster.monitor", "clusterMonitorShape")
		e.c13StmtDef(s, sub, "container.notifyChange", "notifyChangeStmts")
		e.c13StmtDef(s, sub, "container.removeKey", "removeKeyStmts")
		e.c13StmtDef(s, sub, "container.addListener", "addListenerStmts")
		e.c13StmtDef(s, sub, "newContainer", "newContainerStmts")
		e.c13StmtDef(s, sub, "NewSubscriber", "newSubscriberStmts")
		e.c13StmtDef(s, sub, "Exclusive", "exclusiveStmts")
		e.c13StmtDef(s, sub, "Subscriber.Values", "subscriberValuesStmts")
		e.c13StmtDef(s, sub, "Subscriber.AddListener", "subscriberAddListenerStmts")
		e.c13StmtDef(s, res+"discovbuilder.go", "discovBuilder.Build", "discovBuildStmts")
		// the decision-making conditions on the property's path, translated to Lean Bool functions
		t := &translator{registry: map[string]*transFunc{}, consts: map[string]string{}}
		e.c13Cond(t, s, res+"subset.go", "subset", 0, "subsetGuard", "subset: everything is returned")
		e.c13Cond(t, s, pub, "Publisher.register", 1, "registerGuard", "register: the fixed id is the key suffix")
		e.c13Cond(t, s, sub, "container.addKv", 0, "addKvDisplaceGuard", "addKv: the keys listed under the value are displaced")
		e.c13Cond(t, s, sub, "container.addKv", 1, "addKvEarlyGuard", "addKv: result flag")
		e.c13Rhs(t, s, sub, "container.addKv", "early", "addKvEarly", "addKv: some key carries the value already")
		e.c13Cond(t, s, sub, "container.doRemoveKey", 2, "doRemoveKeyKeepGuard", "doRemoveKey: other keys still carry the value")
		e.c13Cond(t, s, sub, "container.doRemoveKey", 1, "doRemoveKeyFilterGuard", "doRemoveKey: a key that stays")
		e.c13Cond(t, s, reg, "calculateChanges", 0, "calcAddGuard", "calculateChanges: a new or changed key is added")
		e.c13Cond(t, s, reg, "calculateChanges", 1, "calcRemoveGuard", "calculateChanges: a key that is gone is removed")
		e.c13Cond(t, s, kube, "diff", 0, "kubeDiffLenGuard", "kube diff: the sizes differ")
		e.c13Cond(t, s, kube, "EventHandler.OnUpdate", 2, "kubeOnUpdateSkipGuard", "kube OnUpdate: nothing new")
	})
}

// c13QuietShape: the skeleton without the logging calls and their argument calls.
func c13QuietShape(e *emitter, s *source, rel, goName, leanName string) {
	fd := s.findFunc(rel, goName)
	if fd == nil {
		e.errors = append(e.errors, fmt.Sprintf("function %s not found in %s", goName, rel))
		e.stringList(leanName, "MISSING: "+goName+" in "+rel, []string{"MISSING"})
		return
	}
	var out []string
	for _, l := range s.shape(fd) {
		if strings.HasPrefix(l, "call cli.Ctx") || strings.HasPrefix(l, "call err.Error") || strings.HasPrefix(l, "call logc.") {
			continue
		}
		out = append(out, l)
	}
	e.stringList(leanName, "skeleton (logging dropped) of `"+goName+"` in "+rel, out)
}

// c13Conds lists the conditions of the if statements of a function in source order.
func c13Conds(fd *ast.FuncDecl) []ast.Expr {
	var out []ast.Expr
	ast.Inspect(fd.Body, func(n ast.Node) bool {
		if is, ok := n.(*ast.IfStmt); ok {
			out = append(out, is.Cond)
		}
		return true
	})
	return out
}

// c13Cond translates the n-th if condition of the function into `def leanName … : Bool` (free variables become
// parameters in the order of their first use; `len(x)` becomes the Int parameter len_x).
func (e *emitter) c13Cond(t *translator, s *source, rel, goName string, n int, leanName, doc string) {
	fd := s.findFunc(rel, goName)
	if fd == nil {
		e.errors = append(e.errors, fmt.Sprintf("function %s not found in %s", goName, rel))
		e.printf("/-- MISSING %s -/\ndef %s : Unit := ()\n\n", goName, leanName)
		return
	}
	conds := c13Conds(fd)
	if n >= len(conds) {
		e.errors = append(e.errors, fmt.Sprintf("%s in %s has no if #%d", goName, rel, n))
		e.printf("/-- MISSING if #%d of %s -/\ndef %s : Unit := ()\n\n", n, goName, leanName)
		return
	}
	e.c12Guard(t, s, leanName, doc, nil, conds[n])
}

// c13Rhs translates the right-hand side of the first `name := expr` of the function.
func (e *emitter) c13Rhs(t *translator, s *source, rel, goName, name, leanName, doc string) {
	fd := s.findFunc(rel, goName)
	var rhs ast.Expr
	if fd != nil {
		ast.Inspect(fd.Body, func(n ast.Node) bool {
			if as, ok := n.(*ast.AssignStmt); ok && rhs == nil && len(as.Lhs) == 1 && len(as.Rhs) == 1 {
				if id, ok := as.Lhs[0].(*ast.Ident); ok && id.Name == name {
					rhs = as.Rhs[0]
				}
			}
			return true
		})
	}
	if rhs == nil {
		e.errors = append(e.errors, fmt.Sprintf("%s: no assignment to %s in %s", goName, name, rel))
		e.printf("/-- MISSING %s in %s -/\ndef %s : Unit := ()\n\n", name, goName, leanName)
		return
	}
	e.c12Guard(t, s, leanName, doc, nil, rhs)
}

// c13OptionalShape: the skeleton of a function that only exists in one form of the code (`[]` when absent).
func c13OptionalShape(e *emitter, s *source, rel, goName, leanName string) {
	if s.findFunc(rel, goName) == nil {
		e.stringList(leanName, "skeleton of `"+goName+"` in "+rel+" (absent)", nil)
		return
	}
	e.shapeDef(s, rel, goName, leanName)
}

// c13Stmts lists the statements of a (small, semantically critical) function in normalised source form:
// one entry per simple statement, control structure as headers/closers; comments, layout and logging dropped.
func c13Stmts(s *source, list []ast.Stmt, out *[]string) {
	for _, st := range list {
		switch x := st.(type) {
		case *ast.BlockStmt:
			c13Stmts(s, x.List, out)
		case *ast.IfStmt:
			hdr := "if "
			if x.Init != nil {
				hdr += s.src(x.Init) + "; "
			}
			*out = append(*out, hdr+s.src(x.Cond)+" {")
			c13Stmts(s, x.Body.List, out)
			*out = append(*out, "}")
			if x.Else != nil {
				*out = append(*out, "else {")
				c13Stmts(s, []ast.Stmt{x.Else}, out)
				*out = append(*out, "}")
			}
		case *ast.RangeStmt:
			hdr := "for "
			if x.Key != nil {
				hdr += s.src(x.Key)
				if x.Value != nil {
					hdr += ", " + s.src(x.Value)
				}
				hdr += " := "
			}
			*out = append(*out, hdr+"range "+s.src(x.X)+" {")
			c13Stmts(s, x.Body.List, out)
			*out = append(*out, "}")
		case *ast.ForStmt:
			hdr := "for"
			if x.Cond != nil {
				hdr += " " + s.src(x.Cond)
			}
			*out = append(*out, hdr+" {")
			c13Stmts(s, x.Body.List, out)
			*out = append(*out, "}")
		default:
			txt := s.src(st)
			if strings.HasPrefix(txt, "logx.") || strings.HasPrefix(txt, "logc.") {
				continue
			}
			*out = append(*out, txt)
		}
	}
}

func (e *emitter) c13StmtDef(s *source, rel, goName, leanName string) {
	fd := s.findFunc(rel, goName)
	if fd == nil {
		e.errors = append(e.errors, fmt.Sprintf("function %s not found in %s", goName, rel))
		e.stringList(leanName, "MISSING: "+goName+" in "+rel, []string{"MISSING"})
		return
	}
	var out []string
	c13Stmts(s, fd.Body.List, &out)
	e.stringList(leanName, "statements of `"+goName+"` in "+rel, out)
}
