package main

func init() {
	register("C13", func(s *source, e *emitter) {
		const sub = "core/discov/subscriber.go"
		const reg = "core/discov/internal/registry.go"
		const res = "zrpc/resolver/internal/"
		const kube = "zrpc/resolver/internal/kube/eventhandler.go"
		e.shapeDef(s, sub, "container.addKv", "addKvShape")
		e.shapeDef(s, sub, "container.doRemoveKey", "doRemoveKeyShape")
		e.shapeDef(s, sub, "container.removeKey", "removeKeyShape")
		e.shapeDef(s, sub, "container.getValues", "getValuesShape")
		e.shapeDef(s, sub, "container.OnAdd", "onAddShape")
		e.shapeDef(s, sub, "container.OnDelete", "onDeleteShape")
		e.shapeDef(s, sub, "container.notifyChange", "notifyChangeShape")
		e.shapeDef(s, reg, "cluster.handleChanges", "handleChangesShape")
		e.shapeDef(s, reg, "cluster.handleWatchEvents", "handleWatchEventsShape")
		e.shapeDef(s, reg, "calculateChanges", "calculateChangesShape")
		e.shapeDef(s, res+"subset.go", "subset", "subsetShape")
		e.constDef(s, res+"resolver.go", "subsetSize", "subsetSize")
		e.shapeDef(s, res+"discovbuilder.go", "discovBuilder.Build", "discovBuildShape")
		e.shapeDef(s, kube, "EventHandler.OnAdd", "kubeOnAddShape")
		e.shapeDef(s, kube, "EventHandler.OnDelete", "kubeOnDeleteShape")
		e.shapeDef(s, kube, "EventHandler.OnUpdate", "kubeOnUpdateShape")
		e.shapeDef(s, kube, "EventHandler.Update", "kubeUpdateShape")
		e.shapeDef(s, kube, "EventHandler.notify", "kubeNotifyShape")
		e.shapeDef(s, kube, "diff", "kubeDiffShape")
	})
}
