package main

import (
	"go/ast"
	"strings"
)

// c09Detail prints every statement of a (small) function, one normalised source line per simple statement
// and structured headers for compound ones; function literals are expanded in place.  Used for the tiny
// decision functions of core/search/tree.go, where every token carries meaning for C09.
func c09Detail(s *source, fd *ast.FuncDecl) []string {
	var out []string
	var block func(list []ast.Stmt)
	var stmt func(st ast.Stmt)
	// expression source with function literals replaced by `func#k`, their bodies emitted afterwards
	expr := func(e ast.Node) string {
		var lits []*ast.FuncLit
		ast.Inspect(e, func(n ast.Node) bool {
			if fl, ok := n.(*ast.FuncLit); ok {
				lits = append(lits, fl)
				return false
			}
			return true
		})
		src := s.src(e)
		for _, fl := range lits {
			src = strings.Replace(src, s.src(fl), "func"+s.src(fl.Type)[4:]+"{...}", 1)
		}
		out = append(out, src)
		for _, fl := range lits {
			out = append(out, "func{")
			block(fl.Body.List)
			out = append(out, "}")
		}
		return src
	}
	stmt = func(st ast.Stmt) {
		switch x := st.(type) {
		case *ast.IfStmt:
			hdr := "if "
			if x.Init != nil {
				hdr += s.src(x.Init) + "; "
			}
			out = append(out, hdr+s.src(x.Cond)+" {")
			block(x.Body.List)
			out = append(out, "}")
			if x.Else != nil {
				out = append(out, "else{")
				stmt(x.Else)
				out = append(out, "}")
			}
		case *ast.BlockStmt:
			block(x.List)
		case *ast.RangeStmt:
			hdr := "range "
			if x.Key != nil {
				hdr += s.src(x.Key)
			}
			if x.Value != nil {
				hdr += ", " + s.src(x.Value)
			}
			out = append(out, hdr+" := "+s.src(x.X)+" {")
			block(x.Body.List)
			out = append(out, "}")
		case *ast.ForStmt:
			hdr := "for"
			if x.Cond != nil {
				hdr += " " + s.src(x.Cond)
			}
			out = append(out, hdr+" {")
			block(x.Body.List)
			out = append(out, "}")
		case *ast.SwitchStmt:
			hdr := "switch"
			if x.Tag != nil {
				hdr += " " + s.src(x.Tag)
			}
			out = append(out, hdr+" {")
			for _, c := range x.Body.List {
				cc := c.(*ast.CaseClause)
				if cc.List == nil {
					out = append(out, "default:")
				} else {
					var cs []string
					for _, e := range cc.List {
						cs = append(cs, s.src(e))
					}
					out = append(out, "case "+strings.Join(cs, ", ")+":")
				}
				block(cc.Body)
			}
			out = append(out, "}")
		default:
			expr(st)
		}
	}
	block = func(list []ast.Stmt) {
		for _, st := range list {
			stmt(st)
		}
	}
	block(fd.Body.List)
	return out
}

func (e *emitter) c09DetailDef(s *source, rel, goName, leanName string) {
	fd := s.findFunc(rel, goName)
	if fd == nil {
		e.errors = append(e.errors, "function "+goName+" not found in "+rel)
		e.stringList(leanName, "MISSING: "+goName+" in "+rel, []string{"MISSING"})
		return
	}
	e.stringList(leanName, "statements of `"+goName+"` in "+rel, c09Detail(s, fd))
}

// c09Methods lists the `http.MethodXxx` selectors compared in validMethod, in source order.
func c09Methods(s *source, fd *ast.FuncDecl) []string {
	var out []string
	ast.Inspect(fd.Body, func(n ast.Node) bool {
		if be, ok := n.(*ast.BinaryExpr); ok && be.Op.String() == "==" {
			out = append(out, s.src(be.X)+" == "+s.src(be.Y))
			return false
		}
		return true
	})
	return out
}

func init() {
	register("C09", func(s *source, e *emitter) {
		const tree = "core/search/tree.go"
		const pat = "rest/router/patrouter.go"
		e.constDef(s, tree, "colon", "colon")
		e.constDef(s, tree, "slash", "slash")
		e.constDef(s, pat, "allowHeader", "allowHeader")
		e.constDef(s, pat, "allowMethodSeparator", "allowMethodSeparator")
		// the search tree: every statement
		e.c09DetailDef(s, tree, "Tree.next", "nextStmts")
		e.c09DetailDef(s, tree, "add", "addStmts")
		e.c09DetailDef(s, tree, "node.forEach", "forEachStmts")
		e.c09DetailDef(s, tree, "node.getChildren", "getChildrenStmts")
		e.c09DetailDef(s, tree, "match", "matchStmts")
		e.c09DetailDef(s, tree, "addParam", "addParamStmts")
		e.c09DetailDef(s, tree, "Tree.Search", "treeSearchStmts")
		e.c09DetailDef(s, tree, "Tree.Add", "treeAddStmts")
		e.c09DetailDef(s, tree, "newNode", "newNodeStmts")
		// the router: decision skeletons
		e.c09DetailDef(s, pat, "patRouter.Handle", "handleStmts")
		e.c09DetailDef(s, pat, "patRouter.ServeHTTP", "serveStmts")
		e.c09DetailDef(s, pat, "patRouter.handleNotFound", "handleNotFoundStmts")
		e.c09DetailDef(s, pat, "patRouter.methodsAllowed", "methodsAllowedStmts")
		e.c09DetailDef(s, pat, "patRouter.SetNotFoundHandler", "setNotFoundStmts")
		e.c09DetailDef(s, pat, "patRouter.SetNotAllowedHandler", "setNotAllowedStmts")
		e.c09DetailDef(s, pat, "NewRouter", "newRouterStmts")
		// path variables through the request context
		const pv = "rest/pathvar/params.go"
		e.c09DetailDef(s, pv, "Vars", "pathvarVarsStmts")
		e.c09DetailDef(s, pv, "WithVars", "pathvarWithVarsStmts")
		// rest.Server / engine wiring on the path of the property
		const eng = "rest/engine.go"
		const srv = "rest/server.go"
		e.c09DetailDef(s, eng, "engine.addRoutes", "engineAddRoutesStmts")
		e.c09DetailDef(s, eng, "engine.bindRoutes", "engineBindRoutesStmts")
		e.c09DetailDef(s, eng, "engine.bindFeaturedRoutes", "engineBindFeaturedStmts")
		e.c09DetailDef(s, eng, "engine.bindRoute", "engineBindRouteStmts")
		e.c09DetailDef(s, eng, "engine.notFoundHandler", "engineNotFoundStmts")
		e.c09DetailDef(s, srv, "NewServer", "newServerStmts")
		e.c09DetailDef(s, srv, "Server.AddRoutes", "serverAddRoutesStmts")
		e.c09DetailDef(s, srv, "Server.Routes", "serverRoutesStmts")
		e.c09DetailDef(s, srv, "WithPrefix", "withPrefixStmts")
		e.c09DetailDef(s, srv, "WithNotFoundHandler", "withNotFoundStmts")
		e.c09DetailDef(s, srv, "WithNotAllowedHandler", "withNotAllowedStmts")
		if fd := s.findFunc(pat, "validMethod"); fd != nil {
			e.stringList("validMethodTests", "comparisons of `validMethod` in "+pat, c09Methods(s, fd))
			e.c09DetailDef(s, pat, "validMethod", "validMethodStmts")
		} else {
			e.errors = append(e.errors, "function validMethod not found in "+pat)
			e.stringList("validMethodTests", "MISSING", []string{"MISSING"})
		}
	})
}
