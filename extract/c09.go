package main

func init() {
	register("C09", func(s *source, e *emitter) {
		const tree = "core/search/tree.go"
		const pat = "rest/router/patrouter.go"
		e.constDef(s, tree, "colon", "colon")
		e.constDef(s, tree, "slash", "slash")
		e.constDef(s, pat, "allowHeader", "allowHeader")
		e.constDef(s, pat, "allowMethodSeparator", "allowMethodSeparator")
		e.shapeDef(s, tree, "Tree.next", "nextShape")
		e.shapeDef(s, tree, "add", "addShape")
		e.shapeDef(s, tree, "node.forEach", "forEachShape")
		e.shapeDef(s, tree, "node.getChildren", "getChildrenShape")
		e.shapeDef(s, tree, "match", "matchShape")
		e.shapeDef(s, tree, "Tree.Add", "treeAddShape")
		e.shapeDef(s, tree, "Tree.Search", "treeSearchShape")
		e.shapeDef(s, pat, "patRouter.Handle", "handleShape")
		e.shapeDef(s, pat, "patRouter.ServeHTTP", "serveShape")
		e.shapeDef(s, pat, "patRouter.methodsAllowed", "methodsAllowedShape")
		e.shapeDef(s, pat, "validMethod", "validMethodShape")
	})
}
