package main

import (
	"fmt"
	"go/ast"
	"go/token"
	"strings"
)

// ---- round 4: decision conditions translated to Lean Bool functions (semantic Tie) ----

// c09Param names a Go sub-expression (by its source text) that becomes a parameter of the Lean function:
// kind "str" (Go string -> String), "chr" (a byte of a string -> Char), "flag" (a bool, a call result, or a
// value only compared with nil: true = non-nil -> Bool), "nat" (something only used under len() -> Nat).
type c09Param struct{ src, name, kind string }

// net/http method constants (standard library, fixed by RFC 7231 / 5789)
var c09HTTPMethods = map[string]string{
	"http.MethodGet": "GET", "http.MethodHead": "HEAD", "http.MethodPost": "POST", "http.MethodPut": "PUT",
	"http.MethodPatch": "PATCH", "http.MethodDelete": "DELETE", "http.MethodConnect": "CONNECT",
	"http.MethodOptions": "OPTIONS", "http.MethodTrace": "TRACE",
}

// c09IfConds lists the conditions of all if statements of a function in source order (function literals included).
func c09IfConds(fd *ast.FuncDecl) []ast.Expr {
	var out []ast.Expr
	ast.Inspect(fd.Body, func(n ast.Node) bool {
		if x, ok := n.(*ast.IfStmt); ok {
			out = append(out, x.Cond)
		}
		return true
	})
	return out
}

func c09TranslateCond(s *source, x ast.Expr, params []c09Param) (string, error) {
	find := func(e ast.Expr) *c09Param {
		src := s.src(e)
		for i := range params {
			if params[i].src == src {
				return &params[i]
			}
		}
		return nil
	}
	chr := func(e ast.Expr) (string, bool) {
		switch y := e.(type) {
		case *ast.Ident:
			if y.Name == "colon" || y.Name == "slash" {
				return "Char.ofNat " + y.Name + ".toNat", true
			}
		case *ast.BasicLit:
			if y.Kind == token.CHAR {
				return y.Value, true
			}
		}
		return "", false
	}
	var tr func(x ast.Expr) (string, error)
	tr = func(x ast.Expr) (string, error) {
		if p := find(x); p != nil && p.kind == "flag" {
			return p.name, nil
		}
		switch x := x.(type) {
		case *ast.ParenExpr:
			return tr(x.X)
		case *ast.UnaryExpr:
			if x.Op == token.NOT {
				a, err := tr(x.X)
				if err != nil {
					return "", err
				}
				return "(!" + a + ")", nil
			}
		case *ast.BinaryExpr:
			switch x.Op {
			case token.LOR, token.LAND:
				a, err := tr(x.X)
				if err != nil {
					return "", err
				}
				b, err := tr(x.Y)
				if err != nil {
					return "", err
				}
				return "(" + a + " " + x.Op.String() + " " + b + ")", nil
			case token.EQL, token.NEQ, token.GTR, token.LSS:
				neg := func(t string) string {
					if x.Op == token.NEQ {
						return "(!" + t + ")"
					}
					return t
				}
				// E == nil / E != nil
				if id, ok := x.Y.(*ast.Ident); ok && id.Name == "nil" && x.Op != token.GTR && x.Op != token.LSS {
					if p := find(x.X); p != nil && p.kind == "flag" {
						if x.Op == token.EQL {
							return "(!" + p.name + ")", nil
						}
						return p.name, nil
					}
				}
				// len(E) op k
				if c, ok := x.X.(*ast.CallExpr); ok && s.src(c.Fun) == "len" && len(c.Args) == 1 {
					if k, ok := x.Y.(*ast.BasicLit); ok && k.Kind == token.INT {
						if p := find(c.Args[0]); p != nil && (p.kind == "str" || p.kind == "nat") {
							n := p.name
							if p.kind == "str" {
								n += ".length"
							}
							if x.Op == token.GTR {
								return "decide (" + n + " > " + k.Value + ")", nil
							}
							if x.Op == token.LSS {
								return "decide (" + n + " < " + k.Value + ")", nil
							}
							return neg("(" + n + " == " + k.Value + ")"), nil
						}
					}
				}
				if x.Op != token.GTR && x.Op != token.LSS {
					// E[0] op C   (first byte of a string against a byte constant)
					if ix, ok := x.X.(*ast.IndexExpr); ok {
						if k, ok := ix.Index.(*ast.BasicLit); ok && k.Value == "0" {
							if p := find(ix.X); p != nil && p.kind == "str" {
								if c, ok := chr(x.Y); ok {
									return neg("(" + p.name + ".toList.head? == some (" + c + "))"), nil
								}
							}
						}
					}
					// a byte parameter against a byte constant
					if p := find(x.X); p != nil && p.kind == "chr" {
						if c, ok := chr(x.Y); ok {
							return neg("(" + p.name + " == " + c + ")"), nil
						}
					}
					// string == string / string == http.MethodXxx
					if p := find(x.X); p != nil && p.kind == "str" {
						if q := find(x.Y); q != nil && q.kind == "str" {
							return neg("(" + p.name + " == " + q.name + ")"), nil
						}
						if m, ok := c09HTTPMethods[s.src(x.Y)]; ok {
							return neg("(" + p.name + " == " + leanString(m) + ")"), nil
						}
					}
				}
			}
		}
		return "", fmt.Errorf("cannot translate `%s`", s.src(x))
	}
	return tr(x)
}

// c09Cond emits `def <leanName> (params…) : Bool := <translated condition>`.
func (e *emitter) c09Cond(s *source, rel, goName, leanName string, pick func(fd *ast.FuncDecl) ast.Expr, params []c09Param) {
	sig := ""
	for _, p := range params {
		t := map[string]string{"str": "String", "chr": "Char", "flag": "Bool", "nat": "Nat"}[p.kind]
		sig += fmt.Sprintf(" (%s : %s)", p.name, t)
	}
	fail := func(msg string) {
		e.errors = append(e.errors, msg)
		e.printf("/-- MISSING: %s -/\ndef %s%s : Bool := false\n\n", msg, leanName, sig)
	}
	fd := s.findFunc(rel, goName)
	if fd == nil {
		fail("function " + goName + " not found in " + rel)
		return
	}
	x := pick(fd)
	if x == nil {
		fail("condition " + leanName + " not found in " + goName)
		return
	}
	body, err := c09TranslateCond(s, x, params)
	if err != nil {
		fail(leanName + ": " + err.Error())
		return
	}
	e.printf("/-- condition `%s` of `%s` in %s -/\ndef %s%s : Bool := %s\n\n", s.src(x), goName, rel, leanName, sig, body)
}

func c09If(n int) func(fd *ast.FuncDecl) ast.Expr {
	return func(fd *ast.FuncDecl) ast.Expr {
		cs := c09IfConds(fd)
		if n < len(cs) {
			return cs[n]
		}
		return nil
	}
}

// the value of field `name` in the composite literal returned by the n-th return statement
func c09RetField(n int, name string) func(fd *ast.FuncDecl) ast.Expr {
	return func(fd *ast.FuncDecl) ast.Expr {
		var rets []*ast.ReturnStmt
		ast.Inspect(fd.Body, func(x ast.Node) bool {
			if r, ok := x.(*ast.ReturnStmt); ok {
				rets = append(rets, r)
			}
			return true
		})
		if n >= len(rets) || len(rets[n].Results) == 0 {
			return nil
		}
		if name == "" {
			return rets[n].Results[0]
		}
		cl, ok := rets[n].Results[0].(*ast.CompositeLit)
		if !ok {
			return nil
		}
		for _, el := range cl.Elts {
			if kv, ok := el.(*ast.KeyValueExpr); ok && s0(kv.Key) == name {
				return kv.Value
			}
		}
		return nil
	}
}

func s0(e ast.Expr) string {
	if id, ok := e.(*ast.Ident); ok {
		return id.Name
	}
	return ""
}

// c09Detail prints every statement of a (small) function, one normalised source line per simple statement
// and structured headers for compound ones; function literals are expanded in place.  Used for the tiny
// decision functions of core/search/tree.go, where every token carries meaning for C09.
func c09Detail(s *source, fd *ast.FuncDecl) []string {
	var out []string
	var block func(list []ast.Stmt)
	var stmt func(st ast.Stmt)
	// expression source with function literals replaced by `func#k`, their bodies emitted afterwards
	expr := func(e ast.Node) string {
		var lits []*ast.FuncLit
		ast.Inspect(e, func(n ast.Node) bool {
			if fl, ok := n.(*ast.FuncLit); ok {
				lits = append(lits, fl)
				return false
			}
			return true
		})
		src := s.src(e)
		for _, fl := range lits {
			src = strings.Replace(src, s.src(fl), "func"+s.src(fl.Type)[4:]+"{...}", 1)
		}
		out = append(out, src)
		for _, fl := range lits {
			out = append(out, "func{")
			block(fl.Body.List)
			out = append(out, "}")
		}
		return src
	}
	stmt = func(st ast.Stmt) {
		switch x := st.(type) {
		case *ast.IfStmt:
			hdr := "if "
			if x.Init != nil {
				hdr += s.src(x.Init) + "; "
			}
			out = append(out, hdr+s.src(x.Cond)+" {")
			block(x.Body.List)
			out = append(out, "}")
			if x.Else != nil {
				out = append(out, "else{")
				stmt(x.Else)
				out = append(out, "}")
			}
		case *ast.BlockStmt:
			block(x.List)
		case *ast.RangeStmt:
			hdr := "range "
			if x.Key != nil {
				hdr += s.src(x.Key)
			}
			if x.Value != nil {
				hdr += ", " + s.src(x.Value)
			}
			out = append(out, hdr+" := "+s.src(x.X)+" {")
			block(x.Body.List)
			out = append(out, "}")
		case *ast.ForStmt:
			hdr := "for"
			if x.Cond != nil {
				hdr += " " + s.src(x.Cond)
			}
			out = append(out, hdr+" {")
			block(x.Body.List)
			out = append(out, "}")
		case *ast.SwitchStmt:
			hdr := "switch"
			if x.Tag != nil {
				hdr += " " + s.src(x.Tag)
			}
			out = append(out, hdr+" {")
			for _, c := range x.Body.List {
				cc := c.(*ast.CaseClause)
				if cc.List == nil {
					out = append(out, "default:")
				} else {
					var cs []string
					for _, e := range cc.List {
						cs = append(cs, s.src(e))
					}
					out = append(out, "case "+strings.Join(cs, ", ")+":")
				}
				block(cc.Body)
			}
			out = append(out, "}")
		default:
			expr(st)
		}
	}
	block = func(list []ast.Stmt) {
		for _, st := range list {
			stmt(st)
		}
	}
	block(fd.Body.List)
	return out
}

func (e *emitter) c09DetailDef(s *source, rel, goName, leanName string) {
	fd := s.findFunc(rel, goName)
	if fd == nil {
		e.errors = append(e.errors, "function "+goName+" not found in "+rel)
		e.stringList(leanName, "MISSING: "+goName+" in "+rel, []string{"MISSING"})
		return
	}
	e.stringList(leanName, "statements of `"+goName+"` in "+rel, c09Detail(s, fd))
}

// c09Methods lists the `http.MethodXxx` selectors compared in validMethod, in source order.
func c09Methods(s *source, fd *ast.FuncDecl) []string {
	var out []string
	ast.Inspect(fd.Body, func(n ast.Node) bool {
		if be, ok := n.(*ast.BinaryExpr); ok && be.Op.String() == "==" {
			out = append(out, s.src(be.X)+" == "+s.src(be.Y))
			return false
		}
		return true
	})
	return out
}

// ---- round 5: whole if-return bodies as decision functions, forwarded argument lists ----

func c09Results(s *source, r *ast.ReturnStmt) string {
	var out []string
	for _, x := range r.Results {
		out = append(out, s.src(x))
	}
	return strings.Join(out, ", ")
}

// c09Body translates a function body of the form
//
//	[assignments / declarations]  { if COND { return E } }  ( return E | anything else )
//
// into `def <leanName> (params…) : Nat` = the INDEX of the return statement that is taken (the conditions are
// translated with c09TranslateCond), and `<leanName>Returns : List String` = the returned expressions in that order
// ("<continues>" when the function goes on with something that is not a return).  This pins, for all arguments,
// which exit a call takes AND what each exit returns.
func (e *emitter) c09Body(s *source, rel, goName, leanName string, params []c09Param) {
	sig := ""
	for _, p := range params {
		t := map[string]string{"str": "String", "chr": "Char", "flag": "Bool", "nat": "Nat"}[p.kind]
		sig += fmt.Sprintf(" (%s : %s)", p.name, t)
	}
	fail := func(msg string) {
		e.errors = append(e.errors, msg)
		e.printf("/-- MISSING: %s -/\ndef %s%s : Nat := 0\n\n", msg, leanName, sig)
		e.stringList(leanName+"Returns", "MISSING", []string{"MISSING"})
	}
	fd := s.findFunc(rel, goName)
	if fd == nil {
		fail("function " + goName + " not found in " + rel)
		return
	}
	var conds, rets []string
	done := false
	for _, st := range fd.Body.List {
		if done {
			break
		}
		switch x := st.(type) {
		case *ast.IfStmt:
			var ret *ast.ReturnStmt
			if x.Init == nil && x.Else == nil && len(x.Body.List) == 1 {
				ret, _ = x.Body.List[0].(*ast.ReturnStmt)
			}
			if ret == nil {
				rets = append(rets, "<continues>")
				done = true
				break
			}
			c, err := c09TranslateCond(s, x.Cond, params)
			if err != nil {
				fail(leanName + ": " + err.Error())
				return
			}
			conds = append(conds, c)
			rets = append(rets, c09Results(s, ret))
		case *ast.ReturnStmt:
			rets = append(rets, c09Results(s, x))
			done = true
		case *ast.AssignStmt, *ast.DeclStmt:
			if len(conds) > 0 {
				rets = append(rets, "<continues>")
				done = true
			}
		default:
			rets = append(rets, "<continues>")
			done = true
		}
	}
	if !done {
		rets = append(rets, "<falls off>")
	}
	body := ""
	for i, c := range conds {
		body += fmt.Sprintf("if %s then %d else ", c, i)
	}
	body += fmt.Sprint(len(conds))
	e.printf("/-- which exit `%s` (%s) takes: index into `%sReturns` -/\ndef %s%s : Nat := %s\n\n", goName, rel, leanName, leanName, sig, body)
	e.stringList(leanName+"Returns", "what the exits of `"+goName+"` return, in source order", rets)
}

// c09Calls emits every call of a function in source order (outer call before the calls in its arguments) as
// (callee, [argument expressions]); an argument passed with `...` keeps the dots.  Function literals are entered.
func (e *emitter) c09Calls(s *source, rel, goName, leanName string) {
	fd := s.findFunc(rel, goName)
	if fd == nil {
		e.errors = append(e.errors, "function "+goName+" not found in "+rel)
		e.printf("/-- MISSING -/\ndef %s : List (String × List String) := []\n\n", leanName)
		return
	}
	var items []string
	ast.Inspect(fd.Body, func(n ast.Node) bool {
		c, ok := n.(*ast.CallExpr)
		if !ok {
			return true
		}
		var args []string
		for i, a := range c.Args {
			t := s.src(a)
			if fl, ok := a.(*ast.FuncLit); ok {
				t = "func" + s.src(fl.Type)[4:] + "{...}"
			}
			if i == len(c.Args)-1 && c.Ellipsis.IsValid() {
				t += "..."
			}
			args = append(args, leanString(t))
		}
		items = append(items, fmt.Sprintf("(%s, [%s])", leanString(s.src(c.Fun)), strings.Join(args, ", ")))
		return true
	})
	e.printf("/-- calls of `%s` in %s with their argument lists, in source order -/\ndef %s : List (String × List String) :=\n  [%s]\n\n",
		goName, rel, leanName, strings.Join(items, ",\n   "))
}

// c09Fields emits the key/value pairs of the first composite literal of type `typ` in a function as a typed list
// (field, value expression): which field of the constructed value is fed from what.
func (e *emitter) c09Fields(s *source, rel, goName, typ, leanName string) {
	fd := s.findFunc(rel, goName)
	var lit *ast.CompositeLit
	if fd != nil {
		ast.Inspect(fd.Body, func(n ast.Node) bool {
			if cl, ok := n.(*ast.CompositeLit); ok && lit == nil && cl.Type != nil && s.src(cl.Type) == typ {
				lit = cl
			}
			return lit == nil
		})
	}
	if lit == nil {
		e.errors = append(e.errors, "composite literal "+typ+" not found in "+goName+" ("+rel+")")
		e.printf("/-- MISSING -/\ndef %s : List (String × String) := []\n\n", leanName)
		return
	}
	var items []string
	for _, el := range lit.Elts {
		if kv, ok := el.(*ast.KeyValueExpr); ok {
			items = append(items, fmt.Sprintf("(%s, %s)", leanString(s.src(kv.Key)), leanString(s.src(kv.Value))))
		} else {
			items = append(items, fmt.Sprintf("(\"\", %s)", leanString(s.src(el))))
		}
	}
	e.printf("/-- fields of the `%s` literal built in `%s` (%s) -/\ndef %s : List (String × String) :=\n  [%s]\n\n",
		typ, goName, rel, leanName, strings.Join(items, ", "))
}

// c09StructFields lists the field names of a struct type declared in the file.
func c09StructFields(s *source, rel, typ string) []string {
	var out []string
	f := s.file(rel)
	if f == nil {
		return []string{"MISSING"}
	}
	ast.Inspect(f, func(n ast.Node) bool {
		ts, ok := n.(*ast.TypeSpec)
		if !ok || ts.Name.Name != typ {
			return true
		}
		if st, ok := ts.Type.(*ast.StructType); ok {
			for _, fl := range st.Fields.List {
				for _, nm := range fl.Names {
					out = append(out, nm.Name+" "+s.src(fl.Type))
				}
			}
		}
		return false
	})
	return out
}

// c09Access lists, in source order, every access a method makes to a field of its receiver:
// (field, operation, number of return statements that start before the access, detail) with operation
// "write" (`recv.f = v`), "write-index" (`recv.f[k] = v`; detail = the stored value), "read-index" (`recv.f[k]`),
// "range", "call" (`recv.m(...)`: a method of the receiver) or "read".  Function literals are entered.
func (e *emitter) c09Access(s *source, rel, goName, leanName string) {
	fd := s.findFunc(rel, goName)
	if fd == nil || fd.Recv == nil || len(fd.Recv.List) == 0 || len(fd.Recv.List[0].Names) == 0 {
		e.errors = append(e.errors, "method "+goName+" not found in "+rel)
		e.printf("/-- MISSING -/\ndef %s : List (String × String × Nat × String) := []\n\n", leanName)
		return
	}
	recv := fd.Recv.List[0].Names[0].Name
	isRecvSel := func(x ast.Expr) (*ast.SelectorExpr, bool) {
		sel, ok := x.(*ast.SelectorExpr)
		if !ok {
			return nil, false
		}
		id, ok := sel.X.(*ast.Ident)
		return sel, ok && id.Name == recv
	}
	var rets []token.Pos
	ast.Inspect(fd.Body, func(n ast.Node) bool {
		if r, ok := n.(*ast.ReturnStmt); ok {
			rets = append(rets, r.Pos())
		}
		return true
	})
	before := func(p token.Pos) int {
		k := 0
		for _, r := range rets {
			if r < p {
				k++
			}
		}
		return k
	}
	claimed := map[ast.Node]bool{}
	var items []string
	add := func(field, op string, pos token.Pos, detail string) {
		items = append(items, fmt.Sprintf("(%s, %s, %d, %s)", leanString(field), leanString(op), before(pos), leanString(detail)))
	}
	ast.Inspect(fd.Body, func(n ast.Node) bool {
		switch x := n.(type) {
		case *ast.AssignStmt:
			for i, l := range x.Lhs {
				rhs := ""
				if i < len(x.Rhs) {
					rhs = s.src(x.Rhs[i])
				} else if len(x.Rhs) == 1 {
					rhs = s.src(x.Rhs[0])
				}
				if ix, ok := l.(*ast.IndexExpr); ok {
					if sel, ok := isRecvSel(ix.X); ok {
						claimed[ix], claimed[sel] = true, true
						add(sel.Sel.Name, "write-index", ix.Pos(), rhs)
					}
				} else if sel, ok := isRecvSel(l); ok {
					claimed[sel] = true
					add(sel.Sel.Name, "write", sel.Pos(), rhs)
				}
			}
		case *ast.RangeStmt:
			if sel, ok := isRecvSel(x.X); ok {
				claimed[sel] = true
				add(sel.Sel.Name, "range", sel.Pos(), s.src(x.X))
			}
		case *ast.CallExpr:
			if sel, ok := isRecvSel(x.Fun); ok {
				claimed[sel] = true
				add(sel.Sel.Name, "call", sel.Pos(), s.src(x))
			}
		case *ast.IndexExpr:
			if sel, ok := isRecvSel(x.X); ok && !claimed[x] {
				claimed[sel] = true
				add(sel.Sel.Name, "read-index", x.Pos(), s.src(x))
			}
		case *ast.SelectorExpr:
			if sel, ok := isRecvSel(x); ok && !claimed[sel] {
				add(sel.Sel.Name, "read", sel.Pos(), s.src(x))
			}
		}
		return true
	})
	e.printf("/-- accesses of `%s` (%s) to the fields of its receiver, in source order -/\ndef %s : List (String × String × Nat × String) :=\n  [%s]\n\n",
		goName, rel, leanName, strings.Join(items, ",\n   "))
}

// c09Assigns emits every assignment of a function (function literals entered) as a typed list (left side, right side).
func (e *emitter) c09Assigns(s *source, rel, goName, leanName string) {
	fd := s.findFunc(rel, goName)
	if fd == nil {
		e.errors = append(e.errors, "function "+goName+" not found in "+rel)
		e.printf("/-- MISSING -/\ndef %s : List (String × String) := []\n\n", leanName)
		return
	}
	var items []string
	ast.Inspect(fd.Body, func(n ast.Node) bool {
		if a, ok := n.(*ast.AssignStmt); ok {
			for i, l := range a.Lhs {
				rhs := ""
				if i < len(a.Rhs) {
					rhs = s.src(a.Rhs[i])
				} else if len(a.Rhs) == 1 {
					rhs = s.src(a.Rhs[0])
				}
				if fl, ok := a.Rhs[min(i, len(a.Rhs)-1)].(*ast.FuncLit); ok {
					rhs = "func" + s.src(fl.Type)[4:] + "{...}"
				}
				items = append(items, fmt.Sprintf("(%s, %s)", leanString(s.src(l)), leanString(rhs)))
			}
		}
		return true
	})
	e.printf("/-- assignments of `%s` (%s), in source order -/\ndef %s : List (String × String) :=\n  [%s]\n\n",
		goName, rel, leanName, strings.Join(items, ", "))
}

// c09Ranges emits every `for k, v := range X` of a function as a typed list (key, value, ranged expression).
func (e *emitter) c09Ranges(s *source, rel, goName, leanName string) {
	fd := s.findFunc(rel, goName)
	if fd == nil {
		e.errors = append(e.errors, "function "+goName+" not found in "+rel)
		e.printf("/-- MISSING -/\ndef %s : List (String × String × String) := []\n\n", leanName)
		return
	}
	var items []string
	ast.Inspect(fd.Body, func(n ast.Node) bool {
		if r, ok := n.(*ast.RangeStmt); ok {
			k, v := "", ""
			if r.Key != nil {
				k = s.src(r.Key)
			}
			if r.Value != nil {
				v = s.src(r.Value)
			}
			items = append(items, fmt.Sprintf("(%s, %s, %s)", leanString(k), leanString(v), leanString(s.src(r.X))))
		}
		return true
	})
	e.printf("/-- range loops of `%s` (%s): key, value, ranged expression -/\ndef %s : List (String × String × String) :=\n  [%s]\n\n",
		goName, rel, leanName, strings.Join(items, ", "))
}

// c09PackageVars lists the package-level variables of a file (name and initialiser): package-level state and
// tables a function could consult besides its receiver.
func c09PackageVars(s *source, rel string) []string {
	f := s.file(rel)
	if f == nil {
		return []string{"MISSING"}
	}
	var out []string
	for _, d := range f.Decls {
		gd, ok := d.(*ast.GenDecl)
		if !ok || gd.Tok != token.VAR {
			continue
		}
		for _, sp := range gd.Specs {
			vs := sp.(*ast.ValueSpec)
			for i, nm := range vs.Names {
				init := ""
				if i < len(vs.Values) {
					init = s.src(vs.Values[i])
				} else if vs.Type != nil {
					init = "zero " + s.src(vs.Type)
				}
				out = append(out, nm.Name+" = "+init)
			}
		}
	}
	return out
}

func init() {
	register("C09", func(s *source, e *emitter) {
		const tree = "core/search/tree.go"
		const pat = "rest/router/patrouter.go"
		e.constDef(s, tree, "colon", "colon")
		e.constDef(s, tree, "slash", "slash")
		e.constDef(s, pat, "allowHeader", "allowHeader")
		e.constDef(s, pat, "allowMethodSeparator", "allowMethodSeparator")
		// the search tree: every statement
		e.c09DetailDef(s, tree, "Tree.next", "nextStmts")
		e.c09DetailDef(s, tree, "add", "addStmts")
		e.c09DetailDef(s, tree, "node.forEach", "forEachStmts")
		e.c09DetailDef(s, tree, "node.getChildren", "getChildrenStmts")
		e.c09DetailDef(s, tree, "match", "matchStmts")
		e.c09DetailDef(s, tree, "addParam", "addParamStmts")
		e.c09DetailDef(s, tree, "Tree.Search", "treeSearchStmts")
		e.c09DetailDef(s, tree, "Tree.Add", "treeAddStmts")
		e.c09DetailDef(s, tree, "newNode", "newNodeStmts")
		// the router: decision skeletons
		e.c09DetailDef(s, pat, "patRouter.Handle", "handleStmts")
		e.c09DetailDef(s, pat, "patRouter.ServeHTTP", "serveStmts")
		e.c09DetailDef(s, pat, "patRouter.handleNotFound", "handleNotFoundStmts")
		e.c09DetailDef(s, pat, "patRouter.methodsAllowed", "methodsAllowedStmts")
		e.c09DetailDef(s, pat, "patRouter.SetNotFoundHandler", "setNotFoundStmts")
		e.c09DetailDef(s, pat, "patRouter.SetNotAllowedHandler", "setNotAllowedStmts")
		e.c09DetailDef(s, pat, "NewRouter", "newRouterStmts")
		// path variables through the request context
		const pv = "rest/pathvar/params.go"
		e.c09DetailDef(s, pv, "Vars", "pathvarVarsStmts")
		e.c09DetailDef(s, pv, "WithVars", "pathvarWithVarsStmts")
		// rest.Server / engine wiring on the path of the property
		const eng = "rest/engine.go"
		const srv = "rest/server.go"
		e.c09DetailDef(s, eng, "engine.addRoutes", "engineAddRoutesStmts")
		e.c09DetailDef(s, eng, "engine.bindRoutes", "engineBindRoutesStmts")
		e.c09DetailDef(s, eng, "engine.bindFeaturedRoutes", "engineBindFeaturedStmts")
		e.c09DetailDef(s, eng, "engine.bindRoute", "engineBindRouteStmts")
		e.c09DetailDef(s, eng, "engine.notFoundHandler", "engineNotFoundStmts")
		e.c09DetailDef(s, srv, "NewServer", "newServerStmts")
		e.c09DetailDef(s, srv, "Server.AddRoutes", "serverAddRoutesStmts")
		e.c09DetailDef(s, srv, "Server.Routes", "serverRoutesStmts")
		e.c09DetailDef(s, srv, "WithPrefix", "withPrefixStmts")
		e.c09DetailDef(s, srv, "WithNotFoundHandler", "withNotFoundStmts")
		e.c09DetailDef(s, srv, "WithNotAllowedHandler", "withNotAllowedStmts")
		// further functions of the public API (round 4)
		e.c09DetailDef(s, srv, "Server.AddRoute", "serverAddRouteStmts")
		e.c09DetailDef(s, srv, "WithJwt", "withJwtStmts")
		e.c09DetailDef(s, srv, "WithJwtTransition", "withJwtTransitionStmts")
		e.c09DetailDef(s, srv, "WithMaxBytes", "withMaxBytesStmts")
		e.c09DetailDef(s, srv, "WithMiddlewares", "withMiddlewaresStmts")
		e.c09DetailDef(s, srv, "WithMiddleware", "withMiddlewareStmts")
		e.c09DetailDef(s, srv, "WithPriority", "withPriorityStmts")
		e.c09DetailDef(s, srv, "WithSSE", "withSSEStmts")
		e.c09DetailDef(s, srv, "WithTimeout", "withTimeoutStmts")
		e.c09DetailDef(s, eng, "buildSSERoutes", "buildSSERoutesStmts")
		e.c09DetailDef(s, eng, "engine.appendAuthHandler", "engineAppendAuthStmts")
		e.c09DetailDef(s, eng, "convertMiddleware", "convertMiddlewareStmts")
		// decision conditions, translated (semantic Tie)
		str := func(n string) c09Param { return c09Param{n, n, "str"} }
		e.c09Cond(s, tree, "Tree.Add", "condAddNotFromRoot", c09If(0), []c09Param{str("route")})
		e.c09Cond(s, tree, "Tree.Add", "condAddEmptyItem", c09If(1), []c09Param{{"item", "item", "flag"}})
		e.c09Cond(s, tree, "Tree.Search", "condSearchNotFromRoot", c09If(0), []c09Param{str("route")})
		e.c09Cond(s, tree, "Tree.next", "condNextHere", c09If(0), []c09Param{str("route"), {"n.item", "nItem", "flag"}})
		e.c09Cond(s, tree, "Tree.next", "condNextNotSlash", c09If(1), []c09Param{{"route[i]", "c", "chr"}})
		e.c09Cond(s, tree, "Tree.next", "condNextSkip", c09If(2), []c09Param{{"r.found", "found", "flag"},
			{"t.next(v, route[i+1:], result)", "rest", "flag"}})
		e.c09Cond(s, tree, "Tree.next", "condNextNamed", c09If(3), []c09Param{{"r.named", "named", "flag"}})
		e.c09Cond(s, tree, "Tree.next", "condNextLast", c09If(4), []c09Param{{"r.found", "found", "flag"}, {"v.item", "vItem", "flag"}})
		e.c09Cond(s, tree, "node.getChildren", "condGetChildrenVar", c09If(0), []c09Param{str("route")})
		e.c09Cond(s, tree, "add", "condAddEnd", c09If(0), []c09Param{str("route")})
		e.c09Cond(s, tree, "add", "condAddDupHere", c09If(1), []c09Param{{"nd.item", "ndItem", "flag"}})
		e.c09Cond(s, tree, "add", "condAddDupSlash", c09If(2), []c09Param{str("route")})
		e.c09Cond(s, tree, "add", "condAddNotSlash", c09If(3), []c09Param{{"route[i]", "c", "chr"}})
		e.c09Cond(s, tree, "add", "condAddDupChild", c09If(7), []c09Param{{"child.item", "childItem", "flag"}})
		e.c09Cond(s, tree, "match", "condMatchNamed", c09If(0), []c09Param{str("pat")})
		e.c09Cond(s, tree, "match", "condMatchLiteral", c09RetField(1, "found"), []c09Param{str("pat"), str("token")})
		e.c09Cond(s, pat, "patRouter.Handle", "condHandleBadMethod", c09If(0), []c09Param{{"validMethod(method)", "valid", "flag"}})
		e.c09Cond(s, pat, "patRouter.Handle", "condHandleBadPath", c09If(1), []c09Param{str("reqPath")})
		e.c09Cond(s, pat, "patRouter.ServeHTTP", "condServeHasParams", c09If(2), []c09Param{{"result.Params", "nParams", "nat"}})
		e.c09Cond(s, pat, "patRouter.ServeHTTP", "condServeNotFound", c09If(3), []c09Param{{"ok", "ok", "flag"}})
		e.c09Cond(s, pat, "patRouter.ServeHTTP", "condServeCustomNA", c09If(4), []c09Param{{"pr.notAllowed", "notAllowed", "flag"}})
		e.c09Cond(s, pat, "patRouter.handleNotFound", "condCustomNF", c09If(0), []c09Param{{"pr.notFound", "notFound", "flag"}})
		e.c09Cond(s, pat, "patRouter.methodsAllowed", "condAllowedSkipOwn", c09If(0), []c09Param{str("treeMethod"), str("method")})
		e.c09Cond(s, pat, "patRouter.methodsAllowed", "condAllowedAny", c09If(2), []c09Param{{"allows", "nAllows", "nat"}})
		e.c09Cond(s, pat, "validMethod", "condValidMethod", c09RetField(0, ""), []c09Param{str("method")})
		e.c09Cond(s, eng, "engine.notFoundHandler", "condEngineNFCustom", c09If(1), []c09Param{{"next", "next", "flag"}})
		// round 5: the remaining entry points (statement lists)
		e.c09DetailDef(s, srv, "MustNewServer", "mustNewServerStmts")
		e.c09DetailDef(s, srv, "Server.Start", "serverStartStmts")
		e.c09DetailDef(s, srv, "Server.StartWithOpts", "serverStartWithOptsStmts")
		e.c09DetailDef(s, srv, "Server.Use", "serverUseStmts")
		e.c09DetailDef(s, srv, "WithRouter", "withRouterStmts")
		e.c09DetailDef(s, srv, "handleError", "handleErrorStmts")
		e.c09DetailDef(s, eng, "engine.use", "engineUseStmts")
		e.c09DetailDef(s, eng, "engine.start", "engineStartStmts")
		// round 5: whole if-return bodies as decision functions
		e.c09Body(s, tree, "Tree.Add", "treeAddBody", []c09Param{str("route"), {"item", "item", "flag"}})
		e.c09Body(s, tree, "Tree.Search", "treeSearchBody", []c09Param{str("route")})
		e.c09Body(s, tree, "node.getChildren", "getChildrenBody", []c09Param{str("route")})
		e.c09Body(s, tree, "match", "matchBody", []c09Param{str("pat")})
		e.c09Body(s, pat, "patRouter.Handle", "handleBody", []c09Param{{"validMethod(method)", "valid", "flag"}, str("reqPath")})
		e.c09Body(s, pv, "Vars", "pathvarVarsBody", []c09Param{{"ok", "ok", "flag"}})
		e.c09Body(s, srv, "handleError", "handleErrorBody", []c09Param{{"err", "err", "flag"},
			{"errors.Is(err, http.ErrServerClosed)", "closed", "flag"}})
		e.c09Calls(s, eng, "engine.start", "engineStartCalls")
		// round 5: the decisions of engine.bindRoute / appendAuthHandler (model `bindChain`, `tokenOk`)
		e.c09Cond(s, eng, "engine.bindRoute", "condBindRouteNative", c09If(0), []c09Param{{"chn", "chn", "flag"}})
		e.c09Cond(s, eng, "engine.appendAuthHandler", "condAuthEnabled", c09If(0), []c09Param{{"fr.jwt.enabled", "enabled", "flag"}})
		e.c09Cond(s, eng, "engine.appendAuthHandler", "condAuthNoPrev", c09If(1), []c09Param{{"fr.jwt.prevSecret", "prev", "str"}})
		// round 5: validateSecret (WithJwt / WithJwtTransition panic on a short secret: nothing is registered)
		e.c09Cond(s, srv, "validateSecret", "condSecretTooShort", c09If(0), []c09Param{{"secret", "secretLen", "nat"}})
		e.c09DetailDef(s, srv, "validateSecret", "validateSecretStmts")
		e.c09Calls(s, srv, "WithJwt", "withJwtCalls")
		e.c09Calls(s, srv, "WithJwtTransition", "withJwtTransitionCalls")
		// round 5: WithCors (as implemented: the CORS middleware in front of the patRouter answers every OPTIONS request)
		const corsf = "rest/internal/cors/handlers.go"
		e.c09DetailDef(s, srv, "WithCors", "withCorsStmts")
		e.c09DetailDef(s, srv, "newCorsRouter", "newCorsRouterStmts")
		e.c09DetailDef(s, srv, "corsRouter.ServeHTTP", "corsRouterServeStmts")
		e.c09Cond(s, corsf, "Middleware", "condCorsPreflight", c09If(1), []c09Param{{"r.Method", "method", "str"}})
		e.c09Cond(s, corsf, "NotAllowedHandler", "condCorsNAOptions", c09If(1), []c09Param{{"r.Method", "method", "str"}})
		// round 5e: WHICH methods the 405 decision looks at (seeded change C09-10: a fixed method list instead of the trees)
		e.c09Ranges(s, pat, "patRouter.methodsAllowed", "methodsAllowedRanges")
		e.c09Ranges(s, tree, "node.forEach", "forEachRanges")
		e.c09Ranges(s, eng, "engine.bindRoutes", "engineBindRoutesRanges")
		e.c09Ranges(s, eng, "engine.bindFeaturedRoutes", "engineBindFeaturedRanges")
		e.c09Ranges(s, srv, "Server.Routes", "serverRoutesRanges")
		e.c09Ranges(s, srv, "WithPrefix", "withPrefixRanges")
		e.stringList("patrouterPackageVars", "package-level variables of "+pat, c09PackageVars(s, pat))
		e.stringList("treePackageVars", "package-level variables of "+tree, c09PackageVars(s, tree))
		e.stringList("pathvarPackageVars", "package-level variables of "+pv, c09PackageVars(s, pv))
		// round 5c: every structure ServeHTTP reads and Handle writes (seeded change C09-9: a second dispatch structure)
		e.c09Access(s, pat, "patRouter.Handle", "handleAccess")
		e.c09Access(s, pat, "patRouter.ServeHTTP", "serveAccess")
		e.c09Access(s, pat, "patRouter.methodsAllowed", "methodsAllowedAccess")
		e.c09Access(s, pat, "patRouter.handleNotFound", "handleNotFoundAccess")
		e.c09Access(s, pat, "patRouter.SetNotFoundHandler", "setNotFoundAccess")
		e.c09Access(s, pat, "patRouter.SetNotAllowedHandler", "setNotAllowedAccess")
		e.stringList("patRouterFields", "fields of the struct `patRouter`", c09StructFields(s, pat, "patRouter"))
		e.c09Access(s, tree, "Tree.Add", "treeAddAccess")
		e.c09Access(s, tree, "Tree.Search", "treeSearchAccess")
		// round 5c: HeaderOnceResponseWriter (the forced 404 of engine.notFoundHandler)
		const how = "rest/internal/response/headeronceresponsewriter.go"
		e.c09DetailDef(s, how, "HeaderOnceResponseWriter.WriteHeader", "headerOnceWriteHeaderStmts")
		e.c09Cond(s, how, "HeaderOnceResponseWriter.WriteHeader", "condHeaderOnceWrote", c09If(0), []c09Param{{"w.wroteHeader", "wrote", "flag"}})
		// round 5c: what every option writes (typed assignment lists instead of statement text)
		for _, o := range [][2]string{{"WithJwt", "withJwtAssigns"}, {"WithJwtTransition", "withJwtTransitionAssigns"},
			{"WithTimeout", "withTimeoutAssigns"}, {"WithMaxBytes", "withMaxBytesAssigns"}, {"WithPriority", "withPriorityAssigns"},
			{"WithSSE", "withSSEAssigns"}, {"WithPrefix", "withPrefixAssigns"}, {"WithRouter", "withRouterAssigns"},
			{"WithChain", "withChainAssigns"}, {"WithNotFoundHandler", "withNotFoundAssigns"}, {"WithFileServer", "withFileServerAssigns"},
			{"WithCors", "withCorsAssigns"}, {"Server.AddRoutes", "serverAddRoutesAssigns"}} {
			e.c09Assigns(s, srv, o[0], o[1])
		}
		e.c09Assigns(s, eng, "engine.addRoutes", "engineAddRoutesAssigns")
		e.c09Assigns(s, eng, "engine.use", "engineUseAssigns")
		// round 5c: the other router wrappers
		const fsf = "rest/internal/fileserver/filehandler.go"
		e.c09DetailDef(s, srv, "WithCorsHeaders", "withCorsHeadersStmts")
		e.c09DetailDef(s, srv, "WithCustomCors", "withCustomCorsStmts")
		e.c09DetailDef(s, srv, "WithFileServer", "withFileServerStmts")
		e.c09DetailDef(s, srv, "newFileServingRouter", "newFileServingRouterStmts")
		e.c09DetailDef(s, srv, "fileServingRouter.ServeHTTP", "fileServingRouterServeStmts")
		e.c09DetailDef(s, fsf, "Middleware", "fileMiddlewareStmts")
		e.c09DetailDef(s, fsf, "createServeChecker", "serveCheckerStmts")
		e.c09Cond(s, fsf, "createServeChecker", "condServeChecker", c09RetField(1, ""), []c09Param{{"r.Method", "method", "str"},
			{"strings.HasPrefix(r.URL.Path, pathWithTrailSlash)", "below", "flag"},
			{"fileChecker(r.URL.Path[len(pathWithTrailSlash):])", "found", "flag"}})
		e.c09Body(s, fsf, "ensureTrailingSlash", "ensureTrailingSlashBody", []c09Param{{"strings.HasSuffix(path, \"/\")", "slash", "flag"}})
		// round 5: what the constructed values are fed from
		e.c09Fields(s, srv, "WithPrefix", "Route", "withPrefixRouteFields")
		e.c09Calls(s, srv, "WithPrefix", "withPrefixCalls")
		e.c09Fields(s, srv, "Server.AddRoutes", "featuredRoutes", "addRoutesFeaturedFields")
		e.c09Calls(s, srv, "Server.AddRoutes", "serverAddRoutesCalls")
		e.c09Fields(s, srv, "NewServer", "Server", "newServerFields")
		e.c09Fields(s, pat, "NewRouter", "patRouter", "newRouterFields")
		e.c09Fields(s, tree, "NewTree", "Tree", "newTreeFields")
		e.c09Fields(s, tree, "newNode", "node", "newNodeFields")
		// round 5: forwarded argument lists of the delegating entry points
		e.c09Calls(s, srv, "Server.AddRoute", "serverAddRouteCalls")
		e.c09Calls(s, srv, "MustNewServer", "mustNewServerCalls")
		e.c09Calls(s, srv, "Server.Start", "serverStartCalls")
		e.c09Calls(s, srv, "Server.StartWithOpts", "serverStartWithOptsCalls")
		e.c09Calls(s, srv, "Server.Use", "serverUseCalls")
		e.c09Calls(s, eng, "engine.use", "engineUseCalls")
		e.c09Calls(s, eng, "engine.bindRoutes", "engineBindRoutesCalls")
		e.c09Calls(s, eng, "engine.bindFeaturedRoutes", "engineBindFeaturedCalls")
		e.c09Calls(s, eng, "engine.bindRoute", "engineBindRouteCalls")
		e.c09Calls(s, eng, "engine.appendAuthHandler", "engineAppendAuthCalls")
		e.c09Calls(s, tree, "Tree.Add", "treeAddCalls")
		e.c09Calls(s, tree, "Tree.Search", "treeSearchCalls")
		e.c09Calls(s, pat, "patRouter.Handle", "handleCalls")
		e.c09Calls(s, pat, "patRouter.ServeHTTP", "serveCalls")
		e.c09Calls(s, pat, "patRouter.methodsAllowed", "methodsAllowedCalls")
		e.c09Calls(s, pv, "Vars", "pathvarVarsCalls")
		e.c09Calls(s, pv, "WithVars", "pathvarWithVarsCalls")
		if fd := s.findFunc(pat, "validMethod"); fd != nil {
			e.stringList("validMethodTests", "comparisons of `validMethod` in "+pat, c09Methods(s, fd))
			e.c09DetailDef(s, pat, "validMethod", "validMethodStmts")
		} else {
			e.errors = append(e.errors, "function validMethod not found in "+pat)
			e.stringList("validMethodTests", "MISSING", []string{"MISSING"})
		}
	})
}
