package main

func init() {
	register("C16", func(s *source, e *emitter) {
		const sm = "core/collection/safemap.go"
		e.constDef(s, sm, "maxDeletion", "maxDeletion")
		e.constDef(s, sm, "copyThreshold", "copyThreshold")
	})
}
