package main

import (
	"go/ast"
	"regexp"
	"strings"
)

// C16: in-memory collections.
//   * constants (SafeMap thresholds, cache slots / expiry deviation)
//   * translated arithmetic where the translator's subset reaches (queue index updates, RollingWindow.span and
//     the offset/lastTime update of updateOffset, with timex.Since/Now as the clock parameter)
//   * statement lists ("what the function does, statement by statement", normalised source text, control
//     structure flattened, locking / logging / statistics dropped) for the small functions the models were
//     written against: every statement of these functions is semantically relevant to the property.

var c16Drop = regexp.MustCompile(`^(defer )?\w+(\.\w+)*\.(Lock|Unlock|RLock|RUnlock)\(\)$|^(\w+\.)?stats\.|^c\.stats\.|^logx\.`)

func (s *source) c16Stmts(list []ast.Stmt, out *[]string) {
	for _, st := range list {
		s.c16Stmt(st, out)
	}
}

func (s *source) c16Stmt(st ast.Stmt, out *[]string) {
	switch x := st.(type) {
	case *ast.BlockStmt:
		s.c16Stmts(x.List, out)
	case *ast.IfStmt:
		hdr := "if "
		if x.Init != nil {
			hdr += s.src(x.Init) + "; "
		}
		*out = append(*out, hdr+s.src(x.Cond)+" {")
		s.c16Stmts(x.Body.List, out)
		*out = append(*out, "}")
		if x.Else != nil {
			*out = append(*out, "else {")
			s.c16Stmt(x.Else, out)
			*out = append(*out, "}")
		}
	case *ast.ForStmt:
		hdr := "for "
		if x.Init != nil {
			hdr += s.src(x.Init)
		}
		hdr += "; "
		if x.Cond != nil {
			hdr += s.src(x.Cond)
		}
		hdr += "; "
		if x.Post != nil {
			hdr += s.src(x.Post)
		}
		*out = append(*out, hdr+" {")
		s.c16Stmts(x.Body.List, out)
		*out = append(*out, "}")
	case *ast.RangeStmt:
		hdr := "range "
		if x.Key != nil {
			hdr += s.src(x.Key)
		}
		if x.Value != nil {
			hdr += ", " + s.src(x.Value)
		}
		*out = append(*out, hdr+" := "+s.src(x.X)+" {")
		s.c16Stmts(x.Body.List, out)
		*out = append(*out, "}")
	case *ast.SwitchStmt:
		hdr := "switch"
		if x.Tag != nil {
			hdr += " " + s.src(x.Tag)
		}
		*out = append(*out, hdr+" {")
		for _, c := range x.Body.List {
			cc := c.(*ast.CaseClause)
			if cc.List == nil {
				*out = append(*out, "default:")
			} else {
				var cs []string
				for _, e := range cc.List {
					cs = append(cs, s.src(e))
				}
				*out = append(*out, "case "+strings.Join(cs, ", ")+":")
			}
			s.c16Stmts(cc.Body, out)
		}
		*out = append(*out, "}")
	case *ast.EmptyStmt:
	default:
		txt := s.src(st)
		if !c16Drop.MatchString(txt) {
			*out = append(*out, txt)
		}
	}
}

func (e *emitter) c16StmtList(s *source, rel, goName, leanName string) {
	fd := s.findFunc(rel, goName)
	if fd == nil {
		e.errors = append(e.errors, "function "+goName+" not found in "+rel)
		e.stringList(leanName, "MISSING: "+goName+" in "+rel, []string{"MISSING"})
		return
	}
	var out []string
	s.c16Stmts(fd.Body.List, &out)
	e.stringList(leanName, "statements of `"+goName+"` in "+rel+" (locking, logging, statistics dropped)", out)
}

var c16LockCall = regexp.MustCompile(`^(defer )?\w+(\.\w+)*\.(Lock|Unlock|RLock|RUnlock)\(\)$`)

// c16LockFrame emits where a method takes and releases its lock: the lock statements verbatim, the
// statements executed while the lock is held collapsed into one "body" token (their text is pinned by the
// statement lists), and every statement outside the locked region verbatim (it must not touch shared
// state). A lock call nested in a compound statement is reported as "nested: …".
func (e *emitter) c16LockFrame(s *source, rel, goName, leanName string) {
	fd := s.findFunc(rel, goName)
	if fd == nil {
		e.errors = append(e.errors, "function "+goName+" not found in "+rel)
		e.stringList(leanName, "MISSING: "+goName+" in "+rel, []string{"MISSING"})
		return
	}
	var out []string
	held := false
	for _, st := range fd.Body.List {
		txt := s.src(st)
		if c16LockCall.MatchString(txt) {
			out = append(out, txt)
			if strings.HasPrefix(txt, "defer ") {
				continue
			}
			held = strings.HasSuffix(txt, "Lock()") && !strings.HasSuffix(txt, "Unlock()")
			continue
		}
		// lock calls hidden inside compound statements
		ast.Inspect(st, func(n ast.Node) bool {
			if c, ok := n.(*ast.CallExpr); ok {
				if t := s.src(c); c16LockCall.MatchString(t) {
					out = append(out, "nested: "+t)
				}
			}
			return true
		})
		if held {
			if len(out) == 0 || out[len(out)-1] != "body" {
				out = append(out, "body")
			}
		} else {
			out = append(out, strings.Join(strings.Fields(txt), " "))
		}
	}
	e.stringList(leanName, "lock frame of `"+goName+"` in "+rel+" (lock statements, `body` = statements under the lock, statements outside verbatim)", out)
}

func init() {
	register("C16", func(s *source, e *emitter) {
		const (
			sm = "core/collection/safemap.go"
			ff = "core/collection/fifo.go"
			rg = "core/collection/ring.go"
			st = "core/collection/set.go"
			rw = "core/collection/rollingwindow.go"
			ca = "core/collection/cache.go"
		)
		// constants
		e.constDef(s, sm, "maxDeletion", "maxDeletion")
		e.constDef(s, sm, "copyThreshold", "copyThreshold")
		e.constDef(s, ca, "slots", "cacheSlots")
		e.constDef(s, ca, "expiryDeviation", "expiryDeviation")

		// translated arithmetic
		t := &translator{registry: map[string]*transFunc{}, consts: map[string]string{}}
		// the clock of core/timex as a parameter
		e.printf("/-- `timex.Since(d)` with the clock reading as a parameter -/\ndef clockSince (d : Int) (clock : Int) : Int := clock - d\n\n")
		e.printf("/-- `timex.Now()` with the clock reading as a parameter -/\ndef clockNow (clock : Int) : Int := clock\n\n")
		t.registry["timex.Since"] = &transFunc{leanName: "clockSince", explicit: []string{"d"}, implicit: []string{"clock"}, implBool: map[string]bool{}, nres: 1}
		t.registry["timex.Now"] = &transFunc{leanName: "clockNow", explicit: nil, implicit: []string{"clock"}, implBool: map[string]bool{}, nres: 1}
		e.translated(t, s, rw, "RollingWindow.span", "rwSpan", false, "")
		e.translated(t, s, rw, "RollingWindow.updateOffset", "rwUpdateTail", true, "rw.offset = ")
		e.translated(t, s, ff, "Queue.Put", "queuePutTail", true, "q.tail = ")
		e.translated(t, s, ff, "Queue.Take", "queueTakeTail", true, "element := ")

		// statement lists
		e.c16StmtList(s, ff, "NewQueue", "newQueueStmts")
		e.c16StmtList(s, ff, "Queue.Put", "queuePutStmts")
		e.c16StmtList(s, ff, "Queue.Take", "queueTakeStmts")
		e.c16StmtList(s, ff, "Queue.Empty", "queueEmptyStmts")
		e.c16StmtList(s, rg, "Ring.Add", "ringAddStmts")
		e.c16StmtList(s, rg, "Ring.Take", "ringTakeStmts")
		e.c16StmtList(s, sm, "SafeMap.Set", "safeMapSetStmts")
		e.c16StmtList(s, sm, "SafeMap.Del", "safeMapDelStmts")
		e.c16StmtList(s, sm, "SafeMap.Get", "safeMapGetStmts")
		e.c16StmtList(s, sm, "SafeMap.Size", "safeMapSizeStmts")
		e.c16StmtList(s, sm, "SafeMap.Range", "safeMapRangeStmts")
		e.c16StmtList(s, st, "Set.add", "setAddStmts")
		e.c16StmtList(s, st, "Set.Contains", "setContainsStmts")
		e.c16StmtList(s, st, "Set.Remove", "setRemoveStmts")
		e.c16StmtList(s, st, "Set.Count", "setCountStmts")
		e.c16StmtList(s, rw, "RollingWindow.Add", "rwAddStmts")
		e.c16StmtList(s, rw, "RollingWindow.Reduce", "rwReduceStmts")
		e.c16StmtList(s, rw, "RollingWindow.updateOffset", "rwUpdateStmts")
		e.c16StmtList(s, rw, "window.add", "winAddStmts")
		e.c16StmtList(s, rw, "window.reduce", "winReduceStmts")
		e.c16StmtList(s, rw, "window.resetBucket", "winResetStmts")
		e.c16StmtList(s, ca, "Cache.Del", "cacheDelStmts")
		e.c16StmtList(s, ca, "Cache.SetWithExpire", "cacheSetStmts")
		e.c16StmtList(s, ca, "Cache.Set", "cacheSetDefaultStmts")
		e.c16StmtList(s, ca, "Cache.Take", "cacheTakeStmts")
		e.c16StmtList(s, ca, "Cache.doGet", "cacheDoGetStmts")
		e.c16StmtList(s, ca, "Cache.onEvict", "cacheOnEvictStmts")
		e.c16StmtList(s, ca, "WithLimit", "cacheWithLimitStmts")
		e.c16StmtList(s, ca, "keyLru.add", "lruAddStmts")
		e.c16StmtList(s, ca, "keyLru.remove", "lruRemoveStmts")
		e.c16StmtList(s, ca, "keyLru.removeOldest", "lruRemoveOldestStmts")
		e.c16StmtList(s, ca, "keyLru.removeElement", "lruRemoveElementStmts")
		// statistics: Get / Take with their stats calls kept (hit / miss accounting of the driver's monitor)
		c16DropSaved := c16Drop
		c16Drop = regexp.MustCompile(`^(defer )?\w+(\.\w+)*\.(Lock|Unlock|RLock|RUnlock)\(\)$|^logx\.`)
		e.c16StmtList(s, ca, "Cache.Get", "cacheGetStatStmts")
		e.c16StmtList(s, ca, "Cache.Take", "cacheTakeStatStmts")
		c16Drop = c16DropSaved
		// SetTimer rejects a non-positive delay (CacheG.setNoTimer)
		e.c16StmtList(s, "core/collection/timingwheel.go", "TimingWheel.SetTimer", "wheelSetTimerStmts")
		// lock frames (the interleaving models Conc.lean / ConcTake.lean: which lock, held over which statements)
		e.c16LockFrame(s, ff, "Queue.Put", "queuePutLocks")
		e.c16LockFrame(s, ff, "Queue.Take", "queueTakeLocks")
		e.c16LockFrame(s, ff, "Queue.Empty", "queueEmptyLocks")
		e.c16LockFrame(s, rg, "Ring.Add", "ringAddLocks")
		e.c16LockFrame(s, rg, "Ring.Take", "ringTakeLocks")
		e.c16LockFrame(s, sm, "SafeMap.Set", "safeMapSetLocks")
		e.c16LockFrame(s, sm, "SafeMap.Del", "safeMapDelLocks")
		e.c16LockFrame(s, sm, "SafeMap.Get", "safeMapGetLocks")
		e.c16LockFrame(s, sm, "SafeMap.Size", "safeMapSizeLocks")
		e.c16LockFrame(s, sm, "SafeMap.Range", "safeMapRangeLocks")
		e.c16LockFrame(s, ca, "Cache.doGet", "cacheDoGetLocks")
		e.c16LockFrame(s, ca, "Cache.Del", "cacheDelLocks")
		e.c16LockFrame(s, ca, "Cache.SetWithExpire", "cacheSetLocks")
		e.c16LockFrame(s, ca, "Cache.size", "cacheSizeLocks")
		// the wheel the cache builds and its expiry callback
		if fd := s.findFunc(ca, "NewCache"); fd != nil {
			var wheel []string
			ast.Inspect(fd, func(n ast.Node) bool {
				if c, ok := n.(*ast.CallExpr); ok {
					if id, ok := c.Fun.(*ast.Ident); ok && id.Name == "NewTimingWheel" && len(c.Args) == 3 {
						wheel = append(wheel, s.src(c.Args[0]), s.src(c.Args[1]))
						if fl, ok := c.Args[2].(*ast.FuncLit); ok {
							s.c16Stmts(fl.Body.List, &wheel)
						}
						return false
					}
				}
				return true
			})
			e.stringList("cacheWheel", "interval, slots and execute callback of the wheel built by `NewCache`", wheel)
		} else {
			e.errors = append(e.errors, "function NewCache not found in "+ca)
		}
	})
}
