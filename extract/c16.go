package main

import (
	"fmt"
	"go/ast"
	"go/token"
	"regexp"
	"strings"
)

// C16: in-memory collections.
//   * constants (SafeMap thresholds, cache slots / expiry deviation)
//   * translated arithmetic where the translator's subset reaches (queue index updates, RollingWindow.span and
//     the offset/lastTime update of updateOffset, with timex.Since/Now as the clock parameter)
//   * statement lists ("what the function does, statement by statement", normalised source text, control
//     structure flattened, locking / logging / statistics dropped) for the small functions the models were
//     written against: every statement of these functions is semantically relevant to the property.

var c16Drop = regexp.MustCompile(`^(defer )?\w+(\.\w+)*\.(Lock|Unlock|RLock|RUnlock)\(\)$|^(\w+\.)?stats\.|^c\.stats\.|^logx\.`)

func (s *source) c16Stmts(list []ast.Stmt, out *[]string) {
	for _, st := range list {
		s.c16Stmt(st, out)
	}
}

func (s *source) c16Stmt(st ast.Stmt, out *[]string) {
	switch x := st.(type) {
	case *ast.BlockStmt:
		s.c16Stmts(x.List, out)
	case *ast.IfStmt:
		hdr := "if "
		if x.Init != nil {
			hdr += s.src(x.Init) + "; "
		}
		*out = append(*out, hdr+s.src(x.Cond)+" {")
		s.c16Stmts(x.Body.List, out)
		*out = append(*out, "}")
		if x.Else != nil {
			*out = append(*out, "else {")
			s.c16Stmt(x.Else, out)
			*out = append(*out, "}")
		}
	case *ast.ForStmt:
		hdr := "for "
		if x.Init != nil {
			hdr += s.src(x.Init)
		}
		hdr += "; "
		if x.Cond != nil {
			hdr += s.src(x.Cond)
		}
		hdr += "; "
		if x.Post != nil {
			hdr += s.src(x.Post)
		}
		*out = append(*out, hdr+" {")
		s.c16Stmts(x.Body.List, out)
		*out = append(*out, "}")
	case *ast.RangeStmt:
		hdr := "range "
		if x.Key != nil {
			hdr += s.src(x.Key)
		}
		if x.Value != nil {
			hdr += ", " + s.src(x.Value)
		}
		*out = append(*out, hdr+" := "+s.src(x.X)+" {")
		s.c16Stmts(x.Body.List, out)
		*out = append(*out, "}")
	case *ast.SwitchStmt:
		hdr := "switch"
		if x.Tag != nil {
			hdr += " " + s.src(x.Tag)
		}
		*out = append(*out, hdr+" {")
		for _, c := range x.Body.List {
			cc := c.(*ast.CaseClause)
			if cc.List == nil {
				*out = append(*out, "default:")
			} else {
				var cs []string
				for _, e := range cc.List {
					cs = append(cs, s.src(e))
				}
				*out = append(*out, "case "+strings.Join(cs, ", ")+":")
			}
			s.c16Stmts(cc.Body, out)
		}
		*out = append(*out, "}")
	case *ast.EmptyStmt:
	default:
		txt := s.src(st)
		if !c16Drop.MatchString(txt) {
			*out = append(*out, txt)
		}
	}
}

func (e *emitter) c16StmtList(s *source, rel, goName, leanName string) {
	fd := s.findFunc(rel, goName)
	if fd == nil {
		e.errors = append(e.errors, "function "+goName+" not found in "+rel)
		e.stringList(leanName, "MISSING: "+goName+" in "+rel, []string{"MISSING"})
		return
	}
	var out []string
	s.c16Stmts(fd.Body.List, &out)
	e.stringList(leanName, "statements of `"+goName+"` in "+rel+" (locking, logging, statistics dropped)", out)
}

var c16LockCall = regexp.MustCompile(`^(defer )?\w+(\.\w+)*\.(Lock|Unlock|RLock|RUnlock)\(\)$`)

// c16LockFrame emits where a method takes and releases its lock: the lock statements verbatim, the
// statements executed while the lock is held collapsed into one "body" token (their text is pinned by the
// statement lists), and every statement outside the locked region verbatim (it must not touch shared
// state). A lock call nested in a compound statement is reported as "nested: …".
func (e *emitter) c16LockFrame(s *source, rel, goName, leanName string) {
	fd := s.findFunc(rel, goName)
	if fd == nil {
		e.errors = append(e.errors, "function "+goName+" not found in "+rel)
		e.stringList(leanName, "MISSING: "+goName+" in "+rel, []string{"MISSING"})
		return
	}
	var out []string
	held := false
	for _, st := range fd.Body.List {
		txt := s.src(st)
		if c16LockCall.MatchString(txt) {
			out = append(out, txt)
			if strings.HasPrefix(txt, "defer ") {
				continue
			}
			held = strings.HasSuffix(txt, "Lock()") && !strings.HasSuffix(txt, "Unlock()")
			continue
		}
		// lock calls hidden inside compound statements
		ast.Inspect(st, func(n ast.Node) bool {
			if c, ok := n.(*ast.CallExpr); ok {
				if t := s.src(c); c16LockCall.MatchString(t) {
					out = append(out, "nested: "+t)
				}
			}
			return true
		})
		if held {
			if len(out) == 0 || out[len(out)-1] != "body" {
				out = append(out, "body")
			}
		} else {
			out = append(out, strings.Join(strings.Fields(txt), " "))
		}
	}
	e.stringList(leanName, "lock frame of `"+goName+"` in "+rel+" (lock statements, `body` = statements under the lock, statements outside verbatim)", out)
}

// ---------------------------------------------------------------------------------------------------------
// round 4: semantic ties.  Decision-making conditions and index arithmetic are TRANSLATED (translate.go's
// expression / statement subset, after two source-level rewrites: `x << k` -> `x * 2^k`, a niladic method call
// such as `klru.evicts.Len()` -> the identifier `evicts_Len`; `x == nil` -> the Bool `xNil`), the growth block
// of Queue.Put is translated into a list program (make / copy / reslice), the type switches of Set into tables.

func c16Rewrite(e ast.Expr) ast.Expr {
	switch x := e.(type) {
	case *ast.ParenExpr:
		return &ast.ParenExpr{X: c16Rewrite(x.X)}
	case *ast.UnaryExpr:
		return &ast.UnaryExpr{Op: x.Op, X: c16Rewrite(x.X)}
	case *ast.BinaryExpr:
		if x.Op == token.SHL {
			if lit, ok := x.Y.(*ast.BasicLit); ok && lit.Kind == token.INT && len(lit.Value) == 1 {
				k := int(lit.Value[0] - '0')
				return &ast.ParenExpr{X: &ast.BinaryExpr{X: c16Rewrite(x.X), Op: token.MUL, Y: &ast.BasicLit{Kind: token.INT, Value: fmt.Sprint(1 << k)}}}
			}
		}
		if (x.Op == token.EQL || x.Op == token.NEQ) && c12IsIdent(x.Y, "nil") {
			if id, ok := x.X.(*ast.Ident); ok {
				v := ast.Expr(ast.NewIdent(id.Name + "Nil"))
				if x.Op == token.NEQ {
					return &ast.UnaryExpr{Op: token.NOT, X: v}
				}
				return v
			}
		}
		return &ast.BinaryExpr{X: c16Rewrite(x.X), Op: x.Op, Y: c16Rewrite(x.Y)}
	case *ast.CallExpr:
		if sel, ok := x.Fun.(*ast.SelectorExpr); ok && len(x.Args) == 0 {
			if inner, ok := sel.X.(*ast.SelectorExpr); ok {
				return ast.NewIdent(inner.Sel.Name + "_" + sel.Sel.Name)
			}
		}
	}
	return e
}

func c16RewriteStmt(st ast.Stmt) ast.Stmt {
	switch x := st.(type) {
	case *ast.AssignStmt:
		n := *x
		n.Rhs = nil
		for _, r := range x.Rhs {
			n.Rhs = append(n.Rhs, c16Rewrite(r))
		}
		return &n
	case *ast.IfStmt:
		n := *x
		n.Cond = c16Rewrite(x.Cond)
		n.Body = c16RewriteBlock(x.Body)
		if b, ok := x.Else.(*ast.BlockStmt); ok {
			n.Else = c16RewriteBlock(b)
		} else if x.Else != nil {
			n.Else = c16RewriteStmt(x.Else)
		}
		return &n
	case *ast.BlockStmt:
		return c16RewriteBlock(x)
	}
	return st
}

func c16RewriteBlock(b *ast.BlockStmt) *ast.BlockStmt {
	n := &ast.BlockStmt{}
	for _, st := range b.List {
		n.List = append(n.List, c16RewriteStmt(st))
	}
	return n
}

func (e *emitter) c16Fail(leanName, msg string) {
	e.errors = append(e.errors, leanName+": "+msg)
	e.printf("/-- TRANSLATION FAILED: %s -/\ndef %s : Unit := ()\n\n", msg, leanName)
}

func c16Recv(fd *ast.FuncDecl) string {
	if fd.Recv != nil && len(fd.Recv.List) == 1 && len(fd.Recv.List[0].Names) == 1 {
		return fd.Recv.List[0].Names[0].Name
	}
	return ""
}

// c16Expr emits `def leanName (free variables …) : Bool|Int` for the expression pick(fd) selects.
func (e *emitter) c16Expr(t *translator, s *source, rel, goName, leanName string, isBool bool, pick func(fd *ast.FuncDecl) ast.Expr) {
	fd := s.findFunc(rel, goName)
	if fd == nil {
		e.c16Fail(leanName, "function "+goName+" not found in "+rel)
		return
	}
	defer func() {
		if p := recover(); p != nil {
			if te, ok := p.(transErr); ok {
				e.c16Fail(leanName, te.msg)
				return
			}
			e.c16Fail(leanName, fmt.Sprint(p))
		}
	}()
	x := pick(fd)
	if x == nil {
		e.c16Fail(leanName, "expression not found in "+goName)
		return
	}
	c := &tctx{t: t, recv: c16Recv(fd), locals: map[string]bool{}, freeSet: map[string]bool{}, boolVars: map[string]bool{}}
	body := c.expr(c16Rewrite(x), isBool)
	var params []string
	for _, f := range c.free {
		ty := "Int"
		if c.boolVars[f] {
			ty = "Bool"
		}
		params = append(params, "("+f+" : "+ty+")")
	}
	ty := "Int"
	if isBool {
		ty = "Bool"
	}
	e.printf("/-- `%s` in `%s` (%s) -/\ndef %s %s : %s :=\n  %s\n\n", s.src(x), goName, rel, leanName, strings.Join(params, " "), ty, body)
}

// c16Value translates the statements pick(fd) selects into a value function: `params` are mutable Int variables
// bound by the caller (receiver fields read and written by the statements), `zero` are Go variables declared with
// `var x int` (start at 0), `results` is what the function returns at the end.
func (e *emitter) c16Value(t *translator, s *source, rel, goName, leanName string, params, zero, results []string, pick func(fd *ast.FuncDecl) []ast.Stmt) {
	fd := s.findFunc(rel, goName)
	if fd == nil {
		e.c16Fail(leanName, "function "+goName+" not found in "+rel)
		return
	}
	defer func() {
		if p := recover(); p != nil {
			if te, ok := p.(transErr); ok {
				e.c16Fail(leanName, te.msg)
				return
			}
			e.c16Fail(leanName, fmt.Sprint(p))
		}
	}()
	list := pick(fd)
	if len(list) == 0 {
		e.c16Fail(leanName, "statements not found in "+goName)
		return
	}
	var rl []ast.Stmt
	for _, st := range list {
		rl = append(rl, c16RewriteStmt(st))
	}
	c := &tctx{t: t, recv: c16Recv(fd), locals: map[string]bool{}, freeSet: map[string]bool{}, boolVars: map[string]bool{}, results: results}
	var ps []string
	for _, p := range params {
		c.locals[p] = true
		ps = append(ps, "("+leanIdent(p)+" : Int)")
	}
	pre := ""
	for _, z := range zero {
		c.locals[z] = true
		pre += "  let " + leanIdent(z) + " : Int := 0\n"
	}
	body := c.stmts(rl, nil, "  ")
	for _, f := range c.free {
		ty := "Int"
		if c.boolVars[f] {
			ty = "Bool"
		}
		ps = append(ps, "("+f+" : "+ty+")")
	}
	ty := "Int"
	if len(results) == 2 {
		ty = "Int × Int"
	}
	var txt []string
	for _, st := range list {
		txt = append(txt, strings.Join(strings.Fields(s.src(st)), " "))
	}
	e.printf("/-- translated from `%s` in %s: `%s` -/\ndef %s %s : %s :=\n%s%s\n\n", goName, rel, strings.Join(txt, " ; "), leanName, strings.Join(ps, " "), ty, pre, body)
}

func c16NthIf(fd *ast.FuncDecl, n int) *ast.IfStmt {
	var found *ast.IfStmt
	i := 0
	ast.Inspect(fd.Body, func(nd ast.Node) bool {
		if is, ok := nd.(*ast.IfStmt); ok {
			if i == n && found == nil {
				found = is
			}
			i++
		}
		return true
	})
	return found
}

func c16IfCond(n int) func(fd *ast.FuncDecl) ast.Expr {
	return func(fd *ast.FuncDecl) ast.Expr {
		if is := c16NthIf(fd, n); is != nil {
			return is.Cond
		}
		return nil
	}
}

// c16StmtsFrom: the top-level statements of the body from the first one whose text starts with `from`
// up to and including the first one (after it) whose text starts with `to` ("" = to the end)
func (s *source) c16StmtsFrom(from, to string) func(fd *ast.FuncDecl) []ast.Stmt {
	return func(fd *ast.FuncDecl) []ast.Stmt {
		var out []ast.Stmt
		on := false
		for _, st := range fd.Body.List {
			txt := s.src(st)
			if !on && strings.HasPrefix(txt, from) {
				on = true
			}
			if on {
				out = append(out, st)
				if to != "" && strings.HasPrefix(txt, to) && len(out) > 0 && (from != to || len(out) == 1) {
					break
				}
			}
		}
		return out
	}
}

// ---- list programs (the growth block of Queue.Put)

type c16ListCtx struct {
	recv  string
	lists map[string]bool
}

func (c *c16ListCtx) name(e ast.Expr) string {
	switch x := e.(type) {
	case *ast.Ident:
		return x.Name
	case *ast.SelectorExpr:
		if id, ok := x.X.(*ast.Ident); ok && id.Name == c.recv {
			return x.Sel.Name
		}
	}
	failf("list program: unsupported name")
	return ""
}

func (c *c16ListCtx) intExpr(e ast.Expr) string {
	switch x := e.(type) {
	case *ast.ParenExpr:
		return c.intExpr(x.X)
	case *ast.BasicLit:
		if x.Kind == token.INT {
			return x.Value
		}
	case *ast.Ident, *ast.SelectorExpr:
		return leanIdent(c.name(x))
	case *ast.BinaryExpr:
		if x.Op == token.ADD || x.Op == token.SUB {
			return "(" + c.intExpr(x.X) + " " + x.Op.String() + " " + c.intExpr(x.Y) + ")"
		}
	case *ast.CallExpr:
		if id, ok := x.Fun.(*ast.Ident); ok && id.Name == "len" && len(x.Args) == 1 {
			return "((" + leanIdent(c.name(x.Args[0])) + ".length : Nat) : Int)"
		}
	}
	failf("list program: unsupported integer expression")
	return ""
}

// slice operand `x`, `x[a:]`, `x[:b]`, `x[a:b]` -> (list name, low, high) with high "" = len
func (c *c16ListCtx) sliceOf(e ast.Expr) (string, string, string) {
	if se, ok := e.(*ast.SliceExpr); ok {
		n := leanIdent(c.name(se.X))
		lo, hi := "0", "(("+n+".length : Nat) : Int)"
		if se.Low != nil {
			lo = c.intExpr(se.Low)
		}
		if se.High != nil {
			hi = c.intExpr(se.High)
		}
		return n, lo, hi
	}
	n := leanIdent(c.name(e))
	return n, "0", "((" + n + ".length : Nat) : Int)"
}

// c16ListProg translates `x := make([]any, n)`, `copy(dst[a:], src[b:c])`, `recv.f = intexpr`, `recv.l = list`
// into a Lean term over `List Nat` and `Int`; result = (results …).
func (e *emitter) c16ListProg(s *source, rel, goName, leanName string, lists, ints, results []string, pick func(fd *ast.FuncDecl) []ast.Stmt) {
	fd := s.findFunc(rel, goName)
	if fd == nil {
		e.c16Fail(leanName, "function "+goName+" not found in "+rel)
		return
	}
	defer func() {
		if p := recover(); p != nil {
			if te, ok := p.(transErr); ok {
				e.c16Fail(leanName, te.msg)
				return
			}
			e.c16Fail(leanName, fmt.Sprint(p))
		}
	}()
	c := &c16ListCtx{recv: c16Recv(fd), lists: map[string]bool{}}
	for _, l := range lists {
		c.lists[l] = true
	}
	body := ""
	var txt []string
	for _, st := range pick(fd) {
		txt = append(txt, strings.Join(strings.Fields(s.src(st)), " "))
		switch x := st.(type) {
		case *ast.AssignStmt:
			if len(x.Lhs) != 1 || len(x.Rhs) != 1 {
				failf("list program: multi assignment")
			}
			lhs := c.name(x.Lhs[0])
			if call, ok := x.Rhs[0].(*ast.CallExpr); ok {
				if id, ok := call.Fun.(*ast.Ident); ok && id.Name == "make" && len(call.Args) == 2 {
					c.lists[lhs] = true
					body += "  let " + leanIdent(lhs) + " : List Nat := goMake " + c.intExpr(call.Args[1]) + "\n"
					continue
				}
			}
			if n, ok := x.Rhs[0].(*ast.Ident); ok && c.lists[n.Name] {
				c.lists[lhs] = true
				body += "  let " + leanIdent(lhs) + " : List Nat := " + leanIdent(n.Name) + "\n"
				continue
			}
			body += "  let " + leanIdent(lhs) + " : Int := " + c.intExpr(x.Rhs[0]) + "\n"
		case *ast.ExprStmt:
			call, ok := x.X.(*ast.CallExpr)
			if !ok {
				failf("list program: unsupported statement")
			}
			id, ok := call.Fun.(*ast.Ident)
			if !ok || id.Name != "copy" || len(call.Args) != 2 {
				failf("list program: unsupported call")
			}
			dn, dlo, _ := c.sliceOf(call.Args[0])
			sn, slo, shi := c.sliceOf(call.Args[1])
			body += fmt.Sprintf("  let %s : List Nat := goCopy %s %s (goSlice %s %s %s)\n", dn, dn, dlo, sn, slo, shi)
		default:
			failf("list program: unsupported statement %T", st)
		}
	}
	var ps, rs []string
	for _, l := range lists {
		ps = append(ps, "("+leanIdent(l)+" : List Nat)")
	}
	for _, i := range ints {
		ps = append(ps, "("+leanIdent(i)+" : Int)")
	}
	for _, r := range results {
		rs = append(rs, leanIdent(r))
	}
	e.printf("/-- translated from `%s` in %s: `%s` -/\ndef %s %s : List Nat × Int × Int :=\n%s  (%s)\n\n", goName, rel, strings.Join(txt, " ; "), leanName, strings.Join(ps, " "), body, strings.Join(rs, ", "))
}

// ---- Set: constants (iota block) and the type switches

func (e *emitter) c16IotaConsts(s *source, rel, first, leanName string) map[string]int {
	vals := map[string]int{}
	var items []string
	for _, d := range s.file(rel).Decls {
		gd, ok := d.(*ast.GenDecl)
		if !ok || gd.Tok != token.CONST || len(gd.Specs) == 0 {
			continue
		}
		vs0 := gd.Specs[0].(*ast.ValueSpec)
		if len(vs0.Names) != 1 || vs0.Names[0].Name != first || len(vs0.Values) != 1 {
			continue
		}
		if id, ok := vs0.Values[0].(*ast.Ident); !ok || id.Name != "iota" {
			continue
		}
		for i, sp := range gd.Specs {
			vs := sp.(*ast.ValueSpec)
			if len(vs.Names) != 1 || (i > 0 && len(vs.Values) != 0) {
				e.errors = append(e.errors, leanName+": const block is not a plain iota enumeration")
				continue
			}
			vals[vs.Names[0].Name] = i
			items = append(items, fmt.Sprintf("(%q, %d)", vs.Names[0].Name, i))
		}
	}
	if len(items) == 0 {
		e.errors = append(e.errors, leanName+": iota block starting with "+first+" not found in "+rel)
	}
	e.printf("/-- the `iota` constants of %s (name, value) -/\ndef %s : List (String × Int) := [%s]\n\n", rel, leanName, strings.Join(items, ", "))
	return vals
}

// c16TypeSwitch: for every case of the (single) type switch in goName: (Go type, "lhs op rhs" of the assignment or of
// the if-condition in its body with constants replaced by their values)
func (e *emitter) c16TypeSwitch(s *source, rel, goName, leanName string, consts map[string]int) {
	fd := s.findFunc(rel, goName)
	if fd == nil {
		e.c16Fail(leanName, "function "+goName+" not found in "+rel)
		return
	}
	val := func(x ast.Expr) int {
		if id, ok := x.(*ast.Ident); ok {
			if v, ok := consts[id.Name]; ok {
				return v
			}
		}
		return -1
	}
	var items []string
	ast.Inspect(fd.Body, func(n ast.Node) bool {
		ts, ok := n.(*ast.TypeSwitchStmt)
		if !ok {
			return true
		}
		for _, cl := range ts.Body.List {
			cc := cl.(*ast.CaseClause)
			var tys []string
			for _, t := range cc.List {
				tys = append(tys, s.src(t))
			}
			what, v := "?", -1
			if len(cc.Body) == 1 {
				switch b := cc.Body[0].(type) {
				case *ast.AssignStmt:
					if len(b.Lhs) == 1 && len(b.Rhs) == 1 {
						what, v = s.src(b.Lhs[0])+" "+b.Tok.String(), val(b.Rhs[0])
					}
				case *ast.IfStmt:
					if be, ok := b.Cond.(*ast.BinaryExpr); ok && b.Else == nil && b.Init == nil && len(b.Body.List) == 1 && strings.HasPrefix(s.src(b.Body.List[0]), "logx.") {
						what, v = "log if "+s.src(be.X)+" "+be.Op.String(), val(be.Y)
					}
				}
			}
			if cc.List == nil {
				tys = []string{"default"}
			}
			items = append(items, fmt.Sprintf("(%q, %q, %d)", strings.Join(tys, ","), what, v))
		}
		return false
	})
	e.printf("/-- cases of the type switch in `%s` (%s): (dynamic type, effect, value of the constant involved) -/\ndef %s : List (String × String × Int) := [%s]\n\n", goName, rel, leanName, strings.Join(items, ", "))
}

func c16Round4(s *source, e *emitter, t *translator) {
	const (
		sm = "core/collection/safemap.go"
		ff = "core/collection/fifo.go"
		rg = "core/collection/ring.go"
		st = "core/collection/set.go"
		rw = "core/collection/rollingwindow.go"
		ca = "core/collection/cache.go"
		tw = "core/collection/timingwheel.go"
	)
	e.printf("/-! ### round 4: translated conditions, index arithmetic, list programs -/\n\n")
	e.printf("/-- `make([]any, n)` -/\ndef goMake (n : Int) : List Nat := List.replicate n.toNat 0\n\n")
	e.printf("/-- `l[a:b]` (bounds assumed valid) -/\ndef goSlice (l : List Nat) (a b : Int) : List Nat := (l.take b.toNat).drop a.toNat\n\n")
	e.printf("/-- `copy(dst[at:], src)`: min(len(dst)-at, len(src)) elements -/\ndef goCopy (dst : List Nat) (at' : Int) (src : List Nat) : List Nat :=\n  dst.take at'.toNat ++ src.take (dst.length - at'.toNat) ++ dst.drop (at'.toNat + min src.length (dst.length - at'.toNat))\n\n")
	// Queue
	e.c16Expr(t, s, ff, "Queue.Put", "queueFullCond", true, c16IfCond(0))
	e.c16Expr(t, s, ff, "Queue.Take", "queueTakeEmptyCond", true, c16IfCond(0))
	e.c16Expr(t, s, ff, "Queue.Empty", "queueEmptyExpr", true, func(fd *ast.FuncDecl) ast.Expr {
		for _, x := range fd.Body.List {
			if as, ok := x.(*ast.AssignStmt); ok && len(as.Rhs) == 1 {
				return as.Rhs[0]
			}
		}
		return nil
	})
	e.c16ListProg(s, ff, "Queue.Put", "queueGrowProg", []string{"elements"}, []string{"head", "size"}, []string{"elements", "head", "tail"},
		func(fd *ast.FuncDecl) []ast.Stmt {
			if is := c16NthIf(fd, 0); is != nil {
				return is.Body.List
			}
			return nil
		})
	// Ring
	e.c16Expr(t, s, rg, "NewRing", "newRingGuard", true, c16IfCond(0))
	e.c16Expr(t, s, rg, "Ring.Add", "ringAddSlot", false, func(fd *ast.FuncDecl) ast.Expr {
		for _, x := range fd.Body.List {
			if as, ok := x.(*ast.AssignStmt); ok && len(as.Lhs) == 1 {
				if ix, ok := as.Lhs[0].(*ast.IndexExpr); ok {
					return ix.Index
				}
			}
		}
		return nil
	})
	e.c16Value(t, s, rg, "Ring.Add", "ringAddIndex", []string{"index"}, nil, []string{"index"}, s.c16StmtsFrom("r.index++", ""))
	e.c16Value(t, s, rg, "Ring.Take", "ringTakeWindow", nil, []string{"size", "start"}, []string{"size", "start"}, s.c16StmtsFrom("if r.index", "if r.index"))
	e.c16Expr(t, s, rg, "Ring.Take", "ringTakeSlot", false, func(fd *ast.FuncDecl) ast.Expr {
		var found ast.Expr
		ast.Inspect(fd.Body, func(n ast.Node) bool {
			if fs, ok := n.(*ast.ForStmt); ok {
				for _, x := range fs.Body.List {
					if as, ok := x.(*ast.AssignStmt); ok && len(as.Rhs) == 1 {
						if ix, ok := as.Rhs[0].(*ast.IndexExpr); ok {
							found = ix.Index
						}
					}
				}
			}
			return true
		})
		return found
	})
	e.c16Expr(t, s, rg, "Ring.Take", "ringTakeLoopCond", true, func(fd *ast.FuncDecl) ast.Expr {
		var found ast.Expr
		ast.Inspect(fd.Body, func(n ast.Node) bool {
			if fs, ok := n.(*ast.ForStmt); ok && found == nil {
				found = fs.Cond
			}
			return true
		})
		return found
	})
	// Set
	consts := e.c16IotaConsts(s, st, "unmanaged", "setTypeConsts")
	e.c16TypeSwitch(s, st, "Set.setType", "setSetTypeCases", consts)
	e.c16TypeSwitch(s, st, "Set.validate", "setValidateCases", consts)
	ts := &translator{registry: map[string]*transFunc{}, consts: map[string]string{}}
	for k, v := range consts {
		ts.consts[k] = fmt.Sprint(v)
	}
	e.c16Expr(ts, s, st, "Set.validate", "setValidateSkip", true, c16IfCond(0))
	e.c16Expr(ts, s, st, "Set.Contains", "setContainsEmptyGuard", true, c16IfCond(0))
	// SafeMap (constants by name: defined above in this file)
	tm := &translator{registry: map[string]*transFunc{}, consts: map[string]string{"maxDeletion": "maxDeletion", "copyThreshold": "copyThreshold"}}
	e.c16Expr(tm, s, sm, "SafeMap.Set", "safeMapSetOldCond", true, c16IfCond(0))
	e.c16Expr(tm, s, sm, "SafeMap.Del", "safeMapMigrate1Cond", true, c16IfCond(2))
	e.c16Expr(tm, s, sm, "SafeMap.Del", "safeMapMigrate2Cond", true, c16IfCond(3))
	// Cache
	e.c16Expr(t, s, ca, "WithLimit", "cacheLimitGuard", true, c16IfCond(0))
	e.c16Expr(t, s, ca, "keyLru.add", "lruOverflowCond", true, c16IfCond(1))
	e.c16Expr(t, s, tw, "TimingWheel.SetTimer", "wheelSetTimerRejects", true, c16IfCond(0))
	// the wheel interval NewCache passes, evaluated
	if fd := s.findFunc(ca, "NewCache"); fd != nil {
		done := false
		ast.Inspect(fd, func(n ast.Node) bool {
			if c, ok := n.(*ast.CallExpr); ok && !done {
				if id, ok := c.Fun.(*ast.Ident); ok && id.Name == "NewTimingWheel" && len(c.Args) == 3 {
					if v, ok := s.eval(ca, c.Args[0]); ok {
						e.printf("/-- first argument of `NewTimingWheel` in `NewCache` (ns) -/\ndef cacheWheelIntervalNs : Int := %s\n\n", v.ExactString())
						done = true
					}
				}
			}
			return true
		})
		if !done {
			e.c16Fail("cacheWheelIntervalNs", "interval argument of NewTimingWheel not evaluable")
		}
	}
	// RollingWindow.Reduce: diff, start offset, guard
	e.c16Value(t, s, rw, "RollingWindow.Reduce", "rwReduceDiff", nil, []string{"diff"}, []string{"diff"}, s.c16StmtsFrom("span := ", "if span"))
	e.c16Expr(t, s, rw, "RollingWindow.Reduce", "rwReduceGuard", true, c16IfCond(1))
	e.c16Expr(t, s, rw, "RollingWindow.Reduce", "rwReduceStart", false, func(fd *ast.FuncDecl) ast.Expr {
		if is := c16NthIf(fd, 1); is != nil {
			for _, x := range is.Body.List {
				if as, ok := x.(*ast.AssignStmt); ok && len(as.Rhs) == 1 {
					return as.Rhs[0]
				}
			}
		}
		return nil
	})
	e.c16Expr(t, s, rw, "RollingWindow.updateOffset", "rwUpdateSkip", true, c16IfCond(0))
	// statement lists of the constructors and of the glue not yet pinned
	e.c16StmtList(s, rg, "NewRing", "newRingStmts")
	e.c16StmtList(s, st, "NewSet", "newSetStmts")
	e.c16StmtList(s, st, "NewUnmanagedSet", "newUnmanagedSetStmts")
	for _, f := range []string{"Add", "AddInt", "AddInt64", "AddUint", "AddUint64", "AddStr"} {
		e.c16StmtList(s, st, "Set."+f, "setPub"+f+"Stmts")
	}
	for _, f := range []string{"Keys", "KeysInt", "KeysInt64", "KeysUint", "KeysUint64", "KeysStr"} {
		e.c16StmtList(s, st, "Set."+f, "setPub"+f+"Stmts")
	}
	e.c16StmtList(s, sm, "NewSafeMap", "newSafeMapStmts")
	e.c16StmtList(s, rw, "NewRollingWindow", "newRollingWindowStmts")
	e.c16StmtList(s, rw, "newWindow", "newWindowStmts")
	e.c16StmtList(s, rw, "IgnoreCurrentBucket", "ignoreCurrentStmts")
	e.c16StmtList(s, rw, "Bucket.Add", "bucketAddStmts")
	e.c16StmtList(s, rw, "Bucket.Reset", "bucketResetStmts")
	e.c16StmtList(s, ca, "newKeyLru", "newKeyLruStmts")
	e.c16StmtList(s, ca, "Cache.size", "cacheSizeStmts")
	e.c16StmtList(s, ca, "newCacheStat", "newCacheStatStmts")
	e.c16StmtList(s, ca, "NewCache", "newCacheStmts")
}

// ---------------------------------------------------------------- round 5

// c16Effects emits the calls of a function in source order as a typed list `List (String × String × List String)`:
// (kind, callee, argument texts); kind = "call" | "defer" | "go".  A function literal handed to a call is printed as
// `func` in the argument list and its body follows (it is part of the path: the closure of barrier.Do, the callback of
// NewTimingWheel, the option closure WithLimit returns).
func (e *emitter) c16Effects(s *source, rel, goName, leanName string) {
	fd := s.findFunc(rel, goName)
	if fd == nil {
		e.c16Fail(leanName, "function "+goName+" not found in "+rel)
		return
	}
	type eff struct {
		kind, callee string
		args         []string
	}
	var out []eff
	txt := func(x ast.Expr) string {
		if _, ok := x.(*ast.FuncLit); ok {
			return "func"
		}
		return strings.Join(strings.Fields(s.src(x)), " ")
	}
	var visit func(n ast.Node, kind string)
	visit = func(n ast.Node, kind string) {
		ast.Inspect(n, func(nd ast.Node) bool {
			switch x := nd.(type) {
			case *ast.DeferStmt:
				visit(x.Call, "defer")
				return false
			case *ast.GoStmt:
				visit(x.Call, "go")
				return false
			case *ast.AssignStmt:
				// `m[k] = v`: a store into a map (slices too), the other kind of effect besides calls
				if len(x.Lhs) == 1 && len(x.Rhs) == 1 && x.Tok == token.ASSIGN {
					if ix, ok := x.Lhs[0].(*ast.IndexExpr); ok {
						visit(x.Rhs[0], "call")
						out = append(out, eff{"store", txt(ix.X), []string{txt(ix.Index), txt(x.Rhs[0])}})
						return false
					}
				}
				return true
			case *ast.CallExpr:
				callee := txt(x.Fun)
				switch callee {
				case "make", "len", "panic", "append", "int", "new":
					return true
				}
				var args []string
				for _, a := range x.Args {
					args = append(args, txt(a))
				}
				out = append(out, eff{kind, callee, args})
				kind = "call"
				// the closure handed to barrier.Do / NewTimingWheel is part of the path: descend into it
				for _, a := range x.Args {
					if fl, ok := a.(*ast.FuncLit); ok {
						visit(fl.Body, "call")
					} else {
						visit(a, "call")
					}
				}
				return false
			}
			return true
		})
	}
	visit(fd.Body, "call")
	e.printf("/-- calls of `%s` in %s, in source order: (kind, callee, arguments) -/\ndef %s : List (String × String × List String) := [\n", goName, rel, leanName)
	for i, x := range out {
		var as []string
		for _, a := range x.args {
			as = append(as, leanString(a))
		}
		sep := ","
		if i == len(out)-1 {
			sep = ""
		}
		e.printf("  (%s, %s, [%s])%s\n", leanString(x.kind), leanString(x.callee), strings.Join(as, ", "), sep)
	}
	e.printf("]\n\n")
}

// c16RangeLoops: for every `for k, v := range X { if !f(k, v) { <exit> } }` of the function, (X, exit) with
// exit = "return" | "break" | "continue" | "other"
func (e *emitter) c16RangeLoops(s *source, rel, goName, leanName string) {
	fd := s.findFunc(rel, goName)
	if fd == nil {
		e.c16Fail(leanName, "function "+goName+" not found in "+rel)
		return
	}
	var out []string
	for _, st := range fd.Body.List {
		rs, ok := st.(*ast.RangeStmt)
		if !ok {
			continue
		}
		exit := "other"
		if len(rs.Body.List) == 1 {
			if is, ok := rs.Body.List[0].(*ast.IfStmt); ok && is.Else == nil && len(is.Body.List) == 1 {
				cond := strings.Join(strings.Fields(s.src(is.Cond)), " ")
				switch b := is.Body.List[0].(type) {
				case *ast.ReturnStmt:
					exit = "return"
				case *ast.BranchStmt:
					exit = b.Tok.String()
				}
				exit = "if " + cond + " " + exit
			}
		}
		out = append(out, fmt.Sprintf("(%s, %s)", leanString(strings.Join(strings.Fields(s.src(rs.X)), " ")), leanString(exit)))
	}
	e.printf("/-- the range loops of `%s` in %s: (collection, how the loop reacts to the callback) -/\ndef %s : List (String × String) := [%s]\n\n", goName, rel, leanName, strings.Join(out, ", "))
}

// c16IfCondIn: the condition of the n-th if statement inside the first function literal of the function
func c16IfCondInLit(n int) func(fd *ast.FuncDecl) ast.Expr {
	return func(fd *ast.FuncDecl) ast.Expr {
		var lit *ast.FuncLit
		ast.Inspect(fd.Body, func(nd ast.Node) bool {
			if fl, ok := nd.(*ast.FuncLit); ok && lit == nil {
				lit = fl
			}
			return lit == nil
		})
		if lit == nil {
			return nil
		}
		var found ast.Expr
		i := 0
		ast.Inspect(lit.Body, func(nd ast.Node) bool {
			if is, ok := nd.(*ast.IfStmt); ok {
				if i == n && found == nil {
					found = is.Cond
				}
				i++
			}
			return true
		})
		return found
	}
}

// c16IndexOfCall: the (first) argument expression number `arg` of the first call of `callee` in the function
func c16ArgOfCall(s *source, callee string, arg int) func(fd *ast.FuncDecl) ast.Expr {
	return func(fd *ast.FuncDecl) ast.Expr {
		var found ast.Expr
		ast.Inspect(fd.Body, func(nd ast.Node) bool {
			if c, ok := nd.(*ast.CallExpr); ok && found == nil {
				if strings.Join(strings.Fields(s.src(c.Fun)), "") == callee && arg < len(c.Args) {
					found = c.Args[arg]
				}
			}
			return found == nil
		})
		return found
	}
}

// c16IndexExpr: the index expression of the first `x[...]` in the function body
func c16FirstIndex(fd *ast.FuncDecl) ast.Expr {
	var found ast.Expr
	ast.Inspect(fd.Body, func(nd ast.Node) bool {
		if ix, ok := nd.(*ast.IndexExpr); ok && found == nil {
			found = ix.Index
		}
		return found == nil
	})
	return found
}

func c16FirstForCond(fd *ast.FuncDecl) ast.Expr {
	var found ast.Expr
	ast.Inspect(fd.Body, func(nd ast.Node) bool {
		if fs, ok := nd.(*ast.ForStmt); ok && found == nil {
			found = fs.Cond
		}
		return found == nil
	})
	return found
}

// c16StructFields: the (field, value text) pairs of the first composite literal with keyed fields in the function -
// which parameter (or call) every field of the constructed value is initialised from
func (e *emitter) c16StructFields(s *source, rel, goName, leanName string) {
	fd := s.findFunc(rel, goName)
	if fd == nil {
		e.c16Fail(leanName, "function "+goName+" not found in "+rel)
		return
	}
	var lit *ast.CompositeLit
	ast.Inspect(fd.Body, func(nd ast.Node) bool {
		if cl, ok := nd.(*ast.CompositeLit); ok && lit == nil && len(cl.Elts) > 0 {
			if _, ok := cl.Elts[0].(*ast.KeyValueExpr); ok {
				lit = cl
			}
		}
		return lit == nil
	})
	if lit == nil {
		e.c16Fail(leanName, "no keyed composite literal in "+goName)
		return
	}
	var out []string
	for _, el := range lit.Elts {
		if kv, ok := el.(*ast.KeyValueExpr); ok {
			out = append(out, fmt.Sprintf("(%s, %s)", leanString(strings.Join(strings.Fields(s.src(kv.Key)), " ")), leanString(strings.Join(strings.Fields(s.src(kv.Value)), " "))))
		}
	}
	e.printf("/-- fields of the value `%s` constructs (%s): (field, initialised from) -/\ndef %s : List (String × String) := [%s]\n\n", goName, rel, leanName, strings.Join(out, ", "))
}

func c16Round5(s *source, e *emitter, t *translator) {
	const (
		sm = "core/collection/safemap.go"
		rw = "core/collection/rollingwindow.go"
		ca = "core/collection/cache.go"
		ff = "core/collection/fifo.go"
		rg = "core/collection/ring.go"
	)
	e.printf("/-! ### round 5: constructor guards, bucket slots, typed call lists (order of effects, forwarded arguments), loop exits -/\n\n")
	e.constDef(s, ca, "defaultCacheName", "defaultCacheName")
	// guards
	e.c16Expr(t, s, rw, "NewRollingWindow", "newRollingWindowGuard", true, c16IfCond(0))
	e.c16Expr(t, s, ca, "Cache.Take", "cacheTakeLoaderErrCond", true, c16IfCondInLit(1))
	e.c16Expr(t, s, ca, "NewCache", "newCacheNameDefaultCond", true, c16IfCond(0))
	// bucket slots and loop bounds of the window
	e.c16Expr(t, s, rw, "window.add", "winAddSlot", false, c16FirstIndex)
	e.c16Expr(t, s, rw, "window.resetBucket", "winResetSlot", false, c16FirstIndex)
	e.c16Expr(t, s, rw, "window.reduce", "winReduceSlot", false, c16FirstIndex)
	e.c16Expr(t, s, rw, "window.reduce", "winReduceLoopCond", true, c16FirstForCond)
	e.c16Expr(t, s, rw, "newWindow", "newWindowLoopCond", true, c16FirstForCond)
	e.c16Expr(t, s, rw, "RollingWindow.updateOffset", "rwResetLoopCond", true, c16FirstForCond)
	e.c16Expr(t, s, rw, "RollingWindow.updateOffset", "rwResetIndex", false, c16ArgOfCall(s, "rw.win.resetBucket", 0))
	// loop exits of Range
	e.c16RangeLoops(s, sm, "SafeMap.Range", "safeMapRangeLoops")
	// constructors: which argument initialises which field
	e.c16StructFields(s, ca, "NewCache", "newCacheFields")
	e.c16StructFields(s, ca, "newKeyLru", "newKeyLruFields")
	e.c16StructFields(s, rw, "NewRollingWindow", "newRollingWindowFields")
	e.c16StructFields(s, rw, "newWindow", "newWindowFields")
	e.c16StructFields(s, ff, "NewQueue", "newQueueFields")
	e.c16StructFields(s, rg, "NewRing", "newRingFields")
	// typed call lists: order of effects (lock / defer / call) and the arguments forwarded by delegating entry points
	for _, f := range [][3]string{
		{ca, "Cache.Set", "cacheSetCalls"}, {ca, "Cache.Get", "cacheGetCalls"}, {ca, "Cache.Del", "cacheDelCalls"},
		{ca, "Cache.SetWithExpire", "cacheSetWithExpireCalls"}, {ca, "Cache.Take", "cacheTakeCalls"},
		{ca, "Cache.doGet", "cacheDoGetCalls"}, {ca, "Cache.onEvict", "cacheOnEvictCalls"}, {ca, "Cache.size", "cacheSizeCalls"},
		{ca, "NewCache", "newCacheCalls"}, {ca, "WithLimit", "withLimitCalls"}, {ca, "newCacheStat", "newCacheStatCalls"},
		{ca, "keyLru.add", "lruAddCalls"}, {ca, "keyLru.remove", "lruRemoveCalls"}, {ca, "keyLru.removeOldest", "lruRemoveOldestCalls"},
		{ca, "keyLru.removeElement", "lruRemoveElementCalls"},
		{rw, "NewRollingWindow", "newRollingWindowCalls"}, {rw, "RollingWindow.Add", "rwAddCalls"},
		{rw, "RollingWindow.Reduce", "rwReduceCalls"}, {rw, "RollingWindow.updateOffset", "rwUpdateCalls"},
		{sm, "SafeMap.Range", "safeMapRangeCalls"}, {sm, "SafeMap.Get", "safeMapGetCalls"}, {sm, "SafeMap.Size", "safeMapSizeCalls"},
		{ff, "Queue.Empty", "queueEmptyCalls"}, {rg, "Ring.Take", "ringTakeCalls"},
	} {
		e.c16Effects(s, f[0], f[1], f[2])
	}
}

func init() {
	register("C16", func(s *source, e *emitter) {
		const (
			sm = "core/collection/safemap.go"
			ff = "core/collection/fifo.go"
			rg = "core/collection/ring.go"
			st = "core/collection/set.go"
			rw = "core/collection/rollingwindow.go"
			ca = "core/collection/cache.go"
		)
		// constants
		e.constDef(s, sm, "maxDeletion", "maxDeletion")
		e.constDef(s, sm, "copyThreshold", "copyThreshold")
		e.constDef(s, ca, "slots", "cacheSlots")
		e.constDef(s, ca, "expiryDeviation", "expiryDeviation")

		// translated arithmetic
		t := &translator{registry: map[string]*transFunc{}, consts: map[string]string{}}
		// the clock of core/timex as a parameter
		e.printf("/-- `timex.Since(d)` with the clock reading as a parameter -/\ndef clockSince (d : Int) (clock : Int) : Int := clock - d\n\n")
		e.printf("/-- `timex.Now()` with the clock reading as a parameter -/\ndef clockNow (clock : Int) : Int := clock\n\n")
		t.registry["timex.Since"] = &transFunc{leanName: "clockSince", explicit: []string{"d"}, implicit: []string{"clock"}, implBool: map[string]bool{}, nres: 1}
		t.registry["timex.Now"] = &transFunc{leanName: "clockNow", explicit: nil, implicit: []string{"clock"}, implBool: map[string]bool{}, nres: 1}
		e.translated(t, s, rw, "RollingWindow.span", "rwSpan", false, "")
		e.translated(t, s, rw, "RollingWindow.updateOffset", "rwUpdateTail", true, "rw.offset = ")
		e.translated(t, s, ff, "Queue.Put", "queuePutTail", true, "q.tail = ")
		e.translated(t, s, ff, "Queue.Take", "queueTakeTail", true, "element := ")

		// statement lists
		e.c16StmtList(s, ff, "NewQueue", "newQueueStmts")
		e.c16StmtList(s, ff, "Queue.Put", "queuePutStmts")
		e.c16StmtList(s, ff, "Queue.Take", "queueTakeStmts")
		e.c16StmtList(s, ff, "Queue.Empty", "queueEmptyStmts")
		e.c16StmtList(s, rg, "Ring.Add", "ringAddStmts")
		e.c16StmtList(s, rg, "Ring.Take", "ringTakeStmts")
		e.c16StmtList(s, sm, "SafeMap.Set", "safeMapSetStmts")
		e.c16StmtList(s, sm, "SafeMap.Del", "safeMapDelStmts")
		e.c16StmtList(s, sm, "SafeMap.Get", "safeMapGetStmts")
		e.c16StmtList(s, sm, "SafeMap.Size", "safeMapSizeStmts")
		e.c16StmtList(s, sm, "SafeMap.Range", "safeMapRangeStmts")
		e.c16StmtList(s, st, "Set.add", "setAddStmts")
		e.c16StmtList(s, st, "Set.Contains", "setContainsStmts")
		e.c16StmtList(s, st, "Set.Remove", "setRemoveStmts")
		e.c16StmtList(s, st, "Set.Count", "setCountStmts")
		e.c16StmtList(s, rw, "RollingWindow.Add", "rwAddStmts")
		e.c16StmtList(s, rw, "RollingWindow.Reduce", "rwReduceStmts")
		e.c16StmtList(s, rw, "RollingWindow.updateOffset", "rwUpdateStmts")
		e.c16StmtList(s, rw, "window.add", "winAddStmts")
		e.c16StmtList(s, rw, "window.reduce", "winReduceStmts")
		e.c16StmtList(s, rw, "window.resetBucket", "winResetStmts")
		e.c16StmtList(s, ca, "Cache.Del", "cacheDelStmts")
		e.c16StmtList(s, ca, "Cache.SetWithExpire", "cacheSetStmts")
		e.c16StmtList(s, ca, "Cache.Set", "cacheSetDefaultStmts")
		e.c16StmtList(s, ca, "Cache.Take", "cacheTakeStmts")
		e.c16StmtList(s, ca, "Cache.doGet", "cacheDoGetStmts")
		e.c16StmtList(s, ca, "Cache.onEvict", "cacheOnEvictStmts")
		e.c16StmtList(s, ca, "WithLimit", "cacheWithLimitStmts")
		e.c16StmtList(s, ca, "keyLru.add", "lruAddStmts")
		e.c16StmtList(s, ca, "keyLru.remove", "lruRemoveStmts")
		e.c16StmtList(s, ca, "keyLru.removeOldest", "lruRemoveOldestStmts")
		e.c16StmtList(s, ca, "keyLru.removeElement", "lruRemoveElementStmts")
		// statistics: Get / Take with their stats calls kept (hit / miss accounting of the driver's monitor)
		c16DropSaved := c16Drop
		c16Drop = regexp.MustCompile(`^(defer )?\w+(\.\w+)*\.(Lock|Unlock|RLock|RUnlock)\(\)$|^logx\.`)
		e.c16StmtList(s, ca, "Cache.Get", "cacheGetStatStmts")
		e.c16StmtList(s, ca, "Cache.Take", "cacheTakeStatStmts")
		c16Drop = c16DropSaved
		// SetTimer rejects a non-positive delay (CacheG.setNoTimer)
		e.c16StmtList(s, "core/collection/timingwheel.go", "TimingWheel.SetTimer", "wheelSetTimerStmts")
		// lock frames (the interleaving models Conc.lean / ConcTake.lean: which lock, held over which statements)
		e.c16LockFrame(s, ff, "Queue.Put", "queuePutLocks")
		e.c16LockFrame(s, ff, "Queue.Take", "queueTakeLocks")
		e.c16LockFrame(s, ff, "Queue.Empty", "queueEmptyLocks")
		e.c16LockFrame(s, rg, "Ring.Add", "ringAddLocks")
		e.c16LockFrame(s, rg, "Ring.Take", "ringTakeLocks")
		e.c16LockFrame(s, sm, "SafeMap.Set", "safeMapSetLocks")
		e.c16LockFrame(s, sm, "SafeMap.Del", "safeMapDelLocks")
		e.c16LockFrame(s, sm, "SafeMap.Get", "safeMapGetLocks")
		e.c16LockFrame(s, sm, "SafeMap.Size", "safeMapSizeLocks")
		e.c16LockFrame(s, sm, "SafeMap.Range", "safeMapRangeLocks")
		e.c16LockFrame(s, ca, "Cache.doGet", "cacheDoGetLocks")
		e.c16LockFrame(s, ca, "Cache.Del", "cacheDelLocks")
		e.c16LockFrame(s, ca, "Cache.SetWithExpire", "cacheSetLocks")
		e.c16LockFrame(s, ca, "Cache.size", "cacheSizeLocks")
		// the wheel the cache builds and its expiry callback
		if fd := s.findFunc(ca, "NewCache"); fd != nil {
			var wheel []string
			ast.Inspect(fd, func(n ast.Node) bool {
				if c, ok := n.(*ast.CallExpr); ok {
					if id, ok := c.Fun.(*ast.Ident); ok && id.Name == "NewTimingWheel" && len(c.Args) == 3 {
						wheel = append(wheel, s.src(c.Args[0]), s.src(c.Args[1]))
						if fl, ok := c.Args[2].(*ast.FuncLit); ok {
							s.c16Stmts(fl.Body.List, &wheel)
						}
						return false
					}
				}
				return true
			})
			e.stringList("cacheWheel", "interval, slots and execute callback of the wheel built by `NewCache`", wheel)
		} else {
			e.errors = append(e.errors, "function NewCache not found in "+ca)
		}
		c16Round4(s, e, t)
		c16Round5(s, e, t)
	})
}
