package main

import (
	"fmt"
	"go/ast"
	"go/token"
	"os"
	"path/filepath"
	"sort"
	"strings"
)

// C05 — concurrency caps: the synchronisation skeletons of every acquire/release site
// (acquire-before-spawn, release-in-defer), the capacity expression of every limiting channel,
// the direction of the Pool counter updates and the worker-count floor constants.

// c05Details lists, in syntactic order, what the generic skeleton drops but the cap depends on:
// `make(chan T, cap)` expressions, ++/--/op= on selector expressions, and the arguments of the calls
// named in `calls`, and `workers:` fields of composite literals.
func (e *emitter) c05Details(s *source, rel, goName, leanName string, calls map[string]bool) {
	fd := s.findFunc(rel, goName)
	if fd == nil {
		e.errors = append(e.errors, "function "+goName+" not found in "+rel)
		e.stringList(leanName, "MISSING: "+goName+" in "+rel, []string{"MISSING"})
		return
	}
	var out []string
	ast.Inspect(fd.Body, func(n ast.Node) bool {
		switch x := n.(type) {
		case *ast.CallExpr:
			if id, ok := x.Fun.(*ast.Ident); ok && id.Name == "make" && len(x.Args) >= 1 {
				if ct, ok := x.Args[0].(*ast.ChanType); ok {
					c := "0"
					if len(x.Args) >= 2 {
						c = s.src(x.Args[1])
					}
					out = append(out, "make chan "+s.src(ct.Value)+" cap="+c)
				}
			} else if calls[s.src(x.Fun)] {
				tok := "call " + s.src(x.Fun) + "("
				for i, a := range x.Args {
					if i > 0 {
						tok += ", "
					}
					tok += s.src(a)
				}
				out = append(out, tok+")")
			}
		case *ast.IncDecStmt:
			if x.Tok == token.INC {
				out = append(out, "inc "+s.src(x.X))
			} else {
				out = append(out, "dec "+s.src(x.X))
			}
		case *ast.AssignStmt:
			if x.Tok != token.ASSIGN && x.Tok != token.DEFINE && len(x.Lhs) == 1 {
				out = append(out, "assign "+s.src(x.Lhs[0])+" "+x.Tok.String()+" "+s.src(x.Rhs[0]))
			}
		case *ast.KeyValueExpr:
			if id, ok := x.Key.(*ast.Ident); ok && (id.Name == "workers" || id.Name == "limit" || id.Name == "created") {
				out = append(out, "field "+id.Name+": "+s.src(x.Value))
			}
		}
		return true
	})
	e.stringList(leanName, "capacity-relevant details of `"+goName+"` in "+rel, out)
}

// c05Returns lists the result expressions of every return statement (syntactic order), so that
// "which value is reported on which branch" (nil / ErrLimitReturn / true / false / ErrTaskRunnerBusy) is tied.
func (e *emitter) c05Returns(s *source, rel, goName, leanName string) {
	fd := s.findFunc(rel, goName)
	if fd == nil {
		e.errors = append(e.errors, "function "+goName+" not found in "+rel)
		e.stringList(leanName, "MISSING: "+goName+" in "+rel, []string{"MISSING"})
		return
	}
	var out []string
	ast.Inspect(fd.Body, func(n ast.Node) bool {
		switch x := n.(type) {
		case *ast.FuncLit:
			return false // results of nested function literals belong to them
		case *ast.ReturnStmt:
			tok := "return"
			for i, r := range x.Results {
				if i > 0 {
					tok += ","
				}
				tok += " " + s.src(r)
			}
			out = append(out, tok)
		}
		return true
	})
	e.stringList(leanName, "results returned by `"+goName+"` in "+rel, out)
}

// c05Stores lists, in syntactic order, every plain assignment to a selector expression (nested function
// literals included) as `store <lhs> = <rhs>`: WHICH value a branch stores (the generic skeleton only says
// that something is stored).
func (e *emitter) c05Stores(s *source, rel, goName, leanName string) {
	fd := s.findFunc(rel, goName)
	if fd == nil {
		e.errors = append(e.errors, "function "+goName+" not found in "+rel)
		e.stringList(leanName, "MISSING: "+goName+" in "+rel, []string{"MISSING"})
		return
	}
	var out []string
	ast.Inspect(fd.Body, func(n ast.Node) bool {
		if x, ok := n.(*ast.AssignStmt); ok && x.Tok == token.ASSIGN && len(x.Lhs) == 1 && len(x.Rhs) == 1 {
			if _, ok := x.Lhs[0].(*ast.SelectorExpr); ok {
				out = append(out, "store "+s.src(x.Lhs[0])+" = "+s.src(x.Rhs[0]))
			}
		}
		return true
	})
	e.stringList(leanName, "values stored by `"+goName+"` in "+rel, out)
}

// c05IfCalls lists, for every `if <cond> { … }` directly in the body of the function, the condition and the
// calls (with arguments) named in `calls` inside its then-branch: the wiring table of a middleware chain.
func (e *emitter) c05IfCalls(s *source, rel, goName, leanName string, calls map[string]bool) {
	fd := s.findFunc(rel, goName)
	if fd == nil {
		e.errors = append(e.errors, "function "+goName+" not found in "+rel)
		e.stringList(leanName, "MISSING: "+goName+" in "+rel, []string{"MISSING"})
		return
	}
	var out []string
	for _, st := range fd.Body.List {
		ifs, ok := st.(*ast.IfStmt)
		if !ok {
			continue
		}
		var found []string
		ast.Inspect(ifs.Body, func(n ast.Node) bool {
			if x, ok := n.(*ast.CallExpr); ok && calls[s.src(x.Fun)] {
				tok := s.src(x.Fun) + "("
				for i, a := range x.Args {
					if i > 0 {
						tok += ", "
					}
					tok += s.src(a)
				}
				found = append(found, tok+")")
			}
			return true
		})
		for _, f := range found {
			els := ""
			if ifs.Else != nil {
				els = " (has else)"
			}
			out = append(out, "if "+s.src(ifs.Cond)+" then "+f+els)
		}
	}
	e.stringList(leanName, "guarded calls of `"+goName+"` in "+rel, out)
}

// ---- round 4: semantic ties (conditions / stores translated to Lean) and construction facts ----

// c05Subst replaces calls without arguments (`timex.Now()`, `l.TryBorrow()`) by an identifier
// `call_<name>`: the value the call yields is an input of the translated condition.
func c05Subst(s *source, e ast.Expr) ast.Expr {
	switch x := e.(type) {
	case *ast.ParenExpr:
		return &ast.ParenExpr{X: c05Subst(s, x.X)}
	case *ast.UnaryExpr:
		return &ast.UnaryExpr{Op: x.Op, X: c05Subst(s, x.X)}
	case *ast.BinaryExpr:
		return &ast.BinaryExpr{X: c05Subst(s, x.X), Op: x.Op, Y: c05Subst(s, x.Y)}
	case *ast.CallExpr:
		if len(x.Args) == 0 {
			return &ast.Ident{Name: "call_" + strings.ReplaceAll(s.src(x.Fun), ".", "_")}
		}
	}
	return e
}

// c05Conds collects, in syntactic order (nested function literals included), the conditions of the if
// statements and for loops of a function.
func c05Conds(fd *ast.FuncDecl) []ast.Expr {
	var out []ast.Expr
	ast.Inspect(fd.Body, func(n ast.Node) bool {
		switch x := n.(type) {
		case *ast.IfStmt:
			out = append(out, x.Cond)
		case *ast.ForStmt:
			if x.Cond != nil {
				out = append(out, x.Cond)
			}
		}
		return true
	})
	return out
}

// c05Cond translates the nth condition of goName into `def leanName (free variables… : Int/Bool) : Bool`
// (translate.go's expression subset; constants of `consts` are substituted by their values). The Lean
// definition carries the operator, the constant and the operands: Tie proves it equal to the model's test.
func (e *emitter) c05Cond(t *translator, s *source, rel, goName, leanName string, nth int) {
	fd := s.findFunc(rel, goName)
	if fd == nil {
		e.errors = append(e.errors, "function "+goName+" not found in "+rel)
		e.printf("/-- MISSING: %s in %s -/\ndef %s : Unit := ()\n\n", goName, rel, leanName)
		return
	}
	conds := c05Conds(fd)
	if nth >= len(conds) {
		e.errors = append(e.errors, fmt.Sprintf("%s has only %d conditions, wanted #%d", goName, len(conds), nth))
		e.printf("/-- MISSING: condition #%d of %s -/\ndef %s : Unit := ()\n\n", nth, goName, leanName)
		return
	}
	c := &tctx{t: t, locals: map[string]bool{}, freeSet: map[string]bool{}, boolVars: map[string]bool{}}
	if fd.Recv != nil && len(fd.Recv.List) == 1 && len(fd.Recv.List[0].Names) == 1 {
		c.recv = fd.Recv.List[0].Names[0].Name
	}
	var body string
	func() {
		defer func() {
			if p := recover(); p != nil {
				if te, ok := p.(transErr); ok {
					e.errors = append(e.errors, goName+": "+te.msg)
					body = ""
					return
				}
				panic(p)
			}
		}()
		body = c.expr(c05Subst(s, conds[nth]), true)
	}()
	if body == "" {
		e.printf("/-- TRANSLATION FAILED: condition #%d of %s -/\ndef %s : Unit := ()\n\n", nth, goName, leanName)
		return
	}
	var params []string
	for _, f := range c.free {
		ty := "Int"
		if c.boolVars[f] {
			ty = "Bool"
		}
		params = append(params, "("+f+" : "+ty+")")
	}
	e.printf("/-- condition #%d of `%s` in %s: `%s` -/\ndef %s %s : Bool :=\n  %s\n\n", nth, goName, rel, s.src(conds[nth]), leanName,
		strings.Join(params, " "), body)
}

// c05ClosureEff translates the body of the function literal RETURNED by an option constructor
// (`func WithWorkers(workers int) Option { return func(opts *rxOptions) { … } }`) as an effect function of the
// constructor's integer parameters: which value is stored into which field on which branch.
func (e *emitter) c05ClosureEff(t *translator, s *source, rel, goName, leanName string) {
	fd := s.findFunc(rel, goName)
	var lit *ast.FuncLit
	if fd != nil && len(fd.Body.List) == 1 {
		if rs, ok := fd.Body.List[0].(*ast.ReturnStmt); ok && len(rs.Results) == 1 {
			lit, _ = rs.Results[0].(*ast.FuncLit)
		}
	}
	if lit == nil {
		e.errors = append(e.errors, goName+" in "+rel+" is not `return func(...) {...}`")
		e.printf("/-- MISSING: returned closure of %s in %s -/\ndef %s : Unit := ()\n\n", goName, rel, leanName)
		return
	}
	synth := &ast.FuncDecl{Name: fd.Name, Type: fd.Type, Body: lit.Body}
	def, err := t.translateFunc(synth, goName+".closure", leanName, true, 0, nil)
	if err != nil {
		e.errors = append(e.errors, err.Error())
	}
	e.printf("/-- translated from the closure returned by `%s` in %s -/\n%s\n", goName, rel, def)
}

// c05PkgVars lists the package-level `var` declarations of all non-test Go files of a package directory
// (`file: name [type] = init`, error values left out), sorted: state that outlives a call lives there.
func (e *emitter) c05PkgVars(s *source, dir, leanName string) {
	ents, err := os.ReadDir(filepath.Join(*repo, dir))
	if err != nil {
		e.errors = append(e.errors, "cannot list "+dir)
		e.stringList(leanName, "MISSING: "+dir, []string{"MISSING"})
		return
	}
	var out []string
	for _, en := range ents {
		if en.IsDir() || !strings.HasSuffix(en.Name(), ".go") || strings.HasSuffix(en.Name(), "_test.go") {
			continue
		}
		f := s.file(filepath.Join(dir, en.Name()))
		if f == nil {
			e.errors = append(e.errors, "cannot parse "+en.Name())
			continue
		}
		for _, d := range f.Decls {
			gd, ok := d.(*ast.GenDecl)
			if !ok || gd.Tok != token.VAR {
				continue
			}
			for _, sp := range gd.Specs {
				vs := sp.(*ast.ValueSpec)
				for i, n := range vs.Names {
					tok := en.Name() + ": " + n.Name
					if vs.Type != nil {
						tok += " " + s.src(vs.Type)
					}
					if i < len(vs.Values) {
						init := s.src(vs.Values[i])
						if strings.HasPrefix(strings.ToLower(n.Name), "err") && (strings.HasPrefix(init, "errors.New(") || strings.HasPrefix(init, "context.")) {
							continue // an immutable error value is not state
						}
						tok += " = " + init
					}
					out = append(out, tok)
				}
			}
		}
	}
	sort.Strings(out)
	e.stringList(leanName, "package-level variables of "+dir+" (non-test files)", out)
}

// c05Stmts lists the top-level statements of a function as normalised source text (small constructors and
// glue functions whose every statement matters: buildOptions, newOptions, NewWorkerGroup, …).
func (e *emitter) c05Stmts(s *source, rel, goName, leanName string) {
	fd := s.findFunc(rel, goName)
	if fd == nil {
		e.errors = append(e.errors, "function "+goName+" not found in "+rel)
		e.stringList(leanName, "MISSING: "+goName+" in "+rel, []string{"MISSING"})
		return
	}
	var out []string
	for _, st := range fd.Body.List {
		out = append(out, s.src(st))
	}
	e.stringList(leanName, "statements of `"+goName+"` in "+rel, out)
}

// c05ForHeader: `init; cond; post` of the first for statement of a function.
func (e *emitter) c05ForHeader(s *source, rel, goName, leanName string) {
	fd := s.findFunc(rel, goName)
	var out []string
	if fd != nil {
		ast.Inspect(fd.Body, func(n ast.Node) bool {
			if f, ok := n.(*ast.ForStmt); ok && out == nil {
				out = []string{"", "", ""}
				if f.Init != nil {
					out[0] = s.src(f.Init)
				}
				if f.Cond != nil {
					out[1] = s.src(f.Cond)
				}
				if f.Post != nil {
					out[2] = s.src(f.Post)
				}
			}
			return true
		})
	}
	if out == nil {
		e.errors = append(e.errors, "no for statement in "+goName)
		out = []string{"MISSING"}
	}
	e.stringList(leanName, "init / cond / post of the for loop of `"+goName+"` in "+rel, out)
}

// ---- round 5: the ORDER OF EFFECTS of a site function as a typed list ----

// c05EffCfg says which expressions of one Go function are the limiting object: channels used as semaphores,
// receivers whose Borrow/TryBorrow/Return are permit operations, lockers, wait groups, and which calls are
// the guarded user function. skipWait: the dispatcher's own `wg.Wait()` (mr/fx) is not part of the per-item
// life-cycle the site program describes.
type c05EffCfg struct {
	chans, limits, locks, wgs, user []string
	skipWait                        bool
}

func c05In(xs []string, x string) bool {
	for _, y := range xs {
		if y == x {
			return true
		}
	}
	return false
}

// c05Effects walks the function in syntactic order (nested function literals included) and emits, as a Lean
// `List Eff`, the property-relevant effects: `ch <- x` = acquire (tryAcquire inside a select with a default
// clause), `<-ch` = release (tryRelease inside a select with default), Borrow/TryBorrow/Return and
// Lock/Unlock likewise, Add/Done/Wait of the wait group, the call of the guarded user function.
func (e *emitter) c05Effects(s *source, rel, goName, leanName string, cfg c05EffCfg) {
	fd := s.findFunc(rel, goName)
	if fd == nil {
		e.errors = append(e.errors, "function "+goName+" not found in "+rel)
		e.printf("/-- MISSING: %s in %s -/\ndef %s : List Eff := []\n\n", goName, rel, leanName)
		return
	}
	nonBlocking := map[ast.Node]bool{} // comm statements of a select that has a default clause
	var out []string
	ast.Inspect(fd.Body, func(n ast.Node) bool {
		switch x := n.(type) {
		case *ast.SelectStmt:
			hasDefault := false
			for _, c := range x.Body.List {
				if cc, ok := c.(*ast.CommClause); ok && cc.Comm == nil {
					hasDefault = true
				}
			}
			if hasDefault {
				for _, c := range x.Body.List {
					if cc, ok := c.(*ast.CommClause); ok && cc.Comm != nil {
						nonBlocking[cc.Comm] = true
						if es, ok := cc.Comm.(*ast.ExprStmt); ok {
							nonBlocking[es.X] = true
						}
						if as, ok := cc.Comm.(*ast.AssignStmt); ok && len(as.Rhs) == 1 {
							nonBlocking[as.Rhs[0]] = true
						}
					}
				}
			}
		case *ast.SendStmt:
			if c05In(cfg.chans, s.src(x.Chan)) {
				if nonBlocking[x] {
					out = append(out, "tryAcquire")
				} else {
					out = append(out, "acquire")
				}
			}
		case *ast.UnaryExpr:
			if x.Op == token.ARROW && c05In(cfg.chans, s.src(x.X)) {
				if nonBlocking[x] {
					out = append(out, "tryRelease")
				} else {
					out = append(out, "release")
				}
			}
		case *ast.CallExpr:
			fn := s.src(x.Fun)
			if c05In(cfg.user, fn) {
				out = append(out, "user")
				break
			}
			sel, ok := x.Fun.(*ast.SelectorExpr)
			if !ok {
				break
			}
			recv, m := s.src(sel.X), sel.Sel.Name
			switch {
			case c05In(cfg.limits, recv) && m == "Borrow":
				out = append(out, "acquire")
			case c05In(cfg.limits, recv) && m == "TryBorrow":
				out = append(out, "tryAcquire")
			case c05In(cfg.limits, recv) && m == "Return":
				out = append(out, "tryRelease")
			case c05In(cfg.locks, recv) && m == "Lock":
				out = append(out, "acquire")
			case c05In(cfg.locks, recv) && m == "Unlock":
				out = append(out, "release")
			case c05In(cfg.wgs, recv) && m == "Add":
				out = append(out, "wgAdd")
			case c05In(cfg.wgs, recv) && m == "Done":
				out = append(out, "wgDone")
			case c05In(cfg.wgs, recv) && m == "Wait" && !cfg.skipWait:
				out = append(out, "wgWait")
			}
		}
		return true
	})
	for i := range out {
		out[i] = "." + out[i]
	}
	e.printf("/-- order of the permit / wait-group / user-call effects of `%s` in %s -/\ndef %s : List Eff := [%s]\n\n",
		goName, rel, leanName, strings.Join(out, ", "))
}

// c05Forward lists the arguments of the first call of `callee` inside goName (function literals abbreviated to
// `func`, a spread argument keeps its `...`): what a delegating entry point hands on.
func (e *emitter) c05Forward(s *source, rel, goName, callee, leanName string) {
	fd := s.findFunc(rel, goName)
	var out []string
	found := false
	if fd != nil {
		ast.Inspect(fd.Body, func(n ast.Node) bool {
			x, ok := n.(*ast.CallExpr)
			if !ok || found || s.src(x.Fun) != callee {
				return true
			}
			found = true
			for i, a := range x.Args {
				tok := s.src(a)
				if _, isLit := a.(*ast.FuncLit); isLit {
					tok = "func"
				}
				if i == len(x.Args)-1 && x.Ellipsis.IsValid() {
					tok += "..."
				}
				out = append(out, tok)
			}
			return false
		})
	}
	if !found {
		e.errors = append(e.errors, "no call of "+callee+" in "+goName+" ("+rel+")")
		out = []string{"MISSING"}
	}
	e.stringList(leanName, "arguments `"+goName+"` in "+rel+" hands to `"+callee+"`", out)
}

// c05IntExpr translates the right-hand side of the first `lhs := <expr>` of goName into
// `def leanName (free variables… : Int) : Int` (translate.go's expression subset).
func (e *emitter) c05IntExpr(t *translator, s *source, rel, goName, lhs, leanName string) {
	fd := s.findFunc(rel, goName)
	var rhs ast.Expr
	if fd != nil {
		ast.Inspect(fd.Body, func(n ast.Node) bool {
			if as, ok := n.(*ast.AssignStmt); ok && rhs == nil && len(as.Lhs) == 1 && len(as.Rhs) == 1 {
				if id, ok := as.Lhs[0].(*ast.Ident); ok && id.Name == lhs {
					rhs = as.Rhs[0]
				}
			}
			return true
		})
	}
	if rhs == nil {
		e.errors = append(e.errors, "no assignment to "+lhs+" in "+goName+" ("+rel+")")
		e.printf("/-- MISSING: %s in %s -/\ndef %s : Unit := ()\n\n", lhs, goName, leanName)
		return
	}
	c := &tctx{t: t, locals: map[string]bool{}, freeSet: map[string]bool{}, boolVars: map[string]bool{}}
	var body string
	func() {
		defer func() {
			if p := recover(); p != nil {
				if te, ok := p.(transErr); ok {
					e.errors = append(e.errors, goName+": "+te.msg)
					body = ""
					return
				}
				panic(p)
			}
		}()
		body = c.expr(rhs, false)
	}()
	if body == "" {
		e.printf("/-- TRANSLATION FAILED: %s of %s -/\ndef %s : Unit := ()\n\n", lhs, goName, leanName)
		return
	}
	var params []string
	for _, f := range c.free {
		params = append(params, "("+f+" : Int)")
	}
	e.printf("/-- `%s := %s` in `%s` (%s) -/\ndef %s %s : Int :=\n  %s\n\n", lhs, s.src(rhs), goName, rel, leanName,
		strings.Join(params, " "), body)
}

// c05MakeCap translates the capacity argument of the nth `make(chan T, cap)` of goName into
// `def leanName (free variables… : Int) : Int` (no capacity argument: the constant 0, an unbuffered channel).
func (e *emitter) c05MakeCap(t *translator, s *source, rel, goName, leanName string, nth int) {
	fd := s.findFunc(rel, goName)
	var found []*ast.CallExpr
	if fd != nil {
		ast.Inspect(fd.Body, func(n ast.Node) bool {
			if x, ok := n.(*ast.CallExpr); ok {
				if id, ok := x.Fun.(*ast.Ident); ok && id.Name == "make" && len(x.Args) >= 1 {
					if _, ok := x.Args[0].(*ast.ChanType); ok {
						found = append(found, x)
					}
				}
			}
			return true
		})
	}
	if nth >= len(found) {
		e.errors = append(e.errors, fmt.Sprintf("%s (%s) has only %d make(chan) calls, wanted #%d", goName, rel, len(found), nth))
		e.printf("/-- MISSING: make(chan) #%d of %s -/\ndef %s : Unit := ()\n\n", nth, goName, leanName)
		return
	}
	mk := found[nth]
	if len(mk.Args) < 2 {
		e.printf("/-- capacity of `%s` in `%s` (%s): unbuffered -/\ndef %s : Int :=\n  0\n\n", s.src(mk), goName, rel, leanName)
		return
	}
	c := &tctx{t: t, locals: map[string]bool{}, freeSet: map[string]bool{}, boolVars: map[string]bool{}}
	var body string
	func() {
		defer func() {
			if p := recover(); p != nil {
				if te, ok := p.(transErr); ok {
					e.errors = append(e.errors, goName+": "+te.msg)
					body = ""
					return
				}
				panic(p)
			}
		}()
		body = c.expr(mk.Args[1], false)
	}()
	if body == "" {
		e.printf("/-- TRANSLATION FAILED: capacity of make(chan) #%d of %s -/\ndef %s : Unit := ()\n\n", nth, goName, leanName)
		return
	}
	var params []string
	for _, f := range c.free {
		params = append(params, "("+f+" : Int)")
	}
	e.printf("/-- capacity of `%s` in `%s` (%s) -/\ndef %s %s : Int :=\n  %s\n\n", s.src(mk), goName, rel, leanName,
		strings.Join(params, " "), body)
}

func c05Round5(s *source, e *emitter) {
	// round 5e: the capacity expression of every limiting channel, translated
	tk := &translator{registry: map[string]*transFunc{}, consts: map[string]string{}}
	e.c05MakeCap(tk, s, "core/syncx/limit.go", "NewLimit", "newLimitCap", 0)
	e.c05MakeCap(tk, s, "core/threading/taskrunner.go", "NewTaskRunner", "newTaskRunnerCap", 0)
	e.c05MakeCap(tk, s, "core/syncx/cond.go", "NewCond", "newCondCap", 0)
	e.c05MakeCap(tk, s, "core/mr/mapreduce.go", "executeMappers", "executeMappersCap", 0)
	e.c05MakeCap(tk, s, "core/fx/stream.go", "Stream.walkLimited", "walkLimitedPoolCap", 1)
	// round 5c: Cond.WaitWithTimeout's remaining time, Cond.Wait / Signal as effect-free shapes
	tc := &translator{registry: map[string]*transFunc{}, consts: map[string]string{}}
	e.c05IntExpr(tc, s, "core/syncx/cond.go", "Cond.WaitWithTimeout", "remainTimeout", "condRemainExpr")
	e.shapeDef(s, "core/syncx/cond.go", "Cond.Wait", "condWaitPlainShape")
	const mrf = "core/mr/mapreduce.go"
	e.c05Forward(s, mrf, "MapReduce", "mapReduceWithPanicChan", "mrMapReduceFwd")
	e.c05Forward(s, mrf, "MapReduceChan", "mapReduceWithPanicChan", "mrMapReduceChanFwd")
	e.c05Forward(s, mrf, "MapReduceVoid", "MapReduce", "mrMapReduceVoidFwd")
	e.c05Forward(s, mrf, "Finish", "MapReduceVoid", "mrFinishFwd")
	e.c05Forward(s, mrf, "FinishVoid", "ForEach", "mrFinishVoidFwd")
	e.c05Forward(s, mrf, "ForEach", "buildOptions", "mrForEachFwd")
	e.c05Forward(s, mrf, "mapReduceWithPanicChan", "buildOptions", "mrCoreFwd")
	e.c05Forward(s, "core/syncx/timeoutlimit.go", "TimeoutLimit.TryBorrow", "l.limit.TryBorrow", "tlTryBorrowFwd")
	e.c05Forward(s, "core/syncx/timeoutlimit.go", "TimeoutLimit.Return", "l.limit.Return", "tlReturnFwd")
	e.c05Forward(s, "core/syncx/barrier.go", "Barrier.Guard", "Guard", "barrierGuardFwd")
	e.c05Forward(s, "core/threading/workergroup.go", "WorkerGroup.Start", "group.RunSafe", "workerGroupFwd")
	e.c05Forward(s, "rest/handler/maxconnshandler.go", "MaxConnsHandler", "syncx.NewLimit", "maxConnsNewLimitFwd")
	e.c05Forward(s, "core/fx/stream.go", "Stream.Walk", "s.walkLimited", "fxWalkLimitedFwd")
	e.c05Forward(s, "core/fx/stream.go", "Stream.Walk", "buildOptions", "fxWalkFwd")
	e.c05Forward(s, "core/fx/stream.go", "Stream.Map", "s.Walk", "fxMapFwd")
	e.c05Forward(s, "core/fx/stream.go", "Stream.Filter", "s.Walk", "fxFilterFwd")
	e.c05Forward(s, "core/fx/stream.go", "Stream.Parallel", "s.Walk", "fxParallelFwd")
	e.printf("/-- the property-relevant effect kinds (extracted order-of-effects lists are lists of these) -/\n" +
		"inductive Eff where\n  | acquire | tryAcquire | release | tryRelease | wgAdd | wgDone | wgWait | user\n  deriving Repr, DecidableEq\n\n")
	lim := c05EffCfg{chans: []string{"l.pool"}}
	e.c05Effects(s, "core/syncx/limit.go", "Limit.Borrow", "borrowEff", lim)
	e.c05Effects(s, "core/syncx/limit.go", "Limit.TryBorrow", "tryBorrowEff", lim)
	e.c05Effects(s, "core/syncx/limit.go", "Limit.Return", "returnEff", lim)
	tl := c05EffCfg{limits: []string{"l", "l.limit"}}
	e.c05Effects(s, "core/syncx/timeoutlimit.go", "TimeoutLimit.Borrow", "tlBorrowEff", tl)
	e.c05Effects(s, "core/syncx/timeoutlimit.go", "TimeoutLimit.TryBorrow", "tlTryBorrowEff", tl)
	e.c05Effects(s, "core/syncx/timeoutlimit.go", "TimeoutLimit.Return", "tlReturnEff", tl)
	tr := c05EffCfg{chans: []string{"rp.limitChan"}, wgs: []string{"rp.waitGroup"}, user: []string{"task"}}
	e.c05Effects(s, "core/threading/taskrunner.go", "TaskRunner.Wait", "trWaitEff", tr)
	e.c05Effects(s, "core/threading/taskrunner.go", "TaskRunner.Schedule", "scheduleEff", tr)
	e.c05Effects(s, "core/threading/taskrunner.go", "TaskRunner.ScheduleImmediately", "scheduleImmEff", tr)
	e.c05Effects(s, "rest/handler/maxconnshandler.go", "MaxConnsHandler", "maxConnsEff",
		c05EffCfg{limits: []string{"latch"}, user: []string{"next.ServeHTTP"}})
	e.c05Effects(s, "core/mr/mapreduce.go", "executeMappers", "executeMappersEff",
		c05EffCfg{chans: []string{"pool"}, wgs: []string{"wg"}, user: []string{"mCtx.mapper"}, skipWait: true})
	e.c05Effects(s, "core/fx/stream.go", "Stream.walkLimited", "walkLimitedEff",
		c05EffCfg{chans: []string{"pool"}, wgs: []string{"wg"}, user: []string{"fn"}, skipWait: true})
	rg := c05EffCfg{wgs: []string{"g.waitGroup"}, user: []string{"fn"}}
	e.c05Effects(s, "core/threading/routinegroup.go", "RoutineGroup.Wait", "rgWaitEff", rg)
	e.c05Effects(s, "core/threading/routinegroup.go", "RoutineGroup.Run", "rgRunEff", rg)
	e.c05Effects(s, "core/threading/routinegroup.go", "RoutineGroup.RunSafe", "rgRunSafeEff", rg)
	e.c05Effects(s, "core/syncx/barrier.go", "Guard", "guardEff", c05EffCfg{locks: []string{"lock"}, user: []string{"fn"}})
	// rescue.Recover: the clean-ups (release + Done) run BEFORE recover() and the report
	e.c05Stmts(s, "core/rescue/recover.go", "Recover", "rescueRecoverStmts")
}

func init() {
	register("C05", func(s *source, e *emitter) {
		none := map[string]bool{}
		c05Round5(s, e)
		c05Round4(s, e)
		e.shapeDef(s, "core/syncx/limit.go", "Limit.Borrow", "borrowShape")
		e.shapeDef(s, "core/syncx/limit.go", "Limit.Return", "returnShape")
		e.shapeDef(s, "core/syncx/limit.go", "Limit.TryBorrow", "tryBorrowShape")
		e.c05Details(s, "core/syncx/limit.go", "NewLimit", "newLimitDetails", none)
		e.c05Returns(s, "core/syncx/limit.go", "Limit.Return", "returnResults")
		e.c05Returns(s, "core/syncx/limit.go", "Limit.TryBorrow", "tryBorrowResults")
		e.c05Returns(s, "core/syncx/timeoutlimit.go", "TimeoutLimit.Borrow", "tlBorrowResults")
		e.c05Returns(s, "core/syncx/timeoutlimit.go", "TimeoutLimit.Return", "tlReturnResults")
		e.c05Returns(s, "core/threading/taskrunner.go", "TaskRunner.ScheduleImmediately", "scheduleImmResults")
		e.shapeDef(s, "core/syncx/timeoutlimit.go", "TimeoutLimit.Borrow", "tlBorrowShape")
		e.shapeDef(s, "core/syncx/timeoutlimit.go", "TimeoutLimit.Return", "tlReturnShape")
		e.shapeDef(s, "core/syncx/timeoutlimit.go", "TimeoutLimit.TryBorrow", "tlTryBorrowShape")
		e.c05Details(s, "core/syncx/timeoutlimit.go", "NewTimeoutLimit", "newTimeoutLimitDetails", map[string]bool{"NewLimit": true})
		e.shapeDef(s, "core/syncx/cond.go", "Cond.WaitWithTimeout", "condWaitShape")
		e.shapeDef(s, "core/syncx/cond.go", "Cond.Signal", "condSignalShape")
		e.c05Details(s, "core/syncx/cond.go", "NewCond", "newCondDetails", none)
		e.c05Returns(s, "core/syncx/cond.go", "Cond.WaitWithTimeout", "condWaitResults")
		e.shapeDef(s, "core/syncx/pool.go", "NewPool", "newPoolShape")
		e.c05Details(s, "core/syncx/pool.go", "NewPool", "newPoolDetails", map[string]bool{"sync.NewCond": true})
		e.shapeDef(s, "core/syncx/pool.go", "Pool.Get", "poolGetShape")
		e.c05Details(s, "core/syncx/pool.go", "Pool.Get", "poolGetDetails", none)
		e.shapeDef(s, "core/syncx/pool.go", "Pool.Put", "poolPutShape")
		e.c05Details(s, "core/syncx/pool.go", "Pool.Put", "poolPutDetails", none)
		e.c05Details(s, "core/threading/taskrunner.go", "NewTaskRunner", "newTaskRunnerDetails", none)
		e.shapeDef(s, "core/threading/taskrunner.go", "TaskRunner.Schedule", "scheduleShape")
		e.shapeDef(s, "core/threading/taskrunner.go", "TaskRunner.ScheduleImmediately", "scheduleImmShape")
		e.shapeDef(s, "core/threading/taskrunner.go", "TaskRunner.Wait", "trWaitShape")
		e.shapeDef(s, "core/rescue/recover.go", "Recover", "rescueRecoverShape")
		e.shapeDef(s, "core/threading/routines.go", "GoSafe", "goSafeShape")
		e.shapeDef(s, "core/threading/routines.go", "RunSafe", "runSafeShape")
		e.shapeDef(s, "core/threading/workergroup.go", "WorkerGroup.Start", "workerGroupShape")
		e.shapeDef(s, "core/threading/routinegroup.go", "RoutineGroup.Run", "rgRunShape")
		e.shapeDef(s, "core/threading/routinegroup.go", "RoutineGroup.RunSafe", "rgRunSafeShape")
		e.shapeDef(s, "core/threading/routinegroup.go", "RoutineGroup.Wait", "rgWaitShape")
		e.shapeDef(s, "core/syncx/barrier.go", "Barrier.Guard", "barrierGuardShape")
		e.shapeDef(s, "core/syncx/barrier.go", "Guard", "guardShape")
		e.c05IfCalls(s, "rest/engine.go", "engine.buildChainWithNativeMiddlewares", "engineMaxConnsWiring",
			map[string]bool{"handler.MaxConnsHandler": true})
		e.c05Stores(s, "core/mr/mapreduce.go", "WithWorkers", "mrWithWorkersStores")
		e.c05Stores(s, "core/fx/stream.go", "WithWorkers", "fxWithWorkersStores")
		e.constDef(s, "core/mr/mapreduce.go", "defaultWorkers", "mrDefaultWorkers")
		e.constDef(s, "core/fx/stream.go", "defaultWorkers", "fxDefaultWorkers")
		e.shapeDef(s, "rest/handler/maxconnshandler.go", "MaxConnsHandler", "maxConnsShape")
		e.c05Details(s, "rest/handler/maxconnshandler.go", "MaxConnsHandler", "maxConnsDetails", map[string]bool{"syncx.NewLimit": true})
		e.shapeDef(s, "core/mr/mapreduce.go", "executeMappers", "executeMappersShape")
		e.c05Details(s, "core/mr/mapreduce.go", "executeMappers", "executeMappersDetails", none)
		e.c05Details(s, "core/mr/mapreduce.go", "mapReduceWithPanicChan", "mapReduceDetails", none)
		e.c05Details(s, "core/mr/mapreduce.go", "ForEach", "forEachDetails", none)
		e.shapeDef(s, "core/mr/mapreduce.go", "WithWorkers", "mrWithWorkersShape")
		e.shapeDef(s, "core/fx/stream.go", "Stream.walkLimited", "walkLimitedShape")
		e.c05Details(s, "core/fx/stream.go", "Stream.walkLimited", "walkLimitedDetails", none)
		e.shapeDef(s, "core/fx/stream.go", "Stream.Walk", "walkShape")
		e.shapeDef(s, "core/fx/stream.go", "WithWorkers", "fxWithWorkersShape")
		e.constDef(s, "core/mr/mapreduce.go", "minWorkers", "mrMinWorkers")
		e.constDef(s, "core/fx/stream.go", "minWorkers", "fxMinWorkers")
	})
}

func c05Round4(s *source, e *emitter) {
	const fx, mrf = "core/fx/stream.go", "core/mr/mapreduce.go"
	tfx := &translator{registry: map[string]*transFunc{}, consts: map[string]string{"minWorkers": "1"}}
	// worker-count options: the stored value per branch, as a function of the argument
	e.c05ClosureEff(tfx, s, fx, "WithWorkers", "fxWithWorkersEff")
	e.c05ClosureEff(tfx, s, mrf, "WithWorkers", "mrWithWorkersEff")
	e.c05Stmts(s, fx, "UnlimitedWorkers", "fxUnlimitedStmts")
	// the construction: a fresh struct per call, options applied through the pointer, nothing package-level
	e.c05Stmts(s, fx, "buildOptions", "fxBuildOptionsStmts")
	e.c05Stmts(s, fx, "newOptions", "fxNewOptionsStmts")
	e.c05Stmts(s, mrf, "buildOptions", "mrBuildOptionsStmts")
	e.c05Stmts(s, mrf, "newOptions", "mrNewOptionsStmts")
	e.c05PkgVars(s, "core/fx", "fxPkgVars")
	e.c05PkgVars(s, "core/mr", "mrPkgVars")
	e.c05PkgVars(s, "core/threading", "threadingPkgVars")
	// who calls buildOptions and what reaches the limiter
	e.c05Stmts(s, fx, "Stream.Walk", "fxWalkStmts")
	e.c05Stmts(s, fx, "Stream.Map", "fxMapStmts")
	e.c05Stmts(s, fx, "Stream.Filter", "fxFilterStmts")
	e.c05Stmts(s, fx, "Stream.Parallel", "fxParallelStmts")
	e.c05Details(s, mrf, "ForEach", "mrForEachCalls", map[string]bool{"buildOptions": true})
	e.c05Details(s, mrf, "mapReduceWithPanicChan", "mrMapReduceCalls", map[string]bool{"buildOptions": true})
	// constructors of the other limiters: fresh state per instance
	e.c05Stmts(s, "core/syncx/limit.go", "NewLimit", "newLimitStmts")
	e.c05Stmts(s, "core/syncx/timeoutlimit.go", "NewTimeoutLimit", "newTimeoutLimitStmts")
	e.c05Stmts(s, "core/syncx/cond.go", "NewCond", "newCondStmts")
	e.c05Stmts(s, "core/threading/taskrunner.go", "NewTaskRunner", "newTaskRunnerStmts")
	e.c05Stmts(s, "core/threading/workergroup.go", "NewWorkerGroup", "newWorkerGroupStmts")
	e.c05Stmts(s, "core/threading/routinegroup.go", "NewRoutineGroup", "newRoutineGroupStmts")
	e.c05PkgVars(s, "core/syncx", "syncxPkgVars")
	// decision-making conditions on the property's path, translated
	t := &translator{registry: map[string]*transFunc{}, consts: map[string]string{}}
	e.c05Cond(t, s, "rest/handler/maxconnshandler.go", "MaxConnsHandler", "maxConnsPassCond", 0)
	e.c05Cond(t, s, "core/syncx/pool.go", "NewPool", "newPoolPanicCond", 0)
	e.c05Cond(t, s, "core/syncx/pool.go", "Pool.Get", "poolExpiredCond", 1)
	e.c05Cond(t, s, "core/syncx/pool.go", "Pool.Get", "poolCreateCond", 2)
	e.c05Cond(t, s, "core/syncx/timeoutlimit.go", "TimeoutLimit.Borrow", "tlRetryCond", 1)
	e.c05Cond(t, s, "core/syncx/timeoutlimit.go", "TimeoutLimit.Borrow", "tlTimeoutCond", 2)
	e.c05Cond(t, s, "core/threading/workergroup.go", "WorkerGroup.Start", "workerGroupLoopCond", 0)
	e.c05ForHeader(s, "core/threading/workergroup.go", "WorkerGroup.Start", "workerGroupFor")
	e.c05Stores(s, "core/syncx/pool.go", "WithMaxAge", "poolMaxAgeStores")
	e.c05Details(s, mrf, "Finish", "mrFinishCalls", map[string]bool{"WithWorkers": true})
	e.c05Details(s, mrf, "FinishVoid", "mrFinishVoidCalls", map[string]bool{"WithWorkers": true})
}
