package main

import (
	"go/ast"
	"go/token"
)

// C05 — concurrency caps: the synchronisation skeletons of every acquire/release site
// (acquire-before-spawn, release-in-defer), the capacity expression of every limiting channel,
// the direction of the Pool counter updates and the worker-count floor constants.

// c05Details lists, in syntactic order, what the generic skeleton drops but the cap depends on:
// `make(chan T, cap)` expressions, ++/--/op= on selector expressions, and the arguments of the calls
// named in `calls`, and `workers:` fields of composite literals.
func (e *emitter) c05Details(s *source, rel, goName, leanName string, calls map[string]bool) {
	fd := s.findFunc(rel, goName)
	if fd == nil {
		e.errors = append(e.errors, "function "+goName+" not found in "+rel)
		e.stringList(leanName, "MISSING: "+goName+" in "+rel, []string{"MISSING"})
		return
	}
	var out []string
	ast.Inspect(fd.Body, func(n ast.Node) bool {
		switch x := n.(type) {
		case *ast.CallExpr:
			if id, ok := x.Fun.(*ast.Ident); ok && id.Name == "make" && len(x.Args) >= 1 {
				if ct, ok := x.Args[0].(*ast.ChanType); ok {
					c := "0"
					if len(x.Args) >= 2 {
						c = s.src(x.Args[1])
					}
					out = append(out, "make chan "+s.src(ct.Value)+" cap="+c)
				}
			} else if calls[s.src(x.Fun)] {
				tok := "call " + s.src(x.Fun) + "("
				for i, a := range x.Args {
					if i > 0 {
						tok += ", "
					}
					tok += s.src(a)
				}
				out = append(out, tok+")")
			}
		case *ast.IncDecStmt:
			if x.Tok == token.INC {
				out = append(out, "inc "+s.src(x.X))
			} else {
				out = append(out, "dec "+s.src(x.X))
			}
		case *ast.AssignStmt:
			if x.Tok != token.ASSIGN && x.Tok != token.DEFINE && len(x.Lhs) == 1 {
				out = append(out, "assign "+s.src(x.Lhs[0])+" "+x.Tok.String()+" "+s.src(x.Rhs[0]))
			}
		case *ast.KeyValueExpr:
			if id, ok := x.Key.(*ast.Ident); ok && (id.Name == "workers" || id.Name == "limit" || id.Name == "created") {
				out = append(out, "field "+id.Name+": "+s.src(x.Value))
			}
		}
		return true
	})
	e.stringList(leanName, "capacity-relevant details of `"+goName+"` in "+rel, out)
}

// c05Returns lists the result expressions of every return statement (syntactic order), so that
// "which value is reported on which branch" (nil / ErrLimitReturn / true / false / ErrTaskRunnerBusy) is tied.
func (e *emitter) c05Returns(s *source, rel, goName, leanName string) {
	fd := s.findFunc(rel, goName)
	if fd == nil {
		e.errors = append(e.errors, "function "+goName+" not found in "+rel)
		e.stringList(leanName, "MISSING: "+goName+" in "+rel, []string{"MISSING"})
		return
	}
	var out []string
	ast.Inspect(fd.Body, func(n ast.Node) bool {
		switch x := n.(type) {
		case *ast.FuncLit:
			return false // results of nested function literals belong to them
		case *ast.ReturnStmt:
			tok := "return"
			for i, r := range x.Results {
				if i > 0 {
					tok += ","
				}
				tok += " " + s.src(r)
			}
			out = append(out, tok)
		}
		return true
	})
	e.stringList(leanName, "results returned by `"+goName+"` in "+rel, out)
}

// c05Stores lists, in syntactic order, every plain assignment to a selector expression (nested function
// literals included) as `store <lhs> = <rhs>`: WHICH value a branch stores (the generic skeleton only says
// that something is stored).
func (e *emitter) c05Stores(s *source, rel, goName, leanName string) {
	fd := s.findFunc(rel, goName)
	if fd == nil {
		e.errors = append(e.errors, "function "+goName+" not found in "+rel)
		e.stringList(leanName, "MISSING: "+goName+" in "+rel, []string{"MISSING"})
		return
	}
	var out []string
	ast.Inspect(fd.Body, func(n ast.Node) bool {
		if x, ok := n.(*ast.AssignStmt); ok && x.Tok == token.ASSIGN && len(x.Lhs) == 1 && len(x.Rhs) == 1 {
			if _, ok := x.Lhs[0].(*ast.SelectorExpr); ok {
				out = append(out, "store "+s.src(x.Lhs[0])+" = "+s.src(x.Rhs[0]))
			}
		}
		return true
	})
	e.stringList(leanName, "values stored by `"+goName+"` in "+rel, out)
}

// c05IfCalls lists, for every `if <cond> { … }` directly in the body of the function, the condition and the
// calls (with arguments) named in `calls` inside its then-branch: the wiring table of a middleware chain.
func (e *emitter) c05IfCalls(s *source, rel, goName, leanName string, calls map[string]bool) {
	fd := s.findFunc(rel, goName)
	if fd == nil {
		e.errors = append(e.errors, "function "+goName+" not found in "+rel)
		e.stringList(leanName, "MISSING: "+goName+" in "+rel, []string{"MISSING"})
		return
	}
	var out []string
	for _, st := range fd.Body.List {
		ifs, ok := st.(*ast.IfStmt)
		if !ok {
			continue
		}
		var found []string
		ast.Inspect(ifs.Body, func(n ast.Node) bool {
			if x, ok := n.(*ast.CallExpr); ok && calls[s.src(x.Fun)] {
				tok := s.src(x.Fun) + "("
				for i, a := range x.Args {
					if i > 0 {
						tok += ", "
					}
					tok += s.src(a)
				}
				found = append(found, tok+")")
			}
			return true
		})
		for _, f := range found {
			els := ""
			if ifs.Else != nil {
				els = " (has else)"
			}
			out = append(out, "if "+s.src(ifs.Cond)+" then "+f+els)
		}
	}
	e.stringList(leanName, "guarded calls of `"+goName+"` in "+rel, out)
}

func init() {
	register("C05", func(s *source, e *emitter) {
		none := map[string]bool{}
		e.shapeDef(s, "core/syncx/limit.go", "Limit.Borrow", "borrowShape")
		e.shapeDef(s, "core/syncx/limit.go", "Limit.Return", "returnShape")
		e.shapeDef(s, "core/syncx/limit.go", "Limit.TryBorrow", "tryBorrowShape")
		e.c05Details(s, "core/syncx/limit.go", "NewLimit", "newLimitDetails", none)
		e.c05Returns(s, "core/syncx/limit.go", "Limit.Return", "returnResults")
		e.c05Returns(s, "core/syncx/limit.go", "Limit.TryBorrow", "tryBorrowResults")
		e.c05Returns(s, "core/syncx/timeoutlimit.go", "TimeoutLimit.Borrow", "tlBorrowResults")
		e.c05Returns(s, "core/syncx/timeoutlimit.go", "TimeoutLimit.Return", "tlReturnResults")
		e.c05Returns(s, "core/threading/taskrunner.go", "TaskRunner.ScheduleImmediately", "scheduleImmResults")
		e.shapeDef(s, "core/syncx/timeoutlimit.go", "TimeoutLimit.Borrow", "tlBorrowShape")
		e.shapeDef(s, "core/syncx/timeoutlimit.go", "TimeoutLimit.Return", "tlReturnShape")
		e.shapeDef(s, "core/syncx/timeoutlimit.go", "TimeoutLimit.TryBorrow", "tlTryBorrowShape")
		e.c05Details(s, "core/syncx/timeoutlimit.go", "NewTimeoutLimit", "newTimeoutLimitDetails", map[string]bool{"NewLimit": true})
		e.shapeDef(s, "core/syncx/cond.go", "Cond.WaitWithTimeout", "condWaitShape")
		e.shapeDef(s, "core/syncx/cond.go", "Cond.Signal", "condSignalShape")
		e.c05Details(s, "core/syncx/cond.go", "NewCond", "newCondDetails", none)
		e.c05Returns(s, "core/syncx/cond.go", "Cond.WaitWithTimeout", "condWaitResults")
		e.shapeDef(s, "core/syncx/pool.go", "NewPool", "newPoolShape")
		e.c05Details(s, "core/syncx/pool.go", "NewPool", "newPoolDetails", map[string]bool{"sync.NewCond": true})
		e.shapeDef(s, "core/syncx/pool.go", "Pool.Get", "poolGetShape")
		e.c05Details(s, "core/syncx/pool.go", "Pool.Get", "poolGetDetails", none)
		e.shapeDef(s, "core/syncx/pool.go", "Pool.Put", "poolPutShape")
		e.c05Details(s, "core/syncx/pool.go", "Pool.Put", "poolPutDetails", none)
		e.c05Details(s, "core/threading/taskrunner.go", "NewTaskRunner", "newTaskRunnerDetails", none)
		e.shapeDef(s, "core/threading/taskrunner.go", "TaskRunner.Schedule", "scheduleShape")
		e.shapeDef(s, "core/threading/taskrunner.go", "TaskRunner.ScheduleImmediately", "scheduleImmShape")
		e.shapeDef(s, "core/threading/taskrunner.go", "TaskRunner.Wait", "trWaitShape")
		e.shapeDef(s, "core/rescue/recover.go", "Recover", "rescueRecoverShape")
		e.shapeDef(s, "core/threading/routines.go", "GoSafe", "goSafeShape")
		e.shapeDef(s, "core/threading/routines.go", "RunSafe", "runSafeShape")
		e.shapeDef(s, "core/threading/workergroup.go", "WorkerGroup.Start", "workerGroupShape")
		e.shapeDef(s, "core/threading/routinegroup.go", "RoutineGroup.Run", "rgRunShape")
		e.shapeDef(s, "core/threading/routinegroup.go", "RoutineGroup.RunSafe", "rgRunSafeShape")
		e.shapeDef(s, "core/threading/routinegroup.go", "RoutineGroup.Wait", "rgWaitShape")
		e.shapeDef(s, "core/syncx/barrier.go", "Barrier.Guard", "barrierGuardShape")
		e.shapeDef(s, "core/syncx/barrier.go", "Guard", "guardShape")
		e.c05IfCalls(s, "rest/engine.go", "engine.buildChainWithNativeMiddlewares", "engineMaxConnsWiring",
			map[string]bool{"handler.MaxConnsHandler": true})
		e.c05Stores(s, "core/mr/mapreduce.go", "WithWorkers", "mrWithWorkersStores")
		e.c05Stores(s, "core/fx/stream.go", "WithWorkers", "fxWithWorkersStores")
		e.constDef(s, "core/mr/mapreduce.go", "defaultWorkers", "mrDefaultWorkers")
		e.constDef(s, "core/fx/stream.go", "defaultWorkers", "fxDefaultWorkers")
		e.shapeDef(s, "rest/handler/maxconnshandler.go", "MaxConnsHandler", "maxConnsShape")
		e.c05Details(s, "rest/handler/maxconnshandler.go", "MaxConnsHandler", "maxConnsDetails", map[string]bool{"syncx.NewLimit": true})
		e.shapeDef(s, "core/mr/mapreduce.go", "executeMappers", "executeMappersShape")
		e.c05Details(s, "core/mr/mapreduce.go", "executeMappers", "executeMappersDetails", none)
		e.c05Details(s, "core/mr/mapreduce.go", "mapReduceWithPanicChan", "mapReduceDetails", none)
		e.c05Details(s, "core/mr/mapreduce.go", "ForEach", "forEachDetails", none)
		e.shapeDef(s, "core/mr/mapreduce.go", "WithWorkers", "mrWithWorkersShape")
		e.shapeDef(s, "core/fx/stream.go", "Stream.walkLimited", "walkLimitedShape")
		e.c05Details(s, "core/fx/stream.go", "Stream.walkLimited", "walkLimitedDetails", none)
		e.shapeDef(s, "core/fx/stream.go", "Stream.Walk", "walkShape")
		e.shapeDef(s, "core/fx/stream.go", "WithWorkers", "fxWithWorkersShape")
		e.constDef(s, "core/mr/mapreduce.go", "minWorkers", "mrMinWorkers")
		e.constDef(s, "core/fx/stream.go", "minWorkers", "fxMinWorkers")
	})
}
