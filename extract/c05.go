package main

// C05 — concurrency caps: the synchronisation skeletons of every acquire/release site
// (acquire-before-spawn, release-in-defer) and the worker-count floor constants.
func init() {
	register("C05", func(s *source, e *emitter) {
		e.shapeDef(s, "core/syncx/limit.go", "NewLimit", "newLimitShape")
		e.shapeDef(s, "core/syncx/limit.go", "Limit.Borrow", "borrowShape")
		e.shapeDef(s, "core/syncx/limit.go", "Limit.Return", "returnShape")
		e.shapeDef(s, "core/syncx/limit.go", "Limit.TryBorrow", "tryBorrowShape")
		e.shapeDef(s, "core/syncx/timeoutlimit.go", "TimeoutLimit.Borrow", "tlBorrowShape")
		e.shapeDef(s, "core/syncx/timeoutlimit.go", "TimeoutLimit.Return", "tlReturnShape")
		e.shapeDef(s, "core/syncx/timeoutlimit.go", "TimeoutLimit.TryBorrow", "tlTryBorrowShape")
		e.shapeDef(s, "core/syncx/cond.go", "Cond.WaitWithTimeout", "condWaitShape")
		e.shapeDef(s, "core/syncx/cond.go", "Cond.Signal", "condSignalShape")
		e.shapeDef(s, "core/syncx/pool.go", "NewPool", "newPoolShape")
		e.shapeDef(s, "core/syncx/pool.go", "Pool.Get", "poolGetShape")
		e.shapeDef(s, "core/syncx/pool.go", "Pool.Put", "poolPutShape")
		e.shapeDef(s, "core/threading/taskrunner.go", "NewTaskRunner", "newTaskRunnerShape")
		e.shapeDef(s, "core/threading/taskrunner.go", "TaskRunner.Schedule", "scheduleShape")
		e.shapeDef(s, "core/threading/taskrunner.go", "TaskRunner.ScheduleImmediately", "scheduleImmShape")
		e.shapeDef(s, "core/threading/taskrunner.go", "TaskRunner.Wait", "trWaitShape")
		e.shapeDef(s, "core/rescue/recover.go", "Recover", "rescueRecoverShape")
		e.shapeDef(s, "core/threading/routines.go", "GoSafe", "goSafeShape")
		e.shapeDef(s, "core/threading/routines.go", "RunSafe", "runSafeShape")
		e.shapeDef(s, "core/threading/workergroup.go", "WorkerGroup.Start", "workerGroupShape")
		e.shapeDef(s, "rest/handler/maxconnshandler.go", "MaxConnsHandler", "maxConnsShape")
		e.shapeDef(s, "core/mr/mapreduce.go", "executeMappers", "executeMappersShape")
		e.shapeDef(s, "core/fx/stream.go", "Stream.walkLimited", "walkLimitedShape")
		e.shapeDef(s, "core/fx/stream.go", "Stream.Walk", "walkShape")
		e.constDef(s, "core/mr/mapreduce.go", "minWorkers", "mrMinWorkers")
		e.constDef(s, "core/fx/stream.go", "minWorkers", "fxMinWorkers")
	})
}
